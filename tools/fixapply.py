#!/usr/bin/env python3
"""helper used while preparing fix commits: fixapply.py <file> <<< JSON [[old,new],...]"""
import sys, json
p=sys.argv[1]; s=open(p).read()
for old,new in json.load(sys.stdin):
    assert s.count(old)==1, (s.count(old), old[:60])
    s=s.replace(old,new)
open(p,'w').write(s)
