#!/bin/sh
# tools/at_rev.sh <git rev of /repo> <command...> : run a check against a scratch worktree of /repo at <rev>
rev=$1; shift
wt=/root/scratch/wt_$$
git -C /repo worktree add -q --detach "$wt" "$rev" || exit 2
VERIF_REPO="$wt" "$@"; rc=$?
git -C /repo worktree remove --force "$wt"
exit $rc
