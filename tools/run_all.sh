#!/bin/sh
# tools/run_all.sh [tier] : run every check (in parallel, 8 at a time), print one line each
tier=${1:-quick}
cd "$(dirname "$0")/.."
ls harness/props/c*.py | sed 's/.*\/c\([0-9]*\).py/C\1/' | xargs -P 8 -I{} sh -c "./check {} $tier 2>&1 | tail -1 | cut -c1-220"
