#!/bin/sh
# tools/try_mutant.sh <mutant dir with patch.diff/demo.py/meta.json> <seeded id> <check ids...>
# 1. confirm the sub-agent's claims in its own worktree (suite still 300 passed; demo fails mutated / passes clean)
# 2. apply the patch to /repo, run the named checks (quick), undo the patch
# 3. keep the mutant under /verif/seeded/<id>/ with a record of what was run
d=$1; id=$2; shift 2
out=/verif/seeded/$id; mkdir -p $out
cp $d/patch.diff $d/demo.py $d/meta.json $out/ 2>/dev/null
log=$out/confirm.log; : > $log
echo "== suite on mutated worktree" >> $log
(cd $d && PYTHONPATH=$d/src /venv/bin/python -m pytest -q -p no:cacheprovider --timeout=900 2>&1 | tail -2) >> $log
echo "== demo on mutated (expect exit 1)" >> $log
(cd $d && PYTHONPATH=$d/src /venv/bin/python -W ignore demo.py > $out/demo_mutated.out 2>&1; echo "exit=$?" >> $log)
echo "== demo on clean /repo (expect exit 0)" >> $log
(cd $d && PYTHONPATH=/repo/src /venv/bin/python -W ignore demo.py > $out/demo_clean.out 2>&1; echo "exit=$?" >> $log)
git -C /repo diff --quiet || { echo "/repo is dirty, abort"; exit 2; }
git -C /repo apply $out/patch.diff || { echo "patch does not apply"; exit 2; }
for c in "$@"; do
  echo "== ./check $c quick (mutated /repo)" >> $log
  (cd /verif && ./check $c quick 2>&1 | tail -2 | cut -c1-700) >> $log
done
git -C /repo checkout -- .
cat $log
