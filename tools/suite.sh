#!/bin/sh
# run the repository's pinned suite (guard off); expected: "1 failed, 300 passed" (test_clstype is the baseline always-fail)
cd /repo && /venv/bin/python -m pytest -q -p no:cacheprovider --timeout=900 2>&1 | tail -2
