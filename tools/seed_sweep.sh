#!/bin/sh
# tools/seed_sweep.sh <from> <to> [tier] : every check with every seed in the range; prints only non-OK lines and a summary
cd "$(dirname "$0")/.."
tier=${3:-quick}
for s in $(seq $1 $2); do
  ls harness/props/c*.py | sed 's/.*\/c\([0-9]*\).py/C\1/' | VERIF_SEED=$s xargs -P 8 -I{} sh -c "VERIF_SEED=$s ./check {} $tier 2>&1 | tail -1 | cut -c1-200 | sed 's/^/seed=$s /'"
done
