#!/usr/bin/env python3
"""tools/mutant_prompt.py <suffix> <outdir> : write one brief per property (text of the property + scratch worktree only) for the
sub-agents that seed changes; the per-property list of kinds already used comes from tools/mutant_used.json"""
import json, sys, os
suffix, outdir = sys.argv[1], sys.argv[2]
here = os.path.dirname(os.path.abspath(__file__))
props = {}
for l in open(os.path.join(here, "..", "properties.jsonl")):
    d = json.loads(l); props[d["id"]] = d
used = json.load(open(os.path.join(here, "mutant_used.json")))
T = '''You are helping to evaluate a verification framework for the Python library compmec/nurbs (pure-Python NURBS/B-spline curves; sources under src/compmec/nurbs/: heavy.py, knotspace.py, functions.py, curves.py, calculus.py, advanced.py). You have your OWN scratch git worktree of the library at {wt} . Work ONLY inside that directory. Do not read or touch /verif or /repo (they are off limits; using anything from there would invalidate the experiment).

The semantic property under study ({pid}: {title}):

"{stmt}"

Quantified over: {quant}

YOUR TASK: write ONE realistic change (a "seeded bug") to the library source in {wt}/src that BREAKS this property while (1) everything still imports/compiles and (2) the repository's existing test suite still passes exactly as before. The suite is run with:
    cd {wt} && PYTHONPATH={wt}/src /venv/bin/python -m pytest -q -p no:cacheprovider --timeout=900
Run it once on the unchanged tree first and note the result line (in this sandbox: "301 passed, 2 skipped"; one test, tests/test_knotspace.py::TestGenerator::test_clstype, has a 2 s timeout and may fail under load - that one alone may flip). After your change the result must be the same. Always use /venv/bin/python with PYTHONPATH={wt}/src (there is an editable install of another copy; PYTHONPATH overrides it - verify with `python -c "import compmec.nurbs; print(compmec.nurbs.__file__)"`).

Requirements for the change:
- It must look like something a maintainer could plausibly write: a refactoring, a performance shortcut, a "simplification", a generalisation, a tidy-up with a plausible comment - not sabotage, no `if x == 0.123` special-casing, no randomness, no environment checks.
- It must need something SPECIFIC to manifest, not be exposed at once by ordinary use: an unusual input shape (particular multiplicity pattern, degree, weights, number type, interval), a multi-step sequence of operations on one object, two cooperating sites that each look fine alone, a particular argument form, an error path, state left over from an earlier call. The subtler and more specific, the better - but it must genuinely violate the property statement above on inputs inside the stated quantifier domain (valid inputs; do not rely on inputs the statement excludes).
- Kinds of change already used in earlier rounds for this property - do NOT reuse these ideas, find something different: {used}.
- Keep the change small (typically < 40 changed lines), in src/ only. Do not edit tests.

Deliverables, all written into {wt} (top level):
1. patch.diff - output of `git -C {wt} diff -- src` (the change itself must stay applied in the worktree too).
2. demo.py - a small standalone program (imports compmec.nurbs via PYTHONPATH, uses only the stdlib, numpy and fractions) that exercises the violation and checks the property on that input against an independent computation (e.g. a direct Cox-de Boor implementation with Fractions, or an algebraic identity). It must exit with status 1 (printing what is wrong) when run against the changed tree, and exit 0 when run against the unchanged library. Check this yourself (`git diff -- src > p; git checkout -- src; run; git apply p`). It must be deterministic.
3. meta.json - {{"property": "{pid}", "summary": "<what was changed and why it looks innocent>", "needs": "<exactly what is required for the violation to manifest, and what does NOT expose it>", "files": ["src/compmec/nurbs/..."]}}

Before finishing: re-run the full suite on the changed tree and confirm the result line equals the unchanged tree's; confirm demo.py exits 1 on the changed tree and 0 on the unchanged one; make sure patch.diff is current. Your final message should state the suite result, both demo exit codes, and a two-line description of the change.'''
os.makedirs(outdir, exist_ok=True)
for pid in sys.argv[3:]:
    d = props[pid]
    wt = "/tmp/mut/%s-%s" % (pid, suffix)
    open(os.path.join(outdir, pid + ".txt"), "w").write(T.format(wt=wt, pid=pid, title=d["title"], stmt=d["statement"],
                                                                 quant=d["quantifier"]["text"], used=used[pid]))
