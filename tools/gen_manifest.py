#!/usr/bin/env python3
"""writes MANIFEST.json from the table below (kept in one place so it stays valid)"""
import json, os
V = os.path.dirname(os.path.dirname(os.path.abspath(__file__)))
props = [json.loads(l) for l in open(os.path.join(V, "properties.jsonl"))]
have = {f[:-3].upper() for f in os.listdir(os.path.join(V, "harness", "props")) if f.startswith("c") and f.endswith(".py")}
NOTES = json.load(open(os.path.join(V, "tools", "levels.json")))
REG = json.load(open(os.path.join(V, "lean", "theorems.json")))
checks, na = [], []
for p in props:
    pid = p["id"]
    if pid not in have:
        na.append(dict(property_id=pid, reason="check not built yet (work in progress; see DESIGN.md section 7)"))
        continue
    n = NOTES.get(pid, NOTES["default"])
    checks.append(dict(
        property_id=pid,
        quick_cmd="./check %s quick" % pid,
        thorough_cmd="./check %s thorough" % pid,
        evidence_file="evidence/%s.json" % pid,
        replay_cmd_template="./check %s --replay {path}" % pid,
        engine="lean-model+correspondence",
        level_claimed=dict(category=(n.get("category", "proof") if REG.get(pid) else "other"), text=n["text"], design_ref="DESIGN.md section 7, " + pid),
        level_note=n["note"],
        technique=n.get("technique", "Lean 4 theorems about a hand-written executable model + differential correspondence with the implementation + Lean-decided oracles on the implementation's outputs"),
    ))
m = dict(
    version=1,
    setup_cmd="cd lean && lake build NurbsVerif driver",
    hooks=dict(guard="COMPMEC_NURBS_VERIF", enable="no source hooks are needed: the public API and compmec.nurbs.heavy expose every observation point; checks import /repo/src of the working tree in-process",
               baseline_off_cmd="cd /repo && /venv/bin/python -m pytest -ra -q -p no:cacheprovider --timeout=900 --continue-on-collection-errors",
               source_commits=[], add_only=True),
    engines=[dict(name="lean-model+correspondence", path="lean/ harness/", serves_properties=sorted(have),
                  kind_free_text="Lean 4 model + theorems (lean/NurbsVerif), compiled Mathlib-free driver (lean/Main.lean), python correspondence harness (harness/)")],
    checks=checks,
    notes="See DESIGN.md. KNOWN_FINDINGS.txt lists repaired defects (fix: commits in /repo) and recorded findings.",
    not_applicable=na,
)
json.dump(m, open(os.path.join(V, "MANIFEST.json"), "w"), indent=1)
print("checks:", len(checks), "not_applicable:", len(na))
