#!/bin/sh
# tools/with_mutant.sh <seeded id> <check id> [tier] : apply the seeded patch to /repo, run one check, undo the patch
id=$1; c=$2; tier=${3:-quick}
git -C /repo diff --quiet || { echo "/repo is dirty, abort"; exit 2; }
git -C /repo apply /verif/seeded/$id/patch.diff || { echo "patch does not apply"; exit 2; }
(cd /verif && ./check $c $tier 2>&1 | tail -2 | cut -c1-700)
git -C /repo checkout -- .
