from ref import *
rng = random.Random(11)
def snap(c): return (list(c.knotvector), c.ctrlpoints, c.weights)
stats={}
def note(*k): stats[k]=stats.get(k,0)+1; return stats[k]
def dN(U,i,p,u):
    # derivative of N_{i,p} at u interior to span
    if p==0: return F(0)
    r=F(0)
    if U[i+p]!=U[i]: r+= F(p)/(U[i+p]-U[i])*N(U,i,p-1,u)
    if U[i+p+1]!=U[i+1]: r-= F(p)/(U[i+p+1]-U[i+1])*N(U,i+1,p-1,u)
    return r
def dceval(U,P,u,W=None):
    p=0
    while U[p]==U[p+1]: p+=1
    n=len(U)-p-1
    if W is None: return sum(dN(U,i,p,u)*P[i] for i in range(n))
    A=sum(N(U,i,p,u)*W[i]*P[i] for i in range(n)); dA=sum(dN(U,i,p,u)*W[i]*P[i] for i in range(n))
    w=sum(N(U,i,p,u)*W[i] for i in range(n)); dw=sum(dN(U,i,p,u)*W[i] for i in range(n))
    return (dA*w-A*dw)/(w*w)
for trial in range(150):
    p = rng.randint(0,4); nint=rng.randint(0,3)
    lo=rng.choice([0,0,-1]); hi=lo+rng.choice([1,2])
    U = randkv(rng,p,nint,maxmult=p+1,lo=lo,hi=hi)
    n = len(U)-p-1
    P = [F(rng.randint(-9,9)) for _ in range(n)]
    rational = rng.random()<.3
    W = [F(rng.randint(1,5)) for _ in range(n)] if rational else None
    c = Curve(U,P,W); before=snap(c)
    cat=("rat" if rational else "poly", "bezier" if n==p+1 else "spline", "p=%d"%p)
    try:
        d = Derivate(c)
    except Exception as e:
        k=note("EXC "+type(e).__name__,*cat)
        if k<2: print("EXC",cat,type(e).__name__,e,U,P,W)
        continue
    if snap(c)!=before: print("MODIFIED")
    if (d.knotvector[0],d.knotvector[-1])!=(U[0],U[-1]): note("INTERVAL WRONG",*cat); print("INTERVAL", U, list(d.knotvector)); continue
    br=sorted(set(U)); good=True; tp=set()
    for a,b in zip(br[:-1],br[1:]):
        for t in (F(1,3),F(1,2),F(4,5)):
            u=a+(b-a)*t
            try: v=d(u)
            except Exception as e:
                good=False; note("EVALEXC "+type(e).__name__,*cat); break
            tp.add(type(v).__name__)
            r=dceval(U,P,u,W)
            if abs(float(v)-float(r))>1e-9*max(1,abs(float(r))): good=False; 
            if not good:
                if note("WRONGVAL",*cat)<2: print("WRONG",cat,U,P,W,u,v,r,snap(d))
                break
        if not good: break
    note("ok" if good else "WRONG",*cat, tuple(sorted(tp)))
for k in sorted(stats): print(k, stats[k])
