from ref import *
rng = random.Random(9)
def snap(c): return (list(c.knotvector), c.ctrlpoints, c.weights)
stats={}
def note(*k): stats[k]=stats.get(k,0)+1; return stats[k]
def mk(p,nint,rational,maxmult=None):
    U = randkv(rng,p,nint,maxmult=maxmult or max(p,1))
    n = len(U)-p-1
    P = [F(rng.randint(-9,9)) for _ in range(n)]
    W = [F(rng.randint(1,5)) for _ in range(n)] if rational else None
    return U,P,W
us = [F(k,23) for k in range(24)]
import operator
for trial in range(200):
    pa=rng.randint(0,3); pb=rng.randint(0,3)
    ra = rng.random()<.25; rb = rng.random()<.25
    A=mk(pa,rng.randint(0,2),ra); B=mk(pb,rng.randint(0,2),rb)
    a=Curve(*A); b=Curve(*B)
    sa,sb=snap(a),snap(b)
    for name,op in (("add",operator.add),("sub",operator.sub),("mul",operator.mul),("div",operator.truediv)):
        cat = (name, "samedeg" if pa==pb else "diffdeg", "rat" if (ra or rb) else "poly", "interior" if (len(A[0])>2*pa+2 or len(B[0])>2*pb+2) else "bezier")
        try:
            if name=="div":
                # need B no zero: make B positive
                if any(x<=0 for x in B[1]): 
                    b2 = Curve(B[0],[abs(x)+1 for x in B[1]],B[2]); Bv=(B[0],[abs(x)+1 for x in B[1]],B[2])
                else: b2=b; Bv=B
                r = op(a,b2)
            else:
                Bv=B; r = op(a,b)
        except Exception as e:
            k=note("EXC "+type(e).__name__, *cat)
            if k<2: print("EXC",cat,type(e).__name__,e,A,B)
            continue
        try:
            good = all(r(u)==op(ceval(*[A[0],A[1]],u,A[2]), ceval(Bv[0],Bv[1],u,Bv[2])) for u in us)
        except Exception as e:
            k=note("EVALEXC "+type(e).__name__, *cat); 
            if k<2: print("EVALEXC",cat,type(e).__name__,e,A,B)
            continue
        k=note("ok" if good else "WRONG", *cat)
        if not good and k<2: print("WRONG",cat,A,B,snap(r))
    if snap(a)!=sa or snap(b)!=sb: print("OPERAND MODIFIED")
for k in sorted(stats): print(k, stats[k])
