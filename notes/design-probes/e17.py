from ref import *
rng=random.Random(12)
bad=0
for trial in range(100):
    p=rng.randint(0,4); U=randkv(rng,p,rng.randint(0,3),maxmult=p+1,lo=rng.choice([0,-1]),hi=rng.choice([1,2,3]))
    n=len(U)-p-1; P=[F(rng.randint(-9,9)) for _ in range(n)]
    c=Curve(U,P)
    ex=sum(P[i]*(U[i+p+1]-U[i])/(p+1) for i in range(n))
    for m in (None,"closed-newton-cotes","open-newton-cotes","chebyshev","gauss-legendre"):
        try:
            v=Integrate.scalar(c,method=m) if not (m=="closed-newton-cotes" and p==0) else Integrate.scalar(c,method=m,nnodes=2)
        except Exception as e:
            print("EXC",m,p,type(e).__name__,e); bad+=1; continue
        if m in (None,"closed-newton-cotes","open-newton-cotes"):
            if v!=ex or not isinstance(v,(F,int)): bad+=1; print("WRONG",m,U,P,v,ex,type(v))
        else:
            if abs(float(v)-float(ex))>1e-9*max(1,abs(float(ex))): bad+=1; print("WRONGF",m,U,P,v,ex)
print("scalar bad",bad)
# Integrate.function exactness
bad=0
for trial in range(60):
    p=rng.randint(0,3); U=randkv(rng,p,rng.randint(0,3),maxmult=p+1,lo=-1,hi=2)
    kv=KnotVector(U); nn=rng.randint(1,6)
    coef=[F(rng.randint(-5,5)) for _ in range(nn)]
    f=lambda u: sum(c*u**k for k,c in enumerate(coef))
    ex=sum(c*(F(2)**(k+1)-F(-1)**(k+1))/(k+1) for k,c in enumerate(coef))
    for m in ("closed-newton-cotes","open-newton-cotes","chebyshev","gauss-legendre"):
        if m=="closed-newton-cotes" and nn<2: continue
        v=Integrate.function(kv,f,m,nn)
        if abs(float(v)-float(ex))>1e-9*max(1,abs(float(ex))) or (m.endswith("cotes") and v!=ex): bad+=1; print("WRONG",m,nn,v,ex)
print("function bad",bad)
# polyline length
import numpy as np
bad=0
for trial in range(30):
    n=rng.randint(2,6); U=[F(0)]*2+sorted(set(F(rng.randint(1,19),20) for _ in range(n-2)))+[F(1)]*2
    n=len(U)-2
    pts=[np.array([F(rng.randint(-5,5)),F(rng.randint(-5,5))]) for _ in range(n)]
    c=Curve(U,pts)
    ex=sum(float(np.sqrt(float((pts[i+1]-pts[i])@(pts[i+1]-pts[i])))) for i in range(n-1))
    for Ux,ptsx in ((U,pts),([float(u) for u in U],[np.array([float(a),float(b)]) for a,b in pts])):
        try:
            v=Integrate.lenght(Curve(Ux,ptsx))
            if abs(float(v)-ex)>1e-9*max(1,ex): bad+=1; print("LEN WRONG",U,v,ex)
        except Exception as e: bad+=1; print("LEN EXC",type(e).__name__,e, type(Ux[0]))
print("lenght bad",bad)
