from ref import *
rng = random.Random(10)
def snap(c): return (list(c.knotvector), c.ctrlpoints, c.weights)
U=[F(0),0,0,F(1,3),1,1,1]; P=[F(1),3,2,5]; W=[F(1),2,3,1]
us=[F(k,7) for k in range(8)]
for Wx in (None,W):
    a=Curve(U,P,Wx); s=F(3,2)
    tests = {
     "s+A": (lambda: s+a, lambda v: s+v), "A+s": (lambda: a+s, lambda v: v+s),
     "s-A": (lambda: s-a, lambda v: s-v), "A-s": (lambda: a-s, lambda v: v-s),
     "s*A": (lambda: s*a, lambda v: s*v), "A*s": (lambda: a*s, lambda v: v*s),
     "A/s": (lambda: a/s, lambda v: v/s), "s/A": (lambda: s/a, lambda v: s/v), "1/A": (lambda: 1/a, lambda v: 1/v),
     "-A": (lambda: -a, lambda v: -v),
    }
    for k,(f,g) in tests.items():
        try:
            r=f()
            ok = all(r(u)==g(ceval(U,P,u,Wx)) for u in us)
            print("rat" if Wx else "poly", k, "ok" if ok else "WRONG", "" if ok else snap(r))
        except Exception as e: print("rat" if Wx else "poly",k,"EXC",type(e).__name__,e)
# vector ctrl points and matmul
import numpy as np
P2=[np.array([F(1),F(2)]),np.array([F(3),F(-1)]),np.array([F(0),F(4)]),np.array([F(2),F(2)])]
Q2=[np.array([F(2),F(1)]),np.array([F(1),F(1)]),np.array([F(-3),F(2)])]
V=[F(0),0,F(1,2),1,1]
a=Curve(U,P2); b=Curve(V,Q2)
def cev(U,P,u): 
    p=0
    while U[p]==U[p+1]: p+=1
    n=len(U)-p-1
    return sum(N(U,i,p,u)*P[i] for i in range(n))
try:
    r=a@b; print("A@B", all(r(u)==cev(U,P2,u)@cev(V,Q2,u) for u in us), list(r.knotvector))
except Exception as e: print("A@B EXC", type(e).__name__, e)
M=np.array([[F(1),F(2)],[F(0),F(1)]])
for k,f,g in (("M@A",lambda: M@a, lambda v: M@v),("A@M",lambda: a@M, lambda v: v@M),("A@vec",lambda: a@np.array([F(1),F(1)]), lambda v: v@np.array([F(1),F(1)]))):
    try:
        r=f(); print(k, all(np.all(r(u)==g(cev(U,P2,u))) for u in us), type(r))
    except Exception as e: print(k,"EXC",type(e).__name__,e)
try:
    r=a+b; print("vec A+B", all(np.all(r(u)==cev(U,P2,u)+cev(V,Q2,u)) for u in us))
except Exception as e: print("vec A+B EXC", type(e).__name__, e)
try:
    c = Curve([F(0),0,2,2],[1,2]); print(a+c)
except Exception as e: print("diff interval", type(e).__name__)
