import Mathlib.Tactic.Ring
import Mathlib.Tactic.FieldSimp
import Mathlib.Tactic.Linarith
import Mathlib.Tactic.Positivity
import Mathlib.Algebra.BigOperators.Intervals
import Mathlib.Algebra.Order.Field.Rat

open Finset

def N (t : Nat → Rat) : Nat → Nat → Rat → Rat
  | 0,     i, u => if t i ≤ u ∧ u < t (i+1) then 1 else 0
  | (j+1), i, u =>
      (u - t i) / (t (i+j+1) - t i) * N t j i u
    + (t (i+j+2) - u) / (t (i+j+2) - t (i+1)) * N t j (i+1) u

theorem N_eq_zero_of_lt (t : Nat → Rat) (ht : Monotone t) :
    ∀ j i u, u < t i → N t j i u = 0 := by
  intro j
  induction j with
  | zero => intro i u h; simp only [N]; rw [if_neg]; intro ⟨h1, _⟩; linarith
  | succ j ih =>
    intro i u h
    simp only [N]
    rw [ih i u h, ih (i+1) u (lt_of_lt_of_le h (ht (Nat.le_succ i)))]
    ring

theorem N_eq_zero_of_ge (t : Nat → Rat) (ht : Monotone t) :
    ∀ j i u, t (i+j+1) ≤ u → N t j i u = 0 := by
  intro j
  induction j with
  | zero => intro i u h; simp only [N]; rw [if_neg]; intro ⟨_, h2⟩; simp at h; linarith
  | succ j ih =>
    intro i u h
    simp only [N]
    have h1 : t (i+j+1) ≤ u := le_trans (ht (by omega)) h
    have h2 : t (i+1+j+1) ≤ u := by
      have : i+1+j+1 = i+(j+1)+1 := by omega
      rw [this]; exact h
    rw [ih i u h1, ih (i+1) u h2]
    ring

/-- the second coefficient is `1 - ω` whenever it matters -/
theorem second_coeff (t : Nat → Rat) (ht : Monotone t) (j i : Nat) (u : Rat) :
    (t (i+j+2) - u) / (t (i+j+2) - t (i+1)) * N t j (i+1) u
      = (1 - (u - t (i+1)) / (t (i+1+j+1) - t (i+1))) * N t j (i+1) u := by
  have e : i+1+j+1 = i+j+2 := by omega
  rw [e]
  by_cases h : t (i+j+2) - t (i+1) = 0
  · -- empty support
    have : N t j (i+1) u = 0 := by
      by_cases hu : u < t (i+1)
      · exact N_eq_zero_of_lt t ht j (i+1) u hu
      · apply N_eq_zero_of_ge t ht j (i+1) u
        rw [e]; push Not at hu; linarith
    rw [this]; ring
  · field_simp
    ring

theorem partition_of_unity (t : Nat → Rat) (ht : Monotone t) :
    ∀ j m u, j ≤ m → t m ≤ u → u < t (m+1) → ∑ i ∈ range (m+1), N t j i u = 1 := by
  intro j
  induction j with
  | zero =>
    intro m u _ h1 h2
    rw [sum_range_succ]
    have : ∑ i ∈ range m, N t 0 i u = 0 := by
      apply sum_eq_zero
      intro i hi
      apply N_eq_zero_of_ge t ht 0 i u
      have : i + 0 + 1 ≤ m := by simp at hi; omega
      exact le_trans (ht this) h1
    rw [this]; simp [N, h1, h2]
  | succ j ih =>
    intro m u hj h1 h2
    have key : ∀ i, N t (j+1) i u
        = (u - t i) / (t (i+j+1) - t i) * N t j i u
          + (1 - (u - t (i+1)) / (t (i+1+j+1) - t (i+1))) * N t j (i+1) u := by
      intro i
      rw [← second_coeff t ht j i u]; rfl
    simp only [key]
    rw [sum_add_distrib]
    -- shift the second sum
    have s2 : ∑ i ∈ range (m+1), (1 - (u - t (i+1)) / (t (i+1+j+1) - t (i+1))) * N t j (i+1) u
        = ∑ i ∈ range (m+1), (1 - (u - t i) / (t (i+j+1) - t i)) * N t j i u
          - (1 - (u - t 0) / (t (0+j+1) - t 0)) * N t j 0 u := by
      rw [sum_range_succ' (fun i => (1 - (u - t i) / (t (i+j+1) - t i)) * N t j i u) m]
      rw [sum_range_succ (fun i => (1 - (u - t (i+1)) / (t (i+1+j+1) - t (i+1))) * N t j (i+1) u) m]
      have z : N t j (m+1) u = 0 := N_eq_zero_of_lt t ht j (m+1) u h2
      rw [z]; ring
    rw [s2]
    have z0 : N t j 0 u = 0 := by
      apply N_eq_zero_of_ge t ht j 0 u
      exact le_trans (ht (by omega)) h1
    rw [z0, mul_zero, sub_zero, ← sum_add_distrib]
    have : ∀ i, (u - t i) / (t (i+j+1) - t i) * N t j i u + (1 - (u - t i) / (t (i+j+1) - t i)) * N t j i u = N t j i u := by
      intro i; ring
    simp only [this]
    rw [ih m u (by omega) h1 h2]
#print axioms partition_of_unity
