from ref import *
rng = random.Random(3)
bad=0; tot=0
def snap(c): return (list(c.knotvector), c.ctrlpoints, c.weights)
for trial in range(300):
    p = rng.randint(0,4); nint=rng.randint(0,3)
    lo = rng.choice([0,-1,-2]); hi = lo+rng.choice([1,2,3])
    U = randkv(rng,p,nint,maxmult=p+1,lo=lo,hi=hi)
    n = len(U)-p-1
    P = [F(rng.randint(-9,9)) for _ in range(n)]
    W = [F(rng.randint(1,5)) for _ in range(n)] if rng.random()<.5 else None
    c = Curve(U,P,W)
    k = rng.randint(1,3)
    cand = sorted(set(U[p+1:n])) + [lo + F(rng.randint(0,20),20)*(hi-lo) for _ in range(3)] + ([F(0)] if lo<0<hi else [])
    nodes = [rng.choice(cand) for _ in range(k)]
    before = snap(c)
    newU = sorted(U+nodes)
    # validity expected
    okexp = all(lo < x < hi for x in nodes) and all(newU.count(x) <= p+1 for x in set(nodes))
    tot+=1
    try:
        c.knot_insert(nodes)
    except ValueError as e:
        if okexp: bad+=1; print("unexpected ValueError", U, nodes, e)
        if snap(c)!=before: bad+=1; print("NOT ATOMIC", U, nodes, snap(c))
        continue
    except Exception as e:
        bad+=1; print("EXC", type(e).__name__, e, U, nodes, "changed" if snap(c)!=before else ""); continue
    if not okexp:
        bad+=1; print("accepted invalid", U, nodes, list(c.knotvector)); continue
    if list(c.knotvector)!=newU: bad+=1; print("KV", U,nodes,list(c.knotvector))
    us = sorted(set(newU)) + [lo+F(rng.randint(0,100),100)*(hi-lo) for _ in range(5)]
    for u in us:
        a = ceval(U,P,u,W); b = c(u); b2 = ceval(list(c.knotvector), list(c.ctrlpoints), u, list(c.weights) if c.weights else None)
        if a!=b or a!=b2:
            bad+=1; print("VAL", U,P,W,nodes,u,a,b,b2); break
print(bad,tot)
