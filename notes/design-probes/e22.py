from ref import *
from copy import copy
class Pt:
    """minimal point: only Pt+Pt, scalar*Pt, Pt*scalar"""
    def __init__(s,x,y): s.x,s.y=x,y
    def __add__(s,o):
        if not isinstance(o,Pt): return NotImplemented
        return Pt(s.x+o.x,s.y+o.y)
    def __rmul__(s,k):
        if isinstance(k,Pt): return NotImplemented
        return Pt(k*s.x,k*s.y)
    def __mul__(s,k):
        if isinstance(k,Pt): return NotImplemented
        return Pt(k*s.x,k*s.y)
    def __eq__(s,o): return isinstance(o,Pt) and (s.x,s.y)==(o.x,o.y)
    def __repr__(s): return f"Pt({s.x},{s.y})"
U=[F(0),0,0,F(1,3),F(1,2),1,1,1]
P=[Pt(F(i),F(i*i-2)) for i in range(5)]
def ref(u):
    return Pt(sum(N(U,i,2,u)*P[i].x for i in range(5)), sum(N(U,i,2,u)*P[i].y for i in range(5)))
def attempt(name,f):
    try: print(name, f())
    except Exception as e: print(name,"EXC",type(e).__name__,e)
c=None
def mk():
    global c; c=Curve(U,P); return "built"
attempt("build",mk)
attempt("eval", lambda: (c(F(1,4)), ref(F(1,4)), c(F(1,4))==ref(F(1,4))))
attempt("eval seq", lambda: c([F(0),F(1,2),F(1)]))
def ins():
    d=copy(c); d.knot_insert([F(1,4),F(1,2)]); return all(d(F(k,9))==ref(F(k,9)) for k in range(10))
attempt("insert", ins)
def elev():
    d=copy(c); d.degree_increase(1); return all(d(F(k,9))==ref(F(k,9)) for k in range(10))
attempt("elevate", elev)
def spl():
    ps=c.split([F(1,4)]); return [pc(pc.knotvector[0])==ref(pc.knotvector[0]) for pc in ps], all(ps[1](F(k,9))==ref(F(k,9)) for k in range(3,10))
attempt("split", spl)
# numpy float64 / int / big rationals
import numpy as np
Uf=[np.float64(u) for u in U]; Pf=[np.float64(i*i-2) for i in range(5)]
cf=Curve(Uf,Pf); 
attempt("np.float64 eval", lambda: (cf(np.float64(0.25)), float(ceval(U,[F(i*i-2) for i in range(5)],F(1,4)))))
attempt("np.float64 * curve", lambda: type(np.float64(2)*cf))
attempt("curve * np.float64", lambda: type(cf*np.float64(2)))
big=F(10**30+1,10**30); Ub=[F(0),0,0,big/3,big/2,big,big,big]; Pb=[F(10**25+i,7**20) for i in range(5)]
cb=Curve(Ub,Pb)
attempt("big eval", lambda: cb(big/4)==ceval(Ub,Pb,big/4))
def bigops():
    d=copy(cb); d.knot_insert([big/5]); d.degree_increase(1); ok1=all(d(big*F(k,9))==ceval(Ub,Pb,big*F(k,9)) for k in range(10))
    d.degree_decrease(1); d.knot_remove([big/5]); return ok1, list(d.ctrlpoints)==Pb, list(d.knotvector)==Ub
attempt("big ops", bigops)
attempt("big integrate", lambda: Integrate.scalar(cb)==sum(Pb[i]*(Ub[i+3]-Ub[i])/3 for i in range(5)))
def bigfit():
    d=Curve(Ub); d.fit_curve(cb); return list(d.ctrlpoints)==Pb
attempt("big fit", bigfit)
attempt("big add", lambda: all((cb+cb)(big*F(k,9))==2*ceval(Ub,Pb,big*F(k,9)) for k in range(10)))
attempt("big mul", lambda: all((cb*cb)(big*F(k,9))==ceval(Ub,Pb,big*F(k,9))**2 for k in range(10)))
