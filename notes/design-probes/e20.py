from ref import *
from copy import copy
rng=random.Random(15)
stats={}
def note(*k): stats[k]=stats.get(k,0)+1; return stats[k]
def snap(c): return (list(c.knotvector), c.ctrlpoints, c.weights)
def eq(a,b):
    try: return a==b
    except Exception as e: return "EXC "+type(e).__name__
for trial in range(120):
    p=rng.randint(0,3); U=randkv(rng,p,rng.randint(0,2),maxmult=max(p,1)); n=len(U)-p-1
    P=[F(rng.randint(-9,9)) for _ in range(n)]
    rational=rng.random()<.3
    W=[F(rng.randint(1,5)) for _ in range(n)] if rational else None
    cat="rat" if rational else "poly"
    a=Curve(U,P,W); sa=snap(a)
    note("reflexive",cat,str(eq(a,a)))
    b=copy(a); note("copy eq",cat,str(eq(a,b)),str(eq(b,a)))
    # refined copy
    b=copy(a); node=F(rng.randint(1,19),20)
    if sorted(U+[node]).count(node)<=p+1:
        b.knot_insert([node])
        note("refined: (coarse==fine, fine==coarse)",cat,str(eq(a,b)),str(eq(b,a)), "ne:",str(eq(a,b) if isinstance(eq(a,b),str) else (a!=b)))
    b=copy(a); b.degree_increase(1)
    note("elevated: (low==high, high==low)",cat,str(eq(a,b)),str(eq(b,a)))
    # perturbed
    b=copy(a); Q=list(P); Q[rng.randrange(n)]+=F(1,1000); b.ctrlpoints=Q
    note("perturbed",cat,str(eq(a,b)),str(eq(b,a)))
    b=copy(a); b.knot_insert([node]) if sorted(U+[node]).count(node)<=p+1 else None
    Q=list(b.ctrlpoints); Q[-1]+=F(1,1000); b.ctrlpoints=Q
    note("perturbed refined (last pt)",cat,str(eq(a,b)),str(eq(b,a)))
    if rational:
        b=Curve(U,P,[2*w for w in W]); note("scaled weights same function",str(eq(a,b)))
        W2=list(W); W2[0]+=1; 
        if n>1: b=Curve(U,P,W2); note("different weights (diff function)",str(eq(a,b)))
    else:
        b=Curve(U,P,[F(1)]*n); note("poly vs unit-weight rational",str(eq(a,b)),str(eq(b,a)))
        if n>1:
            b=Curve(U,P,[F(1)]+[F(2)]*(n-1)); same=all(a(F(k,11))==b(F(k,11)) for k in range(12))
            note("poly vs nonunit rational, same fn=%s"%same,str(eq(a,b)),str(eq(b,a)))
    if snap(a)!=sa: print("MODIFIED")
print(eq(Curve([0,0,1,1],[1,2]),3), eq(Curve([0,0,1,1],[1,2]),"a"), Curve([0,0,1,1],[1,2])!=3)
print(eq(Curve([0,0,1,1],[1,2]),Curve([0,0,2,2],[1,2])))
print(eq(Curve([0,0,1,1]),Curve([0,0,1,1])), eq(Curve([0,0,1,1]),Curve([0,0,1,1],[1,2])))
for k in sorted(stats): print(k,stats[k])
