from ref import *
rng=random.Random(13)
def inner_exact(f,g,breaks,deg):
    # exact integral of f*g piecewise poly of total degree<=deg on breaks using open NC
    nn=deg+1
    x=heavy.NodeSample.open_linspace(nn); w=heavy.IntegratorArray.open_newton_cotes(nn)
    return sum((b-a)*sum(wi*f(a+(b-a)*xi)*g(a+(b-a)*xi) for wi,xi in zip(w,x)) for a,b in zip(breaks[:-1],breaks[1:]))
stats={}
def note(*k): stats[k]=stats.get(k,0)+1; return stats[k]
for trial in range(60):
    p=rng.randint(0,3); q=rng.randint(0,3)
    U=randkv(rng,p,rng.randint(0,2),maxmult=max(p,1)); V=randkv(rng,q,rng.randint(0,2),maxmult=max(q,1))
    n=len(U)-p-1; m=len(V)-q-1
    P=[F(rng.randint(-9,9)) for _ in range(n)]
    src=Curve(U,P); tgt=Curve(V)
    err=tgt.fit_curve(src)
    Q=list(tgt.ctrlpoints)
    br=sorted(set(U)|set(V))
    uniform = len(set(b-a for a,b in zip(br[:-1],br[1:])))==1
    res=lambda u: ceval(U,P,u)-ceval(V,Q,u)
    orth=[inner_exact(res,(lambda u,i=i: N(V,i,q,u)),br,max(p,q)+q) for i in range(m)]
    isorth=all(o==0 for o in orth)
    l2=inner_exact(res,res,br,2*max(p,q))
    note("orth" if isorth else "NOT ORTH", "uniform" if uniform else "nonuniform")
    ratio = (err/l2) if l2!=0 else None
    note("err ratio", str(ratio) if ratio in (None,1,F(1,2)) else "other", "uniform" if uniform else "nonuniform")
    if err<0: print("NEG ERR")
    if (l2==0)!=(err==0): print("ZERO MISMATCH",err,l2)
for k in sorted(stats): print(k,stats[k])
