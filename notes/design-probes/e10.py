from ref import *
rng = random.Random(7)
def snap(c): return (list(c.knotvector), c.ctrlpoints, c.weights)
stats={}
def note(k): stats[k]=stats.get(k,0)+1
for trial in range(150):
    p = rng.randint(0,3); nint=rng.randint(0,3)
    lo = rng.choice([0,0,-1]); hi=lo+rng.choice([1,2])
    U = randkv(rng,p,nint,maxmult=p+1,lo=lo,hi=hi)
    n = len(U)-p-1
    P = [F(rng.randint(-9,9)) for _ in range(n)]
    rational = rng.random()<.35
    W = [F(rng.randint(1,5)) for _ in range(n)] if rational else None
    c = Curve(U,P,W)
    before=snap(c)
    mode = rng.choice(["none","nodes"])
    cand = sorted(set(U)) + [lo+F(rng.randint(0,20),20)*(hi-lo) for _ in range(3)]
    nodes = [rng.choice(cand) for _ in range(rng.randint(0,3))]
    try:
        pieces = c.split() if mode=="none" else c.split(nodes)
    except Exception as e:
        note(("split exc "+type(e).__name__, rational, mode)); 
        if stats[("split exc "+type(e).__name__, rational,mode)]<3: print("SPLIT EXC", type(e).__name__, e, U, W, nodes)
        continue
    if snap(c)!=before: print("split MODIFIED operand")
    cuts = sorted(set([U[0],U[-1]] + (list(U) if mode=="none" else nodes)))
    exp_intervals = list(zip(cuts[:-1],cuts[1:]))
    got_intervals = [(pc.knotvector[0], pc.knotvector[-1]) for pc in pieces]
    if got_intervals!=exp_intervals:
        note("INTERVALS WRONG"); print("INTERVALS", U, nodes, mode, got_intervals, exp_intervals); continue
    good=True
    for pc,(a,b) in zip(pieces,exp_intervals):
        V=list(pc.knotvector); q=pc.degree
        if q!=p or V[:p+1]!=[a]*(p+1) or V[-p-1:]!=[b]*(p+1): good=False; print("piece not clamped", V)
        for u in [a, b, (a+b)/2, a+(b-a)/3]:
            ref = ceval(U,P,u,W)
            # at right end b interior, original is right-continuous; the piece takes left limit. compare left limit if discontinuity
            val = pc(u)
            if val!=ref:
                if u==b and b!=U[-1]:
                    # left limit: evaluate orig slightly... use piece's claim vs limit from polynomial; accept if U.count(b)==p+1 
                    if U.count(b)>=p+1: continue
                good=False; print("PIECE VAL", U,P,W,nodes,(a,b),u,val,ref); break
    note(("split ok" if good else "split WRONG", rational))
    # join
    if len(pieces)>1:
        try:
            j = pieces[0]
            for pc in pieces[1:]:
                j = j | pc
        except Exception as e:
            note(("join exc "+type(e).__name__, rational)); 
            if stats[("join exc "+type(e).__name__, rational)]<3: print("JOIN EXC", type(e).__name__, e, U, W, nodes, mode)
            continue
        us = [lo+F(k,37)*(hi-lo) for k in range(38)]
        goodj = all(j(u)==ceval(U,P,u,W) for u in us)
        kvsame = list(j.knotvector)==U
        note(("join ok" if goodj else "join WRONG", rational, "kv same" if kvsame else "kv differs"))
        if not goodj and stats[("join WRONG", rational, "kv same" if kvsame else "kv differs")]<3: print("JOIN WRONG", U,P,W,nodes,mode,snap(j))
        if goodj and not kvsame and rng.random()<.2: print("kv differs example", U, list(j.knotvector), cuts)
print(stats)
