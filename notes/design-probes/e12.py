from ref import *
rng = random.Random(8)
def snap(c): return (list(c.knotvector), c.ctrlpoints, c.weights)
stats={}
def note(k): stats[k]=stats.get(k,0)+1
for trial in range(200):
    p = rng.randint(0,3); nint=rng.randint(0,3)
    lo = 0; hi=1
    U = randkv(rng,p,nint,maxmult=max(p,1),lo=lo,hi=hi)
    n = len(U)-p-1
    P = [F(rng.randint(-9,9)) for _ in range(n)]
    c = Curve(U,P)
    cand = sorted(set(U)) + [lo+F(rng.randint(0,20),20)*(hi-lo) for _ in range(3)]
    nodes = [rng.choice(cand) for _ in range(rng.randint(1,3))]
    pieces = c.split(nodes)
    if len(pieces)<2: continue
    try:
        j = pieces[0]
        for pc in pieces[1:]:
            j = j | pc
    except Exception as e:
        note(("join exc "+type(e).__name__,p)); 
        if stats[("join exc "+type(e).__name__,p)]<3: print("JOIN EXC", type(e).__name__, e, U, nodes)
        continue
    us = [lo+F(k,37)*(hi-lo) for k in range(38)]
    goodj = all(j(u)==ceval(U,P,u) for u in us)
    kvsame = list(j.knotvector)==U
    note(("join ok" if goodj else "join WRONG", "p=%d"%p, "kv same" if kvsame else "kv differs"))
    if not goodj and stats[("join WRONG", "p=%d"%p, "kv same" if kvsame else "kv differs")]<3: print("JOIN WRONG", U,P,nodes,snap(j))
    if goodj and not kvsame: print("kv differs", U, list(j.knotvector), nodes)
print(stats)
