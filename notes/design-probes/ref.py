import warnings; warnings.filterwarnings("ignore")
from fractions import Fraction as F
from compmec.nurbs import Curve, KnotVector, Function, GeneratorKnotVector, Derivate, Integrate, Projection, Intersection
from compmec.nurbs import heavy
import numpy as np, random

def N(U, i, j, u, last=None):
    """Cox-de Boor, right-continuous, left-limit at umax. U full list, degree p = leading run -1"""
    p = 0
    while U[p]==U[p+1]: p+=1
    n = len(U)-p-1
    umax = U[n]
    if j == 0:
        if U[i] <= u < U[i+1]: return F(1)
        if u == umax and U[i] < U[i+1] == umax: return F(1)
        return F(0)
    r = F(0)
    if U[i+j] != U[i]:
        r += F(u-U[i])/(U[i+j]-U[i]) * N(U,i,j-1,u)
    if U[i+j+1] != U[i+1]:
        r += F(U[i+j+1]-u)/(U[i+j+1]-U[i+1]) * N(U,i+1,j-1,u)
    return r

def ceval(U, P, u, W=None):
    p = 0
    while U[p]==U[p+1]: p+=1
    n = len(U)-p-1
    b = [N(U,i,p,u) for i in range(n)]
    if W is not None:
        d = sum(w*x for w,x in zip(W,b))
        b = [w*x/d for w,x in zip(W,b)]
    return sum(x*pt for x,pt in zip(b,P))

def randkv(rng, p, nint, maxmult=None, lo=0, hi=1):
    """nint distinct interior knots with random mults ≤ p (or p+1)"""
    maxmult = maxmult or p
    vals = set()
    while len(vals)<nint:
        vals.add(lo + F(rng.randint(1,19),20)*(hi-lo))
    U=[F(lo)]*(p+1)
    for v in sorted(vals):
        U += [v]*rng.randint(1,max(1,maxmult))
    U += [F(hi)]*(p+1)
    return U
