from ref import *
import numpy as np, signal
rng=random.Random(20)
stats={}
def note(*k): stats[k]=stats.get(k,0)+1; return stats[k]
class TO(Exception): pass
def handler(s,f): raise TO()
signal.signal(signal.SIGALRM, handler)
def segint(a0,a1,b0,b1):
    d1=a1-a0; d2=b1-b0; den=d1[0]*d2[1]-d1[1]*d2[0]
    if abs(den)<1e-12: return None
    r=b0-a0; t=(r[0]*d2[1]-r[1]*d2[0])/den; u=(r[0]*d1[1]-r[1]*d1[0])/den
    if 0<=t<=1 and 0<=u<=1: return (t,u)
    return None
def polyline(n):
    ks=sorted(set(rng.randint(1,19) for _ in range(n-2)))
    U=[0.,0.]+[k/20 for k in ks]+[1.,1.]; n=len(U)-2
    pts=[np.array([float(rng.randint(-6,6)),float(rng.randint(-6,6))]) for _ in range(n)]
    return U,pts
for trial in range(200):
    UA,pa=polyline(rng.randint(2,4)); UB,pb=polyline(rng.randint(2,4))
    if any(np.all(p[i]==p[i+1]) for p in (pa,pb) for i in range(len(p)-1)): continue
    A=Curve(UA,pa); B=Curve(UB,pb)
    exp=[]; degenerate=False
    ka=sorted(set(UA)); kb=sorted(set(UB))
    for i in range(len(pa)-1):
        for j in range(len(pb)-1):
            d1=pa[i+1]-pa[i]; d2=pb[j+1]-pb[j]
            if abs(d1[0]*d2[1]-d1[1]*d2[0])<1e-12: degenerate=True
            r=segint(pa[i],pa[i+1],pb[j],pb[j+1])
            if r:
                t,u=r
                if min(t,1-t,u,1-u)<1e-9: degenerate=True   # touching at vertex -> not transversal interior
                exp.append((ka[i]+t*(ka[i+1]-ka[i]), kb[j]+u*(kb[j+1]-kb[j])))
    if degenerate: continue
    signal.alarm(10)
    try: got=Intersection.curve_and_curve(A,B)
    except TO: note("TIMEOUT"); continue
    except Exception as e:
        k=note("EXC "+type(e).__name__, "expect %d"%len(exp)); 
        if k<3: print(type(e).__name__,e,UA,[list(p) for p in pa],UB,[list(p) for p in pb])
        continue
    finally: signal.alarm(0)
    got=[tuple(map(float,g)) for g in got]
    sound=all(np.linalg.norm(np.array(A(t),dtype=float)-np.array(B(u),dtype=float))<1e-6 for t,u in got)
    complete=all(any(abs(t-gt)<1e-6 and abs(u-gu)<1e-6 for gt,gu in got) for t,u in exp)
    k=note("sound" if sound else "UNSOUND", "complete" if complete else "INCOMPLETE", "expect %d"%min(len(exp),3))
    if (not sound or not complete) and k<3: print("sound",sound,"complete",complete,UA,[list(p) for p in pa],UB,[list(p) for p in pb],got,exp)
for k in sorted(stats): print(k,stats[k])
