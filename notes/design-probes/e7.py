from ref import *
rng = random.Random(4)
def snap(c): return (list(c.knotvector), c.ctrlpoints, c.weights)
stats = {}
def note(k): stats[k]=stats.get(k,0)+1
for trial in range(150):
    p = rng.randint(0,3); nint=rng.randint(0,2)
    U = randkv(rng,p,nint,maxmult=p)
    n = len(U)-p-1
    P = [F(rng.randint(-9,9)) for _ in range(n)]
    rational = rng.random()<.4
    W = [F(rng.randint(1,5)) for _ in range(n)] if rational else None
    c = Curve(U,P,W)
    # insert then remove -> must round trip exactly
    cand = sorted(set(U[p+1:n])) + [F(rng.randint(1,19),20) for _ in range(3)]
    nodes = [rng.choice(cand) for _ in range(rng.randint(1,2))]
    newU = sorted(U+nodes)
    if any(newU.count(x)>p+1 for x in nodes): continue
    c.knot_insert(nodes)
    mid = snap(c)
    try:
        c.knot_remove(nodes)
    except ValueError as e:
        note(("roundtrip refused", rational)); 
        if stats[("roundtrip refused", rational)]<4: print("REFUSED exact removal", U,P,W,nodes,e)
        if snap(c)!=mid: print("NOT ATOMIC")
        continue
    except Exception as e:
        note(("roundtrip exc "+type(e).__name__, rational))
        if stats[("roundtrip exc "+type(e).__name__, rational)]<4: print("EXC", type(e).__name__, e, U, W, nodes)
        continue
    ok = list(c.knotvector)==U and list(c.ctrlpoints)==P and (W is None or all(ceval(U,P,u,W)==c(u) for u in [F(i,13) for i in range(14)]))
    note(("roundtrip ok" if ok else "roundtrip WRONG", rational))
    if not ok and stats[("roundtrip WRONG", rational)]<4: print("WRONG", U,P,W,nodes, snap(c))
print(stats)
