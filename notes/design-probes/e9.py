from ref import *
rng = random.Random(6)
def snap(c): return (list(c.knotvector), c.ctrlpoints, c.weights)
stats={}
def note(k): stats[k]=stats.get(k,0)+1
import time
for trial in range(150):
    p = rng.randint(0,3); nint=rng.randint(0,3)
    lo = rng.choice([0,0,-1]); hi=lo+rng.choice([1,2])
    U = randkv(rng,p,nint,maxmult=p+1,lo=lo,hi=hi)
    n = len(U)-p-1
    P = [F(rng.randint(-9,9)) for _ in range(n)]
    rational = rng.random()<.35
    W = [F(rng.randint(1,5)) for _ in range(n)] if rational else None
    c = Curve(U,P,W)
    t = rng.randint(1,2)
    before=snap(c)
    try:
        if rng.random()<.5: c.degree_increase(t)
        else: c.degree = p+t
    except Exception as e:
        note(("inc exc "+type(e).__name__, rational)); 
        if stats[("inc exc "+type(e).__name__, rational)]<4: print("INC EXC", type(e).__name__, e, U, W, t, "changed" if snap(c)!=before else "")
        continue
    expU = sorted(U + t*sorted(set(U)))
    if list(c.knotvector)!=expU: note("KV WRONG"); print("KV", U, t, list(c.knotvector)); continue
    us = sorted(set(U)) + [lo+F(rng.randint(0,100),100)*(hi-lo) for _ in range(5)]
    V=list(c.knotvector); Q=list(c.ctrlpoints); Wn = list(c.weights) if c.weights else None
    good = all(ceval(U,P,u,W)==ceval(V,Q,u,Wn) for u in us)
    note(("inc ok" if good else "inc WRONG", rational))
    if not good and stats[("inc WRONG",rational)]<4: print("INC WRONG", U,P,W,t,V,Q,Wn)
    if not good: continue
    mid = snap(c)
    try:
        c.degree_decrease(t)
    except Exception as e:
        note(("dec exc "+type(e).__name__, rational))
        if stats[("dec exc "+type(e).__name__, rational)]<3: print("DEC EXC", type(e).__name__, e, U, W, t, "changed" if snap(c)!=mid else "")
        continue
    good = list(c.knotvector)==U and all(ceval(U,P,u,W)==c(u) for u in us)
    note(("dec ok" if good else "dec WRONG", rational))
    if not good and stats[("dec WRONG",rational)]<4: print("DEC WRONG", U,P,W,t,snap(c))
print(stats)
