from ref import *
rng=random.Random(14)
stats={}
def note(*k): stats[k]=stats.get(k,0)+1; return stats[k]
def basis(U,W,u):
    p=0
    while U[p]==U[p+1]: p+=1
    n=len(U)-p-1
    b=[N(U,i,p,u) for i in range(n)]
    if W:
        d=sum(w*x for w,x in zip(W,b)); b=[w*x/d for w,x in zip(W,b)]
    return b
for trial in range(80):
    p=rng.randint(0,3); U=randkv(rng,p,rng.randint(0,3),maxmult=max(p,1)); n=len(U)-p-1
    rational=rng.random()<.4
    W=[F(rng.randint(1,5)) for _ in range(n)] if rational else None
    cat="rat" if rational else "poly"
    K=n+rng.randint(0,5)
    nodes=sorted(set(F(rng.randint(0,60),60) for _ in range(K+3)))[:K]
    if len(nodes)<n: continue
    Z=[F(rng.randint(-9,9)) for _ in nodes]
    c=Curve(U); 
    if W: c.weights=W
    try:
        c.fit_points(Z,nodes)
    except Exception as e:
        note("EXC "+type(e).__name__,cat); continue
    Q=list(c.ctrlpoints)
    B=[basis(U,W,z) for z in nodes]
    r=[sum(b*q for b,q in zip(B[k],Q))-Z[k] for k in range(len(nodes))]
    orth=all(sum(B[k][i]*r[k] for k in range(len(nodes)))==0 for i in range(n))
    note("orth" if orth else "NOT ORTH",cat, "square" if len(nodes)==n else "over")
    if len(nodes)==n and any(x!=0 for x in r): note("NOT INTERP",cat)
# default nodes + in-space reproduction
for trial in range(40):
    p=rng.randint(0,3); U=randkv(rng,p,rng.randint(0,3),maxmult=max(p,1)); n=len(U)-p-1
    rational=rng.random()<.4
    W=[F(rng.randint(1,5)) for _ in range(n)] if rational else None
    P=[F(rng.randint(-9,9)) for _ in range(n)]
    src=Curve(U,P,W)
    c=Curve(U); 
    if W: c.weights=W
    try:
        c.fit_function(lambda u: src(u))
        note("fit_function repro ok" if list(c.ctrlpoints)==P else "fit_function repro WRONG", "rat" if rational else "poly")
    except Exception as e: 
        k=note("fit_function EXC "+type(e).__name__, "rat" if rational else "poly", "p=%d"%p)
        if k<2: print(type(e).__name__, e, U)
    c=Curve(U); 
    if W: c.weights=W
    K=n+rng.randint(0,4)
    try:
        if K<2: K=2
        nodes=heavy.NodeSample.closed_linspace(K)
        c.fit_points([src(u) for u in nodes])
        note("fit_points default repro ok" if list(c.ctrlpoints)==P else "fit_points default repro WRONG", "rat" if rational else "poly")
    except Exception as e: 
        k=note("fit_points default EXC "+type(e).__name__, "rat" if rational else "poly")
        if k<3: print(type(e).__name__, e, U, K)
c=Curve([F(0),0,0,1,1,1])
try: c.fit_points([1,2]); print("accepted fewer points", c.ctrlpoints)
except Exception as e: print("fewer points:",type(e).__name__)
for k in sorted(stats): print(k,stats[k])
