from ref import *
rng=random.Random(17)
# C17
def tryor(U,V):
    try: return list(KnotVector(U)|KnotVector(V))
    except Exception as e: return "EXC "+type(e).__name__
def tryand(U,V):
    try: return list(KnotVector(U)&KnotVector(V))
    except Exception as e: return "EXC "+type(e).__name__
print(tryor([0,0,F(1,2),1,1],[0,0,0,F(1,3),1,1,1]))   # expect 0^3, 1/3, 1/2^2, 1^3
print(tryor([0,0,0,F(1,3),1,1,1],[0,0,F(1,2),1,1]))
print(tryor([0,0,F(1,2),1,1],[0,0,0,F(1,2),1,1,1]))  # expect 1/2 mult 2
print(tryor([0,1],[0,0,0,F(1,2),1,1,1]), tryor([0,F(1,2),1],[0,0,F(1,2),1,1]))  # second expect mult 2 at 1/2
print(tryand([0,0,F(1,2),1,1],[0,0,0,F(1,2),1,1,1]), tryand([0,0,F(1,2),F(1,2),1,1],[0,0,F(1,2),F(3,4),1,1]))
print(tryand([0,0,F(1,3),1,1],[0,0,F(1,2),1,1]))
# C18
for p in range(0,4):
    for n in (p+1,p+2,p+5):
        for cls in (int,float,F):
            for gen in ("uniform","integer","random"):
                try:
                    kv=getattr(GeneratorKnotVector,gen)(p,n,cls)
                    ok = kv.degree==p and kv.npts==n and (gen=="integer" or tuple(kv.limits)==(0,1)) and all(kv.mult(k)==1 for k in kv.knots[1:-1])
                    types={type(k).__name__ for k in kv}
                    sp = {kv.knots[i+1]-kv.knots[i] for i in range(len(kv.knots)-1)}
                    if not ok or (gen!="random" and len(sp)>1 and cls is not float and cls is not int) : print("BAD",gen,p,n,cls.__name__,list(kv),types)
                    if cls is F and types!={"Fraction"}: print("TYPE",gen,p,n,types)
                except Exception as e: print("EXC",gen,p,n,cls.__name__,type(e).__name__,e)
bad=[]
for n in range(2,200):
    kv=GeneratorKnotVector.uniform(1,n)
    if tuple(kv.limits)!=(0,1): bad.append((n,kv.limits))
print("uniform float limits bad:",len(bad),bad[:3])
bad=0
for t in range(300):
    kv=GeneratorKnotVector.random(2,rng.randint(3,12))
    if tuple(kv.limits)!=(0,1): bad+=1
print("random limits bad:",bad)
kv=GeneratorKnotVector.weight(2,[F(1,2),F(2),F(1,3)]); print(list(kv))
kv=KnotVector([F(1),1,F(3,2),4,4]); kv.normalize(); print(list(kv))
kv=KnotVector([1.,1.,1.5,4.,4.]); kv.normalize(); print(list(kv))
kv=KnotVector([0.1,0.1,0.3,0.7,0.7]); kv.normalize(); print(list(kv))
kv=KnotVector([3,3,4,10,10]); kv.normalize(); print(list(kv))
