from ref import *
rng = random.Random(5)
def snap(c): return (list(c.knotvector), c.ctrlpoints, c.weights)
stats={}
def note(k): stats[k]=stats.get(k,0)+1
def l2err(U,P,V,Q):
    # exact integral of squared difference via piecewise gauss? use dense exact: both piecewise polys of deg<=p on union breaks; integrate with exact NC of enough nodes
    br = sorted(set(U)|set(V)); p = 0
    while U[p]==U[p+1]: p+=1
    nn = 2*p+2
    w = heavy.IntegratorArray.closed_newton_cotes(max(nn,2)); x = heavy.NodeSample.closed_linspace(max(nn,2))
    tot=F(0)
    for a,b in zip(br[:-1],br[1:]):
        # left-limits at b: evaluate using one-sided: use midpoint nodes strictly inside by open rule
        xo = heavy.NodeSample.open_linspace(nn); wo = heavy.IntegratorArray.open_newton_cotes(nn)
        tot += (b-a)*sum(wi*(ceval(U,P,a+(b-a)*xi)-ceval(V,Q,a+(b-a)*xi))**2 for wi,xi in zip(wo,xo))
    return tot
for trial in range(120):
    p = rng.randint(1,3); nint=rng.randint(1,3)
    U = randkv(rng,p,nint,maxmult=p)
    n = len(U)-p-1
    P = [F(rng.randint(-9,9)) for _ in range(n)]
    c = Curve(U,P)
    interior = U[p+1:n]
    node = rng.choice(interior)
    k = rng.randint(1, interior.count(node))
    before = snap(c)
    tol = rng.choice([1e-9, 1e-9, 0.5, None])
    try:
        if tol is None: c.knot_remove([node]*k, None)
        else: c.knot_remove([node]*k, tol)
    except ValueError as e:
        note(("refused",tol)); 
        if snap(c)!=before: print("NOT ATOMIC", U, node,k)
        continue
    except Exception as e:
        note(("exc "+type(e).__name__,tol)); print(type(e).__name__, e, U, node, k, tol); continue
    V=list(c.knotvector); Q=list(c.ctrlpoints)
    expV=list(U)
    for _ in range(k): expV.remove(node)
    if V!=expV: print("KV wrong",U,node,k,V)
    err = l2err(U,P,V,Q)
    umin,umax=U[0],U[-1]
    if tol is not None:
        bound = 2*tol*max(1,umax-umin)
        note(("accepted",tol, "within" if err<=bound else "EXCEEDS"))
        if err>bound: print("EXCEEDS", U,P,node,k,tol,float(err))
    else:
        knots = sorted(set(V))
        interp = all(ceval(U,P,z)==c(z) for z in knots)
        note(("forced", "interp ok" if interp else "INTERP FAIL"))
        if not interp: print("INTERP FAIL", U,P,node,k,[(z,ceval(U,P,z),c(z)) for z in knots])
print(stats)
