from ref import *
from copy import copy
rng=random.Random(16)
stats={}
def note(*k): stats[k]=stats.get(k,0)+1; return stats[k]
def snap(c): return (list(c.knotvector), c.ctrlpoints, c.weights)
for trial in range(80):
    p=rng.randint(0,2); U=randkv(rng,p,rng.randint(0,2),maxmult=max(p,1)); n=len(U)-p-1
    P=[F(rng.randint(-9,9)) for _ in range(n)]
    base=Curve(U,P); base.clean(); m=snap(base)   # minimal form (hopefully)
    c=copy(base)
    hist=[]
    for _ in range(rng.randint(1,3)):
        if rng.random()<.5:
            node=F(rng.randint(1,19),20)
            if sorted(list(c.knotvector)+[node]).count(node)<=c.degree+1:
                c.knot_insert([node]); hist.append(("ins",node))
        else:
            c.degree_increase(1); hist.append("elev")
    ref=snap(c)
    order=rng.choice(["clean","knot,degree","degree,knot"])
    try:
        if order=="clean": c.clean()
        elif order=="knot,degree": c.knot_clean(); c.degree_clean()
        else: c.degree_clean(); c.knot_clean()
    except Exception as e:
        k=note("EXC "+type(e).__name__,order); 
        if k<3: print(type(e).__name__,e,m,hist)
        continue
    same = snap(c)==m
    fn = all(c(F(k,17))==base(F(k,17)) for k in range(18))
    k=note("minimal" if same else "NOT MINIMAL", "fn same" if fn else "FN CHANGED", order)
    if not same and k<3: print(order, m, hist, snap(c))
    s1=snap(c); c.clean(); 
    if snap(c)!=s1: note("not idempotent",order)
for k in sorted(stats): print(k,stats[k])
