from ref import *
import numpy as np, time, signal
rng=random.Random(19)
stats={}
def note(*k): stats[k]=stats.get(k,0)+1; return stats[k]
class TO(Exception): pass
def handler(s,f): raise TO()
signal.signal(signal.SIGALRM, handler)
for trial in range(200):
    p=rng.randint(2,3); nint=rng.randint(0,2)
    ks=sorted(set(rng.randint(1,19) for _ in range(nint)))
    U=[0.]*(p+1)+[k/20 for k in ks]+[1.]*(p+1); n=len(U)-p-1
    pts=[np.array([float(rng.randint(-5,5)),float(rng.randint(-5,5))]) for _ in range(n)]
    c=Curve(U,pts)
    mode=rng.choice(["off","on"])
    if mode=="off": P=np.array([rng.uniform(-6,6),rng.uniform(-6,6)])
    else: u0=rng.uniform(0,1); P=np.array(c(u0),dtype=float)
    signal.alarm(5)
    try:
        ts=Projection.point_on_curve(P,c)
    except TO: 
        k=note("TIMEOUT",mode); 
        if k<3: print("TIMEOUT",U,[list(p) for p in pts],list(P))
        continue
    except Exception as e:
        k=note("EXC "+type(e).__name__,mode); 
        if k<3: print(type(e).__name__,e,U,[list(p) for p in pts],list(P))
        continue
    finally: signal.alarm(0)
    if len(ts)==0: note("EMPTY",mode); continue
    ds=[np.linalg.norm(np.array(c(t),dtype=float)-P) for t in ts]
    dense=min(np.linalg.norm(np.array(c(float(t)),dtype=float)-P) for t in np.linspace(0,1,2001))
    ok = all(0<=t<=1 for t in ts) and list(ts)==sorted(ts) and max(ds)-min(ds)<1e-6 
    glob = min(ds) <= dense+1e-6
    k=note("sound" if ok else "UNSOUND", "global" if glob else "not-global", mode)
for k in sorted(stats): print(k,stats[k])
