from ref import *
def snap(c): return (list(c.knotvector), c.ctrlpoints, c.weights)
U=[F(0),0,0,F(1,2),1,1,1]; P=[F(1),3,-2,5]
c=Curve(U,P)
a,b=c.split([F(1,2)])
print(snap(a),snap(b))
j=a|b
print(snap(j), [j(F(k,8))==ceval(U,P,F(k,8)) for k in range(9)])
a,b=c.split([F(1,4)])
print(snap(a),snap(b))
j=a|b
print(snap(j), [j(F(k,8))==ceval(U,P,F(k,8)) for k in range(9)])
# degree-1
U=[F(0),0,F(1,2),1,1]; P=[F(1),3,-2]
c=Curve(U,P); a,b=c.split([F(1,2)]); j=a|b; print(snap(a),snap(b),snap(j))
# discontinuous join
a=Curve([F(0),0,1,1],[F(0),1]); b=Curve([F(1),1,2,2],[F(5),6])
try:
    j=a|b; print(snap(j), [j(F(k,4)) for k in range(9)])
except Exception as e: print(type(e).__name__, e)
# different degrees
a=Curve([F(0),0,1,1],[F(0),1]); b=Curve([F(1),1,1,2,2,2],[F(1),6,3])
try:
    j=a|b; print(snap(j), [j(F(k,4)) for k in range(9)], [ (a(F(k,4)) if k<=4 else b(F(k,4))) for k in range(9)])
except Exception as e: print(type(e).__name__, e)
