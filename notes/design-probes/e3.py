from ref import *
rng = random.Random(2)
bad=0; tot=0
for trial in range(200):
    p = rng.randint(0,4); nint=rng.randint(0,3)
    U = randkv(rng,p,nint,maxmult=p+1)
    n = len(U)-p-1
    W = [F(rng.randint(1,5)) for _ in range(n)] if rng.random()<.5 else None
    f = Function(U)
    if W: f.weights = W
    us = sorted(set(U)) + [F(rng.randint(0,100),100) for _ in range(3)]
    for j in range(p+1):
        for u in us:
            tot+=1
            try:
                got = f[:, j](u)
            except Exception as e:
                print("exc",U,j,u,repr(e)); bad+=1; continue
            ref = [N(U,i,j,u) for i in range(n)]
            if W:
                d=sum(w*x for w,x in zip(W,ref))
                if d==0:
                    print("zero denom", U, j, u, got); continue
                ref=[w*x/d for w,x in zip(W,ref)]
            if list(got)!=ref:
                bad+=1
                if bad<10: print("MISMATCH",U,W,j,u,list(got),ref)
print(bad,tot)
U=[0,0,0,F(1,2),1,1,1]; f=Function(U)
print(f[0](F(1,4)), f[-1](F(3,4)), f[1:3](F(1,4)), f[0,1](F(1,4)), f[:,1](F(1,4)), f(F(1,4)))
print(f[:,1]([F(1,4),F(1,2)]))
for idx in [(4,),(0,3),(0,-1),(1.0,),("a",),(0,1,2)]:
    try: print(f[idx if len(idx)>1 else idx[0]])
    except Exception as e: print(idx,type(e).__name__)
