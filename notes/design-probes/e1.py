from ref import *
rng = random.Random(1)
bad=0; tot=0
for trial in range(300):
    p = rng.randint(0,4); nint=rng.randint(0,3)
    U = randkv(rng,p,nint,maxmult=p+1)
    n = len(U)-p-1
    P = [F(rng.randint(-9,9)) for _ in range(n)]
    W = [F(rng.randint(1,5)) for _ in range(n)] if rng.random()<.5 else None
    try:
        c = Curve(U,P,W)
    except Exception as e:
        print("ctor fail",U,W,repr(e)); continue
    us = sorted(set(U)) + [F(rng.randint(0,100),100) for _ in range(4)]
    for u in us:
        tot+=1
        try:
            v = c(u)
        except Exception as e:
            print("eval exc", U, u, repr(e)); bad+=1; continue
        r = ceval(U,P,u,W)
        if v!=r or not isinstance(v,(F,int)):
            bad+=1; print("MISMATCH",U,P,W,u,v,r,type(v))
print(bad,tot)
