from ref import *
c = Curve([0,0,1,1],[1,2])
print(repr(c(F(1,2))), repr(c(0)), repr(c(1)), repr(c(0.5)))
for bad in (-1, 2, F(3,2), 1.0000001):
    try: print("out", bad, c(bad))
    except Exception as e: print("out",bad,type(e).__name__)
print(c([0,F(1,2),1]), c(()), c([]))
try: print(c([0,2]))
except Exception as e: print(type(e).__name__)
# negative knots
U=[F(-2)]*3+[F(-1),F(0),F(0),F(1,2)]+[F(1)]*3
P=[F(i*i-3) for i in range(7)]
c=Curve(U,P)
print([c(u)==ceval(U,P,u) for u in (F(-2),F(-3,2),F(-1),F(-1,2),F(0),F(1,4),F(1,2),F(1))])
# int knots with int param: division
c=Curve([0,0,0,1,2,3,3,3],[1,2,3,4,5])
print([ (u,c(u),ceval([0,0,0,1,2,3,3,3],[1,2,3,4,5],u)) for u in (0,1,2,3,F(1,2),F(5,2))])
print(repr(c(1)), repr(c(2)))
import numpy as np
print(repr(c(np.float64(1.5))), repr(c(np.int64(1))))
