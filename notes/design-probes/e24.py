from ref import *
import numpy as np, time, signal
rng=random.Random(18)
stats={}
def note(*k): stats[k]=stats.get(k,0)+1; return stats[k]
class TO(Exception): pass
def handler(s,f): raise TO()
signal.signal(signal.SIGALRM, handler)
def polymin(pts,knots,P):
    best=None
    for i in range(len(pts)-1):
        a,b=pts[i],pts[i+1]; d=b-a; L=d@d
        t=0 if L==0 else min(1,max(0,((P-a)@d)/L))
        q=a+t*d; dist=np.linalg.norm(P-q)
        if best is None or dist<best: best=dist
    return best
for trial in range(150):
    n=rng.randint(2,7)
    ks=sorted(set(rng.randint(1,19) for _ in range(n-2)))
    U=[0.,0.]+[k/20 for k in ks]+[1.,1.]; n=len(U)-2
    pts=[np.array([float(rng.randint(-5,5)),float(rng.randint(-5,5))]) for _ in range(n)]
    if any(np.all(pts[i]==pts[i+1]) for i in range(n-1)): continue
    c=Curve(U,pts)
    mode=rng.choice(["off","on","vertex"])
    if mode=="off": P=np.array([rng.uniform(-6,6),rng.uniform(-6,6)])
    elif mode=="on": u0=rng.uniform(0,1); P=np.array(c(u0),dtype=float)
    else: P=pts[rng.randrange(n)].copy()
    signal.alarm(5)
    try:
        ts=Projection.point_on_curve(P,c)
    except TO: note("TIMEOUT",mode); continue
    except Exception as e:
        k=note("EXC "+type(e).__name__,mode); 
        if k<3: print(type(e).__name__,e,U,[list(p) for p in pts],list(P))
        continue
    finally: signal.alarm(0)
    if len(ts)==0: note("EMPTY",mode); continue
    ds=[np.linalg.norm(np.array(c(t),dtype=float)-P) for t in ts]
    ex=polymin(pts,U,P)
    ok = all(0<=t<=1 for t in ts) and list(ts)==sorted(ts) and max(ds)-min(ds)<1e-6 and abs(min(ds)-ex)<1e-6
    k=note("ok" if ok else "NOT MIN",mode)
    if not ok and k<4: print("NOT MIN",mode,U,[list(p) for p in pts],list(P),ts,ds,ex)
for k in sorted(stats): print(k,stats[k])
