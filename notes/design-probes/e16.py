from ref import *
IA=heavy.IntegratorArray; NS=heavy.NodeSample
import itertools
# fresh-process order independence is tested by subprocess later; here exactness
def exact(nodes, w, maxdeg):
    bad=[]
    for d in range(maxdeg+1):
        s=sum(wi*xi**d for wi,xi in zip(w,nodes))
        ex = F(1,d+1)
        if isinstance(s,F):
            if s!=ex: bad.append(d)
        else:
            if abs(float(s)-float(ex))>1e-9: bad.append((d,float(s)-float(ex)))
    return bad
for n in range(2,13):
    print("closed",n, exact(NS.closed_linspace(n), IA.closed_newton_cotes(n), n-1), sum(IA.closed_newton_cotes(n)))
for n in range(1,13):
    print("open",n, exact(NS.open_linspace(n), IA.open_newton_cotes(n), n-1), sum(IA.open_newton_cotes(n)))
for n in range(1,13):
    w=IA.chebyshev(n); x=NS.chebyshev(n)
    print("cheb",n, exact(x,w,n-1), float(sum(w))-1, type(w[0]).__name__, list(x)==sorted(x))
for n in range(1,13):
    w=IA.gauss_legendre(n); x=NS.gauss_legendre(n)
    print("gauss",n, exact(x,w,2*n-1), float(sum(w))-1, type(w[0]).__name__, type(x[0]).__name__, list(x)==sorted(x))
