#!/venv/bin/python
"""
check.py <property id> [quick|thorough] [--replay <file>]

Verdict pipeline (DESIGN.md section 5):
  L1  lake build + axiom audit of the property's theorems (lean/theorems.json)
  L2  correspondence: real implementation vs the Lean model (driver) on generated inputs
  L3  validated oracles (Lean-decided, for every u at once) on the implementation's own outputs
exit 0: property held on everything explored; exit 1 + "VIOLATION property=<id> replay=<path>";
exit 2: infrastructure failure (never a VIOLATION line).
"""
import importlib
import json
import os
import random
import re
import subprocess
import sys
import time
import traceback

HERE = os.path.dirname(os.path.abspath(__file__))
VERIF = os.path.dirname(HERE)
sys.path.insert(0, HERE)
LEAN = os.path.join(VERIF, "lean")
ALLOWED_AXIOMS = {"propext", "Classical.choice", "Quot.sound"}
FORBIDDEN = re.compile(r"\bsorry\b|\badmit\b|^\s*axiom\s|native_decide|bv_decide|implemented_by|\bunsafe\s|maxHeartbeats\s+0")


def sh(cmd, cwd=None, timeout=1800):
    p = subprocess.run(cmd, shell=True, cwd=cwd, stdout=subprocess.PIPE, stderr=subprocess.STDOUT,
                       text=True, timeout=timeout)
    return p.returncode, p.stdout


def strip_comments(src):
    src = re.sub(r"/-.*?-/", "", src, flags=re.S)
    return re.sub(r"--.*", "", src)


def l1_audit(pid, tier="quick"):
    """build the Lean project, re-check the property's theorems and their axioms (thorough: also leanchecker)"""
    res = dict(build_ok=False, theorems=[], discharged=0, obligations=0, failures=[], forbidden=[])
    rc, out = sh("lake build NurbsVerif driver 2>&1 | tail -40", cwd=LEAN)
    res["build_ok"] = (rc == 0 and "error" not in out.lower().replace("errors", ""))
    if not res["build_ok"]:
        res["failures"].append("lake build failed: " + out[-2000:])
        return res
    # forbidden constructs in the sources
    for root, _, files in os.walk(os.path.join(LEAN, "NurbsVerif")):
        for f in files:
            if f.endswith(".lean"):
                src = strip_comments(open(os.path.join(root, f)).read())
                for ln in src.splitlines():
                    if FORBIDDEN.search(ln):
                        res["forbidden"].append("%s: %s" % (f, ln.strip()[:120]))
    reg = json.load(open(os.path.join(LEAN, "theorems.json")))
    thms = reg.get(pid, [])
    res["obligations"] = len(thms)
    if not thms:
        return res
    os.makedirs(os.path.join(LEAN, ".audit"), exist_ok=True)
    path = os.path.join(LEAN, ".audit", "Audit_%s.lean" % pid)
    mods = sorted({t["module"] for t in thms})
    with open(path, "w") as fh:
        for m in mods:
            fh.write("import %s\n" % m)
        for t in thms:
            fh.write("#print axioms %s\n" % t["name"])
    rc, out = sh("lake env lean %s 2>&1" % path, cwd=LEAN)
    # parse: "'name' depends on axioms: [a, b]" or "'name' does not depend on any axioms"
    found = {}
    for m in re.finditer(r"'([^']+)' depends on axioms: \[([^\]]*)\]", out.replace("\n ", " ")):
        found[m.group(1)] = {a.strip() for a in m.group(2).split(",") if a.strip()}
    for m in re.finditer(r"'([^']+)' does not depend on any axioms", out):
        found[m.group(1)] = set()
    for t in thms:
        name = t["name"]
        short = name.split(".")[-1]
        ax = None
        for k, v in found.items():
            if k == name or k.endswith("." + short) or k == short:
                ax = v
        entry = dict(name=name, statement=t.get("what", ""), axioms=sorted(ax) if ax is not None else None)
        if ax is None:
            res["failures"].append("theorem %s does not check: %s" % (name, out[-600:]))
        elif not ax <= ALLOWED_AXIOMS:
            res["failures"].append("theorem %s uses axioms %s" % (name, sorted(ax - ALLOWED_AXIOMS)))
        else:
            res["discharged"] += 1
        res["theorems"].append(entry)
    if res["forbidden"]:
        res["failures"].append("forbidden constructs: " + "; ".join(res["forbidden"][:5]))
    if tier == "thorough":
        # independent re-check of the compiled modules that hold this property's theorems
        rc, out = sh("lake env leanchecker %s 2>&1 | tail -20" % " ".join(mods), cwd=LEAN, timeout=3600)
        res["leanchecker"] = "ok" if rc == 0 and "error" not in out.lower() else out[-500:]
        if res["leanchecker"] != "ok":
            res["failures"].append("leanchecker rejected a module: " + out[-500:])
    return res


def load_known(pid):
    known = []
    path = os.path.join(VERIF, "KNOWN_FINDINGS.txt")
    if os.path.exists(path):
        for ln in open(path):
            ln = ln.strip()
            m = re.match(r"finding:\s+property=(\S+)\s+key=(\S+)\s+(.*)", ln)
            if m and m.group(1) == pid:
                known.append(dict(key=m.group(2), text=m.group(3)))
    return known


def main():
    args = sys.argv[1:]
    if not args:
        print(__doc__)
        sys.exit(2)
    pid = args[0]
    tier = os.environ.get("VERIF_TIER") or (args[1] if len(args) > 1 and not args[1].startswith("--") else "quick")
    replay = None
    if "--replay" in args:
        replay = args[args.index("--replay") + 1]
    seed = int(os.environ.get("VERIF_SEED", "20260929"))
    t0 = time.time()
    try:
        l1 = l1_audit(pid, tier)
        if not l1["build_ok"]:
            print("INFRA: lean build failed\n" + "\n".join(l1["failures"]))
            sys.exit(2)
        import common
        mod = importlib.import_module("props." + pid.lower())
        rec = common.Recorder(pid, tier, seed)
        drv = common.Driver()
        rng = random.Random(seed * 1000003 + int(pid[1:]))
        ctx = dict(rec=rec, drv=drv, rng=rng, tier=tier, seed=seed)
        # an exception that escapes from library code at a place where the module expected a result (valid data, no `impl` wrapper)
        # is a failing input of the property, not a crash of the harness; an exception raised by harness code itself stays a crash
        plain_run_case = mod.run_case

        def guarded_run_case(ctx_, case_):
            try:
                return plain_run_case(ctx_, case_)
            except Exception as ex:  # noqa: BLE001
                frames = traceback.extract_tb(ex.__traceback__)
                origin = next((f for f in reversed(frames) if "/harness/" in f.filename or "/compmec/nurbs/" in f.filename), None)
                if origin is None or "/compmec/nurbs/" not in origin.filename:
                    raise
                rec.violation("library raised %s where a result was expected" % type(ex).__name__, case_,
                              observed=str(ex)[:300], at="%s:%s" % (origin.filename.split("/compmec/nurbs/")[-1], origin.lineno))
        mod.run_case = guarded_run_case
        if replay:
            data = json.load(open(replay))
            for v in data.get("violations", []):
                if v.get("case") is not None:
                    for h in v.get("history", []):     # the cases that ran before it in the same process (library state)
                        try:
                            mod.run_case(ctx, h)
                        except Exception:  # noqa: BLE001
                            pass
                    mod.run_case(ctx, v["case"])
        else:
            mod.run(ctx)
            # a broken correspondence is not by itself a violation: search for a concrete failing input of the property
            # (fresh generator states, same oracles) within the tier's budget before reporting no-failing-input-found
            limit = 75 if tier == "quick" else 900
            extra = 0
            while rec.mismatches and not rec.violations and time.time() - t0 < limit and extra < 12:
                extra += 1
                ctx["rng"] = random.Random((seed + 7919 * extra) * 1000003 + int(pid[1:]))
                rec.count("search", "extra-round")
                mod.run(ctx)
        drv.close()
    except SystemExit:
        raise
    except Exception:  # noqa: BLE001
        traceback.print_exc()
        print("INFRA: harness crashed")
        sys.exit(2)

    known = load_known(pid)
    real, listed = [], []
    for v in rec.violations:
        k = v.get("finding_key")
        hit = [kn for kn in known if kn["key"] == k]
        (listed if hit else real).append(v)
    for kn in known:
        if any(v.get("finding_key") == kn["key"] for v in listed):
            print("KNOWN-FINDING: property=%s %s" % (pid, kn["text"]))
    broken = []
    if l1["failures"]:
        broken += [dict(kind="theorem", detail=f) for f in l1["failures"]]
    if rec.mismatches:
        broken += [dict(kind="correspondence", op=m["op"], case=m["case"], impl=m["impl"], model=m["model"])
                   for m in rec.mismatches[:20]]
    wall = time.time() - t0
    level = getattr(mod, "LEVEL", "proof") if l1["obligations"] else "other"
    cov = dict(
        evaluations=rec.evaluations,
        distinct_nontrivial=len(rec.keys),
        rule=getattr(mod, "RULE", ""),
        samples=common.jsonable(rec.samples[:8]) or ["(no generated case: replay run)"],
        distribution=rec.dist,
        obligations=l1["obligations"],
        discharged=l1["discharged"],
        theorems=l1["theorems"],
        checker_cmd="cd lean && lake build NurbsVerif driver && lake env lean .audit/Audit_%s.lean  (#print axioms of every property theorem; accepted: propext, Classical.choice, Quot.sound)%s" % (
            pid, "; lake env leanchecker <modules of the theorems>: %s" % l1.get("leanchecker") if l1.get("leanchecker") else ""),
        trusted_base=[
            "Lean 4.33.0 kernel", "axioms propext / Classical.choice / Quot.sound (audited on every run)",
            "Mathlib v4.33.0 modules imported by the proof files",
            "hand-written model lean/NurbsVerif/Model/*.lean: tied to /repo by the differential correspondence run counted in traces_validated_against_impl (sampling, not proof)",
            "python harness /verif/harness (generation, canonicalisation to exact rationals), CPython, numpy",
        ],
        traces_validated_against_impl=rec.dist.get("L2", {}).get("compared", 0),
        oracle_decisions=rec.dist.get("L3", {}).get("decided", 0),
        driver_calls=drv.calls,
        explanation=getattr(mod, "EXPLANATION", ""),
        correspondence_mismatches=len(rec.mismatches),
        known_findings_hit=len(listed),
        notes=rec.notes[:20],
    )
    if not l1["obligations"]:
        for k in ("obligations", "discharged", "theorems"):
            cov.pop(k)
    ev = dict(property_id=pid, tier=tier, seed=seed, level=level, coverage=cov,
              assumptions=getattr(mod, "ASSUMPTIONS", []), wall_s=round(wall, 2),
              violations=len(real) + (1 if (broken and not real) else 0))
    os.makedirs(os.path.join(VERIF, "evidence"), exist_ok=True)
    if not replay:
        with open(os.path.join(VERIF, "evidence", pid + ".json"), "w") as fh:
            json.dump(ev, fh, indent=1)
    if real or broken:
        os.makedirs(os.path.join(VERIF, "replays"), exist_ok=True)
        rp = os.path.join("replays", "%s-%d-%s.json" % (pid, seed, tier))
        with open(os.path.join(VERIF, rp), "w") as fh:
            json.dump(common.jsonable(dict(property=pid, seed=seed, tier=tier,
                                           violations=real[:20], no_longer_checks=broken[:20],
                                           how_to_replay="./check %s --replay %s" % (pid, rp))), fh, indent=1)
        if real:
            v = real[0]
            print("failing input: %s" % json.dumps(common.jsonable(v))[:1500])
            print("VIOLATION property=%s replay=%s" % (pid, rp))
        else:
            for b in broken[:3]:
                print("no longer checks: %s" % json.dumps(common.jsonable(b))[:1200])
            print("VIOLATION property=%s replay=%s no-failing-input-found" % (pid, rp))
        sys.exit(1)
    print("OK property=%s tier=%s seed=%d evaluations=%d distinct=%d theorems=%d/%d wall=%.1fs" % (
        pid, tier, seed, rec.evaluations, len(rec.keys), l1["discharged"], l1["obligations"], wall))
    sys.exit(0)


if __name__ == "__main__":
    main()
