"""
Shared machinery of the correspondence (L2) and validated-oracle (L3) layers.

* imports the real library from /repo's *current working tree* (asserted),
* talks to the compiled Lean driver (lean/.lake/build/bin/driver) through the line protocol,
* canonicalises numbers to exact rationals,
* generators (one random.Random per run, every case reproducible from (seed, index)),
* bookkeeping: evaluations, distinct non-trivial cases, distribution, samples, violations.
"""
import hashlib
import json
import os
import random
import subprocess
import sys
import time
import warnings
from fractions import Fraction as F

warnings.filterwarnings("ignore")

VERIF = os.path.dirname(os.path.dirname(os.path.abspath(__file__)))
REPO = os.environ.get("VERIF_REPO", "/repo")
REPO_SRC = os.path.join(REPO, "src")
sys.path.insert(0, REPO_SRC)
os.environ.setdefault("COMPMEC_NURBS_VERIF", "1")

import numpy as np  # noqa: E402

import compmec.nurbs as cn  # noqa: E402
from compmec.nurbs import heavy  # noqa: E402
from compmec.nurbs import (Curve, Derivate, Function, GeneratorKnotVector,  # noqa: E402
                           Integrate, Intersection, KnotVector, Projection)

assert os.path.abspath(cn.__file__).startswith(os.path.abspath(REPO_SRC)), (
    "compmec.nurbs was not imported from the working tree: %s" % cn.__file__)

DRIVER = os.path.join(VERIF, "lean", ".lake", "build", "bin", "driver")


# --------------------------------------------------------------------------- encoding
def frac(x):
    """exact rational value of a python / numpy number"""
    if isinstance(x, F):
        return x
    if isinstance(x, (bool,)):
        return F(int(x))
    if isinstance(x, (int, np.integer)):
        return F(int(x))
    if isinstance(x, (float, np.floating)):
        return F(float(x))
    if isinstance(x, np.ndarray) and x.ndim == 0:
        return frac(x.item())
    return F(x)


def enc(x):
    if x is None:
        return "none"
    if isinstance(x, str):
        return x
    if isinstance(x, (list, tuple, np.ndarray)):
        return "[" + ",".join(enc(y) for y in x) + "]"
    q = frac(x)
    return str(q.numerator) if q.denominator == 1 else "%d/%d" % (q.numerator, q.denominator)


def _parse(s, i):
    if s[i] == "[":
        i += 1
        out = []
        while s[i] != "]":
            if s[i] == ",":
                i += 1
                continue
            v, i = _parse(s, i)
            out.append(v)
        return out, i + 1
    j = i
    while j < len(s) and s[j] not in ",]":
        j += 1
    tok = s[i:j]
    if tok in ("none",):
        return None, j
    if tok in ("true", "false"):
        return tok == "true", j
    if tok in ("yes", "no", "undefined", "reset"):
        return tok, j
    return F(tok), j


def dec(s):
    v, i = _parse(s, 0)
    assert i == len(s), s
    return v


class Driver:
    """client of the Lean model driver"""

    def __init__(self):
        if not os.path.exists(DRIVER):
            raise RuntimeError("driver not built: run MANIFEST.setup_cmd (cd lean && lake build driver)")
        self.p = subprocess.Popen([DRIVER], stdin=subprocess.PIPE, stdout=subprocess.PIPE,
                                  text=True, bufsize=1)
        self.calls = 0

    def call(self, cmd, *args):
        line = cmd + " " + " ".join(enc(a) for a in args)
        self.p.stdin.write(line + "\n")
        self.p.stdin.flush()
        out = self.p.stdout.readline().strip()
        self.calls += 1
        if out.startswith("ok "):
            return ("ok", dec(out[3:]))
        if out == "err value":
            return ("err", "ValueError")
        if out == "err other":
            return ("err", "other")
        raise RuntimeError("driver protocol error on %r -> %r" % (line[:300], out[:300]))

    def close(self):
        try:
            self.p.stdin.close()
            self.p.wait(timeout=5)
        except Exception:
            self.p.kill()


# --------------------------------------------------------------------------- implementation side
def impl(fn):
    """run the real code; exceptions are canonicalised to the enum {ValueError, other}"""
    try:
        return ("ok", fn())
    except ValueError:
        return ("err", "ValueError")
    except Exception as e:  # noqa: BLE001
        return ("err", "other:" + type(e).__name__)


def errkind(r):
    if r[0] == "ok":
        return "ok"
    return "ValueError" if r[1] == "ValueError" else "other"


def pt_canon(p):
    """a control point / value as a tuple of exact rationals (scalars -> 1-tuples)"""
    try:
        it = list(p)
    except TypeError:
        return (frac(p),)
    return tuple(frac(x) for x in it)


def pts_canon(ps):
    if ps is None:
        return None
    return tuple(pt_canon(p) for p in ps)


def curve_state(c):
    """observable state of a real Curve: (U, P, W) as exact rationals"""
    U = tuple(frac(x) for x in c.knotvector)
    P = pts_canon(c.ctrlpoints)
    W = None if c.weights is None else tuple(frac(w) for w in c.weights)
    return (U, P, W)


def model_curve_state(v):
    """decoded driver curve [U, P, W] -> same shape as curve_state"""
    U, P, W = v
    return (tuple(U), None if P is None else tuple(tuple(p) for p in P), None if W is None else tuple(W))


def make_curve(U, P, W=None, scalar=None, intknots=False):
    """real Curve from canonical data; 1-tuples become scalars unless scalar is False;
    intknots: an integer-valued knot vector is handed over as python ints"""
    if intknots and all(frac(x).denominator == 1 for x in U):
        U = [int(x) for x in U]
    if P is None:
        pts = None
    else:
        if scalar is None:
            scalar = all(len(p) == 1 for p in P)
        if scalar:
            pts = [p[0] for p in P]
        else:
            # equal points share one array object (as in `pts = [a, b, c, a]` for a closed curve)
            cache = {}
            pts = [cache.setdefault(tuple(p), np.array(list(p), dtype=object)) for p in P]
    return Curve(list(U), pts, None if W is None else list(W))


def float_twin(U, P, W=None):
    """the same curve with python floats: run an operation on it first so that anything the library memoises across calls
    (keyed on numerically equal arguments) is filled by the float computation before the exact one runs"""
    scalar = all(len(p) == 1 for p in P)
    pts = [float(p[0]) for p in P] if scalar else [np.array([float(x) for x in p]) for p in P]
    return Curve([float(x) for x in U], pts, None if W is None else [float(w) for w in W])


def mixed_twins(U, P, W=None):
    """the same curve with numerically equal knots of another number type (python ints when integral, python floats when exactly
    representable) but exact points and weights: operations on these with *exact* arguments fill any cache keyed on knot tuples"""
    out = []
    scalar = all(len(p) == 1 for p in P)
    pts = lambda: ([p[0] for p in P] if scalar else [np.array(list(p), dtype=object) for p in P])   # noqa: E731
    if all(frac(x).denominator == 1 for x in U):
        out.append(Curve([int(x) for x in U], pts(), None if W is None else list(W)))
    if all(F(float(x)) == frac(x) for x in U):
        out.append(Curve([float(x) for x in U], pts(), None if W is None else list(W)))
    return out


FORMS = ["list", "tuple", "generator", "iter", "map", "nparray", "reversed"]


def form_of(case):
    """argument form chosen by the case itself (stable hash), so that a replay uses the same form"""
    h = hashlib.sha1(json.dumps(case, sort_keys=True, default=str).encode()).hexdigest()
    return FORMS[int(h, 16) % len(FORMS)]


def as_form(nodes, form):
    """the same node sequence handed over in another container / iterable form (one-shot iterators included)"""
    nodes = list(nodes)
    if form == "tuple":
        return tuple(nodes)
    if form == "generator":
        return (x for x in nodes)
    if form == "iter":
        return iter(nodes)
    if form == "map":
        return map(lambda x: x, nodes)
    if form == "nparray":
        return np.array(nodes, dtype=object)
    if form == "reversed":
        return reversed(nodes[::-1])
    return nodes


def has_float(obj):
    """does a result of the real code contain a python/numpy float anywhere?"""
    if obj is None:
        return False
    if isinstance(obj, (float, np.floating)):
        return True
    if isinstance(obj, np.ndarray):
        if obj.dtype.kind == "f":
            return True
        return any(has_float(x) for x in obj.ravel())
    if isinstance(obj, (list, tuple)):
        return any(has_float(x) for x in obj)
    return False


def close(a, b, rel=F(1, 10**9)):
    a, b = frac(a), frac(b)
    return abs(a - b) <= rel * max(1, abs(a), abs(b))


def pts_close(A, B, rel=F(1, 10**9)):
    if A is None or B is None:
        return A is B
    if len(A) != len(B):
        return False
    for p, q in zip(A, B):
        if len(p) != len(q):
            return False
        for x, y in zip(p, q):
            if not close(x, y, rel):
                return False
    return True


# --------------------------------------------------------------------------- generators
GRID = [F(k, 20) for k in range(1, 20)]


def rand_rat(rng, big=False):
    if big:
        d = rng.choice([10**9 + 7, 2**67 + 3, 999983 * 1000003])
        return F(rng.randint(-3 * d, 3 * d), d)
    return F(rng.randint(-12, 12), rng.choice([1, 1, 2, 3, 4, 5, 7]))


def rand_interval(rng):
    r = rng.random()
    if r < 0.5:
        return F(0), F(1)
    if r < 0.7:
        return F(-2), F(1)
    if r < 0.85:
        return F(-1), F(1)      # 0 is then an interior value
    a = F(rng.randint(-9, 9), rng.choice([1, 2, 3]))
    return a, a + F(rng.randint(1, 9), rng.choice([1, 2, 3, 7]))


def rand_kv(rng, p=None, nint=None, maxmult=None, interval=None, pmax=4, nintmax=3, bigknots=False,
            force_zero=False):
    """valid clamped knot vector: degree p, nint distinct interior knots with mixed multiplicities"""
    if p is None:
        p = rng.choice([0, 1, 1, 2, 2, 2, 3, 3, 4][: 1 + 2 * pmax]) if pmax < 4 else rng.choice([0, 1, 1, 2, 2, 2, 3, 3, 4])
        p = min(p, pmax)
    if nint is None:
        nint = rng.choice([0, 1, 1, 2, 2, 3][: max(1, 2 * nintmax)])
        nint = min(nint, nintmax)
    a, b = interval if interval else rand_interval(rng)
    if force_zero and not (a < 0 < b):
        a, b = F(-1), F(1)
    vals = set()
    if force_zero and nint > 0:
        vals.add(F(0))
    tries = 0
    while len(vals) < nint and tries < 100:
        tries += 1
        if bigknots and rng.random() < 0.5:
            d = 10**9 + 7
            t = F(rng.randint(1, d - 1), d)
        else:
            t = rng.choice(GRID)
        vals.add(a + (b - a) * t)
    mm = (p + 1) if maxmult is None else min(maxmult, p + 1)
    U = [a] * (p + 1)
    for v in sorted(vals):
        U += [v] * rng.randint(1, max(1, mm))
    U += [b] * (p + 1)
    return U


def rand_int_kv(rng, pmax=3, nintmax=3):
    """clamped knot vector with integer values, unequal spans and mixed multiplicities"""
    p = rng.randint(1, pmax)
    a = rng.randint(-3, 3)
    U = [F(a)] * (p + 1)
    x = a
    for _ in range(rng.randint(0, nintmax)):
        x += rng.randint(1, 3)
        U += [F(x)] * rng.randint(1, p)
    x += rng.randint(1, 3)
    return U + [F(x)] * (p + 1)


def same_breakpoint_pair(rng, pmin=1, pmax=3):
    """two knot vectors of equal degree, equal distinct knots and equal length (equal npts) whose interior multiplicities are
    distributed differently, e.g. (0,0,0,1/3,1/3,2/3,1,1,1) and (0,0,0,1/3,2/3,2/3,1,1,1); None when the draw degenerates"""
    a, b = rand_interval(rng)
    p = rng.randint(pmin, pmax)
    ks = [a + (b - a) * x for x in sorted(rng.sample(GRID, rng.randint(2, 3)))]
    total = rng.randint(len(ks) + 1, len(ks) * (p + 1) - 1)

    def spread():
        m = [1] * len(ks)
        for _ in range(total - len(ks)):
            cand = [j for j in range(len(ks)) if m[j] < p + 1]
            if not cand:
                break
            m[rng.choice(cand)] += 1
        return m
    mu, mv = spread(), spread()
    if mu == mv or sum(mu) != sum(mv):
        return None
    U = [a] * (p + 1) + [k for k, m in zip(ks, mu) for _ in range(m)] + [b] * (p + 1)
    V = [a] * (p + 1) + [k for k, m in zip(ks, mv) for _ in range(m)] + [b] * (p + 1)
    return U, V


DYADIC = [F(k, 8) for k in range(1, 8)]


def rand_dyadic_kv(rng, pmax=3, nintmax=2):
    """knot vector on [0, 1] whose knots are exactly representable as floats (float and Fraction versions compare and hash equal,
    so anything memoised on knot tuples is shared between the float and the exact computation)"""
    p = rng.randint(1, pmax)
    U = [F(0)] * (p + 1)
    for v in sorted(rng.sample(DYADIC, rng.randint(0, nintmax))):
        U += [v] * rng.randint(1, p)
    return U + [F(1)] * (p + 1)


def reducible_bezier(rng, dim=2):
    """a single-span curve that `clean()` could simplify: a segment stored with degree 2/3, a parabola stored as a cubic,
    or a rational Bezier with constant weights (dyadic data: exact as floats)"""
    kind = rng.choice(["segment2", "segment3", "parabola3", "constweights"])
    pt = lambda: tuple(F(rng.randint(-16, 16), 4) for _ in range(dim))      # noqa: E731
    A, B, C = pt(), pt(), pt()
    if A == B:
        B = tuple(x + 1 for x in B)
    W = None
    if kind == "segment2":
        P = [A, tuple((a + b) / 2 for a, b in zip(A, B)), B]
    elif kind == "segment3":
        P = [A, tuple(a + (b - a) * F(1, 4) * 1 for a, b in zip(A, B)), tuple(a + (b - a) * F(3, 4) for a, b in zip(A, B)), B]
        P[1] = tuple(a + (b - a) * F(1, 3) for a, b in zip(A, B))
        P[2] = tuple(a + (b - a) * F(2, 3) for a, b in zip(A, B))
    elif kind == "parabola3":
        P = [A, tuple((a + 2 * c) / 3 for a, c in zip(A, C)), tuple((2 * c + b) / 3 for c, b in zip(C, B)), B]
    else:
        P = [A, C, B]
        W = [F(2)] * 3
    p = len(P) - 1
    return dict(U=[F(0)] * (p + 1) + [F(1)] * (p + 1), P=P, W=W), kind


def kv_info(U):
    a = U[0]
    p = U.count(a) - 1
    n = len(U) - p - 1
    knots = sorted(set(U))
    return p, n, knots


def rand_points(rng, n, dim=None, big=False, ints=False):
    if dim is None:
        dim = rng.choice([1, 1, 2, 3])
    out = []
    for _ in range(n):
        if ints:
            out.append(tuple(F(rng.randint(-9, 9)) for _ in range(dim)))
        else:
            out.append(tuple(rand_rat(rng, big) for _ in range(dim)))
    return out


def rand_weights(rng, n, kind=None):
    if kind is None:
        kind = rng.choice(["none", "none", "ones", "const", "pos", "pos"])
    if kind == "none":
        return None
    if kind == "ones":
        return [F(1)] * n
    if kind == "const":
        w = F(rng.randint(1, 9), rng.randint(1, 4))
        return [w] * n
    if kind == "tiny":
        # weights only matter up to a common factor: very small weights with ordinary ratios
        sc = F(1, 10 ** rng.choice([10, 12, 15]))
        return [sc * F(rng.randint(1, 12), rng.randint(1, 5)) for _ in range(n)]
    if kind == "huge":
        sc = F(10 ** rng.choice([10, 15]))
        return [sc * F(rng.randint(1, 12), rng.randint(1, 5)) for _ in range(n)]
    if kind == "neg":
        # all weights negative: the weight function has no zero, the curve is as well defined as with positive weights
        return [-F(rng.randint(1, 12), rng.randint(1, 5)) for _ in range(n)]
    if kind == "nearequal":
        # almost, but not exactly, equal weights (differences far below any absolute tolerance)
        return [F(1) + F(rng.randint(0, 9), 10 ** 12) for _ in range(n)]
    return [F(rng.randint(1, 12), rng.randint(1, 5)) for _ in range(n)]


def rand_curve(rng, weights=None, dim=None, **kw):
    U = rand_kv(rng, **kw)
    p, n, _ = kv_info(U)
    return U, rand_points(rng, n, dim), rand_weights(rng, n, weights)


def params_for(rng, U, extra=3):
    """every knot, both ends, span midpoints and random interior parameters"""
    p, n, knots = kv_info(U)
    us = list(knots)
    for a, b in zip(knots[:-1], knots[1:]):
        us.append((a + b) / 2)
    for _ in range(extra):
        us.append(U[0] + (U[-1] - U[0]) * F(rng.randint(0, 1000), 1000))
    return us


def hair_params(U):
    """parameters closer to every knot than double precision (exact rationals), on both sides where inside the interval"""
    p, n, knots = kv_info(U)
    eps = F(1, 10**20)
    out = []
    for k in knots:
        if k - eps >= U[0]:
            out.append(k - eps)
        if k + eps <= U[-1]:
            out.append(k + eps)
    return out


def unit_matrix(rec, drv, case, name, fn, cmd, *args, multi=False):
    """unit level tie: a transformation matrix of heavy.* against the model's matrix (exact data); `multi`: a list of matrices"""
    mat = impl(fn)
    mm = drv.call(cmd, *args)
    if mat[0] != "ok" or mm[0] != "ok":
        l2(rec, name + ".status", case, errkind(mat), errkind(mm), (mat[0] == "ok") == (mm[0] == "ok"))
        return None
    canon_m = lambda M: tuple(tuple(frac(x) for x in row) for row in M)      # noqa: E731
    got = tuple(canon_m(M) for M in mat[1]) if multi else canon_m(mat[1])
    want = tuple(tup(M) for M in mm[1]) if multi else tup(mm[1])
    l2(rec, name, case, got, want, got == want)
    return got


def nontrivial_kv(U):
    p, n, knots = kv_info(U)
    return p >= 2 or len(knots) > 2


# --------------------------------------------------------------------------- bookkeeping
class Recorder:
    def __init__(self, pid, tier, seed):
        self.pid, self.tier, self.seed = pid, tier, seed
        self.evaluations = 0
        self.keys = set()
        self.samples = []
        self.dist = {}
        self.violations = []      # real failing inputs of the property (L3 or L2-with-meaning)
        self.mismatches = []      # model/implementation disagreements (L2)
        self.known = []
        self.t0 = time.time()
        self.notes = []
        self.recent = []

    def count(self, bucket, key="n"):
        d = self.dist.setdefault(bucket, {})
        d[key] = d.get(key, 0) + 1

    def case(self, case, nontrivial=True, sample_every=None):
        self.evaluations += 1
        if nontrivial:
            h = hashlib.sha1(json.dumps(case, sort_keys=True, default=str).encode()).hexdigest()
            self.keys.add(h)
        self.recent.append(case)
        if len(self.recent) > 16:
            self.recent.pop(0)
        if len(self.samples) < 4 or (sample_every and self.evaluations % sample_every == 0 and len(self.samples) < 10):
            self.samples.append(case)

    def violation(self, what, case, **kw):
        # the cases run just before (same process, same library state): needed to replay history-dependent failures
        hist = [c for c in self.recent if c is not case and c != case]
        self.violations.append(dict(what=what, case=case, **kw, history=hist[-15:]))

    def mismatch(self, op, case, impl_out, model_out):
        self.mismatches.append(dict(op=op, case=case, impl=impl_out, model=model_out))

    def elapsed(self):
        return time.time() - self.t0


def jsonable(x):
    if isinstance(x, F):
        return str(x)
    if isinstance(x, (list, tuple)):
        return [jsonable(y) for y in x]
    if isinstance(x, dict):
        return {str(k): jsonable(v) for k, v in x.items()}
    if isinstance(x, np.ndarray):
        return jsonable(x.tolist())
    if isinstance(x, (np.floating, np.integer)):
        return x.item()
    if isinstance(x, (str, int, float, bool)) or x is None:
        return x
    return repr(x)


# --------------------------------------------------------------------------- (de)serialisation of cases
def ser(x):
    return jsonable(x)


def de(x):
    """inverse of ser for case data: strings that look like rationals become Fractions"""
    if isinstance(x, str):
        try:
            return F(x)
        except (ValueError, ZeroDivisionError):
            return x
    if isinstance(x, list):
        return [de(y) for y in x]
    if isinstance(x, dict):
        return {k: de(v) for k, v in x.items()}
    if isinstance(x, bool) or x is None:
        return x
    if isinstance(x, int):
        return F(x)
    return x


def curve_args(U, P, W):
    """three driver arguments for a curve"""
    return (list(U), None if P is None else [list(p) for p in P], None if W is None else list(W))


def tup(x):
    if isinstance(x, list):
        return tuple(tup(y) for y in x)
    return x


def budget(ctx, quick, thorough):
    return quick if ctx["tier"] == "quick" else thorough


def l2(rec, op, case, impl_out, model_out, same):
    """record one model-vs-implementation comparison"""
    rec.count("L2", "compared")
    rec.count("L2ops", op)
    if not same:
        rec.mismatch(op, case, ser(impl_out), ser(model_out))
    return same


def same_function_by_points(drv, before, after):
    """Decides equality of two curves on their common interval from finitely many exact evaluations of the Cox-de Boor definition
    (driver `curve.def`): on every non-empty span of the merged knot vector both curves are rational functions with numerator and
    denominator of degree <= p, so the cross-multiplied difference has degree <= 2p and vanishes identically iff it vanishes at
    2p+1 distinct points (p+1 for polynomial curves).  Used where the span-table oracle `rf.eq` does not apply (two different knot
    values closer than the library's tolerance).  Returns None when equal, else a parameter at which the curves differ."""
    Ub, Ua = list(before[0]), list(after[0])
    p = max(kv_info(Ub)[0], kv_info(Ua)[0])
    rational = before[2] is not None or after[2] is not None
    need = (2 * p + 1) if rational else (p + 1)
    cuts = sorted(set(Ub) | set(Ua))
    us = []
    for a, b in zip(cuts[:-1], cuts[1:]):
        us += [a + (b - a) * F(j, need) for j in range(need)]
    us.append(cuts[-1])
    x = drv.call("curve.def", *curve_args(*before), us)
    y = drv.call("curve.def", *curve_args(*after), us)
    if x[0] != "ok" or y[0] != "ok":
        return ("oracle-error", ser(x if x[0] != "ok" else y))
    for u, vx, vy in zip(us, tup(x[1]), tup(y[1])):
        if vx != vy:
            return (str(u), ser(vx), ser(vy))
    return None


def rank(rows):
    """exact rank of a list of rows of Fractions (Gauss-Jordan)"""
    rows = [list(r) for r in rows]
    rk, col = 0, 0
    ncols = len(rows[0]) if rows else 0
    while rk < len(rows) and col < ncols:
        piv = next((i for i in range(rk, len(rows)) if rows[i][col] != 0), None)
        if piv is None:
            col += 1
            continue
        rows[rk], rows[piv] = rows[piv], rows[rk]
        for i in range(len(rows)):
            if i != rk and rows[i][col] != 0:
                f = rows[i][col] / rows[rk][col]
                rows[i] = [a - f * b for a, b in zip(rows[i], rows[rk])]
        rk += 1
        col += 1
    return rk


def l3(rec, name):
    rec.count("L3", "decided")
    rec.count("L3oracles", name)
