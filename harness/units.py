"""unit-level ties: the helper functions of compmec.nurbs.heavy that the Lean theorems are stated about, compared entry by entry with
their models on exact data (in addition to the end-to-end comparison of the public operations).

  BasisFunction.speval_matrix      <->  Model/Basis.speval        (tableSpan_eq_cdbSpan)
  Operations.one_knot_insert_once  <->  Model/Ops.insOnce         (insOnce_row_is_boehm, C04_row_sum_one)
  Operations.degree_increase_bezier<->  Model/Ops.elevBezier      (C06_bezier_elevation)
  Calculus.derivate_nonrational_spline <-> Model/Calc.derivSplineMat (derivSplineMat_row, C09_derivative_piece)
  Linalg.invert / solve / lstsq    <->  Model/Linalg              (invertChecked_shaped, lstsq_left_inverse)
"""
from common import *  # noqa: F401,F403


def _canon3(T):
    return tuple(tuple(tuple(frac(x) for x in row) for row in M) for M in T)


def tie_speval(rec, drv, case, U):
    p = kv_info(U)[0]
    for j in range(p + 1):
        r = impl(lambda: heavy.BasisFunction.speval_matrix(tuple(U), j))
        m = drv.call("basis.table", list(U), j)
        if r[0] != "ok" or m[0] != "ok":
            l2(rec, "unit.speval_matrix.status", case, errkind(r), errkind(m), (r[0] == "ok") == (m[0] == "ok"))
            continue
        got = _canon3(r[1])
        want = tuple(tuple(tuple(poly) + (F(0),) * (j + 1 - len(poly)) for poly in span) for span in m[1])
        l2(rec, "unit.speval_matrix", dict(case=case, j=j), got, want, got == want)


def tie_insonce(rec, drv, case, U, node):
    unit_matrix(rec, drv, dict(case=case, node=str(node)), "unit.one_knot_insert_once",
                lambda: heavy.Operations.one_knot_insert_once(tuple(U), node), "ops.insonce", list(U), node)


def tie_elevbez(rec, drv, case, p, t):
    U = [F(0)] * (p + 1) + [F(1)] * (p + 1)
    unit_matrix(rec, drv, dict(case=case, p=p, t=t), "unit.degree_increase_bezier",
                lambda: heavy.Operations.degree_increase_bezier(tuple(U), t), "ops.elevbez", p, t)


def tie_derivmat(rec, drv, case, U):
    if kv_info(U)[0] == 0:
        return
    # the library computes this matrix in float64 even for Fraction knots (noted in DESIGN section 6; C09 does not demand exactness)
    r = impl(lambda: heavy.Calculus.derivate_nonrational_spline(tuple(U)))
    m = drv.call("ops.derivmat", list(U))
    if r[0] != "ok" or m[0] != "ok":
        l2(rec, "unit.derivate_nonrational_spline.status", case, errkind(r), errkind(m), (r[0] == "ok") == (m[0] == "ok"))
        return
    got = [[frac(x) for x in row] for row in r[1]]
    want = [list(row) for row in m[1]]
    same = len(got) == len(want) and all(len(a) == len(b) and all(close(x, y, F(1, 10**12)) for x, y in zip(a, b)) for a, b in zip(got, want))
    l2(rec, "unit.derivate_nonrational_spline", case, got, want, same)


def tie_linalg(rec, drv, case, A, B=None):
    """A: square or tall exact matrix (list of rows); B: right-hand sides for solve (same number of rows, square A only)"""
    rows, cols = len(A), len(A[0])
    if rows == cols:
        unit_matrix(rec, drv, case, "unit.Linalg.invert", lambda: heavy.Linalg.invert([list(r) for r in A]), "linalg.inv", [list(r) for r in A])
        if B is not None:
            unit_matrix(rec, drv, case, "unit.Linalg.solve", lambda: heavy.Linalg.solve([list(r) for r in A], [list(r) for r in B]),
                        "linalg.solve", [list(r) for r in A], [list(r) for r in B])
    unit_matrix(rec, drv, case, "unit.Linalg.lstsq", lambda: heavy.Linalg.lstsq([list(r) for r in A]), "linalg.lstsq", [list(r) for r in A])
