"""C03 — every reachable KnotVector is a well-formed clamped vector; queries agree."""
from common import *  # noqa: F401,F403
from copy import copy, deepcopy

RULE = ("random operation sequences (length <= 12 quick / <= 40 thorough) on real KnotVector objects built from valid vectors "
        "(degree 0..4, mixed multiplicities, several intervals) and from the generators: insert/remove/+=/-= (number -> shift, list -> "
        "insert/remove), shift, scale, *=, /=, normalize, convert, degree setter, |=, &=, split, copy; arguments drawn from a valid and a "
        "malformed stream (absent knots, end knots, outside nodes, excess multiplicity, non-positive scale, different intervals); plus a "
        "malformed constructor stream (unsorted, unclamped, tail after the clamped block, constant, too short, non-numeric, NaN).  "
        "Non-trivial: a sequence with at least one interior knot or degree >= 2; distinct = distinct (start vector, op list)."
        " Also: affine maps of float vectors at the edge of the float range (1e16, 5e-324, overflow, NaN, inf, complex); nodes of insert / remove / += / -= / span / mult / valid as list, tuple, generator, iterator, map, ndarray.")
EXPLANATION = ("L2: after every step the observable tuple (elements, degree, npts, knots, limits, span/mult/valid on probe nodes) is "
               "compared with the Lean state machine; L3: the well-formedness predicate and the span/mult specifications are evaluated "
               "directly on the real object after every step, and the object is re-read after every raising call (must be unchanged).")
ASSUMPTIONS = ["distinct knot values differ by at least 1e-6 (the library's merge tolerance); near-duplicate knots are outside the guaranteed domain"]


def wf_problems(kv):
    """the well-formedness predicate of the property, evaluated on the real object's element list"""
    U = [frac(x) for x in kv]
    p, n = kv.degree, kv.npts
    out = []
    if any(U[i] > U[i + 1] for i in range(len(U) - 1)):
        out.append("not non-decreasing")
    if U.count(U[0]) != p + 1:
        out.append("first value repeated %d times, degree+1 = %d" % (U.count(U[0]), p + 1))
    if U.count(U[-1]) != p + 1:
        out.append("last value repeated %d times, degree+1 = %d" % (U.count(U[-1]), p + 1))
    if any(U.count(x) > p + 1 for x in set(U)):
        out.append("interior multiplicity above degree+1")
    if len(U) != p + n + 1:
        out.append("length != degree+npts+1")
    if not n > p:
        out.append("npts <= degree")
    if not out:
        if tuple(frac(x) for x in kv.knots) != tuple(sorted(set(U))):
            out.append("knots != distinct values")
        if tuple(frac(x) for x in kv.limits) != (U[0], U[-1]):
            out.append("limits != (first, last)")
    return out


def probe_nodes(U):
    ks = sorted(set(U))
    mids = [(a + b) / 2 for a, b in zip(ks[:-1], ks[1:])]
    return ks + mids


def query_problems(kv):
    U = [frac(x) for x in kv]
    n = kv.npts
    out = []
    for u in probe_nodes(U):
        s = impl(lambda: kv.span(u))
        m = impl(lambda: kv.mult(u))
        if s[0] != "ok" or m[0] != "ok":
            out.append("span/mult raised at valid node %s" % u)
            continue
        k = s[1]
        good = (U[k] <= u < U[k + 1]) or (u == U[-1] and k == n - 1)
        if not good:
            out.append("span(%s) = %s violates U[k] <= u < U[k+1]" % (u, k))
        if m[1] != U.count(u):
            out.append("mult(%s) = %s but %s occurrences" % (u, m[1], U.count(u)))
        if kv.valid([u]) is not True:
            out.append("valid([%s]) is not True" % u)
    for u in (U[0] - F(1, 3), U[-1] + F(1, 7)):
        if kv.valid([u]) is not False:
            out.append("valid outside is not False")
        for q in (kv.span, kv.mult):
            r = impl(lambda: q(u))
            if errkind(r) != "ValueError":
                out.append("%s outside the interval did not raise ValueError" % q.__name__)
    sp = impl(lambda: kv.span(probe_nodes(U)))
    if sp[0] == "ok" and tuple(sp[1]) != tuple(kv.span(u) for u in probe_nodes(U)):
        out.append("span(sequence) != per-node spans")
    # the same queries with the nodes handed over as tuple / generator / iterator / map / ndarray
    pn = probe_nodes(U)
    for form in FORMS[1:]:
        for q, name in ((kv.span, "span"), (kv.mult, "mult")):
            r = impl(lambda: q(as_form(pn, form)))
            if r[0] != "ok" or tuple(r[1]) != tuple(q(u) for u in pn):
                out.append("%s(nodes as %s) != per-node answers" % (name, form))
        if kv.valid(as_form(pn, form)) is not True or kv.valid(as_form(pn + [U[-1] + 1], form)) is not False:
            out.append("valid(nodes as %s) wrong" % form)
    return out


def nan_problems(kv):
    """NaN is not a node of the interval: must be refused, and the call must return"""
    import props.c15 as c15
    out = []
    for q in (kv.span, kv.mult):
        try:
            r = impl(lambda: c15.with_timeout(lambda: q(float("nan")), 5))
            if errkind(r) != "ValueError":
                out.append("%s(nan) did not raise ValueError" % q.__name__)
        except c15.Timeout:
            out.append("%s(nan) did not return" % q.__name__)
    return out


def safe_frac(x):
    try:
        return frac(x)
    except (ValueError, OverflowError, TypeError):
        return repr(x)          # NaN, inf, complex: not a number of the knot line


def observe(kv):
    return dict(U=tuple(safe_frac(x) for x in kv), degree=kv.degree, npts=kv.npts)


def model_obs(m):
    U, d = m
    return dict(U=tuple(U), degree=int(d), npts=len(U) - int(d) - 1)


def apply_op(kv, op):
    """apply one operation to the real object; returns the (possibly new) object"""
    k = op[0]
    form = form_of(list(op)) if k in ("insert", "remove", "iadd_list", "isub_list") else None
    if k == "insert":
        kv.insert(as_form(op[1], form))
    elif k == "remove":
        kv.remove(as_form(op[1], form))
    elif k == "iadd_list":
        kv += as_form(op[1], form)
    elif k == "isub_list":
        kv -= as_form(op[1], form)
    elif k == "iadd_num":
        kv += op[1]
    elif k == "isub_num":
        kv -= op[1]
    elif k == "shift":
        kv.shift(op[1])
    elif k == "scale":
        kv.scale(op[1])
    elif k == "imul":
        kv *= op[1]
    elif k == "idiv":
        kv /= op[1]
    elif k == "normalize":
        kv.normalize()
    elif k == "setdeg":
        kv.degree = int(op[1])
    elif k == "ior":
        kv |= KnotVector(list(op[1]))
    elif k == "iand":
        kv &= KnotVector(list(op[1]))
    elif k == "convert_fraction":
        kv.convert(F)
    elif k == "convert_int":
        kv.convert(int)
        kv.convert(F)       # back to exact rationals: python ints would turn into floats at the next division
    elif k == "copy":
        kv = copy(kv)
    elif k == "deepcopy":
        kv = deepcopy(kv)
    else:
        raise RuntimeError(k)
    return kv


def model_op(drv, U, op):
    k = op[0]
    if k in ("insert", "iadd_list"):
        return drv.call("kv.insert", U, op[1])
    if k in ("remove", "isub_list"):
        return drv.call("kv.remove", U, op[1])
    if k in ("iadd_num", "shift"):
        return drv.call("kv.shift", U, op[1])
    if k == "isub_num":
        return drv.call("kv.shift", U, -op[1])
    if k in ("scale", "imul"):
        return drv.call("kv.scale", U, op[1])
    if k == "idiv":
        if op[1] == 0:
            return ("err", "other")
        return drv.call("kv.scale", U, 1 / op[1])
    if k == "normalize":
        return drv.call("kv.normalize", U)
    if k == "setdeg":
        if op[1] < 0:
            return ("err", "ValueError")
        return drv.call("kv.setdeg", U, op[1])
    if k == "ior":
        V = drv.call("kv.new", op[1], None)
        return V if V[0] != "ok" else drv.call("kv.union", U, op[1])
    if k == "iand":
        V = drv.call("kv.new", op[1], None)
        return V if V[0] != "ok" else drv.call("kv.inter", U, op[1])
    if k in ("convert_fraction", "copy", "deepcopy"):
        return drv.call("kv.new", U, None)
    if k == "convert_int":
        if all(x.denominator == 1 for x in U):
            return drv.call("kv.new", U, None)
        return ("err", "ValueError")
    raise RuntimeError(k)


MUST_BE_VALUEERROR = {"insert", "remove", "iadd_list", "isub_list"}


def run_case(ctx, case):
    rec, drv = ctx["rec"], ctx["drv"]
    c = de(case)
    if c["kind"] == "ctor":
        return run_ctor(ctx, case, c)
    if c["kind"] == "floatmap":
        return run_floatmap(ctx, case, c)
    U = c["U"]
    ops = [tuple(o) for o in c["ops"]]
    rec.case(case, nontrivial=nontrivial_kv(U))
    r = impl(lambda: KnotVector(list(U)))
    if r[0] != "ok":
        rec.violation("valid start vector rejected", case, observed=r[1])
        return
    kv = r[1]
    mstate = list(U)
    for step, op in enumerate(ops):
        rec.count("op", op[0])
        before = observe(kv)
        obj = kv
        r = impl(lambda: apply_op(obj, op))
        m = model_op(drv, mstate, op)
        if r[0] == "ok":
            kv = r[1]
        after = observe(kv)
        rec.count("outcome", errkind(r))
        same = errkind(r) == errkind(m) if r[0] != "ok" or m[0] != "ok" else (model_obs(m[1]) == after)
        if r[0] != "ok" and m[0] != "ok" and op[0] not in MUST_BE_VALUEERROR:
            same = True    # both reject; the kind of exception is only prescribed for construction/insertion/removal
        l2(rec, "kv." + op[0], dict(case=case, step=step), (errkind(r), after), m, same)
        if m[0] == "ok":
            mstate = list(m[1][0])
        if r[0] != "ok":
            if after != before:
                rec.violation("rejected request modified the knot vector", case, step=step, op=ser(op), before=ser(before), after=ser(after))
            if op[0] in MUST_BE_VALUEERROR and errkind(r) != "ValueError":
                rec.violation("insertion/removal rejected with %s instead of ValueError" % r[1], case, step=step, op=ser(op))
            if m[0] == "ok":
                rec.violation("request inside the valid set was rejected", case, step=step, op=ser(op), observed=r[1])
                return
        else:
            bad = wf_problems(kv) + query_problems(kv)
            l3(rec, "WF+queries")
            if bad:
                rec.violation("reachable KnotVector is not well formed / queries disagree: " + "; ".join(bad[:3]), case, step=step, op=ser(op), state=ser(after))
                return
            if m[0] != "ok":
                rec.violation("request that leaves the valid set was accepted", case, step=step, op=ser(op), state=ser(after))
                return
        if op[0] in ("copy", "deepcopy") and r[0] == "ok":
            # copies are independent objects
            other = obj
            if other is kv:
                rec.violation("copy returned the same object", case, step=step)
    bad = nan_problems(kv)
    if bad:
        rec.violation("query with NaN: " + "; ".join(bad), case, state=ser(observe(kv)))
    # split is non-mutating and returns well-formed pieces
    nodes = c.get("split")
    if nodes is not None:
        before = observe(kv)
        r = impl(lambda: kv.split(list(nodes)))
        m = drv.call("kv.split", mstate, nodes)
        ok = errkind(r) == errkind(m) and (r[0] != "ok" or [observe(x) for x in r[1]] == [model_obs(x) for x in m[1]])
        l2(rec, "kv.split", case, r if r[0] != "ok" else [observe(x) for x in r[1]], m, ok)
        if observe(kv) != before:
            rec.violation("split modified the knot vector", case)
        if r[0] == "ok":
            for piece in r[1]:
                bad = wf_problems(piece)
                if bad:
                    rec.violation("split piece not well formed: " + bad[0], case, piece=ser(observe(piece)))


def run_floatmap(ctx, case, c):
    """affine maps of float vectors with arguments at the edge of the float range: rounding, underflow, overflow, NaN, inf and
    complex numbers can merge or destroy knots; the result must be a well-formed vector or the request must be refused and
    leave the object as it was"""
    rec = ctx["rec"]
    unq = lambda x: x[2:] if isinstance(x, str) and x.startswith("f:") else x     # noqa: E731  floats travel as "f:<repr>"
    U = [float(unq(x)) for x in c["U"]]
    name, arg = c["op"][0], unq(c["op"][1])
    val = None if arg is None else (complex(arg) if "j" in arg else float(arg))
    rec.case(case, nontrivial=True)
    rec.count("floatmap", name + ":" + str(arg))
    r = impl(lambda: KnotVector(list(U)))
    if r[0] != "ok":
        return          # the start vector itself is not in the set (e.g. values closer than the merge tolerance)
    kv = r[1]
    before = [repr(x) for x in kv], kv.degree, kv.npts
    if name == "shift":
        r = impl(lambda: kv.shift(val))
    elif name == "scale":
        r = impl(lambda: kv.scale(val))
    elif name == "iadd":
        def f():
            nonlocal kv
            kv += val
        r = impl(f)
    elif name == "imul":
        def f():
            nonlocal kv
            kv *= val
        r = impl(f)
    else:
        r = impl(lambda: kv.normalize())
    rec.count("outcome", errkind(r))
    l3(rec, "WF-after-float-map")
    if r[0] != "ok":
        after = [repr(x) for x in kv], kv.degree, kv.npts
        if after != before:
            rec.violation("rejected affine map modified the knot vector", case, before=before[0], after=after[0])
        return
    elems = list(kv)
    if not all(isinstance(x, (int, float, F)) and x == x for x in elems):
        rec.violation("affine map accepted and left NaN / non-real knots", case, state=[repr(x) for x in elems])
        return
    finite = all(abs(x) != float("inf") for x in elems)
    if finite:
        vals = sorted(set(frac(x) for x in elems))
        if any(b - a < F(1, 10**6) for a, b in zip(vals[:-1], vals[1:])):
            # distinct values closer than the library's merge tolerance (underflow): outside the guaranteed domain (see ASSUMPTIONS)
            rec.count("floatmap-domain", "near-duplicate-values")
            return
    else:
        rec.count("floatmap-domain", "infinite-values")
    # the element list itself (plain comparisons, so that overflow to +-inf is judged like any other value)
    p_, n_ = kv.degree, kv.npts
    bad = []
    if any(elems[i] > elems[i + 1] for i in range(len(elems) - 1)):
        bad.append("not non-decreasing")
    if elems.count(elems[0]) != p_ + 1 or elems.count(elems[-1]) != p_ + 1:
        bad.append("end values not repeated exactly degree+1 times")
    if any(elems.count(x) > p_ + 1 for x in set(elems)):
        bad.append("interior multiplicity above degree+1")
    if len(elems) != p_ + n_ + 1 or not n_ > p_:
        bad.append("length / npts inconsistent")
    if not bad and finite:
        bad = wf_problems(kv)
    if bad:
        rec.violation("affine map accepted but the vector is no longer well formed: " + "; ".join(bad[:3]), case,
                      state=[repr(x) for x in elems], degree=kv.degree, npts=kv.npts)


def run_ctor(ctx, case, c):
    rec, drv = ctx["rec"], ctx["drv"]
    raw, deg = c["v"], c.get("deg")
    rec.case(case, nontrivial=True)
    rec.count("ctor", c.get("label", "?"))
    special = {"nan": float("nan"), "asd": "asd", "None": None}
    vec = [special.get(x, x) if isinstance(x, str) else x for x in raw]
    encodable = all(isinstance(x, F) for x in vec)
    d = None if deg is None else int(deg)
    r = impl(lambda: KnotVector(vec) if d is None else KnotVector(vec, d))
    m = drv.call("kv.new", vec, d) if encodable else ("err", "ValueError")
    l2(rec, "kv.new", case, errkind(r), errkind(m), errkind(r) == errkind(m))
    if m[0] == "ok":
        if r[0] != "ok":
            rec.violation("well-formed vector rejected", case, observed=r[1])
        else:
            bad = wf_problems(r[1]) + query_problems(r[1])
            l3(rec, "WF+queries")
            if bad:
                ks_ = sorted(set(x for x in vec))
                close = any(b_ - a_ < F(1, 10**6) for a_, b_ in zip(ks_[:-1], ks_[1:]))
                rec.violation("constructed KnotVector not well formed: " + "; ".join(bad[:3]), case,
                              finding_key=("two-knot-values-closer-than-1e-6" if close else None))
    else:
        if r[0] == "ok":
            rec.violation("malformed vector accepted by the constructor", case, state=ser(observe(r[1])))
        elif errkind(r) != "ValueError":
            rec.violation("malformed vector rejected with %s instead of ValueError" % r[1], case)


def gen_op(rng, U, malformed):
    p, n, knots = kv_info(U)
    a, b = U[0], U[-1]
    kinds = ["insert", "remove", "iadd_list", "isub_list", "iadd_num", "isub_num", "shift", "scale", "imul", "idiv",
             "normalize", "setdeg", "ior", "iand", "convert_fraction", "convert_int", "copy", "deepcopy"]
    k = rng.choice(kinds)
    inside = lambda: a + (b - a) * rng.choice(GRID)  # noqa: E731
    if k in ("insert", "iadd_list"):
        if malformed:
            bad = rng.choice(["outside", "end", "over"])
            if bad == "outside":
                # one outside value; or exactly as many copies as would make it a new clamped end (degree+1 copies, the old
                # end becoming a legal interior knot), on one side or both; or degree+2 copies next to one copy of the far end
                lo, hi = a - F(1, 2), b + F(1, 3)
                shape = rng.choice(["one", "one", "newend", "newend", "both", "plus"])
                if shape == "one":
                    return (k, [rng.choice([lo, hi])])
                if shape == "newend":
                    return (k, [rng.choice([lo, hi])] * (p + 1))
                if shape == "both":
                    return (k, [lo] * (p + 1) + [hi] * (p + 1))
                return (k, rng.choice([[hi] * (p + 2) + [a], [lo] * (p + 2) + [b], [hi] * (p + 1) + [a + (b - a) / 2]]))
            if bad == "end":
                return (k, [rng.choice([a, b])])
            x = rng.choice(knots[1:-1]) if len(knots) > 2 else inside()
            return (k, [x] * (p + 2 - U.count(x)))
        x = inside()
        cap = p + 1 - U.count(x)
        return (k, [x] * rng.randint(1, max(1, cap))) if cap > 0 else (k, [])
    if k in ("remove", "isub_list"):
        if malformed or len(knots) <= 2:
            return (k, [rng.choice([a, b, inside() + F(1, 977)])])
        x = rng.choice(knots[1:-1])
        return (k, [x] * rng.randint(1, U.count(x)))
    if k in ("iadd_num", "isub_num", "shift"):
        if rng.random() < 0.12:
            # far translations (parameters like time stamps): every query must keep agreeing with the element list out there
            return (k, F(rng.choice([-1, 1]) * rng.choice([10**10, 4 * 10**9, 10**12, 3 * 10**15]) + rng.randint(0, 9)))
        return (k, rand_rat(rng))
    if k in ("scale", "imul", "idiv"):
        if malformed:
            return (k, rng.choice([F(0), F(-1), F(-3, 2)]))
        return (k, F(rng.randint(1, 9), rng.randint(1, 4)))
    if k == "setdeg":
        if malformed:
            # lowering the degree is refused whenever some knot cannot lose enough copies (also by two or more, and below 0)
            return (k, F(rng.choice([max(0, p - 1), max(0, p - 2), 0, -1, -2])))
        return (k, F(p + rng.randint(0, 2)))
    if k in ("ior", "iand"):
        if malformed:
            V = rand_kv(rng, interval=(a, b + 1))
        else:
            V = rand_kv(rng, interval=(a, b), p=(p if k == "iand" else None))
        return (k, V)
    return (k,)


def run(ctx):
    rng = ctx["rng"]
    # malformed constructor stream (corpus: the D1 witnesses first)
    ctor = [
        ("tail", [0, 0, 1, 1, 2], None), ("unclamped+degree", [0, 1, 2, 3], 1), ("constant", [1, 1], None),
        ("constant3", [2, 2, 2], None), ("short", [1], None), ("empty", [], None), ("unsorted", [0, 0, F(1, 2), F(1, 4), 1, 1], None),
        ("excess", [0, 0, F(1, 2), F(1, 2), F(1, 2), 1, 1], None), ("first>last", [0, 0, 0, 1, 1], None), ("last>first", [0, 0, 1, 1, 1], None),
        ("nan", [0, 0, "nan", 1, 1], None), ("string", ["asd", 0, 1], None), ("none", [0, "None", 1], None),
        ("wrongdeg", [0, 0, 1, 1], 0), ("wrongdeg2", [0, 0, 0, 1, 1, 1], 1), ("okdeg", [0, 0, F(1, 3), 1, 1], 1),
        ("excess-behind-near-duplicate", [-2] * 4 + [F(3999999999, 10**10)] + [F(2, 5)] * 5 + [1] * 4, None),
        ("excess-behind-near-duplicate1", [1, 1, F(23, 20) - F(1, 10**16), F(23, 20), F(23, 20), F(23, 20), F(10, 7), F(10, 7)], None),
        ("near-duplicate-valid", [0, 0, 0, F(1, 2), F(1, 2) + F(1, 10**12), 1, 1, 1], None),      # witness of the recorded finding
        ("head+degree", [-1, 0, 0, 0, 1, 2, 2, 2], 2), ("head+degree1", [0, 1, 2, 2], 1), ("tail+degree", [0, 0, 1, 2], 1),
        ("deg0", [0, F(1, 2), 1], None), ("deg0dup", [0, F(1, 2), F(1, 2), 1], None), ("head-tail", [-1, 0, 0, 1, 1], None),
    ]
    for label, v, d in ctor:
        run_case(ctx, ser(dict(kind="ctor", label=label, v=[F(x) if isinstance(x, (int, F)) else x for x in v], deg=d)))
    for i in range(budget(ctx, 40, 400)):
        v = rand_kv(rng)
        mode = rng.choice(["drop", "dup", "swap", "tail", "head", "neardup"])
        w = list(v)
        if mode == "neardup":
            # an interior knot with one copy too many, preceded by a value closer to it than the merge tolerance (1e-6)
            p_, n_, ks_ = kv_info(v)
            if len(ks_) <= 2:
                continue
            k_ = rng.choice(ks_[1:-1])
            j = w.index(k_)
            w[j:j] = [k_ - F(1, 10 ** rng.choice([7, 10, 16]))] + [k_] * (p_ + 2 - w.count(k_))
        if mode == "drop":
            w.pop(rng.randrange(len(w)))
        elif mode == "dup":
            j = rng.randrange(len(w))
            w.insert(j, w[j])
        elif mode == "swap" and len(set(w)) > 1:
            j = rng.randrange(len(w) - 1)
            w[j], w[j + 1] = w[j + 1], w[j]
        elif mode == "tail":
            w.append(w[-1] + 1)
        else:
            w.insert(0, w[0] - 1)
        run_case(ctx, ser(dict(kind="ctor", label="mutated-" + mode, v=w, deg=None)))
        # the same list with the degree given explicitly: the degree of the vector it was made from, the degree either end
        # alone would suggest, one more, one less (and the untouched vector with its own / a wrong degree)
        p0 = kv_info(v)[0]
        cands = [p0, p0, w.count(w[-1]) - 1, w.count(w[0]) - 1, p0 + 1, p0 - 1]
        dx = rng.choice([d_ for d_ in cands if d_ >= 0])
        run_case(ctx, ser(dict(kind="ctor", label="mutated-" + mode + "+degree", v=w, deg=dx)))
        if i % 3 == 0:
            run_case(ctx, ser(dict(kind="ctor", label="valid+degree", v=v, deg=rng.choice([p0, p0, p0 + 1, max(0, p0 - 1)]))))
    # affine maps of float vectors at the edge of the float range (corpus first, then random)
    fm = [([0, 0, 0.5, 4, 4], ("shift", "1e16")), ([0, 0, 4, 4.5, 5, 12, 12], ("iadd", "1e16")), ([0, 0, 0.25, 1, 1], ("scale", "5e-324")),
          ([-1e308, -1e308, 0, 1e308, 1e308], ("normalize", None)), ([0, 0, 0.5, 1, 1], ("shift", "nan")),
          ([0, 0, 0.5, 1, 1], ("scale", "inf")), ([0, 0, 0.5, 1, 1], ("shift", "1j")), ([0, 0, 0.5, 1, 1], ("shift", "inf")),
          ([1, 1, 2, 3, 3], ("imul", "1e308")), ([0, 0, 0, 1, 2, 3, 3, 3], ("scale", "1e-323"))]
    for U, op in fm:
        run_case(ctx, ser(dict(kind="floatmap", U=["f:" + repr(float(x)) for x in U], op=[op[0], None if op[1] is None else "f:" + op[1]])))
    for i in range(budget(ctx, 40, 400)):
        U = [float(x) for x in rand_kv(rng, pmax=3, nintmax=3)]
        name = rng.choice(["shift", "iadd", "scale", "imul", "normalize"])
        if name in ("shift", "iadd"):
            arg = rng.choice(["1e15", "1e16", "-3e16", "1e17", "1e300", "-1e308", "nan", "inf", "-inf", "1j", "2.5", "1e-300"])
        elif name in ("scale", "imul"):
            arg = rng.choice(["5e-324", "1e-320", "1e-310", "1e-300", "1e300", "1e308", "1.7e308", "inf", "nan", "3.5"])
        else:
            arg = None
            if rng.random() < 0.5:
                m = rng.choice([1e300, 1e308, 1e-310, 1e-320])
                U = [x * m for x in U]
        run_case(ctx, ser(dict(kind="floatmap", U=["f:" + repr(x) for x in U], op=[name, None if arg is None else "f:" + arg])))
    maxlen = budget(ctx, 12, 40)
    for i in range(budget(ctx, 90, 1200)):
        U = rand_kv(rng, force_zero=(i % 7 == 0))
        ops, cur = [], list(U)
        for _ in range(rng.randint(3, maxlen)):
            op = gen_op(rng, cur, malformed=(rng.random() < 0.3))
            ops.append(op)
            m = model_op(ctx["drv"], cur, op)
            if m[0] == "ok":
                cur = list(m[1][0])
        a, b = cur[0], cur[-1]
        split = rng.choice([None, [a + (b - a) * rng.choice(GRID) for _ in range(rng.randint(0, 3))] + rng.choice([[], [a], [b]])])
        run_case(ctx, ser(dict(kind="seq", U=U, ops=ops, split=split)))
