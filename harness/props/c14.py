"""C14 — clean() reaches the unique minimal representation without changing the curve."""
from common import *  # noqa: F401,F403

RULE = ("histories: a random curve M on a random knot vector (generic points, so M is minimal — confirmed by the exact minimal-form oracle), then "
        "random knot insertions and degree elevations in random order giving X; then clean(), or degree_clean()+knot_clean() in either order; a "
        "second, differently inflated representation Y of the same curve; idempotence.  Polynomial and rational curves.  Non-trivial: at least two "
        "inflation steps; distinct = distinct (M, history)."
        " Also: dyadic knots with a float twin cleaned first; minimal curves with small-integer / symmetric control points cleaned with the "
        "default, with lossy tolerances (1e-3..1e-6) and with a tolerance of 45% of the exact cost of the cheapest single removal.")
EXPLANATION = ("L3: `rf.eq` (cleaned curve equals the original, every u), `rf.minimal` (exact smallest degree and, per knot, the multiplicity forced "
               "by the first jumping derivative) compared with the cleaned knot vector, identical data for two representations, idempotence.  "
               "L2: cleaned state vs the model's clean loops.")
ASSUMPTIONS = ["weights positive; minimality is asserted for polynomial curves (as the property states)"]


def inflate(rng, curve, steps, grid=GRID):
    hist = []
    for _ in range(steps):
        U = [frac(x) for x in curve.knotvector]
        p = curve.degree
        a, b = U[0], U[-1]
        if rng.random() < 0.6:
            nodes = []
            for _ in range(rng.randint(1, 2)):
                x = rng.choice(sorted(set(U))[1:-1] + [a + (b - a) * rng.choice(grid)])
                if U.count(x) + nodes.count(x) < p + 1:
                    nodes.append(x)
            if nodes:
                curve.knot_insert(nodes)
                hist.append(("insert", nodes))
        elif p < 4:
            curve.degree_increase(1)
            hist.append(("elevate", 1))
    return hist


def run_case(ctx, case):
    rec, drv = ctx["rec"], ctx["drv"]
    c = de(case)
    if c.get("kind") == "special":
        return run_special(ctx, case)
    M = (c["U"], [tuple(p) for p in c["P"]], c["W"])
    X = (c["X"]["U"], [tuple(p) for p in c["X"]["P"]], c["X"]["W"])
    order = c["order"]
    rec.case(case, nontrivial=len(c.get("hist", [])) >= 2)
    rec.count("order", order)
    rec.count("weights", "rational" if M[2] is not None else "polynomial")
    cx = make_curve(*X)
    sx = curve_state(cx)
    if c.get("twin"):
        # the same cleaning on float data first (anything memoised on numerically equal knot tuples is then float)
        def twin():
            t = float_twin(*X)
            t.clean()
        impl(twin)
        rec.count("twin", "float-first")
    if order == "clean":
        r = impl(lambda: cx.clean())
    elif order == "degree-knot":
        r = impl(lambda: (cx.degree_clean(), cx.knot_clean()))
    else:
        r = impl(lambda: (cx.knot_clean(), cx.degree_clean(), cx.knot_clean()))
    if r[0] != "ok":
        rec.violation("clean raised", case, observed=r[1])
        return
    Y = curve_state(cx)
    v = drv.call("rf.eq", *curve_args(*sx), *curve_args(*Y))
    l3(rec, "rf.eq")
    if v != ("ok", "yes"):
        rec.violation("clean changed the curve as a function", case, oracle=ser(v), cleaned=ser(Y))
        return
    # recorded finding (KNOWN_FINDINGS.txt): the smallest description has weights of both signs and some intermediate description
    # on the way down has a control weight that is exactly zero — not representable, so that removal is refused, the loop moves on
    # and never comes back: clean() stops early although every added knot is exactly removable, and a second clean() removes more
    mixed = M[2] is not None and any(w < 0 for w in M[2]) and any(w > 0 for w in M[2])
    if mixed and len(Y[0]) > len(M[0]):
        c2 = make_curve(*Y)
        impl(lambda: c2.clean())
        if len(curve_state(c2)[0]) < len(Y[0]):
            rec.violation("clean() stopped early (a removal passed through a description with a zero control weight); a second clean() "
                          "removes more: not idempotent, removable knots left", case, cleaned=ser(Y[0]), second=ser(curve_state(c2)[0]),
                          finding_key="clean-blocked-by-zero-control-weight")
            return
    t9 = F(1, 10**9)
    if order == "clean":
        mm = drv.call("curve.clean", *curve_args(*sx), t9)
    else:
        seq = ["curve.degclean", "curve.knotclean"] if order == "degree-knot" else ["curve.knotclean", "curve.degclean", "curve.knotclean"]
        mm = ("ok", [list(sx[0]), None if sx[1] is None else [list(q) for q in sx[1]], None if sx[2] is None else list(sx[2])])
        for op in seq:
            st = model_curve_state(mm[1])
            mm = drv.call(op, *curve_args(*st), t9) if op == "curve.degclean" else drv.call(op, *curve_args(*st), None, t9)
    if not mixed:
        # (the refusal of descriptions with a zero control weight is not part of the model: for minimal forms with weights of both
        # signs the model's clean is not tied to the implementation; function equality and the size bound are still judged)
        l2(rec, "curve.clean", case, Y, mm, mm[0] == "ok" and model_curve_state(mm[1]) == Y)
    if M[2] is None:
        mk = drv.call("rf.minimal", *curve_args(*sx))
        l3(rec, "rf.minimal")
        if mk[0] == "ok" and tuple(mk[1][0]) != Y[0]:
            rec.violation("after clean the curve is not in its minimal representation", case, cleaned=ser(Y[0]), minimal=ser(mk[1][0]))
            return
    if Y != (tuple(M[0]), tuple(M[1]), None if M[2] is None else tuple(M[2])):
        if M[2] is None:
            rec.violation("clean did not return to the minimal representation the history started from", case, cleaned=ser(Y), minimal=ser(M))
        else:
            # rational: same function is what is promised; representation may differ by a common factor of the weights
            w = drv.call("rf.eq", *curve_args(*M), *curve_args(*Y))
            if w != ("ok", "yes"):
                rec.violation("cleaned rational curve differs from the original", case)
            # every knot and every degree the history added is exactly removable: the cleaned description is not larger than
            # the one the history started from
            if len(Y[0]) > len(M[0]) or kv_info(list(Y[0]))[0] > kv_info(list(M[0]))[0]:
                rec.violation("clean left exactly removable knots / degrees of a rational curve in place", case,
                              cleaned=ser(Y[0]), start=ser(M[0]))
    # idempotence: the same call again changes nothing
    r1 = impl(lambda: cx.clean())
    first = curve_state(cx)
    r2 = impl(lambda: cx.clean())
    if r1[0] != "ok" or r2[0] != "ok" or curve_state(cx) != first:
        rec.violation("clean is not idempotent", case, first=ser(first), second=ser(curve_state(cx)))
    if order != "clean":
        ck = make_curve(*Y)
        impl(lambda: (ck.degree_clean(), ck.knot_clean()))
        if curve_state(ck) != Y:
            rec.violation("degree_clean / knot_clean are not idempotent", case, first=ser(Y), second=ser(curve_state(ck)))


def run_special(ctx, case):
    """minimal curves with small-integer / symmetric control points (special positions of the least-squares error form): clean must
    leave a minimal representation exactly as it is; with a tolerance the change is bounded by what the accepted steps allow"""
    rec, drv = ctx["rec"], ctx["drv"]
    c = de(case)
    U, P, W = c["U"], [tuple(p) for p in c["P"]], None
    tol = c["tol"]
    rec.case(case, nontrivial=True)
    cx = make_curve(U, P, W)
    sx = curve_state(cx)
    if tol == "adaptive":
        # a tolerance just below what the cheapest single removal really costs: measure the exact squared L2 change of every forced
        # single-knot removal (tolerance=None) and ask for 45% of the smallest one (the library's error measure is half the squared distance)
        costs = []
        which_ = c["which"]
        if which_ in ("clean", "knot_clean"):
            for x in kv_info(U)[2][1:-1]:
                c2 = make_curve(U, P, W)
                if impl(lambda: c2.knot_remove([x], None))[0] != "ok":
                    continue
                d2 = drv.call("rf.sqdist", *curve_args(*sx), *curve_args(*curve_state(c2)))
                if d2[0] == "ok" and frac(d2[1][0]) > 0:
                    costs.append(frac(d2[1][0]))
        if which_ in ("clean", "degree_clean") and kv_info(U)[0] >= 1:
            c3 = make_curve(U, P, W)
            if impl(lambda: c3.degree_decrease(1, None))[0] == "ok":
                d2 = drv.call("rf.sqdist", *curve_args(*sx), *curve_args(*curve_state(c3)))
                if d2[0] == "ok" and frac(d2[1][0]) > 0:
                    costs.append(frac(d2[1][0]))
        if not costs:
            rec.count("special", "adaptive-skipped")
            return
        tol = min(costs) * F(9, 20)
    rec.count("special", "default-tolerance" if tol is None else ("adaptive-tolerance" if c["tol"] == "adaptive" else "lossy-tolerance"))
    which = c["which"]
    fn = {"clean": lambda: cx.clean() if tol is None else cx.clean(float(tol)),
          "knot_clean": lambda: cx.knot_clean() if tol is None else cx.knot_clean(tolerance=float(tol)),
          "degree_clean": lambda: cx.degree_clean() if tol is None else cx.degree_clean(float(tol))}[which]
    r = impl(fn)
    if r[0] != "ok":
        rec.violation("%s raised" % which, case, observed=r[1])
        return
    Y = curve_state(cx)
    l3(rec, "rf.sqdist")
    if Y == sx:
        return
    removed = (len(sx[0]) - kv_info(list(sx[0]))[0]) - (len(Y[0]) - kv_info(list(Y[0]))[0])
    d = drv.call("rf.sqdist", *curve_args(*sx), *curve_args(*Y))
    if d[0] != "ok":
        return
    dist2 = frac(d[1]) if not isinstance(d[1], (list, tuple)) else frac(d[1][0])
    t = F(1, 10**9) if tol is None else tol
    # each accepted step changes the curve by an L2 distance below sqrt(2*tolerance) (the reported error is at least half the squared
    # distance); k steps remove at least k basis functions, so the total squared distance stays below 2*k^2*tolerance
    k = max(1, abs(removed))
    if dist2 > 2 * k * k * t * (1 + F(1, 10**6)):
        rec.violation("%s changed the curve by more than the tolerance allows" % which, case, sqdist=str(dist2), removed=removed,
                      bound=str(2 * k * k * t), cleaned=ser(Y))


def run(ctx):
    rng = ctx["rng"]
    for i in range(budget(ctx, 60, 800)):
        p = rng.randint(1, 3)
        U = rand_kv(rng, p=p, nintmax=2, maxmult=min(p, 2))
        n = kv_info(U)[1]
        P = [(F(rng.randint(-4, 4)),) for _ in range(n)]
        if rng.random() < 0.4:
            P = P[: (n + 1) // 2] + P[: n // 2][::-1]            # symmetric control polygon
        tol = None if i % 3 == 1 else (F(1, 10 ** rng.choice([3, 4, 6])) if i % 3 == 2 else "adaptive")
        run_special(ctx, ser(dict(kind="special", U=U, P=P, W=None, tol=tol, which=rng.choice(["clean", "knot_clean", "degree_clean"]))))
    # corpus: witness of the recorded finding (weights 1, -1/4, 1 on [-2, 1] refined at -11/10 and -7/5)
    run_case(ctx, ser(dict(kind="clean", U=[F(-2)] * 3 + [F(1)] * 3, P=[(F(11, 4),), (F(-1),), (F(5),)], W=[F(1), F(-1, 4), F(1)],
                           X=dict(U=[F(-2)] * 3 + [F(-7, 5), F(-11, 10)] + [F(1)] * 3,
                                  P=[(F(11, 4),), (F(3),), (F(129, 35),), (F(67, 5),), (F(5),)], W=[F(1), F(3, 4), F(21, 40), F(1, 8), F(1)]),
                           hist=[("insert", [F(-11, 10), F(-7, 5)])], order="clean", twin=False)))
    for i in range(budget(ctx, 8, 80)):
        # rational curves whose smallest description has weights of both signs (weight function without zero, e.g. 1, -1/10, 1)
        # while every refined / elevated description has positive weights only
        cneg = rng.choice([F(1, 10), F(1, 5), F(1, 4), F(1, 3)])
        iv = rand_interval(rng)
        U = [iv[0]] * 3 + [iv[1]] * 3
        P = rand_points(rng, 3, rng.choice([1, 2]))
        W = [F(1), -cneg, F(1)]
        cx = impl(lambda: make_curve(U, P, W))
        if cx[0] != "ok":
            continue
        cx = cx[1]
        # refining such a curve can produce a control weight that is exactly zero (e.g. weights 1, -1/3, 1 and the node 3/4): the
        # library cannot store that description (P_i = (wP)_i / w_i) and raises ZeroDivisionError — outside every stated domain
        # (C04 speaks of positive weights); such draws are skipped
        hh = impl(lambda: inflate(rng, cx, rng.randint(1, 2)))
        if hh[0] != "ok" or not hh[1]:
            ctx["rec"].count("skipped", "mixed-sign refinement not representable")
            continue
        hist = hh[1]
        if any(w == 0 for w in (curve_state(cx)[2] or [])):
            continue
        X = curve_state(cx)
        ctx["rec"].count("family", "mixed-sign-minimal-weights")
        run_case(ctx, ser(dict(kind="clean", U=U, P=P, W=W, X=dict(U=X[0], P=X[1], W=X[2]), hist=hist,
                               order=rng.choice(["clean", "degree-knot", "knot-degree"]), twin=False)))
    ndy = budget(ctx, 8, 80)
    for i in range(ndy + budget(ctx, 45, 600)):
        rat = rng.random() < 0.25
        U, P, W = rand_curve(rng, pmax=2 if rat else 3, nintmax=2, maxmult=None, weights=("pos" if rat else "none"), force_zero=(i % 7 == 0))
        dyadic = i < ndy
        if dyadic:
            # knots exactly representable as floats + float twin first
            U = rand_dyadic_kv(rng, pmax=2, nintmax=1)
            P = rand_points(rng, kv_info(U)[1], rng.choice([1, 2]))
            W = None
        p, n, knots = kv_info(U)
        if any(U.count(k) == p + 1 for k in knots[1:-1]) and p == 0:
            pass
        # confirm M is minimal by the exact oracle (generic points make it so; skip the rare degenerate draw)
        if W is None:
            mk = ctx["drv"].call("rf.minimal", *curve_args(U, P, W))
            if mk[0] != "ok" or list(mk[1][0]) != list(U):
                ctx["rec"].count("skipped", "non-minimal start")
                continue
        cx = make_curve(U, P, W)
        hist = inflate(rng, cx, rng.randint(1, 4), grid=(DYADIC if dyadic else GRID))
        X = curve_state(cx)
        order = rng.choice(["clean", "clean", "degree-knot", "knot-degree"]) if not dyadic else "clean"
        run_case(ctx, ser(dict(kind="clean", U=U, P=P, W=W, X=dict(U=X[0], P=X[1], W=X[2]), hist=hist, order=order, twin=dyadic)))
