"""C05 — knot removal is exact when possible, refused otherwise, never silently lossy."""
from common import *  # noqa: F401,F403

RULE = ("random curves (polynomial/rational, scalar/vector, degree 0..3): (a) insert nodes then remove them (round trip, default tolerance), "
        "(b) removal of a knot of a generic curve (not removable): refused, or accepted within the tolerance bound, (c) explicit large "
        "tolerances, (d) tolerance=None (forced removal: interpolates at every remaining knot), (e) absent knots / end knots.  "
        "Non-trivial: degree >= 1; distinct = distinct (U,P,W,nodes,tolerance,mode)."
        " Also: tolerances just below / above the measured cost of the removal (adaptive), dyadic knots with a float twin first, a rational curve whose refit needs a zero weight; nodes as list / tuple / generator / iterator / map / ndarray; control points far from the origin with an almost removable knot.")
EXPLANATION = ("L2: resulting state or refusal vs the model's least-squares removal (exact); L3: exactness via `rf.eq`, deviation via the exact "
               "integral of the squared difference of the span polynomials (`rf.sqdist`), interpolation by exact evaluation, atomicity by snapshot.")
ASSUMPTIONS = ["weights positive", "deviation bound checked for polynomial curves (the rational integral is not a rational number)"]


def run_case(ctx, case):
    rec, drv = ctx["rec"], ctx["drv"]
    c = de(case)
    U, P, W = c["U"], [tuple(p) for p in c["P"]], c["W"]
    mode, nodes, tol = c["mode"], c["nodes"], c.get("tol", "default")
    p, n, knots = kv_info(U)
    rec.case(case, nontrivial=p >= 1)
    rec.count("mode", mode)
    rec.count("weights", "rational" if W is not None else "polynomial")
    form = form_of(case)
    rec.count("nodes-as", form)
    curve = make_curve(U, P, W)
    if c.get("twin"):
        # the same request on float data first: whatever the library memoises on (numerically equal) knot tuples is now float
        def twin():
            t = float_twin(U, P, W)
            if mode == "roundtrip":
                t.knot_insert([float(x) for x in nodes])
            t.knot_remove([float(x) for x in nodes])
        impl(twin)
        for tw in mixed_twins(U, P, W):
            def twin2(tw=tw):
                if mode == "roundtrip":
                    tw.knot_insert(list(nodes))
                tw.knot_remove(list(nodes))
            impl(twin2)
        rec.count("twin", "float-first")
    if mode == "roundtrip":
        orig = curve_state(curve)
        r = impl(lambda: curve.knot_insert(list(nodes)))
        if r[0] != "ok":
            rec.note = None
            return
    start = curve_state(curve)
    if tol == "default":
        r = impl(lambda: curve.knot_remove(as_form(nodes, form)))
        mtol = F(1, 10**9)
    elif tol is None:
        r = impl(lambda: curve.knot_remove(as_form(nodes, form), None))
        mtol = None
    else:
        r = impl(lambda: curve.knot_remove(as_form(nodes, form), tol))
        mtol = tol
    after = curve_state(curve)
    m = drv.call("curve.remove", *curve_args(*start), nodes, mtol)
    same = (errkind(r) == errkind(m)) and (r[0] != "ok" or model_curve_state(m[1]) == after)
    l2(rec, "curve.remove", case, (errkind(r), after), m, same)
    rec.count("outcome", errkind(r))
    if r[0] != "ok":
        if after != start:
            rec.violation("refused removal modified the curve", case, before=ser(start), after=ser(after))
        if errkind(r) != "ValueError":
            rec.violation("removal failed with %s instead of ValueError" % r[1], case)
        if mode == "roundtrip":
            rec.violation("exactly removable knots were refused (insert then remove)", case, observed=r[1])
        if mode == "forced":
            key = "forced-rational-refit-denominator-changes-sign" if (W is not None and errkind(r) == "ValueError" and errkind(m) == "ValueError") else None
            rec.violation("tolerance=None did not succeed", case, observed=r[1], finding_key=key)
        return
    if mode in ("absent", "endknot"):
        rec.violation("removal of an absent / end knot succeeded", case, after=ser(after))
        return
    want_U = list(start[0])
    for x in nodes:
        want_U.remove(x)
    if after[0] != tuple(want_U):
        rec.violation("knot vector is not the old one minus the nodes", case, observed=ser(after[0]))
        return
    if W is None and mode in ("roundtrip", "generic", "tolerant", "forced"):
        newU = list(after[0])
        fitn = sorted(set(newU)) if kv_info(newU)[0] != 0 else None
        g = unit_matrix(rec, drv, case, "lsq.s2s", lambda: heavy.LeastSquare.spline2spline(tuple(start[0]), tuple(newU), None if fitn is None else tuple(fitn)),
                        "lsq.s2s", list(start[0]), newU, fitn, multi=True)
        unit_matrix(rec, drv, case, "ops.remove", lambda: heavy.Operations.knot_remove(tuple(start[0]), tuple(nodes)),
                    "ops.remove", list(start[0]), list(nodes))
    if mode == "roundtrip":
        l3(rec, "rf.eq")
        v = drv.call("rf.eq", *curve_args(*orig), *curve_args(*after))
        if v != ("ok", "yes"):
            rec.violation("insert-then-remove changed the curve", case, oracle=ser(v), after=ser(after))
        elif after != orig:
            rec.violation("insert-then-remove did not restore the representation", case, after=ser(after), expected=ser(orig))
        return
    if W is not None and mtol is not None:
        # rational curves: the integral of the squared deviation is not a rational number; a midpoint-rule value (exact
        # rational evaluations, 16 samples per span) that exceeds the allowed bound a thousandfold is conclusive
        e = drv.call("rf.eq", *curve_args(*start), *curve_args(*after))
        l3(rec, "rf.eq")
        if e != ("ok", "yes"):
            ks = sorted(set(start[0]) | set(after[0]))
            us, hs = [], []
            for a_, b_ in zip(ks[:-1], ks[1:]):
                for j in range(16):
                    us.append(a_ + (b_ - a_) * F(2 * j + 1, 32))
                    hs.append((b_ - a_) / 16)
            v0 = drv.call("curve.eval", *curve_args(*start), us)
            v1 = drv.call("curve.eval", *curve_args(*after), us)
            if v0[0] == "ok" and v1[0] == "ok":
                dim = len(v0[1][0])
                approx = [sum(h * (p0[d_] - p1[d_]) ** 2 for h, p0, p1 in zip(hs, v0[1], v1[1])) for d_ in range(dim)]
                bound = 2 * mtol * max(1, U[-1] - U[0])
                if any(x > 1000 * bound for x in approx):
                    rec.violation("accepted removal of a rational curve deviates far more than the tolerance allows", case,
                                  sqdist_midpoint_rule=ser(approx), bound=str(bound), oracle=ser(e), after=ser(after))
                    return
    if W is None:
        d = drv.call("rf.sqdist", *curve_args(*start), *curve_args(*after))
        l3(rec, "rf.sqdist")
        if d[0] != "ok":
            rec.violation("could not measure the deviation", case, oracle=ser(d))
            return
        if mtol is not None:
            bound = 2 * mtol * max(1, U[-1] - U[0])
            if any(x > bound for x in d[1]):
                rec.violation("accepted removal deviates more than the tolerance allows", case, sqdist=ser(d[1]), bound=str(bound))
    if mode == "forced" and kv_info(list(after[0]))[0] >= 1:
        # passes through the old curve at every remaining knot, both ends included
        old = make_curve(*start)
        new = make_curve(*after)
        for z in sorted(set(after[0])):
            a, b = pt_canon(old(z)), pt_canon(new(z))
            if a != b:
                rec.violation("forced removal does not interpolate the old curve at a remaining knot", case, knot=str(z), old=ser(a), new=ser(b))
                break


def run(ctx):
    rng = ctx["rng"]
    # corpus: the witness of the recorded finding (KNOWN_FINDINGS.txt) runs first, every time
    q = [F(1, 4), F(1, 2), F(3, 4)]
    run_case(ctx, ser(dict(kind="remove", U=[F(0)] * 3 + q + [F(1)] * 3, P=[(F(x),) for x in (1, 2, 0, 3, 1, 2)],
                           W=[F(1), F(1, 100), F(1, 100), F(1, 100), F(1, 100), F(1)], mode="forced", nodes=q, tol=None)))
    # corpus: refitted weight exactly zero -> ZeroDivisionError instead of ValueError (repaired)
    run_case(ctx, ser(dict(kind="remove", U=[F(-2)] * 3 + [F(-1, 2)] + [F(1)] * 3, P=[(F(4),), (F(9, 2),), (F(8),), (F(7),)],
                           W=[F(2), F(1), F(1, 2), F(1)], mode="generic", nodes=[F(-1, 2)], tol="default")))
    # corpus: D5 witness (rational insert/remove)
    run_case(ctx, ser(dict(kind="remove", U=[F(0), F(1)], P=[(F(7),)], W=[F(4)], mode="roundtrip", nodes=[F(1, 2)])))
    import props.c04 as c04
    for i in range(budget(ctx, 16, 200)):
        # dyadic knots, float twin first: exact removals must stay exact whatever ran before
        U = rand_dyadic_kv(rng, pmax=3, nintmax=2)
        p, n, knots = kv_info(U)
        P = rand_points(rng, n, rng.choice([1, 2]))
        W = rand_weights(rng, n, "pos") if (i % 4 == 1 and p <= 2) else None
        free = [x for x in DYADIC if U.count(x) < p + 1]
        nodes = sorted(rng.sample(free, rng.randint(1, 2)))
        tol = "default" if i % 3 else F(1, 10**30)
        run_case(ctx, ser(dict(kind="remove", U=U, P=P, W=W, mode="roundtrip", nodes=nodes, twin=True, tol=tol)))
    for i in range(budget(ctx, 24, 300)):
        # a tolerance just below / just above what the removal really costs (measured on the model's forced removal):
        # below must be refused, and whatever is accepted must respect the deviation bound
        U, P, W = rand_curve(rng, pmax=3, nintmax=3, weights="none")
        p, n, knots = kv_info(U)
        if len(knots) <= 2:
            continue
        x = rng.choice(knots[1:-1])
        nodes = [x] * rng.randint(1, min(2, U.count(x)))
        mf = ctx["drv"].call("curve.remove", *curve_args(U, P, None), nodes, None)
        if mf[0] != "ok":
            continue
        dd = ctx["drv"].call("rf.sqdist", *curve_args(U, P, None), *curve_args(*model_curve_state(mf[1])))
        if dd[0] != "ok" or max(dd[1]) == 0:
            continue
        f_ = F(rng.choice([1, 2, 5, 8, 12, 16, 19, 21, 30]), 20)
        tol_ = f_ * max(dd[1]) / (2 * max(1, U[-1] - U[0]))
        ctx["rec"].count("adaptive-tolerance", "below" if f_ < 1 else "above")
        run_case(ctx, ser(dict(kind="remove", U=U, P=P, W=None, mode="tolerant", nodes=nodes, tol=tol_)))
    for i in range(budget(ctx, 10, 120)):
        # control points far from the origin (1e3 .. 1e6), a knot that is almost removable: one control point of a refined curve moved by
        # 1/100 .. 1 — the (absolute) default tolerance must refuse the removal
        U0, P0, _ = rand_curve(rng, pmax=3, nintmax=1, weights="none")
        if kv_info(U0)[0] == 0:
            continue
        off = F(10 ** rng.randint(3, 6))
        P0 = [tuple(x * rng.choice([1, 100]) + off for x in q) for q in P0]
        kx = U0[0] + (U0[-1] - U0[0]) * rng.choice(GRID)
        if kx in U0:
            continue
        m = ctx["drv"].call("curve.insert", *curve_args(U0, P0, None), [kx])
        if m[0] != "ok":
            continue
        U1, P1, _ = model_curve_state(m[1])
        P1 = [list(q) for q in P1]
        j = max(1, min(len(P1) - 2, list(U1).index(kx) - 1))
        P1[j][0] += F(1, rng.choice([1, 10, 100]))
        run_case(ctx, ser(dict(kind="remove", U=list(U1), P=[tuple(q) for q in P1], W=None, mode="generic", nodes=[kx], tol="default")))
    for i in range(budget(ctx, 110, 1500)):
        mode = rng.choice(["roundtrip"] * 4 + ["generic", "generic", "tolerant", "forced", "absent", "endknot"])
        U, P, W = rand_curve(rng, pmax=3, nintmax=2, force_zero=(i % 7 == 0))
        p, n, knots = kv_info(U)
        if i % 9 == 3:
            # rational curve whose numerator is exactly removable at a knot while its weight function is not: must be refused
            p_ = rng.randint(1, 3)
            iv = rand_interval(rng)
            kx = iv[0] + (iv[1] - iv[0]) * rng.choice(GRID)
            U0 = [iv[0]] * (p_ + 1) + [iv[1]] * (p_ + 1)
            num = make_curve(U0, rand_points(rng, p_ + 1, rng.choice([1, 2]), ints=True), None)
            num.knot_insert([kx])
            U1 = [frac(x) for x in num.knotvector]
            Wd = [F(rng.randint(1, 9), rng.randint(1, 3)) for _ in range(len(U1) - p_ - 1)]
            Pd = [tuple(x / w for x in q) for q, w in zip(pts_canon(num.ctrlpoints), Wd)]
            run_case(ctx, ser(dict(kind="remove", U=U1, P=Pd, W=Wd, mode="generic", nodes=[kx], tol=rng.choice(["default", F(1, 1000)]))))
            continue
        if i % 9 == 5:
            # a break (interior knot of multiplicity degree+1) at which the two pieces meet in one control point: the point set is
            # continuous there, the homogeneous curve only if the two weights agree as well.  Polynomial / equal weights: one copy is
            # exactly removable; different weights: it is not (the weight function jumps)
            p_ = rng.randint(1, 3)
            iv = rand_interval(rng)
            kx = iv[0] + (iv[1] - iv[0]) * rng.choice(GRID)
            extra = [iv[0] + (kx - iv[0]) * F(1, 2)] if rng.random() < 0.3 else []
            Ub = [iv[0]] * (p_ + 1) + extra + [kx] * (p_ + 1) + [iv[1]] * (p_ + 1)
            nb_ = len(Ub) - p_ - 1
            jb = p_ + len(extra)                       # last control point of the left piece
            Pb = rand_points(rng, nb_, rng.choice([1, 2]))
            Pb[jb + 1] = Pb[jb]
            kindw = rng.choice(["none", "equal", "different", "different"])
            Wb = None if kindw == "none" else [F(rng.randint(1, 9), rng.randint(1, 3)) for _ in range(nb_)]
            if kindw == "equal":
                Wb[jb + 1] = Wb[jb]
            if kindw == "different" and Wb[jb + 1] == Wb[jb]:
                Wb[jb + 1] = Wb[jb] + F(1, 2)
            ctx["rec"].count("family", "break-with-coincident-points/" + kindw)
            run_case(ctx, ser(dict(kind="remove", U=Ub, P=Pb, W=Wb, mode="generic", nodes=[kx], tol=rng.choice(["default", "default", F(1, 1000)]))))
            continue
        if mode == "roundtrip":
            nodes = c04.gen_nodes(rng, U, valid=True)
            if not nodes:
                continue
            run_case(ctx, ser(dict(kind="remove", U=U, P=P, W=W, mode=mode, nodes=nodes)))
            continue
        if mode in ("generic", "tolerant", "forced"):
            if len(knots) <= 2:
                continue
            x = rng.choice(knots[1:-1])
            nodes = [x] * rng.randint(1, min(2, U.count(x)))
            if mode in ("tolerant", "forced") and W is not None and rng.random() < 0.5:
                W = None
            tol = "default" if mode == "generic" else (None if mode == "forced" else F(rng.choice([1, 10, 1000, 10**6]), 10))
            run_case(ctx, ser(dict(kind="remove", U=U, P=P, W=W, mode=mode, nodes=nodes, tol=tol)))
        elif mode == "absent":
            a, b = U[0], U[-1]
            run_case(ctx, ser(dict(kind="remove", U=U, P=P, W=W, mode=mode, nodes=[a + (b - a) * F(rng.randint(1, 996), 997)])))
        else:
            run_case(ctx, ser(dict(kind="remove", U=U, P=P, W=W, mode=mode, nodes=[rng.choice([U[0], U[-1]])])))
