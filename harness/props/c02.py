"""C02 — basis functions obey the Cox-de Boor definition for every index and sub-degree."""
from common import *  # noqa: F401,F403
import units

RULE = ("random valid knot vectors (degree 0..4, mixed multiplicities, several intervals, big denominators), optional positive "
        "weights; every sub-degree j in 0..p, every parameter in {knots, ends, midpoints, random}; every index form "
        "(int, negative int, slice, [:, j], call), invalid indices.  Non-trivial: degree >= 2 or an interior knot; distinct = "
        "distinct (U, W, j, parameters)."
        " Also: parameters k +- 1e-20 around every knot and the float next to every rational interior knot; every slice form (negative steps, open and explicit stops, empty) against python's own slicing; evaluation after in-place mutation of the shared KnotVector; degrees 5..10 (Bezier and one interior knot); integer / dyadic knot vectors with the int / float basis evaluated first.")
EXPLANATION = ("L2: Function(U)[:, j](u) vs the model's table+Horner row; L3: vs the Cox-de Boor recursion `cdb` run by the driver, "
               "plus non-negativity, support and partition of unity checked on the implementation's own values.")
ASSUMPTIONS = ["weights positive"]


def run_case(ctx, case):
    rec, drv = ctx["rec"], ctx["drv"]
    c = de(case)
    if c.get("kind") == "stateful":
        return run_stateful(ctx, case)
    U, W, us = c["U"], c["W"], c["us"]
    p, n, knots = kv_info(U)
    rec.case(case, nontrivial=nontrivial_kv(U))
    rec.count("degree", str(p))
    rec.count("weights", "rational" if W is not None else "spline")
    ks_ = sorted(set(U))
    if not any(y - x < F(1, 10**6) for x, y in zip(ks_[:-1], ks_[1:])):
        units.tie_speval(rec, drv, case, U)
    # the basis over numerically equal python-int / float knots evaluated first (tables memoised on knot tuples would be theirs)
    if all(frac(x).denominator == 1 for x in U):
        impl(lambda: Function([int(x) for x in U])((int(U[0]) + int(U[-1])) / 2))
        rec.count("twin", "int-knots-first")
    if all(F(float(x)) == frac(x) for x in U):
        impl(lambda: Function([float(x) for x in U])((float(U[0]) + float(U[-1])) / 2))
        rec.count("twin", "float-knots-first")
    r = impl(lambda: Function(list(U)))
    if r[0] != "ok":
        rec.violation("Function rejected a valid knot vector", case, observed=r[1])
        return
    f = r[1]
    if W is not None:
        f.weights = list(W)
    rows = {}
    for j in range(p + 1):
        ev = impl(lambda: f[:, j])
        if ev[0] != "ok":
            rec.violation("f[:, j] raised", case, j=j, observed=ev[1])
            continue
        for u in us:
            r = impl(lambda: ev[1](u))
            spec = drv.call("cdb.row", U, W, j, u)
            mod = drv.call("basis.eval", U, W, j, u)
            l3(rec, "cdb")
            if r[0] != "ok":
                rec.violation("basis evaluation raised inside the interval", case, j=j, u=str(u), observed=r[1])
                continue
            vals = tuple(frac(x) for x in r[1])
            want = tuple(spec[1])
            rows[(j, u)] = want
            l2(rec, "basis.eval", case, vals, mod[1], mod[0] == "ok" and vals == tuple(mod[1]))
            if vals != want:
                rec.violation("F[i,j](u) differs from Cox-de Boor", case, j=j, u=str(u), observed=ser(vals), expected=ser(want))
                continue
            if any(v < 0 for v in vals):
                rec.violation("negative basis value", case, j=j, u=str(u))
            for i, v in enumerate(vals):
                if v != 0 and not (U[i] <= u <= U[i + j + 1]):
                    rec.violation("non-zero outside [u_i, u_(i+j+1)]", case, j=j, i=i, u=str(u))
            if j == p and sum(vals) != 1:
                rec.violation("top-degree functions do not sum to one", case, u=str(u), observed=str(sum(vals)))
    # a single function selected by an integer index — f[i], f[i - n], f[i, j] — is the entry i of that same row, at every parameter
    # (every knot included) and for every index
    l3(rec, "single-index-forms")
    jx = ctx["rng"].randrange(p + 1)
    for i in range(n):
        forms = [("f[i]", lambda: f[i], p), ("f[i-n]", lambda: f[i - n], p), ("f[i,j]", lambda: f[i, jx], jx), ("f[i-n,p]", lambda: f[i - n, p], p)]
        for name, sel, j_ in forms:
            ev = impl(sel)
            if ev[0] != "ok":
                rec.violation("%s raised" % name, case, i=i, j=j_, observed=ev[1])
                break
            bad = False
            for u in us:
                if (j_, u) not in rows:
                    continue
                r = impl(lambda: ev[1](u))
                if r[0] != "ok" or frac(r[1]) != rows[(j_, u)][i]:
                    rec.violation("%s(u) is not the entry i of the Cox-de Boor row" % name, case, i=i, j=j_, u=str(u),
                                  observed=str(r[1])[:80], expected=str(rows[(j_, u)][i]))
                    bad = True
                    break
            if bad:
                return
    # float parameters on exact knots: the float nearest to a rational knot lies on one definite side of it
    for k in knots[1:-1]:
        uf = float(k)
        ue = frac(uf)
        if ue == k:
            continue
        for j in range(p + 1):
            r = impl(lambda: f[:, j](uf))
            spec = drv.call("cdb.row", U, W, j, ue)
            l3(rec, "cdb-float-parameter")
            if r[0] != "ok":
                rec.violation("basis evaluation raised at a float parameter inside the interval", case, j=j, u=repr(uf), observed=r[1])
                continue
            vals = tuple(frac(x) for x in r[1])
            if any(abs(a - b) > F(1, 10**9) for a, b in zip(vals, spec[1])):
                rec.violation("F[i,j](u) at the float next to a knot differs from Cox-de Boor", case, j=j, u=repr(uf),
                              observed=ser(vals), expected=ser(tuple(spec[1])))
    # index semantics at one parameter
    u = us[len(us) // 2]
    full = impl(lambda: f[:, p](u))
    if full[0] == "ok":
        full = tuple(frac(x) for x in full[1])
        checks = [
            ("f(u)", lambda: tuple(frac(x) for x in f(u)), full),
            ("f[:](u)", lambda: tuple(frac(x) for x in f[:](u)), full),
            ("f[0](u)", lambda: frac(f[0](u)), full[0]),
            ("f[-1](u)", lambda: frac(f[-1](u)), full[-1]),
            ("f[-1,p](u)", lambda: frac(f[-1, p](u)), full[-1]),
            ("f[n-1](u)", lambda: frac(f[n - 1](u)), full[n - 1]),
            ("f[0:2](u)", lambda: tuple(frac(x) for x in f[0:2](u)), full[0:2]),
            ("f[::2](u)", lambda: tuple(frac(x) for x in f[::2](u)), full[::2]),
        ]
        # every slice form selects the rows python's own slicing selects (negative steps, open and explicit stops, empty)
        for sl in (slice(None, None, -1), slice(n - 1, None, -1), slice(-2, None, -3), slice(1, -1, 2), slice(-3, None),
                   slice(None, 0, -1), slice(n - 1, 0, -2), slice(2, 2), slice(None, None, 3)):
            checks.append(("f[%s:%s:%s](u)" % (sl.start, sl.stop, sl.step),
                           (lambda sl=sl: tuple(frac(x) for x in f[sl](u))), full[sl]))
            checks.append(("f[%s:%s:%s,p](u)" % (sl.start, sl.stop, sl.step),
                           (lambda sl=sl: tuple(frac(x) for x in f[sl, p](u))), full[sl]))
        for name, fn, want in checks:
            r = impl(fn)
            rec.count("index", name)
            if r[0] != "ok" or r[1] != want:
                rec.violation("index form %s does not select rows of the same table" % name, case, u=str(u), observed=str(r), expected=ser(want))
        # sequences of parameters: one row per function, one column per node
        us = list(us)
        ctx["rng"].shuffle(us)          # the nodes of a sequence call come in no particular order
        r = impl(lambda: f[:, p](list(us)))
        if r[0] == "ok":
            got = tuple(tuple(frac(x) for x in row) for row in r[1])
            cols = [tuple(drv.call("cdb.row", U, W, p, x)[1]) for x in us]
            want = tuple(tuple(col[i] for col in cols) for i in range(n))
            if got != want:
                rec.violation("sequence call differs from pointwise values", case)
        else:
            rec.violation("sequence call raised", case, observed=r[1])
        for name, fn in [("f[n]", lambda: f[n]), ("f[-n-1]", lambda: f[-n - 1]), ("f[0,p+1]", lambda: f[0, p + 1]),
                         ("f[0,-1]", lambda: f[0, -1]), ("f[0,0,0]", lambda: f[0, 0, 0]), ("f['a']", lambda: f["a"])]:
            r = impl(fn)
            rec.count("badindex", name)
            if r[0] == "ok":
                rec.violation("invalid index %s accepted" % name, case)
    for uo in (U[0] - F(1, 3), U[-1] + F(1, 1000)):
        r = impl(lambda: f[:, p](uo))
        if errkind(r) != "ValueError":
            rec.violation("basis evaluation outside the interval did not raise ValueError", case, u=str(uo), observed=str(r))


def run_stateful(ctx, case):
    """a Function object must follow in-place changes of its KnotVector (no stale tables)"""
    rec, drv = ctx["rec"], ctx["drv"]
    c = de(case)
    U, steps = c["U"], c["steps"]
    rec.case(case, nontrivial=True)
    rec.count("stateful", "sequence")
    kv = KnotVector(list(U))
    f = Function(kv)
    cur = list(U)
    for step in [None] + steps:
        if step is not None:
            kind, arg = step
            r = impl(lambda: {"insert": lambda: f.knotvector.insert(list(arg)), "remove": lambda: f.knotvector.remove(list(arg)),
                              "kvinsert": lambda: kv.insert(list(arg)), "setdeg": lambda: setattr(f.knotvector, "degree", int(arg[0])),
                              "iadd": lambda: f.knotvector.__iadd__(list(arg))}[kind]())
            if r[0] != "ok":
                continue
            cur = [frac(x) for x in f.knotvector]
        p, n, _ = kv_info(cur)
        for j in sorted(set([p, max(0, p - 1)])):
            for u in params_for(ctx["rng"], cur, extra=1):
                r = impl(lambda: f[:, j](u))
                spec = drv.call("cdb.row", cur, None, j, u)
                l3(rec, "cdb-after-mutation")
                if r[0] != "ok":
                    rec.violation("basis evaluation raised after an in-place change of the knot vector", case, step=ser(step), j=j, u=str(u), observed=r[1])
                    return
                if tuple(frac(x) for x in r[1]) != tuple(spec[1]):
                    rec.violation("basis values are not those of the current knot vector (stale table)", case, step=ser(step), j=j, u=str(u),
                                  observed=ser([frac(x) for x in r[1]]), expected=ser(spec[1]))
                    return


def run(ctx):
    rng = ctx["rng"]
    for i in range(budget(ctx, 25, 250)):
        U = rand_kv(rng, pmax=3, nintmax=2, maxmult=2)
        p, n, knots = kv_info(U)
        a, b = U[0], U[-1]
        steps = []
        for _ in range(rng.randint(1, 3)):
            k = rng.choice(["insert", "insert", "kvinsert", "remove", "setdeg", "iadd"])
            if k == "remove":
                if len(knots) > 2:
                    steps.append(("remove", [rng.choice(knots[1:-1])]))
            elif k == "setdeg":
                steps.append(("setdeg", [F(p + 1)]))
            else:
                steps.append((k, [a + (b - a) * rng.choice(GRID)]))
        run_stateful(ctx, ser(dict(kind="stateful", U=U, steps=steps)))
    for i in range(budget(ctx, 6, 40)):
        # high degrees (5..10): Bezier and one interior knot (binomials beyond the small cases)
        p_ = 5 + i % 6
        a_ = F(rng.randint(-2, 1))
        b_ = a_ + rng.choice([1, 2, 3])
        mid_ = [] if i % 2 == 0 else [a_ + (b_ - a_) * rng.choice(GRID)] * rng.randint(1, 2)
        U = [a_] * (p_ + 1) + mid_ + [b_] * (p_ + 1)
        n_ = kv_info(U)[1]
        W = rand_weights(rng, n_, rng.choice(["none", "none", "pos"]))
        run_case(ctx, ser(dict(kind="basis", U=U, W=W, us=[a_, b_, (a_ + b_) / 2, a_ + (b_ - a_) * F(1, 7), a_ + (b_ - a_) * F(5, 6)])))
    for i in range(budget(ctx, 120, 1500)):
        big = rng.random() < 0.15
        U = rand_kv(rng, bigknots=big, force_zero=(i % 8 == 0))
        if i % 7 == 3:
            U = rand_int_kv(rng, pmax=3, nintmax=2) if rng.random() < 0.5 else rand_dyadic_kv(rng, pmax=3, nintmax=2)
        p, n, _ = kv_info(U)
        W = rand_weights(rng, n, rng.choice(["none", "none", "pos", "const"]))
        run_case(ctx, ser(dict(kind="basis", U=U, W=W, us=params_for(rng, U, extra=2) + hair_params(U))))
