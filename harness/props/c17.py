"""C17 — KnotVector union / intersection give the common refinement / common coarsening."""
from common import *  # noqa: F401,F403

RULE = ("random pairs of valid knot vectors on the same interval: equal and different degrees (0..4), shared and distinct interior knots with "
        "different multiplicities, identical vectors, Bezier vectors; pairs on different intervals.  Non-trivial: some interior knot; "
        "distinct = distinct (U, V)."
        " Also: pairs with equal degree, equal breakpoints and equal length whose multiplicities are distributed differently;"
        " pairs whose operands use different number types (Fraction / float / int, every value exactly representable in both).")
EXPLANATION = ("L2: U|V and U&V vs the model; L3: degree, per-knot multiplicity formulas, commutativity, idempotence, refinement, untouched "
               "operands evaluated on the real results; representability: a random spline over U (and over V) transformed to U|V by "
               "heavy.Operations.matrix_transformation is the same function (`rf.eq`); minimality: lowering any knot of U|V loses U or V.")
ASSUMPTIONS = ["distinct knot values differ by at least 1e-6"]


def mults(U):
    return {x: U.count(x) for x in set(U)}


def run_case(ctx, case):
    rec, drv = ctx["rec"], ctx["drv"]
    c = de(case)
    if c.get("kind") == "mixed":
        return run_mixed(ctx, case)
    U, V = c["U"], c["V"]
    p, q = kv_info(U)[0], kv_info(V)[0]
    rec.case(case, nontrivial=len(set(U)) > 2 or len(set(V)) > 2)
    rec.count("degrees", "equal" if p == q else "different")
    ku, kv = KnotVector(list(U)), KnotVector(list(V))
    same_interval = (U[0], U[-1]) == (V[0], V[-1])
    r = impl(lambda: ku | kv)
    r2 = impl(lambda: kv | ku)
    m = drv.call("kv.union", U, V)
    if tuple(frac(x) for x in ku) != tuple(U) or tuple(frac(x) for x in kv) != tuple(V):
        rec.violation("| modified an operand", case)
    # `&` (whatever it answers for these operands: a vector, or an exception) and the in-place forms never modify an operand
    for name, fn in (("U & V", lambda: ku & kv), ("V & U", lambda: kv & ku),
                     ("copy(U) &= V", lambda: KnotVector(list(U)).__iand__(kv)), ("copy(V) &= U", lambda: KnotVector(list(V)).__iand__(ku)),
                     ("copy(U) |= V", lambda: KnotVector(list(U)).__ior__(kv)), ("copy(V) |= U", lambda: KnotVector(list(V)).__ior__(ku))):
        impl(fn)
        l3(rec, "operands-untouched")
        if tuple(frac(x) for x in ku) != tuple(U) or tuple(frac(x) for x in kv) != tuple(V) or ku.degree != p or kv.degree != q:
            rec.violation("%s modified an operand" % name, case, U_now=ser([frac(x) for x in ku]), V_now=ser([frac(x) for x in kv]))
            return
    if not same_interval:
        l2(rec, "kv.union.reject", case, errkind(r), errkind(m), errkind(r) == errkind(m))
        ri = impl(lambda: ku & kv)
        if errkind(r) != "ValueError" or errkind(ri) != "ValueError":
            rec.violation("different intervals did not raise ValueError", case, observed=str((r, ri))[:200])
        return
    if r[0] != "ok" or r2[0] != "ok":
        rec.violation("union raised", case, observed=str(r)[:100])
        return
    X = [frac(x) for x in r[1]]
    l2(rec, "kv.union", case, X, m, m[0] == "ok" and list(m[1][0]) == X)
    rr = max(p, q)
    l3(rec, "union-spec")
    if r[1].degree != rr:
        rec.violation("union degree is not max(p, q)", case, observed=r[1].degree)
    want = {}
    for x in set(U) | set(V):
        mu = U.count(x) + rr - p if x in U else 0
        mv = V.count(x) + rr - q if x in V else 0
        want[x] = max(mu, mv)
    if mults(X) != want:
        rec.violation("union multiplicities are not max(m_U + r - p, m_V + r - q)", case, observed=ser(X), expected=ser(sorted(want.items())))
        return
    if [frac(x) for x in r2[1]] != X:
        rec.violation("union is not commutative", case)
    idem = impl(lambda: ku | ku)
    if idem[0] != "ok" or [frac(x) for x in idem[1]] != list(U):
        rec.violation("union is not idempotent", case)
    # representability of splines over U and over V on U|V
    for W_, d in ((U, p), (V, q)):
        n = kv_info(W_)[1]
        P = rand_points(ctx["rng"], n, 1, ints=True)
        T = impl(lambda: heavy.Operations.matrix_transformation(tuple(W_), tuple(X)))
        unit_matrix(rec, drv, case, "ops.trans", lambda: heavy.Operations.matrix_transformation(tuple(W_), tuple(X)),
                    "ops.trans", list(W_), list(X))
        if T[0] != "ok":
            rec.violation("a spline over an operand is not representable on the union (transformation raised)", case, observed=T[1])
            continue
        Q = [(sum(frac(T[1][i][j]) * P[j][0] for j in range(n)),) for i in range(len(T[1]))]
        v = drv.call("rf.eq", list(W_), [list(x) for x in P], None, X, [list(x) for x in Q], None)
        l3(rec, "rf.eq")
        if v != ("ok", "yes"):
            rec.violation("a spline over an operand changes when moved to the union vector", case, oracle=ser(v))
    if p == q:
        ri = impl(lambda: ku & kv)
        ri2 = impl(lambda: kv & ku)
        mi = drv.call("kv.inter", U, V)
        if ri[0] != "ok":
            l2(rec, "kv.inter", case, errkind(ri), mi, errkind(ri) == errkind(mi))
            rec.violation("intersection raised", case, observed=ri[1])
            return
        Y = [frac(x) for x in ri[1]]
        l2(rec, "kv.inter", case, Y, mi, mi[0] == "ok" and list(mi[1][0]) == Y)
        wanti = {x: min(U.count(x), V.count(x)) for x in set(U) & set(V)}
        if mults(Y) != wanti:
            rec.violation("intersection is not the per-knot minimum multiplicity", case, observed=ser(Y))
        if ri2[0] != "ok" or [frac(x) for x in ri2[1]] != Y:
            rec.violation("intersection is not commutative", case)
        idem = impl(lambda: ku & ku)
        if idem[0] != "ok" or [frac(x) for x in idem[1]] != list(U):
            rec.violation("intersection is not idempotent", case)


def typed(U, rep):
    """the knot list in one number representation: Fractions, python floats, python ints (integral values only)"""
    if rep == "float":
        return [float(x) for x in U]
    if rep == "int" and all(frac(x).denominator == 1 for x in U):
        return [int(x) for x in U]
    return [F(x) for x in U]


def snap(k):
    """values *and* number types of a KnotVector: converting an operand to another representation is a modification too"""
    return (tuple(frac(x) for x in k), tuple(type(x).__name__ for x in k), k.degree)


def run_mixed(ctx, case):
    """operands of different number types (all values exactly representable in both): same answers as for Fractions, and neither
    operand — the right-hand KnotVector object in particular — changes its values or the type of its knots"""
    rec, drv = ctx["rec"], ctx["drv"]
    c = de(case)
    U, V = c["U"], c["V"]
    rec.case(case, nontrivial=len(set(U)) > 2 or len(set(V)) > 2)
    rec.count("mixed", c["repU"] + "|" + c["repV"])
    ku, kv = KnotVector(typed(U, c["repU"])), KnotVector(typed(V, c["repV"]))
    su, sv = snap(ku), snap(kv)
    p, q = ku.degree, kv.degree
    ops = [("U | V", lambda: ku | kv, "kv.union", (U, V)), ("V | U", lambda: kv | ku, "kv.union", (V, U)),
           ("copy(U) |= V", lambda: KnotVector(typed(U, c["repU"])).__ior__(kv), "kv.union", (U, V)),
           ("U | list(V)", lambda: ku | typed(V, c["repV"]), "kv.union", (U, V))]
    if p == q:
        ops += [("U & V", lambda: ku & kv, "kv.inter", (U, V)), ("V & U", lambda: kv & ku, "kv.inter", (V, U)),
                ("copy(V) &= U", lambda: KnotVector(typed(V, c["repV"])).__iand__(ku), "kv.inter", (V, U))]
    for name, fn, cmd, args in ops:
        r = impl(fn)
        l3(rec, "operands-untouched")
        if snap(ku) != su or snap(kv) != sv:
            rec.violation("%s modified an operand (values or number type of its knots)" % name, case,
                          U_now=str(snap(ku))[:300], V_now=str(snap(kv))[:300])
            return
        m = drv.call(cmd, *args)
        if r[0] == "ok":
            X = [frac(x) for x in r[1]]
            l2(rec, cmd + ".mixed", case, X, m, m[0] == "ok" and list(m[1][0]) == X)
            if m[0] == "ok" and list(m[1][0]) != X:
                rec.violation("%s of operands with mixed number types differs from the exact answer" % name, case, observed=ser(X),
                              expected=ser(list(m[1][0])))
                return
        else:
            l2(rec, cmd + ".mixed", case, errkind(r), m, errkind(r) == errkind(m))
            if m[0] == "ok":
                rec.violation("%s raised for operands with mixed number types" % name, case, observed=r[1])
                return


def run(ctx):
    rng = ctx["rng"]
    for i in range(budget(ctx, 16, 160)):
        # mixed number types: dyadic (and sometimes integral) knot values, exactly representable as Fraction and as float
        if rng.random() < 0.3:
            U = rand_int_kv(rng)
            V = sorted(set(U))
            q = rng.randint(0, 3)
            V = [V[0]] * (q + 1) + [x for x in V[1:-1] if rng.random() < 0.7 for _ in range(rng.randint(1, q + 1))] + [V[-1]] * (q + 1)
            reps = ["fraction", "float", "int"]
        else:
            U, V = rand_dyadic_kv(rng), rand_dyadic_kv(rng)
            if rng.random() < 0.5:
                pv = kv_info(U)[0]
                ks = sorted(set(U))
                V = [ks[0]] * (pv + 1) + [x for x in DYADIC if ks[0] < x < ks[-1] and rng.random() < 0.4
                                          for _ in range(rng.randint(1, pv + 1))] + [ks[-1]] * (pv + 1)
            reps = ["fraction", "float"]
        if (U[0], U[-1]) != (V[0], V[-1]):
            continue
        ru = rng.choice(reps)
        rv = rng.choice([r for r in reps if r != ru])
        run_mixed(ctx, ser(dict(kind="mixed", U=U, V=V, repU=ru, repV=rv)))
    run_case(ctx, ser(dict(kind="pair", U=[F(0), F(0), F(1, 2), F(1), F(1)], V=[F(0)] * 3 + [F(1, 3)] + [F(1)] * 3)))
    for i in range(budget(ctx, 15, 200)):
        # same degree, same distinct knots, same length — only the multiplicities are distributed differently
        a, b = rand_interval(rng)
        p = rng.randint(1, 3)
        ks = [a + (b - a) * x for x in sorted(rng.sample(GRID, rng.randint(2, 3)))]
        total = rng.randint(len(ks) + 1, len(ks) * (p + 1) - 1) if p + 1 > 1 else len(ks)

        def spread():
            m = [1] * len(ks)
            for _ in range(total - len(ks)):
                cand = [j for j in range(len(ks)) if m[j] < p + 1]
                if not cand:
                    break
                m[rng.choice(cand)] += 1
            return m
        mu, mv = spread(), spread()
        if mu == mv or sum(mu) != sum(mv):
            continue
        U = [a] * (p + 1) + [k for k, m in zip(ks, mu) for _ in range(m)] + [b] * (p + 1)
        V = [a] * (p + 1) + [k for k, m in zip(ks, mv) for _ in range(m)] + [b] * (p + 1)
        run_case(ctx, ser(dict(kind="pair", U=U, V=V)))
    for i in range(budget(ctx, 100, 1500)):
        interval = rand_interval(rng)
        p = rng.randint(0, 3)
        q = p if rng.random() < 0.5 else rng.randint(0, 3)
        U = rand_kv(rng, p=p, nintmax=3, interval=interval)
        V = rand_kv(rng, p=q, nintmax=3, interval=interval)
        mode = rng.random()
        if mode < 0.3 and len(set(U)) > 2:
            k = sorted(set(U))[rng.randrange(1, len(set(U)) - 1)]
            if k not in V:
                V = sorted(V + [k] * rng.randint(1, q + 1))
        elif mode < 0.4:
            V = list(U)
        elif mode < 0.5:
            V = [x + F(1, 2) for x in V]
        run_case(ctx, ser(dict(kind="pair", U=U, V=V)))
