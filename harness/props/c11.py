"""C11 — fit_curve is the L2-orthogonal projection (with optional exact interpolation)."""
from common import *  # noqa: F401,F403
import math

RULE = ("random target spaces S (degree 0..3, non-uniform knots, repeated knots) and source spline curves C (degree 0..3, other knot vectors, "
        "scalar/vector points) on the same interval; C inside S (S refines C's space); interpolation node sets (subsets of S's knots, <= npts).  "
        "Non-trivial: non-uniform or multi-span S; distinct = distinct (S, C, nodes)."
        " Also: interpolation at the Greville abscissae of S (all of them: square non-symmetric collocation; or a subset); receivers with positive weights W and polynomial sources C with C*W in the spline space (C in S: exact reproduction, error 0, weights kept); the float twin of every case (numpy solves, Chebyshev quadrature) against the exact projection.")
EXPLANATION = ("L3: with the implementation's D the exact integrals <C-D, N_i> (all basis functions of S) are computed from the span polynomials "
               "(`rf.inner`), as are integral(C-D)^2 (`rf.sqdist`); orthogonality, error identity (factor 1 or 1/2), non-negativity, zero-iff and "
               "reproduction are exact comparisons; with nodes: D(z)=C(z) and the moment vector lies in the row space of the constraint matrix "
               "(exact rank test).  L2: control points and returned error vs the model's Gram/normal-equation computation.")
ASSUMPTIONS = ["orthogonality and the error identity are judged on polynomial spline spaces (the rational branch of fit_curve uses inexact quadrature); for receivers with weights only exact reproduction of a source lying in S, error zero and kept weights are judged"]


def run_ratrecv(ctx, case):
    """a receiver with weights (its space S is spanned by the rational functions w_i N_i / W) and a polynomial source C with
    C * W in the spline space: C lies in S, so the fit must return C itself, report error zero and keep the receiver's weights"""
    rec, drv = ctx["rec"], ctx["drv"]
    c = de(case)
    U, P, UW, PW, nodes = c["U"], [tuple(p) for p in c["P"]], c["UW"], [tuple(p) for p in c["PW"]], c["nodes"]
    rec.case(case, nontrivial=True)
    rec.count("label", "rational-receiver")
    prod = drv.call("curve.bin", "mul", list(U), [list(x) for x in P], None, list(UW), [list(x) for x in PW], None)
    if prod[0] != "ok":
        rec.count("skip", "product-space")
        return
    S = list(model_curve_state(prod[1])[0])
    wfit = drv.call("curve.fitcurve", S, None, None, list(UW), [list(x) for x in PW], None, None)
    if wfit[0] != "ok" or wfit[1][1] != 0:
        rec.count("skip", "weights-in-S")
        return
    WA = [q[0] for q in model_curve_state(wfit[1][0])[1]]
    if any(w <= 0 for w in WA):
        rec.count("skip", "weights-positive")
        return
    src = make_curve(U, P, None)
    s0 = curve_state(src)
    dst = Curve(list(S))
    dst.weights = list(WA)
    r = impl(lambda: dst.fit_curve(src) if nodes is None else dst.fit_curve(src, tuple(nodes)))
    l3(rec, "rational-receiver-reproduction")
    if curve_state(src) != s0:
        rec.violation("fit_curve modified the source curve", case)
    if r[0] != "ok":
        rec.violation("fit_curve raised for a receiver with weights", case, observed=r[1])
        return
    if isinstance(r[1], np.ndarray) and r[1].size != 1:
        rec.violation("fit_curve returned an array instead of one error value", case, observed=str(r[1])[:200])
        return
    err = frac(r[1]) if not isinstance(r[1], np.ndarray) else frac(r[1].item())
    D = curve_state(dst)
    m = drv.call("curve.fitcurve", list(S), None, list(WA), *curve_args(*s0), nodes)
    l2(rec, "curve.fitcurve", case, (D, err), m, m[0] == "ok" and model_curve_state(m[1][0]) == D and m[1][1] == err)
    if D[2] is None or [frac(w) for w in D[2]] != WA:
        rec.violation("fit_curve of a polynomial source replaced the weights of the receiving curve (its space S)", case,
                      observed=ser(D[2]), expected=ser(WA))
        return
    v = drv.call("rf.eq", *curve_args(*s0), *curve_args(*D))
    if v != ("ok", "yes") or err != 0:
        rec.violation("C lies in the (rational) space S of the receiver but D != C or error != 0", case, oracle=ser(v), error=str(err),
                      result=ser(D))


def run_case(ctx, case):
    rec, drv = ctx["rec"], ctx["drv"]
    c = de(case)
    if c.get("kind") == "ratrecv":
        return run_ratrecv(ctx, case)
    S, U, P, nodes = c["S"], c["U"], [tuple(p) for p in c["P"]], c["nodes"]
    ps, ns, _ = kv_info(S)
    rec.case(case, nontrivial=len(set(S)) > 2)
    rec.count("label", c.get("label", "?"))
    rec.count("nodes", "none" if nodes is None else "some")
    src = make_curve(U, P, None)
    s0 = curve_state(src)
    dst = Curve(list(S))
    form = "tuple" if form_of(case) in ("tuple", "generator", "iter") else "list"     # fit_curve documents a tuple of nodes; iterators / arrays are refused loudly (TypeError / ValueError)
    rec.count("nodes-as", form if nodes is not None else "default")
    r = impl(lambda: dst.fit_curve(src) if nodes is None else dst.fit_curve(src, as_form(nodes, form)))
    if curve_state(src) != s0:
        rec.violation("fit_curve modified the source curve", case)
    m = drv.call("curve.fitcurve", list(S), None, None, *curve_args(*s0), nodes)
    if r[0] != "ok":
        l2(rec, "curve.fitcurve", case, errkind(r), m, errkind(r) == errkind(m))
        rec.violation("fit_curve raised", case, observed=r[1])
        return
    err = frac(r[1]) if not isinstance(r[1], np.ndarray) else frac(r[1].item())
    D = curve_state(dst)
    ok = m[0] == "ok" and model_curve_state(m[1][0]) == D and m[1][1] == err
    l2(rec, "curve.fitcurve", case, (D, err), m, ok)
    dim = len(P[0])
    # moments g[i][d] = ∫ (C - D)_d N_i
    g = []
    for i in range(ns):
        e = [(F(1),) if j == i else (F(0),) for j in range(ns)]
        a = drv.call("rf.inner", *curve_args(*s0), list(S), [list(x) for x in e], None)
        b = drv.call("rf.inner", *curve_args(*D), list(S), [list(x) for x in e], None)
        l3(rec, "rf.inner")
        g.append([x - y for x, y in zip(a[1], b[1])])
    sq = drv.call("rf.sqdist", *curve_args(*s0), *curve_args(*D))
    l3(rec, "rf.sqdist")
    worst = max(sq[1])
    if err < 0:
        rec.violation("returned error is negative", case, error=str(err))
    if nodes is None:
        if any(x != 0 for row in g for x in row):
            rec.violation("residual C-D is not L2-orthogonal to the basis of S", case, moments=ser(g), result=ser(D))
            return
        if err != worst:
            rec.violation("returned error is not the integral of the squared residual (worst coordinate)", case, error=str(err), integral=str(worst))
    else:
        for z in nodes:
            if pt_canon(dst(z)) != pt_canon(src(z)):
                rec.violation("fitted curve does not interpolate at a node", case, node=str(z))
                return
        G = [list(drv.call("basis.eval", list(S), None, ps, z)[1]) for z in nodes]      # nodes x npts
        for d in range(dim):
            col = [g[i][d] for i in range(ns)]
            if rank(G + [col]) != rank(G):
                rec.violation("residual is not orthogonal to the elements of S vanishing at the nodes", case, moments=ser(col))
                return
        if err != worst / 2:
            rec.violation("returned error is not half the integral of the squared residual", case, error=str(err), integral=str(worst))
    # the float code path (numpy solves, Chebyshev quadrature) on the same data: the same projection up to rounding
    srcf = float_twin(U, P, None)
    dstf = Curve([float(x) for x in S])
    rf_ = impl(lambda: dstf.fit_curve(srcf) if nodes is None else dstf.fit_curve(srcf, [float(z) for z in nodes]))
    l3(rec, "float-path-vs-exact")
    if rf_[0] != "ok":
        rec.violation("fit_curve raised on float data", case, observed=rf_[1])
    else:
        Df = curve_state(dstf)
        scale = max([F(1)] + [abs(x) for q in D[1] for x in q])
        dev = max([abs(x - y) for q1, q2 in zip(Df[1], D[1]) for x, y in zip(q1, q2)] + [F(0)])
        errf = frac(rf_[1]) if not isinstance(rf_[1], np.ndarray) else frac(rf_[1].item())
        deve = abs(errf - err)
        rec.dist.setdefault("floatdev", {})
        key = "1e-%d" % min(16, max(0, int(-math.log10(float(dev / scale) + 1e-17))))
        rec.count("floatdev", key)
        if dev > F(1, 10**6) * scale or deve > F(1, 10**6) * max(F(1), scale * scale):
            rec.violation("fit_curve on float data is not the same projection as on exact data", case,
                          deviation=str(float(dev)), error_float=str(float(errf)), error_exact=str(float(err)))
    inS = (c.get("label") == "inside")
    if inS:
        v = drv.call("rf.eq", *curve_args(*s0), *curve_args(*D))
        if v != ("ok", "yes") or err != 0:
            rec.violation("C lies in S but D != C or error != 0", case, oracle=ser(v), error=str(err))
    elif (err == 0) != (worst == 0):
        rec.violation("error is zero although C is not in S (or the converse)", case, error=str(err), integral=str(worst))


def run(ctx):
    rng = ctx["rng"]
    # corpus: D10 (non-uniform knots), D11 (degree 0)
    run_case(ctx, ser(dict(kind="fit", label="corpus", S=[F(0), F(0), F(1, 5), F(1), F(1)], U=[F(0)] * 3 + [F(1)] * 3,
                           P=[(F(1),), (F(-2),), (F(4),)], nodes=None)))
    run_case(ctx, ser(dict(kind="fit", label="corpus", S=[F(0), F(1, 3), F(1, 2), F(1)], U=[F(0), F(1, 2), F(1)], P=[(F(2),), (F(3),)], nodes=None)))
    for i in range(budget(ctx, 6, 50)):
        # higher degrees (4..5 on either side, few spans): the Gram quadrature then uses 9..11 nodes per span
        interval = rand_interval(rng)
        p1, p2 = (rng.randint(4, 5), rng.randint(1, 3)) if i % 2 == 0 else (rng.randint(1, 3), rng.randint(4, 5))
        S = rand_kv(rng, p=p1, nintmax=1, interval=interval)
        U = rand_kv(rng, p=p2, nintmax=1, interval=interval)
        run_case(ctx, ser(dict(kind="fit", label="highdeg", S=S, U=U, P=rand_points(rng, kv_info(U)[1], 1), nodes=None)))
    for i in range(budget(ctx, 10, 100)):
        # sibling receivers, one after the other in the same process: equal degree, equal number of control points, equal distinct
        # knots — only the interior multiplicities sit elsewhere (anything remembered from the first fit under a key that does not
        # see multiplicities would be reused for the second)
        pr = same_breakpoint_pair(rng)
        if pr is None:
            continue
        S1, S2 = pr
        U = rand_kv(rng, pmax=3, nintmax=2, interval=(S1[0], S1[-1]))
        P = rand_points(rng, kv_info(U)[1], rng.choice([1, 2]))
        nodes = [S1[0], S1[-1]] if i % 4 == 3 else None
        run_case(ctx, ser(dict(kind="fit", label="sibling-1", S=S1, U=U, P=P, nodes=nodes)))
        run_case(ctx, ser(dict(kind="fit", label="sibling-2", S=S2, U=U, P=P, nodes=nodes)))
    for i in range(budget(ctx, 10, 120)):
        # receivers with weights: W a positive spline of degree 1..2, C a polynomial source, S the space of the product C * W
        interval = rand_interval(rng)
        UW = rand_kv(rng, p=rng.randint(1, 2), nintmax=1, interval=interval)
        PW = [(F(rng.randint(1, 9), rng.randint(1, 4)),) for _ in range(kv_info(UW)[1])]
        U = rand_kv(rng, p=rng.randint(0, 2), nintmax=2, interval=interval)
        dim = rng.choice([1, 2])
        nodes = None
        if i % 3 == 2:
            nodes = [interval[0], interval[1]] if i % 2 else [interval[0]]
        run_case(ctx, ser(dict(kind="ratrecv", U=U, P=rand_points(rng, kv_info(U)[1], dim), UW=UW, PW=PW, nodes=nodes)))
    for i in range(budget(ctx, 50, 700)):
        interval = rand_interval(rng)
        label = rng.choice(["generic", "generic", "inside", "nodes", "nodes", "nodes-greville", "nodes-greville"])
        S = rand_kv(rng, pmax=3, nintmax=3, interval=interval)
        if label == "nodes-greville":
            # nodes that are not knots: all of the Greville abscissae of S (as many nodes as control points: pure interpolation,
            # the collocation matrix is square and not symmetric) or a subset of them; S continuous so that they are distinct
            p_ = rng.randint(1, 3)
            S = rand_kv(rng, p=p_, nint=rng.randint(0, 3), maxmult=p_, interval=interval)
        ps, ns, ks = kv_info(S)
        dim = rng.choice([1, 1, 2])
        nodes = None
        if label == "inside":
            # C lives on a coarsening of S: drop some interior knots / lower nothing
            U = list(S)
            inner = [x for x in U if U[0] < x < U[-1]]
            for x in rng.sample(inner, rng.randint(0, len(inner))):
                U.remove(x)
        else:
            U = rand_kv(rng, pmax=3, nintmax=2, interval=interval)
        if label == "nodes-greville":
            grev = [sum(S[i + 1: i + ps + 1], F(0)) / ps for i in range(ns)]
            if len(set(grev)) == ns:
                nodes = grev if rng.random() < 0.6 else sorted(rng.sample(grev, rng.randint(1, ns)))
            else:
                label = "generic"
        if label == "nodes":
            if ps == 0:
                label = "generic"
            else:
                k = rng.randint(1, min(len(ks), ns))
                nodes = sorted(rng.sample(ks, k))
        P = rand_points(rng, kv_info(U)[1], dim, ints=(rng.random() < 0.5))
        run_case(ctx, ser(dict(kind="fit", label=label, S=S, U=U, P=P, nodes=nodes)))
