"""C19 — Projection returns nearest-point parameters."""
from common import *  # noqa: F401,F403
from props.c15 import with_timeout, Timeout
import math

RULE = ("random polylines (degree 1, 1..5 segments, 2-D and 3-D, float data, uniform and non-uniform knots) with random points, points on the "
        "curve, points equidistant from two segments, points beyond the ends; random curves of degree 2..3 and rational arcs (soundness conditions "
        "only); every call under a wall-clock cap.  Non-trivial: at least two segments or degree >= 2; distinct = distinct (curve, point)."
        " Also: far points whose two nearest candidates differ by about 3e-6 of the distance, single-span curves that clean() could reduce; one Curve object projected on, given other "
        "weights through the setter, projected on again; integer knot vectors given as python ints with spans 2..4; real-valued curves (scalar control points) of degree 3..4; polylines and parabolas made of disjoint pieces (interior knots of multiplicity degree + 1) with points on a piece; for every curved or weighted curve the closest of 64 samples per span must not be closer to P than the answer.")
EXPLANATION = ("L3: the exact nearest-point oracle for polylines (`geom.nearest`, minimum of the per-segment quadratics over Q, proved optimal) gives "
               "the minimal distance; the returned tuple is checked for non-emptiness, order, range, equal distances (1e-6), minimality, "
               "stationarity of interior non-knot parameters (exact derivative via `rf.evalderiv`), termination and unchanged operands.")
ASSUMPTIONS = ["float Newton iteration: validated per input, not proved; global minimality is asserted for polylines only (as the property states)"]


def run_case(ctx, case):
    rec, drv = ctx["rec"], ctx["drv"]
    c = de(case)
    U, P, W, pt = c["U"], [tuple(q) for q in c["P"]], c["W"], c["pt"]
    p, n, knots = kv_info(U)
    rec.case(case, nontrivial=(len(knots) > 2 or p >= 2))
    rec.count("label", c.get("label", "?"))
    rec.count("degree", str(p))
    Uf = [int(x) for x in U] if c.get("intknots") else [float(x) for x in U]
    rec.count("knots", "python-int" if c.get("intknots") else "float")
    Pf = [np.array([float(x) for x in q]) for q in P]
    Wf = None if W is None else [float(w) for w in W]
    curve = Curve(Uf, Pf, Wf)
    ptf = [float(x) for x in pt]
    scalarpts = bool(c.get("scalarpts"))
    if scalarpts:
        # a real-valued curve: python floats as control points, a number as the point to project
        curve = Curve(Uf, [float(q[0]) for q in P], Wf)
    arg = ptf[0] if scalarpts else ptf
    vec = (lambda v: [float(v)]) if scalarpts else (lambda v: v)
    if c.get("pre"):
        # the same Curve object was projected on while it had other weights / control points, then brought to its present state through
        # the public setters: the answer depends on the present state only
        pre = c["pre"]
        Pq = [np.array([float(x) for x in q]) for q in pre["P"]]
        Wq = None if pre["W"] is None else [float(w) for w in pre["W"]]
        curve = Curve(Uf, Pq, Wq)
        try:
            impl(lambda: with_timeout(lambda: Projection.point_on_curve(arg, curve), 30))
        except Timeout:
            pass
        if pre.get("setpoints"):
            curve.ctrlpoints = Pf
        curve.weights = Wf
        if not pre.get("setpoints"):
            Pf = Pq
            P = [tuple(q) for q in pre["P"]]
        rec.count("reused-object", "weights" + ("+points" if pre.get("setpoints") else ""))
    start = curve_state(curve)
    try:
        r = impl(lambda: with_timeout(lambda: Projection.point_on_curve(arg, curve), 30))
    except Timeout:
        rec.violation("point_on_curve did not terminate within 30 s", case)
        return
    if curve_state(curve) != start:
        rec.violation("point_on_curve modified the curve", case)
    if r[0] != "ok":
        rec.violation("point_on_curve raised", case, observed=r[1])
        return
    ts = [float(t) for t in r[1]]
    l3(rec, "projection-conditions")
    if len(ts) == 0:
        rec.violation("point_on_curve returned an empty tuple", case)
        return
    if ts != sorted(ts):
        rec.violation("returned parameters are not sorted", case, observed=ts)
    if any(not (Uf[0] <= t <= Uf[-1]) for t in ts):
        rec.violation("returned parameter outside [umin, umax]", case, observed=ts)
        return
    Ue, Pe = start[0], start[1]
    pte = [frac(x) for x in ptf]
    ds = [math.sqrt(sum((float(a) - b) ** 2 for a, b in zip(vec(curve(t)), ptf))) for t in ts]
    if max(ds) - min(ds) > 1e-6:
        rec.violation("returned parameters are not at the same distance", case, distances=ds)
    if p == 1 and W is None:
        # (rational degree-1 curves are not in the guaranteed class: the problem is not piecewise linear in the parameter;
        # for them the general conditions below are checked: self-projection of points on the curve, stationarity)
        o = drv.call("geom.nearest", list(Ue), [list(q) for q in Pe], None, pte)
        l3(rec, "geom.nearest")
        dmin = math.sqrt(float(o[1][0]))
        if abs(min(ds) - dmin) > 1e-7 * max(1.0, dmin) or max(ds) - dmin > 1e-6:
            rec.violation("returned distance is not the minimum over the interval", case, returned=ds, minimum=dmin, minimisers=ser(o[1][1]), parameters=ts)
            return
    if not (p == 1 and W is None):
        # curved / rational pieces: no closed-form minimum, but no point of the curve may be closer than the returned ones —
        # the curve is sampled (64 parameters per span and the knots) and the closest sample compared with the answer
        kf_ = [float(k) for k in knots]
        samples = sorted(set(kf_ + [a_ + (b_ - a_) * i_ / 64 for a_, b_ in zip(kf_[:-1], kf_[1:]) for i_ in range(1, 64)]))
        vals_ = impl(lambda: curve(samples))
        l3(rec, "sampled-lower-bound")
        if vals_[0] == "ok":
            dsamp, usamp = min((math.sqrt(sum((float(a) - b) ** 2 for a, b in zip(vec(v_), ptf))), u_) for v_, u_ in zip(vals_[1], samples))
            if dsamp < min(ds) - 1e-6 * max(1.0, dsamp):
                rec.violation("a point of the curve is closer to P than the returned parameters", case, returned=ds, parameters=ts,
                              closer_parameter=usamp, closer_distance=dsamp)
                return
    if c.get("label") in ("oncurve", "oncurve-rational") and min(ds) > 1e-6:
        rec.violation("a point on the curve is not projected onto itself", case, distance=min(ds), parameters=ts)
    # stationarity of interior non-knot parameters
    kf = [float(k) for k in knots]
    for t in ts:
        if any(abs(t - k) < 1e-7 for k in kf):
            continue
        te = frac(t)
        dv = drv.call("rf.evalderiv", list(Ue), [list(q) for q in Pe], None if start[2] is None else list(start[2]), [te])
        cv = drv.call("curve.eval", list(Ue), [list(q) for q in Pe], None if start[2] is None else list(start[2]), [te])
        if dv[0] != "ok" or cv[0] != "ok" or dv[1][0] is None:
            continue
        d1 = [float(x) for x in dv[1][0]]
        diff = [float(a) - b for a, b in zip(cv[1][0], ptf)]
        dot = sum(a * b for a, b in zip(d1, diff))
        n1, n2 = math.sqrt(sum(a * a for a in d1)), math.sqrt(sum(b * b for b in diff))
        # Newton stops when |step| < 1e-6, i.e. |<C',C-P>| < 1e-6 * |<C'',C-P> + <C',C'>|: allow that much, generously scaled
        if abs(dot) > 1e-4 * (n1 * n2 + n1 * n1) + 1e-6:
            rec.violation("returned interior parameter is not a stationary point of the distance", case, parameter=t, derivative=dot)
            return


def run(ctx):
    rng = ctx["rng"]
    # D38 witnesses: Newton leaves the piece on the far side, the nearer end must still be a candidate
    run_case(ctx, ser(dict(kind="proj", label="beyond-rational", U=[F(0), F(0), F(1), F(1)], P=[(F(1, 4), F(3, 2)), (F(-3, 2), F(-5, 2))],
                           W=[F(2), F(1, 2)], pt=[F(-25, 8), F(-51, 8)])))
    run_case(ctx, ser(dict(kind="proj", label="beyond-rational", U=[F(0), F(0), F(1, 2), F(1), F(1)],
                           P=[(F(3, 4), F(1, 4), F(-11, 4)), (F(-13, 4), F(9, 4), F(-13, 4)), (F(1, 4), F(-9, 4), F(-5, 2))],
                           W=[F(4), F(6), F(1)], pt=[F(31, 8), F(-53, 8), F(-13, 8)])))
    # corpus: Newton step 0/0 -> NaN -> endless span search (repaired); degree-2 spline with a start parameter where C' = 0
    run_case(ctx, ser(dict(kind="proj", label="corpus", U=[F(0)] * 3 + [F(1)] + [F(2)] * 3,
                           P=[(F(0), F(0)), (F(1), F(1)), (F(2), F(0)), (F(3), F(1))], W=None, pt=[F(1), F(0)])))
    for i in range(budget(ctx, 12, 120)):
        # polylines and parabolas on integer knot vectors handed over as python ints, spans of length 2, 3, 4 (degree/span not an integer)
        deg = 1 if i % 3 else 2
        nseg = rng.randint(1, 3)
        ks, x = [], 0
        for _ in range(nseg):
            x += rng.choice([2, 3, 4])
            ks.append(x)
        U = [F(0)] * (deg + 1) + [F(k) for k in ks[:-1] for _ in range(deg)] + [F(ks[-1])] * (deg + 1)
        n_ = len(U) - deg - 1
        P = [(F(rng.randint(-12, 12), 4), F(rng.randint(-12, 12), 4)) for _ in range(n_)]
        for a_ in range(n_ - 1):
            if P[a_] == P[a_ + 1]:
                P[a_ + 1] = (P[a_ + 1][0] + 1, P[a_ + 1][1])
        if rng.random() < 0.5:
            t0 = F(rng.randint(1, 4 * ks[-1] - 1), 4)
            v = ctx["drv"].call("curve.def", *curve_args(U, P, None), [t0])
            pt = [frac(x_) for x_ in v[1][0]]
            label = "oncurve"
        else:
            pt = [F(rng.randint(-20, 20), 4), F(rng.randint(-20, 20), 4)]
            label = "random"
        run_case(ctx, ser(dict(kind="proj", label=label, U=U, P=P, W=None, pt=pt, intknots=True)))
    for i in range(budget(ctx, 12, 120)):
        # real-valued curves (scalar control points, degree 3..4, wiggly): a value of the curve is projected onto itself
        p_ = rng.randint(3, 4)
        U = [F(0)] * (p_ + 1) + ([F(rng.randint(2, 8), 10)] if i % 2 else []) + [F(1)] * (p_ + 1)
        n_ = len(U) - p_ - 1
        P = [(F(rng.randint(-6, 6)),) for _ in range(n_)]
        t0 = F(rng.randint(1, 19), 20)
        v = ctx["drv"].call("curve.def", *curve_args(U, P, None), [t0])
        run_case(ctx, ser(dict(kind="proj", label="oncurve", U=U, P=P, W=None, pt=[frac(v[1][0][0])], scalarpts=True)))
    for i in range(budget(ctx, 14, 150)):
        # one Curve object projected on, then given other weights (or none) through the setter, then projected on again
        if i % 2 == 0:
            nseg = rng.randint(2, 4)
            U = [F(0), F(0)] + [F(k, nseg) for k in range(1, nseg)] + [F(1), F(1)]
            P = [(F(rng.randint(-12, 12), 4), F(rng.randint(-12, 12), 4)) for _ in range(nseg + 1)]
            for a in range(nseg):
                if P[a] == P[a + 1]:
                    P[a + 1] = (P[a + 1][0] + 1, P[a + 1][1])
            pt = [F(rng.randint(-20, 20), 4), F(rng.randint(-20, 20), 4)]
            pre = dict(P=P, W=[F(rng.choice([1, 2, 5, 9]), rng.choice([1, 2, 7])) for _ in P], setpoints=False)
            run_case(ctx, ser(dict(kind="proj", label="reused-polyline", U=U, P=P, W=None, pt=pt, pre=pre)))
        else:
            U = [F(0)] * 3 + ([F(2, 5)] if rng.random() < 0.5 else []) + [F(1)] * 3
            n_ = len(U) - 3
            P = [(F(k), F(rng.randint(-8, 8), 4)) for k in range(n_)]
            W = [F(rng.choice([1, 2, 3, 5]), rng.choice([1, 2])) for _ in range(n_)]
            Wq = [F(rng.choice([1, 4, 9]), rng.choice([1, 3])) for _ in range(n_)]
            # a point of the final curve (exact), so that it must be projected onto itself
            t0 = F(rng.randint(1, 9), 10)
            v = ctx["drv"].call("curve.def", *curve_args(U, P, W), [t0])
            if v[0] != "ok":
                continue
            pt = [frac(x) for x in v[1][0]]
            run_case(ctx, ser(dict(kind="proj", label="oncurve-rational", U=U, P=P, W=W, pt=pt, pre=dict(P=P, W=Wq, setpoints=False))))
    for i in range(budget(ctx, 70, 900)):
        dim = rng.choice([2, 2, 3])
        nseg = rng.randint(1, 5)
        ks = sorted(rng.sample(GRID, nseg - 1)) if rng.random() < 0.6 else [F(k, nseg) for k in range(1, nseg)]
        U = [F(0), F(0)] + ks + [F(1), F(1)]
        P = [tuple(F(rng.randint(-16, 16), 4) for _ in range(dim)) for _ in range(nseg + 1)]
        for a, b in zip(range(nseg), range(1, nseg + 1)):
            if P[a] == P[b]:
                P[b] = tuple(x + 1 for x in P[b])
        label = rng.choice(["random", "random", "oncurve", "equidistant", "beyond", "nearvertex", "nearcorner", "far-neartie"])
        if label == "far-neartie" and dim == 2:
            # a point far away whose two nearest candidates (the two ends) differ in distance by about 3e-6 * distance:
            # far more than 1e-6, far less than any *relative* tolerance of 1e-5
            y0, y1 = F(rng.randint(-8, -1), 2), F(rng.randint(1, 8), 2)
            P = [(F(1), y0)] + [(F(rng.randint(-16, 0), 4), y0 + (y1 - y0) * F(k, nseg)) for k in range(1, nseg)] + [(F(1), y1)]
            T = F(rng.choice([50, 200, 1000]))
            delta = T * T * F(3, 10**6) / (y1 - y0) * rng.choice([1, -1])
            pt = [T, (y0 + y1) / 2 + delta]
            run_case(ctx, ser(dict(kind="proj", label=label, U=U, P=P, W=None, pt=pt)))
            continue
        if label in ("nearvertex", "nearcorner") and nseg >= 2:
            # minimal distance tiny but other candidates only ~1e-3 farther: a tie filter on the wrong scale keeps them
            j = rng.randrange(1, nseg)
            eps = F(1, 2 ** rng.randint(9, 12))
            a_, v_, b_ = P[j - 1], P[j], P[j + 1]
            if label == "nearvertex":
                pt = [x + eps * (y - x) for x, y in zip(v_, a_)]          # on the curve, just before the vertex
            else:
                pt = [x + eps * ((y - x) + (z - x)) / 2 for x, y, z in zip(v_, a_, b_)]   # inside the corner, near both legs
        elif label == "oncurve":
            j = rng.randrange(nseg)
            lam = F(rng.randint(0, 8), 8)
            pt = [a + lam * (b - a) for a, b in zip(P[j], P[j + 1])]
        elif label == "equidistant" and nseg >= 2 and dim == 2:
            P = [(F(-2), F(0)), (F(0), F(0)), (F(0), F(-2))][: nseg + 1] + [(F(k), F(-2)) for k in range(1, nseg - 1)]
            pt = [F(-1), F(-1)]
        elif label == "beyond":
            pt = [2 * b - a + F(1, 8) for a, b in zip(P[-2], P[-1])]
        else:
            pt = [F(rng.randint(-20, 20), 4) for _ in range(dim)]
        Wp = None
        if i % 4 == 1:
            Wp = [F(rng.randint(1, 8), rng.randint(1, 3)) for _ in P]       # rational polyline: unequal positive weights
            if len(set(Wp)) == 1:
                Wp[0] += 1
        run_case(ctx, ser(dict(kind="proj", label=label + ("-rational" if Wp else ""), U=U, P=P, W=Wp, pt=pt)))
    for i in range(budget(ctx, 24, 300)):
        # curves made of disjoint pieces (interior knots of multiplicity degree + 1, a valid knot vector): a point taken on one of
        # the pieces, strictly inside a span, is projected onto itself
        p = 1 if i % 3 else 2
        nk = rng.randint(1, 3)
        ks = sorted(rng.sample(GRID, nk))
        mults = [rng.randint(1, p + 1) for _ in ks]
        mults[rng.randrange(nk)] = p + 1
        U = [F(0)] * (p + 1) + [k for k, m in zip(ks, mults) for _ in range(m)] + [F(1)] * (p + 1)
        n = kv_info(U)[1]
        P = [tuple(F(rng.randint(-16, 16), 4) for _ in range(2)) for _ in range(n)]
        for a in range(n - 1):
            if P[a] == P[a + 1]:
                P[a + 1] = tuple(x + 1 for x in P[a + 1])
        cu = make_curve(U, P, None, scalar=False)
        bounds = [F(0)] + ks + [F(1)]
        j = rng.randrange(len(bounds) - 1)
        j = max(j, mults.index(p + 1) + 1) if rng.random() < 0.7 else j      # mostly on a piece after a jump
        u = bounds[j] + (bounds[j + 1] - bounds[j]) * F(rng.randint(1, 15), 16)
        pt = list(pt_canon(cu(u)))
        run_case(ctx, ser(dict(kind="proj", label="oncurve", U=U, P=P, W=None, pt=pt)))
        ctx["rec"].count("family", "disjoint-pieces-degree-%d" % p)
    for i in range(budget(ctx, 20, 200)):
        # single-span curves that clean() could simplify: the projection must leave the caller's object alone
        cu, kind = reducible_bezier(rng, 2)
        pt = [F(rng.randint(-24, 24), 4) for _ in range(2)]
        run_case(ctx, ser(dict(kind="proj", label="reducible-" + kind, U=cu["U"], P=cu["P"], W=cu["W"], pt=pt)))
    for i in range(budget(ctx, 80, 900)):
        p = rng.choice([2, 2, 3])
        U = rand_kv(rng, p=p, nintmax=2, maxmult=1, interval=(F(0), F(1)))
        n = kv_info(U)[1]
        P = [tuple(F(rng.randint(-5, 5)) for _ in range(2)) for _ in range(n)]
        W = None if rng.random() < 0.75 else [F(rng.randint(2, 6), 2) for _ in range(n)]
        label = rng.choice(["random", "oncurve", "oncurve"])
        if label == "oncurve":
            cu = make_curve(U, P, W, scalar=False)
            pt = list(pt_canon(cu(F(rng.randint(0, 997), 997))))
        else:
            pt = [F(rng.randint(-24, 24), 4) for _ in range(2)]
        run_case(ctx, ser(dict(kind="proj", label=label, U=U, P=P, W=W, pt=pt)))
