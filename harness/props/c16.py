"""C16 — results do not depend on the number representation."""
from common import *  # noqa: F401,F403
from copy import copy

RULE = ("random well-conditioned curves (degree <= 3, knot spacing >= 1/20 of the interval, weights in [1/5, 5]) pushed through one pipeline — "
        "evaluation, basis functions, knot insertion and removal, degree elevation and reduction, split/join, + * /, fit_curve, fit_points, default "
        "integration — three times: Fraction data (with int control points / weights in a share of cases, numerators and denominators above 2^64 in "
        "another), python floats, numpy float64; plus a control-point type that supports only point+point and scalar*point for evaluation, insertion, "
        "elevation and splitting.  Non-trivial: an interior knot or degree >= 2; distinct = distinct (curve, pipeline arguments)."
        " Also: exact-only cases of degree 4..8 (least squares and quadrature beyond the tabulated sizes).")
EXPLANATION = ("L2/L3: for the Fraction run every output is type-checked (no float anywhere) and compared for exact equality with the Lean model's "
               "output (which the theorems of C01-C14 tie to the mathematical definition); the float runs are compared with the exact outputs to "
               "relative 1e-9.")
ASSUMPTIONS = ["float half: rounding behaviour is observed on well-conditioned inputs, not proved"]


class Pt:
    """a control point type with only point+point and scalar*point"""
    def __init__(self, coords):
        self.c = tuple(coords)

    def __add__(self, other):
        if not isinstance(other, Pt):
            return NotImplemented
        return Pt(a + b for a, b in zip(self.c, other.c))

    def __rmul__(self, s):
        if isinstance(s, Pt):
            return NotImplemented
        return Pt(s * a for a in self.c)


def asint(x):
    """python int for integral values (control points / weights given as plain ints)"""
    return int(x) if isinstance(x, F) and x.denominator == 1 else x


def pipeline(conv, U, P, W, args, npf=False, ints=False):
    """returns an ordered dict name -> result of the real library (raw objects)"""
    out = {}
    mk = (lambda x: np.float64(float(x))) if npf else conv
    mkp = (lambda x: asint(x)) if ints else mk
    Ui = [mk(x) for x in U]
    scalar = all(len(q) == 1 for q in P)
    Pi = [mkp(q[0]) if scalar else np.array([mkp(x) for x in q], dtype=object if conv is ident else float) for q in P]
    Wi = None if W is None else [mkp(w) for w in W]
    curve = Curve(Ui, Pi, Wi)
    us = [mk(u) for u in args["us"]]
    out["eval"] = [curve(u) for u in us]
    f = Function(Ui)
    if Wi is not None:
        f.weights = Wi
    out["basis"] = [f(u) for u in us]
    c1 = copy(curve)
    c1.knot_insert([mk(x) for x in args["nodes"]])
    out["insert"] = c1
    c2 = copy(c1)
    c2.knot_remove([mk(x) for x in args["nodes"]])
    out["remove"] = c2
    c3 = copy(curve)
    c3.degree_increase(1)
    out["elevate"] = c3
    c4 = copy(c3)
    c4.degree_decrease(1)
    out["reduce"] = c4
    pieces = curve.split([mk(args["cut"])])
    out["split0"], out["split1"] = pieces[0], pieces[-1]
    out["join"] = pieces[0] | pieces[-1]
    VB = [mk(x) for x in args["VB"]]
    B = Curve(VB, [mk(q[0]) for q in args["PB"]])
    out["add"] = curve + Curve(VB, [mk(q[0]) if scalar else np.array([mk(q[0])] * len(P[0]), dtype=object if conv is ident else float) for q in args["PB"]]) if W is None else curve + curve
    if scalar and W is None:
        out["mul"] = curve * B
    out["div"] = curve / B
    S = Curve([mk(x) for x in args["S"]])
    if W is None:
        S.fit_curve(curve)
        out["fitcurve"] = S
    T = Curve(Ui)
    if Wi is not None:
        T.weights = Wi
    T.fit_points([curve(u) for u in [mk(z) for z in args["fitnodes"]]], [mk(z) for z in args["fitnodes"]])
    out["fitpoints"] = T
    if scalar and W is None:
        out["integral"] = Integrate.scalar(curve)
    return out


def ident(x):
    return x


def canon(v):
    if isinstance(v, Curve):
        return ("curve",) + curve_state(v)
    if isinstance(v, (list, tuple)) and v and isinstance(v[0], (list, tuple, np.ndarray)) and not isinstance(v[0], (str,)):
        return tuple(pt_canon(x) for x in v)
    if isinstance(v, (list, tuple)):
        return tuple(pt_canon(x) for x in v)
    return pt_canon(v)


def floats_in(v):
    if isinstance(v, Curve):
        return has_float(list(v.knotvector)) or has_float(v.ctrlpoints) or has_float(v.weights)
    return has_float(v)


def near(a, b, rel=F(1, 10**9)):
    if isinstance(a, tuple) and isinstance(b, tuple):
        if len(a) != len(b):
            return False
        return all(near(x, y, rel) for x, y in zip(a, b))
    if a is None or b is None or isinstance(a, str) or isinstance(b, str):
        return a == b
    return close(a, b, rel)


def scale_of(x):
    if isinstance(x, tuple):
        return max([F(1)] + [scale_of(y) for y in x])
    if x is None or isinstance(x, str):
        return F(1)
    return abs(x)


def near_scaled(a, b, s, rel=F(1, 10**9)):
    if isinstance(a, tuple) and isinstance(b, tuple):
        return len(a) == len(b) and all(near_scaled(x, y, s, rel) for x, y in zip(a, b))
    if a is None or b is None or isinstance(a, str) or isinstance(b, str):
        return a == b
    return abs(frac(a) - frac(b)) <= rel * s


def model_outputs(drv, U, P, W, args):
    A = curve_args(U, P, W)
    scalar = all(len(q) == 1 for q in P)
    out = {}
    out["eval"] = tup(drv.call("curve.eval", *A, args["us"])[1])
    p = kv_info(U)[0]
    out["basis"] = tuple(tuple(drv.call("basis.eval", U, W, p, u)[1]) for u in args["us"])
    m = drv.call("curve.insert", *A, args["nodes"])
    out["insert"] = ("curve",) + model_curve_state(m[1])
    out["remove"] = ("curve",) + model_curve_state(drv.call("curve.remove", *curve_args(*model_curve_state(m[1])), args["nodes"], F(1, 10**9))[1])
    m = drv.call("curve.deginc", *A, 1)
    out["elevate"] = ("curve",) + model_curve_state(m[1])
    out["reduce"] = ("curve",) + model_curve_state(drv.call("curve.degdec", *curve_args(*model_curve_state(m[1])), 1, F(1, 10**9))[1])
    m = drv.call("curve.split", *A, [args["cut"]])
    out["split0"] = ("curve",) + model_curve_state(m[1][0])
    out["split1"] = ("curve",) + model_curve_state(m[1][-1])
    out["join"] = ("curve",) + model_curve_state(drv.call("curve.join", *curve_args(*model_curve_state(m[1][0])), *curve_args(*model_curve_state(m[1][-1])))[1])
    B = (args["VB"], [list(q) for q in args["PB"]], None)
    if W is None:
        Bd = (args["VB"], [list(q) if scalar else [q[0]] * len(P[0]) for q in args["PB"]], None)
        out["add"] = ("curve",) + model_curve_state(drv.call("curve.bin", "add", *A, *Bd)[1])
    else:
        out["add"] = ("curve",) + model_curve_state(drv.call("curve.bin", "add", *A, *A)[1])
    if scalar and W is None:
        out["mul"] = ("curve",) + model_curve_state(drv.call("curve.bin", "mul", *A, *B)[1])
    out["div"] = ("curve",) + model_curve_state(drv.call("curve.bin", "div", *A, *B)[1])
    if W is None:
        out["fitcurve"] = ("curve",) + model_curve_state(drv.call("curve.fitcurve", args["S"], None, None, *A, None)[1][0])
    pts = drv.call("curve.eval", *A, args["fitnodes"])[1]
    out["fitpoints"] = ("curve",) + model_curve_state(drv.call("curve.fitpoints", U, None, W, pts, args["fitnodes"])[1])
    if scalar and W is None:
        out["integral"] = tuple(drv.call("curve.integ", *A, None, 0)[1])
    return out


def run_integral(ctx, case, c):
    """the default integration of exact data on curves that jump at an interior knot (multiplicity degree+1, or degree 0 with several
    spans): the exact value is sum_i P_i (u_(i+p+1) - u_i)/(p+1); a rule that samples the span ends would read the wrong side"""
    rec = ctx["rec"]
    U, P = c["U"], [tuple(q) for q in c["P"]]
    p, n, knots = kv_info(U)
    rec.case(case, nontrivial=True)
    rec.count("data", "integral-discontinuous")
    curve = make_curve(U, P, None)
    r = impl(lambda: Integrate.scalar(curve))
    want = sum(P[i][0] * (U[i + p + 1] - U[i]) / (p + 1) for i in range(n))
    l3(rec, "closed-form-integral")
    if r[0] != "ok":
        rec.violation("default integration raised on exact data", case, observed=r[1])
    elif has_float(r[1]):
        rec.violation("float introduced by the default integration of exact data", case)
    elif frac(r[1]) != want:
        rec.violation("default integration of exact data is not the exact integral", case, observed=str(r[1]), expected=str(want))


def run_case(ctx, case):
    rec, drv = ctx["rec"], ctx["drv"]
    c = de(case)
    if c["kind"] == "custom":
        return run_custom(ctx, case, c)
    if c["kind"] == "integral":
        return run_integral(ctx, case, c)
    U, P, W, args = c["U"], [tuple(q) for q in c["P"]], c["W"], c["args"]
    rec.case(case, nontrivial=nontrivial_kv(U))
    rec.count("data", c.get("label", "?"))
    if c.get("label") == "dyadic":
        # float data first: whatever the library memoises for these (numerically equal) knot vectors is now float
        impl(lambda: pipeline(float, U, P, W, args, False))
    r = impl(lambda: pipeline(ident, U, P, W, args, ints=(c.get("label") == "int")))
    if r[0] != "ok":
        rec.violation("pipeline raised on exact data", case, observed=r[1])
        return
    exact = r[1]
    want = model_outputs(drv, U, P, W, args)
    cx = {}
    for name, v in exact.items():
        l3(rec, "type+exact")
        if floats_in(v):
            rec.violation("float introduced by '%s' on Fraction/int data" % name, case)
            return
        cx[name] = canon(v)
        same = cx[name] == want[name]
        l2(rec, "c16." + name, case, cx[name], want[name], same)
        if not same:
            rec.violation("'%s' on exact data is not the mathematically exact result" % name, case, observed=ser(cx[name]), expected=ser(want[name]))
            return
    # exact data only: parameters closer to a knot than double precision can tell (10^-20): ordering decisions must be exact too
    hp = hair_params(U)
    if hp:
        hc = make_curve(U, P, W)
        hv = impl(lambda: [pt_canon(hc(u)) for u in hp])
        hd = drv.call("curve.def", *curve_args(U, P, W), hp)
        l3(rec, "curve.def-hair")
        rec.count("hair", "params")
        if hv[0] != "ok" or hd[0] != "ok" or [tuple(x) for x in hv[1]] != [tuple(x) for x in tup(hd[1])]:
            rec.violation("evaluation next to a knot (exact parameter within 1e-20) is not the mathematically exact result", case,
                          observed=ser(hv[1]) if hv[0] == "ok" else str(hv[1])[:200], expected=ser(hd[1]) if hd[0] == "ok" else str(hd))
            return
    if c.get("label") in ("big", "highdeg"):
        return          # exact half only (high degrees: the float solves are not in the well-conditioned class)
    for rep, npf in (("float", False), ("npfloat", True)):
        r = impl(lambda: pipeline(float, U, P, W, args, npf))
        if r[0] != "ok":
            rec.violation("pipeline raised on %s data" % rep, case, observed=r[1])
            return
        # the float run works on the rounded inputs: compare with the exact outputs, relative to the size of each output
        for name, v in r[1].items():
            rec.count("floatcmp", name)
            got = canon(v)
            if not near_scaled(got, cx[name], scale_of(cx[name]), F(1, 10**8)):
                rec.violation("'%s' on %s data differs from the exact result by more than rounding" % (name, rep), case, observed=ser(got), expected=ser(cx[name]))
                return
    rerun_exact(ctx, case, c, U, P, W, args, cx)


def rerun_exact(ctx, case, c, U, P, W, args, cx):
    """after the float runs, the exact run must give the very same exact answers (no float state may leak through caches)"""
    rec = ctx["rec"]
    r = impl(lambda: pipeline(ident, U, P, W, args, ints=(c.get("label") == "int")))
    if r[0] != "ok":
        rec.violation("exact pipeline raised when repeated after the float runs", case, observed=r[1])
        return
    for name, v in r[1].items():
        rec.count("rerun", name)
        if floats_in(v):
            rec.violation("float introduced by '%s' on exact data after the same operation ran on float data" % name, case)
            return
        if canon(v) != cx[name]:
            rec.violation("'%s' on exact data changed after the same operation ran on float data" % name, case,
                          observed=ser(canon(v)), expected=ser(cx[name]))
            return


def run_custom(ctx, case, c):
    rec = ctx["rec"]
    U, P = c["U"], [tuple(q) for q in c["P"]]
    rec.case(case, nontrivial=nontrivial_kv(U))
    rec.count("data", "custom-point")
    p, n, knots = kv_info(U)
    ref = make_curve(U, P, None)
    r = impl(lambda: Curve(list(U), [Pt(q) for q in P]))
    if r[0] != "ok":
        rec.violation("control points supporting only + and scalar* were rejected", case, observed=r[1])
        return
    cp = r[1]
    a, b = U[0], U[-1]
    def same(cu, rf):
        for u in params_for(ctx["rng"], [frac(x) for x in rf.knotvector], extra=1):
            v = cu(u)
            if not isinstance(v, Pt) or tuple(frac(x) for x in v.c) != pt_canon(rf(u)):
                return False
        return True
    steps = [("evaluation", lambda: None, lambda: None),
             ("insertion", lambda: cp.knot_insert([a + (b - a) * F(3, 7)]), lambda: ref.knot_insert([a + (b - a) * F(3, 7)])),
             ("elevation", lambda: cp.degree_increase(1), lambda: ref.degree_increase(1))]
    for name, f1, f2 in steps:
        r = impl(f1)
        f2()
        if r[0] != "ok":
            rec.violation("%s needs more than point+point and scalar*point" % name, case, observed=r[1])
            return
        if not same(cp, ref):
            rec.violation("%s with the minimal point type gives a different curve" % name, case)
            return
    r = impl(lambda: cp.split([a + (b - a) * F(1, 2)]))
    rr = ref.split([a + (b - a) * F(1, 2)])
    if r[0] != "ok":
        rec.violation("splitting needs more than point+point and scalar*point", case, observed=r[1])
        return
    for x, y in zip(r[1], rr):
        if not same(x, y):
            rec.violation("splitting with the minimal point type gives different pieces", case)
            return


def wellcond_kv(rng, p, nint, interval):
    a, b = interval
    vals = sorted(rng.sample(GRID, nint))
    U = [a] * (p + 1)
    for v in vals:
        U += [a + (b - a) * v] * rng.randint(1, max(1, p))
    return U + [b] * (p + 1)


def run(ctx):
    rng = ctx["rng"]
    for i in range(budget(ctx, 10, 100)):
        p_ = rng.randint(0, 3)
        a_, b_ = rand_interval(rng)
        inner = sorted(rng.sample(GRID, rng.randint(1, 3)))
        U = [a_] * (p_ + 1)
        for j, x in enumerate(inner):
            U += [a_ + (b_ - a_) * x] * (p_ + 1 if j == 0 else rng.randint(1, p_ + 1))
        U += [b_] * (p_ + 1)
        run_case(ctx, ser(dict(kind="integral", U=U, P=rand_points(rng, kv_info(U)[1], 1))))
    nmain = budget(ctx, 30, 400)
    nhigh = budget(ctx, 5, 40)
    for i in range(nmain + nhigh):
        label = ["fraction", "int", "dyadic", "big", "int", "fraction"][i % 6] if i < nmain else "highdeg"
        interval = rng.choice([(F(0), F(1)), (F(-1), F(2)), (F(1, 3), F(7, 3))])
        p = rng.randint(1, 3)
        U = wellcond_kv(rng, p, rng.randint(0, 2), interval)
        if label == "highdeg":
            # degrees whose least-squares / quadrature rules have 8 and more nodes (exact arithmetic far beyond the tabulated sizes)
            p = [4, 5, 7, 4, 8][(i - nmain) % 5]
            U = wellcond_kv(rng, p, 1 if p <= 5 else 0, interval)
        if label == "dyadic":
            # knots that are exactly representable as floats: the float and the exact run see numerically equal knot vectors
            interval = (F(0), F(1))
            U = [F(0)] * (p + 1) + sorted(rng.sample([F(1, 4), F(1, 2), F(3, 4)], rng.randint(0, 2))) + [F(1)] * (p + 1)
        n = kv_info(U)[1]
        dim = rng.choice([1, 1, 2])
        if label == "int":
            P = rand_points(rng, n, dim, ints=True)
            W = [F(rng.randint(1, 5)) for _ in range(n)] if i % 2 == 1 else None     # python-int weights every other int case
        elif label == "big":
            P = rand_points(rng, n, dim, big=True)
            W = None
        elif label == "highdeg":
            P = rand_points(rng, n, 1)
            W = None
        else:
            P = rand_points(rng, n, dim if label != "dyadic" else 1)
            W = rng.choice([None, None, [F(rng.randint(2, 50), 10) for _ in range(n)]]) if label != "dyadic" else None
        a, b = interval
        nodes = []
        for _ in range(rng.randint(1, 2)):
            x = a + (b - a) * rng.choice(GRID)
            if U.count(x) + nodes.count(x) < p + 1:
                nodes.append(x)
        if not nodes:
            continue
        VB = wellcond_kv(rng, rng.randint(1, 2), rng.randint(0, 1), interval)
        if label == "dyadic":
            q = rng.randint(1, 2)
            VB = [F(0)] * (q + 1) + rng.choice([[], [F(1, 2)]]) + [F(1)] * (q + 1)
        args = dict(us=params_for(rng, U, extra=2), nodes=nodes, cut=a + (b - a) * rng.choice(GRID), VB=VB,
                    PB=[(F(rng.randint(2, 9), rng.randint(1, 3)),) for _ in range(kv_info(VB)[1])],
                    S=wellcond_kv(rng, rng.randint(1, 3), rng.randint(0, 2), interval),
                    fitnodes=sorted(set([a, b] + [x + (y - x) * F(2 * k + 1, 2 * (p + 2)) for x, y in zip(sorted(set(U))[:-1], sorted(set(U))[1:]) for k in range(p + 2)])))
        run_case(ctx, ser(dict(kind="pipeline", label=label, U=U, P=P, W=W, args=args)))
    for i in range(budget(ctx, 15, 150)):
        U = rand_kv(rng, pmax=3, nintmax=2)
        run_case(ctx, ser(dict(kind="custom", U=U, P=rand_points(rng, kv_info(U)[1], 2))))
