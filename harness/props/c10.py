"""C10 — quadrature rules are exact to their order; spline integrals are exact."""
from common import *  # noqa: F401,F403
import math

RULE = ("all four rule families for every size n <= 12 (quick) / 18 (thorough); random request orders replayed in fresh interpreter processes "
        "(the memo tables are module globals); Integrate.scalar on random polynomial spline curves (Fraction and float data, integer control points as python ints / numpy int arrays, default and explicit "
        "rules), Integrate.function on per-span polynomials of degree < nnodes (degree < 2n for Gauss-Legendre), Integrate.lenght of random polylines.  "
        "Non-trivial: n >= 3 or a curve with an interior knot; distinct = distinct (family, n) / request orders / curves."
        " Also: request histories with weights-before-nodes and nodes-before-weights, discontinuous polylines for lenght, closed rule on float knots; lenght asked again after the caller moved the vertices in place.")
EXPLANATION = ("L3: the moment conditions sum_i w_i x_i^k = 1/(k+1) are evaluated exactly (Fraction rules) or to 1e-10 (float rules) on the rules the "
               "library returns, nodes increasing in [0,1], weights summing to 1; spline integrals are compared with the exact integral of the span "
               "polynomials (`rf.integral`) and with the closed form.  L2: closed/open rules and memoised request sequences vs the Lean model "
               "(weights from nodes through the Bernstein collocation inverse, memo tables as explicit state).")
ASSUMPTIONS = ["Chebyshev / Gauss-Legendre nodes are irrational: float rules are validated to 1e-10, the weights-from-nodes map is what is modelled"]

FAMS = {
    "closed": (heavy.NodeSample.closed_linspace, heavy.IntegratorArray.closed_newton_cotes, 2),
    "open": (heavy.NodeSample.open_linspace, heavy.IntegratorArray.open_newton_cotes, 1),
    "chebyshev": (heavy.NodeSample.chebyshev, heavy.IntegratorArray.chebyshev, 1),
    "gauss": (heavy.NodeSample.gauss_legendre, heavy.IntegratorArray.gauss_legendre, 1),
}
METHOD = {"closed": "closed-newton-cotes", "open": "open-newton-cotes", "chebyshev": "chebyshev", "gauss": "gauss-legendre"}


def check_rule(rec, case, fam, n, nodes, weights):
    """moment conditions, ordering, weight sum on a rule returned by the library"""
    exact = fam in ("closed", "open")
    xs = [frac(x) for x in nodes]
    ws = [frac(w) for w in weights]
    tol = 0 if exact else F(1, 10**10)
    if len(xs) != n or len(ws) != n:
        rec.violation("%s(%d): wrong number of nodes/weights" % (fam, n), case)
        return
    if any(not (0 <= x <= 1) for x in xs) or any(a >= b for a, b in zip(xs[:-1], xs[1:])):
        rec.violation("%s(%d): nodes are not increasing in [0,1]" % (fam, n), case, nodes=ser(xs))
    if abs(sum(ws) - 1) > tol:
        rec.violation("%s(%d): weights do not sum to 1" % (fam, n), case, total=str(sum(ws)))
    order = 2 * n if fam == "gauss" else n
    for k in range(order):
        mom = sum(w * x**k for w, x in zip(ws, xs))
        if abs(mom - F(1, k + 1)) > tol:
            rec.violation("%s(%d): not exact for x^%d" % (fam, n, k), case, moment=str(mom), expected=str(F(1, k + 1)))
            return


SUBPROC = r'''
import sys, json, warnings
warnings.filterwarnings("ignore")
sys.path.insert(0, %r)
from fractions import Fraction as F
from compmec.nurbs import heavy
FAMS = {"closed": (heavy.NodeSample.closed_linspace, heavy.IntegratorArray.closed_newton_cotes),
        "open": (heavy.NodeSample.open_linspace, heavy.IntegratorArray.open_newton_cotes),
        "chebyshev": (heavy.NodeSample.chebyshev, heavy.IntegratorArray.chebyshev),
        "gauss": (heavy.NodeSample.gauss_legendre, heavy.IntegratorArray.gauss_legendre)}
out = []
for fam, n, first in json.loads(sys.argv[1]):
    nf, wf = FAMS[fam]
    if first == "w":
        ws = wf(n); xs = nf(n)       # weights first: fills the memo before the nodes are asked
    else:
        xs = nf(n); ws = wf(n)
    out.append([[str(F(x)) for x in xs], [str(F(w)) for w in ws]])
print(json.dumps(out))
'''


def run_case(ctx, case):
    rec, drv = ctx["rec"], ctx["drv"]
    c = de(case)
    kind = c["kind"]
    rec.count("kind", kind)
    if kind == "rule":
        fam, n = c["fam"], int(c["n"])
        rec.case(case, nontrivial=n >= 3)
        nf, wf, _ = FAMS[fam]
        r = impl(lambda: (nf(n), wf(n)))
        if r[0] != "ok":
            rec.violation("%s(%d) raised" % (fam, n), case, observed=r[1])
            return
        nodes, weights = r[1]
        l3(rec, "moments")
        check_rule(rec, case, fam, n, nodes, weights)
        if fam in ("closed", "open"):
            m = drv.call("quad.fresh", 1 if fam == "closed" else 0, n)
            mn = drv.call("quad.nodes", 1 if fam == "closed" else 0, n)
            ok = m[0] == "ok" and list(m[1]) == [frac(w) for w in weights] and list(mn[1]) == [frac(x) for x in nodes]
            l2(rec, "quad." + fam, case, [ser(nodes), ser(weights)], m, ok)
            if not all(isinstance(w, (F, int)) for w in weights):
                rec.violation("%s(%d): weights are not exact rationals" % (fam, n), case)
        elif fam == "chebyshev":
            want = [F(math.sin(0.5 * math.pi * float(F(2 * i + 1, 2 * n))) ** 2) for i in range(n)] if n > 1 else [F(1, 2)]
            if any(abs(frac(x) - w) > F(1, 10**14) for x, w in zip(nodes, want)):
                rec.violation("chebyshev(%d): nodes are not sin^2(pi(2i+1)/(4n))" % n, case)
            m = drv.call("quad.fromnodes", [frac(x) for x in nodes])
            ok = m[0] == "ok" and all(abs(frac(w) - v) <= F(1, 10**8) * max(1, abs(v)) for w, v in zip(weights, m[1]))
            l2(rec, "quad.chebyshev", case, ser(weights), m, ok)
        return
    if kind == "order":
        import subprocess
        reqs = [(q[0], int(q[1]), (q[2] if len(q) > 2 else ("w" if q[0] in ("closed", "open") else "n"))) for q in c["reqs"]]
        rec.case(case, nontrivial=True)
        p = subprocess.run(["/venv/bin/python", "-c", SUBPROC % REPO_SRC, json.dumps(reqs)], stdout=subprocess.PIPE,
                           stderr=subprocess.PIPE, text=True, timeout=300)
        if p.returncode != 0:
            rec.violation("request sequence raised in a fresh interpreter", case, stderr=p.stderr[-400:])
            return
        outs = json.loads(p.stdout)
        drv.call("quad.reset")
        for (fam, n, first), (xs, ws) in zip(reqs, outs):
            xs, ws = [F(x) for x in xs], [F(w) for w in ws]
            l3(rec, "moments-after-history")
            before = len(rec.violations)
            check_rule(rec, case, fam, n, xs, ws)
            if len(rec.violations) > before:
                rec.violations[-1]["what"] += " (%s first, after earlier requests %s)" % (
                    "weights" if first == "w" else "nodes", reqs[: reqs.index((fam, n, first))],)
                return
            if fam in ("closed", "open"):
                m = drv.call("quad.rule", 1 if fam == "closed" else 0, n)
                l2(rec, "quad.rule(memo)", case, ser(ws), m, m[0] == "ok" and list(m[1]) == ws)
        return
    if kind == "scalar":
        U, P, rep, method, nn = c["U"], [tuple(p) for p in c["P"]], c["rep"], c["method"], c["nnodes"]
        p, n, knots = kv_info(U)
        rec.case(case, nontrivial=nontrivial_kv(U))
        conv = (lambda x: x) if rep in ("fraction", "intpoints", "npintpoints") else float
        Ui = [conv(x) for x in U]
        Pi = [tuple(conv(x) for x in q) for q in P]
        Ue, Pe = [frac(x) for x in Ui], [tuple(frac(x) for x in q) for q in Pi]
        if rep == "intpoints":
            curve = Curve(Ui, [int(q[0]) for q in P])                       # python ints as control points
        elif rep == "npintpoints":
            curve = Curve(Ui, np.array([int(q[0]) for q in P]))             # an integer numpy array
        else:
            curve = make_curve(Ui, Pi, None)
        rec.count("rep", rep)
        if rep != "float":
            for tw in mixed_twins(Ue, Pe, None):      # numerically equal python-int / float knots first
                impl(lambda: Integrate.scalar(tw))
                rec.count("twin", "mixed-knot-types-first")
        start = curve_state(curve)
        kwargs = {}
        if method is not None:
            kwargs["method"] = METHOD[method]
        if nn is not None:
            kwargs["nnodes"] = int(nn)
        r = impl(lambda: Integrate.scalar(curve, **kwargs))
        if curve_state(curve) != start:
            rec.violation("Integrate.scalar modified the curve", case)
        if r[0] != "ok":
            rec.violation("Integrate.scalar raised", case, observed=r[1])
            return
        got = pt_canon(r[1])
        ex = drv.call("rf.integral", Ue, [list(q) for q in Pe], None)
        l3(rec, "rf.integral")
        closed_form = tuple(sum(Pe[i][d] * (Ue[i + p + 1] - Ue[i]) / (p + 1) for i in range(n)) for d in range(len(Pe[0])))
        if ex[0] != "ok" or tuple(ex[1]) != closed_form:
            rec.mismatch("rf.integral vs closed form (internal)", case, ex, closed_form)
        exact = rep in ("fraction", "intpoints", "npintpoints") and method in (None, "open", "closed")
        ok = (got == closed_form) if exact else pts_close([got], [closed_form], F(1, 10**9))
        if not ok:
            rec.violation("Integrate.scalar differs from sum P_i (u_(i+p+1)-u_i)/(p+1)", case, observed=ser(got), expected=ser(closed_form))
        if exact and has_float(r[1]):
            rec.violation("float introduced by the default exact rule", case)
        if method in (None, "open") and rep in ("fraction", "intpoints", "npintpoints"):
            m = drv.call("curve.integ", Ue, [list(q) for q in Pe], None, nn, 0)
            l2(rec, "curve.integ", case, got, m, m[0] == "ok" and tuple(m[1]) == got)
        return
    if kind == "function":
        U, coefs, method, nn, rep = c["U"], c["coefs"], c["method"], int(c["nnodes"]), c["rep"]
        rec.case(case, nontrivial=True)
        conv = (lambda x: x) if rep == "fraction" else float
        kv = KnotVector([conv(x) for x in U])
        knots = sorted(set(frac(x) for x in kv))
        # a per-span polynomial: coefficient list per span
        def f(u):
            uu = frac(u)
            z = max(i for i, k in enumerate(knots[:-1]) if k <= uu) if uu < knots[-1] else len(knots) - 2
            return sum(conv(cf) * u**k for k, cf in enumerate(coefs[z]))
        r = impl(lambda: Integrate.function(kv, f, METHOD[method], nn))
        if r[0] != "ok":
            rec.violation("Integrate.function raised", case, observed=r[1])
            return
        want = sum(sum(cf * (b**(k + 1) - a**(k + 1)) / (k + 1) for k, cf in enumerate(coefs[z]))
                   for z, (a, b) in enumerate(zip(knots[:-1], knots[1:])))
        l3(rec, "exact-antiderivative")
        exact = rep == "fraction" and method in ("open",)
        ok = (frac(r[1]) == want) if exact else close(r[1], want, F(1, 10**9))
        if not ok:
            rec.violation("Integrate.function is not exact for per-span polynomials of degree < nnodes", case, observed=str(frac(r[1])), expected=str(want))
        return
    if kind == "length":
        U, P, rep = c["U"], [tuple(p) for p in c["P"]], c["rep"]
        rec.case(case, nontrivial=len(U) > 4)
        conv = (lambda x: x) if rep == "fraction" else float
        curve = Curve([conv(x) for x in U], [np.array([float(x) for x in q]) for q in P])
        start = curve_state(curve)
        r = impl(lambda: Integrate.lenght(curve))
        if curve_state(curve) != start:
            rec.violation("Integrate.lenght modified the curve", case)
        if r[0] != "ok":
            rec.violation("Integrate.lenght raised", case, observed=r[1])
            return
        # the segment on the non-empty span [U[i], U[i+1]) joins P[i-1] and P[i]; a double interior knot is a jump, not a segment
        want = sum(math.sqrt(sum((float(a) - float(b)) ** 2 for a, b in zip(P[i - 1], P[i])))
                   for i in range(1, len(P)) if U[i] < U[i + 1])
        l3(rec, "segment-lengths")
        if abs(float(r[1]) - want) > 1e-9 * max(1.0, want):
            rec.violation("Integrate.lenght of a polyline is not the sum of its segment lengths", case, observed=float(r[1]), expected=want)
            return
        # the answer belongs to the polyline as it is now, not as it was at an earlier request: the caller moves the vertices (the
        # curve holds the caller's point arrays, evaluation follows them) and asks again, also with another rule
        pts_now = list(curve.ctrlpoints)
        for k, q in enumerate(pts_now):
            q *= (k % 3) + 1.5
        Q = [tuple(float(x) for x in q) for q in pts_now]
        want2 = sum(math.sqrt(sum((a - b) ** 2 for a, b in zip(Q[i - 1], Q[i]))) for i in range(1, len(Q)) if U[i] < U[i + 1])
        for args in ((), (None, "gauss-legendre", 3)):
            r2 = impl(lambda: Integrate.lenght(curve, *args))
            l3(rec, "segment-lengths-after-moving-vertices")
            if r2[0] != "ok" or abs(float(r2[1]) - want2) > 1e-9 * max(1.0, want2):
                rec.violation("Integrate.lenght after the vertices were moved in place is not the length of the present polyline", case,
                              observed=str(r2[1]), expected=want2, first_answer=float(r[1]))
                return


def run(ctx):
    rng = ctx["rng"]
    nmax = budget(ctx, 12, 18)
    for fam, (_, _, lo) in FAMS.items():
        for n in range(lo, nmax + 1):
            run_case(ctx, ser(dict(kind="rule", fam=fam, n=n)))
    for i in range(budget(ctx, 6, 40)):
        reqs = [(rng.choice(list(FAMS)), rng.randint(2, 9), rng.choice(["w", "n"])) for _ in range(rng.randint(4, 10))]
        run_case(ctx, ser(dict(kind="order", reqs=reqs)))
    # corpus: closed rule on float knots where start + (end - start) * 1.0 rounds above the last knot (repaired)
    run_case(ctx, ser(dict(kind="scalar", U=[F(-5, 3)] * 3 + [F(-41, 30)] * 2 + [F(4, 3)] * 3,
                           P=[(F(-5, 3),), (F(-6),), (F(0),), (F(-1, 7),), (F(10, 3),)], rep="float", method="closed", nnodes=None)))
    for i in range(budget(ctx, 60, 800)):
        U = rand_kv(rng, pmax=4, nintmax=3)
        if i % 7 == 4:
            U = rand_int_kv(rng, pmax=3, nintmax=2) if rng.random() < 0.5 else rand_dyadic_kv(rng, pmax=3, nintmax=2)
        p, n, _ = kv_info(U)
        P = rand_points(rng, n, 1)      # Integrate.scalar is defined for scalar-valued curves
        rep = rng.choice(["fraction", "fraction", "float"])
        method = rng.choice([None, None, None, "open", "gauss", "chebyshev", "closed"])
        if method == "closed" and any(U.count(k) == p + 1 for k in set(U) if U[0] < k < U[-1]):
            method = None      # closed rule on a discontinuous curve is not covered by the statement
        if method == "closed" and p == 0:
            method = None
        nn = None if rng.random() < 0.7 else p + 1 + rng.randint(0, 3)
        if i % 6 == 2:
            # integer control points (python ints / an integer numpy array) on Fraction knots: the integral is not an integer
            rep = rng.choice(["intpoints", "npintpoints"])
            P = [(F(rng.randint(-9, 9)),) for _ in range(n)]
        run_case(ctx, ser(dict(kind="scalar", U=U, P=P, rep=rep, method=method, nnodes=nn)))
    for i in range(budget(ctx, 40, 500)):
        U = rand_kv(rng, pmax=3, nintmax=3)
        method = rng.choice(["open", "open", "closed", "gauss", "chebyshev"])
        nn = rng.randint(2, 6)
        deg = (2 * nn if method == "gauss" else nn) - 1
        spans = len(set(U)) - 1
        coefs = [[rand_rat(rng) for _ in range(rng.randint(1, deg + 1))] for _ in range(spans)]
        if method == "closed":
            coefs = [coefs[0]] * spans     # closed nodes sit on span ends: use one global polynomial
        run_case(ctx, ser(dict(kind="function", U=U, coefs=coefs, method=method, nnodes=nn, rep=rng.choice(["fraction", "float"]))))
    for i in range(budget(ctx, 30, 300)):
        nseg = rng.randint(1, 5)
        ks = sorted(rng.sample(GRID, nseg - 1))
        if i % 3 == 2:
            ks = sorted(ks + [k for k in ks if rng.random() < 0.6])      # double interior knots: the polyline jumps there
        U = [F(0), F(0)] + ks + [F(1), F(1)]
        P = rand_points(rng, len(ks) + 2, rng.choice([2, 3]), ints=True)
        run_case(ctx, ser(dict(kind="length", U=U, P=P, rep=rng.choice(["fraction", "float"]))))
