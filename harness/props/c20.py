"""C20 — Intersection returns exactly the parameter pairs where the curves meet."""
from common import *  # noqa: F401,F403
from props.c15 import with_timeout, Timeout
import math

RULE = ("random pairs of planar segments and polylines (1..4 segments each, float data): transversal crossings strictly inside segments "
        "(several per pair), disjoint pairs with overlapping and with disjoint bounding boxes; a few degree-2/3 and rational pairs (soundness "
        "conditions only).  Non-trivial: more than one segment on a side or at least one crossing; distinct = distinct (A, B)."
        " Also: single-span operands that clean() could reduce; the same pairs translated far from the origin (offsets 1e4..2.5e5); weighted polylines (degree 1, positive weights: same crossing points); the planar figures embedded in planes of 3-space; a vertex of A on a double point of B (soundness and no duplicates).")
EXPLANATION = ("L3: the exact crossing oracle (`geom.cross`, Cramer over Q on every pair of segments) lists all meeting pairs and classifies the "
               "pair as transversal / touching / degenerate; every returned pair is re-evaluated (|A(t)-B(u)| <= 1e-6, inside both intervals, no "
               "duplicates), disjoint curves must give the empty tuple, and every transversal crossing must be present.")
ASSUMPTIONS = ["float Newton iteration: validated per input, not proved; completeness asserted for transversal polyline crossings only"]


def run_case(ctx, case):
    rec, drv = ctx["rec"], ctx["drv"]
    c = de(case)
    A = (c["A"]["U"], [tuple(q) for q in c["A"]["P"]], c["A"].get("W"))
    B = (c["B"]["U"], [tuple(q) for q in c["B"]["P"]], c["B"].get("W"))
    rec.count("label", c.get("label", "?"))

    lift = c.get("lift")        # an injective affine map R^2 -> R^3: the same figure in a plane of space, same meeting parameters

    def up(q):
        if lift is None:
            return q
        (m, off) = lift
        return tuple(sum(m[r][k] * q[k] for k in range(2)) + off[r] for r in range(3))

    def mk(X):
        return Curve([float(x) for x in X[0]], [np.array([float(x) for x in up(q)]) for q in X[1]], None if X[2] is None else [float(w) for w in X[2]])
    ca, cb = mk(A), mk(B)
    sa, sb = curve_state(ca), curve_state(cb)
    if lift is not None:
        # the exact oracle works on the planar figure (float images of the planar data)
        pa_ = curve_state(Curve([float(x) for x in A[0]], [np.array([float(x) for x in q]) for q in A[1]]))
        pb_ = curve_state(Curve([float(x) for x in B[0]], [np.array([float(x) for x in q]) for q in B[1]]))
    else:
        pa_, pb_ = sa, sb
    poly = kv_info(A[0])[0] == 1 and kv_info(B[0])[0] == 1 and A[2] is None and B[2] is None
    expected = None
    if poly:
        o = drv.call("geom.cross", list(pa_[0]), [list(q) for q in pa_[1]], None, list(pb_[0]), [list(q) for q in pb_[1]], None)
        l3(rec, "geom.cross")
        degenerate, touching, pairs = o[1]
        expected = [(float(t), float(u)) for t, u in pairs]
        rec.count("class", "degenerate" if degenerate else ("touching" if touching else ("crossing" if pairs else "disjoint")))
        if degenerate:
            rec.case(case, nontrivial=False)
            return          # outside the guaranteed classes
        if touching or c.get("soundness_only"):
            # a meeting point on a vertex / an end of a segment (or, after rounding of decimal coordinates, within an ulp of one:
            # the exact oracle on the float images and the tolerance-based answer may then legitimately count differently): completeness is not demanded (not a transversal crossing strictly
            # inside two segments), but whatever is returned must still be inside the intervals, a meeting point, and free of duplicates
            expected = None
    # weighted polylines (degree 1, positive weights): the same point sets as the unweighted polylines, other parametrisation — the
    # crossings are the same points
    polyr = (not poly) and kv_info(A[0])[0] == 1 and kv_info(B[0])[0] == 1 and all(w > 0 for X in (A, B) if X[2] for w in X[2])
    expected_pts = None
    if polyr:
        o = drv.call("geom.cross", list(sa[0]), [list(q) for q in sa[1]], None, list(sb[0]), [list(q) for q in sb[1]], None)
        l3(rec, "geom.cross")
        degenerate, touching, pairs = o[1]
        rec.count("class", "weighted-" + ("degenerate" if degenerate else ("touching" if touching else ("crossing" if pairs else "disjoint"))))
        if degenerate or touching:
            rec.case(case, nontrivial=False)
            return
        expected_pts = []
        for t, _ in pairs:
            v = drv.call("curve.def", list(sa[0]), [list(q) for q in sa[1]], None, [t])
            expected_pts.append([float(x) for x in v[1][0]])
    rec.case(case, nontrivial=(len(A[1]) > 2 or len(B[1]) > 2 or bool(expected) or bool(expected_pts)))
    try:
        r = impl(lambda: with_timeout(lambda: Intersection.curve_and_curve(ca, cb), 60))
    except Timeout:
        rec.violation("curve_and_curve did not terminate within 60 s", case)
        return
    if curve_state(ca) != sa or curve_state(cb) != sb:
        rec.violation("curve_and_curve modified an operand", case)
    if r[0] != "ok":
        rec.violation("curve_and_curve raised", case, observed=r[1])
        return
    got = [(float(t), float(u)) for t, u in r[1]]
    l3(rec, "intersection-conditions")
    for t, u in got:
        if not (float(sa[0][0]) <= t <= float(sa[0][-1]) and float(sb[0][0]) <= u <= float(sb[0][-1])):
            rec.violation("returned pair outside the parameter intervals", case, pair=[t, u])
            return
        d = math.sqrt(sum((float(a) - float(b)) ** 2 for a, b in zip(ca(t), cb(u))))
        if d > 1e-6:
            rec.violation("returned pair is not a meeting point: |A(t)-B(u)| = %g" % d, case, pair=[t, u], returned=got)
            return
    for i in range(len(got)):
        for j in range(i + 1, len(got)):
            if abs(got[i][0] - got[j][0]) < 1e-9 and abs(got[i][1] - got[j][1]) < 1e-9:
                rec.violation("duplicate pairs returned", case, returned=got)
                return
    if expected_pts is not None:
        if not expected_pts and got:
            rec.violation("weighted polylines do not meet but pairs were returned", case, returned=got)
            return
        # completeness is NOT demanded here: the statement promises every crossing for straight segments and polylines, where the
        # meeting parameters come from a linear problem; a weighted polyline is not affinely parametrised and the unchanged library
        # itself misses crossings when the weights within a segment differ strongly (e.g. 8 : 2/3).  Counted, not judged.
        missed = sum(1 for X in expected_pts
                     if not any(math.sqrt(sum((float(a) - b) ** 2 for a, b in zip(ca(t), X))) < 1e-6 for t, _ in got))
        rec.count("weighted-polylines", "all-crossings-found" if missed == 0 else "crossing-missed (not judged)")
    if expected is not None:
        if not expected and got:
            rec.violation("curves do not meet but pairs were returned", case, returned=got)
            return
        for (t, u) in expected:
            if not any(abs(t - a) < 1e-6 and abs(u - b) < 1e-6 for a, b in got):
                rec.violation("a transversal crossing is missing", case, missing=[t, u], returned=got, expected=expected)
                return
        if len(got) != len(expected):
            rec.violation("more pairs than crossings", case, returned=got, expected=expected)


def polyline(rng, nseg, box):
    (x0, x1), (y0, y1) = box
    pts = []
    while len(pts) < nseg + 1:
        q = (F(rng.randint(4 * x0, 4 * x1), 4), F(rng.randint(4 * y0, 4 * y1), 4))
        if not pts or q != pts[-1]:
            pts.append(q)
    ks = sorted(rng.sample(GRID, nseg - 1)) if rng.random() < 0.5 else [F(k, nseg) for k in range(1, nseg)]
    return dict(U=[F(0), F(0)] + ks + [F(1), F(1)], P=pts, W=None)


def far(rng, A, B):
    """the same pair of curves translated far from the origin (coordinates much larger than the segments): the meeting parameters are
    the same, nothing in the answer may depend on where the curves sit in the plane"""
    ox, oy = rng.choice([(100000, 200000), (-30000, 45000), (12345, -54321), (250000, 0)])
    mv = lambda C: dict(U=C["U"], P=[(x + ox, y + oy) for x, y in C["P"]], W=C["W"])       # noqa: E731
    return mv(A), mv(B)


def run(ctx):
    rng = ctx["rng"]
    run_case_plain = run_case

    def run_case_far(ctx_, case_):
        run_case_plain(ctx_, case_)
        c_ = de(case_)
        if c_.get("label") in ("cross", "zigzag", "mixed", "doublepoint") and rng.random() < 0.35:
            # the same polylines in a plane of 3-space (vertical planes y = a x + b among them: parallel xy-projections of the tangents)
            a_, b_ = F(rng.randint(-2, 3)), F(rng.randint(-2, 2))
            m_ = rng.choice([[[F(1), F(0)], [a_, F(0)], [F(0), F(1)]],            # (s, t) -> (s, a s + b, t)
                             [[F(1), F(0)], [F(0), F(1)], [a_, F(1)]],            # a slanted plane
                             [[F(0), F(1)], [F(1), F(0)], [F(1), F(1)]]])
            off_ = [F(0), b_, F(rng.randint(-1, 1))]
            run_case_plain(ctx_, ser(dict(kind="pair", label=c_["label"] + "-3d", A=dict(U=c_["A"]["U"], P=[tuple(q) for q in c_["A"]["P"]], W=None),
                                          B=dict(U=c_["B"]["U"], P=[tuple(q) for q in c_["B"]["P"]], W=None), lift=[m_, off_])))
        if c_.get("label") in ("cross", "zigzag", "mixed", "doublepoint", "farboxes") and rng.random() < 0.3:
            wts = lambda C: [F(rng.choice([1, 2, 3, 5, 8]), rng.choice([1, 2, 3])) for _ in C["P"]]       # noqa: E731
            Aw = dict(U=c_["A"]["U"], P=[tuple(q) for q in c_["A"]["P"]], W=wts(c_["A"]))
            Bw = dict(U=c_["B"]["U"], P=[tuple(q) for q in c_["B"]["P"]], W=(wts(c_["B"]) if rng.random() < 0.6 else None))
            run_case_plain(ctx_, ser(dict(kind="pair", label=c_["label"] + "-weighted", A=Aw, B=Bw)))
        if c_.get("label") in ("cross", "zigzag", "doublepoint", "mixed") and rng.random() < 0.4:
            A_, B_ = far(rng, dict(U=c_["A"]["U"], P=[tuple(q) for q in c_["A"]["P"]], W=c_["A"]["W"]),
                         dict(U=c_["B"]["U"], P=[tuple(q) for q in c_["B"]["P"]], W=c_["B"]["W"]))
            run_case_plain(ctx_, ser(dict(kind="pair", label=c_["label"] + "-far", A=A_, B=B_)))
    # corpus: D15 witnesses (disjoint segments: np.min of empty / closest pairs kept)
    seg = lambda p, q: dict(U=[F(0), F(0), F(1), F(1)], P=[p, q], W=None)   # noqa: E731
    run_case(ctx, ser(dict(kind="pair", label="disjoint", A=seg((F(0), F(0)), (F(1), F(0))), B=seg((F(0), F(1)), (F(1), F(1))))))
    run_case(ctx, ser(dict(kind="pair", label="disjoint", A=seg((F(0), F(0)), (F(1), F(1))), B=seg((F(5), F(0)), (F(6), F(3))))))
    run_case(ctx, ser(dict(kind="pair", label="cross", A=seg((F(0), F(0)), (F(2), F(2))), B=seg((F(0), F(2)), (F(2), F(0))))))
    for i in range(budget(ctx, 70, 900)):
        label = rng.choice(["mixed", "mixed", "farboxes", "nearboxes", "zigzag", "zigzag", "doublepoint"])
        na, nb = rng.randint(1, 3), rng.randint(1, 3)
        if label == "doublepoint":
            # B passes twice through one point (bow-tie, crossing inside two of its segments); A crosses it there transversally:
            # two meeting pairs that share the parameter of A
            cx, cy = F(rng.randint(-4, 4), 2), F(rng.randint(-4, 4), 2)
            h = F(rng.randint(2, 6), 2)
            B = dict(U=[F(0), F(0), F(1, 3), F(2, 3), F(1), F(1)],
                     P=[(cx - h, cy - h), (cx + h, cy + h), (cx + h, cy - h), (cx - h, cy + h)], W=None)
            dx = F(rng.randint(1, 3), 4) * rng.choice([1, -1])
            A = dict(U=[F(0), F(0), F(1), F(1)], P=[(cx - dx, cy - 2 * h), (cx + dx, cy + 2 * h)], W=None)
            if rng.random() < 0.5:
                A, B = B, A
            run_case_far(ctx, ser(dict(kind="pair", label=label, A=A, B=B)))
            continue
        if label == "zigzag":
            # A zigzags across a nearly horizontal B: one transversal crossing per segment of A
            na = rng.randint(1, 4)
            xs = sorted(rng.sample(range(-15, 16), na + 1))
            A = dict(U=[F(0), F(0)] + [F(k, na) for k in range(1, na)] + [F(1), F(1)],
                     P=[(F(x, 4), F((-1) ** k * rng.randint(3, 12), 4)) for k, x in enumerate(xs)], W=None)
            B = dict(U=[F(0), F(0), F(1), F(1)], P=[(F(-5), F(rng.randint(-2, 2), 8)), (F(5), F(rng.randint(-2, 2), 8))], W=None)
            if rng.random() < 0.5:
                A, B = B, A
            run_case_far(ctx, ser(dict(kind="pair", label=label, A=A, B=B)))
            continue
        if label == "farboxes":
            A = polyline(rng, na, ((-4, -1), (-4, 4)))
            B = polyline(rng, nb, ((1, 4), (-4, 4)))
        elif label == "nearboxes":
            A = polyline(rng, na, ((-4, 4), (0, 4)))
            B = polyline(rng, nb, ((-4, 4), (-4, 0)))
            B["P"] = [(x, y - F(1, 4)) for x, y in B["P"]]
        else:
            A = polyline(rng, na, ((-4, 4), (-4, 4)))
            B = polyline(rng, nb, ((-4, 4), (-4, 4)))
        run_case_far(ctx, ser(dict(kind="pair", label=label, A=A, B=B)))
    for i in range(budget(ctx, 14, 140)):
        # B passes twice through one point X (two of its segments cross there) and A has a *vertex* at X: four segment pairs meet in
        # two parameter pairs that share the parameter of A; knots that are no binary fractions, so that the computed parameters carry
        # rounding noise.  Coordinates: quarters (X exactly on every segment after conversion to float) or tenths (generic after rounding).
        den = rng.choice([4, 4, 10])
        cx, cy = F(rng.randint(-8, 8), den), F(rng.randint(-8, 8), den)
        d1 = (F(rng.randint(1, 4)), F(rng.randint(1, 4)))
        d2 = (F(rng.randint(1, 4)), -F(rng.randint(1, 4)))
        al, be, ga, de_ = (F(rng.randint(2, 9), den) for _ in range(4))
        B = dict(U=[F(0), F(0)] + rng.choice([[F(1, 3), F(2, 3)], [F(3, 10), F(7, 10)], [F(1, 7), F(3, 5)]]) + [F(1), F(1)],
                 P=[(cx - al * d1[0], cy - al * d1[1]), (cx + be * d1[0], cy + be * d1[1]),
                    (cx + ga * d2[0], cy + ga * d2[1]), (cx - de_ * d2[0], cy - de_ * d2[1])], W=None)
        e1 = (F(rng.randint(-2, 2), 4), -F(rng.randint(4, 9), 4))
        e2 = (F(rng.randint(-2, 2), 4), F(rng.randint(4, 9), 4))
        A = dict(U=[F(0), F(0), rng.choice([F(3, 10), F(1, 3), F(1, 2), F(5, 7)]), F(1), F(1)],
                 P=[(cx + e1[0], cy + e1[1]), (cx, cy), (cx + e2[0], cy + e2[1])], W=None)
        if rng.random() < 0.25:
            A, B = B, A
        run_case(ctx, ser(dict(kind="pair", label="vertex-on-doublepoint", A=A, B=B, soundness_only=True)))
    for i in range(budget(ctx, 8, 80)):
        # a piece that is *nearly* a straight segment (a quadratic whose middle control point is a few 1e-5 off the chord: within the
        # cleaning tolerance of the chord) and a segment that crosses the chord but stops inside the thin gap between chord and
        # curve: the curves do not meet (they stay about 2e-5 apart), whatever a simplified copy of the piece would say
        x0, x1 = F(rng.randint(-4, 0)), F(rng.randint(1, 4))
        y0 = F(rng.randint(-2, 2))
        hgt = F(rng.choice([4, 5, 6, 7, 8]), 10**5) * (x1 - x0) / (x1 - x0)
        xm = (x0 + x1) / 2
        sgn = rng.choice([1, -1])
        A = dict(U=[F(0)] * 3 + [F(1)] * 3, P=[(x0, y0), (xm, y0 + sgn * hgt), (x1, y0)], W=None)
        off = F(rng.randint(-2, 2), 10) * (x1 - x0) / 4
        B = dict(U=[F(0), F(0), F(1), F(1)], P=[(xm + off, y0 - sgn * F(3, 10)), (xm + off, y0 + sgn * hgt / 6)], W=None)
        if rng.random() < 0.3:
            A, B = B, A
        run_case(ctx, ser(dict(kind="pair", label="gap-next-to-a-nearly-straight-piece", A=A, B=B)))
    for i in range(budget(ctx, 12, 120)):
        # single-span operands that clean() could simplify: they must come back untouched
        A, ka = reducible_bezier(rng, 2)
        B, kb = reducible_bezier(rng, 2) if rng.random() < 0.5 else (polyline(rng, rng.randint(1, 2), ((-4, 4), (-4, 4))), "polyline")
        if rng.random() < 0.5:
            A, B = B, A
        run_case(ctx, ser(dict(kind="pair", label="reducible", A=A, B=B)))
    for i in range(budget(ctx, 8, 100)):
        def rc():
            p = rng.choice([2, 3])
            U = [F(0)] * (p + 1) + [F(1)] * (p + 1)
            return dict(U=U, P=[(F(rng.randint(-8, 8), 2), F(rng.randint(-8, 8), 2)) for _ in range(p + 1)],
                        W=None if rng.random() < 0.7 else [F(rng.randint(2, 6), 2) for _ in range(p + 1)])
        run_case(ctx, ser(dict(kind="pair", label="curved", A=rc(), B=rc())))
