"""C15 — curves stay consistent; failed operations are atomic; operands stay untouched."""
from common import *  # noqa: F401,F403
from copy import copy, deepcopy
import signal

RULE = ("random operation sequences (length <= 8 quick / <= 20 thorough) on real Curve objects (polynomial and rational, degree 0..3): mutators "
        "knot_insert / knot_remove / knot_clean / degree_increase / degree_decrease / degree setter / degree_clean / clean / ctrlpoints and "
        "weights setters / fit_points, with valid and invalid arguments (absent knots, excess multiplicity, outside nodes, impossible reductions, "
        "wrong number of control points, weights with a sign change); non-mutating operations evaluation, + - * / @, ==, split, fraction, copy, "
        "Derivate, Integrate, Projection, Intersection, fit_curve of another curve to it; two curves built from one KnotVector object.  "
        "Non-trivial: a sequence with at least one raising call or a rational curve; distinct = distinct (start curve, op list)."
        " Also: insertion of a node closer than 1e-9 to a different knot value into rational curves (refused: only atomicity is judged); in-place arithmetic on the values returned by evaluation (they belong to the caller); Intersection.bcurve_and_bcurve in both operand orders; degree-0 / degree-1 curves with array control points.")
EXPLANATION = ("L3 (runtime-observed): after every step len(ctrlpoints) = npts = len(knotvector)-degree-1 (= len(weights)), the curve evaluates on "
               "its whole interval, a raising call leaves (U,P,W) exactly as they were, non-mutating calls leave every operand unchanged, copies "
               "and siblings built from one KnotVector are independent.  L2: the state after every mutating step vs the Lean curve state machine.")
ASSUMPTIONS = ["object aliasing and numpy dispatch are runtime behaviour: observed on the real objects, not modelled"]


def consistent(curve):
    out = []
    U = list(curve.knotvector)
    n = curve.npts
    if len(U) - curve.degree - 1 != n:
        out.append("npts != len(knotvector) - degree - 1")
    if curve.ctrlpoints is not None and len(curve.ctrlpoints) != n:
        out.append("len(ctrlpoints) != npts")
    if curve.weights is not None and len(curve.weights) != n:
        out.append("len(weights) != npts")
    if curve.ctrlpoints is not None and not out:
        ks = sorted(set(frac(x) for x in U))
        us = ks + [(a + b) / 2 for a, b in zip(ks[:-1], ks[1:])]
        r = impl(lambda: curve(us))
        if r[0] != "ok" or len(r[1]) != len(us):
            out.append("curve does not evaluate on its whole interval (%s)" % (r[1] if r[0] != "ok" else "length"))
    return out


def mutate(curve, op):
    k = op[0]
    if k in ("insert", "insertnear"):
        curve.knot_insert(list(op[1]))
    elif k == "remove":
        curve.knot_remove(list(op[1])) if op[2] == "default" else curve.knot_remove(list(op[1]), op[2])
    elif k == "knotclean":
        curve.knot_clean()
    elif k == "deginc":
        curve.degree_increase(int(op[1]))
    elif k == "degdec":
        curve.degree_decrease(int(op[1])) if op[2] == "default" else curve.degree_decrease(int(op[1]), op[2])
    elif k == "setdeg":
        curve.degree = int(op[1])
    elif k == "degclean":
        curve.degree_clean()
    elif k == "clean":
        curve.clean()
    elif k == "setpoints":
        curve.ctrlpoints = [q[0] if len(q) == 1 else np.array(list(q), dtype=object) for q in op[1]]
    elif k == "setweights":
        curve.weights = list(op[1])
    elif k == "fitpoints":
        curve.fit_points([q[0] if len(q) == 1 else np.array(list(q), dtype=object) for q in op[1]])
    else:
        raise RuntimeError(k)


def model_mutate(drv, st, op):
    k = op[0]
    a = curve_args(*st)
    t9 = F(1, 10**9)
    if k == "insert":
        return drv.call("curve.insert", *a, op[1])
    if k == "remove":
        return drv.call("curve.remove", *a, op[1], t9 if op[2] == "default" else op[2])
    if k == "knotclean":
        return drv.call("curve.knotclean", *a, None, t9)
    if k == "deginc":
        return drv.call("curve.deginc", *a, op[1])
    if k == "degdec":
        return drv.call("curve.degdec", *a, op[1], t9 if op[2] == "default" else op[2])
    if k == "setdeg":
        if op[1] < 0:
            return ("err", "ValueError")
        return drv.call("curve.setdeg", *a, op[1])
    if k == "degclean":
        return drv.call("curve.degclean", *a, t9)
    if k == "clean":
        return drv.call("curve.clean", *a, t9)
    if k == "setpoints":
        return drv.call("curve.new", a[0], op[1], a[2])
    if k == "setweights":
        return drv.call("curve.new", a[0], a[1], op[1])
    if k == "fitpoints":
        return drv.call("curve.fitpoints", *a, op[1], None)
    raise RuntimeError(k)


class Timeout(Exception):
    pass


def with_timeout(fn, seconds):
    def handler(signum, frame):
        raise Timeout()
    old = signal.signal(signal.SIGALRM, handler)
    signal.alarm(seconds)
    try:
        return fn()
    finally:
        signal.alarm(0)
        signal.signal(signal.SIGALRM, old)


def nonmutating(rng, curve, other):
    """(name, thunk) pairs of operations that must not modify `curve` or `other`"""
    U = [frac(x) for x in curve.knotvector]
    mid = (U[0] + U[-1]) / 2
    ops = [
        ("eval", lambda: curve([U[0], mid, U[-1]])),
        ("eval-outside", lambda: curve(U[-1] + 1)),
        ("neg", lambda: -curve), ("add", lambda: curve + other), ("sub", lambda: curve - other),
        ("eq", lambda: curve == other), ("ne", lambda: curve != other),
        ("split", lambda: curve.split([mid])), ("split-all", lambda: curve.split()),
        ("fraction", lambda: curve.fraction()), ("copy", lambda: copy(curve)), ("deepcopy", lambda: deepcopy(curve)),
        ("smul", lambda: 3 * curve), ("sdiv", lambda: curve / 2), ("sadd", lambda: curve + curve.ctrlpoints[0]),
        ("fit-other", lambda: Curve(list(other.knotvector)).fit_curve(curve)),
        ("derivate", lambda: Derivate(curve)),
    ]
    scalar = not hasattr(curve.ctrlpoints[0], "__len__")
    if scalar:
        ops += [("mul", lambda: curve * other), ("integrate", lambda: Integrate.scalar(curve))]
        if all(frac(p) > 0 for p in other.ctrlpoints):
            ops.append(("div", lambda: curve / other))
    else:
        ops += [("matmul", lambda: curve @ other),
                ("projection", lambda: with_timeout(lambda: Projection.point_on_curve([float(x) for x in curve.ctrlpoints[0]], curve), 20)),
                ("intersection", lambda: with_timeout(lambda: Intersection.curve_and_curve(curve, other), 30)),
                ("intersection-bezier", lambda: with_timeout(lambda: Intersection.bcurve_and_bcurve(curve, other), 30)),
                ("intersection-bezier-swapped", lambda: with_timeout(lambda: Intersection.bcurve_and_bcurve(other, curve), 30))]
    return ops


def run_fit(ctx, case, c):
    """`receiver.fit_curve(source)` / `receiver.fit(source)` as a mutating operation: whatever it does — succeed, or raise because the
    weights projected onto the receiver's space change sign — the receiver stays consistent, a raising call leaves it exactly as it
    was, and the source is never touched"""
    rec = ctx["rec"]
    R = (c["R"]["U"], [tuple(p) for p in c["R"]["P"]], c["R"]["W"])
    S = (c["S"]["U"], [tuple(p) for p in c["S"]["P"]], c["S"]["W"])
    rec.case(case, nontrivial=True)
    recv, src = make_curve(*R), make_curve(*S)
    br, bs = curve_state(recv), curve_state(src)
    r = impl(lambda: (recv.fit_curve(src) if c["how"] == "fit_curve" else recv.fit(src)))
    rec.count("fit", c["how"] + "/" + errkind(r))
    l3(rec, "fit-atomicity")
    if curve_state(src) != bs:
        rec.violation("fitting modified the source curve", case)
        return
    ar = curve_state(recv)
    if r[0] != "ok":
        if ar != br:
            rec.violation("%s raised (%s) and left the receiver modified" % (c["how"], r[1]), case, before=ser(br), after=ser(ar))
        return
    n = kv_info(list(ar[0]))[1]
    if ar[1] is None or len(ar[1]) != n or (ar[2] is not None and len(ar[2]) != n):
        rec.violation("receiver inconsistent after %s" % c["how"], case, after=ser(ar))
        return
    ev = impl(lambda: [recv(u) for u in params_for(ctx["rng"], list(ar[0]), extra=1)])
    if ev[0] != "ok":
        rec.violation("receiver cannot be evaluated after %s" % c["how"], case, observed=ev[1])


def run_case(ctx, case):
    rec, drv = ctx["rec"], ctx["drv"]
    c = de(case)
    if c.get("kind") == "fit":
        return run_fit(ctx, case, c)
    U, P, W = c["U"], (None if c["P"] is None else [tuple(p) for p in c["P"]]), c["W"]
    ops = [tuple(o) for o in c["ops"]]
    raising = 0
    curve = make_curve(U, P, W)
    st = curve_state(curve)
    rec.count("weights", "rational" if W is not None else "polynomial")
    for step, op in enumerate(ops):
        rec.count("op", op[0])
        before = curve_state(curve)
        r = impl(lambda: mutate(curve, op))
        after = curve_state(curve)
        if op[0] == "insertnear":
            # a node closer than 1e-9 to a different knot value: the outcome is the recorded C04 finding; here only atomicity is judged
            rec.count("outcome", "near-knot-" + errkind(r))
            l3(rec, "consistency+atomicity")
            if r[0] != "ok" and after != before:
                rec.violation("operation insert (node next to a knot) raised and left the curve modified", case, step=step, op=ser(op),
                              before=ser(before), after=ser(after))
            rec.case(case, nontrivial=True)
            return
        m = model_mutate(drv, before, op)
        rec.count("outcome", errkind(r))
        same = (r[0] == "ok") == (m[0] == "ok") and (r[0] != "ok" or model_curve_state(m[1]) == after)
        l2(rec, "curve." + op[0], dict(case=case, step=step), (errkind(r), after), m, same)
        l3(rec, "consistency+atomicity")
        if r[0] != "ok":
            raising += 1
            if after != before:
                rec.violation("operation %s raised and left the curve modified" % op[0], case, step=step, op=ser(op), before=ser(before), after=ser(after))
                return
        bad = consistent(curve)
        if bad:
            rec.violation("curve inconsistent after %s: %s" % (op[0], "; ".join(bad)), case, step=step, op=ser(op), state=ser(after))
            return
    rec.case(case, nontrivial=(raising > 0 or W is not None))
    # non-mutating operations never modify their operands
    if curve.ctrlpoints is not None and not c.get("mutators_only"):
        other_data = c.get("other")
        other = make_curve(other_data["U"], [tuple(q) for q in other_data["P"]], other_data["W"]) if other_data else copy(curve)
        s1, s2 = curve_state(curve), curve_state(other)
        for name, fn in nonmutating(ctx["rng"], curve, other):
            rec.count("nonmutating", name)
            try:
                fn()
            except Timeout:
                rec.count("nonmutating", name + "-timeout")
            except Exception:  # noqa: BLE001
                rec.count("nonmutating", name + "-raised")
            if curve_state(curve) != s1 or curve_state(other) != s2:
                rec.violation("non-mutating operation %s modified an operand" % name, case, before=ser((s1, s2)), after=ser((curve_state(curve), curve_state(other))))
                return
        # objects returned by non-mutating operations do not alias the operand: modify them, re-read the operand
        for name, fn in (("split()", lambda: curve.split()), ("split([])", lambda: curve.split([])),
                         ("split(limits)", lambda: curve.split(list(curve.knotvector.limits))), ("fraction", lambda: curve.fraction()),
                         ("neg", lambda: (-curve,)), ("copy", lambda: (copy(curve),))):
            r = impl(fn)
            if r[0] != "ok":
                continue
            for piece in r[1]:
                if isinstance(piece, Curve):
                    impl(lambda: piece.degree_increase(1))
                    impl(lambda: piece.knot_insert([(frac(piece.knotvector[0]) + frac(piece.knotvector[-1])) / 2]))
            if curve_state(curve) != s1:
                rec.violation("modifying the result of %s changed the operand (aliasing)" % name, case, before=ser(s1), after=ser(curve_state(curve)))
                return
        # values returned by evaluation belong to the caller: in-place arithmetic on them must not reach the curve
        for name, fn in (("eval(seq)", lambda: list(curve([frac(curve.knotvector[0]), (frac(curve.knotvector[0]) + frac(curve.knotvector[-1])) / 2]))),
                         ("eval(u)", lambda: [curve((frac(curve.knotvector[0]) + 2 * frac(curve.knotvector[-1])) / 3)]),
                         ("ctrlpoints", lambda: list(curve.ctrlpoints))):
            r = impl(fn)
            if r[0] != "ok":
                continue
            touched = 0
            for v in r[1]:
                if isinstance(v, np.ndarray) and name != "ctrlpoints":
                    try:
                        v += 1
                        touched += 1
                    except Exception:  # noqa: BLE001
                        pass
            rec.count("result-aliasing", name + ("-touched" if touched else ""))
            if curve_state(curve) != s1:
                rec.violation("in-place arithmetic on the value returned by %s changed the curve (the result aliases a control point)" % name,
                              case, before=ser(s1), after=ser(curve_state(curve)))
                return
        # copies are independent
        cp = copy(curve)
        r = impl(lambda: cp.degree_increase(1))
        r = impl(lambda: cp.knot_insert([(frac(curve.knotvector[0]) + frac(curve.knotvector[-1])) / 2]))
        if curve_state(curve) != s1:
            rec.violation("mutating a copy changed the original", case)
        # curves built from the same KnotVector object do not affect each other
        c1 = make_curve(U, P, W)
        mid_ = (U[0] + U[-1]) / 2
        inner_ = [x for x in kv_info(list(U))[2][1:-1]]
        muts = [("degree_increase", lambda a: a.degree_increase(1)), ("degree setter +2", lambda a: setattr(a, "degree", a.degree + 2)),
                ("knot_insert", lambda a: a.knot_insert([mid_])), ("degree_decrease", lambda a: a.degree_decrease(1, None)),
                ("knot_clean", lambda a: a.knot_clean()), ("degree_clean", lambda a: a.degree_clean()), ("clean", lambda a: a.clean()),
                ("knot_remove", lambda a: a.knot_remove([inner_[0]], None) if inner_ else None),
                ("knotvector setter", lambda a: setattr(a, "knotvector", [2 * frac(x) for x in a.knotvector]))]
        # the mutated sibling with points and weights, without points (basis only), with weights only
        # the whole (sibling kind x mutator) matrix for every third case, the two cheapest mutators of each kind otherwise
        whole = (rec.evaluations % 3 == 0)
        for kind in ("full", "basis-only", "weights-only"):
            for mname, mut in (muts if whole else muts[:2]):
                kv = KnotVector(list(U))
                if kind == "full":
                    a_ = Curve(kv, c1.ctrlpoints, c1.weights)
                elif kind == "basis-only":
                    a_ = Curve(kv)
                else:
                    a_ = Curve(kv)
                    if impl(lambda: setattr(a_, "weights", [F(2)] * len(c1.ctrlpoints)))[0] != "ok":
                        continue
                b_ = Curve(kv, c1.ctrlpoints, c1.weights)
                sb = curve_state(b_)
                impl(lambda: mut(a_))
                rec.count("sibling", kind)
                if curve_state(b_) != sb or tuple(frac(x) for x in kv) != tuple(U):
                    rec.violation("curves built from one KnotVector object affect each other (or the KnotVector)", case, mutated=kind,
                                  mutator=mname, sibling=ser(curve_state(b_)), knotvector=ser([frac(x) for x in kv]))
                    return


def gen_ops(rng, drv, st, length):
    ops = []
    for _ in range(length):
        U, P, W = st
        U = list(U)
        p, n, knots = kv_info(U)
        a, b = U[0], U[-1]
        bad = rng.random() < 0.35
        k = rng.choice(["insert", "insert", "remove", "remove", "knotclean", "deginc", "degdec", "setdeg", "degclean", "clean",
                        "setpoints", "setweights", "fitpoints"])
        dim = len(P[0]) if P else 1
        if k == "insert":
            x = a + (b - a) * rng.choice(GRID)
            if bad:
                lo = a + (x - a) / 2          # a legal node that sorts before the illegal one (multi-step atomicity)
                op = ("insert", rng.choice([[b + 1], [x] * (p + 2), [a], [lo, b + 1], [lo] + [x] * (p + 2), [lo, b], [a, b]]))
            else:
                op = ("insert", [x] * rng.randint(1, max(1, min(2, p + 1 - U.count(x)))))
        elif k == "remove":
            if bad and len(knots) > 2 and rng.random() < 0.5:
                k0 = rng.choice(knots[1:-1])
                op = ("remove", [k0, rng.choice([a + (b - a) * F(1, 977), b])], rng.choice(["default", None, F(1000)]))
            elif bad or len(knots) <= 2:
                op = ("remove", [rng.choice([a, b, a + (b - a) * F(1, 977)])], "default")
            else:
                op = ("remove", [rng.choice(knots[1:-1])], rng.choice(["default", "default", None, F(1000)]))
        elif k == "deginc":
            op = ("deginc", F(0) if bad else F(1))
        elif k == "degdec":
            op = ("degdec", F(p + 1) if bad else F(1), rng.choice(["default", "default", None]))
        elif k == "setdeg":
            op = ("setdeg", F(-1) if bad else F(max(0, p + rng.choice([-1, 0, 1]))))
        elif k == "setpoints":
            op = ("setpoints", rand_points(rng, n + (1 if bad else 0), dim))
        elif k == "setweights":
            if bad and rng.random() < 0.5:
                # wrong number of weights, all of one sign (e.g. stale weights kept from before a refinement)
                op = ("setweights", rand_weights(rng, n + rng.choice([-1, 1, 2]) if n > 1 else n + 1, "pos"))
            elif bad and n >= 2:
                w = [F(1)] * n
                w[rng.randrange(n)] = F(-2)
                op = ("setweights", w)
            else:
                op = ("setweights", rand_weights(rng, n, "pos"))
        elif k == "fitpoints":
            op = ("fitpoints", rand_points(rng, (n - 1) if bad and n > 1 else n + rng.randint(0, 2), dim))
        else:
            op = (k,)
        if p >= 3 and op[0] in ("deginc",) and not bad:
            op = ("knotclean",)
        ops.append(op)
        m = model_mutate(drv, st, op)
        if m[0] == "ok":
            st = model_curve_state(m[1])
            if len(st[0]) > 16:
                break
    return ops


def run(ctx):
    rng = ctx["rng"]
    maxlen = budget(ctx, 8, 20)
    # fitting a rational source with very unequal weights onto a coarser receiver: the projected weight spline may change sign and the
    # receiver's weight setter then refuses it — after the new control points have been computed
    for i in range(budget(ctx, 8, 60)):
        ps = rng.choice([1, 1, 2])
        nsp = rng.randint(4, 6)
        US = [F(0)] * (ps + 1) + [F(k, nsp) for k in range(1, nsp)] + [F(1)] * (ps + 1)
        ns = len(US) - ps - 1
        small = F(1, rng.choice([50, 100, 1000]))
        WS = [small] * ns
        WS[rng.choice([0, -1])] = F(1)
        if rng.random() < 0.3:
            WS = [F(rng.randint(1, 4)) for _ in range(ns)]          # control: a fit that succeeds
        dim = rng.choice([1, 2])
        pr = rng.choice([1, 2])
        UR = [F(0)] * (pr + 1) + ([F(1, 2)] if rng.random() < 0.3 else []) + [F(1)] * (pr + 1)
        nr = len(UR) - pr - 1
        R = dict(U=UR, P=rand_points(rng, nr, dim, ints=True), W=(None if rng.random() < 0.5 else [F(rng.randint(1, 3)) for _ in range(nr)]))
        S = dict(U=US, P=rand_points(rng, ns, dim, ints=True), W=WS)
        run_case(ctx, ser(dict(kind="fit", R=R, S=S, how=rng.choice(["fit_curve", "fit_curve", "fit"]))))
    # curves that carry weights but no control points (and neither): the weights must follow the knot vector
    for i in range(budget(ctx, 8, 60)):
        U = rand_kv(rng, pmax=2, nintmax=2, maxmult=1)
        p, n, knots = kv_info(U)
        W = rand_weights(rng, n, rng.choice(["pos", "pos", "none"]))
        ops = []
        for _ in range(rng.randint(1, 3)):
            k = rng.choice(["insert", "remove", "deginc", "degdec", "knotclean"])
            a, b = U[0], U[-1]
            if k == "insert":
                ops.append(("insert", [a + (b - a) * rng.choice(GRID)]))
            elif k == "remove" and len(knots) > 2:
                ops.append(("remove", [rng.choice(knots[1:-1])], rng.choice(["default", None])))
            elif k == "deginc":
                ops.append(("deginc", F(1)))
            elif k == "degdec":
                ops.append(("degdec", F(1), rng.choice(["default", None])))
            else:
                ops.append(("knotclean",))
        run_case(ctx, ser(dict(kind="seq", U=U, P=None, W=W, ops=ops, other=None, mutators_only=True)))
    # multi-degree reductions that can only go part of the way: an elevated generic curve asked to go two (three) degrees down is
    # representable one degree lower but not two — the request must fail as a whole and leave the curve as it was
    for i in range(budget(ctx, 6, 60)):
        U, P, W = rand_curve(rng, pmax=2, nintmax=2, weights=rng.choice(["none", "none", "pos"]))
        if kv_info(U)[0] == 0:
            continue
        up = rng.randint(1, 2)
        ops = [("deginc", F(up)), ("degdec", F(up + 1), "default")]
        if rng.random() < 0.5:
            ops = [("deginc", F(up)), ("setdeg", F(kv_info(U)[0] - 1))]
        run_case(ctx, ser(dict(kind="seq", U=U, P=P, W=W, ops=ops, other=None, mutators_only=True)))
    # a refused insertion next to a knot (rational curves refuse such nodes, KNOWN_FINDINGS C04) must leave the curve as it was (D34)
    for i in range(budget(ctx, 6, 60)):
        U, P, W = rand_curve(rng, pmax=3, nintmax=3, weights="pos")
        p, n, knots = kv_info(U)
        if len(knots) <= 2:
            continue
        x = rng.choice(knots[1:-1]) + rng.choice([-1, 1]) * F(1, 10 ** rng.choice([10, 12, 20]))
        pre = [("insert", [U[0] + (U[-1] - U[0]) * rng.choice(GRID)])] if rng.random() < 0.5 else []
        run_case(ctx, ser(dict(kind="seq", U=U, P=P, W=W, ops=pre + [("insertnear", [x])], other=None, mutators_only=True)))
    # lossy refits of rational curves with very unequal weights: the refitted denominator may change sign, the weights
    # setter then refuses it *after* the new knot vector and points have been computed (atomicity window of update())
    for i in range(budget(ctx, 10, 80)):
        p = rng.choice([1, 2, 2, 3])
        ks = sorted(rng.sample(GRID, rng.randint(2, 3)))
        U = [F(0)] * (p + 1) + ks + [F(1)] * (p + 1)
        n = len(U) - p - 1
        small = F(1, rng.choice([50, 100, 1000]))
        W = [F(1)] + [small] * (n - 2) + [F(1)]
        if rng.random() < 0.4:
            W[rng.randrange(1, n - 1)] = F(rng.choice([1, 5, 20]))
        P = rand_points(rng, n, rng.choice([1, 2]), ints=True)
        tol = rng.choice([None, F(10), F(1000)])
        ops = [("remove", list(ks), tol)] if rng.random() < 0.6 else [("remove", ks[:1], tol), ("remove", ks[1:], tol)]
        if p >= 2 and rng.random() < 0.5:
            ops.append(("degdec", F(1), None))
        run_case(ctx, ser(dict(kind="seq", U=U, P=P, W=W, ops=ops, other=None, mutators_only=True)))
    # piecewise-constant and piecewise-linear curves with array control points (single-span ones too): the non-mutating
    # operations, Bezier intersection included, and the caller's in-place use of evaluation results
    for i in range(budget(ctx, 8, 60)):
        p = i % 2
        U = rand_kv(rng, p=p, nintmax=(0 if i % 4 < 2 else 2), maxmult=1)
        n = kv_info(U)[1]
        W = rand_weights(rng, n, rng.choice(["none", "pos"]))
        P = rand_points(rng, n, 2)
        U2 = rand_kv(rng, p=rng.choice([0, 1]), nint=0, interval=(U[0], U[-1]))
        other = dict(U=U2, P=rand_points(rng, kv_info(U2)[1], 2), W=None)
        run_case(ctx, ser(dict(kind="seq", U=U, P=P, W=W, ops=[], other=other)))
    for i in range(budget(ctx, 30, 400)):
        U, P, W = rand_curve(rng, pmax=2, nintmax=2, dim=rng.choice([1, 1, 2]), force_zero=(i % 8 == 0))
        st = (tuple(U), tuple(P), None if W is None else tuple(W))
        ops = gen_ops(rng, ctx["drv"], st, rng.randint(2, maxlen))
        U2 = rand_kv(rng, pmax=2, nintmax=1, interval=(U[0], U[-1]))
        other = dict(U=U2, P=[tuple(F(rng.randint(1, 9)) for _ in range(len(P[0]))) for _ in range(kv_info(U2)[1])], W=None)
        run_case(ctx, ser(dict(kind="seq", U=U, P=P, W=W, ops=ops, other=other)))
