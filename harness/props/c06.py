"""C06 — degree elevation is exact; degree reduction is its inverse or is refused."""
from common import *  # noqa: F401,F403
import units

RULE = ("random curves (Bezier, multi-span, repeated knots, rational; degree 0..3, t in 1..3): degree_increase(t) and the degree setter; "
        "elevate-then-reduce round trips; reduction of generic curves (refused with the default tolerance, forced with tolerance=None); "
        "invalid arguments.  Non-trivial: an interior knot or degree >= 2; distinct = distinct (U,P,W,t,mode)."
        " Also: reductions by two (partly reducible curves, vanishing double knots), multi-span elevation to final degree 7..10, float twin first; control points far from the origin (1e3..1e6) with a moderate defect. Also: in every second case a sibling curve built on the same KnotVector object, which must be left as it was.")
EXPLANATION = ("L2: state after elevation / reduction vs the model (split + Bezier elevation + least-squares removal, exact); L3: `rf.eq` "
               "before/after, knot pattern (every distinct knot +t), atomic refusal, interpolation at the remaining knots for forced reduction.")
ASSUMPTIONS = ["weights positive"]


def run_case(ctx, case):
    rec, drv = ctx["rec"], ctx["drv"]
    c = de(case)
    U, P, W, t, mode = c["U"], [tuple(p) for p in c["P"]], c["W"], int(c["t"]), c["mode"]
    p, n, knots = kv_info(U)
    rec.case(case, nontrivial=nontrivial_kv(U))
    rec.count("mode", mode)
    units.tie_elevbez(rec, drv, case, p, t)            # the Bezier elevation matrix of the Bernstein theorems
    rec.count("shape", "bezier" if len(knots) == 2 else "multispan")
    rec.count("weights", "rational" if W is not None else "polynomial")
    curve = make_curve(U, P, W)
    start = curve_state(curve)
    # a second curve on the very KnotVector object of the first (x(u) and y(u) of one figure): changing the degree of one curve
    # must leave the other — a curve like any other — as it was
    sib = Curve(curve.knotvector, curve.ctrlpoints, curve.weights) if rec.evaluations % 2 == 0 else None

    def sibling_intact(what):
        if sib is None:
            return True
        rec.count("sibling", what)
        ok = curve_state(sib) == start and impl(lambda: sib((U[0] + U[-1]) / 2))[0] == "ok"
        if not ok:
            rec.violation("%s of a curve changed another curve built on the same KnotVector object" % what, case,
                          sibling=ser(curve_state(sib)), expected=ser(start))
        return ok
    if mode in ("elevate", "setter", "roundtrip"):
        impl(lambda: float_twin(U, P, W).degree_increase(t))       # float data first (cross-call caches)
        for tw in mixed_twins(U, P, W):
            impl(lambda: tw.degree_increase(t))                    # int / float knots with exact points
        if mode == "setter":
            def act():
                curve.degree = p + t
        else:
            def act():
                curve.degree_increase(t)
        r = impl(act)
        after = curve_state(curve)
        m = drv.call("curve.deginc", *curve_args(*start), t)
        same = errkind(r) == errkind(m) and (r[0] != "ok" or model_curve_state(m[1]) == after)
        l2(rec, "curve.deginc", case, (errkind(r), after), m, same)
        if r[0] != "ok":
            rec.violation("degree elevation raised", case, observed=r[1])
            return
        want_U = tuple(sorted(list(U) + t * knots))
        if after[0] != want_U:
            rec.violation("elevation did not raise every distinct knot's multiplicity by t", case, observed=ser(after[0]), expected=ser(want_U))
            return
        v = drv.call("rf.eq", *curve_args(*start), *curve_args(*after))
        l3(rec, "rf.eq")
        if v != ("ok", "yes"):
            rec.violation("curve changed as a function after degree elevation", case, oracle=ser(v), after=ser(after))
            return
        if has_float(curve.ctrlpoints) or has_float(curve.weights):
            rec.violation("float introduced for exact data", case)
        if not sibling_intact("degree elevation"):
            return
        unit_matrix(rec, drv, case, "ops.elev", lambda: heavy.Operations.degree_increase(tuple(U), t), "ops.elev", list(U), t)
        if mode == "roundtrip":
            r = impl(lambda: curve.degree_decrease(t))
            back = curve_state(curve)
            m = drv.call("curve.degdec", *curve_args(*after), t, F(1, 10**9))
            same = errkind(r) == errkind(m) and (r[0] != "ok" or model_curve_state(m[1]) == back)
            l2(rec, "curve.degdec", case, (errkind(r), back), m, same)
            if r[0] != "ok":
                rec.violation("reduction refused although the curve is representable at the lower degree", case, observed=r[1])
            elif back != start:
                rec.violation("elevate-then-reduce did not restore the curve", case, observed=ser(back), expected=ser(start))
            sibling_intact("degree reduction")
        return
    if mode in ("reduce", "forced"):
        tol = F(1, 10**9) if mode == "reduce" else None
        r = impl(lambda: curve.degree_decrease(t) if mode == "reduce" else curve.degree_decrease(t, None))
        after = curve_state(curve)
        m = drv.call("curve.degdec", *curve_args(*start), t, tol)
        same = errkind(r) == errkind(m) and (r[0] != "ok" or model_curve_state(m[1]) == after)
        l2(rec, "curve.degdec", case, (errkind(r), after), m, same)
        rec.count("outcome", errkind(r))
        if not sibling_intact("degree reduction"):
            return
        if r[0] != "ok":
            if after != start:
                rec.violation("refused reduction modified the curve", case, before=ser(start), after=ser(after))
            if errkind(r) != "ValueError":
                rec.violation("reduction failed with %s instead of ValueError" % r[1], case)
            if mode == "forced" and t <= min(U.count(k) for k in knots) - 1 and t <= p:
                # known finding: for a rational curve the refitted denominator may change sign; the weights are then refused
                key = "forced-rational-refit-denominator-changes-sign" if (W is not None and errkind(r) == "ValueError" and errkind(m) == "ValueError") else None
                rec.violation("tolerance=None reduction did not succeed", case, observed=r[1], finding_key=key)
            return
        if mode == "reduce" and W is None:
            d = drv.call("rf.sqdist", *curve_args(*start), *curve_args(*after))
            l3(rec, "rf.sqdist")
            bound = 2 * tol * max(1, U[-1] - U[0])
            if d[0] == "ok" and any(x > bound for x in d[1]):
                rec.violation("accepted reduction deviates more than the tolerance allows", case, sqdist=ser(d[1]))
        if mode == "forced" and kv_info(list(after[0]))[0] >= 1:
            old, new = make_curve(*start), make_curve(*after)
            for z in sorted(set(after[0])):
                if pt_canon(old(z)) != pt_canon(new(z)):
                    rec.violation("forced reduction does not keep the value at a remaining knot", case, knot=str(z))
                    break
        if mode == "forced" and W is None:
            # constrained best approximation: the residual C - D is L2-orthogonal to every spline of the lower-degree space that
            # vanishes at the remaining knots, i.e. its moment vector lies in the row space of the node-evaluation matrix
            S_ = list(after[0])
            ps_, ns_, ks_ = kv_info(S_)
            dim_ = len(P[0])
            g = []
            for i_ in range(ns_):
                e_ = [(F(1),) if j_ == i_ else (F(0),) for j_ in range(ns_)]
                a_ = drv.call("rf.inner", *curve_args(*start), S_, [list(x) for x in e_], None)
                b_ = drv.call("rf.inner", *curve_args(*after), S_, [list(x) for x in e_], None)
                if a_[0] != "ok" or b_[0] != "ok":
                    g = None
                    break
                g.append([x - y for x, y in zip(a_[1], b_[1])])
            l3(rec, "rf.inner-optimality")
            if g is not None:
                # degree 0: no interpolation constraint, plain orthogonal projection (all moments vanish)
                G_ = [list(drv.call("basis.eval", S_, None, ps_, z)[1]) for z in ks_] if ps_ >= 1 else [[F(0)] * ns_]
                for d_ in range(dim_):
                    col = [g[i_][d_] for i_ in range(ns_)]
                    if rank(G_ + [col]) != rank(G_):
                        rec.violation("forced reduction is not the constrained best approximation: the residual is not orthogonal to "
                                      "the splines of the lower degree that vanish at the remaining knots", case, moments=ser(col), result=ser(after))
                        break
        return
    if mode == "invalid":
        for name, fn in [("increase(0)", lambda: curve.degree_increase(0)), ("increase(-1)", lambda: curve.degree_increase(-1)),
                         ("decrease(0)", lambda: curve.degree_decrease(0)), ("decrease(p+1)", lambda: curve.degree_decrease(p + 1)),
                         ("degree=-1", lambda: setattr(curve, "degree", -1))]:
            r = impl(fn)
            if r[0] == "ok":
                rec.violation("invalid request %s accepted" % name, case)
            if curve_state(curve) != start:
                rec.violation("invalid request %s modified the curve" % name, case)
                return


def run(ctx):
    rng = ctx["rng"]
    # corpus: the witness of the recorded finding (KNOWN_FINDINGS.txt) runs first, every time
    run_case(ctx, ser(dict(kind="degree", U=[F(0)] * 3 + [F(11, 20)] * 3 + [F(1)] * 3,
                           P=[(F(-3, 7), F(6)), (F(1, 2), F(-10)), (F(7), F(2, 3)), (F(-3), F(7, 5)), (F(9, 2), F(3, 4)), (F(0), F(7, 3))],
                           W=[F(4), F(2, 3), F(4, 5), F(5, 2), F(1), F(1, 5)], t=1, mode="forced")))
    for i in range(budget(ctx, 4, 40)):
        # multi-span curves elevated to a high final degree (7, 8, 10): binomials and Bezier elevation far beyond the tabulated sizes
        p_, t_ = [(4, 3), (3, 4), (2, 5), (4, 4), (3, 5), (5, 5)][i % 6]
        if i >= 4 and (p_ + t_) > 8 and ctx["tier"] == "quick":
            continue
        U = rand_kv(rng, p=p_, nint=1, maxmult=rng.randint(1, p_))
        P = rand_points(rng, kv_info(U)[1], 1)
        run_case(ctx, ser(dict(kind="degree", U=U, P=P, W=None, t=t_, mode="elevate")))
    for i in range(budget(ctx, 10, 120)):
        # reductions by two: (a) a curve that is representable one degree lower but not two — must be refused and left as it was;
        # (b) forced reduction by two where an interior knot of multiplicity two disappears — one projection, not two
        if i % 2 == 0:
            p_ = rng.randint(1, 2)
            U0 = rand_kv(rng, p=p_, nint=rng.randint(1, 2), maxmult=p_)
            P0 = rand_points(rng, kv_info(U0)[1], rng.choice([1, 2]))
            m = ctx["drv"].call("curve.deginc", *curve_args(U0, P0, None), 1)
            if m[0] != "ok":
                continue
            U1, P1, _ = model_curve_state(m[1])
            run_case(ctx, ser(dict(kind="degree", U=list(U1), P=[tuple(q) for q in P1], W=None, t=2, mode="reduce")))
        else:
            p_ = rng.randint(3, 4)
            a, b = rand_interval(rng)
            inner = sorted(rng.sample(GRID, rng.randint(1, 2)))
            U = [a] * (p_ + 1) + [a + (b - a) * x for x in inner for _ in range(rng.choice([2, 2, 3]))] + [b] * (p_ + 1)
            P = rand_points(rng, kv_info(U)[1], rng.choice([1, 2]))
            run_case(ctx, ser(dict(kind="degree", U=U, P=P, W=None, t=2, mode="forced")))
    for i in range(budget(ctx, 10, 120)):
        # control points far from the origin (1e3 .. 1e6) with a moderate defect: the curve is an elevated curve with one control point
        # moved by 1/100 .. 1, so it is not representable one degree lower and the (absolute) default tolerance must refuse the reduction
        p_ = rng.randint(1, 2)
        U0 = rand_kv(rng, p=p_, nint=rng.randint(0, 2), maxmult=p_)
        off = F(10 ** rng.randint(3, 6))
        P0 = [tuple(x * rng.choice([1, 100, 1000]) + off for x in q) for q in rand_points(rng, kv_info(U0)[1], rng.choice([1, 2]))]
        m = ctx["drv"].call("curve.deginc", *curve_args(U0, P0, None), 1)
        if m[0] != "ok":
            continue
        U1, P1, _ = model_curve_state(m[1])
        P1 = [list(q) for q in P1]
        j = rng.randrange(1, len(P1) - 1) if len(P1) > 2 else 0
        P1[j][0] += F(1, rng.choice([1, 10, 100]))
        run_case(ctx, ser(dict(kind="degree", U=list(U1), P=[tuple(q) for q in P1], W=None, t=1, mode="reduce")))
    for i in range(budget(ctx, 70, 900)):
        mode = rng.choice(["elevate", "elevate", "setter", "roundtrip", "roundtrip", "roundtrip", "reduce", "forced", "invalid"])
        U, P, W = rand_curve(rng, pmax=3, nintmax=2, force_zero=(i % 6 == 0))
        p, n, knots = kv_info(U)
        t = rng.choice([1, 1, 2, 3]) if len(knots) == 2 else rng.choice([1, 1, 2])
        if mode in ("reduce", "forced"):
            t = 1
            if p == 0:
                continue
        run_case(ctx, ser(dict(kind="degree", U=U, P=P, W=W, t=t, mode=mode)))
