"""C08 — curve arithmetic is pointwise."""
from common import *  # noqa: F401,F403

RULE = ("random pairs of curves on the same interval: equal and different degrees (0..3), disjoint / shared interior knots with different "
        "multiplicities, polynomial and rational operands, scalar- and vector-valued points; operators + - * @ /, unary minus, and the "
        "scalar / matrix variants s+A, A+s, s-A, A-s, s*A, A*s, A/s, s/A, M@A, A@M (python numbers, Fractions, numpy arrays); operands on "
        "different intervals.  Non-trivial: some operand has an interior knot or degree >= 2; distinct = distinct (A, B, operator)."
        " Also: rational operands with equal weight tuples on different knot vectors, float twin first; Bezier operands of degree 4..5.")
EXPLANATION = ("L3: for the implementation's result C the relation C = A op B is decided on the span polynomials of A, B and C (cross-multiplied "
               "for rational operands), i.e. for every u at once (`rf.rel`, `rf.map`); L2: the result is compared with the model's result as a "
               "function (`rf.eq`), and as a state where the property fixes the representation (sum on the union vector).")
ASSUMPTIONS = ["weights positive; divisors have positive control values (no zero)"]

BINOPS = {"add": lambda a, b: a + b, "sub": lambda a, b: a - b, "mul": lambda a, b: a * b,
          "matmul": lambda a, b: a @ b, "div": lambda a, b: a / b}


def run_case(ctx, case):
    rec, drv = ctx["rec"], ctx["drv"]
    c = de(case)
    A = (c["A"]["U"], [tuple(p) for p in c["A"]["P"]], c["A"]["W"])
    ca = make_curve(*A)
    sa = curve_state(ca)
    op = c["op"]
    rec.count("op", op)
    if c["kind"] == "binary":
        B = (c["B"]["U"], [tuple(p) for p in c["B"]["P"]], c["B"]["W"])
        cb = make_curve(*B)
        sb = curve_state(cb)
        rec.case(case, nontrivial=nontrivial_kv(A[0]) or nontrivial_kv(B[0]))
        rec.count("operands", ("rat" if A[2] else "poly") + "-" + ("rat" if B[2] else "poly"))
        if (A[0][0], A[0][-1]) == (B[0][0], B[0][-1]):
            impl(lambda: BINOPS[op](float_twin(*A), float_twin(*B)))      # float data first (cross-call caches)
            ta, tb = mixed_twins(*A), mixed_twins(*B)
            if ta and tb:
                impl(lambda: BINOPS[op](ta[-1], tb[-1]))                   # int / float knots with exact points
        if op in ("mul", "matmul", "div") and (A[0][0], A[0][-1]) == (B[0][0], B[0][-1]):
            # unit level tie: the product knot vector
            kvm = impl(lambda: heavy.MathOperations.knotvector_mul(tuple(A[0]), tuple(B[0])))
            mk_ = drv.call("ops.mulkv", list(A[0]), list(B[0]))
            okk = (kvm[0] == "ok") == (mk_[0] == "ok") and (kvm[0] != "ok" or tuple(frac(x) for x in kvm[1]) == tuple(mk_[1][0]))
            l2(rec, "ops.mulkv", case, errkind(kvm) if kvm[0] != "ok" else ser(tuple(frac(x) for x in kvm[1])), mk_, okk)
        r = impl(lambda: BINOPS[op](ca, cb))
        if curve_state(ca) != sa or curve_state(cb) != sb:
            rec.violation("operator %s modified an operand" % op, case)
        m = drv.call("curve.bin", op, *curve_args(*sa), *curve_args(*sb))
        if (A[0][0], A[0][-1]) != (B[0][0], B[0][-1]):
            l2(rec, "curve.bin.reject", case, errkind(r), errkind(m), errkind(r) == errkind(m))
            if errkind(r) != "ValueError":
                rec.violation("operands on different intervals did not raise ValueError", case, observed=str(r)[:200])
            return
        if r[0] != "ok":
            rec.violation("operator %s raised" % op, case, observed=r[1])
            l2(rec, "curve.bin", case, errkind(r), errkind(m), errkind(r) == errkind(m))
            return
        C = curve_state(r[1])
        v = drv.call("rf.rel", op, *curve_args(*sa), *curve_args(*sb), *curve_args(*C))
        l3(rec, "rf.rel")
        if v != ("ok", "yes"):
            rec.violation("(A %s B)(u) differs from A(u) %s B(u)" % (op, op), case, oracle=ser(v), result=ser(C))
            return
        if m[0] != "ok":
            l2(rec, "curve.bin", case, "ok", m, False)
        else:
            mc = model_curve_state(m[1])
            if op in ("add", "sub") and A[2] is None and B[2] is None:
                l2(rec, "curve.bin.state", case, C, mc, C == mc)
            else:
                e = drv.call("rf.eq", *curve_args(*C), *curve_args(*mc))
                l2(rec, "curve.bin.function", case, C, mc, e == ("ok", "yes"))
        if has_float(r[1].ctrlpoints) or has_float(r[1].weights):
            rec.violation("float introduced for exact data", case, op=op)
        return
    # unary / scalar variants
    rec.case(case, nontrivial=nontrivial_kv(A[0]))
    arg = c.get("arg")
    dim = len(A[1][0])
    scalar_pts = all(len(p) == 1 for p in A[1])
    if op in ("mleft", "mright"):
        M = np.array([[x for x in row] for row in arg], dtype=object)
    if op in ("cadd", "rcadd", "csub", "rcsub"):
        vec = arg[0] if scalar_pts else np.array(list(arg), dtype=object)
    fns = {
        "neg": lambda: -ca,
        "smul": lambda: ca * arg, "rsmul": lambda: arg * ca, "sdiv": lambda: ca / arg, "rdiv": lambda: arg / ca,
        "cadd": lambda: ca + vec, "rcadd": lambda: vec + ca, "csub": lambda: ca - vec, "rcsub": lambda: vec - ca,
        "mleft": lambda: M @ ca, "mright": lambda: ca @ M,
    }
    r = impl(fns[op])
    if curve_state(ca) != sa:
        rec.violation("operator %s modified its operand" % op, case)
    if r[0] != "ok":
        rec.violation("operator %s raised" % op, case, observed=r[1])
        return
    C = curve_state(r[1])
    spec = {"neg": ("neg", None), "smul": ("smul", arg), "rsmul": ("smul", arg), "sdiv": ("sdiv", arg), "rdiv": ("rdiv", arg),
            "cadd": ("cadd", arg), "rcadd": ("cadd", arg), "mleft": ("mleft", arg), "mright": ("mright", arg)}
    if op in ("csub",):
        v = drv.call("rf.map", "cadd", *curve_args(*sa), *curve_args(*C), [-x for x in arg])
    elif op == "rcsub":
        neg = drv.call("curve.neg", *curve_args(*sa))
        v = drv.call("rf.map", "cadd", *curve_args(*model_curve_state(neg[1])), *curve_args(*C), arg)
    else:
        name, a = spec[op]
        v = drv.call("rf.map", name, *curve_args(*sa), *curve_args(*C), *([] if a is None else [a]))
    l3(rec, "rf.map")
    if v != ("ok", "yes"):
        rec.violation("scalar/matrix variant %s is not pointwise" % op, case, oracle=ser(v), result=ser(C))


def pair(rng, label):
    interval = rand_interval(rng)
    pa, pb = rng.randint(0, 3), rng.randint(0, 3)
    if label == "samedeg":
        pb = pa
    UA = rand_kv(rng, p=pa, nintmax=2, interval=interval, maxmult=max(1, pa))
    UB = rand_kv(rng, p=pb, nintmax=2, interval=interval, maxmult=max(1, pb))
    if label == "shared" and len(set(UA)) > 2:
        k = sorted(set(UA))[1]
        if k not in UB:
            UB = sorted(UB + [k] * rng.randint(1, max(1, pb)))
    return UA, UB


def run(ctx):
    rng = ctx["rng"]
    # corpus: witnesses D3 (different degrees), D4 (product space), D8 (s / A), D20 (A @ B)
    h = F(1, 2)
    lin = dict(U=[F(0), F(0), h, F(1), F(1)], P=[(F(1),), (F(2),), (F(5),)], W=None)
    lin2 = dict(U=[F(0), F(0), h, F(1), F(1)], P=[(F(1),), (F(0),), (F(3),)], W=None)
    quad = dict(U=[F(0)] * 3 + [F(1, 3)] + [F(1)] * 3, P=[(F(1),), (F(0),), (F(3),), (F(1),)], W=None)
    run_case(ctx, ser(dict(kind="binary", op="add", A=lin, B=quad)))
    run_case(ctx, ser(dict(kind="binary", op="mul", A=lin, B=lin2)))
    run_case(ctx, ser(dict(kind="unary", op="rdiv", A=dict(U=[F(0), F(0), F(1), F(1)], P=[(F(1),), (F(2),)], W=None), arg=F(3))))
    va = dict(U=[F(0), F(0), F(1), F(1)], P=[(F(1), F(2)), (F(3), F(5))], W=None)
    vb = dict(U=[F(0), F(0), h, F(1), F(1)], P=[(F(1), F(0)), (F(2), F(1)), (F(1), F(4))], W=None)
    run_case(ctx, ser(dict(kind="binary", op="matmul", A=va, B=vb)))
    run_case(ctx, ser(dict(kind="binary", op="mul", A=va, B=lin)))
    for i in range(budget(ctx, 90, 1200)):
        label = rng.choice(["samedeg", "diffdeg", "shared", "diffdeg", "interval"])
        UA, UB = pair(rng, label)
        op = rng.choice(["add", "sub", "mul", "mul", "div", "matmul", "add"])
        dim = rng.choice([1, 1, 2]) if op != "matmul" else rng.choice([2, 3])
        na, nb = kv_info(UA)[1], kv_info(UB)[1]
        ratA = rng.random() < 0.3
        ratB = rng.random() < 0.3
        # keep rational products small: they multiply three or four splines
        if (ratA or ratB) and (kv_info(UA)[0] + kv_info(UB)[0] > 3):
            ratA = ratB = False
        PA = rand_points(rng, na, dim)
        dimb = 1 if op == "div" else (dim if rng.random() < 0.6 or op in ("matmul", "add", "sub") else 1)
        PB = rand_points(rng, nb, dimb)
        if op == "div":
            PB = [(F(rng.randint(1, 9), rng.randint(1, 4)),) for _ in range(nb)]
        WA = rand_weights(rng, na, rng.choice(["pos", "pos", "pos", "neg"])) if ratA else None
        WB = rand_weights(rng, nb, "pos") if ratB else None
        if label == "interval":
            UB = [x + 1 for x in UB]
        run_case(ctx, ser(dict(kind="binary", op=op, A=dict(U=UA, P=PA, W=WA), B=dict(U=UB, P=PB, W=WB))))
    for i in range(budget(ctx, 14, 140)):
        # operands over "the same basis at first sight": equal degree, equal number of control points, equal distinct knots — only the
        # interior multiplicities are distributed differently
        pr = same_breakpoint_pair(rng)
        if pr is None:
            continue
        UA, UB = pr
        op = rng.choice(["add", "sub", "add", "mul"])
        dim = rng.choice([1, 1, 2])
        na = kv_info(UA)[1]
        rat = rng.random() < 0.2 and kv_info(UA)[0] <= 1
        run_case(ctx, ser(dict(kind="binary", op=op, A=dict(U=UA, P=rand_points(rng, na, dim), W=(rand_weights(rng, na, "pos") if rat else None)),
                               B=dict(U=UB, P=rand_points(rng, na, dim), W=None))))
        ctx["rec"].count("family", "same-breakpoints-different-multiplicities")
    for i in range(budget(ctx, 6, 40)):
        # products of higher degree (Bezier operands of degree 4..5, the same or different degrees): binomials up to C(10, k)
        iv = rand_interval(rng)
        pa_, pb_ = rng.randint(4, 5), rng.randint(4, 5) if i % 2 == 0 else rng.randint(2, 4)
        UA = [iv[0]] * (pa_ + 1) + [iv[1]] * (pa_ + 1)
        UB = [iv[0]] * (pb_ + 1) + [iv[1]] * (pb_ + 1)
        op = rng.choice(["mul", "mul", "matmul"])
        dim = 1 if op == "mul" else 2
        run_case(ctx, ser(dict(kind="binary", op=op, A=dict(U=UA, P=rand_points(rng, pa_ + 1, dim), W=None),
                               B=dict(U=UB, P=rand_points(rng, pb_ + 1, dim), W=None))))
    for i in range(budget(ctx, 12, 150)):
        # rational operands with the *same* weight tuple (and the same number of control points) on different knot vectors, and on
        # the same knot vector: the denominators are the same function only in the second case
        p_ = rng.randint(1, 2)
        n_ = p_ + 1 + rng.randint(1, 2)
        iv = rand_interval(rng)

        def kv_n(deg):
            inner = sorted(rng.sample(GRID, n_ - deg - 1))
            return [iv[0]] * (deg + 1) + [iv[0] + (iv[1] - iv[0]) * x for x in inner] + [iv[1]] * (deg + 1)
        UA = kv_n(p_)
        UB = UA if i % 4 == 3 else kv_n(p_ if (rng.random() < 0.6 or n_ <= p_ + 2) else p_ + 1)
        W = [F(rng.randint(1, 9), rng.randint(1, 3)) for _ in range(n_)]
        if len(set(W)) == 1:
            W[0] += 1
        dim = rng.choice([1, 2])
        run_case(ctx, ser(dict(kind="binary", op=rng.choice(["add", "sub", "add"]), A=dict(U=UA, P=rand_points(rng, n_, dim), W=W),
                               B=dict(U=UB, P=rand_points(rng, n_, dim), W=list(W)))))
    for i in range(budget(ctx, 60, 600)):
        U, P, W = rand_curve(rng, pmax=3, nintmax=2)
        dim = len(P[0])
        op = rng.choice(["neg", "smul", "rsmul", "sdiv", "rdiv", "cadd", "rcadd", "csub", "rcsub", "mleft", "mright"])
        arg = None
        if op in ("smul", "rsmul"):
            arg = rand_rat(rng)
        elif op in ("sdiv",):
            arg = F(rng.randint(1, 9), rng.randint(1, 5)) * rng.choice([1, -1])
        elif op == "rdiv":
            P = [(F(rng.randint(1, 9), rng.randint(1, 4)),) for _ in P]
            arg = rand_rat(rng)
        elif op in ("cadd", "rcadd", "csub", "rcsub"):
            arg = [rand_rat(rng) for _ in range(dim)]
        elif op in ("mleft", "mright"):
            if dim == 1:
                P = rand_points(rng, len(P), 2)
                dim = 2
            arg = [[rand_rat(rng) for _ in range(dim)] for _ in range(dim)]
        run_case(ctx, ser(dict(kind="unary", op=op, A=dict(U=U, P=P, W=W), arg=arg)))
