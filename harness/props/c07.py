"""C07 — splitting restricts the curve exactly; joining adjacent pieces restores it."""
from common import *  # noqa: F401,F403
from copy import copy

RULE = ("random curves (polynomial/rational, degree 0..3, repeated knots): split at random nodes (new values, existing knots, ends, repeats), "
        "split() into Bezier pieces, re-join of the pieces; independently built adjacent pairs (continuous or not, different degrees, "
        "rational or not, reciprocal-like pairs c/D_A, c/D_B with a smooth numerator); different meeting points.  Non-trivial: degree >= 1 and at least one cut; distinct = distinct (curve, nodes)."
        " Also: operands refined by knot insertion (only the junction knot may lose multiplicity), repeated split after modifying the pieces; integer / dyadic knot vectors with an int- or float-knot twin split first.")
EXPLANATION = ("L2: pieces and joined curve vs the model; L3: `rf.eqsub` (each piece equals the original on its sub-interval, for every u), "
               "piece count / clamping, `rf.eq` of the re-joined curve, expected junction multiplicities from the exact jump orders (`rf.needed`).")
ASSUMPTIONS = ["weights positive"]


def join_all(pieces):
    out = pieces[0]
    for q in pieces[1:]:
        out = out | q
    return out


def run_case(ctx, case):
    rec, drv = ctx["rec"], ctx["drv"]
    c = de(case)
    if c["kind"] == "pair":
        return run_pair(ctx, case, c)
    U, P, W, nodes = c["U"], [tuple(p) for p in c["P"]], c["W"], c["nodes"]
    p, n, knots = kv_info(U)
    rec.case(case, nontrivial=(p >= 1 and (nodes is None or len(nodes) > 0)))
    rec.count("weights", "rational" if W is not None else "polynomial")
    rec.count("split", "bezier-pieces" if nodes is None else "nodes")
    curve = make_curve(U, P, W)
    start = curve_state(curve)
    # the same split on numerically equal knots of another number type first (python ints / floats with the very same exact
    # nodes): whatever the library memoises on knot tuples is then filled by that computation
    for tw in mixed_twins(U, P, W):
        impl(lambda: tw.split() if nodes is None else tw.split(list(nodes)))
        impl(lambda: tw.degree_increase(1))
        rec.count("twin", "mixed-knot-types")
    form = form_of(case)
    rec.count("nodes-as", form)
    r = impl(lambda: curve.split() if nodes is None else curve.split(as_form(nodes, form)))
    if curve_state(curve) != start:
        rec.violation("split modified the curve", case)
    m = drv.call("curve.split", *curve_args(*start), nodes)
    if r[0] != "ok":
        l2(rec, "curve.split", case, errkind(r), m, errkind(r) == errkind(m))
        rec.violation("split raised", case, observed=r[1])
        return
    pieces = [curve_state(x) for x in r[1]]
    same = m[0] == "ok" and [model_curve_state(x) for x in m[1]] == pieces
    l2(rec, "curve.split", case, pieces, m, same)
    ns_ = list(knots) if nodes is None else list(nodes)
    unit_matrix(rec, drv, case, "ops.split", lambda: heavy.Operations.split_curve(tuple(U), tuple(ns_)), "ops.split", list(U), ns_, multi=True)
    cuts = sorted(set([U[0], U[-1]] + (list(knots) if nodes is None else list(nodes))))
    if len(pieces) != len(cuts) - 1:
        rec.violation("wrong number of pieces", case, observed=len(pieces), expected=len(cuts) - 1)
        return
    for (a, b), pc in zip(zip(cuts[:-1], cuts[1:]), pieces):
        pu = list(pc[0])
        if pu[0] != a or pu[-1] != b or pu.count(a) != p + 1 or pu.count(b) != p + 1:
            rec.violation("piece is not clamped on its sub-interval", case, piece=ser(pc), interval=[str(a), str(b)])
            return
        if sorted(x for x in U if a < x < b) != sorted(x for x in pu if a < x < b):
            rec.violation("piece lost or gained interior knots", case, piece=ser(pc))
        v = drv.call("rf.eqsub", *curve_args(*start), *curve_args(*pc))
        l3(rec, "rf.eqsub")
        if v != ("ok", "yes"):
            rec.violation("piece differs from the original curve on its sub-interval", case, oracle=ser(v), piece=ser(pc))
            return
    # a second split of the unchanged curve gives the same pieces, even after the first pieces were modified in place
    first = list(r[1])
    for pc_obj in first:
        impl(lambda: pc_obj.degree_increase(1))
    r_again = impl(lambda: curve.split() if nodes is None else curve.split(list(nodes)))
    if r_again[0] != "ok" or [curve_state(x) for x in r_again[1]] != pieces:
        rec.violation("split of the unchanged curve returned different pieces after the first pieces were modified (shared objects)", case,
                      first=ser(pieces), second=ser([curve_state(x) for x in r_again[1]] if r_again[0] == "ok" else r_again[1]))
        return
    r = r_again
    # joining the pieces gives back the original
    r = impl(lambda: join_all(list(r[1])))
    if r[0] != "ok":
        rec.violation("joining the pieces of a split raised", case, observed=r[1])
        return
    joined = curve_state(r[1])
    v = drv.call("rf.eq", *curve_args(*start), *curve_args(*joined))
    l3(rec, "rf.eq")
    if v != ("ok", "yes"):
        rec.violation("joined pieces differ from the original curve", case, oracle=ser(v), joined=ser(joined))
        return
    if W is None:
        # expected knot vector: the original one, junction knots with just the multiplicity the curve needs
        need = drv.call("rf.needed", *curve_args(*joined))
        want = list(U)
        inner_cuts = [x for x in cuts[1:-1]]
        nd = drv.call("rf.needed", *curve_args(*start))
        needed = {x: int(k) for x, k in nd[1]} if nd[0] == "ok" else {}
        for x in inner_cuts:
            have = want.count(x)
            k = needed.get(x, 0)
            for _ in range(have - min(have, k)):
                want.remove(x)
        if tuple(want) != joined[0]:
            rec.violation("joined curve is not on the original knot vector with minimal junction multiplicities", case,
                          observed=ser(joined[0]), expected=ser(want))
    else:
        # rational curves: numerator and denominator of the pieces are restrictions of those of the original, so every copy a
        # cut added can be removed again — no junction knot may end with more copies than the original had, no other knot changes
        ju = list(joined[0])
        for x in sorted(set(ju) | set(U)):
            have, had = ju.count(x), list(U).count(x)
            if (x in cuts[1:-1] and have > had) or (x not in cuts[1:-1] and have != had):
                rec.violation("joined pieces of a rational curve are not on the original knot vector (junction knots may only lose copies)", case,
                              knot=str(x), observed=ser(ju), original=ser(U))
                break
    mj = drv.call("curve.join", *curve_args(*pieces[0]), *curve_args(*pieces[1])) if len(pieces) >= 2 else None
    if mj is not None:
        r2 = impl(lambda: make_curve(*pieces[0]) | make_curve(*pieces[1]))
        same = errkind(r2) == errkind(mj) and (r2[0] != "ok" or model_curve_state(mj[1]) == curve_state(r2[1]))
        l2(rec, "curve.join", case, r2 if r2[0] != "ok" else curve_state(r2[1]), mj, same)


def run_pair(ctx, case, c):
    rec, drv = ctx["rec"], ctx["drv"]
    A = (c["A"]["U"], [tuple(p) for p in c["A"]["P"]], c["A"]["W"])
    B = (c["B"]["U"], [tuple(p) for p in c["B"]["P"]], c["B"]["W"])
    rec.case(case, nontrivial=True)
    rec.count("pair", c.get("label", "?"))
    ca, cb = make_curve(*A), make_curve(*B)
    sa, sb = curve_state(ca), curve_state(cb)
    r = impl(lambda: ca | cb)
    m = drv.call("curve.join", *curve_args(*sa), *curve_args(*sb))
    if curve_state(ca) != sa or curve_state(cb) != sb:
        rec.violation("join modified an operand", case)
    if A[0][-1] != B[0][0]:
        l2(rec, "curve.join.reject", case, errkind(r), errkind(m), errkind(r) == errkind(m))
        if errkind(r) != "ValueError":
            rec.violation("joining curves that do not share the meeting parameter did not raise ValueError", case, observed=str(r)[:200])
        return
    if r[0] != "ok":
        rec.violation("join of adjacent curves raised", case, observed=r[1])
        return
    J = curve_state(r[1])
    same = m[0] == "ok" and model_curve_state(m[1]) == J
    l2(rec, "curve.join", case, J, m, same)
    for name, X in (("left", sa), ("right", sb)):
        v = drv.call("rf.eqsub", *curve_args(*J), *curve_args(*X))
        l3(rec, "rf.eqsub")
        if v != ("ok", "yes"):
            rec.violation("joined curve differs from the %s operand on its interval" % name, case, oracle=ser(v), joined=ser(J))
            return
    if J[0][0] != A[0][0] or J[0][-1] != B[0][-1]:
        rec.violation("joined curve has the wrong interval", case)
    # only the junction knot may lose multiplicity: every other interior knot of A and B stays, raised by the degree gap
    pa_, pb_ = kv_info(list(A[0]))[0], kv_info(list(B[0]))[0]
    r_ = max(pa_, pb_)
    l3(rec, "join-keeps-other-knots")
    for (Uo, po) in ((A[0], pa_), (B[0], pb_)):
        for x in sorted(set(Uo)):
            if x in (Uo[0], Uo[-1]):
                continue
            want = list(Uo).count(x) + (r_ - po)
            if list(J[0]).count(x) != want:
                rec.violation("join changed the multiplicity of a knot that is not the junction", case, knot=str(x),
                              observed=list(J[0]).count(x), expected=want, joined=ser(J[0]))
                return


def run(ctx):
    rng = ctx["rng"]
    # corpus: D6 (rational split), D7 (degree-0 join, discontinuous join)
    run_case(ctx, ser(dict(kind="split", U=[F(0)] * 3 + [F(1)] * 3, P=[(F(1),), (F(3),), (F(2),)], W=[F(1), F(2), F(3)], nodes=[F(1, 3)])))
    run_case(ctx, ser(dict(kind="pair", label="degree0", A=dict(U=[F(0), F(1)], P=[(F(1),)], W=None), B=dict(U=[F(1), F(2)], P=[(F(3),)], W=None))))
    for i in range(budget(ctx, 70, 900)):
        U, P, W = rand_curve(rng, pmax=3, nintmax=3, force_zero=(i % 6 == 0))
        p, n, knots = kv_info(U)
        a, b = U[0], U[-1]
        if rng.random() < 0.25:
            nodes = None
        else:
            nodes = []
            for _ in range(rng.randint(1, 3)):
                r = rng.random()
                nodes.append(rng.choice(knots) if r < 0.4 else a + (b - a) * rng.choice(GRID))
            if rng.random() < 0.3:
                nodes.append(nodes[0])
        run_case(ctx, ser(dict(kind="split", U=U, P=P, W=W, nodes=nodes)))
    for i in range(budget(ctx, 14, 150)):
        # integer / dyadic knot vectors (they exist as python ints / floats too): split at knots, at integers / dyadic values
        U = rand_int_kv(rng, pmax=3, nintmax=2) if i % 2 == 0 else rand_dyadic_kv(rng, pmax=3, nintmax=2)
        n_ = kv_info(U)[1]
        P = rand_points(rng, n_, rng.choice([1, 2]))
        W = rand_weights(rng, n_, rng.choice(["none", "none", "pos"]))
        a, b = U[0], U[-1]
        if rng.random() < 0.3:
            nodes = None
        else:
            cand = sorted(set(U)) + [a + (b - a) * F(k, 8) for k in range(1, 8)]
            nodes = [rng.choice(cand) for _ in range(rng.randint(1, 3))]
        run_case(ctx, ser(dict(kind="split", U=U, P=P, W=W, nodes=nodes)))
    for i in range(budget(ctx, 50, 600)):
        dim = rng.choice([1, 2])
        pa, pb = rng.randint(0, 3), rng.randint(0, 3)
        mid = F(rng.randint(-2, 2))
        UA = rand_kv(rng, p=pa, nintmax=2, interval=(mid - rng.randint(1, 2), mid))
        UB = rand_kv(rng, p=pb, nintmax=2, interval=(mid, mid + rng.randint(1, 3)))
        label = rng.choice(["continuous", "continuous", "jump", "rational", "mismatch", "refined", "refined", "shared-numerator", "far-small-step"])
        na, nb = kv_info(UA)[1], kv_info(UB)[1]
        PA, PB = rand_points(rng, na, dim), rand_points(rng, nb, dim)
        WA = WB = None
        if label == "far-small-step":
            # a pair far from the origin (coordinates of several thousands) whose junction carries a small but real step or kink
            # (a tenth of a unit): the junction knot is needed, however large the coordinates are
            off = F(rng.choice([5000, 8000, 20000, -12000]))
            small = lambda: tuple(F(rng.randint(-9, 9), 10) for _ in range(dim))     # noqa: E731
            base = tuple(off + F(rng.randint(-3, 3)) for _ in range(dim))
            PA = [tuple(b + s_ for b, s_ in zip(base, small())) for _ in range(na)]
            PB = [tuple(b + s_ for b, s_ in zip(base, small())) for _ in range(nb)]
            if rng.random() < 0.5:
                PB[0] = PA[-1]              # continuous: only a kink
        if label == "refined":
            # an operand that carries removable interior knots (it was refined by knot insertion): only the junction knot may lose
            # multiplicity in a join, every other knot of A and B stays
            if rng.random() < 0.5:
                PB[0] = PA[-1]
            which = rng.choice(["A", "B", "AB"])
            if "A" in which and pa >= 1:
                x = UA[0] + (UA[-1] - UA[0]) * rng.choice(GRID)
                m = ctx["drv"].call("curve.insert", *curve_args(UA, PA, None), [x] * rng.randint(1, max(1, pa - UA.count(x))))
                if m[0] == "ok":
                    UA, PA, _ = model_curve_state(m[1])
                    UA, PA = list(UA), [tuple(q) for q in PA]
            if "B" in which and pb >= 1:
                x = UB[0] + (UB[-1] - UB[0]) * rng.choice(GRID)
                m = ctx["drv"].call("curve.insert", *curve_args(UB, PB, None), [x] * rng.randint(1, max(1, pb - UB.count(x))))
                if m[0] == "ok":
                    UB, PB, _ = model_curve_state(m[1])
                    UB, PB = list(UB), [tuple(q) for q in PB]
        if label in ("continuous", "rational"):
            PB[0] = PA[-1]
        if label == "rational":
            WA = rand_weights(rng, na, rng.choice(["pos", "none"]))
            WB = rand_weights(rng, nb, "pos")
        if label == "shared-numerator":
            # A = c / D_A, B = c / D_B: the homogeneous numerator w_i P_i is the same constant on both sides (perfectly smooth across the
            # junction) while the weight functions only meet continuously: the junction knot is needed by the denominator alone
            cst = F(rng.randint(1, 9), rng.randint(1, 3))
            WA = [F(rng.randint(1, 9), rng.randint(1, 3)) for _ in range(na)]
            WB = [F(rng.randint(1, 9), rng.randint(1, 3)) for _ in range(nb)]
            WB[0] = WA[-1]
            PA = [(cst / w,) for w in WA]
            PB = [(cst / w,) for w in WB]
        if label == "mismatch":
            UB = [x + F(1, 3) for x in UB]
        run_case(ctx, ser(dict(kind="pair", label=label, A=dict(U=UA, P=PA, W=WA), B=dict(U=UB, P=PB, W=WB))))
