"""C18 — generators and affine maps produce exactly the advertised knot vectors."""
from common import *  # noqa: F401,F403

RULE = ("GeneratorKnotVector.bezier/integer/uniform/random/weight for degree 0..6, npts up to 60 (quick) / 400 (thorough), cls in "
        "{int, float, Fraction}; shift / scale / normalize on random valid vectors (Fraction and float); basis-function and curve "
        "invariance under u -> s*u + a.  Non-trivial: npts > degree + 1; distinct = distinct (generator, arguments)."
        " Also: one KnotVector object inspected and evaluated before in-place shift/scale/normalize/convert; far exact translations (1e6..1e12); the basis over exact generated vectors evaluated after their int / float twins; the reparametrisation applied in place to the knot vector of a copy / deepcopy of a curve or basis (the original must stay, the copy must be the same function of u).")
EXPLANATION = ("L2: generator output vs the model (exact for Fraction/int, 1e-12 for float with the interval ends compared exactly); L3: degree, "
               "npts, simple interior knots, spacing, exact [0,1] limits, preserved multiplicities and the affine-invariance identity evaluated "
               "exactly on the real objects.")
ASSUMPTIONS = []


def check_basic(rec, case, kv, p, n, what):
    U = [frac(x) for x in kv]
    if kv.degree != p or kv.npts != n:
        rec.violation("%s: wrong degree/npts" % what, case, observed=[kv.degree, kv.npts])
        return None
    if U.count(U[0]) != p + 1 or U.count(U[-1]) != p + 1 or sorted(U) != U:
        rec.violation("%s: not clamped / sorted" % what, case, observed=ser(U))
        return None
    inner = [x for x in U if U[0] < x < U[-1]]
    if len(inner) != len(set(inner)) or len(inner) != n - p - 1:
        rec.violation("%s: interior knots are not simple" % what, case, observed=ser(U))
        return None
    return U


def run_case(ctx, case):
    rec, drv = ctx["rec"], ctx["drv"]
    c = de(case)
    kind = c["kind"]
    rec.count("kind", kind)
    G = GeneratorKnotVector
    if kind == "gen":
        gen, p, n, clsname = c["gen"], int(c["p"]), int(c["n"]), c["cls"]
        cls = {"int": int, "float": float, "Fraction": F, "mixed": F}[clsname]
        if clsname == "mixed":
            # a weight list whose entries have different number types (every value exactly representable in its type)
            tmap = {"int": int, "float": float, "Fraction": F}
            wsi = [tmap[t](w) for t, w in zip(c["wtypes"], c["ws"])]
        elif gen == "weight":
            wsi = [cls(w) if clsname != "Fraction" else w for w in c["ws"]]
        rec.case(case, nontrivial=n > p + 1)
        rec.count("gen", gen + "/" + clsname)
        exact = clsname != "float" and not (clsname == "mixed" and "float" in c["wtypes"])
        if gen == "bezier":
            r = impl(lambda: G.bezier(p, cls))
            m = drv.call("gen.bezier", p)
            n = p + 1
        elif gen == "integer":
            r = impl(lambda: G.integer(p, n, cls))
            m = drv.call("gen.integer", p, n)
        elif gen == "uniform":
            r = impl(lambda: G.uniform(p, n, cls))
            m = drv.call("gen.uniform", p, n)
        elif gen == "weight":
            ws = c["ws"]
            r = impl(lambda: G.weight(p, list(wsi)))
            m = drv.call("gen.weight", p, ws)
            n = p + len(ws)
        elif gen == "random":
            np.random.seed(int(c["npseed"]))
            r = impl(lambda: G.random(p, n, cls))
            np.random.seed(int(c["npseed"]))
            ws = [F(int(w)) for w in np.random.randint(1, 1000, n - p)]
            m = drv.call("gen.random", p, ws)
        if r[0] != "ok":
            rec.violation("generator %s raised" % gen, case, observed=r[1])
            return
        kv = r[1]
        U = check_basic(rec, case, kv, p, n, gen)
        if U is None:
            return
        l3(rec, "generator-spec")
        mu = list(m[1][0]) if m[0] == "ok" else None
        if clsname == "int" and gen in ("uniform", "random"):
            exact = False       # int knots are divided: floats (allowed by the statement)
        ok = mu is not None and (U == mu if exact else all(close(x, y, F(1, 10**12)) for x, y in zip(U, mu)))
        l2(rec, "gen." + gen, case, U, m, ok)
        if gen in ("bezier", "uniform", "random") and (U[0] != 0 or U[-1] != 1):
            rec.violation("%s: interval is not exactly [0, 1]" % gen, case, observed=[str(U[0]), str(U[-1])])
        if gen in ("integer", "uniform"):
            ks = sorted(set(U))
            steps = [b - a for a, b in zip(ks[:-1], ks[1:])]
            h = F(1) if gen == "integer" else F(1, len(ks) - 1)
            tol = 0 if (exact or gen == "integer") else F(1, 10**12)
            if any(abs(s - h) > tol for s in steps):
                rec.violation("%s: spacing is not equal" % gen, case, observed=ser(steps[:5]))
        if gen == "weight":
            ks = sorted(set(U))
            steps_ = [b - a for a, b in zip(ks[:-1], ks[1:])]
            if len(steps_) != len(wsi) or any((s_ != frac(w)) if exact else not close(s_, frac(w), F(1, 10**12)) for s_, w in zip(steps_, wsi)):
                rec.violation("weight: knot spacing differs from the weights", case)
        if clsname == "Fraction" and not all(isinstance(x, F) for x in kv):
            rec.violation("%s: knots are not exact Fractions for cls=Fraction" % gen, case, observed=str([type(x).__name__ for x in kv][:4]))
        if clsname == "Fraction" and gen in ("bezier", "integer", "uniform") and p <= 4 and n <= 12:
            # the generated vector is used: the basis over the exact vector is exact, also after the int and the float version of the
            # very same generator call were evaluated (anything memoised on numerically equal knot tuples is then not exact)
            for other in (int, float):
                tw = impl(lambda: G.bezier(p, other) if gen == "bezier" else (G.integer(p, n, other) if gen == "integer" else G.uniform(p, n, other)))
                if tw[0] == "ok":
                    impl(lambda: Function(tw[1])((tw[1][0] + tw[1][-1]) / 2))
            us_ = [U[0], U[-1], (U[0] + U[-1]) / 2, U[0] + (U[-1] - U[0]) * F(1, 3)]
            got = impl(lambda: [tuple(Function(kv)(u)) for u in us_])
            want = [drv.call("basis.eval", U, None, p, u) for u in us_]
            l3(rec, "basis-of-generated-vector")
            rec.count("gen-evaluated", gen)
            if got[0] != "ok":
                rec.violation("basis over a generated vector cannot be evaluated", case, observed=got[1])
            elif any(w[0] != "ok" or tuple(frac(x) for x in g_) != tuple(w[1]) or has_float(g_) for g_, w in zip(got[1], want)):
                rec.violation("basis over the exact generated vector is not the exact Cox-de Boor basis", case, observed=ser([list(map(str, g_)) for g_ in got[1]][:2]))
        return
    if kind == "affine":
        U, a, s, rep = c["U"], c["a"], c["s"], c["rep"]
        conv = (lambda x: x) if rep == "fraction" else float
        p, n, knots = kv_info(U)
        rec.case(case, nontrivial=nontrivial_kv(U))
        Uc = [frac(conv(x)) for x in U]
        for what, fn, mfn, expect in (
            ("shift", lambda k: k.shift(conv(a)), lambda: drv.call("kv.shift", Uc, frac(conv(a))), None),
            ("scale", lambda k: k.scale(conv(s)), lambda: drv.call("kv.scale", Uc, frac(conv(s))), None),
            ("normalize", lambda k: k.normalize(), lambda: drv.call("kv.normalize", Uc), None),
        ):
            kv = KnotVector([conv(x) for x in U])
            r = impl(lambda: fn(kv))
            m = mfn()
            if r[0] != "ok":
                rec.violation("%s raised" % what, case, observed=r[1])
                continue
            V = [frac(x) for x in kv]
            tol = 0 if rep == "fraction" else F(1, 10**12)
            ok = m[0] == "ok" and all(abs(x - y) <= tol * max(1, abs(y)) for x, y in zip(V, m[1][0]))
            l2(rec, "kv." + what, case, V, m, ok)
            l3(rec, "affine-spec")
            if kv.degree != p or kv.npts != n:
                rec.violation("%s changed degree or npts" % what, case)
            if [V.count(x) for x in sorted(set(V))] != [U.count(x) for x in sorted(set(U))]:
                rec.violation("%s changed the multiplicities" % what, case, observed=ser(V))
            if what == "normalize" and (V[0] != 0 or V[-1] != 1):
                rec.violation("normalize does not map onto exactly [0, 1]", case, observed=[str(V[0]), str(V[-1])])
        for what, val in (("scale", F(0)), ("scale", F(-2))):
            kv = KnotVector(list(U))
            r = impl(lambda: kv.scale(val))
            if r[0] == "ok" or [frac(x) for x in kv] != list(U):
                rec.violation("non-positive scale accepted or modified the vector", case, value=str(val))
        if rep == "fraction":
            # one object, inspected and evaluated before the in-place maps: everything derived from the knots must follow them
            kv = KnotVector(list(U))
            fobj = Function(kv)
            us = params_for(ctx["rng"], U, extra=1)
            before = dict(knots=[frac(x) for x in kv.knots], limits=tuple(frac(x) for x in kv.limits),
                          vals=[tuple(frac(x) for x in fobj(u)) for u in us],
                          spans=[kv.span(x) for x in knots], mults=[kv.mult(x) for x in knots])
            r = impl(lambda: (kv.shift(a), kv.scale(s)))
            l3(rec, "affine-object-state")
            if r[0] != "ok":
                rec.violation("shift/scale raised on an inspected vector", case, observed=r[1])
            else:
                V = [frac(x) for x in kv]
                g = lambda x: (x + a) * s        # noqa: E731
                if V != [g(x) for x in U]:
                    rec.violation("shift then scale on an inspected vector gives wrong knots", case, observed=ser(V))
                obs = impl(lambda: dict(knots=[frac(x) for x in kv.knots], limits=tuple(frac(x) for x in kv.limits),
                                        vals=[tuple(frac(x) for x in Function(kv)(g(u))) for u in us],
                                        spans=[kv.span(g(x)) for x in knots], mults=[kv.mult(g(x)) for x in knots]))
                want = dict(before, knots=[g(x) for x in before["knots"]], limits=tuple(g(x) for x in before["limits"]))
                if obs[0] != "ok":
                    rec.violation("a vector mapped in place cannot be inspected / evaluated any more", case, observed=obs[1])
                elif obs[1] != want:
                    bad = [k for k in want if obs[1][k] != want[k]]
                    rec.violation("after in-place shift/scale the vector reports stale or wrong %s" % ", ".join(bad), case,
                                  observed=ser(obs[1][bad[0]]), expected=ser(want[bad[0]]))
                r = impl(lambda: kv.normalize())
                lo, hi = g(U[0]), g(U[-1])
                wantk = [(x - lo) / (hi - lo) for x in want["knots"]]
                if r[0] != "ok" or [frac(x) for x in kv.knots] != wantk or tuple(frac(x) for x in kv.limits) != (0, 1):
                    rec.violation("after in-place normalize the vector reports stale or wrong knots / limits", case,
                                  observed=ser([frac(x) for x in kv.knots]) if r[0] == "ok" else r[1], expected=ser(wantk))
                r = impl(lambda: (kv.convert(float), list(kv.knots)))
                if r[0] == "ok" and not all(isinstance(x, float) for x in r[1][1]):
                    rec.violation("after convert(float) the distinct knots keep the old number type", case)
        # invariance of the basis under the reparametrisation u -> s*u + a (exact data)
        if rep == "fraction":
            f1 = Function(list(U))
            f2 = Function([s * x + a for x in U])
            for u in params_for(ctx["rng"], U, extra=1):
                v1 = tuple(frac(x) for x in f1(u))
                v2 = tuple(frac(x) for x in f2(s * u + a))
                if v1 != v2:
                    rec.violation("basis functions are not invariant under u -> s*u + a", case, u=str(u))
                    break
            P = rand_points(ctx["rng"], n, 2)
            c1 = make_curve(U, P, None)
            c2 = make_curve([s * x + a for x in U], P, None)
            for u in params_for(ctx["rng"], U, extra=1):
                if pt_canon(c1(u)) != pt_canon(c2(s * u + a)):
                    rec.violation("curve is not invariant under reparametrisation", case, u=str(u))
                    break
            # the same reparametrisation the way a user does it: copy the object, map the copy's knot vector in place
            import copy as _copy
            W = rand_weights(ctx["rng"], n, ctx["rng"].choice(["none", "pos"]))
            us = params_for(ctx["rng"], U, extra=1)
            for what, mk, cp in (("copy(curve)", lambda: make_curve(U, P, W), _copy.copy),
                                 ("deepcopy(curve)", lambda: make_curve(U, P, W), _copy.deepcopy),
                                 ("copy(function)", lambda: _mkfunc(U, W), _copy.copy),
                                 ("deepcopy(function)", lambda: _mkfunc(U, W), _copy.deepcopy)):
                orig = mk()
                ref = [pt_canon(orig(u)) for u in us]
                r = impl(lambda: cp(orig))
                l3(rec, "affine-on-a-copy")
                rec.count("affine", what)
                if r[0] != "ok":
                    rec.violation("%s raised" % what, case, observed=r[1])
                    continue
                dup = r[1]
                r = impl(lambda: (dup.knotvector.scale(s), dup.knotvector.shift(a)))
                if r[0] != "ok":
                    rec.violation("scale/shift of the knot vector of %s raised" % what, case, observed=r[1])
                    continue
                if [frac(x) for x in orig.knotvector] != list(U):
                    rec.violation("mapping the knot vector of %s reparametrised the original object too" % what, case,
                                  observed=ser([frac(x) for x in orig.knotvector]))
                    continue
                got = impl(lambda: ([pt_canon(dup(s * u + a)) for u in us], [pt_canon(orig(u)) for u in us]))
                if got[0] != "ok" or got[1][0] != ref or got[1][1] != ref:
                    rec.violation("%s mapped by u -> s*u + a is not the same function of u (or the original changed)" % what, case,
                                  observed=str(got)[:300])


def _mkfunc(U, W):
    f = Function(list(U))
    if W is not None:
        f.weights = list(W)
    return f


def run(ctx):
    rng = ctx["rng"]
    nmax = budget(ctx, 60, 400)
    run_case(ctx, ser(dict(kind="gen", gen="uniform", p=1, n=50, cls="int")))    # D12 witness
    run_case(ctx, ser(dict(kind="gen", gen="uniform", p=1, n=50, cls="float")))
    for i in range(budget(ctx, 150, 2500)):
        gen = rng.choice(["bezier", "integer", "uniform", "uniform", "random", "random", "weight"])
        p = rng.randint(0, 6)
        n = rng.randint(p + 1, p + nmax)
        clsname = rng.choice(["int", "float", "Fraction"])
        case = dict(kind="gen", gen=gen, p=p, n=n, cls=clsname)
        if gen == "weight":
            k = rng.randint(1, 8)
            case["ws"] = [F(rng.randint(1, 20)) if clsname == "int" else F(rng.randint(1, 40), 8 if clsname == "float" else rng.randint(1, 7)) for _ in range(k)]
        if gen == "random":
            case["npseed"] = rng.randint(0, 2**31 - 1)
        run_case(ctx, ser(case))
        if gen == "weight" and i % 2 == 0:
            k = rng.randint(2, 7)
            wt = [rng.choice(["int", "float", "Fraction"]) for _ in range(k)]
            if i % 4 == 0:
                wt[0] = "int"
            ws = [F(rng.randint(1, 9)) if t == "int" else (F(rng.randint(1, 40), 8) if t == "float" else F(rng.randint(1, 40), rng.randint(2, 7))) for t in wt]
            run_case(ctx, ser(dict(kind="gen", gen="weight", p=p, n=n, cls="mixed", ws=ws, wtypes=wt)))
    for i in range(budget(ctx, 60, 800)):
        U = rand_kv(rng, bigknots=(rng.random() < 0.1))
        run_case(ctx, ser(dict(kind="affine", U=U, a=rand_rat(rng), s=F(rng.randint(1, 9), rng.randint(1, 5)), rep=rng.choice(["fraction", "fraction", "float"]))))
        if i % 4 == 1:
            # far translations of exact vectors (parameters like time stamps): distinctness of knots must not depend on their magnitude
            big = rng.choice([-1, 1]) * rng.choice([1500000, 10**6, 10**9, 10**12]) + rng.randint(0, 9)
            run_case(ctx, ser(dict(kind="affine", U=U, a=F(big), s=F(rng.randint(1, 3)), rep="fraction")))
            rec_ = ctx["rec"]
            rec_.count("affine", "far-translation")
