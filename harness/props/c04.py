"""C04 — knot insertion never changes the curve and yields exactly the requested knots."""
from common import *  # noqa: F401,F403
import units

RULE = ("random valid curves (polynomial and rational, scalar and vector points, degree 0..4, mixed multiplicities, 0 as interior value "
        "forced in a share of cases) with node lists: new nodes, nodes equal to existing knots, repeated nodes, the value 0, several at once, "
        "end nodes; invalid requests: multiplicity above degree+1, nodes outside the interval.  Non-trivial: at least one node really "
        "inserted into a curve of degree >= 1; distinct = distinct (U,P,W,nodes)."
        " Also: nodes distinct from an interior knot but within 1e-9 of it, one ndarray object stored at two indices (closed curves), both end knots in one request, float twin of every request first.")
EXPLANATION = ("L2: state after Curve.knot_insert vs model (exact) and heavy.Operations.knot_insert matrix vs model matrix; "
               "L3: `rf.eq before after` decided span-by-span on polynomial coefficients (every u at once), knot multiset, row-stochastic matrix, "
               "unchanged state after a refused request.")
ASSUMPTIONS = ["weights positive"]


def run_case(ctx, case):
    rec, drv = ctx["rec"], ctx["drv"]
    c = de(case)
    U, P, W, nodes = c["U"], [tuple(p) for p in c["P"]], c["W"], c["nodes"]
    p, n, knots = kv_info(U)
    valid = not (U[0] in nodes or U[-1] in nodes) and all(U[0] <= x <= U[-1] for x in nodes) and all(U.count(x) + nodes.count(x) <= p + 1 for x in set(nodes) if U[0] < x < U[-1]) \
        and all(not (x == U[0] or x == U[-1]) for x in nodes)
    # a node closer than the library's multiplicity tolerance (1e-9) to a different knot value
    tol = F(1, 10**9)
    allk = list(U) + list(nodes)
    nearpair = any(0 < abs(x - y) < tol for x in nodes for y in allk)
    rec.case(case, nontrivial=(p >= 1 and len(nodes) > 0))
    rec.count("request", "valid" if valid else "invalid")
    if not nearpair:
        for x in sorted(set(nodes)):
            if U[0] <= x <= U[-1]:
                units.tie_insonce(rec, drv, case, U, x)      # the single-insertion matrix the Boehm theorems are stated about
    rec.count("weights", "rational" if W is not None else "polynomial")
    if any(x not in U and any(0 < abs(x - k) < F(1, 10**9) for k in knots) for x in nodes):
        rec.count("nodes", "within-1e-9-of-a-knot")
    impl(lambda: float_twin(U, P, W).knot_insert([float(x) for x in nodes]))     # float data first (cross-call caches)
    for tw in mixed_twins(U, P, W):
        impl(lambda: tw.knot_insert(list(nodes)))       # int / float knots, the very same exact nodes
        rec.count("twin", "mixed-knot-types")
    curve = make_curve(U, P, W)
    before = curve_state(curve)
    form = form_of(case)
    rec.count("nodes-as", form)
    r = impl(lambda: curve.knot_insert(as_form(nodes, form)))
    after = curve_state(curve)
    m = drv.call("curve.insert", *curve_args(U, P, W), nodes)
    if valid and nearpair and W is not None and r[0] != "ok":
        # recorded finding (KNOWN_FINDINGS.txt): the weight setter's root search fails on a knot vector with two different knots
        # closer than 1e-9, so a rational curve refuses such a node; the refusal must at least leave the curve as it was
        rec.count("request", "rational-near-knot-refused")
        if after != before:
            rec.violation("refused insertion modified the curve", case, before=ser(before), after=ser(after))
            return
        rec.violation("valid insertion into a rational curve raised (node within 1e-9 of a different knot)", case, observed=str(r[1])[:200],
                      finding_key="rational-insert-node-within-1e-9-of-distinct-knot")
        return
    if valid:
        if r[0] != "ok":
            rec.violation("valid insertion raised", case, observed=r[1])
            return
        want_U = tuple(sorted(list(U) + list(nodes)))
        if after[0] != want_U:
            rec.violation("knot vector is not the sorted multiset union", case, observed=ser(after[0]), expected=ser(want_U))
            return
        ok = m[0] == "ok" and model_curve_state(m[1]) == after
        l2(rec, "curve.insert", case, after, m, ok)
        v = drv.call("rf.eq", *curve_args(*before), *curve_args(*after))
        l3(rec, "rf.eq")
        if nearpair and v[0] != "ok":
            # two different knot values closer than 1e-9: the span-table oracle does not apply; decide by degree-many exact points
            d = same_function_by_points(drv, before, after)
            l3(rec, "curve.def-points")
            v = ("ok", "yes") if d is None else ("no", d)
        if v != ("ok", "yes"):
            rec.violation("curve changed as a function after knot_insert", case, oracle=ser(v), after=ser(after))
        if has_float(curve.ctrlpoints) or has_float(curve.weights):
            rec.violation("float introduced for exact data", case)
        # unit level: the transformation matrix
        mat = impl(lambda: heavy.Operations.knot_insert(tuple(U), tuple(nodes)))
        mm = drv.call("ops.insert", U, nodes)
        if mat[0] == "ok" and mm[0] == "ok":
            got = tuple(tuple(frac(x) for x in row) for row in mat[1])
            l2(rec, "ops.insert", case, got, mm[1], got == tup(mm[1]))
            for row in got:
                if sum(row) != 1 or any(x < 0 or x > 1 for x in row):
                    rec.violation("insertion matrix row is not a convex combination", case, row=ser(row))
    else:
        l2(rec, "curve.insert.reject", case, errkind(r), errkind(m), errkind(r) == errkind(m))
        if errkind(r) != "ValueError":
            rec.violation("invalid insertion did not raise ValueError", case, observed=str(r))
        if after != before:
            rec.violation("refused insertion modified the curve", case, before=ser(before), after=ser(after))


def gen_nodes(rng, U, valid=True, near=False):
    p, n, knots = kv_info(U)
    a, b = U[0], U[-1]
    nodes = []
    k = rng.randint(1, 4)
    for _ in range(k):
        r = rng.random()
        if near and r < 0.6 and len(knots) > 2:
            # a node that is distinct from an interior knot but closer to it than the library's multiplicity tolerance (1e-9)
            kx = rng.choice(knots[1:-1])
            x = kx + rng.choice([-1, 1]) * F(1, 10 ** rng.choice([10, 12, 15, 20]))
            if rng.random() < 0.3 and F(float(kx)) != kx:
                x = F(float(kx))
            if not (a < x < b) or x in U:
                continue
        elif r < 0.35 and len(knots) > 2:
            x = rng.choice(knots[1:-1])
        elif r < 0.45 and a < 0 < b:
            x = F(0)
        else:
            x = a + (b - a) * rng.choice(GRID + [F(rng.randint(1, 10**9), 10**9 + 7)])
        cap = p + 1 - U.count(x) - nodes.count(x)
        if cap <= 0:
            continue
        nodes += [x] * rng.randint(1, min(cap, 2 if rng.random() < 0.8 else cap))
    rng.shuffle(nodes)
    if not valid:
        kind = rng.choice(["over", "outside", "end", "bothends"])
        if kind == "bothends":
            return nodes + [a, b]
        if kind == "over":
            x = rng.choice(knots[1:-1]) if len(knots) > 2 else a + (b - a) / 3
            nodes += [x] * (p + 2 - U.count(x) - nodes.count(x))
        elif kind == "outside":
            nodes.append(rng.choice([a - F(1, 5), b + F(2, 3)]))
        else:
            nodes.append(rng.choice([a, b]))
    return nodes


def run(ctx):
    rng = ctx["rng"]
    # corpus: witnesses of repaired defects first (D2: node 0; D1: outside node accepted)
    run_case(ctx, ser(dict(kind="insert", U=[F(-1), F(-1), F(1), F(1)], P=[(F(1),), (F(2),)], W=None, nodes=[F(0)])))
    run_case(ctx, ser(dict(kind="insert", U=[F(0), F(0), F(1), F(1)], P=[(F(1),), (F(2),)], W=None, nodes=[F(2)])))
    run_case(ctx, ser(dict(kind="insert", U=[F(0), F(0), F(1, 2), F(1), F(1)], P=[(F(1),), (F(2),), (F(5),)], W=None, nodes=[F(0), F(1)])))
    # D33: node next to a knot of multiplicity degree+1 (negative index in one_knot_insert_once); D34: refusal destroyed the curve
    U33 = [F(0)] * 4 + [F(3, 20)] * 4 + [F(11, 20)] * 2 + [F(3, 4)] + [F(1)] * 4
    run_case(ctx, ser(dict(kind="insert", U=U33, P=[(F(i),) for i in range(11)], W=None, nodes=[F(3, 20) - F(1, 10**20)])))
    run_case(ctx, ser(dict(kind="insert", U=U33, P=[(F(i),) for i in range(11)], W=[F(7, 3)] * 11, nodes=[F(3, 20) - F(1, 10**20)])))
    # D35: excess multiplicity hidden behind a near-duplicate value
    run_case(ctx, ser(dict(kind="insert", U=[F(-2)] * 4 + [F(2, 5)] * 3 + [F(1)] * 4, P=[(F(i),) for i in range(7)], W=None,
                           nodes=[F(3999999999, 10**10), F(2, 5), F(2, 5)])))
    for i in range(budget(ctx, 160, 2500)):
        U, P, W = rand_curve(rng, bigknots=(rng.random() < 0.1), force_zero=(i % 6 == 0))
        if i % 8 == 5:
            # knots that exist as python ints / floats too (integer or dyadic values)
            U = rand_int_kv(rng, pmax=3, nintmax=2) if rng.random() < 0.5 else rand_dyadic_kv(rng, pmax=3, nintmax=2)
            n_ = kv_info(U)[1]
            P = rand_points(rng, n_, rng.choice([1, 2]))
            W = rand_weights(rng, n_, rng.choice(["none", "pos", "neg"]))
        if i % 7 == 3 and len(P[0]) > 1 and len(P) > 2:
            P[-1] = P[0]                     # closed curve: first and last control point are the same object
            if W is None:
                W = [F(rng.randint(2, 9), rng.randint(1, 3)) for _ in P]
        near = (i % 9 == 7)
        nodes = gen_nodes(rng, U, valid=(i % 5 != 4), near=near)
        if not nodes:
            continue
        run_case(ctx, ser(dict(kind="insert", U=U, P=P, W=W, nodes=nodes)))
