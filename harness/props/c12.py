"""C12 — fit_points / fit_function solve the discrete least-squares problem exactly."""
from common import *  # noqa: F401,F403
import units

RULE = ("random target curves (polynomial and rational bases, degree 0..3, repeated knots) with random points at (a) default nodes, (b) explicit "
        "random nodes (len = npts: interpolation; len > npts: least squares), (c) samples of a curve of the same space (reproduction), nodes repeated with unequal counts; "
        "fit_function with polynomial / same-space functions; fewer points than control points.  Node sets whose collocation matrix is rank "
        "deficient (exact rank) are classified inadmissible.  Non-trivial: an interior knot or degree >= 2; distinct = distinct (U, W, nodes, points)."
        " Also: fit histories on one (knot vector, node set) with alternating rational / polynomial bases.")
EXPLANATION = ("L3: with the implementation's control points Q the normal equations B^T (B Q - Z) = 0 are evaluated exactly with the collocation "
               "matrix B from the Lean model (`basis.eval`), interpolation and reproduction by exact comparison; L2: Q vs the model's fit_points.")
ASSUMPTIONS = ["weights positive", "rank-deficient node sets: any exception is acceptable"]

from props.c11 import rank  # noqa: E402


def run_case(ctx, case):
    rec, drv = ctx["rec"], ctx["drv"]
    c = de(case)
    if c.get("kind") == "linalg":
        rec.case(case, nontrivial=True)
        return units.tie_linalg(rec, drv, case, c["A"], c["B"])
    U, W, kind = c["U"], c["W"], c["kind"]
    p, n, knots = kv_info(U)
    rec.case(case, nontrivial=nontrivial_kv(U))
    rec.count("kind", kind)
    rec.count("basis", "rational" if W is not None else "spline")
    curve = Curve(list(U))
    if W is not None:
        curve.weights = list(W)
    if kind == "function":
        coef, src = c.get("coef"), c.get("src")
        if src is not None:
            sc = make_curve(U, [tuple(q) for q in src], W)
            fn = lambda u: sc(u)      # noqa: E731  a function of the curve's own space
            want = pts_canon(sc.ctrlpoints)
        else:
            fn = lambda u: sum(cf * u**k for k, cf in enumerate(coef))   # noqa: E731  polynomial of degree <= p
            want = None
        r = impl(lambda: curve.fit_function(fn))
        if r[0] != "ok":
            rec.violation("fit_function raised", case, observed=r[1])
            return
        st = curve_state(curve)
        l3(rec, "reproduction")
        us = params_for(ctx["rng"], U, extra=2)
        for u in us:
            if pt_canon(curve(u)) != pt_canon(fn(u)):
                rec.violation("fit_function does not reproduce a function of its own space", case, u=str(u), result=ser(st))
                return
        if want is not None and st[1] != want:
            rec.violation("fit_function did not return the generating control points", case)
        return
    Z = [tuple(q) for q in c["points"]]
    nodes = c["nodes"]
    if kind == "fewer":
        r = impl(lambda: curve.fit_points([q[0] if len(q) == 1 else np.array(q, dtype=object) for q in Z], nodes))
        if r[0] == "ok":
            rec.violation("fewer points than control points accepted", case)
        return
    Zi = [q[0] if len(q) == 1 else np.array(list(q), dtype=object) for q in Z]
    for tw in mixed_twins(list(U), [(F(0),)] * kv_info(list(U))[1], W):      # numerically equal python-int / float knots first
        impl(lambda: tw.fit_points(Zi) if nodes is None else tw.fit_points(Zi, list(nodes)))
        rec.count("twin", "mixed-knot-types-first")
    form = form_of(case)
    rec.count("nodes-as", form if nodes is not None else "default")
    r = impl(lambda: curve.fit_points(Zi) if nodes is None else curve.fit_points(Zi, as_form(nodes, form)))
    ns = nodes if nodes is not None else [U[0] + (U[-1] - U[0]) * F(i, len(Z) - 1) for i in range(len(Z))]
    B = [list(drv.call("basis.eval", list(U), W, p, z)[1]) for z in ns]      # nodes x npts
    admissible = rank(B) == n
    rec.count("admissible", str(admissible))
    m = drv.call("curve.fitpoints", list(U), None, W, [list(q) for q in Z], nodes)
    if not admissible:
        return
    if r[0] != "ok":
        rec.violation("fit_points raised on an admissible node set", case, observed=r[1])
        return
    st = curve_state(curve)
    Q = st[1]
    l2(rec, "curve.fitpoints", case, Q, m, m[0] == "ok" and model_curve_state(m[1])[1] == Q)
    l3(rec, "normal-equations")
    dim = len(Z[0])
    for d in range(dim):
        res = [sum(B[k][i] * Q[i][d] for i in range(n)) - Z[k][d] for k in range(len(ns))]
        grad = [sum(B[k][i] * res[k] for k in range(len(ns))) for i in range(n)]
        if any(x != 0 for x in grad):
            rec.violation("residual is not orthogonal to the columns of the collocation matrix", case, gradient=ser(grad), result=ser(Q))
            return
        if len(ns) == n and any(x != 0 for x in res):
            rec.violation("square unisolvent case does not interpolate", case, residual=ser(res))
            return
    if kind == "samples":
        if Q != tuple(tuple(q) for q in c["src"]):
            rec.violation("samples of a curve of the same space are not reproduced", case, result=ser(Q))
    if has_float(curve.ctrlpoints):
        rec.violation("float introduced for exact data", case)


def run_history(ctx):
    """the same knot vector and node set fitted repeatedly in one process with different bases (rational with unequal weights
    first): every fit must solve its own problem whatever was fitted before"""
    rng = ctx["rng"]
    for i in range(budget(ctx, 10, 120)):
        U = rand_kv(rng, pmax=3, nintmax=2)
        p, n, knots = kv_info(U)
        a, b = U[0], U[-1]
        k = n + rng.randint(0, 3)
        nodes = None
        if i % 3 != 2:
            nodes = sorted(set(a + (b - a) * F(rng.randint(0, 60), 60) for _ in range(4 * k)))[:k]
            if len(nodes) < n:
                continue
        k = max(2, k) if nodes is None else len(nodes)
        W1 = [F(rng.randint(1, 9), rng.randint(1, 4)) for _ in range(n)]
        if len(set(W1)) == 1:
            W1[0] += 1
        W2 = [F(rng.randint(1, 9), rng.randint(1, 4)) for _ in range(n)]
        dim = rng.choice([1, 2])
        for W in (W1, None, W2, W1, None):
            ctx["rec"].count("history", "rational" if W is not None else "spline")
            run_case(ctx, ser(dict(kind="points", U=U, W=W, points=rand_points(rng, k, dim), nodes=nodes)))
        run_case(ctx, ser(dict(kind="function", U=U, W=W1, src=rand_points(rng, n, dim))))
        run_case(ctx, ser(dict(kind="function", U=U, W=None, src=rand_points(rng, n, dim))))


def run_highdeg(ctx):
    rng = ctx["rng"]
    for i in range(budget(ctx, 6, 50)):
        # degree 4..6 targets (Bezier or one interior knot): exact interpolation and least squares
        p_ = rng.randint(4, 6)
        U = [F(0)] * (p_ + 1) + ([F(rng.randint(1, 9), 10)] if i % 2 else []) + [F(1)] * (p_ + 1)
        n = kv_info(U)[1]
        k = n + (0 if i % 3 == 0 else rng.randint(1, 3))
        nodes = sorted(set(F(rng.randint(0, 40), 40) for _ in range(5 * k)))[:k]
        if len(nodes) < n:
            continue
        run_case(ctx, ser(dict(kind="points", U=U, W=None, points=rand_points(rng, len(nodes), 1), nodes=nodes)))


def run_manyspans(ctx):
    """fit_function with its own default nodes on curves with many spans, one of them isolated between two knots of multiplicity
    degree+1 (that span carries degree+1 unknowns of its own whatever the average per span is) — functions of the curve's own space
    must be reproduced"""
    rng = ctx["rng"]
    for i in range(budget(ctx, 6, 60)):
        p_ = rng.choice([2, 3, 3, 4])
        nsimple = rng.randint(4, 7)
        U = [F(0)] * (p_ + 1) + [F(1)] * (p_ + 1) + [F(1 + j) for j in range(1, nsimple)] + [F(nsimple + 1)] * (p_ + 1)
        if i % 3 == 2:
            # the isolated span in the middle
            k_ = rng.randint(1, nsimple - 2)
            U = [F(0)] * (p_ + 1) + [F(j) for j in range(1, k_)] + [F(k_)] * (p_ + 1) + [F(k_ + 1)] * (p_ + 1) \
                + [F(j) for j in range(k_ + 2, nsimple + 1)] + [F(nsimple + 1)] * (p_ + 1)
        n = kv_info(U)[1]
        ctx["rec"].count("family", "many-spans-isolated-span")
        run_case(ctx, ser(dict(kind="function", U=U, W=None, src=rand_points(rng, n, 1, ints=True))))


def run_linalg(ctx):
    """unit ties of heavy.Linalg (exact Gauss-Jordan / least-squares operator) with the model the normal-equation theorems use"""
    rng, rec, drv = ctx["rng"], ctx["rec"], ctx["drv"]
    for i in range(budget(ctx, 25, 250)):
        n = rng.randint(1, 5)
        m = n + rng.choice([0, 0, 1, 2, 3])
        big = rng.random() < 0.2
        A = [[F(rng.randint(-9, 9) * (10**12 if big else 1), rng.randint(1, 4)) for _ in range(n)] for _ in range(m)]
        if rank([list(r) for r in A]) < n:
            continue          # singular / rank-deficient systems are not what the fit hands over (unisolvent nodes)
        wid = rng.randint(1, 3)
        B = [[F(rng.randint(-9, 9), rng.randint(1, 3)) for _ in range(wid)] for _ in range(m)]
        case = ser(dict(kind="linalg", A=A, B=B))
        rec.case(case, nontrivial=(n > 1))
        rec.count("kind", "linalg-square" if m == n else "linalg-tall")
        units.tie_linalg(rec, drv, case, A, B)


def run(ctx):
    rng = ctx["rng"]
    run_history(ctx)
    run_highdeg(ctx)
    run_manyspans(ctx)
    run_linalg(ctx)
    for i in range(budget(ctx, 90, 1200)):
        U = rand_kv(rng, pmax=3, nintmax=3)
        if i % 7 == 4:
            U = rand_int_kv(rng, pmax=3, nintmax=2) if rng.random() < 0.5 else rand_dyadic_kv(rng, pmax=3, nintmax=2)
        p, n, knots = kv_info(U)
        W = rand_weights(rng, n, rng.choice(["none", "none", "pos"]))
        a, b = U[0], U[-1]
        kind = rng.choice(["points", "points", "square", "samples", "function", "function-src", "fewer"])
        dim = rng.choice([1, 1, 2])
        if kind in ("function", "function-src"):
            if kind == "function" and W is None:
                run_case(ctx, ser(dict(kind="function", U=U, W=None, coef=[rand_rat(rng) for _ in range(rng.randint(1, p + 1))])))
            else:
                run_case(ctx, ser(dict(kind="function", U=U, W=W, src=rand_points(rng, n, dim))))
            continue
        if kind == "fewer":
            if n < 2:
                continue
            run_case(ctx, ser(dict(kind="fewer", U=U, W=W, points=rand_points(rng, n - 1, dim), nodes=None)))
            continue
        k = n if kind == "square" else n + rng.randint(0, 5)
        if rng.random() < 0.4:
            nodes = None
            k = max(k, 2)
        else:
            nodes = sorted(set(a + (b - a) * F(rng.randint(0, 60), 60) for _ in range(3 * k)))[:k]
            if len(nodes) < n:
                continue
            if kind != "square" and rng.random() < 0.35:
                # measurements repeated at the same node (unequal repetition counts): each one is a row of its own
                nodes = nodes + [rng.choice(nodes) for _ in range(rng.randint(1, 3))]
                ctx["rec"].count("nodes", "repeated")
            if rng.random() < 0.5:
                rng.shuffle(nodes)         # the pairs (node, point) may be listed in any order
            k = len(nodes)
        if kind == "samples":
            src = rand_points(rng, n, dim)
            sc = make_curve(U, src, W)
            ns = nodes if nodes is not None else [a + (b - a) * F(j, k - 1) for j in range(k)]
            pts = [pt_canon(sc(z)) for z in ns]
            run_case(ctx, ser(dict(kind="samples", U=U, W=W, points=pts, nodes=nodes, src=src)))
        else:
            run_case(ctx, ser(dict(kind=kind, U=U, W=W, points=rand_points(rng, k, dim), nodes=nodes)))
