"""C13 — curve equality means equality as functions, independent of representation."""
from common import *  # noqa: F401,F403
from copy import copy

RULE = ("random curves (polynomial/rational, degree 0..3, scalar/vector) paired with: refined copies (random knot insertions), elevated copies, "
        "refined+elevated copies, perturbed copies (first / last / middle control point, one weight; perturbation 1/1000 or larger), rational "
        "descriptions of the same function (weights scaled, polynomial curve with constant weights), unrelated curves, curves on other intervals, "
        "non-curves; both operand orders, == and !=.  Non-trivial: an interior knot or degree >= 2; distinct = distinct (A, B)."
        " Also: shared knots with raised multiplicities, perturbations of 1e-6 and 1e-7 (absolute), equal weight tuples on different knot vectors; operands with a history (used in ==/arithmetic, lossily cleaned with tolerances 1e-1..1e-5 "
        "that are accepted or refused, a control point changed in place) against the state before and against a fresh twin of the current state. Also: unrelated pairs of different degrees where the lower-degree curve has simple interior knots the other lacks, in both operand orders.")
EXPLANATION = ("L3: the truth value of A == B is compared with `rf.eq` (Lean-decided equality of the span polynomials, cross-multiplied for "
               "rational curves); perturbations are far above 1e-9 or exactly zero so the tolerance band never decides.  L2: the same truth "
               "value vs the model of __eq__ (refinement to the union vector + 1e-9 comparison).")
ASSUMPTIONS = ["weights positive"]


def run_case(ctx, case):
    rec, drv = ctx["rec"], ctx["drv"]
    c = de(case)
    A = (c["A"]["U"], [tuple(p) for p in c["A"]["P"]], c["A"]["W"])
    rec.count("label", c.get("label", "?"))
    ca = make_curve(*A)
    sa = curve_state(ca)
    if c["kind"] == "noncurve":
        rec.case(case, nontrivial=False)
        for other in (1, "curve", None, [1, 2], KnotVector(list(A[0]))):
            r = impl(lambda: ca == other)
            r2 = impl(lambda: ca != other)
            if r != ("ok", False) or r2 != ("ok", True):
                rec.violation("comparison with a non-curve is not False / != not True", case, other=repr(other), observed=str((r, r2)))
        return
    B = (c["B"]["U"], [tuple(p) for p in c["B"]["P"]], c["B"]["W"])
    cb = make_curve(*B)
    # what the operands went through before the comparison must not matter: only their current state does
    for op in c.get("pre", []):
        rec.count("prelude", op[0])
        if op[0] == "use":
            impl(lambda: (ca(ca.knotvector[0]), ca == cb, ca == ca, ca.fraction(), -ca))
        elif op[0] == "lossy":
            fn = {"knot_clean": lambda: ca.knot_clean(tolerance=float(op[2])), "degree_clean": lambda: ca.degree_clean(float(op[2])),
                  "clean": lambda: ca.clean(float(op[2])), "degree_decrease": lambda: ca.degree_decrease(1, float(op[2]))}[op[1]]
            r_ = impl(fn)
            rec.count("prelude-outcome", op[1] + "-" + errkind(r_))
        elif op[0] == "poke":
            pts = ca.ctrlpoints
            q = pts[int(op[1]) % len(pts)]
            if isinstance(q, np.ndarray):
                q[0] = q[0] + op[2]          # in place, through the object the getter hands out
    sa = curve_state(ca)
    A = (list(sa[0]), [tuple(q) for q in sa[1]], None if sa[2] is None else list(sa[2]))
    sb = curve_state(cb)
    rec.case(case, nontrivial=nontrivial_kv(A[0]) or nontrivial_kv(B[0]))
    same_interval = (A[0][0], A[0][-1]) == (B[0][0], B[0][-1])
    if same_interval:
        v = drv.call("rf.eq", *curve_args(*sa), *curve_args(*sb))
        l3(rec, "rf.eq")
        if v[0] != "ok" or v[1] == "undefined":
            truth = False      # dimension mismatch etc.
        else:
            truth = (v[1] == "yes")
    else:
        truth = False
    m = drv.call("curve.bin", "eq", *curve_args(*sa), *curve_args(*sb))
    rec.count("truth", str(truth))
    twa, twb = mixed_twins(*A), mixed_twins(*B)
    for x_, y_ in zip(twa, twb):          # the same comparison on numerically equal python-int / float knots first
        impl(lambda: x_ == y_)
        rec.count("twin", "mixed-knot-types-first")
    for name, x, y in (("A==B", ca, cb), ("B==A", cb, ca)):
        r = impl(lambda: x == y)
        rn = impl(lambda: x != y)
        l2(rec, "curve.eq", case, r, m, r[0] == m[0] and (r[0] != "ok" or bool(r[1]) == m[1]))
        if r[0] != "ok":
            rec.violation("%s raised" % name, case, observed=r[1])
            continue
        if bool(r[1]) != truth:
            rec.violation("%s is %s but the curves %s as functions" % (name, r[1], "agree" if truth else "differ"), case,
                          oracle=ser(v) if same_interval else "different intervals")
        if rn[0] != "ok" or bool(rn[1]) == bool(r[1]):
            rec.violation("!= is not the negation of ==", case, observed=str((r, rn)))
    if c.get("pre"):
        twin = make_curve(*A)
        for name, x, y in (("A==twin", ca, twin), ("twin==A", twin, ca)):
            r = impl(lambda: x == y)
            if r[0] != "ok" or not bool(r[1]):
                rec.violation("%s is not True for a curve built afresh from A's current knot vector, points and weights (history: %s)"
                              % (name, [o[0] for o in c["pre"]]), case, observed=str(r), state=ser(sa))
                break
    r = impl(lambda: ca == ca)
    if r != ("ok", True) and not (r[0] == "ok" and bool(r[1])):
        rec.violation("== is not reflexive", case, observed=str(r))
    if curve_state(ca) != sa or curve_state(cb) != sb:
        rec.violation("== modified an operand", case)


def variant(rng, U, P, W, label):
    """a second description derived from (U, P, W); returns canonical (U, P, W)"""
    c = make_curve(U, P, W)
    p, n, knots = kv_info(U)
    a, b = U[0], U[-1]
    if label in ("refined", "refined+elevated", "perturbed-refined"):
        nodes = []
        for _ in range(rng.randint(1, 3)):
            x = a + (b - a) * rng.choice(GRID)
            if list(c.knotvector).count(x) + nodes.count(x) < p + 1:
                nodes.append(x)
        c.knot_insert(nodes)
    if label in ("raised", "perturbed-raised"):
        # the same knot values, one interior knot with a higher multiplicity (same degree, shared knot, different multiplicities)
        inner = [x for x in knots[1:-1] if U.count(x) < p + 1]
        if inner:
            x = rng.choice(inner)
            c.knot_insert([x] * rng.randint(1, p + 1 - U.count(x)))
        else:
            c.knot_insert([a + (b - a) * rng.choice(GRID)])
    if label in ("elevated", "refined+elevated"):
        c.degree_increase(rng.randint(1, 2))
    U2, P2, W2 = curve_state(c)
    P2 = [list(q) for q in P2]
    W2 = None if W2 is None else list(W2)
    if label.startswith("perturbed"):
        which = rng.choice(["first", "last", "middle", "weight"]) if label != "perturbed-raised" else "last"
        eps = F(1, rng.choice([1000, 100, 3, 10**6, 10**7]))      # far above the 1e-9 comparison tolerance, in absolute terms
        if which == "weight" and W2 is not None and len(W2) > 2:
            W2[rng.randrange(1, len(W2) - 1)] += eps     # an interior weight changes the function (an end weight alone may not)
        elif which == "weight" and W2 is None:
            W2 = [F(1)] * len(P2)
            W2[len(W2) // 2] += eps
            if len(W2) < 3:
                P2[0][0] += eps
        else:
            idx = {"first": 0, "last": len(P2) - 1, "middle": len(P2) // 2, "weight": len(P2) // 2}[which]
            P2[idx][rng.randrange(len(P2[idx]))] += eps
    if label == "scaled-weights":
        s = F(rng.randint(2, 7), rng.randint(1, 3))
        W2 = [s * w for w in (W2 if W2 is not None else [F(1)] * len(P2))]
    if label == "const-weights":
        W2 = [F(5, 2)] * len(P2) if W2 is None else W2
    return U2, [tuple(q) for q in P2], W2


def run(ctx):
    rng = ctx["rng"]
    # corpus: D9 witnesses
    U = [F(0), F(0), F(1), F(1)]
    A = dict(U=U, P=[(F(1),), (F(2),)], W=None)
    run_case(ctx, ser(dict(kind="pair", label="refined", A=A, B=dict(U=[F(0), F(0), F(1, 2), F(1), F(1)], P=[(F(1),), (F(3, 2),), (F(2),)], W=None))))
    run_case(ctx, ser(dict(kind="pair", label="perturbed", A=A, B=dict(U=[F(0), F(0), F(1, 2), F(1), F(1)], P=[(F(1),), (F(3, 2),), (F(3),)], W=None))))
    run_case(ctx, ser(dict(kind="pair", label="perturbed", A=dict(U=U, P=A["P"], W=[F(1), F(2)]), B=dict(U=U, P=A["P"], W=[F(1), F(3)]))))
    run_case(ctx, ser(dict(kind="noncurve", label="noncurve", A=A)))
    for i in range(budget(ctx, 24, 300)):
        # history independence: rational (and polynomial) operands that were used, lossily cleaned with a tolerance that may or may not
        # be accepted, or had a control point changed in place, compared with a curve built afresh from their current state / from the
        # state before
        U, P, W = rand_curve(rng, pmax=2, nintmax=2, weights=rng.choice(["pos", "pos", "none"]), dim=rng.choice([1, 2]))
        pre = [("use",)] if rng.random() < 0.7 else []
        for _ in range(rng.randint(1, 2)):
            if rng.random() < 0.7:
                pre.append(("lossy", rng.choice(["knot_clean", "degree_clean", "clean", "degree_decrease"]), F(1, 10 ** rng.randint(1, 5))))
            else:
                pre.append(("poke", rng.randint(0, 5), F(rng.randint(1, 3), rng.randint(1, 4))))
        run_case(ctx, ser(dict(kind="pair", label="history", A=dict(U=U, P=P, W=W), B=dict(U=U, P=P, W=W), pre=pre)))
    labels = ["refined", "elevated", "refined+elevated", "perturbed", "perturbed-refined", "scaled-weights", "const-weights",
              "raised", "raised", "perturbed-raised", "both-refined", "both-refined",
              "unrelated", "interval", "same", "shared-weights", "shared-weights", "unrelated-rational",
              "unrelated-mixed-degree", "unrelated-mixed-degree"]
    for i in range(budget(ctx, 80, 1000)):
        label = rng.choice(labels)
        U, P, W = rand_curve(rng, pmax=3 if label in ("same", "perturbed", "unrelated") else 2, nintmax=2, force_zero=(i % 8 == 0))
        if i % 7 == 4:
            U = rand_int_kv(rng, pmax=2, nintmax=2) if rng.random() < 0.5 else rand_dyadic_kv(rng, pmax=2, nintmax=2)
            P = rand_points(rng, kv_info(U)[1], len(P[0]))
            W = None if W is None else rand_weights(rng, kv_info(U)[1], "pos")
        if W is not None and kv_info(U)[0] > 2:
            W = None
        if label in ("raised", "perturbed-raised"):
            # an interior knot whose multiplicity can still be raised; polynomial in two cases out of three
            p_ = rng.randint(1, 3)
            U = rand_kv(rng, p=p_, nint=rng.randint(1, 2), maxmult=max(1, p_ - 1))
            n_ = kv_info(U)[1]
            P = rand_points(rng, n_, rng.choice([1, 2]))
            W = None if (i % 3 != 0 or p_ > 2) else rand_weights(rng, n_, "pos")
        if label == "shared-weights":
            # two rational curves with the *same* weight tuple and the same weighted numerator (a constant) on different knot
            # vectors with the same number of control points: the denominators differ, so the functions differ
            p_ = rng.randint(1, 2)
            n_ = p_ + 1 + rng.randint(1, 2)
            iv = rand_interval(rng)
            def kv_n(deg):
                inner = sorted(rng.sample(GRID, n_ - deg - 1))
                return [iv[0]] * (deg + 1) + [iv[0] + (iv[1] - iv[0]) * x for x in inner] + [iv[1]] * (deg + 1)
            U = kv_n(p_)
            U2 = kv_n(p_ if rng.random() < 0.6 else p_ + 1 if n_ > p_ + 2 else p_)
            if U2 == U:
                continue
            W = [F(rng.randint(1, 9), rng.randint(1, 3)) for _ in range(n_)]
            if len(set(W)) == 1:
                W[0] += 1
            cst = rand_rat(rng) or F(1)
            P = [(cst / w,) for w in W]
            run_case(ctx, ser(dict(kind="pair", label=label, A=dict(U=U, P=P, W=W), B=dict(U=U2, P=P, W=W))))
            continue
        if label == "unrelated-mixed-degree":
            # different functions of different degrees, the lower-degree one with simple interior knots the other does not have
            p1 = rng.randint(1, 2)
            U = rand_kv(rng, p=p1, nint=rng.randint(1, 2), maxmult=1)
            U2 = rand_kv(rng, p=p1 + rng.randint(1, 3 - p1) if p1 < 3 else 3, nint=rng.randint(0, 1), interval=(U[0], U[-1]))
            n1, n2 = kv_info(U)[1], kv_info(U2)[1]
            d_ = rng.choice([1, 2])
            A_ = dict(U=U, P=rand_points(rng, n1, d_), W=rand_weights(rng, n1, rng.choice(["none", "none", "pos"])))
            B_ = dict(U=U2, P=rand_points(rng, n2, d_), W=None)
            if rng.random() < 0.5:
                A_, B_ = B_, A_
            run_case(ctx, ser(dict(kind="pair", label=label, A=A_, B=B_)))
            continue
        if label == "unrelated-rational":
            U = rand_kv(rng, pmax=2, nintmax=1)
            U2 = rand_kv(rng, pmax=2, nintmax=1, interval=(U[0], U[-1]))
            n1, n2 = kv_info(U)[1], kv_info(U2)[1]
            d_ = rng.choice([1, 2])
            A_ = dict(U=U, P=rand_points(rng, n1, d_), W=rand_weights(rng, n1, "pos"))
            B_ = dict(U=U2, P=rand_points(rng, n2, d_), W=rand_weights(rng, n2, rng.choice(["pos", "none"])))
            run_case(ctx, ser(dict(kind="pair", label=label, A=A_, B=B_)))
            continue
        if label == "unrelated":
            U2 = rand_kv(rng, pmax=2, nintmax=2, interval=(U[0], U[-1]))
            B = (U2, rand_points(rng, kv_info(U2)[1], len(P[0])), None)
        elif label == "both-refined":
            # two copies of one curve refined by the *same number* of new knots at different places: same degree, same number of
            # control points, different knot vectors — the same function all the same
            p_ = kv_info(U)[0]
            if p_ == 0:
                continue
            free = [U[0] + (U[-1] - U[0]) * g for g in GRID if (U[0] + (U[-1] - U[0]) * g) not in U]
            k_ = rng.randint(1, 2)
            if len(free) < 2 * k_:
                continue
            pick = rng.sample(free, 2 * k_)
            ca_, cb_ = make_curve(U, P, W), make_curve(U, P, W)
            ca_.knot_insert(sorted(pick[:k_]))
            cb_.knot_insert(sorted(pick[k_:]))
            sa_, sb_ = curve_state(ca_), curve_state(cb_)
            run_case(ctx, ser(dict(kind="pair", label=label, A=dict(U=list(sa_[0]), P=[list(q) for q in sa_[1]], W=None if sa_[2] is None else list(sa_[2])),
                                   B=dict(U=list(sb_[0]), P=[list(q) for q in sb_[1]], W=None if sb_[2] is None else list(sb_[2])))))
            continue
        elif label == "interval":
            B = ([x + 1 for x in U], P, W)
        elif label == "same":
            B = (U, P, W)
        else:
            B = variant(rng, U, P, W, label)
        run_case(ctx, ser(dict(kind="pair", label=label, A=dict(U=U, P=P, W=W), B=dict(U=B[0], P=B[1], W=B[2]))))
    U0, P0, W0 = rand_curve(rng, pmax=2, nintmax=2, weights="pos")
    run_case(ctx, ser(dict(kind="noncurve", label="noncurve", A=dict(U=U0, P=P0, W=W0))))
