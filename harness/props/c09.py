"""C09 — Derivate(curve) is the derivative of the curve."""
from common import *  # noqa: F401,F403
import units

RULE = ("random curves: Bezier, multi-span, repeated interior knots up to multiplicity degree+1, degree 0, polynomial and rational, scalar and "
        "vector points, exact rational data.  Non-trivial: degree >= 2 or an interior knot; distinct = distinct curves."
        " Also: integer knot vectors handed over as python ints, rational Bezier curves of degree 3..5. Also: curves stored with more degrees / knots than needed (reducible Bezier curves, elevated or refined curves): the argument must keep its representation; nearly reducible curves (a line plus a steep feature of height 1e-4 on a span of width 1e-3).")
EXPLANATION = ("L3: for exact results `rf.map deriv` decides D = dC/du on every span from the polynomial coefficients (quotient rule, cross-multiplied); "
               "where the library computes in float64 (spline difference matrix, D18) the values D(u) are compared with the exact derivative at "
               "2*deg+3 interior points of every span of D to relative 1e-9.  L2: polynomial derivatives vs the model's control points.")
ASSUMPTIONS = ["weights positive", "float64 results of Derivate on splines are compared to 1e-9, not exactly"]


def run_case(ctx, case):
    rec, drv = ctx["rec"], ctx["drv"]
    c = de(case)
    U, P, W = c["U"], [tuple(p) for p in c["P"]], c["W"]
    p, n, knots = kv_info(U)
    rec.case(case, nontrivial=nontrivial_kv(U))
    rec.count("shape", ("bezier" if len(knots) == 2 else "spline") + ("-rational" if W is not None else ""))
    rec.count("degree", str(p))
    units.tie_derivmat(rec, drv, case, U)              # the difference matrix of the derivative theorems
    curve = make_curve(U, P, W, intknots=bool(c.get("intknots")))
    rec.count("knots", "int" if c.get("intknots") else "fraction")
    start = curve_state(curve)
    if not c.get("intknots"):
        for tw in mixed_twins(U, P, W):          # numerically equal python-int / float knots first
            impl(lambda: Derivate(tw))
            rec.count("twin", "mixed-knot-types-first")
    r = impl(lambda: Derivate(curve))
    if curve_state(curve) != start:
        rec.violation("Derivate modified the curve", case)
    if r[0] != "ok":
        rec.violation("Derivate raised", case, observed=r[1])
        return
    D = r[1]
    ds = curve_state(D)
    if (ds[0][0], ds[0][-1]) != (U[0], U[-1]):
        rec.violation("derivative is not on the same interval", case, observed=ser(ds[0]))
        return
    if p == 0:
        if any(x != 0 for q in ds[1] for x in q):
            rec.violation("derivative of a degree-0 curve is not the zero curve", case, observed=ser(ds))
        return
    exact = not (has_float(D.ctrlpoints) or has_float(D.weights))
    rec.count("arith", "exact" if exact else "float64")
    if exact:
        v = drv.call("rf.map", "deriv", *curve_args(*start), *curve_args(*ds))
        l3(rec, "rf.map.deriv")
        if v != ("ok", "yes"):
            rec.violation("Derivate(C) is not dC/du", case, oracle=ser(v), result=ser(ds))
            return
    # values at interior points of every span of the result (covers the float64 paths)
    dk = sorted(set(ds[0]) | set(U))
    dp = kv_info(list(ds[0]))[0]
    us = []
    for a, b in zip(dk[:-1], dk[1:]):
        k = 2 * dp + 3
        us += [a + (b - a) * F(j, k + 1) for j in range(1, k + 1)]
    want = drv.call("rf.evalderiv", *curve_args(*start), us)
    got = impl(lambda: [pt_canon(D(u)) for u in us])
    l3(rec, "rf.evalderiv")
    if got[0] != "ok":
        rec.violation("derivative curve cannot be evaluated", case, observed=got[1])
        return
    for u, g, w in zip(us, got[1], want[1]):
        scale = max([1] + [abs(x) for x in w])
        if any(abs(x - y) > F(1, 10**8) * scale for x, y in zip(g, w)):
            rec.violation("D(u) differs from dC/du at an interior point of a span", case, u=str(u), observed=ser(g), expected=ser(w))
            return
    if W is None:
        m = drv.call("curve.deriv", *curve_args(*start))
        ok = m[0] == "ok" and model_curve_state(m[1])[0] == ds[0] and pts_close(ds[1], model_curve_state(m[1])[1], F(1, 10**9))
        l2(rec, "curve.deriv", case, ds, m, ok)


def run(ctx):
    rng = ctx["rng"]
    # corpus: D13 witness
    h = F(1, 2)
    run_case(ctx, ser(dict(kind="deriv", U=[F(0)] * 3 + [h] * 3 + [F(1)] * 3, P=[(F(x),) for x in (1, 3, 2, 5, 0, 1)], W=None)))
    for i in range(budget(ctx, 70, 900)):
        rat = rng.random() < 0.35
        U, P, W = rand_curve(rng, pmax=(2 if rat else 4), nintmax=(1 if rat else 3), weights=("pos" if rat else "none"),
                             force_zero=(i % 7 == 0))
        run_case(ctx, ser(dict(kind="deriv", U=U, P=P, W=W)))
    for i in range(budget(ctx, 12, 100)):
        # curves stored with more degrees or knots than they need (a segment as a quadratic / cubic, a parabola as a cubic, constant
        # weights, an elevated or refined random curve): whatever the derivative code cleans, it must not be the argument
        if i % 2 == 0:
            cu, _k = reducible_bezier(rng, rng.choice([1, 2]))
            run_case(ctx, ser(dict(kind="deriv", U=cu["U"], P=cu["P"], W=cu["W"])))
        else:
            U, P, W = rand_curve(rng, pmax=2, nintmax=1, weights=rng.choice(["none", "none", "pos"]))
            cv = make_curve(U, P, W)
            node = U[0] + (U[-1] - U[0]) * rng.choice(GRID)
            if rng.random() < 0.6 or list(U).count(node) > kv_info(U)[0]:
                cv.degree_increase(1)
            else:
                cv.knot_insert([node])
            st = curve_state(cv)
            run_case(ctx, ser(dict(kind="deriv", U=list(st[0]), P=[tuple(q) for q in st[1]], W=None if st[2] is None else list(st[2]))))
        ctx["rec"].count("family", "reducible")
    for i in range(budget(ctx, 12, 100)):
        # *nearly* reducible curves: a straight line stored with more degree / knots than it needs, plus a small steep feature (a
        # control point moved by a few 1e-4 on a span of width 1e-3): within the cleaning tolerance of a simpler curve in L2, but the
        # derivative of the feature is of order one — the derivative must be that of the curve given, not of a simplification
        dim = rng.choice([1, 2])
        q0 = tuple(F(rng.randint(-4, 4), 2) for _ in range(dim))
        q1 = tuple(F(rng.randint(-4, 4), 2) for _ in range(dim))
        delta = rng.choice([F(1, 4000), F(3, 10000), F(1, 2500), F(-3, 10000)])
        if i % 2 == 0:
            pb = rng.choice([2, 3])
            a = F(rng.randint(-2, 2), 2)
            hh = rng.choice([F(1, 1000), F(1, 500), F(1, 2000)])
            U = [a] * (pb + 1) + [a + hh] * (pb + 1)
            P = [tuple(x + (y - x) * F(j, pb) * hh for x, y in zip(q0, q1)) for j in range(pb + 1)]
        else:
            pb = rng.choice([2, 3])
            c0 = rng.choice([F(1, 4), F(1, 2), F(3, 5)])
            ks = [c0 + F(j, 1000) for j in range(pb + 1)]
            U = [F(0)] * (pb + 1) + ks + [F(1)] * (pb + 1)
            n = len(U) - pb - 1
            grev = [sum(U[j + 1:j + pb + 1], F(0)) / pb for j in range(n)]
            P = [tuple(x + (y - x) * g for x, y in zip(q0, q1)) for g in grev]
        j = rng.randrange(1, len(P) - 1) if i % 2 == 0 else rng.randrange(pb, len(P) - pb)
        P[j] = tuple(x + delta for x in P[j])
        run_case(ctx, ser(dict(kind="deriv", U=U, P=P, W=None)))
        ctx["rec"].count("family", "nearly-reducible")
    for i in range(budget(ctx, 8, 60)):
        # rational Bezier curves of higher degree (their derivative goes through the Bezier product of degree 2p)
        pb = 3 + i % 3
        a = F(rng.randint(-2, 1))
        b = a + rng.choice([1, 2, F(3, 2)])
        U = [a] * (pb + 1) + [b] * (pb + 1)
        run_case(ctx, ser(dict(kind="deriv", U=U, P=rand_points(rng, pb + 1, rng.choice([1, 2])), W=rand_weights(rng, pb + 1, "pos"))))
    for i in range(budget(ctx, 25, 300)):
        # integer knot vectors handed over as python ints (unequal spans: the ratios p/(u_(i+p)-u_i) are not integers)
        U = rand_int_kv(rng, pmax=3, nintmax=3)
        n = kv_info(U)[1]
        rat = rng.random() < 0.3
        P = rand_points(rng, n, rng.choice([1, 2]))
        W = [F(rng.randint(1, 4)) for _ in range(n)] if rat else None
        run_case(ctx, ser(dict(kind="deriv", U=U, P=P, W=W, intknots=True)))
