"""C01 — curve evaluation equals the B-spline / NURBS definition at every parameter."""
from common import *  # noqa: F401,F403
import units

RULE = ("random valid curves: degree 0..4, 0..3 distinct interior knots with multiplicities 1..p+1, intervals [0,1], [-2,1], "
        "[-1,1], [a,b], grid and large-denominator knots, scalar/2-D/3-D rational points, weights none/ones/const/positive; "
        "parameters: every knot, both ends, span midpoints, random interior; representations Fraction, int knots, float; "
        "outside parameters and empty sequences.  A case is non-trivial when degree >= 2 or there is an interior knot; "
        "distinct = distinct (U,P,W,parameters) tuples."
        " Also: parameters closer to every knot than double precision (k +- 1e-20) and the float next to every rational knot; int/float twins evaluated before Fraction data; integer / dyadic knot vectors with their python-int / float twin evaluated first; sequence nodes as list / tuple / generator / iterator / map / ndarray; degrees 5..8.")
EXPLANATION = ("L2: Curve.eval vs the model's table+Horner evaluation (exact); L3: Curve.eval vs the Cox-de Boor definition "
               "`curveDef` evaluated by the driver; the theorem eval_eq_def states model = definition for all inputs.")
ASSUMPTIONS = ["weights positive (find_roots is sampled, not modelled exactly)",
               "float inputs: agreement to relative 1e-9 on well-conditioned data only"]


def run_case(ctx, case):
    rec, drv = ctx["rec"], ctx["drv"]
    c = de(case)
    U, P, W, us = c["U"], [tuple(p) for p in c["P"]], c["W"], c["us"]
    rep = c.get("rep", "fraction")
    conv = {"fraction": lambda x: x, "float": float, "npfloat": lambda x: np.float64(float(x)),
            "intknots": lambda x: int(x) if x.denominator == 1 else x}[rep]
    scalar = all(len(p) == 1 for p in P)
    Ui = [conv(x) for x in U]
    if rep in ("float", "npfloat"):
        Pi = [tuple(float(x) for x in p) for p in P]
        Wi = None if W is None else [float(w) for w in W]
        usi = [conv(u) for u in us]
        # exact value of the float data
        U, P, W, us = [frac(x) for x in Ui], [tuple(frac(x) for x in p) for p in Pi], (None if Wi is None else [frac(w) for w in Wi]), [frac(u) for u in usi]
    else:
        Pi, Wi, usi = P, W, us
        if c.get("intdata"):
            # integral control points and weights handed over as python ints (each fits a machine word, their products need not)
            Pi = [tuple(int(x) for x in p) for p in P]
            Wi = None if W is None else [int(w) for w in W]
    rec.case(case, nontrivial=nontrivial_kv(c["U"]))
    rec.count("rep", rep)
    rec.count("degree", str(kv_info(c["U"])[0]))
    rec.count("weights", "rational" if W is not None else "polynomial")
    ks_ = sorted(set(U))
    if rep == "fraction" and not any(y - x < F(1, 10**6) for x, y in zip(ks_[:-1], ks_[1:])):
        units.tie_speval(rec, drv, case, U)          # the per-span power-basis tables themselves, entry by entry
    if rep == "fraction":
        # the same curve on numerically equal python-int / float knots evaluated first (tables memoised on knot tuples would be theirs)
        for tw in mixed_twins(U, P, W):
            impl(lambda: tw([(frac(tw.knotvector[0]) + frac(tw.knotvector[-1])) / 2]))
            rec.count("twin", "mixed-knot-types-first")
    r = impl(lambda: make_curve(Ui, Pi, Wi, scalar))
    if r[0] != "ok":
        rec.violation("constructor rejected a valid curve", case, observed=r[1])
        return
    curve = r[1]
    exact = rep in ("fraction",)
    tol = None if exact else F(1, 10**9)
    inside = [u for u in us if U[0] <= u <= U[-1]]
    outside = [u for u in us if not (U[0] <= u <= U[-1])]
    # recorded finding (KNOWN_FINDINGS.txt): a knot vector with two different knot values closer than 1e-6 is accepted by the constructor,
    # but the evaluation tables are built from tolerance-merged knots while the span search compares exactly
    ks_ = sorted(set(U))
    close = any(b_ - a_ < F(1, 10**6) for a_, b_ in zip(ks_[:-1], ks_[1:]))
    m = drv.call("curve.eval", *curve_args(U, P, W), inside)
    d = drv.call("curve.def", *curve_args(U, P, W), inside)
    if m != d and not close:
        rec.mismatch("model eval vs definition (internal)", case, m, d)
    # scalar calls
    for u_exact, u_impl in zip(us, usi):
        r = impl(lambda: curve(u_impl))
        mm = drv.call("curve.def", *curve_args(U, P, W), [u_exact])
        l3(rec, "curveDef")
        if U[0] <= u_exact <= U[-1]:
            if r[0] != "ok":
                rec.violation("evaluation raised inside the interval", case, u=str(u_exact), observed=r[1],
                              finding_key=("two-knot-values-closer-than-1e-6" if close else None))
                continue
            val = pt_canon(r[1])
            want = tuple(mm[1][0])
            ok = (val == want) if exact else pts_close([val], [want], tol)
            l2(rec, "curve.eval", case, val, want, ok)
            if not ok:
                rec.violation("curve(u) differs from sum R_i(u) P_i", case, u=str(u_exact), observed=ser(val), expected=ser(want))
            if exact and has_float(r[1]):
                rec.violation("float introduced for exact data", case, u=str(u_exact))
        else:
            l2(rec, "curve.eval.outside", case, errkind(r), "ValueError", errkind(r) == "ValueError")
            if errkind(r) != "ValueError":
                rec.violation("parameter outside the interval did not raise ValueError", case, u=str(u_exact), observed=str(r))
    # sequence call: one point per node in order
    if inside and not close:
        ins_impl = [ui for ue, ui in zip(us, usi) if U[0] <= ue <= U[-1]]
        # the nodes of a sequence call come in no particular order
        order = list(range(len(inside)))
        ctx["rng"].shuffle(order)
        inside = [inside[i] for i in order]
        ins_impl = [ins_impl[i] for i in order]
        form = form_of(case)
        rec.count("nodes-as", form)
        r = impl(lambda: curve(as_form(ins_impl, form if form != "nparray" or exact else "list")))
        mm = drv.call("curve.eval", *curve_args(U, P, W), inside)
        if r[0] != "ok":
            rec.violation("sequence evaluation raised", case, observed=r[1])
        else:
            vals = pts_canon(r[1])
            want = tup(mm[1])
            ok = (vals == want) if exact else pts_close(vals, want, tol)
            l2(rec, "curve.eval.seq", case, vals, want, ok)
            if not ok:
                rec.violation("sequence evaluation differs from pointwise definition", case, observed=ser(vals), expected=ser(want))
    if exact:
        # float parameters on exact knots: the float nearest to a rational knot lies on one definite side of it
        for k in sorted(set(U))[1:-1]:
            uf = float(k)
            ue = frac(uf)
            if ue == k or not (U[0] <= ue <= U[-1]):
                continue
            r = impl(lambda: curve(uf))
            mm = drv.call("curve.def", *curve_args(U, P, W), [ue])
            l3(rec, "curveDef-float-parameter")
            if r[0] != "ok":
                rec.violation("evaluation raised at a float parameter inside the interval", case, u=repr(uf), observed=r[1])
            elif not pts_close([pt_canon(r[1])], [tuple(mm[1][0])], F(1, 10**9)):
                rec.violation("curve(u) at the float next to a knot differs from sum R_i(u) P_i", case, u=repr(uf),
                              observed=ser(pt_canon(r[1])), expected=ser(tuple(mm[1][0])))
    if outside and inside:
        r = impl(lambda: curve([usi[0]] + [conv(outside[0])] if rep != "fraction" else [us[0], outside[0]]))
        if errkind(r) != "ValueError":
            rec.violation("sequence with an outside parameter did not raise ValueError", case, observed=str(r))
    r = impl(lambda: curve([]))
    if r[0] == "ok" and len(r[1]) != 0:
        rec.violation("empty sequence did not give an empty result", case)


def run(ctx):
    rng = ctx["rng"]
    # corpus: the witness of the recorded finding runs first, every time (two knot values closer than the merge tolerance)
    e_ = F(1, 10**12)
    run_case(ctx, ser(dict(kind="eval", U=[F(0)] * 3 + [F(1, 2), F(1, 2) + e_] + [F(1)] * 3, P=[(F(1),), (F(3),), (F(2),), (F(5),), (F(4),)], W=None,
                           us=[F(1, 4), F(1, 2), F(1, 2) + e_ / 2, F(3, 4)], rep="fraction")))
    for i in range(budget(ctx, 12, 120)):
        # python-int control points and weights: small ones, and ones that fit 64 bits each while the products w_i * P_i do not
        U = rand_kv(rng, pmax=3, nintmax=2)
        npts = kv_info(U)[1]
        bigw = i % 3 != 0
        dim = rng.choice([1, 2])
        P = [tuple(F(rng.choice([-1, 1]) * (rng.randint(10**9, 10**11) if bigw else rng.randint(0, 9))) for _ in range(dim)) for _ in range(npts)]
        W = [F(rng.randint(2**31, 2**33) if bigw else rng.randint(1, 5)) for _ in range(npts)] if i % 4 != 3 else None
        ctx["rec"].count("family", "python-int-data" + ("-big" if bigw else ""))
        run_case(ctx, ser(dict(kind="eval", U=U, P=P, W=W, us=params_for(rng, U), rep="fraction", intdata=True)))
    n = budget(ctx, 220, 2500)
    for i in range(n):
        rep = rng.choice(["fraction"] * 6 + ["float", "float", "npfloat", "intknots"])
        big = rng.random() < 0.15 and rep == "fraction"
        U = rand_kv(rng, bigknots=big, force_zero=(i % 9 == 0))
        if rep == "intknots":
            a = rng.randint(-3, 3)
            p = rng.randint(0, 3)
            ks = sorted(rng.sample(range(a + 1, a + 6), rng.randint(0, 3)))
            U = [F(a)] * (p + 1) + [F(k) for k in ks for _ in range(rng.randint(1, p + 1))] + [F(a + 6)] * (p + 1)
        if rep in ("float", "npfloat"):
            U = rand_kv(rng, pmax=4, maxmult=None, bigknots=False)
        if rep == "fraction" and i % 10 == 7:
            U = rand_int_kv(rng, pmax=3, nintmax=2) if rng.random() < 0.5 else rand_dyadic_kv(rng, pmax=3, nintmax=2)
        if rep == "fraction" and i % 25 == 11:
            # high degrees (5..8), one or no interior knot
            p_ = rng.randint(5, 8)
            U = [F(0)] * (p_ + 1) + ([F(rng.randint(1, 9), 10)] * rng.randint(1, 2) if rng.random() < 0.5 else []) + [F(1)] * (p_ + 1)
        p, npts, knots = kv_info(U)
        P = rand_points(rng, npts, big=big)
        W = rand_weights(rng, npts) if i % 9 != 4 else rand_weights(rng, npts, rng.choice(["tiny", "nearequal", "huge", "neg"]))
        if rep in ("float", "npfloat") and W is not None:
            W = [F(rng.randint(2, 50), 10) for _ in range(npts)]
        if i % 11 == 6 and rep == "fraction":
            # an exact zero among positive weights (degree >= 2, simple interior knots: at every parameter at least one other basis
            # function is positive, so the weight function has no zero): R_i = 0 for that control point
            p_ = rng.randint(2, 4)
            U = rand_kv(rng, p=p_, nintmax=2, maxmult=1)
            p, npts, knots = kv_info(U)
            P = rand_points(rng, npts)
            W = [F(rng.randint(1, 9), rng.randint(1, 3)) for _ in range(npts)]
            W[rng.randrange(1, npts - 1)] = F(0)
            us = params_for(rng, U) + hair_params(U)
        us = params_for(rng, U) + (hair_params(U) if rep == "fraction" else [])
        if W is not None and any(w == 0 for w in W):
            ctx["rec"].count("weights-kind", "with-an-exact-zero")
        if i % 5 == 0:
            us += [U[0] - F(1, 7), U[-1] + F(3, 1000)]
        run_case(ctx, ser(dict(kind="eval", U=U, P=P, W=W, us=us, rep=rep)))
