/-
Main.lean — line-protocol driver over the executable model (imports `Model/` and `Spec/` only,
no Mathlib, so it is compiled as a `lean_exe`).  One request per line:
    <cmd> <arg> <arg> …          arguments are JSON-like: n/d, [a,b], [[a],[b]], none
one answer per line:
    ok <value> | err value | err other | bad <message>
-/
import NurbsVerif.Model.Calc
import NurbsVerif.Model.Decide
import NurbsVerif.Model.Geom
import NurbsVerif.Spec.CdB
open NV

inductive J where
  | num (r : Rat)
  | arr (l : List J)
  | none
  | str (s : String)
deriving Inhabited

partial def J.toStr : J → String
  | .num r => if r.den == 1 then toString r.num else s!"{r.num}/{r.den}"
  | .arr l => "[" ++ ",".intercalate (l.map J.toStr) ++ "]"
  | .none => "none"
  | .str s => s

/-! parsing -/
def parseRat (s : String) : Option Rat :=
  match s.splitOn "/" with
  | [n] => n.toInt?.map fun i => (i : Rat)
  | [n, d] => do
      let a ← n.toInt?
      let b ← d.toNat?
      if b == 0 then Option.none else some (mkRat a b)
  | _ => Option.none

partial def parseJ (cs : List Char) : Option (J × List Char) :=
  match cs with
  | '[' :: rest =>
    let rec items (cs : List Char) (acc : List J) : Option (J × List Char) :=
      match cs with
      | ']' :: r => some (.arr acc.reverse, r)
      | ',' :: r => items r acc
      | _ => do
        let (j, r) ← parseJ cs
        items r (j :: acc)
    items rest []
  | 'n' :: 'o' :: 'n' :: 'e' :: rest => some (.none, rest)
  | _ =>
    let tok := cs.takeWhile fun c => c != ',' && c != ']'
    let rest := cs.dropWhile fun c => c != ',' && c != ']'
    (parseRat (String.ofList tok)).map fun r => (.num r, rest)

def parseArg (s : String) : Option J :=
  match parseJ s.toList with
  | some (j, []) => some j
  | _ => Option.none

def J.rat? : J → Option Rat
  | .num r => some r
  | _ => Option.none
def J.nat? (j : J) : Option Nat := j.rat?.bind fun r => if r.den == 1 && r.num ≥ 0 then some r.num.toNat else Option.none
def J.vec? : J → Option Vec
  | .arr l => l.mapM J.rat?
  | _ => Option.none
def J.mat? : J → Option (List Vec)
  | .arr l => l.mapM J.vec?
  | _ => Option.none
def J.optVec? : J → Option (Option Vec)
  | .none => some Option.none
  | j => j.vec?.map some
def J.optMat? : J → Option (Option (List Vec))
  | .none => some Option.none
  | j => j.mat?.map some
def J.optRat? : J → Option (Option Rat)
  | .none => some Option.none
  | j => j.rat?.map some
def J.optNat? : J → Option (Option Nat)
  | .none => some Option.none
  | j => j.nat?.map some

def jv (v : Vec) : J := .arr (v.map .num)
def jm (m : List Vec) : J := .arr (m.map jv)
def jn (n : Nat) : J := .num ((n : Nat) : Rat)
def jov : Option Vec → J
  | some v => jv v
  | Option.none => .none
def jom : Option (List Vec) → J
  | some v => jm v
  | Option.none => .none
def jkv (k : KV) : J := .arr [jv k.v, jn k.deg]
def jcurve (c : Curve) : J := .arr [jv c.kv.v, jom c.P, jov c.W]
def jbool (b : Bool) : J := .str (if b then "true" else "false")
def jverdict : Verdict → J
  | .yes => .str "yes"
  | .no u => .arr [.str "no", .num u]
  | .undefined => .str "undefined"

/-- a curve from three arguments; the knot vector is re-validated, points/weights are taken as given -/
def curveOf (u p w : J) : Option (Except Err Curve) := do
  let uv ← u.vec?
  let pp ← p.optMat?
  let ww ← w.optVec?
  return (do
    let k ← KV.mk? uv
    Curve.mk? k pp ww)

abbrev R := Except Err J

def bad : Option R := Option.none

def optRF (x : Option RF) : Except Err RF := exceptOfOption .other x

def relOp (op : String) (a b : RF) : Option RF :=
  match op with
  | "add" => RF.zipWith Piece.add a b
  | "sub" => RF.zipWith Piece.sub a b
  | "mul" => RF.zipWith Piece.mul a b
  | "matmul" => RF.zipWith Piece.dotp a b
  | "div" => RF.zipWith Piece.div a b
  | _ => Option.none

def dispatch (memo : QuadMemo) (cmd : String) (a : Array J) : Option (R × QuadMemo) :=
  let pure' (r : Option R) : Option (R × QuadMemo) := r.map fun x => (x, memo)
  let arg (i : Nat) : J := a.getD i .none
  let kvOf (j : J) : Option (Except Err KV) := j.vec?.map fun v => KV.mk? v
  let crv (i : Nat) : Option (Except Err Curve) := curveOf (arg i) (arg (i + 1)) (arg (i + 2))
  match cmd with
  | "kv.new" => pure' do
      let v ← (arg 0).vec?
      let d ← (arg 1).optNat?
      return (KV.mk? v d).map jkv
  | "kv.span" => pure' do
      let k ← kvOf (arg 0); let x ← (arg 1).rat?
      return do let k ← k; return jn (← k.span x)
  | "kv.mult" => pure' do
      let k ← kvOf (arg 0); let x ← (arg 1).rat?
      return do let k ← k; return jn (← k.mult x)
  | "kv.valid" => pure' do
      let k ← kvOf (arg 0); let x ← (arg 1).vec?
      return do let k ← k; return jbool (k.validNodes x)
  | "kv.knots" => pure' do
      let k ← kvOf (arg 0)
      return do let k ← k; return .arr [jv k.knots, jv [k.umin, k.umax], jn k.deg, jn k.npts]
  | "kv.insert" => pure' do
      let k ← kvOf (arg 0); let x ← (arg 1).vec?
      return do let k ← k; return jkv (← k.insert x)
  | "kv.remove" => pure' do
      let k ← kvOf (arg 0); let x ← (arg 1).vec?
      return do let k ← k; return jkv (← k.remove x)
  | "kv.union" => pure' do
      let k ← kvOf (arg 0); let l ← kvOf (arg 1)
      return do let k ← k; let l ← l; return jkv (← k.union l)
  | "kv.inter" => pure' do
      let k ← kvOf (arg 0); let l ← kvOf (arg 1)
      return do let k ← k; let l ← l; return jkv (← k.inter l)
  | "kv.split" => pure' do
      let k ← kvOf (arg 0); let x ← (arg 1).vec?
      return do let k ← k; return .arr ((← k.split x).map jkv)
  | "kv.shift" => pure' do
      let k ← kvOf (arg 0); let x ← (arg 1).rat?
      return do let k ← k; return jkv (← k.shift x)
  | "kv.scale" => pure' do
      let k ← kvOf (arg 0); let x ← (arg 1).rat?
      return do let k ← k; return jkv (← k.scale x)
  | "kv.normalize" => pure' do
      let k ← kvOf (arg 0)
      return do let k ← k; return jkv (← k.normalize)
  | "kv.setdeg" => pure' do
      let k ← kvOf (arg 0); let d ← (arg 1).nat?
      return do let k ← k; return jkv (← k.setDegree d)
  | "gen.bezier" => pure' do let p ← (arg 0).nat?; return (Gen.bezier p).map jkv
  | "gen.integer" => pure' do let p ← (arg 0).nat?; let n ← (arg 1).nat?; return (Gen.integer p n).map jkv
  | "gen.uniform" => pure' do let p ← (arg 0).nat?; let n ← (arg 1).nat?; return (Gen.uniform p n).map jkv
  | "gen.weight" => pure' do let p ← (arg 0).nat?; let w ← (arg 1).vec?; return (Gen.weight p w).map jkv
  | "gen.random" => pure' do let p ← (arg 0).nat?; let w ← (arg 1).vec?; return (Gen.randomFrom p w).map jkv
  | "basis.eval" => pure' do
      let k ← kvOf (arg 0); let w ← (arg 1).optVec?; let j ← (arg 2).nat?; let u ← (arg 3).rat?
      return do
        let k ← k
        let r ← rbasisRow k w j u
        -- run-time validation of the side condition of theorem C02_basis_eq_cdb
        let t ← speval k j
        if !evalCheck k t j u then throw .other
        return jv r
  | "basis.table" => pure' do
      let k ← kvOf (arg 0); let j ← (arg 1).nat?
      return do let k ← k; let t ← speval k j; return .arr (t.polys.map jm)
  | "cdb.row" => pure' do
      let k ← kvOf (arg 0); let w ← (arg 1).optVec?; let j ← (arg 2).nat?; let u ← (arg 3).rat?
      return do
        let k ← k
        let row := cdbRow k.v k.umax k.npts j u
        return jv (match w with | Option.none => row | some ws => ratRow ws row)
  | "curve.new" => pure' do let c ← crv 0; return do return jcurve (← c)
  | "curve.eval" => pure' do
      let c ← crv 0; let us ← (arg 3).vec?
      return do
        let c ← c
        let r ← c.evalMany us
        -- run-time validation of the side condition of theorem C01_eval_eq_def
        let t ← speval c.kv c.kv.deg
        if !(us.all fun u => evalCheck c.kv t c.kv.deg u) then throw .other
        return jm r
  | "curve.def" => pure' do
      let c ← crv 0; let us ← (arg 3).vec?
      return do
        let c ← c
        match c.P with
        | Option.none => throw .value
        | some pts => return jm (us.map fun u => curveDef c.kv.v c.kv.umax c.kv.npts c.kv.deg pts c.W u)
  | "curve.insert" => pure' do
      let c ← crv 0; let ns ← (arg 3).vec?
      return do let c ← c; return jcurve (← c.knotInsert ns)
  | "curve.remove" => pure' do
      let c ← crv 0; let ns ← (arg 3).vec?; let tol ← (arg 4).optRat?
      return do let c ← c; return jcurve (← c.knotRemove ns tol)
  | "curve.deginc" => pure' do
      let c ← crv 0; let t ← (arg 3).nat?
      return do let c ← c; return jcurve (← c.degreeIncrease t)
  | "curve.degdec" => pure' do
      let c ← crv 0; let t ← (arg 3).nat?; let tol ← (arg 4).optRat?
      return do let c ← c; return jcurve (← c.degreeDecrease t tol)
  | "curve.setdeg" => pure' do
      let c ← crv 0; let t ← (arg 3).nat?
      return do let c ← c; return jcurve (← c.setDegree t)
  | "curve.knotclean" => pure' do
      let c ← crv 0; let ns ← (arg 3).optVec?; let tol ← (arg 4).rat?
      return do let c ← c; return jcurve (c.knotClean ns tol)
  | "curve.degclean" => pure' do
      let c ← crv 0; let tol ← (arg 3).rat?
      return do let c ← c; return jcurve (c.degreeClean tol)
  | "curve.clean" => pure' do
      let c ← crv 0; let tol ← (arg 3).rat?
      return do let c ← c; return jcurve (c.clean tol)
  | "curve.split" => pure' do
      let c ← crv 0; let ns ← (arg 3).optVec?
      return do let c ← c; return .arr ((← c.split ns).map jcurve)
  | "curve.join" => pure' do
      let c ← crv 0; let d ← crv 3
      return do let c ← c; let d ← d; return jcurve (← c.join d)
  | "curve.bin" => pure' do
      let op ← match arg 0 with | .str s => some s | _ => Option.none
      let c ← crv 1; let d ← crv 4
      return do
        let c ← c; let d ← d
        match op with
        | "add" => return jcurve (← c.add d)
        | "sub" => return jcurve (← c.sub d)
        | "mul" => return jcurve (← c.mul d)
        | "matmul" => return jcurve (← c.matmul d)
        | "div" => return jcurve (← c.div d)
        | "eq" => return jbool (← c.eq d)
        | _ => throw .other
  | "curve.neg" => pure' do let c ← crv 0; return do let c ← c; return jcurve (← c.neg)
  | "curve.smul" => pure' do
      let c ← crv 0; let s ← (arg 3).rat?
      return do let c ← c; return jcurve (← c.scalarMul s)
  | "curve.sdiv" => pure' do
      let c ← crv 0; let s ← (arg 3).rat?
      return do let c ← c; return jcurve (← c.scalarDiv s)
  | "curve.rdiv" => pure' do
      let c ← crv 0; let s ← (arg 3).rat?
      return do let c ← c; return jcurve (← c.rdiv s)
  | "curve.cadd" => pure' do
      let c ← crv 0; let v ← (arg 3).vec?
      return do let c ← c; return jcurve (← c.constAdd v)
  | "curve.mleft" => pure' do
      let c ← crv 0; let m ← (arg 3).mat?
      return do let c ← c; return jcurve (← c.matLeft m)
  | "curve.mright" => pure' do
      let c ← crv 0; let m ← (arg 3).mat?
      return do let c ← c; return jcurve (← c.matRight m)
  | "curve.deriv" => pure' do let c ← crv 0; return do let c ← c; return jcurve (← c.derivPoly)
  | "curve.integ" => pure' do
      let c ← crv 0; let n ← (arg 3).optNat?; let closed ← (arg 4).nat?
      return do let c ← c; return jv (← c.integrateScalar n (closed == 1))
  | "curve.fitcurve" => pure' do
      let c ← crv 0; let d ← crv 3; let ns ← (arg 6).optVec?
      return do
        let c ← c; let d ← d
        let (r, e) ← c.fitCurve d ns
        return .arr [jcurve r, .num e]
  | "curve.fitpoints" => pure' do
      let c ← crv 0; let pts ← (arg 3).mat?; let ns ← (arg 4).optVec?
      return do let c ← c; return jcurve (← c.fitPoints pts ns)
  | "ops.insert" => pure' do
      let k ← kvOf (arg 0); let ns ← (arg 1).vec?
      return do let k ← k; return jm (← knotInsertMat k ns)
  | "ops.elev" => pure' do
      let k ← kvOf (arg 0); let t ← (arg 1).nat?
      return do let k ← k; return jm (← degreeIncreaseMat k t)
  | "ops.split" => pure' do
      let k ← kvOf (arg 0); let ns ← (arg 1).vec?
      return do let k ← k; return .arr ((← splitCurveMats k ns).map jm)
  | "ops.trans" => pure' do
      let k ← kvOf (arg 0); let l ← kvOf (arg 1)
      return do let k ← k; let l ← l; return jm (← matrixTransformation k l)
  | "ops.remove" => pure' do
      let k ← kvOf (arg 0); let ns ← (arg 1).vec?
      return do let k ← k; return jm (← knotRemoveMat k ns)
  | "ops.mulkv" => pure' do
      let k ← kvOf (arg 0); let l ← kvOf (arg 1)
      return do let k ← k; let l ← l; return jkv (← knotvectorMul k l)
  | "lsq.s2s" => pure' do
      let k ← kvOf (arg 0); let l ← kvOf (arg 1); let ns ← (arg 2).optVec?
      return do
        let k ← k; let l ← l
        let (T, E) ← spline2spline k l ns
        return .arr [jm T, jm E]
  | "linalg.inv" => pure' do
      let m ← (arg 0).mat?
      return (exceptOfOption .other (invert? m)).map jm
  | "linalg.solve" => pure' do
      let m ← (arg 0).mat?; let f ← (arg 1).mat?
      return (exceptOfOption .other (solve? m f)).map jm
  | "linalg.lstsq" => pure' do
      let m ← (arg 0).mat?
      return (exceptOfOption .other (lstsq? m)).map jm
  | "ops.insonce" => pure' do
      let k ← kvOf (arg 0); let nd ← (arg 1).rat?
      return do let k ← k; return jm (← insOnce k nd)
  | "ops.elevbez" => pure' do
      let p ← (arg 0).nat?; let t ← (arg 1).nat?
      return .ok (jm (elevBezier p t))
  | "ops.derivmat" => pure' do
      let k ← kvOf (arg 0)
      return do let k ← k; return jm (derivSplineMat k)
  | "quad.nodes" => pure' do
      let closed ← (arg 0).nat?; let n ← (arg 1).nat?
      return .ok (jv (if closed == 1 then closedLinspace n else openLinspace n))
  | "quad.fromnodes" => pure' do
      let ns ← (arg 0).vec?
      return (exceptOfOption .other (bezierIntegratorArray? ns)).map jv
  | "quad.rule" => do
      -- memoised request: state is threaded through the driver
      let closed ← (arg 0).nat?; let n ← (arg 1).nat?
      match (if closed == 1 then closedNC memo n else openNC memo n) with
      | some (w, m') => some (.ok (jv w), m')
      | Option.none => some (.error .other, memo)
  | "quad.fresh" => pure' do
      let closed ← (arg 0).nat?; let n ← (arg 1).nat?
      return (exceptOfOption .other (if closed == 1 then closedRule? n else openRule? n)).map jv
  | "quad.reset" => some (.ok (.str "reset"), QuadMemo.init)
  | "rf.eq" => pure' do
      let c ← crv 0; let d ← crv 3
      return do
        let c ← c; let d ← d
        return jverdict ((← RF.ofCurve c).eqOn (← RF.ofCurve d))
  | "rf.eqsub" => pure' do
      -- is `d` (defined on a sub-interval) the restriction of `c`?
      let c ← crv 0; let d ← crv 3
      return do
        let c ← c; let d ← d
        let fd ← RF.ofCurve d
        return jverdict ((← RF.ofCurve c).eqOnInterval fd fd.lo fd.hi)
  | "rf.rel" => pure' do
      let op ← match arg 0 with | .str s => some s | _ => Option.none
      let x ← crv 1; let y ← crv 4; let z ← crv 7
      return do
        let x ← x; let y ← y; let z ← z
        let r ← optRF (relOp op (← RF.ofCurve x) (← RF.ofCurve y))
        return jverdict ((← RF.ofCurve z).eqOn r)
  | "rf.map" => pure' do
      -- unary relations: z == f(x) for f ∈ neg | smul s | sdiv s | cadd v | rdiv s | mleft M | mright M | deriv
      let op ← match arg 0 with | .str s => some s | _ => Option.none
      let x ← crv 1; let z ← crv 4
      return do
        let x ← x; let z ← z
        let fx ← RF.ofCurve x
        let fz ← RF.ofCurve z
        let f : Option (Piece → Piece) := match op with
          | "neg" => some Piece.neg
          | "deriv" => some Piece.deriv
          | "smul" => (arg 7).rat?.map Piece.scale
          | "sdiv" => (arg 7).rat?.map fun s => Piece.scale (1 / s)
          | "rdiv" => (arg 7).rat?.map Piece.rdiv
          | "cadd" => (arg 7).vec?.map Piece.addConst
          | "mleft" => (arg 7).mat?.map Piece.matLeft
          | "mright" => (arg 7).mat?.map Piece.matRight
          | _ => Option.none
        match f with
        | Option.none => throw .other
        | some f => return jverdict (fz.eqOn (fx.map f))
  | "rf.needed" => pure' do
      let c ← crv 0
      return do
        let c ← c
        return .arr (((← RF.ofCurve c).neededMults c.kv.deg).map fun (x, m) => .arr [.num x, jn m])
  | "rf.evalderiv" => pure' do
      -- exact values of dC/du at the given parameters (right-continuous piece selection)
      let c ← crv 0; let us ← (arg 3).vec?
      return do
        let c ← c
        let f := (← RF.ofCurve c).map Piece.deriv
        return .arr (us.map fun u => match RF.eval f u with | some v => jv v | Option.none => .none)
  | "rf.integral" => pure' do
      let c ← crv 0
      return do
        let c ← c
        let v ← exceptOfOption .other (← RF.ofCurve c).integral
        return jv v
  | "rf.inner" => pure' do
      -- ∫ x·y per coordinate (polynomial curves), on the common refinement
      let x ← crv 0; let y ← crv 3
      return do
        let x ← x; let y ← y
        let r ← optRF (RF.zipWith Piece.mul (← RF.ofCurve x) (← RF.ofCurve y))
        return jv (← exceptOfOption .other r.integral)
  | "rf.sqdist" => pure' do
      let x ← crv 0; let y ← crv 3
      return do
        let x ← x; let y ← y
        let d ← optRF (RF.zipWith Piece.sub (← RF.ofCurve x) (← RF.ofCurve y))
        let r := d.map fun pc => Piece.mul pc pc
        return jv (← exceptOfOption .other (RF.integral r))
  | "rf.minimal" => pure' do
      let c ← crv 0
      return do
        let c ← c
        let (v, d) := (← RF.ofCurve c).minimalKnots
        return .arr [jv v, jn d]
  | "geom.nearest" => pure' do
      -- exact nearest-point oracle for a polyline (degree-1 polynomial curve)
      let c ← crv 0; let pt ← (arg 3).vec?
      return do
        let c ← c
        let (d2, us) ← polylineNearest c pt
        return .arr [.num d2, jv us]
  | "geom.cross" => pure' do
      let c ← crv 0; let d ← crv 3
      return do
        let c ← c; let d ← d
        let r ← polylineCrossings c d
        return .arr [jbool r.degenerate, jbool r.touching, jm (r.pairs.map fun (t, u) => [t, u])]
  | _ => Option.none

def splitTokens (line : String) : List String := (line.splitOn " ").filter (· != "")

def handle (memo : QuadMemo) (line : String) : String × QuadMemo :=
  match splitTokens line with
  | [] => ("bad empty", memo)
  | cmd :: args =>
    let js := args.map fun s => match parseArg s with
      | some j => j
      | Option.none => .str s
    match dispatch memo cmd js.toArray with
    | Option.none => (s!"bad {cmd}", memo)
    | some (.ok j, m) => ("ok " ++ j.toStr, m)
    | some (.error .value, m) => ("err value", m)
    | some (.error .other, m) => ("err other", m)

partial def loop (hin hout : IO.FS.Stream) (memo : QuadMemo) : IO Unit := do
  let line ← hin.getLine
  if line.isEmpty then return ()
  let (out, memo') := handle memo (line.trimAscii.toString)
  hout.putStrLn out
  hout.flush
  loop hin hout memo'

def main : IO Unit := do
  loop (← IO.getStdin) (← IO.getStdout) QuadMemo.init
