/-
Proofs/Lookup.lean — discharge of the table look-up side conditions of the evaluation theorem for every
well-formed, separated knot vector: `span` finds the unique span of a valid node, the distinct knot
list is strictly increasing and adjacent entries bound exactly the non-empty spans, `spans.index(span)`
hits that entry.
-/
import NurbsVerif.Proofs.Span

namespace NV

/-! ### span: bounds and uniqueness -/

theorem spanSearch_bounds (U : List Rat) (node : Rat) :
    ∀ fuel low high mid s, low ≤ mid → mid ≤ high → KV.spanSearch U node fuel low high mid = some s →
      low ≤ s ∧ s ≤ high := by
  intro fuel
  induction fuel with
  | zero => intro low high mid s _ _ h; simp [KV.spanSearch] at h
  | succ f ih =>
    intro low high mid s h1 h2 h
    simp only [KV.spanSearch] at h
    by_cases hc : node < nth U mid
    · simp only [hc, if_true] at h
      split at h
      · simp only [Option.some.injEq] at h; omega
      · have := ih low mid ((low + mid) / 2) s (by omega) (by omega) h; omega
    · simp only [hc, if_false] at h
      split at h
      · simp only [Option.some.injEq] at h; omega
      · have := ih mid high ((mid + high) / 2) s (by omega) (by omega) h; omega

/-- under monotone knots a parameter lies in at most one (non-empty) span -/
theorem inSpan_unique (t : Nat → Rat) (umax : Rat) (B : Nat) (hm : MonoUpTo t B) (hmax : ∀ a, a ≤ B → t a ≤ umax)
    (s1 s2 : Nat) (u : Rat) (h1B : s1 + 1 ≤ B) (h2B : s2 + 1 ≤ B)
    (h1 : InSpan t umax s1 u) (h2 : InSpan t umax s2 u) : s1 = s2 := by
  by_contra hne
  rcases Nat.lt_or_gt_of_ne hne with hlt | hgt
  · -- s1 < s2 : u ≤ t (s1+1) ≤ t s2 ≤ u, and strictness somewhere
    have hle : t (s1 + 1) ≤ t s2 := hm _ _ (by omega) (by omega)
    have hu2 := h2.le_left
    rcases h1 with ⟨_, b⟩ | ⟨a, b, c⟩
    · linarith
    · -- u = umax = t (s1+1) ≤ t s2 < t (s2+1) ≤ umax
      have := h2.lt
      have := hmax (s2 + 1) h2B
      linarith
  · have hle : t (s2 + 1) ≤ t s1 := hm _ _ (by omega) (by omega)
    have hu1 := h1.le_left
    rcases h2 with ⟨_, b⟩ | ⟨a, b, c⟩
    · linarith
    · have := h1.lt
      have := hmax (s1 + 1) h1B
      linarith

/-- a returned span index is smaller than `npts` -/
theorem span_lt_npts (k : KV) (hk : Ordered k) (u : Rat) (s : Nat) (h : k.span u = .ok s) (hpos : 0 < k.npts) :
    s < k.npts := by
  have hlen := hk.len
  unfold KV.span at h
  split at h
  · simp at h
  · rename_i hv
    have hvalid : k.umin ≤ u ∧ u ≤ k.umax := by
      simp only [KV.validNode, Bool.not_eq_true, Bool.not_eq_false', Bool.or_eq_false_iff, decide_eq_false_iff_not, not_lt] at hv
      simpa [KV.validNode] using hv
    split at h
    · rename_i s' hs'
      simp only [Except.ok.injEq] at h
      subst h
      unfold KV.spanSingle at hs'
      split at hs'
      · simp only [Option.some.injEq] at hs'; omega
      · rename_i hne
        have hne' : u ≠ k.umax := by simpa using hne
        have hspec := spanSearch_spec _ _ _ _ _ _ _ hs'
        by_contra hge
        have hge' : k.npts ≤ s' := by omega
        by_cases hin : s' ≤ k.v.length - 1
        · have : nth k.v k.npts ≤ nth k.v s' := hk.mono _ _ hge' hin
          have : u = k.umax := le_antisymm hvalid.2 (by unfold KV.umax; linarith [hspec.1])
          exact hne' this
        · -- beyond the list both entries default to 0
          have hge2 : k.v.length ≤ s' := by omega
          have e1 : nth k.v s' = 0 := by simp [nth, List.getD_eq_getElem?_getD, hge2]
          have e2 : nth k.v (s' + 1) = 0 := by
            have : k.v.length ≤ s' + 1 := by omega
            simp [nth, List.getD_eq_getElem?_getD, this]
          rw [e1, e2] at hspec
          linarith [hspec.1, hspec.2]
    · simp at h

/-- **`span` finds the span**: for an ordered vector whose last block is a proper block, a parameter lying in the
non-empty span `sz` (`deg ≤ sz < npts`) gets exactly `sz` -/
theorem span_eq_of_inSpan (k : KV) (hk : Ordered k) (hdeg : k.deg < k.npts)
    (hlast : nth k.v (k.npts - 1) < nth k.v k.npts)
    (sz : Nat) (u : Rat) (h : InSpan (nth k.v) k.umax sz u) (h1 : k.deg ≤ sz) (h2 : sz < k.npts) :
    k.span u = .ok sz := by
  have hlen := hk.len
  have hB : ∀ a, a ≤ k.npts → a ≤ k.v.length - 1 := fun a ha => by omega
  have hu : k.umin ≤ u ∧ u ≤ k.umax := by
    constructor
    · exact le_trans (hk.mono _ _ h1 (by omega)) h.le_left
    · exact le_trans h.le_right (hk.le_umax _ (by omega))
  obtain ⟨s, hs⟩ := span_total k hk hdeg u hu
  have hslt := span_lt_npts k hk u s hs (by omega)
  have hInS : InSpan (nth k.v) k.umax s u := by
    rcases span_spec k u s hs with hsp | ⟨hmax, hsn⟩
    · exact Or.inl hsp
    · refine Or.inr ⟨hmax, ?_, ?_⟩
      · rw [hsn]; have : k.npts - 1 + 1 = k.npts := by omega
        rw [this]; exact hlast
      · rw [hsn]; have : k.npts - 1 + 1 = k.npts := by omega
        rw [this]; rfl
  have := inSpan_unique (nth k.v) k.umax (k.v.length - 1) hk.mono hk.le_umax s sz u (by omega) (by omega) hInS h
  rw [hs, this]

/-! ### the distinct knot list -/

theorem sortedLE_cons_iff (a : Rat) (l : List Rat) :
    sortedLE (a :: l) = true ↔ (∀ y ∈ l, a ≤ y) ∧ sortedLE l = true := by
  induction l generalizing a with
  | nil => simp [sortedLE]
  | cons b l ih =>
    simp only [sortedLE, Bool.and_eq_true, decide_eq_true_eq]
    constructor
    · rintro ⟨hab, hs⟩
      refine ⟨?_, hs⟩
      intro y hy
      rcases List.mem_cons.mp hy with rfl | hy
      · exact hab
      · exact le_trans hab (((ih b).mp hs).1 y hy)
    · rintro ⟨hall, hs⟩
      exact ⟨hall b (by simp), hs⟩

theorem sortedLE_insSorted (a : Rat) (l : List Rat) (h : sortedLE l = true) : sortedLE (insSorted a l) = true := by
  induction l with
  | nil => simp [insSorted, sortedLE]
  | cons b l ih =>
    simp only [insSorted]
    split
    · rename_i hab
      rw [sortedLE_cons_iff]
      refine ⟨?_, h⟩
      intro y hy
      rcases List.mem_cons.mp hy with rfl | hy
      · exact hab
      · exact le_trans hab (((sortedLE_cons_iff b l).mp h).1 y hy)
    · rename_i hab
      have hba : b ≤ a := le_of_lt (not_le.mp hab)
      obtain ⟨hall, hs⟩ := (sortedLE_cons_iff b l).mp h
      rw [sortedLE_cons_iff]
      refine ⟨?_, ih hs⟩
      intro y hy
      rcases (mem_insSorted a y l).mp hy with rfl | hy
      · exact hba
      · exact hall y hy

theorem sortedLE_isort (l : List Rat) : sortedLE (isort l) = true := by
  induction l with
  | nil => rfl
  | cons a l ih => exact sortedLE_insSorted a _ ih

/-- a sorted list without repetitions is strictly increasing -/
theorem strict_of_sorted_nodup (l : List Rat) (hs : sortedLE l = true) (hnd : l.Nodup) (i j : Nat)
    (hij : i < j) (hj : j < l.length) : nth l i < nth l j := by
  have hle := sortedLE_mono l hs i j (le_of_lt hij) hj
  refine lt_of_le_of_ne hle ?_
  intro e
  rw [nth_eq_getElem l i (by omega), nth_eq_getElem l j hj] at e
  have := (List.Nodup.getElem_inj_iff hnd).mp e
  omega

/-- two members of a strictly increasing list with nothing of the list strictly between them are neighbours -/
theorem adjacent_of_no_between (l : List Rat) (hs : sortedLE l = true) (hnd : l.Nodup) (x y : Rat)
    (hx : x ∈ l) (hy : y ∈ l) (hxy : x < y) (hno : ∀ z ∈ l, ¬ (x < z ∧ z < y)) :
    ∃ ind, ind + 1 < l.length ∧ nth l ind = x ∧ nth l (ind + 1) = y := by
  obtain ⟨i, hi, rfl⟩ := List.mem_iff_getElem.mp hx
  obtain ⟨j, hj, rfl⟩ := List.mem_iff_getElem.mp hy
  have hij : i < j := by
    by_contra c
    have := sortedLE_mono l hs j i (by omega) hi
    rw [nth_eq_getElem l j hj, nth_eq_getElem l i hi] at this
    linarith
  have hj1 : j = i + 1 := by
    by_contra c
    have h1 := strict_of_sorted_nodup l hs hnd i (i + 1) (by omega) (by omega)
    have h2 := strict_of_sorted_nodup l hs hnd (i + 1) j (by omega) hj
    rw [nth_eq_getElem l i hi, nth_eq_getElem l (i + 1) (by omega)] at h1
    rw [nth_eq_getElem l (i + 1) (by omega), nth_eq_getElem l j hj] at h2
    exact hno (l[i + 1]'(by omega)) (List.getElem_mem _) ⟨h1, h2⟩
  subst hj1
  exact ⟨i, hj, nth_eq_getElem l i hi, nth_eq_getElem l (i + 1) hj⟩

/-- position of the first occurrence -/
theorem indexOfNat?_eq (x : Nat) (L : List Nat) (ind : Nat) (hind : ind < L.length) (hx : L[ind] = x)
    (hfirst : ∀ i (hi : i < ind), L[i]'(by omega) ≠ x) : indexOfNat? x L = some ind := by
  induction L generalizing ind with
  | nil => simp at hind
  | cons a L ih =>
    cases ind with
    | zero =>
      simp only [List.getElem_cons_zero] at hx
      simp [indexOfNat?, hx]
    | succ ind =>
      have ha : a ≠ x := hfirst 0 (by omega)
      have hne : (a == x) = false := by simpa using ha
      simp only [indexOfNat?, hne, Bool.false_eq_true, if_false]
      rw [ih ind (by simpa using hind) (by simpa using hx)
        (fun i hi => by have := hfirst (i + 1) (by omega); simpa using this)]
      rfl

/-- `mapM` in `Except` succeeds when every element does, pointwise -/
theorem mapM_ok {α β : Type} (f : α → Except Err β) (l : List α) (g : α → β) (h : ∀ a ∈ l, f a = .ok (g a)) :
    l.mapM f = .ok (l.map g) := by
  induction l with
  | nil => rfl
  | cons a l ih =>
    rw [List.mapM_cons, h a (by simp), ih (fun b hb => h b (List.mem_cons_of_mem _ hb))]
    rfl

/-! ### assembling the look-up facts -/

/-- the standing assumptions: ordered, separated, `degree < npts`, and a proper last block -/
structure GoodKV (k : KV) : Prop where
  ord : Ordered k
  sep : Separated k.v
  deg_lt : k.deg < k.npts
  last : nth k.v (k.npts - 1) < nth k.v k.npts

/-- the slice `v[degree : npts+1]` the distinct knots are taken from -/
def kslice (k : KV) : List Rat := (k.v.drop k.deg).take (k.npts + 1 - k.deg)

theorem knots_eq (k : KV) : k.knots = getUnique (kslice k) := rfl

theorem mem_kslice (k : KV) (hk : Ordered k) (y : Rat) :
    y ∈ kslice k ↔ ∃ m, k.deg ≤ m ∧ m ≤ k.npts ∧ y = nth k.v m := by
  have hlen := hk.len
  unfold kslice
  constructor
  · intro hy
    obtain ⟨i, hi, rfl⟩ := List.mem_iff_getElem.mp hy
    simp only [List.length_take, List.length_drop] at hi
    refine ⟨k.deg + i, by omega, by omega, ?_⟩
    simp only [List.getElem_take, List.getElem_drop]
    rw [nth_eq_getElem k.v (k.deg + i) (by omega)]
  · rintro ⟨m, h1, h2, rfl⟩
    rw [List.mem_iff_getElem]
    refine ⟨m - k.deg, by simp only [List.length_take, List.length_drop]; omega, ?_⟩
    simp only [List.getElem_take, List.getElem_drop]
    rw [nth_eq_getElem k.v m (by omega)]
    congr 1
    omega

theorem mem_knots (k : KV) (g : GoodKV k) (y : Rat) :
    y ∈ k.knots ↔ ∃ m, k.deg ≤ m ∧ m ≤ k.npts ∧ y = nth k.v m := by
  rw [knots_eq, ← mem_kslice k g.ord]
  constructor
  · exact mem_getUnique_subset _ y
  · intro hy
    exact mem_getUnique_of_separated (kslice k) k.v
      (fun x hx => List.mem_of_mem_drop (List.mem_of_mem_take hx)) g.sep y hy

theorem knots_sorted (k : KV) : sortedLE k.knots = true := by
  rw [knots_eq]; unfold getUnique; exact sortedLE_isort _

theorem knots_nodup (k : KV) : k.knots.Nodup := by
  rw [knots_eq]; exact getUnique_nodup _

/-- every distinct knot is a valid node, so its span exists -/
theorem span_of_knot (k : KV) (g : GoodKV k) (y : Rat) (hy : y ∈ k.knots) : ∃ s, k.span y = .ok s := by
  obtain ⟨m, h1, h2, rfl⟩ := (mem_knots k g y).mp hy
  have hlen := g.ord.len
  apply span_total k g.ord g.deg_lt
  exact ⟨g.ord.mono _ _ h1 (by omega), g.ord.mono _ _ h2 (by omega)⟩

/-- the span of a node as a total function (0 where `span` fails; it never does on knots) -/
def spanFn (k : KV) (y : Rat) : Nat :=
  match k.span y with
  | .ok s => s
  | .error _ => 0

theorem spansOfKnots_eq (k : KV) (g : GoodKV k) : k.spansOfKnots = .ok (k.knots.map (spanFn k)) := by
  unfold KV.spansOfKnots
  apply mapM_ok
  intro y hy
  obtain ⟨s, hs⟩ := span_of_knot k g y hy
  simp [spanFn, hs]

theorem inSpanB_of_inSpan (U : List Rat) (umax : Rat) (sz : Nat) (u : Rat) (h : InSpan (nth U) umax sz u) :
    inSpanB U umax sz u = true := by
  simp only [inSpanB, Bool.or_eq_true, Bool.and_eq_true, decide_eq_true_eq, beq_iff_eq]
  rcases h with ⟨a, b⟩ | ⟨a, b, c⟩
  · exact Or.inl ⟨a, b⟩
  · exact Or.inr ⟨⟨a, b⟩, c⟩

theorem getD_map_range_gen {α : Type} (f : Nat → α) (d : α) (n y : Nat) (h : y < n) :
    ((List.range n).map f).getD y d = f y := by
  simp [List.getD_eq_getElem?_getD, h]

/-- **the table look-ups hit the span of the node**, for every good knot vector, sub-degree and span -/
theorem lookup_ok (k : KV) (g : GoodKV k) (j : Nat) (u : Rat) (sz : Nat)
    (hIn : InSpan (nth k.v) k.umax sz u) (h1 : k.deg ≤ sz) (h2 : sz < k.npts) :
    ∃ t, speval k j = .ok t ∧ lookupCheck k t j u = true := by
  have hlen := g.ord.len
  have hmono := g.ord.mono
  set ks := k.knots with hks
  -- both ends of the span are distinct knots, with nothing between them
  have hx : nth k.v sz ∈ ks := (mem_knots k g _).mpr ⟨sz, h1, by omega, rfl⟩
  have hy : nth k.v (sz + 1) ∈ ks := (mem_knots k g _).mpr ⟨sz + 1, by omega, by omega, rfl⟩
  have hno : ∀ z ∈ ks, ¬ (nth k.v sz < z ∧ z < nth k.v (sz + 1)) := by
    intro z hz ⟨hz1, hz2⟩
    obtain ⟨m, _, hm2, rfl⟩ := (mem_knots k g z).mp hz
    by_cases c : m ≤ sz
    · have := hmono m sz c (by omega); linarith
    · have := hmono (sz + 1) m (by omega) (by omega); linarith
  obtain ⟨ind, hind, hkx, hky⟩ :=
    adjacent_of_no_between ks (knots_sorted k) (knots_nodup k) _ _ hx hy hIn.lt hno
  -- the span of the left knot is `sz`, and no earlier knot has that span
  have hspan_sz : k.span (nth k.v sz) = .ok sz :=
    span_eq_of_inSpan k g.ord g.deg_lt g.last sz _ (Or.inl ⟨le_refl _, hIn.lt⟩) h1 h2
  have hspan_u : k.span u = .ok sz := span_eq_of_inSpan k g.ord g.deg_lt g.last sz u hIn h1 h2
  have hspans := spansOfKnots_eq k g
  set spans := ks.map (spanFn k) with hsp
  have hidx : indexOfNat? sz spans = some ind := by
    apply indexOfNat?_eq sz spans ind (by simp [hsp]; omega)
    · simp only [hsp, List.getElem_map]
      rw [← nth_eq_getElem ks ind (by omega), hkx]
      simp [spanFn, hspan_sz]
    · intro i hi
      simp only [hsp, List.getElem_map]
      have hlt : nth ks i < nth ks ind :=
        strict_of_sorted_nodup ks (knots_sorted k) (knots_nodup k) i ind hi (by omega)
      rw [hkx] at hlt
      rw [← nth_eq_getElem ks i (by omega)]
      obtain ⟨s', hs'⟩ := span_of_knot k g (nth ks i) (by
        rw [nth_eq_getElem ks i (by omega)]; exact List.getElem_mem _)
      simp only [spanFn, hs']
      intro e
      subst e
      rcases span_spec k _ _ hs' with hl | ⟨hr, _⟩
      · linarith [hl.1]
      · have : nth k.v s' ≤ k.umax := g.ord.le_umax _ (by omega)
        rw [hr] at hlt
        linarith
  -- the table
  refine ⟨⟨ks, spans, (List.range (ks.length - 1)).map fun z =>
      tableSpan k.v (nth ks z) (nth ks (z + 1)) (spans.getD z 0) j⟩, ?_, ?_⟩
  · simp only [speval, hspans, bind, Except.bind, pure, Except.pure]
    rfl
  · have hpoly : ((List.range (ks.length - 1)).map fun z =>
        tableSpan k.v (nth ks z) (nth ks (z + 1)) (spans.getD z 0) j).getD ind []
        = tableSpan k.v (nth k.v sz) (nth k.v (sz + 1)) sz j := by
      rw [getD_map_range_gen _ _ _ _ (by omega), hkx, hky]
      congr 1
      have hil : ind < ks.length := by omega
      have : spans.getD ind 0 = spanFn k (ks[ind]) := by
        simp [List.getD_eq_getElem?_getD, hsp, hil]
      rw [this, ← nth_eq_getElem ks ind hil, hkx]
      simp [spanFn, hspan_sz]
    simp only [lookupCheck, hspan_u, hidx, inSpanB_of_inSpan _ _ _ _ hIn, hkx, hky, hpoly, beq_self_eq_true,
      Bool.true_and, Bool.and_true, decide_eq_true_eq, Bool.and_eq_true]
    exact ⟨h1, h2⟩

/-! ### every well-formed separated knot vector is good -/

theorem cnt_eq_length_of_all_eq (l : List Rat) (x : Rat) (h : ∀ y ∈ l, y = x) : cnt l x = l.length := by
  induction l with
  | nil => rfl
  | cons a l ih =>
    have ha : a = x := h a (by simp)
    simp only [cnt, List.filter_cons, ha, beq_self_eq_true, if_true, List.length_cons] at *
    rw [ih (fun y hy => h y (List.mem_cons_of_mem _ hy))]

theorem orderedCheck_of_WF (v : List Rat) (d : Nat) (h : WF v d) : orderedCheck ⟨v, d⟩ = true := by
  obtain ⟨hs, hf, hl, hn, hm⟩ := h
  have hpos : 0 < v.length := by omega
  have hlastnth := getLastD_eq_nth v hpos
  simp only [orderedCheck, Bool.and_eq_true, beq_iff_eq, List.all_eq_true]
  refine ⟨⟨hs, ?_⟩, by simp only [KV.npts]; omega⟩
  intro x hx
  rw [decide_eq_true_eq]
  obtain ⟨i, hi, rfl⟩ := List.mem_iff_getElem.mp hx
  -- v[npts] is the last value, and the list is sorted
  have hsuf := suffix_eq_last v hs (d + 1) (v.length - d - 1) (by rw [← hlastnth]; exact hl) (by omega) (by omega)
  show v[i] ≤ nth v (v.length - d - 1)
  rw [hsuf, ← nth_eq_getElem v i hi]
  exact sortedLE_mono v hs i (v.length - 1) (by omega) (by omega)

/-- **well-formed + separated ⇒ good** -/
theorem goodKV_of_WF (v : List Rat) (d : Nat) (h : WF v d) (hsep : Separated v) : GoodKV ⟨v, d⟩ := by
  have hchk := orderedCheck_of_WF v d h
  obtain ⟨hs, hf, hl, hn, hm⟩ := h
  have hpos : 0 < v.length := by omega
  refine ⟨ordered_of_check _ hchk, hsep, by simp only [KV.npts]; omega, ?_⟩
  simp only [KV.npts]
  have hlastnth := getLastD_eq_nth v hpos
  -- if v[npts-1] = v[npts] the last value would occur at least d+2 times
  have hle := sortedLE_mono v hs (v.length - d - 1 - 1) (v.length - d - 1) (by omega) (by omega)
  refine lt_of_le_of_ne hle ?_
  intro heq
  have hsuf := fun i (h1 : v.length - (d + 1) ≤ i) (h2 : i < v.length) =>
    suffix_eq_last v hs (d + 1) i (by rw [← hlastnth]; exact hl) h1 h2
  have hall : ∀ y ∈ v.drop (v.length - d - 2), y = nth v (v.length - 1) := by
    intro y hy
    obtain ⟨i, hi, rfl⟩ := List.mem_iff_getElem.mp hy
    simp only [List.length_drop] at hi
    rw [List.getElem_drop, ← nth_eq_getElem v _ (by omega)]
    by_cases c : i = 0
    · subst c
      have e1 : v.length - d - 2 + 0 = v.length - d - 1 - 1 := by omega
      rw [e1, heq]
      exact hsuf _ (by omega) (by omega)
    · exact hsuf _ (by omega) (by omega)
  have hc := cnt_eq_length_of_all_eq _ _ hall
  have hsplit := cnt_append (v.take (v.length - d - 2)) (v.drop (v.length - d - 2)) (nth v (v.length - 1))
  rw [List.take_append_drop, hc, ← hlastnth, hl] at hsplit
  simp only [List.length_drop] at hsplit
  omega

/-- a returned span is at least the degree -/
theorem span_ge_deg (k : KV) (hdeg : k.deg < k.npts) (u : Rat) (s : Nat) (h : k.span u = .ok s) : k.deg ≤ s := by
  unfold KV.span at h
  split at h
  · simp at h
  · split at h
    · rename_i s' hs'
      simp only [Except.ok.injEq] at h
      subst h
      unfold KV.spanSingle at hs'
      split at hs'
      · simp only [Option.some.injEq] at hs'; omega
      · exact (spanSearch_bounds _ _ _ _ _ _ _ (by omega) (by omega) hs').1
    · simp at h

/-- **the side condition of the evaluation theorems holds for every good knot vector**, every sub-degree and every
parameter of the interval -/
theorem evalCheck_of_good (k : KV) (g : GoodKV k) (hchk : orderedCheck k = true) (j : Nat) (hj : j ≤ k.deg)
    (u : Rat) (hu : k.umin ≤ u ∧ u ≤ k.umax) :
    ∃ t, speval k j = .ok t ∧ evalCheck k t j u = true := by
  obtain ⟨s, hs⟩ := span_total k g.ord g.deg_lt u hu
  have hlen := g.ord.len
  have hslt := span_lt_npts k g.ord u s hs (by have := g.deg_lt; omega)
  have hsge := span_ge_deg k g.deg_lt u s hs
  have hIn : InSpan (nth k.v) k.umax s u := by
    rcases span_spec k u s hs with hsp | ⟨hmax, hsn⟩
    · exact Or.inl hsp
    · have e : k.npts - 1 + 1 = k.npts := by have := g.deg_lt; omega
      refine Or.inr ⟨hmax, ?_, ?_⟩
      · rw [hsn, e]; exact g.last
      · rw [hsn, e]; rfl
  obtain ⟨t, ht, hl⟩ := lookup_ok k g j u s hIn hsge hslt
  exact ⟨t, ht, by simp [evalCheck, hchk, hj, hl]⟩

/-- every parameter of the interval lies in a non-empty span `degree ≤ s < npts` -/
theorem exists_span (k : KV) (g : GoodKV k) (u : Rat) (hu : k.umin ≤ u ∧ u ≤ k.umax) :
    ∃ s, k.deg ≤ s ∧ s < k.npts ∧ InSpan (nth k.v) k.umax s u := by
  obtain ⟨s, hs⟩ := span_total k g.ord g.deg_lt u hu
  refine ⟨s, span_ge_deg k g.deg_lt u s hs, span_lt_npts k g.ord u s hs (by have := g.deg_lt; omega), ?_⟩
  rcases span_spec k u s hs with hsp | ⟨hmax, hsn⟩
  · exact Or.inl hsp
  · have e : k.npts - 1 + 1 = k.npts := by have := g.deg_lt; omega
    refine Or.inr ⟨hmax, ?_, ?_⟩
    · rw [hsn, e]; exact g.last
    · rw [hsn, e]; rfl

end NV
