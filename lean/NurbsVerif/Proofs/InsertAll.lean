/-
Proofs/InsertAll.lean — the whole of `knot_insert(knotvector, nodes)`: the accumulated matrix of repeated /
multiple insertions reproduces every spline function over the final knot vector (induction over the loops of the
model, one `insert_step_model` per inserted knot).
-/
import NurbsVerif.Proofs.InsertStep
import NurbsVerif.Proofs.MatVec

namespace NV
open Finset

theorem isort_congr_perm (l1 l2 : List Rat) (h : l1.Perm l2) : isort l1 = isort l2 := by
  rw [isort_eq_insertionSort, isort_eq_insertionSort]
  apply List.Perm.eq_of_pairwise (le := (· ≤ ·))
  · intro a b _ _ h1 h2; exact le_antisymm h1 h2
  · exact List.pairwise_insertionSort _ _
  · exact List.pairwise_insertionSort _ _
  · exact (List.perm_insertionSort _ _).trans (h.trans (List.perm_insertionSort _ _).symm)

theorem perm_isort (l : List Rat) : (isort l).Perm l := by
  rw [isort_eq_insertionSort]; exact List.perm_insertionSort _ _

theorem insMat_shaped (U : List Rat) (p : Nat) (x : Rat) (s n : Nat) : Shaped (insMat U p x s n) (n + 1) n := by
  refine ⟨by simp [insMat], ?_⟩
  intro row hrow
  simp only [insMat, List.mem_map, List.mem_range] at hrow
  obtain ⟨r, _, rfl⟩ := hrow
  simp

theorem umin_eq_first (v : List Rat) (d : Nat) (h : WF v d) : nth v d = nth v 0 :=
  prefix_eq_head v h.sorted (d + 1) d (by rw [← headD_eq_nth]; exact h.first) (by omega)

/-- everything one needs to know about one step `insOnce k x`, `k + [x]` for `umin < x < umax` -/
theorem insert_step_facts (k k' : KV) (x : Rat) (M : Mat)
    (hwf : WF k.v k.deg) (hsep : Separated k.v) (hsep' : Separated k'.v)
    (hx1 : k.umin < x) (hx : x < k.umax) (hM : insOnce k x = .ok M) (hk' : k.insert [x] = .ok k') :
    k'.deg = k.deg ∧ k'.npts = k.npts + 1 ∧ k'.umin = k.umin ∧ k'.umax = k.umax
      ∧ Shaped M (k.npts + 1) k.npts ∧ k'.v = isort (k.v ++ [x]) ∧ WF k'.v k'.deg := by
  have g : GoodKV k := goodKV_of_WF k.v k.deg hwf hsep
  have hv' : isValid k'.v none = true ∧ k'.v = isort (k.v ++ [x]) ∧ k'.deg = cnt k'.v (k'.v.headD 0) - 1 := by
    unfold KV.insert at hk'
    split at hk'
    · cases hk'
    · obtain ⟨h1, h2, h3⟩ := mk?_ok _ _ hk'
      rw [← h2] at h1 h3
      exact ⟨h1, h2, h3⟩
  obtain ⟨hval', hvk', hdk'⟩ := hv'
  have hwf' : WF k'.v k'.deg := by rw [hdk']; exact isValid_WF k'.v hsep' hval'
  unfold insOnce at hM
  simp only [bind, Except.bind, pure, Except.pure] at hM
  split at hM
  · cases hM
  · split at hM
    · cases hM
    · rename_i s hs
      simp only [Except.ok.injEq] at hM
      have hMeq : M = insMat k.v k.deg x s k.npts := hM.symm
      have hlenk := g.ord.len
      have hps : k.deg ≤ s := span_ge_deg k g.deg_lt x s hs
      have hsn : s < k.npts := span_lt_npts k g.ord x s hs (by have := g.deg_lt; omega)
      have hspan : nth k.v s ≤ x ∧ x < nth k.v (s + 1) := by
        rcases span_spec k x s hs with h | ⟨h, _⟩
        · exact h
        · exfalso; rw [h] at hx; exact lt_irrefl _ hx
      have hnth : ∀ i, nth k'.v i = insKnots (nth k.v) s x i := by
        intro i
        rw [hvk']
        exact nth_isort_append_single k.v s x hwf.sorted (by omega) hspan.1 (le_of_lt hspan.2) i
      have hlen' : k'.v.length = k.v.length + 1 := by rw [hvk', length_isort]; simp
      -- the degree is unchanged: the first value keeps its count
      have hfirst : nth k.v 0 = k.umin := (umin_eq_first k.v k.deg hwf).symm
      have hdeg : k'.deg = k.deg := by
        rw [hdk', headD_eq_nth, hnth 0, insKnots_le _ _ _ _ (by omega), hvk', cnt_isort, cnt_append]
        have hx0 : cnt [x] (nth k.v 0) = 0 := by
          have : ¬ x = nth k.v 0 := by rw [hfirst]; exact ne_of_gt hx1
          simp [cnt, this]
        have := hwf.first
        rw [headD_eq_nth] at this
        rw [hx0, this]; omega
      have hnpts' : k'.npts = k.npts + 1 := by
        unfold KV.npts; rw [hlen', hdeg]; unfold KV.npts at hlenk; omega
      refine ⟨hdeg, hnpts', ?_, ?_, ?_, hvk', hwf'⟩
      · unfold KV.umin; rw [hdeg, hnth, insKnots_le _ _ _ _ hps]
      · unfold KV.umax; rw [hnpts', hnth, insKnots_gt _ _ _ _ (by omega)]; rfl
      · rw [hMeq]; exact insMat_shaped _ _ _ _ _

/-- the loop invariant: the accumulated matrix `m` maps coefficients over `k0` to coefficients over `k` of the
same function -/
structure Repro (k0 k : KV) (m : Mat) : Prop where
  deg : k.deg = k0.deg
  shaped : Shaped m k.npts k0.npts
  umin : k.umin = k0.umin
  umax : k.umax = k0.umax
  repro : ∀ f : List Rat, f.length = k0.npts → ∀ u, k0.umin ≤ u ∧ u ≤ k0.umax →
    dot (cdbRow k.v k.umax k.npts k.deg u) (matVec m f) = dot (cdbRow k0.v k0.umax k0.npts k0.deg u) f

theorem repro_refl (k0 : KV) : Repro k0 k0 (identity k0.npts) :=
  ⟨rfl, identity_shaped _, rfl, rfl, fun f hf u _ => by rw [matVec_identity _ f hf]⟩

theorem repro_step (k0 k k' : KV) (acc inc : Mat) (x : Rat) (h : Repro k0 k acc) (hn0 : 0 < k.npts)
    (hwf : WF k.v k.deg) (hsep : Separated k.v) (hsep' : Separated k'.v)
    (hx1 : k0.umin < x) (hx2 : x < k0.umax) (hM : insOnce k x = .ok inc) (hk' : k.insert [x] = .ok k') :
    Repro k0 k' (matMul inc acc) := by
  rw [← h.umin] at hx1
  rw [← h.umax] at hx2
  obtain ⟨hdeg, hnpts, humin, humax, hshape, _, _⟩ := insert_step_facts k k' x inc hwf hsep hsep' hx1 hx2 hM hk'
  refine ⟨hdeg.trans h.deg, ?_, humin.trans h.umin, humax.trans h.umax, ?_⟩
  · rw [hnpts]; exact matMul_shaped inc acc _ _ _ hshape h.shaped hn0
  · intro f hf u hu
    rw [matVec_matMul inc acc _ _ _ hshape h.shaped hn0 f hf]
    have hlen : (matVec acc f).length = k.npts := by rw [matVec_length, h.shaped.1]
    rw [insert_step_model k k' x inc (matVec acc f) u hwf hsep hsep' hx2 hM hk' hdeg hlen
      (by rw [humin, humax, h.umin, h.umax]; exact hu)]
    exact h.repro f hf u hu

theorem separated_of_subset (big v : List Rat) (h : Separated big) (hsub : ∀ y ∈ v, y ∈ big) : Separated v :=
  fun a ha b hb hne => h a (hsub a ha) b (hsub b hb) hne

/-- the state reached by the loops: a matrix reproducing every function over a well-formed vector whose knot list is
the sorted union of the original knots and the nodes inserted so far -/
structure Reached (k0 k : KV) (m : Mat) (ins : List Rat) : Prop where
  repro : Repro k0 k m
  wf : WF k.v k.deg
  knots : k.v = isort (k0.v ++ ins)

/-- `one_knot_insert(knotvector, node, times)` -/
theorem insTimes_reached (k0 : KV) (big : List Rat) (hbig : Separated big) (x : Rat) (hxbig : x ∈ big)
    (hx1 : k0.umin < x) (hx2 : x < k0.umax) :
    ∀ (t : Nat) (k : KV) (acc res : Mat) (kf : KV) (ins : List Rat),
      Reached k0 k acc ins → (∀ y ∈ k.v, y ∈ big) → insTimes t k x acc = .ok (res, kf) →
      Reached k0 kf res (ins ++ List.replicate t x) ∧ (∀ y ∈ kf.v, y ∈ big) := by
  intro t
  induction t with
  | zero =>
    intro k acc res kf ins hr hsub h
    simp only [insTimes, Except.ok.injEq, Prod.mk.injEq] at h
    obtain ⟨rfl, rfl⟩ := h
    simpa using ⟨hr, hsub⟩
  | succ t ih =>
    intro k acc res kf ins hr hsub h
    simp only [insTimes, bind, Except.bind] at h
    split at h
    · cases h
    · rename_i inc hinc
      split at h
      · cases h
      · rename_i k' hk'
        have hkv' : k'.v = isort (k.v ++ [x]) := by
          unfold KV.insert at hk'
          split at hk'
          · cases hk'
          · exact (mk?_ok _ _ hk').2.1
        have hsub' : ∀ y ∈ k'.v, y ∈ big := by
          intro y hy
          rw [hkv', mem_isort, List.mem_append] at hy
          rcases hy with hy | hy
          · exact hsub y hy
          · simp only [List.mem_singleton] at hy; rw [hy]; exact hxbig
        have hsep := separated_of_subset big k.v hbig hsub
        have hsep' := separated_of_subset big k'.v hbig hsub'
        have hn0 : 0 < k.npts := by have := hr.wf.npts_gt; unfold KV.npts; omega
        have hrep' := repro_step k0 k k' acc inc x hr.repro hn0 hr.wf hsep hsep' hx1 hx2 hinc hk'
        have hx1' : k.umin < x := by rw [hr.repro.umin]; exact hx1
        have hx2' : x < k.umax := by rw [hr.repro.umax]; exact hx2
        obtain ⟨_, _, _, _, _, _, hwf'⟩ := insert_step_facts k k' x inc hr.wf hsep hsep' hx1' hx2' hinc hk'
        have hknots' : k'.v = isort (k0.v ++ (ins ++ [x])) := by
          rw [hkv', hr.knots]
          apply isort_congr_perm
          rw [← List.append_assoc]
          exact List.Perm.append_right [x] (perm_isort _)
        obtain ⟨hre, hsubf⟩ := ih k' (matMul inc acc) res kf (ins ++ [x]) ⟨hrep', hwf', hknots'⟩ hsub' h
        refine ⟨?_, hsubf⟩
        have e : ins ++ List.replicate (t + 1) x = ins ++ [x] ++ List.replicate t x := by
          rw [List.replicate_succ, List.append_assoc]; rfl
        rw [e]; exact hre

/-- the outer loop of `knot_insert(knotvector, nodes)` over the distinct interior nodes -/
theorem foldl_reached (k0 : KV) (big : List Rat) (hbig : Separated big) (mult : Rat → Nat) :
    ∀ (ns : List Rat) (k : KV) (acc res : Mat) (kf : KV) (ins : List Rat),
      (∀ x ∈ ns, x ∈ big ∧ k0.umin < x ∧ x < k0.umax) →
      Reached k0 k acc ins → (∀ y ∈ k.v, y ∈ big) →
      ns.foldlM (fun (st : Mat × KV) (node : Rat) => insTimes (mult node) st.2 node st.1) (acc, k) = .ok (res, kf) →
      Reached k0 kf res (ins ++ ns.flatMap fun x => List.replicate (mult x) x) ∧ (∀ y ∈ kf.v, y ∈ big) := by
  intro ns
  induction ns with
  | nil =>
    intro k acc res kf ins _ hr hsub h
    simp only [List.foldlM_nil, pure, Except.pure, Except.ok.injEq, Prod.mk.injEq] at h
    obtain ⟨rfl, rfl⟩ := h
    simpa using ⟨hr, hsub⟩
  | cons x xs ih =>
    intro k acc res kf ins hns hr hsub h
    simp only [List.foldlM_cons, bind, Except.bind] at h
    split at h
    · cases h
    · rename_i st hst
      obtain ⟨m1, k1⟩ := st
      obtain ⟨hxb, hx1, hx2⟩ := hns x (by simp)
      obtain ⟨hr1, hsub1⟩ := insTimes_reached k0 big hbig x hxb hx1 hx2 (mult x) k acc m1 k1 ins hr hsub hst
      obtain ⟨hr2, hsub2⟩ := ih k1 m1 res kf _ (fun y hy => hns y (by simp [hy])) hr1 hsub1 h
      refine ⟨?_, hsub2⟩
      simpa [List.flatMap_cons, List.append_assoc] using hr2

end NV
