/-
Proofs/Dedup.lean — python `set(nodes)` + `nodes.count(x)`: listing every distinct node as often as it occurs is a
permutation of the node list.
-/
import NurbsVerif.Proofs.KV
import Mathlib.Data.List.Basic

namespace NV

theorem cnt_eq_count (l : List Rat) (x : Rat) : cnt l x = l.count x := by
  unfold cnt; rw [List.count_eq_length_filter]

theorem mem_dedup (l : List Rat) (y : Rat) : y ∈ dedup l ↔ y ∈ l := by
  induction l with
  | nil => simp [dedup]
  | cons x xs ih =>
    simp only [dedup, List.mem_cons, List.mem_filter, ih]
    constructor
    · rintro (h | ⟨h, _⟩)
      · exact Or.inl h
      · exact Or.inr h
    · rintro (h | h)
      · exact Or.inl h
      · by_cases e : y = x
        · exact Or.inl e
        · right; exact ⟨h, by simpa using e⟩

theorem dedup_nodup (l : List Rat) : (dedup l).Nodup := by
  induction l with
  | nil => simp [dedup]
  | cons x xs ih =>
    simp only [dedup, List.nodup_cons]
    refine ⟨?_, ih.filter _⟩
    intro h
    simp [List.mem_filter] at h

theorem sum_map_ite (l : List Rat) (hl : l.Nodup) (a : Rat) (g : Rat → Nat) :
    (l.map fun x => if x = a then g x else 0).sum = if a ∈ l then g a else 0 := by
  induction l with
  | nil => simp
  | cons x xs ih =>
    have hx := (List.nodup_cons.mp hl)
    simp only [List.map_cons, List.sum_cons, ih hx.2, List.mem_cons]
    by_cases e : x = a
    · subst e
      simp [hx.1]
    · have e' : ¬ a = x := fun h => e h.symm
      simp [e, e']

/-- every distinct value repeated as often as it occurs: a permutation of the list -/
theorem flatMap_replicate_perm (l ds : List Rat) (mult : Rat → Nat) (hds : ds.Nodup) (hmem : ∀ y, y ∈ ds ↔ y ∈ l)
    (hmult : ∀ y ∈ ds, mult y = cnt l y) :
    (ds.flatMap fun x => List.replicate (mult x) x).Perm l := by
  rw [List.perm_iff_count]
  intro a
  rw [List.count_flatMap]
  have e : (List.count a ∘ fun x => List.replicate (mult x) x) = fun x => if x = a then mult x else 0 := by
    funext x
    simp only [Function.comp, List.count_replicate, beq_iff_eq]
  rw [e, sum_map_ite ds hds a mult]
  by_cases h : a ∈ ds
  · simp [h, hmult a h, cnt_eq_count]
  · have : a ∉ l := fun h' => h ((hmem a).mpr h')
    simp [h, List.count_eq_zero_of_not_mem this]

end NV
