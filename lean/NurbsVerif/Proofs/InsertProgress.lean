/-
Proofs/InsertProgress.lean — valid insertion requests are accepted: for a well-formed vector, a node strictly inside the
interval whose multiplicity stays within `degree + 1`, and separated knot values, the model's `KV.insert`, `insOnce`,
`one_knot_insert` and `knot_insert` all succeed (no error branch is taken).
-/
import NurbsVerif.Proofs.InsertMat

namespace NV
open Finset

/-- one knot inside the interval, multiplicity still allowed: the refined vector is well formed, same degree -/
theorem wf_insert_single (k : KV) (x : Rat) (hwf : WF k.v k.deg) (hsep : Separated k.v)
    (hx1 : k.umin < x) (hx2 : x < k.umax) (hm : cnt k.v x ≤ k.deg) :
    WF (isort (k.v ++ [x])) k.deg ∧ k.deg = cnt (isort (k.v ++ [x])) ((isort (k.v ++ [x])).headD 0) - 1 := by
  have g : GoodKV k := by
    have := goodKV_of_WF k.v k.deg hwf hsep
    cases k; exact this
  obtain ⟨s, hs⟩ := span_total k g.ord g.deg_lt x ⟨le_of_lt hx1, le_of_lt hx2⟩
  have hlenk := g.ord.len
  have hps : k.deg ≤ s := span_ge_deg k g.deg_lt x s hs
  have hsn : s < k.npts := span_lt_npts k g.ord x s hs (by have := g.deg_lt; omega)
  have hspan : nth k.v s ≤ x ∧ x < nth k.v (s + 1) := by
    rcases span_spec k x s hs with h | ⟨h, _⟩
    · exact h
    · exfalso; rw [h] at hx2; exact lt_irrefl _ hx2
  have hnth : ∀ i, nth (isort (k.v ++ [x])) i = insKnots (nth k.v) s x i :=
    nth_isort_append_single k.v s x hwf.sorted (by omega) hspan.1 (le_of_lt hspan.2)
  have hlen' : (isort (k.v ++ [x])).length = k.v.length + 1 := by rw [length_isort]; simp
  have hposU : 0 < k.v.length := by omega
  have hfirst : nth k.v 0 = k.umin := (umin_eq_first k.v k.deg hwf).symm
  have hlast : k.v.getLastD 0 = k.umax := by
    have := umax_eq_last k.v k.deg hwf; unfold KV.umax KV.npts; exact this.symm
  have hx0 : ¬ x = nth k.v 0 := by rw [hfirst]; exact ne_of_gt hx1
  have hxl : ¬ x = k.v.getLastD 0 := by rw [hlast]; exact ne_of_lt hx2
  have hhead : (isort (k.v ++ [x])).headD 0 = nth k.v 0 := by
    rw [headD_eq_nth, hnth 0, insKnots_le _ _ _ _ (by omega)]
  have hlastv : (isort (k.v ++ [x])).getLastD 0 = k.v.getLastD 0 := by
    rw [getLastD_eq_nth _ (by omega), hlen', hnth, insKnots_gt _ _ _ _ (by omega), getLastD_eq_nth k.v hposU]
    congr 1
  have hcf : cnt (isort (k.v ++ [x])) (nth k.v 0) = k.deg + 1 := by
    rw [cnt_isort, cnt_append]
    have := hwf.first; rw [headD_eq_nth] at this
    have h0 : cnt [x] (nth k.v 0) = 0 := by simp [cnt, hx0]
    rw [this, h0]
  have hcl : cnt (isort (k.v ++ [x])) (k.v.getLastD 0) = k.deg + 1 := by
    rw [cnt_isort, cnt_append, hwf.last]
    have h0 : cnt [x] (k.v.getLastD 0) = 0 := by
      unfold cnt
      have : (x == k.v.getLastD 0) = false := by simpa using hxl
      simp only [List.filter_cons, this, Bool.false_eq_true, if_false, List.filter_nil, List.length_nil]
    rw [h0]
  refine ⟨⟨sortedLE_isort _, by rw [hhead]; exact hcf, by rw [hlastv]; exact hcl, by rw [hlen']; have := hwf.npts_gt; omega, ?_⟩,
    by rw [hhead, hcf]; omega⟩
  intro y hy
  rw [cnt_isort, cnt_append]
  rw [mem_isort, List.mem_append] at hy
  by_cases hyx : y = x
  · subst hyx
    have : cnt [y] y = 1 := by simp [cnt]
    rw [this]; omega
  · have h0 : cnt [x] y = 0 := by
      have : ¬ x = y := fun e => hyx e.symm
      simp [cnt, this]
    rw [h0]
    rcases hy with hy | hy
    · exact hwf.mult_le y hy
    · simp only [List.mem_singleton] at hy; exact absurd hy hyx

theorem insert_single_ok (k : KV) (x : Rat) (hwf : WF k.v k.deg) (hsep : Separated k.v)
    (hx1 : k.umin < x) (hx2 : x < k.umax) (hm : cnt k.v x ≤ k.deg) :
    ∃ k', k.insert [x] = .ok k' := by
  obtain ⟨hw', hd'⟩ := wf_insert_single k x hwf hsep hx1 hx2 hm
  have hv := WF_isValid _ k.deg hd' hw'
  have hvn : k.validNodes [x] = true := by
    simp only [KV.validNodes, List.all_cons, List.all_nil, Bool.and_true, KV.validNode, Bool.not_eq_true',
      Bool.or_eq_false_iff, decide_eq_false_iff_not, not_lt]
    exact ⟨le_of_lt hx1, le_of_lt hx2⟩
  unfold KV.insert
  rw [hvn]
  simp only [Bool.not_true, Bool.false_eq_true, if_false]
  unfold KV.mk?
  rw [if_pos hv]
  exact ⟨_, rfl⟩

theorem insOnce_ok (k : KV) (x : Rat) (hwf : WF k.v k.deg) (hsep : Separated k.v)
    (hx1 : k.umin < x) (hx2 : x < k.umax) : ∃ M, insOnce k x = .ok M := by
  have g : GoodKV k := by
    have := goodKV_of_WF k.v k.deg hwf hsep
    cases k; exact this
  obtain ⟨s, hs⟩ := span_total k g.ord g.deg_lt x ⟨le_of_lt hx1, le_of_lt hx2⟩
  have hfirst : nth k.v 0 = k.umin := (umin_eq_first k.v k.deg hwf).symm
  have hlast : k.v.getLastD 0 = k.umax := by
    have := umax_eq_last k.v k.deg hwf; unfold KV.umax KV.npts; exact this.symm
  have hr : ¬ (x < nth k.v 0 ∨ k.v.getLastD 0 < x) := by
    rw [hfirst, hlast]; intro h; rcases h with h | h <;> linarith
  unfold insOnce
  simp only [bind, Except.bind, pure, Except.pure, hr, if_false, hs]
  exact ⟨_, rfl⟩

theorem insTimes_ok (big : List Rat) (hbig : Separated big) (x : Rat) (hxbig : x ∈ big) :
    ∀ (t : Nat) (k : KV) (acc : Mat), WF k.v k.deg → (∀ y ∈ k.v, y ∈ big) → k.umin < x → x < k.umax →
      cnt k.v x + t ≤ k.deg + 1 → ∃ res kf, insTimes t k x acc = .ok (res, kf) := by
  intro t
  induction t with
  | zero => intro k acc _ _ _ _ _; exact ⟨acc, k, rfl⟩
  | succ t ih =>
    intro k acc hwf hsub hx1 hx2 hc
    have hsep := separated_of_subset big k.v hbig hsub
    obtain ⟨inc, hinc⟩ := insOnce_ok k x hwf hsep hx1 hx2
    obtain ⟨k', hk'⟩ := insert_single_ok k x hwf hsep hx1 hx2 (by omega)
    have hkv' : k'.v = isort (k.v ++ [x]) := by
      unfold KV.insert at hk'
      split at hk'
      · cases hk'
      · exact (mk?_ok _ _ hk').2.1
    have hsub' : ∀ y ∈ k'.v, y ∈ big := by
      intro y hy
      rw [hkv', mem_isort, List.mem_append] at hy
      rcases hy with hy | hy
      · exact hsub y hy
      · simp only [List.mem_singleton] at hy; rw [hy]; exact hxbig
    have hsep' := separated_of_subset big k'.v hbig hsub'
    obtain ⟨hdeg, _, humin, humax, _, _, hwf'⟩ := insert_step_facts k k' x inc hwf hsep hsep' hx1 hx2 hinc hk'
    have hcnt' : cnt k'.v x = cnt k.v x + 1 := by
      rw [hkv', cnt_isort, cnt_append]; simp [cnt]
    obtain ⟨res, kf, hres⟩ := ih k' (matMul inc acc) hwf' hsub' (by rw [humin]; exact hx1) (by rw [humax]; exact hx2)
      (by rw [hcnt', hdeg]; omega)
    refine ⟨res, kf, ?_⟩
    simp only [insTimes, bind, Except.bind, hinc, hk']
    exact hres

theorem cnt_isort_append_of_not_mem (v ins : List Rat) (x : Rat) (h : x ∉ ins) :
    cnt (isort (v ++ ins)) x = cnt v x := by
  rw [cnt_isort, cnt_append]
  have : cnt ins x = 0 := by rw [cnt_eq_count]; exact List.count_eq_zero_of_not_mem h
  omega

/-- the outer loop succeeds on distinct nodes that respect the multiplicity bound -/
theorem foldl_ok (k0 : KV) (big : List Rat) (hbig : Separated big) (mult : Rat → Nat) :
    ∀ (ns : List Rat) (k : KV) (acc : Mat) (ins : List Rat), ns.Nodup →
      (∀ x ∈ ns, x ∈ big ∧ k0.umin < x ∧ x < k0.umax ∧ cnt k0.v x + mult x ≤ k0.deg + 1 ∧ x ∉ ins) →
      Reached k0 k acc ins → (∀ y ∈ k.v, y ∈ big) →
      ∃ res kf, ns.foldlM (fun (st : Mat × KV) (node : Rat) => insTimes (mult node) st.2 node st.1) (acc, k)
        = .ok (res, kf) := by
  intro ns
  induction ns with
  | nil => intro k acc ins _ _ _ _; exact ⟨acc, k, rfl⟩
  | cons x xs ih =>
    intro k acc ins hnd hns hr hsub
    obtain ⟨hxb, hx1, hx2, hcx, hxi⟩ := hns x (by simp)
    have hcntk : cnt k.v x = cnt k0.v x := by rw [hr.knots]; exact cnt_isort_append_of_not_mem _ _ _ hxi
    obtain ⟨m1, k1, h1⟩ := insTimes_ok big hbig x hxb (mult x) k acc hr.wf hsub
      (by rw [hr.repro.umin]; exact hx1) (by rw [hr.repro.umax]; exact hx2)
      (by rw [hcntk, hr.repro.deg]; exact hcx)
    obtain ⟨hr1, hsub1⟩ := insTimes_reached k0 big hbig x hxb hx1 hx2 (mult x) k acc m1 k1 ins hr hsub h1
    have hnd' := (List.nodup_cons.mp hnd)
    obtain ⟨res, kf, h2⟩ := ih k1 m1 (ins ++ List.replicate (mult x) x) hnd'.2
      (fun y hy => by
        obtain ⟨a, b, c, d, e⟩ := hns y (by simp [hy])
        refine ⟨a, b, c, d, ?_⟩
        intro hm
        rcases List.mem_append.mp hm with h | h
        · exact e h
        · have : y = x := List.eq_of_mem_replicate h
          subst this; exact hnd'.1 hy)
      hr1 hsub1
    refine ⟨res, kf, ?_⟩
    simp only [List.foldlM_cons, bind, Except.bind, h1]
    exact h2

/-- **`knot_insert(knotvector, nodes)` succeeds** when every node lies in the closed interval and the final
multiplicities stay within `degree + 1` (end knots in the request are ignored by the code) -/
theorem knotInsertMat_ok (k : KV) (nodes : List Rat) (hwf : WF k.v k.deg) (hsep : Separated (k.v ++ nodes))
    (hin : ∀ x ∈ nodes, k.umin ≤ x ∧ x ≤ k.umax)
    (hmult : ∀ x ∈ nodes, k.umin < x → x < k.umax → cnt k.v x + cnt nodes x ≤ k.deg + 1) :
    ∃ m, knotInsertMat k nodes = .ok m := by
  have hfirst : nth k.v 0 = k.umin := (umin_eq_first k.v k.deg hwf).symm
  have hlast : k.v.getLastD 0 = k.umax := by
    have := umax_eq_last k.v k.deg hwf; unfold KV.umax KV.npts; exact this.symm
  have hrange : (nodes.any fun nd => decide (nd < nth k.v 0 ∨ k.v.getLastD 0 < nd)) = false := by
    rw [List.any_eq_false]
    intro x hx
    obtain ⟨h1, h2⟩ := hin x hx
    rw [hfirst, hlast]
    simp only [decide_eq_true_eq]
    intro hc; rcases hc with hc | hc <;> linarith
  have hns : ∀ x ∈ isort (dedup (interiorNodes k nodes)),
      x ∈ k.v ++ nodes ∧ k.umin < x ∧ x < k.umax ∧ cnt k.v x + cnt nodes x ≤ k.deg + 1 ∧ x ∉ ([] : List Rat) := by
    intro x hx
    rw [mem_isort, mem_dedup] at hx
    unfold interiorNodes at hx
    simp only [List.mem_filter, Bool.and_eq_true, Bool.not_eq_true', beq_eq_false_iff_ne, ne_eq] at hx
    obtain ⟨hxn, hx1, hx2⟩ := hx
    obtain ⟨h1, h2⟩ := hin x hxn
    rw [hfirst] at hx1
    rw [hlast] at hx2
    have a1 : k.umin < x := lt_of_le_of_ne h1 (fun e => hx1 e.symm)
    have a2 : x < k.umax := lt_of_le_of_ne h2 hx2
    exact ⟨by simp [hxn], a1, a2, hmult x hxn a1 a2, by simp⟩
  have hnd : (isort (dedup (interiorNodes k nodes))).Nodup := isort_nodup _ (dedup_nodup _)
  have hreach0 : Reached k k (identity k.npts) [] :=
    ⟨repro_refl k, hwf, by rw [List.append_nil, isort_sorted k.v hwf.sorted]⟩
  obtain ⟨res, kf, hfold⟩ := foldl_ok k (k.v ++ nodes) hsep (cnt nodes) _ k (identity k.npts) [] hnd hns hreach0
    (fun y hy => by simp [hy])
  refine ⟨res, ?_⟩
  unfold knotInsertMat
  simp only [bind, Except.bind, pure, Except.pure]
  have hr' : ¬ (nodes.any fun nd => decide (nd < nth k.v 0 ∨ k.v.getLastD 0 < nd)) = true := by rw [hrange]; simp
  rw [if_neg hr']
  unfold interiorNodes at hfold
  rw [hfold]

end NV
