/-
Proofs/Matrix.lean — bridge from the list-of-lists matrices of the model to Mathlib's `Matrix`,
so that the normal equations of the least-squares fits (C11, C12) follow from ring laws.
-/
import NurbsVerif.Model.Linalg
import Mathlib.Data.Matrix.Mul
import Mathlib.Algebra.BigOperators.Intervals
import Mathlib.Tactic.Ring
import Mathlib.Tactic.Linarith
import Mathlib.Algebra.Order.Field.Rat

namespace NV
open Finset

/-- `A` has `r` rows, each of length `c` -/
def Shaped (A : Mat) (r c : Nat) : Prop := A.length = r ∧ ∀ row ∈ A, row.length = c

/-- entry `(i, j)` with default 0 -/
def ent (A : Mat) (i j : Nat) : Rat := (A.getD i []).getD j 0

noncomputable def toM (r c : Nat) (A : Mat) : Matrix (Fin r) (Fin c) Rat := fun i j => ent A i j

theorem dot_eq_sum (a b : List Rat) (n : Nat) (ha : a.length = n) (hb : b.length = n) :
    dot a b = ∑ k ∈ range n, a.getD k 0 * b.getD k 0 := by
  induction a generalizing b n with
  | nil =>
    simp at ha; subst ha; simp [dot]
  | cons x xs ih =>
    cases b with
    | nil => exfalso; simp only [List.length_nil, List.length_cons] at ha hb; omega
    | cons y ys =>
      cases n with
      | zero => simp at ha
      | succ n =>
        simp only [List.length_cons, Nat.add_right_cancel_iff] at ha hb
        rw [sum_range_succ', dot, ih ys n ha hb]
        simp only [List.getD_cons_succ, List.getD_cons_zero]
        ring

theorem getD_mem_shaped (A : Mat) (r c i : Nat) (h : Shaped A r c) (hi : i < r) : (A.getD i []).length = c := by
  have : i < A.length := by rw [h.1]; exact hi
  rw [List.getD_eq_getElem?_getD, List.getElem?_eq_getElem this]
  exact h.2 _ (List.getElem_mem this)

/-- rows of the transpose: `(transpose B)[j] = column j of B` -/
theorem transpose_row (B : Mat) (n c j : Nat) (h : Shaped B n c) (hn : 0 < n) (hj : j < c) :
    (transpose B).getD j [] = B.map fun row => row.getD j 0 := by
  unfold transpose
  cases B with
  | nil => simp [Shaped] at h; omega
  | cons r0 rest =>
    have hr0 : r0.length = c := h.2 r0 (by simp)
    simp only []
    rw [List.getD_eq_getElem?_getD, List.getElem?_map, List.getElem?_range (by omega)]
    simp

theorem transpose_shaped (B : Mat) (n c : Nat) (h : Shaped B n c) (hn : 0 < n) : Shaped (transpose B) c n := by
  unfold transpose
  cases B with
  | nil => simp [Shaped] at h; omega
  | cons r0 rest =>
    have hr0 : r0.length = c := h.2 r0 (by simp)
    refine ⟨by simp [hr0], ?_⟩
    intro row hrow
    simp only [List.mem_map, List.mem_range] at hrow
    obtain ⟨j, _, rfl⟩ := hrow
    have := h.1
    simp only [List.length_cons] at this
    simp [this]

theorem ent_transpose (B : Mat) (n c j k : Nat) (h : Shaped B n c) (hn : 0 < n) (hj : j < c) (hk : k < n) :
    ent (transpose B) j k = ent B k j := by
  unfold ent
  rw [transpose_row B n c j h hn hj]
  have : k < B.length := by rw [h.1]; exact hk
  simp [List.getD_eq_getElem?_getD, this]

/-- entry of a product -/
theorem ent_matMul (A B : Mat) (r n c i j : Nat) (hA : Shaped A r n) (hB : Shaped B n c) (hn : 0 < n)
    (hi : i < r) (hj : j < c) :
    ent (matMul A B) i j = ∑ k ∈ range n, ent A i k * ent B k j := by
  have hiA : i < A.length := by rw [hA.1]; exact hi
  have hbt := transpose_shaped B n c hB hn
  have hjt : j < (transpose B).length := by rw [hbt.1]; exact hj
  have hrowi : (matMul A B).getD i [] = (transpose B).map (fun col => dot A[i] col) := by
    unfold matMul
    simp [List.getD_eq_getElem?_getD, hiA]
  have hentry : ent (matMul A B) i j = dot A[i] ((transpose B)[j]) := by
    unfold ent
    rw [hrowi]
    simp [List.getD_eq_getElem?_getD, hjt]
  rw [hentry]
  have hrow : (A[i]).length = n := hA.2 _ (List.getElem_mem hiA)
  have hcol : ((transpose B)[j]).length = n := hbt.2 _ (List.getElem_mem hjt)
  rw [dot_eq_sum _ _ n hrow hcol]
  apply sum_congr rfl
  intro k hk
  simp only [mem_range] at hk
  have e1 : (A.getD i []) = A[i] := by simp [List.getD_eq_getElem?_getD, hiA]
  have e2 : (transpose B)[j] = (transpose B).getD j [] := by simp [List.getD_eq_getElem?_getD, hjt]
  have := ent_transpose B n c j k hB hn hj hk
  unfold ent at this ⊢
  rw [e1, e2, this]

theorem matMul_shaped (A B : Mat) (r n c : Nat) (hA : Shaped A r n) (hB : Shaped B n c) (hn : 0 < n) :
    Shaped (matMul A B) r c := by
  have hbt := transpose_shaped B n c hB hn
  unfold matMul
  refine ⟨by simp [hA.1], ?_⟩
  intro row hrow
  simp only [List.mem_map] at hrow
  obtain ⟨a, _, rfl⟩ := hrow
  simp [hbt.1]

/-- **the bridge**: the model's product is Mathlib's matrix product -/
theorem toM_matMul (A B : Mat) (r n c : Nat) (hA : Shaped A r n) (hB : Shaped B n c) (hn : 0 < n) :
    toM r c (matMul A B) = toM r n A * toM n c B := by
  funext i j
  simp only [toM, Matrix.mul_apply]
  rw [ent_matMul A B r n c i j hA hB hn i.2 j.2]
  rw [← Fin.sum_univ_eq_sum_range (fun k => ent A i k * ent B k j) n]

theorem toM_transpose (B : Mat) (n c : Nat) (h : Shaped B n c) (hn : 0 < n) :
    toM c n (transpose B) = (toM n c B).transpose := by
  funext j k
  simp only [toM, Matrix.transpose_apply]
  exact ent_transpose B n c j k h hn j.2 k.2

theorem ent_identity (n i j : Nat) (hi : i < n) (hj : j < n) : ent (identity n) i j = if i = j then 1 else 0 := by
  unfold ent identity
  simp [List.getD_eq_getElem?_getD, hi, hj]

theorem toM_identity (n : Nat) : toM n n (identity n) = 1 := by
  funext i j
  simp only [toM, Matrix.one_apply]
  rw [ent_identity n i j i.2 j.2]
  simp [Fin.ext_iff]

/-- a list matrix of the right shape whose entries agree with another's is determined by `toM` -/
theorem toM_eq_of_eq (A B : Mat) (r c : Nat) (h : A = B) : toM r c A = toM r c B := by rw [h]

/-- **normal equations.**  If `G = BᵀB`, `G · inv = I` and `M = inv · Bᵀ`, then for every right-hand side `Z`
the solution `Q = M Z` satisfies `Bᵀ (B Q) = Bᵀ Z`: the residual `B Q − Z` is orthogonal to every column
of `B`. -/
theorem normal_equations (B inv Z : Mat) (r n d : Nat) (hB : Shaped B r n) (hr : 0 < r) (hn : 0 < n)
    (hinv : Shaped inv n n)
    (hchk : matMul (matMul (transpose B) B) inv = identity n) :
    (toM r n B).transpose * (toM r n B * (toM n r (matMul inv (transpose B)) * toM r d Z))
      = (toM r n B).transpose * toM r d Z := by
  have hBt := transpose_shaped B r n hB hr
  have hG : Shaped (matMul (transpose B) B) n n := matMul_shaped _ _ n r n hBt hB hr
  have e1 : toM n r (matMul inv (transpose B)) = toM n n inv * (toM r n B).transpose := by
    rw [toM_matMul inv (transpose B) n n r hinv hBt hn, toM_transpose B r n hB hr]
  have e2 : (toM r n B).transpose * toM r n B * toM n n inv = 1 := by
    have := toM_matMul (matMul (transpose B) B) inv n n n hG hinv hn
    rw [hchk, toM_identity, toM_matMul (transpose B) B n r n hBt hB hr, toM_transpose B r n hB hr] at this
    exact this.symm
  rw [e1]
  calc (toM r n B).transpose * (toM r n B * (toM n n inv * (toM r n B).transpose * toM r d Z))
      = ((toM r n B).transpose * toM r n B * toM n n inv) * ((toM r n B).transpose * toM r d Z) := by
        simp only [Matrix.mul_assoc]
    _ = (toM r n B).transpose * toM r d Z := by rw [e2, Matrix.one_mul]

/-- **Galerkin / Gram form** (C11): with `GG · GGinv = I`, the matrix `T = GGinv · GF` solves `GG · T = GF`. -/
theorem gram_normal_equations (GG GGinv GF : Mat) (n m : Nat) (hGG : Shaped GG n n) (hinv : Shaped GGinv n n)
    (hGF : Shaped GF n m) (hn : 0 < n) (hchk : matMul GG GGinv = identity n) :
    toM n n GG * toM n m (matMul GGinv GF) = toM n m GF := by
  rw [toM_matMul GGinv GF n n m hinv hGF hn, ← Matrix.mul_assoc]
  have := toM_matMul GG GGinv n n n hGG hinv hn
  rw [hchk, toM_identity] at this
  rw [← this, Matrix.one_mul]

end NV
