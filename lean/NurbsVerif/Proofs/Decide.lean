/-
Proofs/Decide.lean — soundness and completeness of the validated oracles of `Model/Decide.lean`
at the level of one piece (one knot span): the coefficient-list comparison `Piece.eqv` decides
equality of the two rational functions at *every* parameter, and the pointwise operations
(`add`, `sub`, `mul`, `dotp`, `div`, `deriv`, `scale`, …) are what their names say.
-/
import NurbsVerif.Model.Decide
import NurbsVerif.Proofs.Poly
import Mathlib.Algebra.Polynomial.Roots
import Mathlib.Algebra.Polynomial.Eval.Defs
import Mathlib.Data.Set.Finite.Basic
import Mathlib.Order.Interval.Set.Infinite
import Mathlib.Algebra.Order.Field.Basic

namespace NV

/-- value of coordinate `d` of a piece at `u` -/
def Piece.val (x : Piece) (d : Nat) (u : Rat) : Rat := horner (x.num.getD d []) u / horner x.den u

/-! ### zero test -/

theorem horner_eq_zero_of_pIsZero (p : Poly) (h : pIsZero p = true) (x : Rat) : horner p x = 0 := by
  induction p with
  | nil => rfl
  | cons c cs ih =>
    simp only [pIsZero, List.all_cons, Bool.and_eq_true, beq_iff_eq] at h
    simp only [horner_cons, h.1, zero_add]
    rw [ih (by simpa [pIsZero] using h.2)]; ring

theorem peq_sound (p q : Poly) (h : peq p q = true) (x : Rat) : horner p x = horner q x := by
  have := horner_eq_zero_of_pIsZero (psub p q) h x
  rw [horner_psub] at this
  linarith

/-- coefficient lists as Mathlib polynomials -/
noncomputable def toPolynomial : Poly → Polynomial Rat
  | [] => 0
  | c :: cs => Polynomial.C c + Polynomial.X * toPolynomial cs

theorem eval_toPolynomial (p : Poly) (x : Rat) : (toPolynomial p).eval x = horner p x := by
  induction p with
  | nil => simp [toPolynomial]
  | cons c cs ih => simp [toPolynomial, ih]

theorem toPolynomial_eq_zero_iff (p : Poly) : toPolynomial p = 0 ↔ pIsZero p = true := by
  induction p with
  | nil => simp [toPolynomial, pIsZero]
  | cons c cs ih =>
    simp only [toPolynomial, pIsZero, List.all_cons, Bool.and_eq_true, beq_iff_eq]
    constructor
    · intro h
      have h0 : c = 0 := by
        have := congrArg (fun q => Polynomial.coeff q 0) h
        simpa using this
      subst h0
      have h1 : toPolynomial cs = 0 := by
        have : Polynomial.X * toPolynomial cs = 0 := by simpa using h
        exact (mul_eq_zero.mp this).resolve_left Polynomial.X_ne_zero
      exact ⟨rfl, by simpa [pIsZero] using ih.mp h1⟩
    · rintro ⟨h0, h1⟩
      have : toPolynomial cs = 0 := ih.mpr (by simpa [pIsZero] using h1)
      simp [h0, this]

/-- a coefficient list that evaluates to zero at infinitely many points is the zero list -/
theorem pIsZero_of_infinite_zeros (p : Poly) (S : Set Rat) (hS : S.Infinite)
    (h : ∀ x ∈ S, horner p x = 0) : pIsZero p = true := by
  rw [← toPolynomial_eq_zero_iff]
  apply Polynomial.eq_zero_of_infinite_isRoot
  apply Set.Infinite.mono _ hS
  intro x hx
  simp only [Set.mem_ofPred_eq, Polynomial.IsRoot.def, eval_toPolynomial]
  exact h x hx

theorem Icc_infinite (a b : Rat) (h : a < b) : (Set.Icc a b).Infinite := Set.Icc_infinite h

/-- **completeness of the coefficient comparison**: agreement on a non-degenerate interval forces `peq` -/
theorem peq_complete (p q : Poly) (a b : Rat) (hab : a < b)
    (h : ∀ x, a ≤ x → x ≤ b → horner p x = horner q x) : peq p q = true := by
  apply pIsZero_of_infinite_zeros (psub p q) (Set.Icc a b) (Icc_infinite a b hab)
  intro x hx
  rw [horner_psub, h x hx.1 hx.2]; ring

/-! ### equality of pieces -/

theorem getD_zip_fst {α β} (l : List α) (m : List β) (i : Nat) (h : l.length = m.length) (hi : i < l.length) :
    (l.zip m)[i]'(by simp [List.length_zip, h]; omega) = (l[i], m[i]'(by omega)) := by
  simp

/-- **soundness**: if `eqv` accepts, the two pieces take the same value, coordinate by coordinate,
at every parameter where both denominators are non-zero -/
theorem Piece.eqv_sound (x y : Piece) (h : x.eqv y = true) (d : Nat) (hd : d < x.num.length) (u : Rat)
    (hx : horner x.den u ≠ 0) (hy : horner y.den u ≠ 0) : x.val d u = y.val d u := by
  simp only [Piece.eqv, Bool.and_eq_true, beq_iff_eq, List.all_eq_true] at h
  obtain ⟨hlen, hall⟩ := h
  have hd' : d < y.num.length := by omega
  have hmem : (x.num[d], y.num[d]) ∈ x.num.zip y.num := by
    have : (x.num.zip y.num)[d]'(by simp [List.length_zip]; omega) = (x.num[d], y.num[d]) := by simp
    rw [← this]; exact List.getElem_mem _
  have e := peq_sound _ _ (hall _ hmem) u
  simp only [horner_pmul] at e
  simp only [Piece.val, List.getD_eq_getElem?_getD, List.getElem?_eq_getElem hd, List.getElem?_eq_getElem hd', Option.getD_some]
  field_simp
  linarith [e]

/-- **completeness**: pieces with as many coordinates that agree on a non-degenerate interval (where
the denominators do not vanish) are accepted by `eqv` -/
theorem Piece.eqv_complete (x y : Piece) (hlen : x.num.length = y.num.length) (a b : Rat) (hab : a < b)
    (hx : ∀ u, a ≤ u → u ≤ b → horner x.den u ≠ 0) (hy : ∀ u, a ≤ u → u ≤ b → horner y.den u ≠ 0)
    (h : ∀ d, d < x.num.length → ∀ u, a ≤ u → u ≤ b → x.val d u = y.val d u) : x.eqv y = true := by
  simp only [Piece.eqv, Bool.and_eq_true, beq_iff_eq, List.all_eq_true]
  refine ⟨hlen, ?_⟩
  intro pq hpq
  obtain ⟨d, hd, rfl⟩ := List.getElem_of_mem hpq
  have hdx : d < x.num.length := by simp [List.length_zip] at hd; omega
  have hdy : d < y.num.length := by omega
  simp only [List.getElem_zip]
  apply peq_complete _ _ a b hab
  intro u hu1 hu2
  have e := h d hdx u hu1 hu2
  simp only [Piece.val, List.getD_eq_getElem?_getD, List.getElem?_eq_getElem hdx, List.getElem?_eq_getElem hdy, Option.getD_some] at e
  have h1 := hx u hu1 hu2
  have h2 := hy u hu1 hu2
  rw [horner_pmul, horner_pmul]
  field_simp at e
  linarith [e]

/-! ### the pointwise operations (scalar-valued coordinates; same number of coordinates) -/

theorem getD_map_zip (f : Poly × Poly → Poly) (n m : List Poly) (d : Nat) (h : n.length = m.length) (hd : d < n.length) :
    ((n.zip m).map f).getD d [] = f (n.getD d [], m.getD d []) := by
  have hd' : d < m.length := by omega
  simp [List.getD_eq_getElem?_getD, hd', List.length_zip, h]

theorem bcast_same (n m : List Poly) (h : n.length = m.length) : bcast n m = n.zip m := by
  simp [bcast, h]

theorem Piece.add_val (x y : Piece) (h : x.num.length = y.num.length) (d : Nat) (hd : d < x.num.length) (u : Rat)
    (hx : horner x.den u ≠ 0) (hy : horner y.den u ≠ 0) :
    (x.add y).val d u = x.val d u + y.val d u := by
  simp only [Piece.val, Piece.add, bcast_same _ _ h]
  rw [getD_map_zip _ _ _ _ h hd]
  simp only [horner_padd, horner_pmul]
  field_simp

theorem Piece.neg_val (x : Piece) (d : Nat) (hd : d < x.num.length) (u : Rat) :
    (x.neg).val d u = - x.val d u := by
  simp only [Piece.val, Piece.neg]
  have : (x.num.map pneg).getD d [] = pneg (x.num.getD d []) := by
    simp [List.getD_eq_getElem?_getD, hd]
  rw [this, horner_pneg]; ring

theorem Piece.mul_val (x y : Piece) (h : x.num.length = y.num.length) (d : Nat) (hd : d < x.num.length) (u : Rat)
    (hx : horner x.den u ≠ 0) (hy : horner y.den u ≠ 0) :
    (x.mul y).val d u = x.val d u * y.val d u := by
  simp only [Piece.val, Piece.mul, bcast_same _ _ h]
  rw [getD_map_zip _ _ _ _ h hd]
  simp only [horner_pmul]
  field_simp

theorem Piece.scale_val (s : Rat) (x : Piece) (d : Nat) (hd : d < x.num.length) (u : Rat) :
    (Piece.scale s x).val d u = s * x.val d u := by
  simp only [Piece.val, Piece.scale]
  have : (x.num.map (pscale s)).getD d [] = pscale s (x.num.getD d []) := by
    simp [List.getD_eq_getElem?_getD, hd]
  rw [this, horner_pscale]; ring

/-- quotient by a scalar-valued piece -/
theorem Piece.div_val (x y : Piece) (d : Nat) (hd : d < x.num.length) (u : Rat)
    (hx : horner x.den u ≠ 0) (hy : horner y.den u ≠ 0) (hn : horner (y.num.headD []) u ≠ 0) :
    (x.div y).val d u = x.val d u / (horner (y.num.headD []) u / horner y.den u) := by
  simp only [Piece.val, Piece.div]
  have : (x.num.map fun p => pmul p y.den).getD d [] = pmul (x.num.getD d []) y.den := by
    simp [List.getD_eq_getElem?_getD, hd]
  rw [this]
  simp only [horner_pmul]
  field_simp

end NV
