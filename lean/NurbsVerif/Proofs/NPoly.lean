/-
Proofs/NPoly.lean — the B-spline basis on one span as polynomials (`Polynomial ℚ`) and the **derivative formula**
`N'_{i,j+1} = (j+1) (A_{i,j} N_{i,j} − A_{i+1,j} N_{i+1,j})`, `A_{i,j} = 1/(t_{i+j+1} − t_i)` (0 when the support is
empty), for every monotone knot function, every degree and every multiplicity pattern.
-/
import NurbsVerif.Proofs.CdB
import Mathlib.Algebra.Polynomial.Derivative
import Mathlib.Tactic.LinearCombination

open Polynomial
namespace NV

/-- `1/(t_{i+j+1} − t_i)` with Lean's `1/0 = 0` (the 0/0 := 0 convention) -/
def Acoef (t : Nat → Rat) (i j : Nat) : Rat := 1 / (t (i + j + 1) - t i)

/-- the Cox–de Boor recursion on span `sz`, as polynomials -/
noncomputable def Npoly (t : Nat → Rat) (sz : Nat) : Nat → Nat → ℚ[X]
  | i, 0 => if i = sz then 1 else 0
  | i, j + 1 => C (Acoef t i j) * (X - C (t i)) * Npoly t sz i j
      + C (Acoef t (i + 1) j) * (C (t (i + j + 2)) - X) * Npoly t sz (i + 1) j

theorem Acoef_succ (t : Nat → Rat) (i j : Nat) : Acoef t (i + 1) j = 1 / (t (i + j + 2) - t (i + 1)) := by
  unfold Acoef
  have e : i + 1 + j + 1 = i + j + 2 := by omega
  rw [e]

/-- the polynomial evaluates to the span function -/
theorem Npoly_eval (t : Nat → Rat) (sz : Nat) : ∀ j i u, (Npoly t sz i j).eval u = cdbSpan t sz i j u := by
  intro j
  induction j with
  | zero =>
    intro i u
    simp only [Npoly, cdbSpan]
    split <;> simp
  | succ j ih =>
    intro i u
    simp only [Npoly, cdbSpan, eval_add, eval_mul, eval_sub, eval_C, eval_X, ih, Acoef_succ]
    unfold Acoef
    ring

/-- **derivative of a B-spline basis function** (all multiplicity patterns) -/
theorem Npoly_derivative (t : Nat → Rat) (B : Nat) (hm : MonoUpTo t B) (sz : Nat) :
    ∀ j i, i + j + 2 ≤ B →
      derivative (Npoly t sz i (j + 1))
        = ((j : ℚ[X]) + 1) * (C (Acoef t i j) * Npoly t sz i j - C (Acoef t (i + 1) j) * Npoly t sz (i + 1) j) := by
  intro j
  induction j with
  | zero =>
    intro i _
    have h0 : ∀ k, derivative (Npoly t sz k 0) = 0 := by
      intro k; simp only [Npoly]; split <;> simp
    have hN : Npoly t sz i (0 + 1) = C (Acoef t i 0) * (X - C (t i)) * Npoly t sz i 0
        + C (Acoef t (i + 1) 0) * (C (t (i + 0 + 2)) - X) * Npoly t sz (i + 1) 0 := rfl
    rw [hN]
    simp only [derivative_add, derivative_mul, derivative_sub, derivative_C, derivative_X, h0]
    simp only [Nat.cast_zero, zero_add, map_one]
    ring
  | succ j ih =>
    intro i hi
    -- scalars
    set a0 := Acoef t i j with ha0
    set a1 := Acoef t (i + 1) j with ha1
    set a2 := Acoef t (i + 2) j with ha2
    set b0 := Acoef t i (j + 1) with hb0
    set b1 := Acoef t (i + 1) (j + 1) with hb1
    have ih0 := ih i (by omega)
    have ih1 := ih (i + 1) (by omega)
    -- the scalar fact: a1 · (b1 (t_{i+j+3} − t_{i+1}) − b0 (t_{i+j+2} − t_i)) = 0
    have key : a1 * (b1 * (t (i + j + 3) - t (i + 1)) - b0 * (t (i + j + 2) - t i)) = 0 := by
      rw [ha1, hb1, hb0, Acoef_succ, Acoef_succ]
      unfold Acoef
      have e1 : i + (j + 1) + 1 = i + j + 2 := by omega
      have e2 : i + (j + 1) + 2 = i + j + 3 := by omega
      rw [e1, e2]
      by_cases d1 : t (i + j + 2) - t i = 0
      · -- then t_{i+1} = t_{i+j+2}
        have h1 : t i ≤ t (i + 1) := hm _ _ (by omega) (by omega)
        have h2 : t (i + 1) ≤ t (i + j + 2) := hm _ _ (by omega) (by omega)
        have : t (i + j + 2) - t (i + 1) = 0 := by linarith
        rw [this]; simp
      · by_cases d2 : t (i + j + 3) - t (i + 1) = 0
        · have h1 : t (i + 1) ≤ t (i + j + 2) := hm _ _ (by omega) (by omega)
          have h2 : t (i + j + 2) ≤ t (i + j + 3) := hm _ _ (by omega) (by omega)
          have : t (i + j + 2) - t (i + 1) = 0 := by linarith
          rw [this]; simp
        · field_simp
          ring
    have keyP : (C a1 : ℚ[X]) * (C b1 * (C (t (i + j + 3)) - C (t (i + 1))) - C b0 * (C (t (i + j + 2)) - C (t i))) = 0 := by
      rw [← C_sub, ← C_sub, ← C_mul, ← C_mul, ← C_sub, ← C_mul, key, C_0]
    -- unfold one level on the left, two on the right
    have e3 : i + (j + 1) + 2 = i + j + 3 := by omega
    have e4 : i + 1 + j + 2 = i + j + 3 := by omega
    have e5 : i + 1 + 1 = i + 2 := by omega
    have hN0 : Npoly t sz i (j + 1 + 1) = C b0 * (X - C (t i)) * Npoly t sz i (j + 1)
        + C b1 * (C (t (i + j + 3)) - X) * Npoly t sz (i + 1) (j + 1) := by
      simp only [Npoly, e3, hb0, hb1]
    have hN1 : Npoly t sz i (j + 1) = C a0 * (X - C (t i)) * Npoly t sz i j
        + C a1 * (C (t (i + j + 2)) - X) * Npoly t sz (i + 1) j := by
      simp only [Npoly, ha0, ha1]
    have hN2 : Npoly t sz (i + 1) (j + 1) = C a1 * (X - C (t (i + 1))) * Npoly t sz (i + 1) j
        + C a2 * (C (t (i + j + 3)) - X) * Npoly t sz (i + 2) j := by
      simp only [Npoly, e4, e5, ha1, ha2]
    rw [hN0]
    simp only [derivative_add, derivative_mul, derivative_sub, derivative_C, derivative_X, ih0, ih1]
    rw [e5]
    simp only [← ha0, ← ha1, ← ha2]
    rw [hN1, hN2]
    push_cast
    linear_combination (((j : ℚ[X]) + 1) * Npoly t sz (i + 1) j) * keyP

open Finset in
theorem Npoly_eq_zero_of_gt (t : Nat → Rat) (sz : Nat) : ∀ j i, sz < i → Npoly t sz i j = 0 := by
  intro j
  induction j with
  | zero => intro i h; simp only [Npoly]; rw [if_neg (by omega)]
  | succ j ih =>
    intro i h
    simp only [Npoly]
    rw [ih i h, ih (i + 1) (by omega)]; ring

theorem Npoly_eq_zero_of_lt (t : Nat → Rat) (sz : Nat) : ∀ j i, i + j < sz → Npoly t sz i j = 0 := by
  intro j
  induction j with
  | zero => intro i h; simp only [Npoly]; rw [if_neg (by omega)]
  | succ j ih =>
    intro i h
    simp only [Npoly]
    rw [ih i (by omega), ih (i + 1) (by omega)]; ring

/-- the polynomial piece of `Σ P_i N_{i,j}` on span `sz` -/
noncomputable def spanPoly (t : Nat → Rat) (sz j : Nat) (P : Nat → Rat) : ℚ[X] :=
  ∑ i ∈ Finset.range (sz + 1), C (P i) * Npoly t sz i j

theorem spanPoly_eval (t : Nat → Rat) (sz j : Nat) (P : Nat → Rat) (u : Rat) :
    (spanPoly t sz j P).eval u = ∑ i ∈ Finset.range (sz + 1), P i * cdbSpan t sz i j u := by
  unfold spanPoly
  rw [eval_finset_sum]
  apply Finset.sum_congr rfl
  intro i _
  rw [eval_mul, eval_C, Npoly_eval]

/-- control values of the derivative: `Q_i = (j+1) (P_i − P_{i−1}) / (t_{i+j+1} − t_i)` (phantom `P_{−1} = 0`) -/
def derivCoef (t : Nat → Rat) (j : Nat) (P : Nat → Rat) (i : Nat) : Rat :=
  ((j : ℚ) + 1) * Acoef t i j * (P i - (if i = 0 then 0 else P (i - 1)))

/-- **derivative of a spline piece**: `(Σ P_i N_{i,j+1})' = Σ Q_i N_{i,j}` on every span -/
theorem spanPoly_derivative (t : Nat → Rat) (B : Nat) (hm : MonoUpTo t B) (sz j : Nat) (hB : sz + j + 2 ≤ B)
    (P : Nat → Rat) :
    derivative (spanPoly t sz (j + 1) P) = spanPoly t sz j (derivCoef t j P) := by
  unfold spanPoly
  rw [derivative_sum]
  have e1 : ∀ i ∈ Finset.range (sz + 1), derivative (C (P i) * Npoly t sz i (j + 1))
      = C (P i) * ((j : ℚ[X]) + 1) * C (Acoef t i j) * Npoly t sz i j
        - C (P i) * ((j : ℚ[X]) + 1) * C (Acoef t (i + 1) j) * Npoly t sz (i + 1) j := by
    intro i hi
    simp only [Finset.mem_range] at hi
    rw [derivative_mul, derivative_C, Npoly_derivative t B hm sz j i (by omega)]
    ring
  rw [Finset.sum_congr rfl e1, Finset.sum_sub_distrib]
  -- shift the second sum by one
  have s2 : ∑ i ∈ Finset.range (sz + 1), C (P i) * ((j : ℚ[X]) + 1) * C (Acoef t (i + 1) j) * Npoly t sz (i + 1) j
      = ∑ i ∈ Finset.range (sz + 1),
          C (if i = 0 then 0 else P (i - 1)) * ((j : ℚ[X]) + 1) * C (Acoef t i j) * Npoly t sz i j := by
    rw [Finset.sum_range_succ' (fun i => C (if i = 0 then 0 else P (i - 1)) * ((j : ℚ[X]) + 1) * C (Acoef t i j)
      * Npoly t sz i j) sz]
    rw [Finset.sum_range_succ (fun i => C (P i) * ((j : ℚ[X]) + 1) * C (Acoef t (i + 1) j) * Npoly t sz (i + 1) j) sz]
    rw [Npoly_eq_zero_of_gt t sz j (sz + 1) (by omega)]
    simp
  rw [s2, ← Finset.sum_sub_distrib]
  apply Finset.sum_congr rfl
  intro i _
  unfold derivCoef
  have hc : (C ((j : ℚ) + 1) : ℚ[X]) = (j : ℚ[X]) + 1 := by simp
  rw [C_mul, C_mul, C_sub, hc]
  ring

end NV
