/-
Proofs/CdB.lean — theory tier T1: the Cox–de Boor recursion.

`cdbF t umax i j u` is the definition over a knot *function* `t : ℕ → ℚ` (the spec `cdb U umax` is
`cdbF (nth U) umax` by definition).  `cdbSpan t sz i j u` is the same recursion started from the
indicator of one fixed span `sz`; on that span (closed at `umax` by the left-limit convention) the
two coincide, and every structural fact is proved on `cdbSpan`:
local support, non-negativity, partition of unity.
-/
import NurbsVerif.Spec.CdB
import Mathlib.Tactic.Ring
import Mathlib.Tactic.FieldSimp
import Mathlib.Tactic.Linarith
import Mathlib.Tactic.Positivity
import Mathlib.Algebra.BigOperators.Intervals
import Mathlib.Algebra.Order.Field.Rat

namespace NV
open Finset

/-- Cox–de Boor over a knot function -/
def cdbF (t : Nat → Rat) (umax : Rat) : Nat → Nat → Rat → Rat
  | i, 0, u =>
      if (t i ≤ u ∧ u < t (i + 1)) ∨ (u = umax ∧ t i < t (i + 1) ∧ t (i + 1) = umax) then 1 else 0
  | i, j + 1, u =>
      (u - t i) / (t (i + j + 1) - t i) * cdbF t umax i j u
      + (t (i + j + 2) - u) / (t (i + j + 2) - t (i + 1)) * cdbF t umax (i + 1) j u

theorem cdb_eq_cdbF (U : List Rat) (umax : Rat) (i j : Nat) (u : Rat) :
    cdb U umax i j u = cdbF (nth U) umax i j u := by
  induction j generalizing i with
  | zero => simp [cdb, cdbF]
  | succ j ih => simp [cdb, cdbF, ih]

/-- the recursion started from the indicator of span `sz` -/
def cdbSpan (t : Nat → Rat) (sz : Nat) : Nat → Nat → Rat → Rat
  | i, 0, _ => if i = sz then 1 else 0
  | i, j + 1, u =>
      (u - t i) / (t (i + j + 1) - t i) * cdbSpan t sz i j u
      + (t (i + j + 2) - u) / (t (i + j + 2) - t (i + 1)) * cdbSpan t sz (i + 1) j u

/-- monotone up to index `B` -/
def MonoUpTo (t : Nat → Rat) (B : Nat) : Prop := ∀ a b, a ≤ b → b ≤ B → t a ≤ t b

/-- `u` lies in span `sz`: half-open, or closed at `umax` (left-limit convention) -/
def InSpan (t : Nat → Rat) (umax : Rat) (sz : Nat) (u : Rat) : Prop :=
  (t sz ≤ u ∧ u < t (sz + 1)) ∨ (u = umax ∧ t sz < t (sz + 1) ∧ t (sz + 1) = umax)

theorem InSpan.lt {t umax sz u} (h : InSpan t umax sz u) : t sz < t (sz + 1) := by
  rcases h with ⟨h1, h2⟩ | ⟨_, h2, _⟩
  · linarith
  · exact h2

theorem InSpan.le_left {t umax sz u} (h : InSpan t umax sz u) : t sz ≤ u := by
  rcases h with ⟨h1, _⟩ | ⟨h1, h2, h3⟩
  · exact h1
  · rw [h1, ← h3]; exact le_of_lt h2

theorem InSpan.le_right {t umax sz u} (h : InSpan t umax sz u) : u ≤ t (sz + 1) := by
  rcases h with ⟨_, h2⟩ | ⟨h1, _, h3⟩
  · exact le_of_lt h2
  · rw [h1, h3]

/-- base case: on span `sz` the level-0 function of the definition is the indicator of `sz`
(needs monotone knots up to `max i sz + 1` and that no knot exceeds `umax`) -/
theorem cdbF_zero_eq (t : Nat → Rat) (umax : Rat) (B : Nat) (hm : MonoUpTo t B)
    (hmax : ∀ a, a ≤ B → t a ≤ umax) (sz i : Nat) (u : Rat)
    (hs : sz + 1 ≤ B) (hi : i + 1 ≤ B) (h : InSpan t umax sz u) :
    cdbF t umax i 0 u = cdbSpan t sz i 0 u := by
  simp only [cdbF, cdbSpan]
  by_cases e : i = sz
  · subst e; rw [if_pos (show (t i ≤ u ∧ u < t (i + 1)) ∨ (u = umax ∧ t i < t (i + 1) ∧ t (i + 1) = umax) from h), if_pos rfl]
  · rw [if_neg e, if_neg]
    intro h'
    have hlt := h.lt
    have hl := h.le_left
    have hr := h.le_right
    rcases Nat.lt_or_gt_of_ne e with l | g
    · -- i < sz : t (i+1) ≤ t sz ≤ u
      have h1 : t (i + 1) ≤ t sz := hm _ _ (by omega) (by omega)
      rcases h' with ⟨_, b⟩ | ⟨a, _, c⟩
      · linarith
      · -- u = umax = t (i+1) ≤ t sz < t (sz+1) ≤ umax
        have : t (sz + 1) ≤ umax := hmax _ hs
        linarith
    · -- sz < i : u ≤ t (sz+1) ≤ t i
      have h1 : t (sz + 1) ≤ t i := hm _ _ (by omega) (by omega)
      rcases h' with ⟨a, b⟩ | ⟨a, b, c⟩
      · rcases h with ⟨_, q⟩ | ⟨q1, q2, q3⟩
        · linarith
        · -- u = umax, t i ≤ umax < t (i+1) impossible since t (i+1) ≤ umax
          have : t (i + 1) ≤ umax := hmax _ hi
          linarith
      · rcases h with ⟨_, q⟩ | ⟨q1, q2, q3⟩
        · linarith
        · -- t i < t (i+1) = umax = t (sz+1) ≤ t i
          linarith

/-- on span `sz` the definition equals the span recursion, for every index and degree in range -/
theorem cdbF_eq_cdbSpan (t : Nat → Rat) (umax : Rat) (B : Nat) (hm : MonoUpTo t B)
    (hmax : ∀ a, a ≤ B → t a ≤ umax) (sz : Nat) (u : Rat) (hs : sz + 1 ≤ B)
    (h : InSpan t umax sz u) :
    ∀ j i, i + j + 1 ≤ B → cdbF t umax i j u = cdbSpan t sz i j u := by
  intro j
  induction j with
  | zero => intro i hi; exact cdbF_zero_eq t umax B hm hmax sz i u hs (by omega) h
  | succ j ih =>
    intro i hi
    simp only [cdbF, cdbSpan]
    rw [ih i (by omega), ih (i + 1) (by omega)]

/-- local support: outside `sz − j ≤ i ≤ sz` the span recursion vanishes -/
theorem cdbSpan_eq_zero_of_gt (t : Nat → Rat) (sz : Nat) (u : Rat) :
    ∀ j i, sz < i → cdbSpan t sz i j u = 0 := by
  intro j
  induction j with
  | zero => intro i h; simp [cdbSpan]; omega
  | succ j ih =>
    intro i h
    simp only [cdbSpan]
    rw [ih i h, ih (i + 1) (by omega)]; ring

theorem cdbSpan_eq_zero_of_lt (t : Nat → Rat) (sz : Nat) (u : Rat) :
    ∀ j i, i + j < sz → cdbSpan t sz i j u = 0 := by
  intro j
  induction j with
  | zero => intro i h; simp [cdbSpan]; omega
  | succ j ih =>
    intro i h
    simp only [cdbSpan]
    rw [ih i (by omega), ih (i + 1) (by omega)]; ring

/-- non-negativity on the (closed) span -/
theorem cdbSpan_nonneg (t : Nat → Rat) (B : Nat) (hm : MonoUpTo t B) (sz : Nat) (u : Rat)
    (hl : t sz ≤ u) (hr : u ≤ t (sz + 1)) :
    ∀ j i, i + j + 1 ≤ B → sz + 1 ≤ B → 0 ≤ cdbSpan t sz i j u := by
  intro j
  induction j with
  | zero => intro i _ _; simp only [cdbSpan]; split <;> norm_num
  | succ j ih =>
    intro i hi hs
    simp only [cdbSpan]
    have n1 := ih i (by omega) hs
    have n2 := ih (i + 1) (by omega) hs
    apply add_nonneg
    · by_cases c : sz < i
      · rw [cdbSpan_eq_zero_of_gt t sz u j i c]; simp
      · -- i ≤ sz : t i ≤ t sz ≤ u, denominator ≥ 0
        have a : t i ≤ u := le_trans (hm _ _ (by omega) (by omega)) hl
        have b : t i ≤ t (i + j + 1) := hm _ _ (by omega) (by omega)
        apply mul_nonneg _ n1
        apply div_nonneg <;> linarith
    · by_cases c : i + 1 + j < sz
      · rw [cdbSpan_eq_zero_of_lt t sz u j (i + 1) c]; simp
      · -- sz ≤ i + 1 + j : u ≤ t (sz+1) ≤ t (i+j+2)
        have a : u ≤ t (i + j + 2) := le_trans hr (hm _ _ (by omega) (by omega))
        have b : t (i + 1) ≤ t (i + j + 2) := hm _ _ (by omega) (by omega)
        apply mul_nonneg _ n2
        apply div_nonneg <;> linarith

/-- whenever the second basis function matters its coefficient is `1 − ω_{i+1}` -/
theorem cdbSpan_second_coeff (t : Nat → Rat) (B : Nat) (hm : MonoUpTo t B) (sz : Nat) (u : Rat)
    (hlt : t sz < t (sz + 1)) (j i : Nat) (hi : i + j + 2 ≤ B) :
    (t (i + j + 2) - u) / (t (i + j + 2) - t (i + 1)) * cdbSpan t sz (i + 1) j u
      = (1 - (u - t (i + 1)) / (t (i + 1 + j + 1) - t (i + 1))) * cdbSpan t sz (i + 1) j u := by
  have e : i + 1 + j + 1 = i + j + 2 := by omega
  rw [e]
  by_cases c1 : sz < i + 1
  · rw [cdbSpan_eq_zero_of_gt t sz u j (i + 1) c1]; ring
  by_cases c2 : i + 1 + j < sz
  · rw [cdbSpan_eq_zero_of_lt t sz u j (i + 1) c2]; ring
  -- i + 1 ≤ sz ≤ i + 1 + j : the support contains the span, denominator positive
  have a : t (i + 1) ≤ t sz := hm _ _ (by omega) (by omega)
  have b : t (sz + 1) ≤ t (i + j + 2) := hm _ _ (by omega) (by omega)
  have h : t (i + j + 2) - t (i + 1) ≠ 0 := by
    have : 0 < t (i + j + 2) - t (i + 1) := by linarith
    exact ne_of_gt this
  field_simp
  ring

/-- partition of unity on the span: `Σ_{i ≤ sz} N_{i,j} = 1` for `j ≤ sz` -/
theorem cdbSpan_sum_one (t : Nat → Rat) (B : Nat) (hm : MonoUpTo t B) (sz : Nat) (u : Rat)
    (hlt : t sz < t (sz + 1)) :
    ∀ j, j ≤ sz → sz + j + 1 ≤ B → ∑ i ∈ range (sz + 1), cdbSpan t sz i j u = 1 := by
  intro j
  induction j with
  | zero =>
    intro _ _
    rw [sum_range_succ]
    have : ∑ i ∈ range sz, cdbSpan t sz i 0 u = 0 := by
      apply sum_eq_zero
      intro i hi
      simp only [mem_range] at hi
      simp [cdbSpan]; omega
    rw [this]; simp [cdbSpan]
  | succ j ih =>
    intro hj hB
    have key : ∀ i ∈ range (sz + 1), cdbSpan t sz i (j + 1) u
        = (u - t i) / (t (i + j + 1) - t i) * cdbSpan t sz i j u
          + (1 - (u - t (i + 1)) / (t (i + 1 + j + 1) - t (i + 1))) * cdbSpan t sz (i + 1) j u := by
      intro i hi
      simp only [mem_range] at hi
      rw [← cdbSpan_second_coeff t B hm sz u hlt j i (by omega)]; rfl
    rw [sum_congr rfl key, sum_add_distrib]
    have s2 : ∑ i ∈ range (sz + 1),
          (1 - (u - t (i + 1)) / (t (i + 1 + j + 1) - t (i + 1))) * cdbSpan t sz (i + 1) j u
        = ∑ i ∈ range (sz + 1), (1 - (u - t i) / (t (i + j + 1) - t i)) * cdbSpan t sz i j u
          - (1 - (u - t 0) / (t (0 + j + 1) - t 0)) * cdbSpan t sz 0 j u := by
      rw [sum_range_succ' (fun i => (1 - (u - t i) / (t (i + j + 1) - t i)) * cdbSpan t sz i j u) sz]
      rw [sum_range_succ (fun i => (1 - (u - t (i + 1)) / (t (i + 1 + j + 1) - t (i + 1)))
        * cdbSpan t sz (i + 1) j u) sz]
      have z : cdbSpan t sz (sz + 1) j u = 0 := cdbSpan_eq_zero_of_gt t sz u j (sz + 1) (by omega)
      rw [z]; ring
    rw [s2]
    have z0 : cdbSpan t sz 0 j u = 0 := cdbSpan_eq_zero_of_lt t sz u j 0 (by omega)
    rw [z0, mul_zero, sub_zero, ← sum_add_distrib]
    have : ∀ i, (u - t i) / (t (i + j + 1) - t i) * cdbSpan t sz i j u
        + (1 - (u - t i) / (t (i + j + 1) - t i)) * cdbSpan t sz i j u = cdbSpan t sz i j u := by
      intro i; ring
    simp only [this]
    exact ih (by omega) (by omega)

/-! ### the same facts for the definition `cdbF` on a span -/

section OnDefinition
variable (t : Nat → Rat) (umax : Rat) (B : Nat) (hm : MonoUpTo t B) (hmax : ∀ a, a ≤ B → t a ≤ umax)
include hm hmax

theorem cdbF_nonneg (sz : Nat) (u : Rat) (hs : sz + 1 ≤ B) (h : InSpan t umax sz u)
    (j i : Nat) (hi : i + j + 1 ≤ B) : 0 ≤ cdbF t umax i j u := by
  rw [cdbF_eq_cdbSpan t umax B hm hmax sz u hs h j i hi]
  exact cdbSpan_nonneg t B hm sz u h.le_left h.le_right j i hi hs

/-- local support in terms of the parameter: zero left of `t i` -/
theorem cdbF_eq_zero_of_lt (sz : Nat) (u : Rat) (hs : sz + 1 ≤ B) (h : InSpan t umax sz u)
    (j i : Nat) (hi : i + j + 1 ≤ B) (hu : u < t i) : cdbF t umax i j u = 0 := by
  rw [cdbF_eq_cdbSpan t umax B hm hmax sz u hs h j i hi]
  apply cdbSpan_eq_zero_of_gt
  by_contra c
  have : t i ≤ t sz := hm _ _ (by omega) (by omega)
  have := h.le_left
  linarith

/-- local support in terms of the parameter: zero right of `t (i+j+1)` -/
theorem cdbF_eq_zero_of_gt (sz : Nat) (u : Rat) (hs : sz + 1 ≤ B) (h : InSpan t umax sz u)
    (j i : Nat) (hi : i + j + 1 ≤ B) (hu : t (i + j + 1) < u) : cdbF t umax i j u = 0 := by
  rw [cdbF_eq_cdbSpan t umax B hm hmax sz u hs h j i hi]
  apply cdbSpan_eq_zero_of_lt
  by_contra c
  have : t (sz + 1) ≤ t (i + j + 1) := hm _ _ (by omega) hi
  have := h.le_right
  linarith

/-- partition of unity of the degree-`j` functions `N_{0,j} … N_{n-1,j}` whenever `sz < n` and `j ≤ sz` -/
theorem cdbF_sum_one (sz : Nat) (u : Rat) (h : InSpan t umax sz u) (j n : Nat)
    (hj : j ≤ sz) (hn : sz < n) (hB : n + j ≤ B) :
    ∑ i ∈ range n, cdbF t umax i j u = 1 := by
  have hs : sz + 1 ≤ B := by omega
  have e : ∀ i ∈ range n, cdbF t umax i j u = cdbSpan t sz i j u := by
    intro i hi
    simp only [mem_range] at hi
    exact cdbF_eq_cdbSpan t umax B hm hmax sz u hs h j i (by omega)
  rw [sum_congr rfl e]
  have hsplit : n = (sz + 1) + (n - (sz + 1)) := by omega
  rw [hsplit, sum_range_add]
  have z : ∑ x ∈ range (n - (sz + 1)), cdbSpan t sz (sz + 1 + x) j u = 0 := by
    apply sum_eq_zero
    intro x _
    exact cdbSpan_eq_zero_of_gt t sz u j _ (by omega)
  rw [z, add_zero]
  exact cdbSpan_sum_one t B hm sz u h.lt j hj (by omega)

end OnDefinition

end NV
