/-
Proofs/Window.lean — the restriction of a spline to a window of its knot vector (the mathematical core of `split`):
if the knot list `Vp` of a piece is the window `V[lo .. lo + |Vp|)` of a bigger knot list `V`, then the piece with the
control values `Q[lo .. lo + n')` takes, on every half-open span of the piece, the value of the big spline with control
values `Q`.
-/
import NurbsVerif.Props.C07
import NurbsVerif.Props.C06Bezier
import NurbsVerif.Proofs.InsertStep

namespace NV
open Finset

theorem getD_take_drop (Q : List Rat) (lo n r : Nat) (hr : r < n) :
    ((Q.drop lo).take n).getD r 0 = Q.getD (r + lo) 0 := by
  simp only [List.getD_eq_getElem?_getD, List.getElem?_take, hr, if_true, List.getElem?_drop]
  rw [Nat.add_comm]

/-- **window theorem.** -/
theorem window_eval (V Vp : List Rat) (umaxV b : Rat) (N n' p lo : Nat) (Q : List Rat) (u : Rat) (sz' : Nat)
    (hmV : MonoUpTo (nth V) (V.length - 1)) (hmaxV : ∀ a, a ≤ V.length - 1 → nth V a ≤ umaxV)
    (hlenV : N + p + 1 = V.length)
    (hmP : MonoUpTo (nth Vp) (Vp.length - 1)) (hmaxP : ∀ a, a ≤ Vp.length - 1 → nth Vp a ≤ b)
    (hlenP : n' + p + 1 = Vp.length)
    (hwin : ∀ r, r < Vp.length → nth Vp r = nth V (r + lo)) (hfit : lo + Vp.length ≤ V.length)
    (hQ : Q.length = N) (hp : p ≤ sz') (hsz : sz' < n') (hin : nth Vp sz' ≤ u ∧ u < nth Vp (sz' + 1)) :
    dot (cdbRow Vp b n' p u) ((Q.drop lo).take n') = dot (cdbRow V umaxV N p u) Q := by
  have hlQ : ((Q.drop lo).take n').length = n' := by
    rw [List.length_take, List.length_drop, hQ]; omega
  have hinV : InSpan (nth V) umaxV (sz' + lo) u := by
    left
    rw [← hwin sz' (by omega)]
    have e : sz' + lo + 1 = (sz' + 1) + lo := by omega
    rw [e, ← hwin (sz' + 1) (by omega)]
    exact hin
  rw [dot_cdbRow_eq_spanSum Vp b n' p sz' u _ hmP hmaxP hlenP hsz (Or.inl hin) hlQ,
    dot_cdbRow_eq_spanSum V umaxV N p (sz' + lo) u Q hmV hmaxV hlenV (by omega) hinV hQ]
  rw [spanSum_congr (nth Vp) sz' p u _ (fun r => Q.getD (r + lo) 0)
    (fun i _ hi => getD_take_drop Q lo n' i (by omega))]
  rw [spanSum_congr_knots (nth Vp) (fun k => nth V (k + lo)) sz' p u _ (fun m hm => hwin m (by omega))]
  exact C07_window (nth V) lo p sz' hp (fun i => Q.getD i 0) u

end NV
