/-
Proofs/KV.lean — theory tier T0 for knot vectors: what `isValid` (the model of
`ImmutableKnotVector.__is_valid`) guarantees, the span search, multiplicities.
-/
import NurbsVerif.Model.KV
import NurbsVerif.Proofs.Eval
import Mathlib.Tactic.SplitIfs

namespace NV

/-- distinct knot values differ by at least the merge tolerance 1e-6 (the guaranteed domain) -/
def Separated (v : List Rat) : Prop := ∀ a ∈ v, ∀ b ∈ v, a ≠ b → tol6 ≤ rabs (a - b)

/-- the well-formedness predicate of property C03 for a knot list and its degree -/
structure WF (v : List Rat) (d : Nat) : Prop where
  sorted : sortedLE v = true
  first : cnt v (v.headD 0) = d + 1
  last : cnt v (v.getLastD 0) = d + 1
  npts_gt : 2 * d + 1 < v.length            -- npts = length − d − 1 > d
  mult_le : ∀ x ∈ v, cnt v x ≤ d + 1

/-! ### what `isValid` checks -/

theorem isValid_core (v : List Rat) (h : isValid v none = true) :
    sortedLE v = true ∧ cnt v (v.headD 0) = (cnt v (v.headD 0) - 1) + 1
      ∧ cnt v (v.getLastD 0) = (cnt v (v.headD 0) - 1) + 1
      ∧ 2 * (cnt v (v.headD 0) - 1) + 1 < v.length := by
  unfold isValid at h
  simp only [] at h
  split at h
  · simp at h
  · split at h
    · simp at h
    · rename_i hs
      split at h
      · simp at h
      · rename_i hl
        split at h
        · simp at h
        · split at h
          · simp at h
          · rename_i hf
            split at h
            · simp at h
            · rename_i hla
              simp only [Bool.not_eq_true, Bool.not_eq_false'] at hs
              simp only [Bool.not_eq_true', decide_eq_false_iff_not, not_not] at hl
              simp only [bne_iff_ne, ne_eq, not_not] at hf hla
              exact ⟨by simpa using hs, hf, hla, hl⟩

/-- membership in the tolerance-merged list: every input value is kept or is within 1e-6 of a kept one -/
theorem getUniqueAux_covers (xs acc : List Rat) :
    (∀ a ∈ acc, a ∈ getUniqueAux acc xs) ∧
    (∀ x ∈ xs, ∃ k ∈ getUniqueAux acc xs, x = k ∨ rabs (x - k) < tol6) := by
  induction xs generalizing acc with
  | nil => simp [getUniqueAux]
  | cons y ys ih =>
    simp only [getUniqueAux]
    split
    · rename_i hany
      obtain ⟨h1, h2⟩ := ih acc
      refine ⟨h1, ?_⟩
      intro x hx
      rcases List.mem_cons.mp hx with rfl | hx
      · simp only [List.any_eq_true, decide_eq_true_eq] at hany
        obtain ⟨k, hk, hlt⟩ := hany
        exact ⟨k, h1 k hk, Or.inr hlt⟩
      · exact h2 x hx
    · obtain ⟨h1, h2⟩ := ih (acc ++ [y])
      refine ⟨fun a ha => h1 a (List.mem_append_left _ ha), ?_⟩
      intro x hx
      rcases List.mem_cons.mp hx with rfl | hx
      · exact ⟨x, h1 x (by simp), Or.inl rfl⟩
      · exact h2 x hx

theorem getUniqueAux_subset (xs acc : List Rat) :
    ∀ k ∈ getUniqueAux acc xs, k ∈ acc ∨ k ∈ xs := by
  induction xs generalizing acc with
  | nil => intro k hk; exact Or.inl (by simpa [getUniqueAux] using hk)
  | cons y ys ih =>
    intro k hk
    simp only [getUniqueAux] at hk
    split at hk
    · rcases ih acc k hk with h | h
      · exact Or.inl h
      · exact Or.inr (List.mem_cons_of_mem _ h)
    · rcases ih (acc ++ [y]) k hk with h | h
      · rcases List.mem_append.mp h with h | h
        · exact Or.inl h
        · simp at h; subst h; exact Or.inr (by simp)
      · exact Or.inr (List.mem_cons_of_mem _ h)

theorem mem_insSorted (x y : Rat) (l : List Rat) : y ∈ insSorted x l ↔ y = x ∨ y ∈ l := by
  induction l with
  | nil => simp [insSorted]
  | cons a l ih =>
    simp only [insSorted]
    split
    · simp
    · simp only [List.mem_cons, ih]; tauto

theorem mem_isort (y : Rat) (l : List Rat) : y ∈ isort l ↔ y ∈ l := by
  induction l with
  | nil => simp [isort]
  | cons a l ih => simp only [isort, mem_insSorted, ih, List.mem_cons]

/-- under `Separated`, every value of the input list is a member of `getUnique` -/
theorem mem_getUnique_of_separated (xs full : List Rat) (hsub : ∀ x ∈ xs, x ∈ full) (hsep : Separated full)
    (x : Rat) (hx : x ∈ xs) : x ∈ getUnique xs := by
  unfold getUnique
  rw [mem_isort]
  obtain ⟨_, h2⟩ := getUniqueAux_covers xs []
  obtain ⟨k, hk, hxk⟩ := h2 x hx
  rcases hxk with rfl | hlt
  · exact hk
  · have hkx : k ∈ xs := by
      rcases getUniqueAux_subset xs [] k hk with h | h
      · simp at h
      · exact h
    by_cases e : x = k
    · subst e; exact hk
    · have := hsep x (hsub x hx) k (hsub k hkx) e
      exact absurd hlt (not_lt.mpr this)

/-! ### counting in sorted lists -/

theorem cnt_append (l1 l2 : List Rat) (x : Rat) : cnt (l1 ++ l2) x = cnt l1 x + cnt l2 x := by
  simp [cnt, List.filter_append]

theorem cnt_le_length (l : List Rat) (x : Rat) : cnt l x ≤ l.length := by
  simp only [cnt]; exact List.length_filter_le _ _

theorem cnt_eq_zero_of_forall_ne (l : List Rat) (x : Rat) (h : ∀ y ∈ l, y ≠ x) : cnt l x = 0 := by
  simp only [cnt, List.length_eq_zero_iff, List.filter_eq_nil_iff, beq_iff_eq]
  intro y hy; exact h y hy

theorem nth_eq_getElem (v : List Rat) (i : Nat) (h : i < v.length) : nth v i = v[i] := by
  simp [nth, List.getD_eq_getElem?_getD, h]

theorem headD_eq_nth (v : List Rat) : v.headD 0 = nth v 0 := by
  cases v <;> simp [nth]

theorem getLastD_eq_nth (v : List Rat) (h : 0 < v.length) : v.getLastD 0 = nth v (v.length - 1) := by
  rw [nth_eq_getElem v _ (by omega)]
  cases v with
  | nil => simp at h
  | cons a l => simp [List.getLastD_eq_getLast?, List.getLast?_eq_getElem?]

/-- in a sorted list the copies of the first value form a prefix -/
theorem prefix_eq_head (v : List Rat) (hs : sortedLE v = true) (m i : Nat)
    (hm : cnt v (nth v 0) = m) (hi : i < m) : nth v i = nth v 0 := by
  have hlen : i < v.length := by
    have := cnt_le_length v (nth v 0); omega
  by_contra hne
  have mono := sortedLE_mono v hs
  have hlt : nth v 0 < nth v i := lt_of_le_of_ne (mono 0 i (by omega) hlen) (Ne.symm hne)
  have hz : cnt (v.drop i) (nth v 0) = 0 := by
    apply cnt_eq_zero_of_forall_ne
    intro y hy
    obtain ⟨j, hj, rfl⟩ := List.mem_iff_getElem.mp hy
    simp only [List.length_drop] at hj
    rw [List.getElem_drop]
    have := mono i (i + j) (by omega) (by omega)
    rw [nth_eq_getElem v (i + j) (by omega)] at this
    intro e
    rw [e] at this
    linarith
  have := cnt_append (v.take i) (v.drop i) (nth v 0)
  rw [List.take_append_drop, hz, hm] at this
  have := cnt_le_length (v.take i) (nth v 0)
  simp only [List.length_take] at this
  omega

/-- in a sorted list the copies of the last value form a suffix -/
theorem suffix_eq_last (v : List Rat) (hs : sortedLE v = true) (m i : Nat)
    (hm : cnt v (nth v (v.length - 1)) = m) (hi : v.length - m ≤ i) (hlen : i < v.length) :
    nth v i = nth v (v.length - 1) := by
  by_contra hne
  have mono := sortedLE_mono v hs
  have hlt : nth v i < nth v (v.length - 1) :=
    lt_of_le_of_ne (mono i (v.length - 1) (by omega) (by omega)) hne
  have hz : cnt (v.take (i + 1)) (nth v (v.length - 1)) = 0 := by
    apply cnt_eq_zero_of_forall_ne
    intro y hy
    obtain ⟨j, hj, rfl⟩ := List.mem_iff_getElem.mp hy
    simp only [List.length_take] at hj
    rw [List.getElem_take]
    have := mono j i (by omega) hlen
    rw [nth_eq_getElem v j (by omega)] at this
    intro e
    rw [e] at this
    linarith
  have := cnt_append (v.take (i + 1)) (v.drop (i + 1)) (nth v (v.length - 1))
  rw [List.take_append_drop, hz, hm] at this
  have := cnt_le_length (v.drop (i + 1)) (nth v (v.length - 1))
  simp only [List.length_drop] at this
  omega

/-- **`isValid` ⇒ well-formed** (for every list; before the repair of the multiplicity check this needed separated knot
values): sorted, first and last value exactly `degree+1` times, `npts > degree`, every multiplicity at most `degree+1` -/
theorem isValid_WF_exact (v : List Rat) (h : isValid v none = true) :
    WF v (cnt v (v.headD 0) - 1) := by
  obtain ⟨hs, hf, hl, hn⟩ := isValid_core v h
  set d := cnt v (v.headD 0) - 1 with hd
  refine ⟨hs, hf, hl, hn, ?_⟩
  intro x hx
  have hpos : 0 < v.length := by omega
  -- the checked bound on the representatives
  have hbound : ∀ k ∈ (v.drop d).take (v.length - d - 1 + 1 - d), cnt v k ≤ d + 1 := by
    intro k hk
    unfold isValid at h
    simp only [] at h
    split at h
    · simp at h
    · split at h
      · simp at h
      · split at h
        · simp at h
        · split at h
          · simp at h
          · rename_i hany
            simp only [List.any_eq_true, decide_eq_true_eq, not_exists, not_and, not_lt] at hany
            exact hany k hk
  by_cases e1 : x = nth v 0
  · rw [e1, ← headD_eq_nth]; omega
  by_cases e2 : x = nth v (v.length - 1)
  · rw [e2, ← getLastD_eq_nth v hpos]; omega
  -- x is neither end value: it sits in the slice v[d : npts+1]
  apply hbound
  obtain ⟨i, hi, rfl⟩ := List.mem_iff_getElem.mp hx
  have hid : d ≤ i := by
    by_contra c
    have := prefix_eq_head v hs (d + 1) i (by rw [← headD_eq_nth]; exact hf) (by omega)
    rw [nth_eq_getElem v i hi] at this
    exact e1 this
  have hiu : i ≤ v.length - d - 1 := by
    by_contra c
    have := suffix_eq_last v hs (d + 1) i (by rw [← getLastD_eq_nth v hpos]; exact hl) (by omega) hi
    rw [nth_eq_getElem v i hi] at this
    exact e2 this
  rw [List.mem_iff_getElem]
  refine ⟨i - d, by simp; omega, ?_⟩
  simp only [List.getElem_take, List.getElem_drop]
  congr 1
  omega

theorem isValid_WF (v : List Rat) (_hsep : Separated v) (h : isValid v none = true) :
    WF v (cnt v (v.headD 0) - 1) := isValid_WF_exact v h

theorem mem_getUnique_subset (xs : List Rat) (k : Rat) (hk : k ∈ getUnique xs) : k ∈ xs := by
  unfold getUnique at hk
  rw [mem_isort] at hk
  rcases getUniqueAux_subset xs [] k hk with h | h
  · simp at h
  · exact h

/-- **well-formed ⇒ `isValid`** (no separation hypothesis needed in this direction) -/
theorem WF_isValid (v : List Rat) (d : Nat) (hd : d = cnt v (v.headD 0) - 1) (h : WF v d) :
    isValid v none = true := by
  obtain ⟨hs, hf, hl, hn, hm⟩ := h
  unfold isValid
  simp only []
  rw [← hd]
  have h1 : ¬ v.length < 2 := by omega
  have h2 : (!sortedLE v) = false := by simp [hs]
  have h3 : (!decide (2 * d + 1 < v.length)) = false := by simp [hn]
  have h4 : (List.take (v.length - d - 1 + 1 - d) (List.drop d v)).any
      (fun k => decide (cnt v k > d + 1)) = false := by
    rw [List.any_eq_false]
    intro k hk
    have : k ∈ v := List.mem_of_mem_drop (List.mem_of_mem_take hk)
    have := hm k this
    simp only [decide_eq_true_eq, not_lt, ge_iff_le]
    omega
  have hf' : cnt v (v.head?.getD 0) = d + 1 := by simpa using hf
  have hl' : cnt v (v.getLast?.getD 0) = d + 1 := by simpa using hl
  simp [h1, h2, h3, h4, hf', hl']

/-- `KV.mk?` succeeds exactly on valid lists and stores the list unchanged with the derived degree -/
theorem mk?_ok (v : List Rat) (k : KV) (h : KV.mk? v none = .ok k) :
    isValid v none = true ∧ k.v = v ∧ k.deg = cnt v (v.headD 0) - 1 := by
  unfold KV.mk? at h
  split at h
  · rename_i hv
    simp only [Except.ok.injEq] at h
    subst h
    exact ⟨hv, rfl, rfl⟩
  · simp at h

theorem mk?_error (v : List Rat) (e : Err) (h : KV.mk? v none = .error e) : e = .value := by
  unfold KV.mk? at h
  split at h
  · simp at h
  · simp only [Except.error.injEq] at h; exact h.symm

/-! ### span search -/

theorem spanSearch_spec (U : List Rat) (node : Rat) :
    ∀ fuel low high mid s, KV.spanSearch U node fuel low high mid = some s →
      nth U s ≤ node ∧ node < nth U (s + 1) := by
  intro fuel
  induction fuel with
  | zero => intro low high mid s h; simp [KV.spanSearch] at h
  | succ f ih =>
    intro low high mid s h
    simp only [KV.spanSearch] at h
    split_ifs at h
    all_goals first
      | (simp only [Option.some.injEq] at h; subst h; assumption)
      | exact ih _ _ _ s h

/-- whatever `span` returns satisfies the specification `U[k] ≤ u < U[k+1]` (or `k = npts−1` at `umax`) -/
theorem span_spec (k : KV) (u : Rat) (s : Nat) (h : k.span u = .ok s) :
    (nth k.v s ≤ u ∧ u < nth k.v (s + 1)) ∨ (u = k.umax ∧ s = k.npts - 1) := by
  unfold KV.span at h
  split at h
  · simp at h
  · split at h
    · rename_i s' hs'
      simp only [Except.ok.injEq] at h
      subst h
      unfold KV.spanSingle at hs'
      split at hs'
      · rename_i hu
        simp only [Option.some.injEq] at hs'
        exact Or.inr ⟨by simpa using hu, hs'.symm⟩
      · exact Or.inl (spanSearch_spec _ _ _ _ _ _ _ hs')
    · simp at h

/-- nodes outside `[umin, umax]` make `span` and `mult` raise ValueError -/
theorem span_outside (k : KV) (u : Rat) (h : u < k.umin ∨ k.umax < u) : k.span u = .error .value := by
  have hv : k.validNode u = false := by
    simp only [KV.validNode, Bool.not_eq_false', Bool.or_eq_true, decide_eq_true_eq]; exact h
  simp [KV.span, hv]

theorem mult_outside (k : KV) (u : Rat) (h : u < k.umin ∨ k.umax < u) : k.mult u = .error .value := by
  have hv : k.validNode u = false := by
    simp only [KV.validNode, Bool.not_eq_false', Bool.or_eq_true, decide_eq_true_eq]; exact h
  simp [KV.mult, hv]

theorem tol9_pos : (0 : Rat) < tol9 := by unfold tol9; decide +kernel

theorem rabs_zero : rabs 0 = 0 := by simp [rabs]

/-- `mult(u)` is the number of occurrences whenever no *other* knot lies within 1e-9 of `u` -/
theorem mult_spec (k : KV) (u : Rat) (h : ∀ x ∈ k.v, x = u ∨ tol9 ≤ rabs (u - x)) :
    k.multSingle u = cnt k.v u := by
  unfold KV.multSingle cnt
  congr 1
  apply List.filter_congr
  intro x hx
  rcases h x hx with rfl | hge
  · have : rabs (0 : Rat) < tol9 := by rw [rabs_zero]; exact tol9_pos
    simp [this]
  · have hne : ¬ rabs (u - x) < tol9 := not_lt.mpr hge
    have hxu : ¬ x = u := by
      intro e; subst e
      apply hne
      rw [sub_self, rabs_zero]; exact tol9_pos
    simp [hne, hxu]

/-- the invariant carried by every reachable state: the list passes validation and the cached degree
is the one validation derives -/
def KVInv (k : KV) : Prop := isValid k.v none = true ∧ k.deg = cnt k.v (k.v.headD 0) - 1

theorem inv_of_mk (v : List Rat) (k : KV) (h : KV.mk? v none = .ok k) : KVInv k := by
  obtain ⟨h1, h2, h3⟩ := mk?_ok v k h
  exact ⟨by rw [h2]; exact h1, by rw [h2]; exact h3⟩

theorem insSorted_nodup (a : Rat) (l : List Rat) (h : (a :: l).Nodup) : (insSorted a l).Nodup := by
  induction l with
  | nil => simpa [insSorted] using h
  | cons b l ih =>
    simp only [insSorted]
    split
    · exact h
    · have h' := List.nodup_cons.mp h
      have hb := List.nodup_cons.mp h'.2
      rw [List.nodup_cons]
      constructor
      · rw [mem_insSorted]
        rintro (e | e)
        · exact h'.1 (by simp [e])
        · exact hb.1 e
      · apply ih
        rw [List.nodup_cons]
        exact ⟨fun e => h'.1 (List.mem_cons_of_mem _ e), hb.2⟩

theorem isort_nodup (l : List Rat) (h : l.Nodup) : (isort l).Nodup := by
  induction l with
  | nil => simp [isort]
  | cons a l ih =>
    have h' := List.nodup_cons.mp h
    simp only [isort]
    apply insSorted_nodup
    rw [List.nodup_cons]
    exact ⟨fun e => h'.1 ((mem_isort a l).mp e), ih h'.2⟩

theorem tol6_pos : (0 : Rat) < tol6 := by unfold tol6; decide +kernel

theorem getUniqueAux_nodup (xs acc : List Rat) (h : acc.Nodup) : (getUniqueAux acc xs).Nodup := by
  induction xs generalizing acc with
  | nil => simpa [getUniqueAux] using h
  | cons y ys ih =>
    simp only [getUniqueAux]
    split
    · exact ih acc h
    · rename_i hany
      apply ih
      rw [List.nodup_append]
      refine ⟨h, by simp, ?_⟩
      intro a ha b hb
      simp only [List.mem_singleton] at hb
      subst hb
      intro e
      subst e
      apply hany
      simp only [List.any_eq_true, decide_eq_true_eq]
      exact ⟨a, ha, by rw [sub_self, rabs_zero]; exact tol6_pos⟩

/-- the merged knot list of a union never repeats a value -/
theorem getUnique_nodup (xs : List Rat) : (getUnique xs).Nodup :=
  isort_nodup _ (getUniqueAux_nodup xs [] List.nodup_nil)

theorem cnt_insSorted (a : Rat) (l : List Rat) (x : Rat) : cnt (insSorted a l) x = cnt (a :: l) x := by
  induction l with
  | nil => rfl
  | cons b l ih =>
    simp only [insSorted]
    split
    · rfl
    · simp only [cnt, List.filter_cons] at *
      by_cases hb : (b == x) = true <;> by_cases ha : (a == x) = true <;> simp [hb, ha] at * <;> omega

/-- sorting does not change any multiplicity -/
theorem cnt_isort (l : List Rat) (x : Rat) : cnt (isort l) x = cnt l x := by
  induction l with
  | nil => rfl
  | cons a l ih =>
    simp only [isort, cnt_insSorted]
    simp only [cnt, List.filter_cons] at *
    by_cases ha : (a == x) = true <;> simp [ha, ih]


end NV
