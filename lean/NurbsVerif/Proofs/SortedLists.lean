/-
Proofs/SortedLists.lean — sorted lists as blocks: a sorted list is the concatenation of its elements below `a`, the
copies of `a`, the elements strictly between `a` and `b`, the copies of `b` and the elements above `b`.  This is what
makes a clamped piece of `split` a window of the refined knot vector.
-/
import NurbsVerif.Proofs.Refine

namespace NV

theorem sortedLE_of_pairwise : ∀ (l : List Rat), l.Pairwise (· ≤ ·) → sortedLE l = true
  | [], _ => rfl
  | [_], _ => rfl
  | a :: b :: t, h => by
    rw [List.pairwise_cons] at h
    simp only [sortedLE, Bool.and_eq_true, decide_eq_true_eq]
    exact ⟨h.1 b (by simp), sortedLE_of_pairwise (b :: t) h.2⟩

theorem sortedLE_iff_pairwise (l : List Rat) : sortedLE l = true ↔ l.Pairwise (· ≤ ·) :=
  ⟨pairwise_of_sortedLE l, sortedLE_of_pairwise l⟩

theorem sortedLE_append (l1 l2 : List Rat) (h1 : sortedLE l1 = true) (h2 : sortedLE l2 = true)
    (h : ∀ x ∈ l1, ∀ y ∈ l2, x ≤ y) : sortedLE (l1 ++ l2) = true := by
  rw [sortedLE_iff_pairwise] at *
  rw [List.pairwise_append]
  exact ⟨h1, h2, h⟩

theorem sortedLE_filter (l : List Rat) (q : Rat → Bool) (h : sortedLE l = true) : sortedLE (l.filter q) = true := by
  rw [sortedLE_iff_pairwise] at *
  exact h.sublist List.filter_sublist

theorem sortedLE_replicate' (n : Nat) (a : Rat) : sortedLE (List.replicate n a) = true := by
  rw [sortedLE_iff_pairwise, List.pairwise_replicate]
  right; exact le_refl a

theorem cnt_filter (l : List Rat) (q : Rat → Bool) (x : Rat) :
    cnt (l.filter q) x = if q x = true then cnt l x else 0 := by
  induction l with
  | nil => simp [cnt]
  | cons y t ih =>
    unfold cnt at ih ⊢
    by_cases hq : q y = true
    · rw [List.filter_cons_of_pos hq]
      by_cases hy : y = x
      · subst hy
        simp only [List.filter_cons, beq_self_eq_true, if_true, List.length_cons, hq] at ih ⊢
        omega
      · have : (y == x) = false := by simpa using hy
        simp only [List.filter_cons, this, Bool.false_eq_true, if_false]
        exact ih
    · rw [List.filter_cons_of_neg hq]
      by_cases hy : y = x
      · subst hy
        simp only [hq, if_false] at ih ⊢
        exact ih
      · have : (y == x) = false := by simpa using hy
        simp only [List.filter_cons, this, Bool.false_eq_true, if_false]
        exact ih

theorem cnt_replicate (n : Nat) (a x : Rat) : cnt (List.replicate n a) x = if a = x then n else 0 := by
  rw [cnt_eq_count, List.count_replicate]
  by_cases h : a = x <;> simp [h]

/-- **block decomposition of a sorted list** -/
theorem sorted_decomp (V : List Rat) (a b : Rat) (hs : sortedLE V = true) (hab : a < b) :
    V = V.filter (fun x => decide (x < a)) ++ (List.replicate (cnt V a) a
          ++ V.filter (fun x => decide (a < x) && decide (x < b)) ++ List.replicate (cnt V b) b
          ++ V.filter (fun x => decide (b < x))) := by
  apply sorted_eq_of_cnt _ _ hs
  · apply sortedLE_append _ _ (sortedLE_filter _ _ hs)
    · apply sortedLE_append
      · apply sortedLE_append
        · apply sortedLE_append _ _ (sortedLE_replicate' _ _) (sortedLE_filter _ _ hs)
          intro x hx y hy
          rw [List.eq_of_mem_replicate hx]
          simp only [List.mem_filter, Bool.and_eq_true, decide_eq_true_eq] at hy
          exact le_of_lt hy.2.1
        · exact sortedLE_replicate' _ _
        · intro x hx y hy
          rw [List.eq_of_mem_replicate hy]
          rw [List.mem_append] at hx
          rcases hx with hx | hx
          · rw [List.eq_of_mem_replicate hx]; exact le_of_lt hab
          · simp only [List.mem_filter, Bool.and_eq_true, decide_eq_true_eq] at hx
            exact le_of_lt hx.2.2
      · exact sortedLE_filter _ _ hs
      · intro x hx y hy
        simp only [List.mem_filter, decide_eq_true_eq] at hy
        rw [List.mem_append, List.mem_append] at hx
        rcases hx with (hx | hx) | hx
        · rw [List.eq_of_mem_replicate hx]; linarith
        · simp only [List.mem_filter, Bool.and_eq_true, decide_eq_true_eq] at hx
          linarith
        · rw [List.eq_of_mem_replicate hx]; exact le_of_lt hy.2
    · intro x hx y hy
      simp only [List.mem_filter, decide_eq_true_eq] at hx
      rw [List.mem_append, List.mem_append, List.mem_append] at hy
      rcases hy with ((hy | hy) | hy) | hy
      · rw [List.eq_of_mem_replicate hy]; exact le_of_lt hx.2
      · simp only [List.mem_filter, Bool.and_eq_true, decide_eq_true_eq] at hy
        linarith
      · rw [List.eq_of_mem_replicate hy]; linarith
      · simp only [List.mem_filter, decide_eq_true_eq] at hy
        linarith
  · intro x
    simp only [cnt_append, cnt_filter, cnt_replicate, Bool.and_eq_true, decide_eq_true_eq]
    rcases lt_trichotomy x a with h | h | h
    · have h1 : ¬ a = x := ne_of_gt h
      have h2 : ¬ (a < x ∧ x < b) := fun c => by linarith
      have h3 : ¬ b = x := by intro c; linarith
      have h4 : ¬ b < x := by linarith
      simp [h, h1, h2, h3, h4]
    · subst h
      have h1 : ¬ x < x := lt_irrefl x
      have h3 : ¬ b = x := ne_of_gt hab
      have h4 : ¬ b < x := by linarith
      simp [h1, h3, h4]
    · rcases lt_trichotomy x b with g | g | g
      · have h0 : ¬ x < a := by linarith
        have h1 : ¬ a = x := ne_of_lt h
        have h3 : ¬ b = x := ne_of_gt g
        have h4 : ¬ b < x := by linarith
        simp [h0, h1, h, g, h3, h4]
      · subst g
        have h0 : ¬ x < a := by linarith
        have h1 : ¬ a = x := ne_of_lt h
        have h4 : ¬ x < x := lt_irrefl x
        simp [h0, h1, h4]
      · have h0 : ¬ x < a := by linarith
        have h1 : ¬ a = x := ne_of_lt h
        have h2 : ¬ (a < x ∧ x < b) := fun c => by linarith
        have h3 : ¬ b = x := ne_of_lt g
        simp [h0, h1, h2, h3, g]

theorem nth_window (L Vp R : List Rat) (r : Nat) (hr : r < Vp.length) :
    nth Vp r = nth (L ++ (Vp ++ R)) (r + L.length) := by
  unfold nth
  rw [List.getD_eq_getElem?_getD, List.getD_eq_getElem?_getD,
    List.getElem?_append_right (by omega), List.getElem?_append_left (by omega)]
  congr 2
  omega

/-- the clamped piece `a^ca ++ middle ++ b^cb` is a window of the sorted list -/
theorem window_of_sorted (V : List Rat) (a b : Rat) (hs : sortedLE V = true) (hab : a < b) (Vp : List Rat)
    (hVp : Vp = List.replicate (cnt V a) a ++ V.filter (fun x => decide (a < x) && decide (x < b))
      ++ List.replicate (cnt V b) b) :
    (∀ r, r < Vp.length → nth Vp r = nth V (r + (V.filter (fun x => decide (x < a))).length))
      ∧ (V.filter (fun x => decide (x < a))).length + Vp.length ≤ V.length := by
  have hd : V = V.filter (fun x => decide (x < a)) ++ (Vp ++ V.filter (fun x => decide (b < x))) := by
    rw [hVp]; exact sorted_decomp V a b hs hab
  constructor
  · intro r hr
    have e := nth_window (V.filter (fun x => decide (x < a))) Vp (V.filter (fun x => decide (b < x))) r hr
    rw [← hd] at e
    exact e
  · have := congrArg List.length hd
    simp only [List.length_append] at this
    omega

end NV
