/-
Proofs/Table.lean — theory tier T2: the per-span coefficient tables built by
`BasisFunction.speval_matrix` (model: `tableSpan`) evaluate, by Horner's rule in the local
coordinate, to the Cox–de Boor functions of that span.
-/
import NurbsVerif.Model.Basis
import NurbsVerif.Proofs.CdB
import NurbsVerif.Proofs.Poly

namespace NV

theorem tableSpan_length (U : List Rat) (kz kz1 : Rat) (sz : Nat) :
    ∀ j, (tableSpan U kz kz1 sz j).length = j + 1 := by
  intro j
  cases j with
  | zero => simp [tableSpan]
  | succ j => simp [tableSpan]

theorem getD_mapIdx_poly (l : List Poly) (f : Nat → Poly → Poly) (y : Nat) (h : y < l.length) :
    (l.mapIdx f).getD y [] = f y (l.getD y []) := by
  simp [List.getD_eq_getElem?_getD, List.getElem?_mapIdx, List.getElem?_eq_getElem h]

theorem getD_map_range (f : Nat → Poly) (n y : Nat) (h : y < n) :
    ((List.range n).map f).getD y [] = f y := by
  simp [List.getD_eq_getElem?_getD, h]

/-- **table = Cox–de Boor on the span.**  For every span index `sz` (no ordering hypothesis is needed: the identity is
purely algebraic, Lean's `x / 0 = 0` matching the 0/0 := 0 convention on both sides), every entry `y ≤ j ≤ sz` of the level-`j` table evaluates at the local
coordinate `s` to `N_{y+sz−j, j}` at `u = t sz + s·(t (sz+1) − t sz)`. -/
theorem tableSpan_eq_cdbSpan (U : List Rat) (sz : Nat) (s : Rat) :
    ∀ j, j ≤ sz → ∀ y, y ≤ j →
      horner ((tableSpan U (nth U sz) (nth U (sz + 1)) sz j).getD y []) s
        = cdbSpan (nth U) sz (y + sz - j) j (nth U sz + s * (nth U (sz + 1) - nth U sz)) := by
  intro j
  induction j with
  | zero =>
    intro _ y hy
    have : y = 0 := by omega
    subst this
    simp [tableSpan, cdbSpan]
  | succ j ih =>
    intro hj y hy
    set t := nth U with ht
    set u := t sz + s * (t (sz + 1) - t sz) with hu
    have ihj := ih (by omega)
    have hlen := tableSpan_length U (t sz) (t (sz + 1)) sz j
    -- value of the scaled previous entry
    have hq : ∀ y0, y0 ≤ j →
        horner (((tableSpan U (t sz) (t (sz + 1)) sz j).mapIdx fun y p =>
            p.map (· / (t (y + sz - j + j + 1) - t (y + sz - j)))).getD y0 []) s
          = cdbSpan t sz (y0 + sz - j) j u / (t (y0 + sz - j + j + 1) - t (y0 + sz - j)) := by
      intro y0 hy0
      rw [getD_mapIdx_poly _ _ _ (by omega), horner_map_div, ihj y0 hy0]
    unfold tableSpan
    simp only []
    rw [getD_map_range _ _ _ (by omega)]
    simp only [cdbSpan]
    rw [horner_padd]
    congr 1
    · -- first term
      by_cases h0 : y = 0
      · subst h0
        simp only [if_true, horner_nil]
        have z : cdbSpan t sz (0 + sz - (j + 1)) j u = 0 :=
          cdbSpan_eq_zero_of_lt t sz u j _ (by omega)
        rw [z]; ring
      · rw [if_neg h0, horner_pmulLin, hq (y - 1) (by omega)]
        have e1 : y - 1 + sz - j = y + sz - (j + 1) := by omega
        rw [e1]
        have e2 : y + sz - (j + 1) + j + 1 = y + sz - (j + 1) + j + 1 := rfl
        rw [hu]; ring
    · -- second term
      by_cases h1 : y = j + 1
      · subst h1
        simp only [if_true, horner_nil]
        have z : cdbSpan t sz (j + 1 + sz - (j + 1) + 1) j u = 0 :=
          cdbSpan_eq_zero_of_gt t sz u j _ (by omega)
        rw [z]; ring
      · rw [if_neg h1, horner_pmulLin, hq y (by omega)]
        have e1 : y + sz - j = y + sz - (j + 1) + 1 := by omega
        have e2 : y + sz - j + j + 1 = y + sz - (j + 1) + j + 2 := by omega
        rw [e1] at *
        have e3 : y + sz - (j + 1) + 1 + j + 1 = y + sz - (j + 1) + j + 2 := by omega
        rw [e3, hu]; ring

end NV
