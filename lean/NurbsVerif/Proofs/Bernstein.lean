/-
Proofs/Bernstein.lean — Bernstein polynomials: the Cox–de Boor functions of a Bézier knot vector
`[a,…,a,b,…,b]` are the Bernstein polynomials in the local coordinate, and the degree-elevation identity
`B_{k,p} = (1 − k/(p+1)) B_{k,p+1} + ((k+1)/(p+1)) B_{k+1,p+1}`.
-/
import NurbsVerif.Proofs.CdB
import Mathlib.Data.Nat.Choose.Basic
import Mathlib.Data.Nat.Choose.Cast
import Mathlib.Tactic.FieldSimp
import Mathlib.Tactic.Ring
import Mathlib.Tactic.Linarith

namespace NV
open Finset

/-- Bernstein polynomial `C(p,k) s^k (1−s)^{p−k}` (zero for `k > p`) -/
def bern (p k : Nat) (s : Rat) : Rat := (p.choose k : ℚ) * s ^ k * (1 - s) ^ (p - k)

theorem bern_zero_zero (s : Rat) : bern 0 0 s = 1 := by simp [bern]

theorem bern_gt (p k : Nat) (s : Rat) (h : p < k) : bern p k s = 0 := by
  simp [bern, Nat.choose_eq_zero_of_lt h]

theorem bern_succ_zero (p : Nat) (s : Rat) : bern (p + 1) 0 s = (1 - s) * bern p 0 s := by
  simp only [bern, Nat.choose_zero_right, Nat.cast_one, pow_zero, mul_one, one_mul, Nat.sub_zero]
  ring

/-- the de Casteljau / Pascal recursion -/
theorem bern_succ_succ (p k : Nat) (s : Rat) :
    bern (p + 1) (k + 1) s = s * bern p k s + (1 - s) * bern p (k + 1) s := by
  by_cases h : k + 1 ≤ p
  · have e1 : p + 1 - (k + 1) = p - k := by omega
    have e2 : p - k = (p - (k + 1)) + 1 := by omega
    simp only [bern, Nat.choose_succ_succ', Nat.cast_add, e1]
    rw [e2]
    ring
  · by_cases h2 : k = p
    · subst h2
      simp [bern, Nat.choose_eq_zero_of_lt]
      ring
    · rw [bern_gt (p + 1) (k + 1) s (by omega), bern_gt p k s (by omega), bern_gt p (k + 1) s (by omega)]
      ring

/-- degree elevation of one Bernstein polynomial -/
theorem bern_elevate (p k : Nat) (s : Rat) :
    bern p k s = (1 - (k : ℚ) / ((p : ℚ) + 1)) * bern (p + 1) k s
      + (((k : ℚ) + 1) / ((p : ℚ) + 1)) * bern (p + 1) (k + 1) s := by
  by_cases h : k ≤ p
  · have hp : ((p : ℚ) + 1) ≠ 0 := by positivity
    -- (p+1-k) C(p+1,k) = (p+1) C(p,k)   and   (k+1) C(p+1,k+1) = (p+1) C(p,k)
    have c1 : ((p : ℚ) + 1 - k) * ((p + 1).choose k : ℚ) = ((p : ℚ) + 1) * (p.choose k : ℚ) := by
      have := Nat.choose_mul_succ_eq p k
      have h' : ((p.choose k * (p + 1) : ℕ) : ℚ) = (((p + 1).choose k * (p + 1 - k) : ℕ) : ℚ) := by rw [this]
      rw [Nat.cast_mul, Nat.cast_mul, Nat.cast_sub (by omega)] at h'
      push_cast at h'
      linarith
    have c2 : ((k : ℚ) + 1) * ((p + 1).choose (k + 1) : ℚ) = ((p : ℚ) + 1) * (p.choose k : ℚ) := by
      have := Nat.add_one_mul_choose_eq p k
      have h' : (((p + 1) * p.choose k : ℕ) : ℚ) = (((p + 1).choose (k + 1) * (k + 1) : ℕ) : ℚ) := by
        rw [← this]
      push_cast at h'
      linarith
    have e1 : p + 1 - k = (p - k) + 1 := by omega
    have e2 : p + 1 - (k + 1) = p - k := by omega
    simp only [bern, e1, e2]
    have k1 : ((p + 1).choose k : ℚ) = ((p : ℚ) + 1) * (p.choose k : ℚ) / ((p : ℚ) + 1 - k) := by
      have hne : ((p : ℚ) + 1 - k) ≠ 0 := by
        have : (k : ℚ) ≤ p := by exact_mod_cast h
        intro hc; linarith
      field_simp
      linarith
    have k2 : ((p + 1).choose (k + 1) : ℚ) = ((p : ℚ) + 1) * (p.choose k : ℚ) / ((k : ℚ) + 1) := by
      have hne : ((k : ℚ) + 1) ≠ 0 := by positivity
      field_simp
      linarith
    rw [k1, k2]
    have hne1 : ((p : ℚ) + 1 - k) ≠ 0 := by
      have : (k : ℚ) ≤ p := by exact_mod_cast h
      intro hc; linarith
    have hne2 : ((k : ℚ) + 1) ≠ 0 := by positivity
    field_simp
    ring
  · rw [bern_gt p k s (by omega), bern_gt (p + 1) (k + 1) s (by omega)]
    by_cases h2 : k = p + 1
    · subst h2
      have hp : ((p : ℚ) + 1) ≠ 0 := by positivity
      push_cast
      field_simp
      ring
    · rw [bern_gt (p + 1) k s (by omega)]; ring

/-- the knot function of a Bézier vector of degree `p` on `[a, b]` -/
def bezKnots (p : Nat) (a b : Rat) (i : Nat) : Rat := if i ≤ p then a else b

/-- on the only span of a Bézier vector the Cox–de Boor functions are the Bernstein polynomials of the local
coordinate `s = (u − a)/(b − a)` -/
theorem cdbSpan_bezier (p : Nat) (a b u : Rat) (hab : a < b) :
    ∀ j, j ≤ p → ∀ m, m ≤ j →
      cdbSpan (bezKnots p a b) p (p - j + m) j u = bern j m ((u - a) / (b - a)) := by
  have hne : b - a ≠ 0 := ne_of_gt (sub_pos.mpr hab)
  have h1s : 1 - (u - a) / (b - a) = (b - u) / (b - a) := by field_simp; ring
  intro j
  induction j with
  | zero =>
    intro _ m hm
    have : m = 0 := by omega
    subst this
    simp [cdbSpan, bern]
  | succ j ih =>
    intro hj m hm
    have ihj := ih (by omega)
    simp only [cdbSpan]
    have ei : p - (j + 1) + m + j + 1 = p + m := by omega
    have ei2 : p - (j + 1) + m + j + 2 = p + m + 1 := by omega
    rw [ei, ei2]
    have ta : bezKnots p a b (p - (j + 1) + m) = a := by simp [bezKnots]; omega
    have tb : bezKnots p a b (p + m + 1) = b := by simp [bezKnots]
    rw [ta, tb]
    by_cases hm0 : m = 0
    · subst hm0
      have t1 : bezKnots p a b (p + 0) = a := by simp [bezKnots]
      have t2 : bezKnots p a b (p - (j + 1) + 0 + 1) = a := by simp [bezKnots]; omega
      have e3 : p - (j + 1) + 0 + 1 = p - j + 0 := by omega
      rw [t1, t2, sub_self, div_zero, zero_mul, zero_add, e3, ihj 0 (by omega), bern_succ_zero, h1s]
    · have t1 : bezKnots p a b (p + m) = b := by simp [bezKnots]; omega
      rw [t1]
      have e4 : p - (j + 1) + m = p - j + (m - 1) := by omega
      rw [e4, ihj (m - 1) (by omega)]
      by_cases hmj : m = j + 1
      · subst hmj
        have t2 : bezKnots p a b (p - j + (j + 1 - 1) + 1) = b := by simp [bezKnots]; omega
        rw [t2, sub_self, div_zero, zero_mul, add_zero]
        have : j + 1 - 1 = j := by omega
        rw [this, bern_succ_succ, bern_gt j (j + 1) _ (by omega)]
        ring
      · have t2 : bezKnots p a b (p - j + (m - 1) + 1) = a := by simp [bezKnots]; omega
        have e5 : p - j + (m - 1) + 1 = p - j + m := by omega
        rw [t2, e5, ihj m (by omega)]
        have hm1 : m = (m - 1) + 1 := by omega
        rw [hm1, bern_succ_succ, ← hm1, h1s]

end NV
