/-
Proofs/InsertStep.lean — one knot insertion of the model leaves every linear combination of basis
functions unchanged:  `Σ_i f_i N_{i,p}(u)` over `U` = `Σ_r (M f)_r N'_{r,p}(u)` over `sorted(U + [x])`, with `M` the
matrix of `one_knot_insert_once`, for every coefficient list `f` and every parameter `u` of the interval.
(The Boehm identity of `Proofs/Boehm.lean` + list-level glue.)
-/
import NurbsVerif.Proofs.InsertKnots
import NurbsVerif.Props.C04
import NurbsVerif.Proofs.Matrix

namespace NV
open Finset

theorem cdbRow_getD (U : List Rat) (umax : Rat) (n p : Nat) (u : Rat) (i : Nat) (hi : i < n) :
    (cdbRow U umax n p u).getD i 0 = cdb U umax i p u := by
  simp [cdbRow, List.getD_eq_getElem?_getD, hi]

/-- `Σ_i f_i N_{i,p}(u)` written as the span sum on the span of `u` -/
theorem dot_cdbRow_eq_spanSum (U : List Rat) (umax : Rat) (n p sz : Nat) (u : Rat) (f : List Rat)
    (hm : MonoUpTo (nth U) (U.length - 1)) (hmax : ∀ a, a ≤ U.length - 1 → nth U a ≤ umax)
    (hlen : n + p + 1 = U.length) (hsz : sz < n) (hin : InSpan (nth U) umax sz u) (hf : f.length = n) :
    dot (cdbRow U umax n p u) f = spanSum (nth U) sz p u (fun i => f.getD i 0) := by
  have hrow : (cdbRow U umax n p u).length = n := by simp [cdbRow]
  rw [dot_eq_sum _ _ n hrow hf]
  unfold spanSum
  have e : ∀ i ∈ range n, (cdbRow U umax n p u).getD i 0 * f.getD i 0
      = f.getD i 0 * cdbSpan (nth U) sz i p u := by
    intro i hi
    simp only [mem_range] at hi
    rw [cdbRow_getD U umax n p u i hi, cdb_eq_cdbF,
      cdbF_eq_cdbSpan (nth U) umax (U.length - 1) hm hmax sz u (by omega) hin p i (by omega)]
    ring
  rw [sum_congr rfl e]
  symm
  apply sum_subset
  · intro i hi; simp only [mem_range] at hi ⊢; omega
  · intro i _ hni
    simp only [mem_range] at hni
    rw [cdbSpan_eq_zero_of_gt (nth U) sz u p i (by omega)]; ring

/-- a parameter in a non-empty span of the new knots lies in the corresponding span of the old knots -/
theorem inSpan_old (t : Nat → Rat) (B s : Nat) (x umax : Rat) (c : InsCtx t B s x)
    (hmax : t (s + 1) ≤ umax) (sh : Nat) (u : Rat)
    (h : InSpan (insKnots t s x) umax sh u) : InSpan t umax (oldSpan s sh) u := by
  unfold oldSpan
  by_cases h1 : sh < s
  · have e1 : sh ≤ s := by omega
    rw [if_pos e1]
    unfold InSpan at h ⊢
    rwa [insKnots_le t s x sh e1, insKnots_le t s x (sh + 1) (by omega)] at h
  · by_cases h2 : sh = s
    · subst h2
      rw [if_pos (le_refl _)]
      unfold InSpan at h ⊢
      rw [insKnots_le t sh x sh (le_refl _), insKnots_eq] at h
      rcases h with ⟨ha, hb⟩ | ⟨ha, _, hc⟩
      · exact Or.inl ⟨ha, lt_trans hb c.hi⟩
      · exfalso; have := c.hi; linarith
    · by_cases h3 : sh = s + 1
      · subst h3
        have e1 : ¬ s + 1 ≤ s := by omega
        rw [if_neg e1]
        unfold InSpan at h ⊢
        rw [insKnots_eq, insKnots_gt t s x (s + 1 + 1) (by omega)] at h
        simp only [Nat.add_sub_cancel] at h ⊢
        rcases h with ⟨ha, hb⟩ | ⟨ha, hb, hc⟩
        · exact Or.inl ⟨le_trans c.lo ha, hb⟩
        · exact Or.inr ⟨ha, lt_of_le_of_lt c.lo hb, hc⟩
      · have e1 : ¬ sh ≤ s := by omega
        rw [if_neg e1]
        unfold InSpan at h ⊢
        rw [insKnots_gt t s x sh (by omega), insKnots_gt t s x (sh + 1) (by omega)] at h
        have e2 : sh - 1 + 1 = sh := by omega
        simp only [Nat.add_sub_cancel] at h
        rw [e2]
        exact h

/-- the matrix of `one_knot_insert_once` as a list of lists -/
def insMat (U : List Rat) (p : Nat) (x : Rat) (s n : Nat) : Mat :=
  (List.range (n + 1)).map fun r => (List.range n).map fun c => insOnceEntry U p x s r c

theorem insMat_matVec_getD (U : List Rat) (p : Nat) (x : Rat) (s n : Nat) (f : List Rat) (hf : f.length = n)
    (r : Nat) (hr : r < n + 1) :
    (matVec (insMat U p x s n) f).getD r 0 = ∑ c ∈ range n, insOnceEntry U p x s r c * f.getD c 0 := by
  unfold matVec insMat
  rw [List.getD_eq_getElem?_getD, List.getElem?_map, List.getElem?_map, List.getElem?_range hr]
  simp only [Option.map_some, Option.getD_some]
  rw [dot_eq_sum _ _ n (by simp) hf]
  apply sum_congr rfl
  intro c hc
  simp only [mem_range] at hc
  simp [List.getD_eq_getElem?_getD, hc]

theorem insMat_matVec_length (U : List Rat) (p : Nat) (x : Rat) (s n : Nat) (f : List Rat) :
    (matVec (insMat U p x s n) f).length = n + 1 := by
  simp [matVec, insMat]

/-- **one insertion step (list level).**  `U` sorted with `n + p + 1` entries bounded by `umax`, `U[s] ≤ x < U[s+1]`,
`p ≤ s < n`; then for every coefficient list `f` and every parameter `u` lying in a
non-empty span `sh` of the new knots: the function `Σ f_i N_{i,p}` is reproduced by the coefficients `M f` over the new
knots. -/
theorem insert_step_core (U : List Rat) (umax : Rat) (n p s : Nat) (x : Rat) (f : List Rat) (u : Rat) (sh : Nat)
    (hsorted : sortedLE U = true) (hmax : ∀ a, a ≤ U.length - 1 → nth U a ≤ umax)
    (hlen : n + p + 1 = U.length) (hps : p ≤ s) (hsn : s < n) (hlo : nth U s ≤ x) (hhi : x < nth U (s + 1))
    (hf : f.length = n) (hpsh : p ≤ sh) (hshn : sh < n + 1)
    (hin : InSpan (nth (isort (U ++ [x]))) umax sh u) :
    dot (cdbRow (isort (U ++ [x])) umax (n + 1) p u) (matVec (insMat U p x s n) f)
      = dot (cdbRow U umax n p u) f := by
  have hmono := mono_of_sortedLE U hsorted
  have hfun : nth (isort (U ++ [x])) = insKnots (nth U) s x := by
    funext i
    exact nth_isort_append_single U s x hsorted (by omega) hlo (le_of_lt hhi) i
  have hlen' : (isort (U ++ [x])).length = U.length + 1 := by rw [length_isort]; simp
  have ctx : InsCtx (nth U) (U.length - 1) s x := ⟨hmono, by omega, hlo, hhi⟩
  have hmono' : MonoUpTo (nth (isort (U ++ [x]))) ((isort (U ++ [x])).length - 1) := by
    rw [hfun, hlen']
    have := insKnots_mono (nth U) (U.length - 1) s x hmono (by omega) hlo (le_of_lt hhi)
    have e : U.length + 1 - 1 = U.length - 1 + 1 := by omega
    rw [e]; exact this
  have hmax' : ∀ a, a ≤ (isort (U ++ [x])).length - 1 → nth (isort (U ++ [x])) a ≤ umax := by
    intro a ha
    rw [hfun]
    rw [hlen'] at ha
    by_cases h1 : a ≤ s
    · rw [insKnots_le _ _ _ _ h1]; exact hmax a (by omega)
    · by_cases h2 : a = s + 1
      · rw [h2, insKnots_eq]; exact le_trans (le_of_lt hhi) (hmax (s + 1) (by omega))
      · rw [insKnots_gt _ _ _ _ (by omega)]; exact hmax (a - 1) (by omega)
  have hinI : InSpan (insKnots (nth U) s x) umax sh u := by rw [← hfun]; exact hin
  have hold := inSpan_old (nth U) (U.length - 1) s x umax ctx (hmax (s + 1) (by omega)) sh u hinI
  have hos : oldSpan s sh < n := by unfold oldSpan; split <;> omega
  have hpos : p ≤ oldSpan s sh := by unfold oldSpan; split <;> omega
  rw [dot_cdbRow_eq_spanSum (isort (U ++ [x])) umax (n + 1) p sh u _ hmono' hmax' (by omega) hshn hin
      (insMat_matVec_length U p x s n f),
    dot_cdbRow_eq_spanSum U umax n p (oldSpan s sh) u f hmono hmax hlen hos hold hf, hfun]
  rw [C04_boehm_preserves U (U.length - 1) p s n x sh u (fun i => f.getD i 0) hmono (by omega) hlo hhi
    hinI.lt hpos (by omega) (by omega) hsn hps (by omega)]
  apply spanSum_congr
  intro r _ hr
  exact insMat_matVec_getD U p x s n f hf r (by omega)

theorem tol9_le_tol6 : tol9 ≤ tol6 := by unfold tol9 tol6; decide +kernel

/-- **one insertion step of the model** (`one_knot_insert_once` + `knotvector + [x]`): for well-formed, separated knot
vectors before and after, a node `x < umax`, every coefficient list and every parameter of the interval, the
function `Σ f_i N_{i,p}` is reproduced by the coefficients `M f` over the new knot vector. -/
theorem insert_step_model (k k' : KV) (x : Rat) (M : Mat) (f : List Rat) (u : Rat)
    (hwf : WF k.v k.deg) (hsep : Separated k.v) (hsep' : Separated k'.v)
    (hx : x < k.umax) (hM : insOnce k x = .ok M) (hk' : k.insert [x] = .ok k') (hdeg : k'.deg = k.deg)
    (hf : f.length = k.npts) (hu : k'.umin ≤ u ∧ u ≤ k'.umax) :
    dot (cdbRow k'.v k'.umax k'.npts k'.deg u) (matVec M f) = dot (cdbRow k.v k.umax k.npts k.deg u) f := by
  have g : GoodKV k := goodKV_of_WF k.v k.deg hwf hsep
  -- the new vector
  have hv' : isValid k'.v none = true ∧ k'.v = isort (k.v ++ [x]) ∧ k'.deg = cnt k'.v (k'.v.headD 0) - 1 := by
    unfold KV.insert at hk'
    split at hk'
    · cases hk'
    · obtain ⟨h1, h2, h3⟩ := mk?_ok _ _ hk'
      rw [← h2] at h1 h3
      exact ⟨h1, h2, h3⟩
  obtain ⟨hval', hvk', hdk'⟩ := hv'
  have hwf' : WF k'.v k'.deg := by rw [hdk']; exact isValid_WF k'.v hsep' hval'
  have g' : GoodKV k' := goodKV_of_WF k'.v k'.deg hwf' hsep'
  -- unfold the matrix
  unfold insOnce at hM
  simp only [bind, Except.bind, pure, Except.pure] at hM
  split at hM
  · cases hM
  · split at hM
    · cases hM
    · rename_i s hs
      simp only [Except.ok.injEq] at hM
      have hMeq : M = insMat k.v k.deg x s k.npts := hM.symm
      have hlenk := g.ord.len
      have hps : k.deg ≤ s := span_ge_deg k g.deg_lt x s hs
      have hsn : s < k.npts := span_lt_npts k g.ord x s hs (by have := g.deg_lt; omega)
      have hspan : nth k.v s ≤ x ∧ x < nth k.v (s + 1) := by
        rcases span_spec k x s hs with h | ⟨h, _⟩
        · exact h
        · exfalso; rw [h] at hx; exact lt_irrefl _ hx
      have hlen' : k'.v.length = k.v.length + 1 := by rw [hvk', length_isort]; simp
      have hnpts' : k'.npts = k.npts + 1 := by unfold KV.npts; rw [hlen', hdeg]; unfold KV.npts at hlenk; omega
      have humax' : k'.umax = k.umax := by
        unfold KV.umax
        rw [hnpts', hvk', nth_isort_append_single k.v s x hwf.sorted (by omega) hspan.1 (le_of_lt hspan.2),
          insKnots_gt _ _ _ _ (by omega)]
        rfl
      obtain ⟨sh, hsh1, hsh2, hin⟩ := exists_span k' g' u hu
      rw [humax', hnpts', hdeg, hvk', hMeq]
      rw [humax', hvk'] at hin
      exact insert_step_core k.v k.umax k.npts k.deg s x f u sh hwf.sorted g.ord.le_umax hlenk hps hsn
        hspan.1 hspan.2 hf (by omega) (by omega) hin

end NV
