/-
Proofs/Geom.lean — the exact oracles of C19 / C20 are optimal / sound and complete:
minimum of a convex quadratic on an interval, minimum over the pieces of a polyline,
Cramer's rule for two segments, Newton's map on a linear piece.
-/
import NurbsVerif.Model.Geom
import NurbsVerif.Proofs.Poly
import Mathlib.Tactic.Linarith
import Mathlib.Tactic.NormNum
import Mathlib.Tactic.Positivity

namespace NV

theorem horner_len3 (q : Poly) (h : q.length ≤ 3) (u : Rat) :
    horner q u = nth q 0 + nth q 1 * u + nth q 2 * u ^ 2 := by
  match q, h with
  | [], _ => simp [nth]
  | [a], _ => simp [nth]
  | [a, b], _ => simp [nth]; ring
  | [a, b, c], _ => simp [nth]; ring

/-- **minimum of a convex quadratic on `[a, b]`**: `quadMin` returns a parameter of the interval, the value
there, and no parameter of the interval does better -/
theorem quadMin_optimal (q : Poly) (a b : Rat) (hq : quadShapeOK q = true) (hab : a ≤ b) :
    a ≤ (quadMin q a b).2 ∧ (quadMin q a b).2 ≤ b ∧ (quadMin q a b).1 = horner q (quadMin q a b).2
      ∧ ∀ u, a ≤ u → u ≤ b → (quadMin q a b).1 ≤ horner q u := by
  simp only [quadShapeOK, Bool.and_eq_true, decide_eq_true_eq] at hq
  obtain ⟨hlen, hconv⟩ := hq
  have hh := horner_len3 q hlen
  unfold quadMin
  simp only []
  by_cases h2 : (nth q 2 == 0) = true
  · have h20 : nth q 2 = 0 := by simpa using h2
    rw [if_pos h2]
    have haff : ∀ u, horner q u = nth q 0 + nth q 1 * u := by intro u; rw [hh, h20]; ring
    by_cases hlt : horner q b < horner q a
    · rw [if_pos hlt]
      refine ⟨hab, le_refl _, rfl, ?_⟩
      intro u hu1 hu2
      simp only [haff] at hlt ⊢
      rcases le_or_gt 0 (nth q 1) with hp | hn
      · nlinarith [mul_nonneg hp (sub_nonneg.mpr hab)]
      · nlinarith [mul_nonneg (le_of_lt (neg_pos.mpr hn)) (sub_nonneg.mpr hu2)]
    · rw [if_neg hlt]
      refine ⟨le_refl _, hab, rfl, ?_⟩
      intro u hu1 hu2
      simp only [haff] at hlt ⊢
      rcases le_or_gt 0 (nth q 1) with hp | hn
      · nlinarith [mul_nonneg hp (sub_nonneg.mpr hu1)]
      · nlinarith [mul_nonneg (le_of_lt (neg_pos.mpr hn)) (sub_nonneg.mpr hab)]
  · have h2ne : nth q 2 ≠ 0 := by simpa using h2
    have h2pos : 0 < nth q 2 := lt_of_le_of_ne hconv (Ne.symm h2ne)
    rw [if_neg h2]
    set u0 := -nth q 1 / (2 * nth q 2) with hu0
    have hvert : nth q 1 = -(2 * nth q 2) * u0 := by
      rw [hu0]; field_simp
    by_cases c1 : u0 < a
    · rw [if_pos c1]
      refine ⟨le_refl _, hab, rfl, ?_⟩
      intro u hu1 hu2
      rw [hh, hh, hvert]
      nlinarith [mul_nonneg (le_of_lt h2pos) (mul_nonneg (sub_nonneg.mpr hu1) (by linarith : (0 : Rat) ≤ u + a - 2 * u0))]
    · rw [if_neg c1]
      by_cases c2 : b < u0
      · rw [if_pos c2]
        refine ⟨hab, le_refl _, rfl, ?_⟩
        intro u hu1 hu2
        rw [hh, hh, hvert]
        nlinarith [mul_nonneg (le_of_lt h2pos) (mul_nonneg (sub_nonneg.mpr hu2) (by linarith : (0 : Rat) ≤ 2 * u0 - u - b))]
      · rw [if_neg c2]
        refine ⟨not_lt.mp c1, not_lt.mp c2, rfl, ?_⟩
        intro u _ _
        rw [hh, hh, hvert]
        nlinarith [mul_nonneg (le_of_lt h2pos) (sq_nonneg (u - u0))]

theorem rmin_le_left (a b : Rat) : rmin a b ≤ a := by unfold rmin; split <;> linarith
theorem rmin_le_right (a b : Rat) : rmin a b ≤ b := by unfold rmin; split <;> linarith

theorem minOf_le_init (l : List (Rat × Rat)) (d0 : Rat) : minOf d0 l ≤ d0 := by
  induction l generalizing d0 with
  | nil => simp [minOf]
  | cons c cs ih =>
    simp only [minOf, List.foldl_cons] at *
    exact le_trans (ih _) (rmin_le_left _ _)

theorem minOf_le_mem (l : List (Rat × Rat)) (d0 : Rat) (c : Rat × Rat) (hc : c ∈ l) : minOf d0 l ≤ c.1 := by
  induction l generalizing d0 with
  | nil => simp at hc
  | cons x xs ih =>
    simp only [minOf, List.foldl_cons] at *
    rcases List.mem_cons.mp hc with rfl | h
    · exact le_trans (minOf_le_init xs _) (rmin_le_right _ _)
    · exact ih _ h

/-- **optimality of the polyline oracle**: the reported minimum is a lower bound of the squared distance on
every piece and every parameter of that piece -/
theorem nearest_lower_bound (f : RF) (pt : Vec) (d0 : Rat)
    (hok : ∀ pc ∈ f, quadShapeOK (sqDistPoly pc pt) = true ∧ pc.a ≤ pc.b)
    (pc : Piece) (hpc : pc ∈ f) (u : Rat) (hu1 : pc.a ≤ u) (hu2 : u ≤ pc.b) :
    minOf d0 (nearestCands f pt) ≤ horner (sqDistPoly pc pt) u := by
  have hmem : quadMin (sqDistPoly pc pt) pc.a pc.b ∈ nearestCands f pt :=
    List.mem_map.mpr ⟨pc, hpc, rfl⟩
  have h1 := minOf_le_mem _ d0 _ hmem
  obtain ⟨hq, hab⟩ := hok pc hpc
  have h2 := (quadMin_optimal _ pc.a pc.b hq hab).2.2.2 u hu1 hu2
  linarith

/-- every candidate is attained: value of the squared distance at a parameter of its own piece -/
theorem nearest_attained (f : RF) (pt : Vec)
    (hok : ∀ pc ∈ f, quadShapeOK (sqDistPoly pc pt) = true ∧ pc.a ≤ pc.b)
    (c : Rat × Rat) (hc : c ∈ nearestCands f pt) :
    ∃ pc ∈ f, pc.a ≤ c.2 ∧ c.2 ≤ pc.b ∧ c.1 = horner (sqDistPoly pc pt) c.2 := by
  obtain ⟨pc, hpc, rfl⟩ := List.mem_map.mp hc
  obtain ⟨hq, hab⟩ := hok pc hpc
  obtain ⟨h1, h2, h3, _⟩ := quadMin_optimal _ pc.a pc.b hq hab
  exact ⟨pc, hpc, h1, h2, h3⟩

/-- the squared-distance polynomial evaluates to `Σ_d (n_d(u) − pt_d)²` -/
theorem horner_sqDistPoly (pc : Piece) (pt : Vec) (u : Rat) :
    horner (sqDistPoly pc pt) u = ((pc.num.zip pt).map fun nx => (horner nx.1 u - nx.2) ^ 2).sum := by
  unfold sqDistPoly
  simp only [polySum, horner_polySum_foldl, horner_nil, zero_add, List.map_map]
  congr 1
  apply List.map_congr_left
  intro nx _
  simp only [Function.comp, horner_pmul, horner_psub, horner_cons, horner_nil]
  ring

/-! ### Cramer's rule for two segments (C20) -/

/-- **soundness and completeness of the 2×2 solve**: when the determinant is non-zero the computed pair is
a solution of the linear system and it is the only one -/
theorem cramer (a11 a12 a21 a22 r1 r2 : Rat) (hdet : a11 * a22 - a12 * a21 ≠ 0) (t u : Rat) :
    (a11 * t + a12 * u = r1 ∧ a21 * t + a22 * u = r2) ↔
      (t = (r1 * a22 - a12 * r2) / (a11 * a22 - a12 * a21) ∧ u = (a11 * r2 - a21 * r1) / (a11 * a22 - a12 * a21)) := by
  constructor
  · rintro ⟨h1, h2⟩
    constructor
    · rw [eq_div_iff hdet]; rw [← h1, ← h2]; ring
    · rw [eq_div_iff hdet]; rw [← h1, ← h2]; ring
  · rintro ⟨rfl, rfl⟩
    obtain ⟨D, hD⟩ : ∃ D, D = a11 * a22 - a12 * a21 := ⟨_, rfl⟩
    rw [← hD] at hdet ⊢
    constructor
    · field_simp; rw [hD]; ring
    · field_simp; rw [hD]; ring

theorem horner_len2 (q : Poly) (h : q.length ≤ 2) (u : Rat) : horner q u = nth q 0 + nth q 1 * u := by
  match q, h with
  | [], _ => simp [nth]
  | [a], _ => simp [nth]
  | [a, b], _ => simp [nth]; ring

/-- **segment pair oracle**: for linear coordinate polynomials and independent directions, `(t, u)` with both
parameters in range is a meeting pair of the two segments iff it is the pair `segCross` reports -/
theorem segCross_iff (pa pb : Piece)
    (hax : (pa.num.getD 0 []).length ≤ 2) (hay : (pa.num.getD 1 []).length ≤ 2)
    (hbx : (pb.num.getD 0 []).length ≤ 2) (hby : (pb.num.getD 1 []).length ≤ 2)
    (hdet : nth (pa.num.getD 0 []) 1 * -(nth (pb.num.getD 1 []) 1) - -(nth (pb.num.getD 0 []) 1) * nth (pa.num.getD 1 []) 1 ≠ 0)
    (t u : Rat) (ht : pa.a ≤ t ∧ t ≤ pa.b) (hu : pb.a ≤ u ∧ u ≤ pb.b) :
    (horner (pa.num.getD 0 []) t = horner (pb.num.getD 0 []) u ∧ horner (pa.num.getD 1 []) t = horner (pb.num.getD 1 []) u)
      ↔ (segCross pa pb).sol = some (t, u) := by
  rw [horner_len2 _ hax, horner_len2 _ hay, horner_len2 _ hbx, horner_len2 _ hby]
  have hsys := cramer (nth (pa.num.getD 0 []) 1) (-(nth (pb.num.getD 0 []) 1)) (nth (pa.num.getD 1 []) 1)
    (-(nth (pb.num.getD 1 []) 1)) (nth (pb.num.getD 0 []) 0 - nth (pa.num.getD 0 []) 0)
    (nth (pb.num.getD 1 []) 0 - nth (pa.num.getD 1 []) 0) hdet t u
  have hd : ((nth (pa.num.getD 0 []) 1 * -(nth (pb.num.getD 1 []) 1) - -(nth (pb.num.getD 0 []) 1) * nth (pa.num.getD 1 []) 1) == 0) = false := by
    simpa using hdet
  unfold segCross
  simp only [hd]
  constructor
  · intro h
    have := hsys.mp ⟨by linarith [h.1], by linarith [h.2]⟩
    obtain ⟨e1, e2⟩ := this
    rw [← e1, ← e2]
    simp [ht.1, ht.2, hu.1, hu.2]
  · intro h
    simp only [Bool.false_eq_true, ↓reduceIte] at h
    split at h
    · simp only [Option.some.injEq, Prod.mk.injEq] at h
      have := hsys.mpr ⟨h.1.symm, h.2.symm⟩
      constructor <;> linarith [this.1, this.2]
    · simp at h

/-! ### Newton's map on a linear piece (C19) -/

/-- on a straight piece `C(u) = p + u·d` (`d ≠ 0`) one Newton step of `f(u) = ⟨C'(u), C(u) − P⟩` from *any* start lands
on the foot point, where `f` vanishes (the iteration of `point_on_curve` then stops: the next step is 0) -/
theorem newton_linear_one_step (p d P u0 : Rat) (hd : d ≠ 0) :
    let f := fun u => d * (p + u * d - P)
    let u1 := u0 - f u0 / (d * d)
    f u1 = 0 := by
  simp only []
  field_simp
  ring

end NV
