/-
Proofs/InsertMat.lean — `knot_insert(knotvector, nodes)` as a whole: the returned matrix reproduces every spline
function over the knot vector `sorted(U + interior nodes)`.
-/
import NurbsVerif.Proofs.InsertAll
import NurbsVerif.Proofs.Dedup

namespace NV
open Finset

theorem isort_sorted (v : List Rat) (h : sortedLE v = true) : isort v = v := by
  rw [isort_eq_insertionSort]
  apply List.Perm.eq_of_pairwise (le := (· ≤ ·))
  · intro a b _ _ h1 h2; exact le_antisymm h1 h2
  · exact List.pairwise_insertionSort _ _
  · exact pairwise_of_sortedLE v h
  · exact List.perm_insertionSort _ _

theorem umax_eq_last (v : List Rat) (d : Nat) (h : WF v d) : nth v (v.length - d - 1) = v.getLastD 0 := by
  have hpos : 0 < v.length := by have := h.npts_gt; omega
  rw [getLastD_eq_nth v hpos]
  apply suffix_eq_last v h.sorted (d + 1) _ _ (by have := h.npts_gt; omega) (by omega)
  rw [← getLastD_eq_nth v hpos]; exact h.last

/-- the interior nodes, as `knot_insert` filters them -/
def interiorNodes (k : KV) (nodes : List Rat) : List Rat :=
  nodes.filter fun nd => !(nd == nth k.v 0) && !(nd == k.v.getLastD 0)

/-- **`knot_insert(knotvector, nodes)`**: the matrix maps the coefficients of every spline function over `k` to
coefficients of the same function over the well-formed knot vector `sorted(U + interior nodes)`. -/
theorem knotInsertMat_reached (k : KV) (nodes : List Rat) (m : Mat) (hwf : WF k.v k.deg)
    (hsep : Separated (k.v ++ nodes)) (h : knotInsertMat k nodes = .ok m) :
    ∃ kf, Repro k kf m ∧ WF kf.v kf.deg ∧ kf.v = isort (k.v ++ interiorNodes k nodes) := by
  unfold knotInsertMat at h
  simp only [bind, Except.bind, pure, Except.pure] at h
  split at h
  · cases h
  · rename_i hrange
    split at h
    · cases h
    · rename_i st hfold
      obtain ⟨m1, kf⟩ := st
      simp only [Except.ok.injEq] at h
      subst h
      have hfirst : nth k.v 0 = k.umin := (umin_eq_first k.v k.deg hwf).symm
      have hlast : k.v.getLastD 0 = k.umax := by
        have := umax_eq_last k.v k.deg hwf
        unfold KV.umax KV.npts; exact this.symm
      have hns : ∀ x ∈ isort (dedup (interiorNodes k nodes)), x ∈ k.v ++ nodes ∧ k.umin < x ∧ x < k.umax := by
        intro x hx
        rw [mem_isort, mem_dedup] at hx
        unfold interiorNodes at hx
        simp only [List.mem_filter, Bool.and_eq_true, Bool.not_eq_true', beq_eq_false_iff_ne, ne_eq] at hx
        obtain ⟨hxn, hx1, hx2⟩ := hx
        have hr : ¬ (x < nth k.v 0 ∨ k.v.getLastD 0 < x) := by
          intro hc
          apply hrange
          simp only [List.any_eq_true, decide_eq_true_eq]
          exact ⟨x, hxn, hc⟩
        rw [hfirst, hlast] at hr
        rw [hfirst] at hx1
        rw [hlast] at hx2
        refine ⟨by simp [hxn], ?_, ?_⟩
        · exact lt_of_le_of_ne (not_lt.mp (fun h => hr (Or.inl h))) (fun e => hx1 e.symm)
        · exact lt_of_le_of_ne (not_lt.mp (fun h => hr (Or.inr h))) hx2
      have hreach0 : Reached k k (identity k.npts) [] :=
        ⟨repro_refl k, hwf, by rw [List.append_nil, isort_sorted k.v hwf.sorted]⟩
      obtain ⟨hr, _⟩ := foldl_reached k (k.v ++ nodes) hsep (cnt nodes) _ k (identity k.npts) m1 kf [] hns hreach0
        (fun y hy => by simp [hy]) hfold
      refine ⟨kf, hr.repro, hr.wf, ?_⟩
      rw [hr.knots, List.nil_append]
      apply isort_congr_perm
      apply List.Perm.append_left
      -- every distinct interior node, `nodes.count(node)` times = the interior nodes
      have hp1 : (isort (dedup (interiorNodes k nodes))).Perm (dedup (interiorNodes k nodes)) := perm_isort _
      refine (List.Perm.flatMap_right _ hp1).trans ?_
      apply flatMap_replicate_perm (interiorNodes k nodes) _ (cnt nodes) (dedup_nodup _) (mem_dedup _)
      intro y hy
      rw [mem_dedup] at hy
      rw [cnt_eq_count, cnt_eq_count]
      unfold interiorNodes at hy ⊢
      rw [List.count_filter]
      exact (List.mem_filter.mp hy).2

end NV
