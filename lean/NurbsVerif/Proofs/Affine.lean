/-
Proofs/Affine.lean — invariance of the Cox–de Boor functions under an affine reparametrisation
`u ↦ s·u + a` with `s > 0`, and what `shift` / `scale` / `normalize` do to a knot list.
-/
import NurbsVerif.Proofs.KV

namespace NV

/-- **affine invariance**: `N_{i,j}` over the knots `s·t + a` at `s·u + a` equals `N_{i,j}` over `t` at `u` -/
theorem cdbF_affine (t : Nat → Rat) (umax s a : Rat) (hs : 0 < s) :
    ∀ j i u, cdbF (fun n => s * t n + a) (s * umax + a) i j (s * u + a) = cdbF t umax i j u := by
  intro j
  induction j with
  | zero =>
    intro i u
    simp only [cdbF]
    have e1 : ∀ x y : Rat, s * x + a ≤ s * y + a ↔ x ≤ y := by
      intro x y; constructor
      · intro h; have := (mul_le_mul_iff_of_pos_left hs).mp (by linarith : s * x ≤ s * y); exact this
      · intro h; have := mul_le_mul_of_nonneg_left h (le_of_lt hs); linarith
    have e2 : ∀ x y : Rat, s * x + a < s * y + a ↔ x < y := by
      intro x y; constructor
      · intro h; exact (mul_lt_mul_iff_of_pos_left hs).mp (by linarith)
      · intro h; have := mul_lt_mul_of_pos_left h hs; linarith
    have e3 : ∀ x y : Rat, s * x + a = s * y + a ↔ x = y := by
      intro x y; constructor
      · intro h; have : s * x = s * y := by linarith
        exact mul_left_cancel₀ (ne_of_gt hs) this
      · intro h; rw [h]
    simp only [e1, e2, e3]
  | succ j ih =>
    intro i u
    simp only [cdbF, ih]
    have hne : s ≠ 0 := ne_of_gt hs
    have r1 : (s * u + a - (s * t i + a)) / (s * t (i + j + 1) + a - (s * t i + a))
        = (u - t i) / (t (i + j + 1) - t i) := by
      have : s * u + a - (s * t i + a) = s * (u - t i) := by ring
      rw [this]
      have : s * t (i + j + 1) + a - (s * t i + a) = s * (t (i + j + 1) - t i) := by ring
      rw [this, mul_div_mul_left _ _ hne]
    have r2 : (s * t (i + j + 2) + a - (s * u + a)) / (s * t (i + j + 2) + a - (s * t (i + 1) + a))
        = (t (i + j + 2) - u) / (t (i + j + 2) - t (i + 1)) := by
      have : s * t (i + j + 2) + a - (s * u + a) = s * (t (i + j + 2) - u) := by ring
      rw [this]
      have : s * t (i + j + 2) + a - (s * t (i + 1) + a) = s * (t (i + j + 2) - t (i + 1)) := by ring
      rw [this, mul_div_mul_left _ _ hne]
    rw [r1, r2]

/-- the recursion at `(i, j)` only reads the knots `i … i+j+1` -/
theorem cdbF_congr (t t' : Nat → Rat) (umax : Rat) :
    ∀ j i u, (∀ n, i ≤ n → n ≤ i + j + 1 → t n = t' n) → cdbF t umax i j u = cdbF t' umax i j u := by
  intro j
  induction j with
  | zero =>
    intro i u h
    simp only [cdbF, h i (le_refl _) (by omega), h (i + 1) (by omega) (by omega)]
  | succ j ih =>
    intro i u h
    simp only [cdbF]
    rw [ih i u (fun n h1 h2 => h n h1 (by omega)), ih (i + 1) u (fun n h1 h2 => h n (by omega) (by omega))]
    rw [h i (le_refl _) (by omega), h (i + j + 1) (by omega) (by omega), h (i + j + 2) (by omega) (by omega),
      h (i + 1) (by omega) (by omega)]

theorem nth_map (U : List Rat) (f : Rat → Rat) (n : Nat) (h : n < U.length) : nth (U.map f) n = f (nth U n) := by
  simp [nth, List.getD_eq_getElem?_getD, h]

/-- **affine invariance on knot lists** (the form property C18 states): for indices inside the list,
`N_i over s·U + a at s·u + a = N_i over U at u` -/
theorem cdb_affine_invariant (U : List Rat) (umax s a : Rat) (hs : 0 < s) (i j : Nat) (u : Rat)
    (hi : i + j + 1 < U.length) :
    cdb (U.map fun x => s * x + a) (s * umax + a) i j (s * u + a) = cdb U umax i j u := by
  rw [cdb_eq_cdbF, cdb_eq_cdbF, ← cdbF_affine (nth U) umax s a hs j i u]
  apply cdbF_congr
  intro n h1 h2
  exact nth_map U _ n (by omega)

/-! ### shift / scale / normalize -/

theorem cnt_map_injective (v : List Rat) (f : Rat → Rat) (hf : Function.Injective f) (x : Rat) :
    cnt (v.map f) (f x) = cnt v x := by
  induction v with
  | nil => rfl
  | cons y ys ih =>
    simp only [cnt, List.map_cons, List.filter_cons] at *
    by_cases e : y = x
    · subst e; simp [ih]
    · have : ¬ f y = f x := fun h => e (hf h)
      simp [e, this, ih]

/-- an accepted affine map stores exactly the mapped list, keeps every multiplicity and hence the degree -/
theorem affine_spec (k k' : KV) (f : Rat → Rat) (hf : Function.Injective f) (hk : KVInv k)
    (h : KV.mk? (k.v.map f) none = .ok k') :
    k'.v = k.v.map f ∧ (∀ x, cnt k'.v (f x) = cnt k.v x) ∧ k'.deg = k.deg := by
  obtain ⟨_, h2, h3⟩ := mk?_ok _ _ h
  refine ⟨h2, fun x => by rw [h2]; exact cnt_map_injective k.v f hf x, ?_⟩
  rw [h3, hk.2]
  cases hv : k.v with
  | nil => simp [cnt]
  | cons y ys =>
    have : ((y :: ys).map f).headD 0 = f y := by simp
    rw [this, cnt_map_injective _ f hf]
    simp

theorem shift_spec (k k' : KV) (a : Rat) (hk : KVInv k) (h : k.shift a = .ok k') :
    k'.v = k.v.map (· + a) ∧ (∀ x, cnt k'.v (x + a) = cnt k.v x) ∧ k'.deg = k.deg :=
  affine_spec k k' (· + a) (fun x y h => by simpa using h) hk h

theorem scale_spec (k k' : KV) (s : Rat) (hk : KVInv k) (h : k.scale s = .ok k') :
    0 < s ∧ k'.v = k.v.map (· * s) ∧ (∀ x, cnt k'.v (x * s) = cnt k.v x) ∧ k'.deg = k.deg := by
  unfold KV.scale at h
  split at h
  · simp at h
  · rename_i hs
    have hpos : 0 < s := by simpa using hs
    have hinj : Function.Injective (· * s) := fun x y h => by
      have : x * s = y * s := h
      exact mul_right_cancel₀ (ne_of_gt hpos) this
    exact ⟨hpos, affine_spec k k' (· * s) hinj hk h⟩

/-- `normalize` maps the first knot to exactly 0 and the last to exactly 1, keeping multiplicities and degree -/
theorem normalize_spec (k k' : KV) (hk : KVInv k) (hne : nth k.v 0 ≠ k.v.getLastD 0) (h : k.normalize = .ok k') :
    k'.v = k.v.map (fun x => (x - nth k.v 0) / (k.v.getLastD 0 - nth k.v 0))
      ∧ (∀ x, cnt k'.v ((x - nth k.v 0) / (k.v.getLastD 0 - nth k.v 0)) = cnt k.v x)
      ∧ k'.deg = k.deg
      ∧ (nth k.v 0 - nth k.v 0) / (k.v.getLastD 0 - nth k.v 0) = 0
      ∧ (k.v.getLastD 0 - nth k.v 0) / (k.v.getLastD 0 - nth k.v 0) = 1 := by
  have hd : k.v.getLastD 0 - nth k.v 0 ≠ 0 := fun e => hne (by linarith)
  have hinj : Function.Injective (fun x => (x - nth k.v 0) / (k.v.getLastD 0 - nth k.v 0)) := by
    intro x y hxy
    simp only [] at hxy
    field_simp at hxy
    linarith
  obtain ⟨h1, h2, h3⟩ := affine_spec k k' _ hinj hk (by simpa [KV.normalize] using h)
  exact ⟨h1, h2, h3, by simp, div_self hd⟩

end NV
