/-
Proofs/Pieces.lean — the span polynomials produced by `pieceOf` (model of the L3 oracles' view of a
curve) evaluate to the Cox–de Boor combination of the control points on that span:
numerator `Σ_i w_i P_i[d] N_{i,p}(u)`, denominator `Σ_i w_i N_{i,p}(u)`.
-/
import NurbsVerif.Model.Decide
import NurbsVerif.Proofs.Table

namespace NV

theorem horner_polySum (ps : List Poly) (x : Rat) :
    horner (polySum ps) x = (ps.map (horner · x)).sum := by
  simp [polySum, horner_polySum_foldl]

/-- evaluation of a local combination at the local coordinate of `u` -/
theorem horner_localComb (U : List Rat) (p sz : Nat) (c : Nat → Rat) (s : Rat) (hp : p ≤ sz) :
    horner (localComb (tableSpan U (nth U sz) (nth U (sz + 1)) sz p) p sz c) s
      = ((List.range (p + 1)).map fun y =>
          c (y + sz - p) * cdbSpan (nth U) sz (y + sz - p) p (nth U sz + s * (nth U (sz + 1) - nth U sz))).sum := by
  unfold localComb
  rw [horner_polySum, List.map_map]
  congr 1
  apply List.map_congr_left
  intro y hy
  simp only [List.mem_range] at hy
  simp only [Function.comp, horner_pscale]
  rw [tableSpan_eq_cdbSpan U sz s p hp y (by omega)]

/-- hypotheses tying the table of span `z` to the knot list (decidable; checked by the driver) -/
structure PieceOK (k : KV) (t : Table) (z : Nat) : Prop where
  kz : nth t.knots z = nth k.v (t.spans.getD z 0)
  kz1 : nth t.knots (z + 1) = nth k.v (t.spans.getD z 0 + 1)
  lt : nth k.v (t.spans.getD z 0) < nth k.v (t.spans.getD z 0 + 1)
  polys : t.polys.getD z [] = tableSpan k.v (nth k.v (t.spans.getD z 0)) (nth k.v (t.spans.getD z 0 + 1)) (t.spans.getD z 0) k.deg
  deg_le : k.deg ≤ t.spans.getD z 0

theorem pieceOK_of_check (k : KV) (t : Table) (z : Nat) (h : pieceCheck k t z = true) : PieceOK k t z := by
  simp only [pieceCheck, Bool.and_eq_true, beq_iff_eq, decide_eq_true_eq] at h
  obtain ⟨⟨⟨⟨h1, h2⟩, h3⟩, h4⟩, h5⟩ := h
  exact ⟨h1, h2, h3, h4, h5⟩

theorem to_local (a b u : Rat) (h : a < b) : a + (-a / (b - a) + 1 / (b - a) * u) * (b - a) = u := by
  have : b - a ≠ 0 := ne_of_gt (sub_pos.mpr h)
  field_simp
  ring

/-- **numerator of a piece**: coordinate `d` evaluates to `Σ_y w_i P_i[d] N_{i,p}(u)`, `i = y + sz − p` -/
theorem pieceOf_num (k : KV) (t : Table) (pts : List Vec) (W : Option (List Rat)) (dim z d : Nat) (u : Rat)
    (hd : d < dim) (h : PieceOK k t z) :
    horner ((pieceOf k t pts W dim z).num.getD d []) u
      = ((List.range (k.deg + 1)).map fun y =>
          (wOf W (y + t.spans.getD z 0 - k.deg) * nth (pts.getD (y + t.spans.getD z 0 - k.deg) []) d)
            * cdbSpan (nth k.v) (t.spans.getD z 0) (y + t.spans.getD z 0 - k.deg) k.deg u).sum := by
  unfold pieceOf
  simp only []
  rw [getD_map_range _ _ _ hd, horner_pcompLin, h.polys, h.kz, h.kz1]
  rw [horner_localComb k.v k.deg _ _ _ h.deg_le, to_local _ _ _ h.lt]

/-- **denominator of a piece**: 1 for polynomial curves, `Σ_y w_i N_{i,p}(u)` for rational ones -/
theorem pieceOf_den (k : KV) (t : Table) (pts : List Vec) (W : Option (List Rat)) (dim z : Nat) (u : Rat)
    (h : PieceOK k t z) :
    horner (pieceOf k t pts W dim z).den u
      = match W with
        | none => 1
        | some _ => ((List.range (k.deg + 1)).map fun y =>
            wOf W (y + t.spans.getD z 0 - k.deg)
              * cdbSpan (nth k.v) (t.spans.getD z 0) (y + t.spans.getD z 0 - k.deg) k.deg u).sum := by
  unfold pieceOf
  cases W with
  | none => simp
  | some ws =>
    simp only []
    rw [horner_pcompLin, h.polys, h.kz, h.kz1]
    rw [horner_localComb k.v k.deg _ _ _ h.deg_le, to_local _ _ _ h.lt]

end NV
