/-
Proofs/DeBoor.lean — the de Boor step for sums of span functions:
`Σ_i P_i N_{i,j+1}(u) = Σ_i (D P)_i N_{i,j}(u)` with `(D P)_i = ω_i P_i + (1 − ω_i) P_{i−1}`,
`ω_i = (u − t_i)/(t_{i+j+1} − t_i)`.  (Generic knots; used by the Boehm insertion identity.)
-/
import NurbsVerif.Proofs.CdB

namespace NV
open Finset

/-- `P (i − 1)` with the phantom value 0 at `i = 0` -/
def prevP (P : Nat → Rat) (i : Nat) : Rat := if i = 0 then 0 else P (i - 1)

/-- one de Boor step on a coefficient sequence (degree `j+1 → j`) -/
def deBoorStep (t : Nat → Rat) (j : Nat) (u : Rat) (P : Nat → Rat) (i : Nat) : Rat :=
  (u - t i) / (t (i + j + 1) - t i) * P i + (1 - (u - t i) / (t (i + j + 1) - t i)) * prevP P i

/-- the curve value on span `sz` as a finite sum over the functions that can be alive there -/
def spanSum (t : Nat → Rat) (sz j : Nat) (u : Rat) (P : Nat → Rat) : Rat :=
  ∑ i ∈ range (sz + 1), P i * cdbSpan t sz i j u

/-- only the alive indices `sz − j ≤ i ≤ sz` matter -/
theorem spanSum_congr (t : Nat → Rat) (sz j : Nat) (u : Rat) (P Q : Nat → Rat)
    (h : ∀ i, sz ≤ i + j → i ≤ sz → P i = Q i) : spanSum t sz j u P = spanSum t sz j u Q := by
  unfold spanSum
  apply sum_congr rfl
  intro i hi
  simp only [mem_range] at hi
  by_cases c : sz ≤ i + j
  · rw [h i c (by omega)]
  · rw [cdbSpan_eq_zero_of_lt t sz u j i (by omega)]; ring

/-- **de Boor step**: degree `j+1` sum of `P` = degree `j` sum of the stepped sequence -/
theorem spanSum_step (t : Nat → Rat) (B : Nat) (hm : MonoUpTo t B) (sz : Nat) (u : Rat)
    (hlt : t sz < t (sz + 1)) (j : Nat) (hB : sz + j + 2 ≤ B) (P : Nat → Rat) :
    spanSum t sz (j + 1) u P = spanSum t sz j u (deBoorStep t j u P) := by
  unfold spanSum
  have key : ∀ i ∈ range (sz + 1), P i * cdbSpan t sz i (j + 1) u
      = P i * ((u - t i) / (t (i + j + 1) - t i)) * cdbSpan t sz i j u
        + P i * (1 - (u - t (i + 1)) / (t (i + 1 + j + 1) - t (i + 1))) * cdbSpan t sz (i + 1) j u := by
    intro i hi
    simp only [mem_range] at hi
    have := cdbSpan_second_coeff t B hm sz u hlt j i (by omega)
    simp only [cdbSpan]
    rw [mul_add, this]; ring
  rw [sum_congr rfl key, sum_add_distrib]
  -- shift the second sum by one
  have s2 : ∑ i ∈ range (sz + 1),
        P i * (1 - (u - t (i + 1)) / (t (i + 1 + j + 1) - t (i + 1))) * cdbSpan t sz (i + 1) j u
      = ∑ i ∈ range (sz + 1), (1 - (u - t i) / (t (i + j + 1) - t i)) * prevP P i * cdbSpan t sz i j u := by
    rw [sum_range_succ' (fun i => (1 - (u - t i) / (t (i + j + 1) - t i)) * prevP P i * cdbSpan t sz i j u) sz]
    rw [sum_range_succ (fun i => P i * (1 - (u - t (i + 1)) / (t (i + 1 + j + 1) - t (i + 1)))
      * cdbSpan t sz (i + 1) j u) sz]
    have z : cdbSpan t sz (sz + 1) j u = 0 := cdbSpan_eq_zero_of_gt t sz u j (sz + 1) (by omega)
    rw [z]
    have p0 : prevP P 0 = 0 := by simp [prevP]
    rw [p0]
    simp only [mul_zero, zero_mul, add_zero]
    apply sum_congr rfl
    intro i _
    have ps : prevP P (i + 1) = P i := by simp [prevP]
    rw [ps]
    ring
  rw [s2, ← sum_add_distrib]
  apply sum_congr rfl
  intro i _
  unfold deBoorStep
  ring

end NV
