/-
Proofs/Removal.lean — knot removal undoes knot insertion exactly.
`knot_remove(knotvector, nodes)` is the least-squares matrix `T = GG⁻¹ · GF` of `func2func` (Gram matrices by per-span
quadrature).  If `M` reproduces every spline function of the smaller vector over the larger one (the insertion
matrix: `knotInsertMat_reached`), then `T · M = I`: the quadrature sums are bilinear in the function values, so
`GF · M = GG` holds node by node — no exactness of the quadrature is needed — and `GG⁻¹` is re-checked by the model.
-/
import NurbsVerif.Proofs.EvalNodes
import NurbsVerif.Proofs.InsertAll
import NurbsVerif.Props.C12
import Mathlib.LinearAlgebra.Matrix.SemiringInverse

namespace NV
open Finset

def unitVec (n k : Nat) : List Rat := (List.range n).map fun i => if i = k then 1 else 0

theorem unitVec_length (n k : Nat) : (unitVec n k).length = n := by simp [unitVec]

theorem dot_unitVec (a : List Rat) (n k : Nat) (ha : a.length = n) (hk : k < n) : dot a (unitVec n k) = a.getD k 0 := by
  rw [dot_eq_sum a _ n ha (unitVec_length n k)]
  have e : ∀ i ∈ range n, a.getD i 0 * (unitVec n k).getD i 0 = if i = k then a.getD k 0 else 0 := by
    intro i hi
    simp only [mem_range] at hi
    simp only [unitVec, List.getD_eq_getElem?_getD, List.getElem?_map, List.getElem?_range hi, Option.map_some,
      Option.getD_some]
    by_cases h : i = k
    · subst h; simp
    · simp [h]
  rw [sum_congr rfl e, Finset.sum_ite_eq' (range n) k (fun _ => a.getD k 0)]
  simp [hk]

theorem matVec_unitVec_getD (M : Mat) (r c k j : Nat) (hM : Shaped M r c) (hk : k < c) (hj : j < r) :
    (matVec M (unitVec c k)).getD j 0 = ent M j k := by
  rw [matVec_getD M _ j (by rw [hM.1]; exact hj), dot_unitVec _ c k (getD_mem_shaped M r c j hM hj) hk]
  rfl

/-- what the least-squares arguments need of a reproducing matrix: its shape and the reproduction of every coefficient
list at every parameter (the degrees of the two vectors may differ) -/
structure ReproW (k0 k : KV) (M : Mat) : Prop where
  shaped : Shaped M k.npts k0.npts
  repro : ∀ f : List Rat, f.length = k0.npts → ∀ u, k0.umin ≤ u ∧ u ≤ k0.umax →
    dot (cdbRow k.v k.umax k.npts k.deg u) (matVec M f) = dot (cdbRow k0.v k0.umax k0.npts k0.deg u) f

theorem Repro.toW {k0 k : KV} {M : Mat} (h : Repro k0 k M) : ReproW k0 k M := ⟨h.shaped, h.repro⟩

/-- node by node: `Mᵀ · F = G` for the evaluation matrices of the two vectors on the same nodes -/
theorem repro_nodes (k0 k : KV) (M : Mat) (hrep : ReproW k0 k M) (nodes : List Rat) (hne : 0 < nodes.length)
    (hin : ∀ x ∈ nodes, k0.umin ≤ x ∧ x ≤ k0.umax) :
    (toM k.npts k0.npts M).transpose
        * toM k.npts nodes.length (transpose (nodes.map (cdbRow k.v k.umax k.npts k.deg)))
      = toM k0.npts nodes.length (transpose (nodes.map (cdbRow k0.v k0.umax k0.npts k0.deg))) := by
  funext c n
  simp only [Matrix.mul_apply, Matrix.transpose_apply, toM]
  rw [ent_evalNodes k0 nodes hne c n c.2 n.2]
  have hx : nodes.getD n 0 ∈ nodes := by
    have : (n : Nat) < nodes.length := n.2
    simp [List.getD_eq_getElem?_getD, this]
  have h := hrep.repro (unitVec k0.npts c) (unitVec_length _ _) (nodes.getD n 0) (hin _ hx)
  have lrow : (cdbRow k.v k.umax k.npts k.deg (nodes.getD n 0)).length = k.npts := by simp [cdbRow]
  have lrow0 : (cdbRow k0.v k0.umax k0.npts k0.deg (nodes.getD n 0)).length = k0.npts := by simp [cdbRow]
  rw [dot_unitVec _ k0.npts c lrow0 c.2,
    dot_eq_sum _ _ k.npts lrow (by rw [matVec_length, hrep.shaped.1])] at h
  rw [← h, ← Fin.sum_univ_eq_sum_range (fun j => (cdbRow k.v k.umax k.npts k.deg (nodes.getD n 0)).getD j 0
      * (matVec M (unitVec k0.npts c)).getD j 0) k.npts]
  apply Finset.sum_congr rfl
  intro j _
  rw [ent_evalNodes k nodes hne j n j.2 n.2, matVec_unitVec_getD M k.npts k0.npts c j hrep.shaped c.2 j.2]
  ring

/-- the invariant of the Gram accumulation: shapes, and `GF · M = GG` -/
structure GramInv (k0 k : KV) (M : Mat) (g : Gram) : Prop where
  sFF : Shaped g.FF k.npts k.npts
  sGF : Shaped g.GF k0.npts k.npts
  sGG : Shaped g.GG k0.npts k0.npts
  eq : toM k0.npts k.npts g.GF * toM k.npts k0.npts M = toM k0.npts k0.npts g.GG

theorem transpose_cdbRows_shaped (k : KV) (nodes : List Rat) (hne : 0 < nodes.length) :
    Shaped (transpose (nodes.map (cdbRow k.v k.umax k.npts k.deg))) k.npts nodes.length :=
  transpose_shaped _ nodes.length k.npts (cdbRows_shaped k nodes) hne

/-- one span of the accumulation preserves the invariant -/
theorem gram_step (k0 k : KV) (M : Mat) (hrep : ReproW k0 k M) (g0 : GoodKV k0) (g1 : GoodKV k)
    (hc0 : orderedCheck k0 = true) (hc1 : orderedCheck k = true)
    (gr : Gram) (hinv : GramInv k0 k M gr) (nodes : List Rat) (hne : nodes ≠ []) (ws : List Rat) (F G : Mat)
    (hF : evalNodes k none nodes k.deg = .ok F) (hG : evalNodes k0 none nodes k0.deg = .ok G) :
    GramInv k0 k M ⟨matAdd gr.FF (gramAcc ws F F), matAdd gr.GF (gramAcc ws G F), matAdd gr.GG (gramAcc ws G G)⟩ := by
  have hlen : 0 < nodes.length := List.length_pos_of_ne_nil hne
  obtain ⟨hFe, _⟩ := evalNodes_spec k g1 hc1 nodes hne F hF
  obtain ⟨hGe, hin0⟩ := evalNodes_spec k0 g0 hc0 nodes hne G hG
  have sF : Shaped F k.npts nodes.length := by rw [hFe]; exact transpose_cdbRows_shaped k nodes hlen
  have sG : Shaped G k0.npts nodes.length := by rw [hGe]; exact transpose_cdbRows_shaped k0 nodes hlen
  have hnode := repro_nodes k0 k M hrep nodes hlen hin0
  rw [← hFe, ← hGe] at hnode
  refine ⟨matAdd_shaped _ _ _ _ hinv.sFF (gramAcc_shaped ws F F _ _ sF.1 sF.1),
    matAdd_shaped _ _ _ _ hinv.sGF (gramAcc_shaped ws G F _ _ sG.1 sF.1),
    matAdd_shaped _ _ _ _ hinv.sGG (gramAcc_shaped ws G G _ _ sG.1 sG.1), ?_⟩
  simp only []
  rw [toM_matAdd _ _ _ _ hinv.sGF (gramAcc_shaped ws G F _ _ sG.1 sF.1),
    toM_matAdd _ _ _ _ hinv.sGG (gramAcc_shaped ws G G _ _ sG.1 sG.1),
    Matrix.add_mul, hinv.eq, toM_gramAcc ws G F _ _ _ sG sF, toM_gramAcc ws G G _ _ _ sG sG]
  congr 1
  -- G D Fᵀ M = G D (Mᵀ F)ᵀ = G D Gᵀ
  have : (toM k.npts nodes.length F).transpose * toM k.npts k0.npts M = (toM k0.npts nodes.length G).transpose := by
    rw [← hnode, Matrix.transpose_mul, Matrix.transpose_transpose]
  rw [Matrix.mul_assoc, this]

theorem foldlM_inv {σ α : Type} (Inv : σ → Prop) (f : σ → α → Except Err σ)
    (hstep : ∀ s a s', Inv s → f s a = .ok s' → Inv s') :
    ∀ (l : List α) (s s' : σ), Inv s → l.foldlM f s = .ok s' → Inv s' := by
  intro l
  induction l with
  | nil =>
    intro s s' hs h
    simp only [List.foldlM_nil, pure, Except.pure, Except.ok.injEq] at h
    subst h; exact hs
  | cons a as ih =>
    intro s s' hs h
    simp only [List.foldlM_cons, bind, Except.bind] at h
    split at h
    · cases h
    · rename_i s1 hs1
      exact ih s1 s' (hstep s a s1 hs hs1) h

theorem openLinspace_ne_nil (n : Nat) (hn : 0 < n) : openLinspace n ≠ [] := by
  unfold openLinspace
  intro h
  have := congrArg List.length h
  simp at this
  omega

/-- the Gram matrices of `func2func` satisfy `GF · M = GG` -/
theorem gramMatrices_inv (k0 k : KV) (M : Mat) (hrep : ReproW k0 k M) (g0 : GoodKV k0) (g1 : GoodKV k)
    (hc0 : orderedCheck k0 = true) (hc1 : orderedCheck k = true) (gr : Gram)
    (h : gramMatrices k none k0 none = .ok gr) : GramInv k0 k M gr := by
  unfold gramMatrices at h
  simp only [bind, Except.bind] at h
  split at h
  · cases h
  · rename_i integ _
    refine foldlM_inv (GramInv k0 k M) _ ?_ _ _ gr ?_ h
    · intro s se s' hs hstep
      obtain ⟨st, en⟩ := se
      simp only [bind, Except.bind, pure, Except.pure] at hstep
      split at hstep
      · cases hstep
      · rename_i F hF
        split at hstep
        · cases hstep
        · rename_i G hG
          simp only [Except.ok.injEq] at hstep
          subst hstep
          have hne : (openLinspace (2 * max k.deg k0.deg + 1)).map (fun x => st + (en - st) * x) ≠ [] := by
            intro hc
            exact openLinspace_ne_nil _ (by omega) (List.map_eq_nil_iff.mp hc)
          exact gram_step k0 k M hrep g0 g1 hc0 hc1 s hs _ hne _ F G hF hG
    · refine ⟨zeros_shaped _ _, zeros_shaped _ _, zeros_shaped _ _, ?_⟩
      simp only [toM_zeros, Matrix.zero_mul]

/-- **knot removal is a left inverse of knot insertion**: `T · M = I` -/
theorem knotRemove_left_inverse (k0 k : KV) (M T E : Mat) (hrep : ReproW k0 k M) (g0 : GoodKV k0) (g1 : GoodKV k)
    (hc0 : orderedCheck k0 = true) (hc1 : orderedCheck k = true)
    (h : spline2spline k k0 none = .ok (T, E)) : Shaped T k0.npts k.npts ∧ matMul T M = identity k0.npts := by
  unfold spline2spline func2func at h
  simp only [bind, Except.bind, pure, Except.pure] at h
  split at h
  · cases h
  · rename_i gr hgr
    split at h
    · cases h
    · rename_i GGinv hGGinv
      simp only [Except.ok.injEq, Prod.mk.injEq] at h
      obtain ⟨hT, _⟩ := h
      subst hT
      have hinv := gramMatrices_inv k0 k M hrep g0 g1 hc0 hc1 gr hgr
      have hsome : invertChecked? gr.GG = some GGinv := by
        unfold exceptOfOption at hGGinv
        split at hGGinv
        · rename_i a ha; simp only [Except.ok.injEq] at hGGinv; subst hGGinv; exact ha
        · cases hGGinv
      have hsh := invertChecked_shaped gr.GG GGinv hsome
      rw [hinv.sGG.1] at hsh
      have hspec := invertChecked_spec gr.GG GGinv hsome
      rw [hinv.sGG.1] at hspec
      have hn0 : 0 < k0.npts := by have := g0.deg_lt; omega
      have hn1 : 0 < k.npts := by have := g1.deg_lt; omega
      -- GG · GGinv = 1, hence GGinv · GG = 1
      have h1 : toM k0.npts k0.npts gr.GG * toM k0.npts k0.npts GGinv = 1 := by
        rw [← toM_matMul gr.GG GGinv _ _ _ hinv.sGG hsh hn0, hspec, toM_identity]
      have h2 : toM k0.npts k0.npts GGinv * toM k0.npts k0.npts gr.GG = 1 := mul_eq_one_comm.mp h1
      have sT : Shaped (matMul GGinv gr.GF) k0.npts k.npts := matMul_shaped _ _ _ _ _ hsh hinv.sGF hn0
      refine ⟨sT, ?_⟩
      apply toM_inj _ _ k0.npts k0.npts (matMul_shaped _ _ _ _ _ sT hrep.shaped hn1) (identity_shaped _)
      rw [toM_matMul _ _ _ _ _ sT hrep.shaped hn1, toM_matMul _ _ _ _ _ hsh hinv.sGF hn0, Matrix.mul_assoc, hinv.eq, h2,
        toM_identity]

/-- the same for the constrained fit (interpolation nodes `ns`): `T · M = I` -/
theorem fit_left_inverse (k0 k : KV) (M T E : Mat) (fitNodes : Option (List Rat)) (hfn : ∀ ns, fitNodes = some ns → ns ≠ [])
    (hrep : ReproW k0 k M) (g0 : GoodKV k0) (g1 : GoodKV k)
    (hc0 : orderedCheck k0 = true) (hc1 : orderedCheck k = true)
    (h : spline2spline k k0 fitNodes = .ok (T, E)) : Shaped T k0.npts k.npts ∧ matMul T M = identity k0.npts := by
  cases fitNodes with
  | none => exact knotRemove_left_inverse k0 k M T E hrep g0 g1 hc0 hc1 h
  | some ns =>
    have hns : ns ≠ [] := hfn ns rfl
    have hm : 0 < ns.length := List.length_pos_of_ne_nil hns
    unfold spline2spline func2func at h
    simp only [bind, Except.bind, pure, Except.pure] at h
    split at h
    · cases h
    · split at h
      · cases h
      · rename_i gr hgr
        split at h
        · cases h
        · rename_i GGinv hGGinv
          split at h
          · cases h
          · rename_i Fm hFm
            split at h
            · cases h
            · rename_i GT hGT
              split at h
              · cases h
              · rename_i LLinv hLLinv
                simp only [Except.ok.injEq, Prod.mk.injEq] at h
                obtain ⟨hT, _⟩ := h
                subst hT
                have hinv := gramMatrices_inv k0 k M hrep g0 g1 hc0 hc1 gr hgr
                have hsome : invertChecked? gr.GG = some GGinv := by
                  unfold exceptOfOption at hGGinv
                  split at hGGinv
                  · rename_i a ha; simp only [Except.ok.injEq] at hGGinv; subst hGGinv; exact ha
                  · cases hGGinv
                have hsh := invertChecked_shaped gr.GG GGinv hsome
                rw [hinv.sGG.1] at hsh
                have hspec := invertChecked_spec gr.GG GGinv hsome
                rw [hinv.sGG.1] at hspec
                have hn0 : 0 < k0.npts := by have := g0.deg_lt; omega
                have hn1 : 0 < k.npts := by have := g1.deg_lt; omega
                have h1 : toM k0.npts k0.npts gr.GG * toM k0.npts k0.npts GGinv = 1 := by
                  rw [← toM_matMul gr.GG GGinv _ _ _ hinv.sGG hsh hn0, hspec, toM_identity]
                have h2 : toM k0.npts k0.npts GGinv * toM k0.npts k0.npts gr.GG = 1 := mul_eq_one_comm.mp h1
                -- the evaluation matrices at the interpolation nodes
                obtain ⟨hFe, _⟩ := evalNodes_spec k g1 hc1 ns hns Fm hFm
                obtain ⟨hGe, hin0⟩ := evalNodes_spec k0 g0 hc0 ns hns GT hGT
                have sFm : Shaped Fm k.npts ns.length := by rw [hFe]; exact transpose_cdbRows_shaped k ns hm
                have sGT : Shaped GT k0.npts ns.length := by rw [hGe]; exact transpose_cdbRows_shaped k0 ns hm
                have hnode := repro_nodes k0 k M hrep ns hm hin0
                rw [← hFe, ← hGe] at hnode
                have sF := transpose_shaped Fm _ _ sFm hn1
                have sG := transpose_shaped GT _ _ sGT hn0
                -- the inverse of LL
                set LL := matMul (transpose GT) (matMul GGinv GT) with hLL
                have sLL : Shaped LL ns.length ns.length :=
                  matMul_shaped _ _ _ _ _ sG (matMul_shaped _ _ _ _ _ hsh sGT hn0) hn0
                have hsomeL : invertChecked? LL = some LLinv := by
                  unfold exceptOfOption at hLLinv
                  split at hLLinv
                  · rename_i a ha; simp only [Except.ok.injEq] at hLLinv; subst hLLinv; exact ha
                  · cases hLLinv
                have sLi := invertChecked_shaped LL LLinv hsomeL
                rw [sLL.1] at sLi
                -- shapes of the pieces
                have sGGi_GT := matMul_shaped GGinv GT _ _ _ hsh sGT hn0
                have sG_GGi := matMul_shaped (transpose GT) GGinv _ _ _ sG hsh hn0
                have sLG := matMul_shaped LLinv (matMul (transpose GT) GGinv) _ _ _ sLi sG_GGi hm
                have sGT_LG := matMul_shaped GT (matMul LLinv (matMul (transpose GT) GGinv)) _ _ _ sGT sLG hm
                have sGGi_GTLG := matMul_shaped GGinv _ _ _ _ hsh sGT_LG hn0
                have sQG := matSub_shaped GGinv _ _ _ hsh sGGi_GTLG
                have sGT_Li := matMul_shaped GT LLinv _ _ _ sGT sLi hm
                have sQF := matMul_shaped GGinv _ _ _ _ hsh sGT_Li hn0
                have sT1 := matMul_shaped _ gr.GF _ _ _ sQG hinv.sGF hn0
                have sT2 := matMul_shaped _ (transpose Fm) _ _ _ sQF sF hm
                have sT := matAdd_shaped _ _ _ _ sT1 sT2
                refine ⟨sT, ?_⟩
                apply toM_inj _ _ k0.npts k0.npts (matMul_shaped _ _ _ _ _ sT hrep.shaped hn1) (identity_shaped _)
                rw [toM_matMul _ _ _ _ _ sT hrep.shaped hn1, toM_matAdd _ _ _ _ sT1 sT2, Matrix.add_mul,
                  toM_matMul _ _ _ _ _ sQG hinv.sGF hn0, toM_matMul _ _ _ _ _ sQF sF hm,
                  Matrix.mul_assoc, hinv.eq, Matrix.mul_assoc]
                -- F · M = G
                have hFM : toM ns.length k.npts (transpose Fm) * toM k.npts k0.npts M
                    = toM ns.length k0.npts (transpose GT) := by
                  rw [toM_transpose Fm _ _ sFm hn1, toM_transpose GT _ _ sGT hn0, ← hnode, Matrix.transpose_mul,
                    Matrix.transpose_transpose]
                rw [hFM, toM_matSub _ _ _ _ hsh sGGi_GTLG, toM_matMul _ _ _ _ _ hsh sGT_LG hn0,
                  toM_matMul _ _ _ _ _ sGT sLG hm, toM_matMul _ _ _ _ _ sLi sG_GGi hm,
                  toM_matMul _ _ _ _ _ sG hsh hn0, toM_matMul _ _ _ _ _ hsh sGT_Li hn0,
                  toM_matMul _ _ _ _ _ sGT sLi hm, toM_identity]
                simp only [Matrix.sub_mul, Matrix.mul_assoc, h2, Matrix.mul_one]
                abel

end NV
