/-
Proofs/InsertKnots.lean — list-level glue for the Boehm identity: the model's `isort (U ++ [x])`
(python `sorted(list(U) + [x])`) is `U` with `x` placed behind the span position, i.e. the knot *function*
`insKnots (nth U) s x` of `Proofs/Boehm.lean`.
-/
import NurbsVerif.Proofs.Boehm
import NurbsVerif.Proofs.Lookup
import Mathlib.Data.List.Sort

namespace NV

theorem insSorted_eq_orderedInsert (x : Rat) (l : List Rat) :
    insSorted x l = List.orderedInsert (· ≤ ·) x l := by
  induction l with
  | nil => rfl
  | cons y ys ih => simp only [insSorted, List.orderedInsert_cons, ih]

theorem isort_eq_insertionSort (l : List Rat) : isort l = List.insertionSort (· ≤ ·) l := by
  induction l with
  | nil => rfl
  | cons x xs ih => simp only [isort, List.insertionSort_cons, ih, insSorted_eq_orderedInsert]

theorem pairwise_of_sortedLE : ∀ (l : List Rat), sortedLE l = true → l.Pairwise (· ≤ ·)
  | [], _ => List.Pairwise.nil
  | [_], _ => by simp
  | a :: b :: t, h => by
    simp only [sortedLE, Bool.and_eq_true, decide_eq_true_eq] at h
    have ih := pairwise_of_sortedLE (b :: t) h.2
    have ih' := List.pairwise_cons.mp ih
    refine List.pairwise_cons.mpr ⟨?_, ih⟩
    intro c hc
    rcases List.mem_cons.mp hc with rfl | hc
    · exact h.1
    · exact le_trans h.1 (ih'.1 c hc)

theorem mono_of_sortedLE (U : List Rat) (h : sortedLE U = true) : MonoUpTo (nth U) (U.length - 1) := by
  have hp := pairwise_of_sortedLE U h
  rw [List.pairwise_iff_getElem] at hp
  intro a b hab hb
  by_cases hlen : U.length = 0
  · have : U = [] := List.length_eq_zero_iff.mp hlen
    subst this; simp [nth]
  rcases Nat.lt_or_eq_of_le hab with hlt | rfl
  · have hb' : b < U.length := by omega
    have ha' : a < U.length := by omega
    rw [nth_eq_getElem U a ha', nth_eq_getElem U b hb']
    exact hp a b ha' hb' hlt
  · exact le_refl _

/-- the list with `x` placed at index `s+1` has knot function `insKnots` (at every index) -/
theorem nth_insertIdx (U : List Rat) (s : Nat) (x : Rat) (hsl : s + 1 ≤ U.length) (i : Nat) :
    nth (U.insertIdx (s + 1) x) i = insKnots (nth U) s x i := by
  have hlen : (U.insertIdx (s + 1) x).length = U.length + 1 := List.length_insertIdx_of_le_length hsl x
  by_cases hi : i < U.length + 1
  · have hi' : i < (U.insertIdx (s + 1) x).length := by omega
    rw [nth_eq_getElem _ i hi', List.getElem_insertIdx]
    unfold insKnots
    by_cases h1 : i < s + 1
    · have h1' : i ≤ s := by omega
      rw [dif_pos h1, if_pos h1', nth_eq_getElem U i (by omega)]
    · rw [dif_neg h1]
      by_cases h2 : i = s + 1
      · have h1' : ¬ i ≤ s := by omega
        rw [dif_pos h2, if_neg h1', if_pos h2]
      · have h1' : ¬ i ≤ s := by omega
        rw [dif_neg h2, if_neg h1', if_neg h2, nth_eq_getElem U (i - 1) (by omega)]
  · have h1 : ¬ i ≤ s := by omega
    have h2 : ¬ i = s + 1 := by omega
    unfold insKnots
    rw [if_neg h1, if_neg h2]
    unfold nth
    simp only [List.getD_eq_getElem?_getD]
    rw [List.getElem?_eq_none (by omega), List.getElem?_eq_none (by omega)]

/-- **python `sorted(U + [x])` puts `x` behind its span**: for a sorted list and `U[s] ≤ x ≤ U[s+1]` -/
theorem isort_append_single (U : List Rat) (s : Nat) (x : Rat) (hs : sortedLE U = true) (hsl : s + 1 < U.length)
    (hlo : nth U s ≤ x) (hhi : x ≤ nth U (s + 1)) :
    isort (U ++ [x]) = U.insertIdx (s + 1) x := by
  rw [isort_eq_insertionSort]
  apply List.Perm.eq_of_pairwise (le := (· ≤ ·))
  · intro a b _ _ h1 h2; exact le_antisymm h1 h2
  · exact List.pairwise_insertionSort _ _
  · rw [List.pairwise_iff_getElem]
    intro i j hi hj hij
    have hm := insKnots_mono (nth U) (U.length - 1) s x (mono_of_sortedLE U hs) (by omega) hlo hhi
    have hlen : (U.insertIdx (s + 1) x).length = U.length + 1 := List.length_insertIdx_of_le_length (by omega) x
    have := hm i j (by omega) (by omega)
    rw [← nth_insertIdx U s x (by omega), ← nth_insertIdx U s x (by omega),
      nth_eq_getElem _ i hi, nth_eq_getElem _ j hj] at this
    exact this
  · refine (List.perm_insertionSort _ _).trans ?_
    refine List.perm_append_singleton x U |>.trans ?_
    exact (List.perm_insertIdx x U (by omega)).symm

/-- the knot function after `KV.insert [x]` -/
theorem nth_isort_append_single (U : List Rat) (s : Nat) (x : Rat) (hs : sortedLE U = true) (hsl : s + 1 < U.length)
    (hlo : nth U s ≤ x) (hhi : x ≤ nth U (s + 1)) (i : Nat) :
    nth (isort (U ++ [x])) i = insKnots (nth U) s x i := by
  rw [isort_append_single U s x hs hsl hlo hhi, nth_insertIdx U s x (by omega)]

theorem length_isort (l : List Rat) : (isort l).length = l.length := by
  rw [isort_eq_insertionSort]; exact List.length_insertionSort _ _

end NV
