/-
Proofs/Quad.lean — quadrature: moment conditions imply exactness on every polynomial of the
stated degree; the memo tables never change an answer.
-/
import NurbsVerif.Model.Quad
import NurbsVerif.Proofs.Poly

namespace NV

/-- `Σ_i w_i f(x_i)` -/
def quad (ws xs : List Rat) (f : Rat → Rat) : Rat := dot ws (xs.map f)

theorem dot_map_add (ws xs : List Rat) (f g : Rat → Rat) :
    dot ws (xs.map fun x => f x + g x) = dot ws (xs.map f) + dot ws (xs.map g) := by
  induction ws generalizing xs with
  | nil => simp [dot]
  | cons w ws ih =>
    cases xs with
    | nil => simp [dot]
    | cons x xs => simp only [List.map_cons, dot, ih xs]; ring

theorem dot_map_smul (ws xs : List Rat) (c : Rat) (f : Rat → Rat) :
    dot ws (xs.map fun x => c * f x) = c * dot ws (xs.map f) := by
  induction ws generalizing xs with
  | nil => simp [dot]
  | cons w ws ih =>
    cases xs with
    | nil => simp [dot]
    | cons x xs => simp only [List.map_cons, dot, ih xs]; ring

/-- `∫₀¹ x^m p(x) dx` computed on the coefficient list -/
def momentIntegral : Nat → Poly → Rat
  | _, [] => 0
  | m, c :: cs => c / ((m : Rat) + 1) + momentIntegral (m + 1) cs

/-- a rule with the first `n` moments right integrates `x^m·p(x)` exactly whenever `m + deg p < n` -/
theorem quad_exact_shifted (ws xs : List Rat) (n : Nat)
    (hmom : ∀ k, k < n → quad ws xs (fun x => rpow x k) = 1 / ((k : Rat) + 1)) :
    ∀ (p : Poly) (m : Nat), m + p.length ≤ n →
      quad ws xs (fun x => rpow x m * horner p x) = momentIntegral m p := by
  intro p
  induction p with
  | nil =>
    intro m _
    have h0 : (fun x => rpow x m * horner [] x) = fun x => (0 : Rat) * rpow x m := by
      funext x; simp
    unfold quad
    rw [h0, dot_map_smul]
    simp [momentIntegral]
  | cons c cs ih =>
    intro m hm
    have h1 : (fun x => rpow x m * horner (c :: cs) x)
        = fun x => c * rpow x m + rpow x (m + 1) * horner cs x := by
      funext x; simp only [horner_cons, rpow]; ring
    unfold quad at *
    rw [h1, dot_map_add, dot_map_smul, hmom m (by simp at hm; omega), ih (m + 1) (by simp at hm ⊢; omega)]
    simp only [momentIntegral]; ring

theorem horner_pintAux (p : Poly) (m : Nat) : horner (pintAux m p) 1 = momentIntegral m p := by
  induction p generalizing m with
  | nil => simp [pintAux, momentIntegral]
  | cons c cs ih => simp only [pintAux, horner_cons, momentIntegral, ih]; ring

theorem pintegral_zero_one (p : Poly) : pintegral p 0 1 = momentIntegral 0 p := by
  simp only [pintegral, pint, horner_cons, horner_pintAux]; ring

/-- **moments ⇒ exactness**: a rule whose first `n` moments are `1/(k+1)` integrates every polynomial
with at most `n` coefficients (degree `< n`) over `[0, 1]` exactly -/
theorem quad_exact_of_moments (ws xs : List Rat) (n : Nat)
    (hmom : ∀ k, k < n → quad ws xs (fun x => rpow x k) = 1 / ((k : Rat) + 1))
    (p : Poly) (hp : p.length ≤ n) :
    quad ws xs (horner p) = pintegral p 0 1 := by
  have := quad_exact_shifted ws xs n hmom p 0 (by omega)
  rw [pintegral_zero_one, ← this]
  congr 1
  funext x
  simp [rpow]

/-- executable moment test used by the kernel-evaluated instances -/
def momentsOK (ws xs : List Rat) (n : Nat) : Bool :=
  (List.range n).all fun k => dot ws (xs.map fun x => rpow x k) == 1 / (((k : Nat) : Rat) + 1)

theorem moments_of_check (ws xs : List Rat) (n : Nat) (h : momentsOK ws xs n = true) :
    ∀ k, k < n → quad ws xs (fun x => rpow x k) = 1 / ((k : Rat) + 1) := by
  intro k hk
  simp only [momentsOK, List.all_eq_true, List.mem_range, beq_iff_eq] at h
  exact h k hk

/-! ### memo tables -/

/-- every stored rule equals the freshly computed one -/
def GoodMemo (m : QuadMemo) : Prop :=
  (∀ n w, lookup n m.closed = some w → 2 ≤ n → closedRule? n = some w) ∧
  (∀ n w, lookup n m.opened = some w → 1 ≤ n → openRule? n = some w)

theorem lookup_cons (n k : Nat) (v : List Rat) (t : List (Nat × List Rat)) :
    lookup n ((k, v) :: t) = if k = n then some v else lookup n t := rfl

/-- a request never returns anything but the fresh rule, and keeps the table good -/
theorem closedNC_spec (m : QuadMemo) (hm : GoodMemo m) (n : Nat) (w : List Rat) (m' : QuadMemo)
    (h : closedNC m n = some (w, m')) : closedRule? n = some w ∧ GoodMemo m' := by
  unfold closedNC at h
  split at h
  · simp at h
  · rename_i hn
    split at h
    · rename_i w0 hl
      simp only [Option.some.injEq, Prod.mk.injEq] at h
      obtain ⟨rfl, rfl⟩ := h
      exact ⟨hm.1 n w0 hl (by omega), hm⟩
    · rename_i hl
      simp only [Option.map_eq_some_iff] at h
      obtain ⟨w1, hw1, heq⟩ := h
      simp only [Prod.mk.injEq] at heq
      obtain ⟨rfl, rfl⟩ := heq
      have hfresh : closedRule? n = some w1 := by simp [closedRule?, hn, hw1]
      refine ⟨hfresh, ?_, hm.2⟩
      intro n' w' hl' hn'
      simp only [lookup_cons] at hl'
      split at hl'
      · rename_i e; subst e; simp only [Option.some.injEq] at hl'; subst hl'; exact hfresh
      · exact hm.1 n' w' hl' hn'

theorem openNC_spec (m : QuadMemo) (hm : GoodMemo m) (n : Nat) (w : List Rat) (m' : QuadMemo)
    (h : openNC m n = some (w, m')) : openRule? n = some w ∧ GoodMemo m' := by
  unfold openNC at h
  split at h
  · simp at h
  · rename_i hn
    split at h
    · rename_i w0 hl
      simp only [Option.some.injEq, Prod.mk.injEq] at h
      obtain ⟨rfl, rfl⟩ := h
      exact ⟨hm.2 n w0 hl (by omega), hm⟩
    · rename_i hl
      simp only [Option.map_eq_some_iff] at h
      obtain ⟨w1, hw1, heq⟩ := h
      simp only [Prod.mk.injEq] at heq
      obtain ⟨rfl, rfl⟩ := heq
      have hfresh : openRule? n = some w1 := by simp [openRule?, hn, hw1]
      refine ⟨hfresh, hm.1, ?_⟩
      intro n' w' hl' hn'
      simp only [lookup_cons] at hl'
      split at hl'
      · rename_i e; subst e; simp only [Option.some.injEq] at hl'; subst hl'; exact hfresh
      · exact hm.2 n' w' hl' hn'

end NV
