/-
Proofs/Span.lean — the `while True` binary search of `__span_single` terminates within its fuel on
every valid node of an ordered knot vector (a termination obligation of the model), and therefore
`span` is total on `[umin, umax]`.
-/
import NurbsVerif.Proofs.KV

namespace NV

/-- loop invariant: `low < high ≤ npts+1`, `U[low] ≤ node`, and `node < U[high]` unless `high` is the virtual
right end `npts + 1` (where `node < U[npts] = umax` is used instead) -/
structure SearchInv (U : List Rat) (n : Nat) (node : Rat) (low high : Nat) : Prop where
  lt : low < high
  hi_le : high ≤ n + 1
  lo : nth U low ≤ node
  hi : high ≤ n → node < nth U high
  below_max : node < nth U n

theorem spanSearch_terminates (U : List Rat) (n : Nat) (node : Rat)
    (hmono : ∀ a b, a ≤ b → b ≤ n → nth U a ≤ nth U b) :
    ∀ fuel low high, SearchInv U n node low high → high - low ≤ fuel →
      ∃ s, KV.spanSearch U node fuel low high ((low + high) / 2) = some s := by
  intro fuel
  induction fuel with
  | zero =>
    intro low high inv hf
    have := inv.lt
    omega
  | succ f ih =>
    intro low high inv hf
    simp only [KV.spanSearch]
    have hlt := inv.lt
    by_cases hc : node < nth U ((low + high) / 2)
    · -- high' = mid
      simp only [hc, if_true]
      have hmid_lo : low < (low + high) / 2 := by
        by_contra c
        have : (low + high) / 2 = low := by omega
        rw [this] at hc
        have := inv.lo
        linarith
      have inv' : SearchInv U n node low ((low + high) / 2) :=
        ⟨hmid_lo, by have := inv.hi_le; omega, inv.lo, fun _ => hc, inv.below_max⟩
      split
      · exact ⟨_, rfl⟩
      · exact ih low ((low + high) / 2) inv' (by omega)
    · -- low' = mid
      simp only [hc, if_false]
      have hge : nth U ((low + high) / 2) ≤ node := not_lt.mp hc
      by_cases h1 : high - low = 1
      · -- mid = low: the exit test holds
        have hm : (low + high) / 2 = low := by omega
        have hm2 : ((low + high) / 2 + high) / 2 = low := by rw [hm]; omega
        rw [hm2]
        have hexit : nth U low ≤ node ∧ node < nth U (low + 1) := by
          refine ⟨inv.lo, ?_⟩
          have e : low + 1 = high := by omega
          rw [e]
          by_cases hh : high ≤ n
          · exact inv.hi hh
          · -- high = n + 1, low = n : impossible, node < U[n] = U[low] ≤ node
            have : low = n := by have := inv.hi_le; omega
            rw [this] at inv
            have := inv.lo
            have := inv.below_max
            linarith
        simp [hexit]
      · have hmid_hi : (low + high) / 2 < high := by omega
        have inv' : SearchInv U n node ((low + high) / 2) high :=
          ⟨hmid_hi, inv.hi_le, hge, inv.hi, inv.below_max⟩
        split
        · exact ⟨_, rfl⟩
        · exact ih ((low + high) / 2) high inv' (by omega)

/-- **`span` is total on the interval**: for an ordered knot vector with `degree < npts` every node of `[umin, umax]`
gets a span (the search does not run out of fuel) -/
theorem span_total (k : KV) (hk : Ordered k) (hdeg : k.deg < k.npts) (u : Rat)
    (hu : k.umin ≤ u ∧ u ≤ k.umax) : ∃ s, k.span u = .ok s := by
  have hv : k.validNode u = true := by
    simp only [KV.validNode, Bool.not_eq_true', Bool.or_eq_false_iff, decide_eq_false_iff_not, not_lt]
    exact ⟨hu.1, hu.2⟩
  simp only [KV.span, hv, Bool.not_true, Bool.false_eq_true, if_false]
  unfold KV.spanSingle
  by_cases he : (u == k.umax) = true
  · simp [he]
  · simp only [he, Bool.false_eq_true, if_false]
    have hne : u ≠ k.umax := by simpa using he
    have hlen := hk.len
    have hmono : ∀ a b, a ≤ b → b ≤ k.npts → nth k.v a ≤ nth k.v b :=
      fun a b hab hb => hk.mono a b hab (by omega)
    have inv : SearchInv k.v k.npts u k.deg (k.npts + 1) :=
      ⟨by omega, le_refl _, hu.1, fun h => by omega, lt_of_le_of_ne hu.2 hne⟩
    obtain ⟨s, hs⟩ := spanSearch_terminates k.v k.npts u hmono (k.v.length + 2) k.deg (k.npts + 1) inv (by omega)
    have e : (k.deg + k.npts + 1) / 2 = (k.deg + (k.npts + 1)) / 2 := by ring_nf
    rw [e, hs]
    exact ⟨s, rfl⟩

end NV
