/-
Proofs/EvalNodes.lean — `evalNodes` (the model of `eval_spline_nodes` on a node list) returns the transposed matrix
of Cox–de Boor rows, and only succeeds when every node lies in the interval.
-/
import NurbsVerif.Proofs.Lookup
import NurbsVerif.Proofs.GramAlg

namespace NV
open Finset

theorem mapM_ok_mem {α β : Type} (f : α → Except Err β) (l : List α) (r : List β) (h : l.mapM f = .ok r) :
    ∀ a ∈ l, ∃ b, f a = .ok b := by
  induction l generalizing r with
  | nil => intro a ha; simp at ha
  | cons x xs ih =>
    intro a ha
    rw [List.mapM_cons] at h
    simp only [bind, Except.bind] at h
    split at h
    · cases h
    · rename_i b hb
      split at h
      · cases h
      · rename_i bs hbs
        rcases List.mem_cons.mp ha with rfl | ha
        · exact ⟨b, hb⟩
        · exact ih bs hbs a ha

theorem mapM_ok_vals {α β : Type} (f : α → Except Err β) (l : List α) (r : List β) (h : l.mapM f = .ok r)
    (g : α → β) (hg : ∀ a ∈ l, ∀ b, f a = .ok b → b = g a) : r = l.map g := by
  induction l generalizing r with
  | nil =>
    simp only [List.mapM_nil, pure, Except.pure, Except.ok.injEq] at h
    subst h; rfl
  | cons x xs ih =>
    rw [List.mapM_cons] at h
    simp only [bind, Except.bind] at h
    split at h
    · cases h
    · rename_i b hb
      split at h
      · cases h
      · rename_i bs hbs
        simp only [pure, Except.pure, Except.ok.injEq] at h
        subst h
        rw [List.map_cons, hg x (by simp) b hb, ih bs hbs (fun a ha => hg a (by simp [ha]))]

theorem basisRowT_ok_valid (k : KV) (t : Table) (j : Nat) (node : Rat) (row : List Rat)
    (h : basisRowT k t j node = .ok row) : k.umin ≤ node ∧ node ≤ k.umax := by
  unfold basisRowT at h
  simp only [bind, Except.bind] at h
  split at h
  · cases h
  · rename_i s hs
    by_contra hc
    have : node < k.umin ∨ k.umax < node := by
      by_contra h2
      push Not at h2
      exact hc ⟨h2.1, h2.2⟩
    rw [span_outside k node this] at hs
    cases hs

/-- `evalNodes` on a non-empty node list: the transposed list of Cox–de Boor rows -/
theorem evalNodes_spec (k : KV) (g : GoodKV k) (hchk : orderedCheck k = true) (nodes : List Rat) (hne : nodes ≠ [])
    (F : Mat) (h : evalNodes k none nodes k.deg = .ok F) :
    F = transpose (nodes.map (cdbRow k.v k.umax k.npts k.deg)) ∧ ∀ x ∈ nodes, k.umin ≤ x ∧ x ≤ k.umax := by
  unfold evalNodes at h
  simp only [bind, Except.bind, pure, Except.pure] at h
  split at h
  · cases h
  · rename_i t ht
    split at h
    · cases h
    · rename_i cols hcols
      have hvalid : ∀ x ∈ nodes, k.umin ≤ x ∧ x ≤ k.umax := by
        intro x hx
        obtain ⟨b, hb⟩ := mapM_ok_mem _ nodes cols hcols x hx
        split at hb
        · cases hb
        · rename_i row hrow
          exact basisRowT_ok_valid k t k.deg x row hrow
      have hcols' : cols = nodes.map (cdbRow k.v k.umax k.npts k.deg) := by
        apply mapM_ok_vals _ nodes cols hcols
        intro x hx b hb
        split at hb
        · cases hb
        · rename_i row hrow
          simp only [Except.ok.injEq] at hb
          subst hb
          obtain ⟨t', ht', hc⟩ := evalCheck_of_good k g hchk k.deg (le_refl _) x (hvalid x hx)
          rw [ht] at ht'
          simp only [Except.ok.injEq] at ht'
          subst ht'
          rw [basisRowT_eq_cdbRow_of_check k t k.deg x hc] at hrow
          simp only [Except.ok.injEq] at hrow
          exact hrow.symm
      subst hcols'
      have hnemp : (nodes.map (cdbRow k.v k.umax k.npts k.deg)).isEmpty = false := by
        cases nodes with
        | nil => exact absurd rfl hne
        | cons a as => rfl
      rw [hnemp] at h
      simp only [Bool.false_eq_true, if_false, Except.ok.injEq] at h
      exact ⟨h.symm, hvalid⟩

theorem cdbRows_shaped (k : KV) (nodes : List Rat) :
    Shaped (nodes.map (cdbRow k.v k.umax k.npts k.deg)) nodes.length k.npts := by
  refine ⟨by simp, ?_⟩
  intro row hrow
  obtain ⟨x, _, rfl⟩ := List.mem_map.mp hrow
  simp [cdbRow]

theorem ent_evalNodes (k : KV) (nodes : List Rat) (hne : 0 < nodes.length) (j n : Nat) (hj : j < k.npts) (hn : n < nodes.length) :
    ent (transpose (nodes.map (cdbRow k.v k.umax k.npts k.deg))) j n
      = (cdbRow k.v k.umax k.npts k.deg (nodes.getD n 0)).getD j 0 := by
  rw [ent_transpose _ nodes.length k.npts j n (cdbRows_shaped k nodes) hne hj hn]
  unfold ent
  simp [List.getD_eq_getElem?_getD, hn]

end NV
