/-
Proofs/Refine.lean — `Operations.matrix_transformation(a, b)` for vectors of equal degree: when `b` refines `a`
(every value occurs in `b` at least as often as in `a`), the returned matrix maps the coefficients of every spline
function over `a` to the coefficients of the same function over `b`.  This is the step every binary operator of the
library takes before it combines control points.
-/
import NurbsVerif.Proofs.InsertMat
import NurbsVerif.Props.C04Eval
import NurbsVerif.Model.LSQ

namespace NV
open Finset

theorem sorted_eq_of_cnt (l1 l2 : List Rat) (h1 : sortedLE l1 = true) (h2 : sortedLE l2 = true)
    (hc : ∀ x, cnt l1 x = cnt l2 x) : l1 = l2 := by
  apply List.Perm.eq_of_pairwise (le := (· ≤ ·))
  · intro a b _ _ h1 h2; exact le_antisymm h1 h2
  · exact pairwise_of_sortedLE l1 h1
  · exact pairwise_of_sortedLE l2 h2
  · rw [List.perm_iff_count]
    intro a
    rw [← cnt_eq_count, ← cnt_eq_count]; exact hc a

theorem insert_nil (a : KV) (hwf : WF a.v a.deg) : a.insert [] = .ok a := by
  have hd : a.deg = cnt a.v (a.v.headD 0) - 1 := by have := hwf.first; omega
  have hv := WF_isValid a.v a.deg hd hwf
  unfold KV.insert
  simp only [KV.validNodes, List.all_nil, Bool.not_true, Bool.false_eq_true, if_false, List.append_nil]
  rw [isort_sorted a.v hwf.sorted]
  unfold KV.mk?
  rw [if_pos hv]
  simp only []
  cases a
  simp only at hd ⊢
  rw [← hd]

theorem cnt_flatMap_replicate (ds : List Rat) (hds : ds.Nodup) (mult : Rat → Nat) (x : Rat) :
    cnt (ds.flatMap fun kn => List.replicate (mult kn) kn) x = if x ∈ ds then mult x else 0 := by
  rw [cnt_eq_count, List.count_flatMap]
  have e : (List.count x ∘ fun kn => List.replicate (mult kn) kn) = fun kn => if kn = x then mult kn else 0 := by
    funext kn
    simp only [Function.comp, List.count_replicate, beq_iff_eq]
  rw [e, sum_map_ite ds hds x mult]

/-- `b` refines `a` -/
def Refines (a b : KV) : Prop := ∀ x, cnt a.v x ≤ cnt b.v x

/-- **the transformation matrix to a refinement of the same degree reproduces every spline function** -/
theorem matrixTransformation_repro (a b : KV) (m : Mat) (hwa : WF a.v a.deg) (hwb : WF b.v b.deg)
    (hsep : Separated (a.v ++ b.v)) (hdeg : a.deg = b.deg) (href : Refines a b)
    (h : matrixTransformation a b = .ok m) : Repro a b m := by
  unfold matrixTransformation at h
  simp only [bind, Except.bind, pure, Except.pure] at h
  split at h
  · cases h
  · rename_i hlim
    split at h
    · cases h
    · have h0 : b.deg - a.deg = 0 := by omega
      rw [h0] at h
      simp only [degreeIncreaseMat, if_true, pure, Except.pure] at h
      have hrep0 : KV.repeatList 0 a.knots = [] := by simp [KV.repeatList]
      rw [hrep0, insert_nil a hwa] at h
      simp only [] at h
      split at h
      · cases h
      · rename_i mins hmins
        simp only [Except.ok.injEq] at h
        subst h
        -- separation facts
        have hsepA : Separated a.v := separated_of_subset _ _ hsep (fun y hy => by simp [hy])
        have hsepB : Separated b.v := separated_of_subset _ _ hsep (fun y hy => by simp [hy])
        have gb : GoodKV b := by
          have := goodKV_of_WF b.v b.deg hwb hsepB
          cases b; exact this
        have hmultA : ∀ x ∈ b.v, a.multSingle x = cnt a.v x := by
          intro x hx
          apply mult_spec
          intro y hy
          by_cases e : y = x
          · exact Or.inl e
          · right
            exact le_trans tol9_le_tol6 (hsep x (by simp [hx]) y (by simp [hy]) (fun h => e h.symm))
        have hmultB : ∀ x ∈ b.v, b.multSingle x = cnt b.v x := by
          intro x hx
          apply mult_spec
          intro y hy
          by_cases e : y = x
          · exact Or.inl e
          · right
            exact le_trans tol9_le_tol6 (hsepB x hx y hy (fun h => e h.symm))
        have hknots_sub : ∀ x ∈ b.knots, x ∈ b.v := by
          intro x hx
          obtain ⟨i, _, hi2, rfl⟩ := (mem_knots b gb x).mp hx
          have := gb.ord.len
          exact nth_mem b.v i (by omega)
        set toIns := b.knots.flatMap fun kn => List.replicate (b.multSingle kn - a.multSingle kn) kn with htoIns
        have hsub : ∀ y ∈ toIns, y ∈ b.v := by
          intro y hy
          rw [htoIns, List.mem_flatMap] at hy
          obtain ⟨kn, hkn, hy⟩ := hy
          rw [List.eq_of_mem_replicate hy]
          exact hknots_sub kn hkn
        have hsep2 : Separated (a.v ++ toIns) := by
          apply separated_of_subset _ _ hsep
          intro y hy
          rcases List.mem_append.mp hy with h1 | h1
          · simp [h1]
          · simp [hsub y h1]
        obtain ⟨kf, hrep, hwff, hkfv⟩ := knotInsertMat_reached a toIns mins hwa hsep2 hmins
        -- ends
        have hfa : nth a.v 0 = a.umin := (umin_eq_first a.v a.deg hwa).symm
        have hfb : nth b.v 0 = b.umin := (umin_eq_first b.v b.deg hwb).symm
        have hla : a.v.getLastD 0 = a.umax := by
          have := umax_eq_last a.v a.deg hwa; unfold KV.umax KV.npts; exact this.symm
        have hlb : b.v.getLastD 0 = b.umax := by
          have := umax_eq_last b.v b.deg hwb; unfold KV.umax KV.npts; exact this.symm
        have hlim' : a.umin = b.umin ∧ a.umax = b.umax := by
          have : a.limits = b.limits := by simpa using hlim
          simpa [KV.limits] using this
        -- the reached vector is `b`
        have hcount : ∀ x, cnt (a.v ++ interiorNodes a toIns) x = cnt b.v x := by
          intro x
          rw [cnt_append]
          by_cases hx1 : x = nth a.v 0
          · have hz : cnt (interiorNodes a toIns) x = 0 := by
              rw [cnt_eq_count, List.count_eq_zero]
              intro hm
              have := (List.mem_filter.mp hm).2
              simp [hx1] at this
            have c1 := hwa.first; rw [headD_eq_nth] at c1
            have c2 := hwb.first; rw [headD_eq_nth, hfb, ← hlim'.1, ← hfa] at c2
            rw [hz, hx1, c1, c2, hdeg]
          · by_cases hx2 : x = a.v.getLastD 0
            · have hz : cnt (interiorNodes a toIns) x = 0 := by
                rw [cnt_eq_count, List.count_eq_zero]
                intro hm
                have := (List.mem_filter.mp hm).2
                simp [hx2] at this
              have c1 := hwa.last
              have c2 := hwb.last; rw [hlb, ← hlim'.2, ← hla] at c2
              rw [hz, hx2, c1, c2, hdeg]
            · have hint : cnt (interiorNodes a toIns) x = cnt toIns x := by
                rw [cnt_eq_count, cnt_eq_count]
                unfold interiorNodes
                rw [List.count_filter]
                simp only [Bool.and_eq_true, Bool.not_eq_true', beq_eq_false_iff_ne, ne_eq]
                exact ⟨hx1, hx2⟩
              rw [hint, htoIns, cnt_flatMap_replicate b.knots (knots_nodup b) (fun kn => b.multSingle kn - a.multSingle kn) x]
              by_cases hxb : x ∈ b.v
              · -- an interior value of `b` is one of its distinct knots
                have hxk : x ∈ b.knots := by
                  rw [mem_knots b gb x]
                  obtain ⟨i, hi, rfl⟩ := List.mem_iff_getElem.mp hxb
                  rw [← nth_eq_getElem b.v i hi] at hx1 hx2 ⊢
                  have hlenb := gb.ord.len
                  refine ⟨i, ?_, ?_, rfl⟩
                  · by_contra hc
                    apply hx1
                    have := prefix_eq_head b.v hwb.sorted (b.deg + 1) i
                      (by have := hwb.first; rw [headD_eq_nth] at this; exact this) (by omega)
                    rw [this, hfb, ← hlim'.1, ← hfa]
                  · by_contra hc
                    apply hx2
                    have hpos : 0 < b.v.length := by omega
                    have := suffix_eq_last b.v hwb.sorted (b.deg + 1) i
                      (by have := hwb.last; rw [getLastD_eq_nth b.v hpos] at this; exact this) (by omega) hi
                    rw [this, ← getLastD_eq_nth b.v hpos, hlb, ← hlim'.2, ← hla]
                rw [if_pos hxk, hmultA x hxb, hmultB x hxb]
                have := href x
                omega
              · have hxk : x ∉ b.knots := fun h => hxb (hknots_sub x h)
                rw [if_neg hxk]
                have hb0 : cnt b.v x = 0 := by rw [cnt_eq_count]; exact List.count_eq_zero.mpr hxb
                have := href x
                omega
        have hkfb : kf.v = b.v := by
          rw [hkfv]
          apply sorted_eq_of_cnt _ _ (sortedLE_isort _) hwb.sorted
          intro x
          rw [cnt_isort]; exact hcount x
        have hkf : kf = b := by
          have hd := hrep.deg
          cases kf; cases b
          simp only at hkfb hd hdeg
          simp [hkfb, hd, hdeg]
        subst hkf
        have hn0 : 0 < a.npts := by have := hwa.npts_gt; unfold KV.npts; omega
        refine ⟨hrep.deg, ?_, hrep.umin, hrep.umax, ?_⟩
        · exact matMul_shaped mins (identity a.npts) _ _ _ hrep.shaped (identity_shaped _) hn0
        · intro f hf u hu
          rw [matVec_matMul mins (identity a.npts) _ _ _ hrep.shaped (identity_shaped _) hn0 f hf,
            matVec_identity _ f hf]
          exact hrep.repro f hf u hu

end NV
