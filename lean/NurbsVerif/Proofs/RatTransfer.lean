/-
Proofs/RatTransfer.lean — the rational step shared by insertion and splitting: if the weights and the homogeneous points
of a rational curve are mapped by one matrix `m`, the new points divided by the new weights, and `m` reproduces every
spline function at the parameter `u` (`row' · (m g) = row · g` for every coefficient list `g`), then the value
`Σ R_i(u) P_i` at `u` is unchanged.
-/
import NurbsVerif.Props.C04Rat

namespace NV
open Finset

theorem curveDef_rational_transfer (U' : List Rat) (umax' : Rat) (n' p' : Nat) (U : List Rat) (umax : Rat) (n p : Nat)
    (m : Mat) (pts : List Vec) (ws : List Rat) (d : Nat) (u : Rat)
    (hm : Shaped m n' n) (hn0 : 0 < n) (hn' : 0 < n') (hlen : pts.length = n) (hwl : ws.length = n)
    (hdim : ∀ q ∈ pts, q.length = d) (hnz : ¬ ((matVec m ws).any (· == 0)) = true)
    (hR : ∀ g : List Rat, g.length = n → dot (cdbRow U' umax' n' p' u) (matVec m g) = dot (cdbRow U umax n p u) g) :
    curveDef U' umax' n' p' (Curve.unweighted (matVec m ws) (matPts m (Curve.weighted ws pts))) (some (matVec m ws)) u
      = curveDef U umax n p pts (some ws) u := by
  unfold curveDef
  simp only []
  set row' := cdbRow U' umax' n' p' u with hrow'
  set row := cdbRow U umax n p u with hrow
  set ws' := matVec m ws with hws'
  set Q := matPts m (Curve.weighted ws pts) with hQ
  have hden' : dot row' ws' = dot row ws := hR ws hwl
  have lrow' : row'.length = n' := by simp [hrow', cdbRow]
  have lrow : row.length = n := by simp [hrow, cdbRow]
  have lws' : ws'.length = n' := by rw [hws', matVec_length, hm.1]
  have lwp : (Curve.weighted ws pts).length = n := by simp [Curve.weighted, hwl, hlen]
  have dwp : ∀ q ∈ Curve.weighted ws pts, q.length = d := by
    unfold Curve.weighted
    have := zipWith_vscale_dims (fun w => w) ws pts d hdim
    simpa using this
  have lQ : Q.length = n' := by simp [hQ, matPts, hm.1]
  have dQ := matPts_dims m (Curve.weighted ws pts) d _ _ hm lwp hn0 dwp
  have lP' : (Curve.unweighted ws' Q).length = n' := by simp [Curve.unweighted, lws', lQ]
  have dP' : ∀ q ∈ Curve.unweighted ws' Q, q.length = d := by
    unfold Curve.unweighted
    exact zipWith_vscale_dims (fun w => 1 / w) ws' Q d dQ
  have lr1 : (ratRow ws' row').length = (Curve.unweighted ws' Q).length := by
    simp [ratRow, lws', lrow', lP']
  have lr2 : (ratRow ws row).length = pts.length := by simp [ratRow, hwl, lrow, hlen]
  obtain ⟨l1, c1⟩ := lincomb_spec _ _ d lr1 (by omega) dP'
  obtain ⟨l2, c2⟩ := lincomb_spec _ _ d lr2 (by omega) hdim
  apply vec_ext_getD _ _ (by rw [l1, l2])
  intro j
  rw [c1 j, c2 j]
  have lc1 : (coordCol (Curve.unweighted ws' Q) j).length = n' := by simp [coordCol, lP']
  have lc2 : (coordCol pts j).length = n := by simp [coordCol, hlen]
  rw [dot_ratRow ws' row' _ n' lws' lrow' lc1, dot_ratRow ws row _ n hwl lrow lc2]
  rw [dot_comm ws' row', hden', dot_comm ws row]
  congr 1
  have hnum' : ∑ i ∈ range n', row'.getD i 0 * (ws'.getD i 0 * (coordCol (Curve.unweighted ws' Q) j).getD i 0)
      = dot row' (coordCol Q j) := by
    rw [dot_eq_sum row' (coordCol Q j) n' lrow' (by simp [coordCol, lQ])]
    apply sum_congr rfl
    intro i hi
    simp only [mem_range] at hi
    unfold Curve.unweighted
    rw [coordCol_zipWith_vscale (fun w => 1 / w) ws' Q j,
      getD_zipWith _ ws' (coordCol Q j) n' lws' (by simp [coordCol, lQ]) i hi]
    have hne : ws'.getD i 0 ≠ 0 := by
      intro e
      apply hnz
      simp only [List.any_eq_true, beq_iff_eq]
      have hil : i < ws'.length := by omega
      refine ⟨ws'[i], List.getElem_mem hil, ?_⟩
      simpa [List.getD_eq_getElem?_getD, hil] using e
    field_simp
  have hnum : ∑ i ∈ range n, row.getD i 0 * (ws.getD i 0 * (coordCol pts j).getD i 0)
      = dot row (coordCol (Curve.weighted ws pts) j) := by
    rw [dot_eq_sum row _ n lrow (by simp [coordCol, lwp])]
    apply sum_congr rfl
    intro i hi
    simp only [mem_range] at hi
    unfold Curve.weighted
    rw [coordCol_zipWith_vscale (fun w => w) ws pts j, getD_zipWith _ ws (coordCol pts j) n hwl lc2 i hi]
  rw [hnum', hnum, hQ, coordCol_matPts m _ d _ _ hm lwp hn0 dwp j]
  exact hR _ (by simp [coordCol, lwp])

end NV
