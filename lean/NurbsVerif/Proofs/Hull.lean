/-
Proofs/Hull.lean — convex-hull property: a combination with non-negative coefficients summing to one
stays between the smallest and the largest of the combined values.  With C02 (non-negativity,
partition of unity) this bounds every coordinate of a polynomial B-spline curve by the bounding box
of its control points — the fact behind the bounding-box rejection of `Intersection` (C20).
-/
import NurbsVerif.Proofs.Eval
import Mathlib.Algebra.BigOperators.Intervals
import Mathlib.Algebra.Order.BigOperators.Group.Finset
import Mathlib.Algebra.Order.BigOperators.Ring.Finset

namespace NV
open Finset

/-- a convex combination lies between any lower and upper bound of the combined values -/
theorem convex_combination_bounds (n : Nat) (c v : Nat → Rat) (lo hi : Rat)
    (hc : ∀ i, i < n → 0 ≤ c i) (hsum : ∑ i ∈ range n, c i = 1)
    (hlo : ∀ i, i < n → lo ≤ v i) (hhi : ∀ i, i < n → v i ≤ hi) :
    lo ≤ ∑ i ∈ range n, c i * v i ∧ ∑ i ∈ range n, c i * v i ≤ hi := by
  have e1 : ∑ i ∈ range n, c i * lo = lo := by rw [← Finset.sum_mul, hsum, one_mul]
  have e2 : ∑ i ∈ range n, c i * hi = hi := by rw [← Finset.sum_mul, hsum, one_mul]
  have h1 : ∑ i ∈ range n, c i * lo ≤ ∑ i ∈ range n, c i * v i := by
    apply Finset.sum_le_sum
    intro i hi'
    simp only [mem_range] at hi'
    exact mul_le_mul_of_nonneg_left (hlo i hi') (hc i hi')
  have h2 : ∑ i ∈ range n, c i * v i ≤ ∑ i ∈ range n, c i * hi := by
    apply Finset.sum_le_sum
    intro i hi'
    simp only [mem_range] at hi'
    exact mul_le_mul_of_nonneg_left (hhi i hi') (hc i hi')
  constructor <;> linarith

/-- **convex hull property of B-spline curves**: on every span (closed at umax) each coordinate
`Σ_i N_{i,p}(u) P_i[d]` of a polynomial spline lies between the smallest and largest `P_i[d]` -/
theorem spline_coordinate_in_box (k : KV) (hk : Ordered k) (sz : Nat) (u : Rat) (hp : k.deg ≤ sz) (hs : sz < k.npts)
    (h : InSpan (nth k.v) k.umax sz u) (v : Nat → Rat) (lo hi : Rat)
    (hlo : ∀ i, i < k.npts → lo ≤ v i) (hhi : ∀ i, i < k.npts → v i ≤ hi) :
    lo ≤ ∑ i ∈ range k.npts, cdb k.v k.umax i k.deg u * v i
      ∧ ∑ i ∈ range k.npts, cdb k.v k.umax i k.deg u * v i ≤ hi := by
  have hlen := hk.len
  apply convex_combination_bounds k.npts (fun i => cdb k.v k.umax i k.deg u) v lo hi
  · intro i hi'
    rw [cdb_eq_cdbF]
    exact cdbF_nonneg (nth k.v) k.umax (k.v.length - 1) hk.mono hk.le_umax sz u (by omega) h k.deg i (by omega)
  · simp only [cdb_eq_cdbF]
    exact cdbF_sum_one (nth k.v) k.umax (k.v.length - 1) hk.mono hk.le_umax sz u h k.deg k.npts hp hs (by omega)
  · exact hlo
  · exact hhi

/-- a convex combination of values all strictly above `m` is strictly above `m` -/
theorem convex_combination_gt (n : Nat) (c v : Nat → Rat) (m : Rat)
    (hc : ∀ i, i < n → 0 ≤ c i) (hsum : ∑ i ∈ range n, c i = 1) (hv : ∀ i, i < n → m < v i) :
    m < ∑ i ∈ range n, c i * v i := by
  have hex : ∃ i ∈ range n, 0 < c i := by
    by_contra hno
    push Not at hno
    have : ∑ i ∈ range n, c i = 0 := by
      apply Finset.sum_eq_zero
      intro i hi
      have h1 := hno i hi
      have h2 := hc i (by simpa using hi)
      linarith
    rw [this] at hsum
    norm_num at hsum
  have hpos : 0 < ∑ i ∈ range n, c i * (v i - m) := by
    apply Finset.sum_pos'
    · intro i hi
      have hi' : i < n := by simpa using hi
      exact mul_nonneg (hc i hi') (by linarith [hv i hi'])
    · obtain ⟨i, hi, hci⟩ := hex
      have hi' : i < n := by simpa using hi
      exact ⟨i, hi, mul_pos hci (by linarith [hv i hi'])⟩
  have : ∑ i ∈ range n, c i * (v i - m) = ∑ i ∈ range n, c i * v i - m := by
    simp only [mul_sub, Finset.sum_sub_distrib, ← Finset.sum_mul, hsum, one_mul]
  linarith

/-- **bounding boxes**: if in some coordinate every control value of `A` is at most `m` and every control value of `B`
is above `m`, then `A(t)[d] ≤ m < B(u)[d]` for all parameters: the curves cannot meet — disjoint boxes ⇒ no intersection -/
theorem disjoint_boxes_no_meeting (ka kb : KV) (hka : Ordered ka) (hkb : Ordered kb)
    (sa sb : Nat) (t u : Rat) (hpa : ka.deg ≤ sa) (hsa : sa < ka.npts) (hpb : kb.deg ≤ sb) (hsb : sb < kb.npts)
    (hta : InSpan (nth ka.v) ka.umax sa t) (hub : InSpan (nth kb.v) kb.umax sb u)
    (va vb : Nat → Rat) (m lo : Rat)
    (hAlo : ∀ i, i < ka.npts → lo ≤ va i) (hA : ∀ i, i < ka.npts → va i ≤ m) (hB : ∀ i, i < kb.npts → m < vb i) :
    ∑ i ∈ range ka.npts, cdb ka.v ka.umax i ka.deg t * va i
      < ∑ i ∈ range kb.npts, cdb kb.v kb.umax i kb.deg u * vb i := by
  have h1 := (spline_coordinate_in_box ka hka sa t hpa hsa hta va lo m hAlo hA).2
  have hlen := hkb.len
  have h2 : m < ∑ i ∈ range kb.npts, cdb kb.v kb.umax i kb.deg u * vb i := by
    apply convex_combination_gt kb.npts (fun i => cdb kb.v kb.umax i kb.deg u) vb m
    · intro i hi'
      rw [cdb_eq_cdbF]
      exact cdbF_nonneg (nth kb.v) kb.umax (kb.v.length - 1) hkb.mono hkb.le_umax sb u (by omega) hub kb.deg i (by omega)
    · simp only [cdb_eq_cdbF]
      exact cdbF_sum_one (nth kb.v) kb.umax (kb.v.length - 1) hkb.mono hkb.le_umax sb u hub kb.deg kb.npts hpb hsb (by omega)
    · exact hB
  linarith

end NV
