/-
Proofs/MatVec.lean — list-level linear algebra used by the insertion / elevation theorems:
matrix–vector products, associativity with the matrix product, the identity, and the coordinates of
`lincomb` / `matPts` (matrix × list of points).
-/
import NurbsVerif.Proofs.Matrix

namespace NV
open Finset

theorem matVec_length (A : Mat) (f : List Rat) : (matVec A f).length = A.length := by simp [matVec]

theorem matVec_getD (A : Mat) (f : List Rat) (i : Nat) (hi : i < A.length) :
    (matVec A f).getD i 0 = dot (A.getD i []) f := by
  simp [matVec, List.getD_eq_getElem?_getD, hi]

theorem matVec_getD_sum (A : Mat) (r n : Nat) (hA : Shaped A r n) (f : List Rat) (hf : f.length = n)
    (i : Nat) (hi : i < r) : (matVec A f).getD i 0 = ∑ k ∈ range n, ent A i k * f.getD k 0 := by
  rw [matVec_getD A f i (by rw [hA.1]; exact hi), dot_eq_sum _ _ n (getD_mem_shaped A r n i hA hi) hf]
  rfl

theorem list_ext_getD (a b : List Rat) (h : a.length = b.length) (he : ∀ i, i < a.length → a.getD i 0 = b.getD i 0) :
    a = b := by
  apply List.ext_getElem h
  intro i h1 h2
  have := he i h1
  simpa [List.getD_eq_getElem?_getD, h1, h2] using this

/-- `(A·B) f = A (B f)` -/
theorem matVec_matMul (A B : Mat) (r n c : Nat) (hA : Shaped A r n) (hB : Shaped B n c) (hn : 0 < n)
    (f : List Rat) (hf : f.length = c) : matVec (matMul A B) f = matVec A (matVec B f) := by
  have hAB := matMul_shaped A B r n c hA hB hn
  apply list_ext_getD
  · rw [matVec_length, matVec_length, hAB.1, hA.1]
  · intro i hi
    rw [matVec_length, hAB.1] at hi
    rw [matVec_getD_sum (matMul A B) r c hAB f hf i hi,
      matVec_getD_sum A r n hA (matVec B f) (by rw [matVec_length, hB.1]) i hi]
    have e1 : ∀ j ∈ range c, ent (matMul A B) i j * f.getD j 0
        = ∑ k ∈ range n, ent A i k * ent B k j * f.getD j 0 := by
      intro j hj
      simp only [mem_range] at hj
      rw [ent_matMul A B r n c i j hA hB hn hi hj, sum_mul]
    have e2 : ∀ k ∈ range n, ent A i k * (matVec B f).getD k 0
        = ∑ j ∈ range c, ent A i k * ent B k j * f.getD j 0 := by
      intro k hk
      simp only [mem_range] at hk
      rw [matVec_getD_sum B n c hB f hf k hk, mul_sum]
      apply sum_congr rfl
      intro j _; ring
    rw [sum_congr rfl e1, sum_congr rfl e2, sum_comm]

theorem identity_shaped (n : Nat) : Shaped (identity n) n n := by
  refine ⟨by simp [identity], ?_⟩
  intro row hrow
  simp only [identity, List.mem_map, List.mem_range] at hrow
  obtain ⟨i, _, rfl⟩ := hrow
  simp

theorem matVec_identity (n : Nat) (f : List Rat) (hf : f.length = n) : matVec (identity n) f = f := by
  apply list_ext_getD
  · rw [matVec_length, (identity_shaped n).1, hf]
  · intro i hi
    rw [matVec_length, (identity_shaped n).1] at hi
    rw [matVec_getD_sum (identity n) n n (identity_shaped n) f hf i hi]
    have e : ∀ k ∈ range n, ent (identity n) i k * f.getD k 0 = if k = i then f.getD i 0 else 0 := by
      intro k hk
      simp only [mem_range] at hk
      rw [ent_identity n i k hi hk]
      by_cases h : i = k
      · subst h; simp
      · have h' : ¬ k = i := fun e => h e.symm
        simp [h, h']
    rw [sum_congr rfl e, Finset.sum_ite_eq' (range n) i (fun _ => f.getD i 0)]
    simp [hi]

/-! ### coordinates of linear combinations of points -/

theorem vadd_getD (a b : Vec) (d : Nat) (ha : a.length = d) (hb : b.length = d) (j : Nat) :
    (vadd a b).getD j 0 = a.getD j 0 + b.getD j 0 := by
  induction a generalizing b d j with
  | nil =>
    simp at ha; subst ha
    have : b = [] := List.length_eq_zero_iff.mp hb
    subst this; simp [vadd]
  | cons x xs ih =>
    cases b with
    | nil => simp at hb; subst hb; simp at ha
    | cons y ys =>
      cases d with
      | zero => simp at ha
      | succ d =>
        simp only [List.length_cons, Nat.add_right_cancel_iff] at ha hb
        cases j with
        | zero => simp [vadd]
        | succ j => simp only [vadd, List.getD_cons_succ]; exact ih ys d ha hb j

theorem vadd_length (a b : Vec) (d : Nat) (ha : a.length = d) (hb : b.length = d) : (vadd a b).length = d := by
  induction a generalizing b d with
  | nil => simp at ha; subst ha; simpa [vadd] using hb
  | cons x xs ih =>
    cases b with
    | nil => simp at hb; subst hb; simp at ha
    | cons y ys =>
      cases d with
      | zero => simp at ha
      | succ d =>
        simp only [List.length_cons, Nat.add_right_cancel_iff] at ha hb
        simp [vadd, ih ys d ha hb]

theorem vscale_getD (c : Rat) (v : Vec) (j : Nat) : (vscale c v).getD j 0 = c * v.getD j 0 := by
  unfold vscale
  by_cases h : j < v.length
  · simp [List.getD_eq_getElem?_getD, h]
  · simp [List.getD_eq_getElem?_getD, h]

/-- the list of `j`-th coordinates -/
def coordCol (pts : List Vec) (j : Nat) : List Rat := pts.map (·.getD j 0)

/-- `lincomb` of at least one point of uniform dimension `d` has dimension `d` and coordinates `dot` -/
theorem lincomb_spec (coefs : Vec) (pts : List Vec) (d : Nat) (hlen : coefs.length = pts.length) (hpos : 0 < pts.length)
    (hd : ∀ p ∈ pts, p.length = d) :
    (lincomb coefs pts).length = d ∧ ∀ j, (lincomb coefs pts).getD j 0 = dot coefs (coordCol pts j) := by
  induction coefs generalizing pts with
  | nil => simp at hlen; omega
  | cons c cs ih =>
    cases pts with
    | nil => simp at hpos
    | cons p ps =>
      simp only [List.length_cons, Nat.add_right_cancel_iff] at hlen
      have hp : p.length = d := hd p (by simp)
      by_cases hps : ps.length = 0
      · have hps' : ps = [] := List.length_eq_zero_iff.mp hps
        have hcs' : cs = [] := List.length_eq_zero_iff.mp (by omega)
        subst hps' hcs'
        constructor
        · have hv : vadd (vscale c p) [] = vscale c p := by cases h : vscale c p <;> simp [vadd]
          simp only [lincomb, hv]
          simp [vscale, hp]
        · intro j
          have : vadd (vscale c p) [] = vscale c p := by cases h : vscale c p <;> simp [vadd]
          simp only [lincomb, this, vscale_getD, coordCol, List.map_cons, List.map_nil, dot]
          ring
      · obtain ⟨ih1, ih2⟩ := ih ps hlen (by omega) (fun q hq => hd q (by simp [hq]))
        have hs : (vscale c p).length = d := by simp [vscale, hp]
        constructor
        · simp only [lincomb]; exact vadd_length _ _ d hs ih1
        · intro j
          simp only [lincomb]
          rw [vadd_getD _ _ d hs ih1 j, vscale_getD, ih2 j]
          simp [coordCol, dot]

theorem vec_ext_getD (a b : Vec) (h : a.length = b.length) (he : ∀ j, a.getD j 0 = b.getD j 0) : a = b :=
  list_ext_getD a b h (fun j _ => he j)

end NV
