/-
Proofs/GramAlg.lean — algebra of the Gram accumulation of `func2func`: `gramAcc ws A B = A · diag(ws) · Bᵀ`,
sums of matrices, zero matrices, and equality of list matrices from equality of their entries.
-/
import NurbsVerif.Proofs.InvShape
import NurbsVerif.Model.LSQ
import Mathlib.Data.Matrix.Diagonal

namespace NV
open Finset

theorem sumL_eq_sum (l : List Rat) (n : Nat) (h : l.length = n) : sumL l = ∑ k ∈ range n, l.getD k 0 := by
  induction l generalizing n with
  | nil => simp at h; subst h; simp [sumL]
  | cons x xs ih =>
    cases n with
    | zero => simp at h
    | succ n =>
      simp only [List.length_cons, Nat.add_right_cancel_iff] at h
      rw [sum_range_succ', sumL, ih n h]
      simp only [List.getD_cons_succ, List.getD_cons_zero]
      ring

theorem mat_ext (A B : Mat) (r c : Nat) (hA : Shaped A r c) (hB : Shaped B r c)
    (h : ∀ i j, i < r → j < c → ent A i j = ent B i j) : A = B := by
  apply List.ext_getElem (by rw [hA.1, hB.1])
  intro i h1 h2
  have hi : i < r := by rw [← hA.1]; exact h1
  have la : (A[i]).length = c := hA.2 _ (List.getElem_mem h1)
  have lb : (B[i]).length = c := hB.2 _ (List.getElem_mem h2)
  apply List.ext_getElem (by rw [la, lb])
  intro j h3 h4
  have := h i j hi (by omega)
  unfold ent at this
  simpa [List.getD_eq_getElem?_getD, h1, h2, h3, h4] using this

theorem toM_inj (A B : Mat) (r c : Nat) (hA : Shaped A r c) (hB : Shaped B r c) (h : toM r c A = toM r c B) : A = B := by
  apply mat_ext A B r c hA hB
  intro i j hi hj
  have := congrFun (congrFun h ⟨i, hi⟩) ⟨j, hj⟩
  simpa [toM] using this

theorem matAdd_shaped (A B : Mat) (r c : Nat) (hA : Shaped A r c) (hB : Shaped B r c) : Shaped (matAdd A B) r c := by
  unfold matAdd
  refine ⟨by simp [hA.1, hB.1], ?_⟩
  intro row hrow
  rw [List.mem_iff_getElem] at hrow
  obtain ⟨i, hi, rfl⟩ := hrow
  simp only [List.length_zipWith] at hi
  simp only [List.getElem_zipWith, List.length_zipWith]
  have la : (A[i]'(by omega)).length = c := hA.2 _ (List.getElem_mem _)
  have lb : (B[i]'(by omega)).length = c := hB.2 _ (List.getElem_mem _)
  omega

theorem ent_matAdd (A B : Mat) (r c i j : Nat) (hA : Shaped A r c) (hB : Shaped B r c) (hi : i < r) (hj : j < c) :
    ent (matAdd A B) i j = ent A i j + ent B i j := by
  have h1 : i < A.length := by rw [hA.1]; exact hi
  have h2 : i < B.length := by rw [hB.1]; exact hi
  have la : (A[i]).length = c := hA.2 _ (List.getElem_mem h1)
  have lb : (B[i]).length = c := hB.2 _ (List.getElem_mem h2)
  unfold ent matAdd
  simp [List.getD_eq_getElem?_getD, h1, h2, la, lb, hj]

theorem toM_matAdd (A B : Mat) (r c : Nat) (hA : Shaped A r c) (hB : Shaped B r c) :
    toM r c (matAdd A B) = toM r c A + toM r c B := by
  funext i j
  simp only [toM, Matrix.add_apply]
  exact ent_matAdd A B r c i j hA hB i.2 j.2

theorem zeros_shaped (r c : Nat) : Shaped (zeros r c) r c := by
  refine ⟨by simp [zeros], ?_⟩
  intro row hrow
  simp only [zeros] at hrow
  rw [List.eq_of_mem_replicate hrow]; simp

theorem toM_zeros (r c : Nat) : toM r c (zeros r c) = 0 := by
  funext i j
  simp only [toM, ent, zeros, Matrix.zero_apply]
  simp [List.getD_eq_getElem?_getD, i.2, j.2]

/-- `gramAcc ws A B` is `a × b` when `A` has `a` rows and `B` has `b` rows -/
theorem gramAcc_shaped (ws : List Rat) (A B : Mat) (a b : Nat) (hA : A.length = a) (hB : B.length = b) :
    Shaped (gramAcc ws A B) a b := by
  unfold gramAcc
  refine ⟨by simp [hA], ?_⟩
  intro row hrow
  obtain ⟨ra, _, rfl⟩ := List.mem_map.mp hrow
  simp [hB]

theorem sumL_zipWith_mul (ws v : List Rat) (n : Nat) (hv : v.length = n) :
    sumL (List.zipWith (· * ·) ws v) = ∑ k ∈ range n, ws.getD k 0 * v.getD k 0 := by
  induction v generalizing ws n with
  | nil => simp at hv; subst hv; simp [sumL]
  | cons x xs ih =>
    cases n with
    | zero => simp at hv
    | succ n =>
      simp only [List.length_cons, Nat.add_right_cancel_iff] at hv
      cases ws with
      | nil => simp [sumL]
      | cons w ws =>
        rw [sum_range_succ', List.zipWith_cons_cons, sumL, ih ws n hv]
        simp only [List.getD_cons_succ, List.getD_cons_zero]
        ring

theorem ent_gramAcc (ws : List Rat) (A B : Mat) (a b n : Nat) (hA : Shaped A a n) (hB : Shaped B b n)
    (i j : Nat) (hi : i < a) (hj : j < b) :
    ent (gramAcc ws A B) i j = ∑ k ∈ range n, ent A i k * ws.getD k 0 * ent B j k := by
  have h1 : i < A.length := by rw [hA.1]; exact hi
  have h2 : j < B.length := by rw [hB.1]; exact hj
  have la : (A[i]).length = n := hA.2 _ (List.getElem_mem h1)
  have lb : (B[j]).length = n := hB.2 _ (List.getElem_mem h2)
  unfold ent gramAcc
  simp only [List.getD_eq_getElem?_getD, List.getElem?_map, List.getElem?_eq_getElem h1, List.getElem?_eq_getElem h2,
    Option.map_some, Option.getD_some]
  rw [sumL_zipWith_mul ws _ n (by simp [la, lb])]
  apply sum_congr rfl
  intro k hk
  simp only [mem_range] at hk
  have k2 : k < (A[i]).length := by omega
  have k3 : k < (B[j]).length := by omega
  simp [List.getD_eq_getElem?_getD, List.getElem?_zipWith, k2, k3]
  ring

/-- `gramAcc ws A B = A · diag(ws) · Bᵀ` -/
theorem toM_gramAcc (ws : List Rat) (A B : Mat) (a b n : Nat) (hA : Shaped A a n) (hB : Shaped B b n) :
    toM a b (gramAcc ws A B)
      = toM a n A * Matrix.diagonal (fun k : Fin n => ws.getD k 0) * (toM b n B).transpose := by
  funext i j
  rw [Matrix.mul_apply]
  simp only [Matrix.mul_diagonal, Matrix.transpose_apply, toM]
  rw [ent_gramAcc ws A B a b n hA hB i j i.2 j.2]
  rw [← Fin.sum_univ_eq_sum_range (fun k => ent A i k * ws.getD k 0 * ent B j k) n]

theorem matSub_shaped (A B : Mat) (r c : Nat) (hA : Shaped A r c) (hB : Shaped B r c) : Shaped (matSub A B) r c := by
  unfold matSub
  refine ⟨by simp [hA.1, hB.1], ?_⟩
  intro row hrow
  rw [List.mem_iff_getElem] at hrow
  obtain ⟨i, hi, rfl⟩ := hrow
  simp only [List.length_zipWith] at hi
  simp only [List.getElem_zipWith, List.length_zipWith]
  have la : (A[i]'(by omega)).length = c := hA.2 _ (List.getElem_mem _)
  have lb : (B[i]'(by omega)).length = c := hB.2 _ (List.getElem_mem _)
  omega

theorem toM_matSub (A B : Mat) (r c : Nat) (hA : Shaped A r c) (hB : Shaped B r c) :
    toM r c (matSub A B) = toM r c A - toM r c B := by
  funext i j
  simp only [toM, Matrix.sub_apply]
  have h1 : (i : Nat) < A.length := by rw [hA.1]; exact i.2
  have h2 : (i : Nat) < B.length := by rw [hB.1]; exact i.2
  have la : (A[(i : Nat)]).length = c := hA.2 _ (List.getElem_mem h1)
  have lb : (B[(i : Nat)]).length = c := hB.2 _ (List.getElem_mem h2)
  unfold ent matSub
  simp [List.getD_eq_getElem?_getD, h1, h2, la, lb, j.2]

end NV
