/-
Proofs/SplitRefine.lean — `split_curve` cuts the *refined* knot vector (every interior cut raised to multiplicity
degree+1) while `Curve.split` takes the knot vectors of the pieces from the *original* one: both give the same pieces.
-/
import NurbsVerif.Proofs.SplitKV

namespace NV

theorem mapM_congr_mem {α β : Type} (f g : α → Except Err β) (l : List α) (h : ∀ x ∈ l, f x = g x) :
    l.mapM f = l.mapM g := by
  induction l with
  | nil => rfl
  | cons x xs ih =>
    rw [List.mapM_cons, List.mapM_cons, h x (by simp), ih (fun y hy => h y (List.mem_cons_of_mem _ hy))]

theorem cnt_nodup (l : List Rat) (hl : l.Nodup) (x : Rat) : cnt l x = if x ∈ l then 1 else 0 := by
  rw [cnt_eq_count]
  by_cases h : x ∈ l
  · rw [if_pos h]; exact List.count_eq_one_of_mem hl h
  · rw [if_neg h]; exact List.count_eq_zero_of_not_mem h

/-- sorted lists without repetition are determined by their members -/
theorem sorted_nodup_ext (l1 l2 : List Rat) (h1 : sortedLE l1 = true) (h2 : sortedLE l2 = true)
    (n1 : l1.Nodup) (n2 : l2.Nodup) (h : ∀ x, x ∈ l1 ↔ x ∈ l2) : l1 = l2 := by
  apply sorted_eq_of_cnt l1 l2 h1 h2
  intro x
  rw [cnt_nodup l1 n1, cnt_nodup l2 n2]
  by_cases c : x ∈ l1
  · rw [if_pos c, if_pos ((h x).mp c)]
  · rw [if_neg c, if_neg (fun c' => c ((h x).mpr c'))]

/-- nothing of a sorted repetition-free list lies strictly between two consecutive entries -/
theorem no_between_consecutive (l : List Rat) (hs : sortedLE l = true) (hn : l.Nodup) (i : Nat) (hi : i + 1 < l.length)
    (x : Rat) (hx : x ∈ l) : ¬ (nth l i < x ∧ x < nth l (i + 1)) := by
  intro ⟨h1, h2⟩
  obtain ⟨j, hj, rfl⟩ := List.mem_iff_getElem.mp hx
  rw [← nth_eq_getElem l j hj] at h1 h2
  rcases Nat.lt_trichotomy j i with c | c | c
  · have := strict_of_sorted_nodup l hs hn j i c (by omega); linarith
  · subst c; exact lt_irrefl _ h1
  · rcases Nat.lt_or_ge (i + 1) j with c2 | c2
    · have := strict_of_sorted_nodup l hs hn (i + 1) j c2 hj; linarith
    · have : j = i + 1 := by omega
      subst this; exact lt_irrefl _ h2

/-- the strictly-between part of a sorted list does not see inserted values that are cut points -/
theorem filter_between_isort (v many : List Rat) (hv : sortedLE v = true) (a b : Rat)
    (hmany : ∀ x ∈ many, ¬ (a < x ∧ x < b)) :
    (isort (v ++ many)).filter (fun x => decide (a < x) && decide (x < b))
      = v.filter (fun x => decide (a < x) && decide (x < b)) := by
  apply sorted_eq_of_cnt _ _ (sortedLE_filter _ _ (sortedLE_isort _)) (sortedLE_filter _ _ hv)
  intro x
  rw [cnt_filter, cnt_filter, cnt_isort, cnt_append]
  by_cases q : (decide (a < x) && decide (x < b)) = true
  · rw [if_pos q, if_pos q]
    have hq : a < x ∧ x < b := by simpa using q
    have : cnt many x = 0 := by
      apply cnt_eq_zero_of_forall_ne
      intro y hy e
      rw [e] at hy
      exact hmany x hy hq
    omega
  · rw [if_neg q, if_neg q]

end NV

namespace NV

theorem mk?_of_wf (a : KV) (hwf : WF a.v a.deg) : KV.mk? a.v = .ok a := by
  have hd : a.deg = cnt a.v (a.v.headD 0) - 1 := by have := hwf.first; omega
  have hv := WF_isValid a.v a.deg hd hwf
  unfold KV.mk?
  rw [if_pos hv]
  simp only []
  cases a
  simp only [Except.ok.injEq, KV.mk.injEq, true_and]
  exact hd.symm

theorem kv_ext (a b : KV) (hv : a.v = b.v) (hd : a.deg = b.deg) : a = b := by
  cases a; cases b; simp only [KV.mk.injEq]; exact ⟨hv, hd⟩

theorem split_refined_eq (k big : KV) (ns cuts' many : List Rat)
    (hwf : WF k.v k.deg) (hvalid : k.validNodes ns = true)
    (hcuts : cuts' = dedup (ns.filter fun nd => !(nd == nth k.v 0) && !(nd == k.v.getLastD 0)))
    (hmany : ∀ x ∈ many, x ∈ cuts')
    (hbv : big.v = isort (k.v ++ many)) (hbd : big.deg = k.deg)
    (hbmin : big.umin = k.umin) (hbmax : big.umax = k.umax) :
    k.split ns = big.split cuts' := by
  have hfirst : nth k.v 0 = k.umin := (umin_eq_first k.v k.deg hwf).symm
  have hlast : k.v.getLastD 0 = k.umax := by
    have := umax_eq_last k.v k.deg hwf; unfold KV.umax KV.npts; exact this.symm
  have hab : k.umin < k.umax := by rw [← hfirst, ← hlast]; exact wf_first_lt_last k.v k.deg hwf
  have hmemc : ∀ x, x ∈ cuts' ↔ (x ∈ ns ∧ x ≠ k.umin ∧ x ≠ k.umax) := by
    intro x
    rw [hcuts, mem_dedup, List.mem_filter, hfirst, hlast]
    simp only [Bool.and_eq_true, Bool.not_eq_true', beq_eq_false_iff_ne, ne_eq]
  have hvalid' : big.validNodes cuts' = true := by
    unfold KV.validNodes at hvalid ⊢
    rw [List.all_eq_true] at hvalid ⊢
    intro x hx
    have := hvalid x ((hmemc x).mp hx).1
    unfold KV.validNode at this ⊢
    rw [hbmin, hbmax]; exact this
  have hmany0 : cuts' = [] → many = [] := by
    intro hc
    apply List.eq_nil_iff_forall_not_mem.mpr
    intro x hx
    have := hmany x hx
    rw [hc] at this
    simp at this
  have hbig_eq : many = [] → big = k := by
    intro hm
    apply kv_ext _ _ _ hbd
    rw [hbv, hm, List.append_nil, isort_sorted k.v hwf.sorted]
  unfold KV.split
  rw [hvalid, hvalid']
  simp only [Bool.not_true, Bool.false_eq_true, if_false]
  by_cases hns : ns = []
  · have hc : cuts' = [] := by rw [hcuts, hns]; rfl
    rw [hns, hc, hbig_eq (hmany0 hc)]
  · have hnsE : ns.isEmpty = false := by simpa using hns
    rw [hnsE]
    simp only [Bool.false_eq_true, if_false]
    by_cases hc : cuts' = []
    · rw [hc, hbig_eq (hmany0 hc)]
      simp only [List.isEmpty_nil, if_true]
      -- the cut list is [umin, umax]
      have hC : isort (dedup (ns ++ [k.umin, k.umax])) = [k.umin, k.umax] := by
        apply sorted_nodup_ext _ _ (sortedLE_isort _) (by simp [sortedLE, le_of_lt hab])
          (isort_nodup _ (dedup_nodup _)) (by simp [ne_of_lt hab])
        intro x
        rw [mem_isort, mem_dedup, List.mem_append]
        simp only [List.mem_cons, List.mem_singleton, List.not_mem_nil, or_false]
        constructor
        · rintro (h | h)
          · by_contra c
            have : x ∈ cuts' := (hmemc x).mpr ⟨h, fun e => c (Or.inl e), fun e => c (Or.inr e)⟩
            rw [hc] at this; simp at this
          · exact h
        · exact fun h => Or.inr h
      rw [hC]
      simp only [KV.pairs, List.mapM_cons, List.mapM_nil, bind, Except.bind, pure, Except.pure]
      obtain ⟨hself, _⟩ := wf_self_piece k.v k.deg hwf
      rw [hfirst, hlast] at hself
      rw [← hself, mk?_of_wf k hwf]
    · have hcE : cuts'.isEmpty = false := by simpa using hc
      rw [hcE]
      simp only [Bool.false_eq_true, if_false]
      have hC : isort (dedup (ns ++ [k.umin, k.umax])) = isort (dedup (cuts' ++ [big.umin, big.umax])) := by
        apply sorted_nodup_ext _ _ (sortedLE_isort _) (sortedLE_isort _)
          (isort_nodup _ (dedup_nodup _)) (isort_nodup _ (dedup_nodup _))
        intro x
        rw [mem_isort, mem_dedup, mem_isort, mem_dedup, List.mem_append, List.mem_append, hbmin, hbmax]
        simp only [List.mem_cons, List.mem_singleton, List.not_mem_nil, or_false]
        constructor
        · rintro (h | h)
          · by_cases c : x = k.umin ∨ x = k.umax
            · exact Or.inr c
            · left
              exact (hmemc x).mpr ⟨h, fun e => c (Or.inl e), fun e => c (Or.inr e)⟩
          · exact Or.inr h
        · rintro (h | h)
          · exact Or.inl ((hmemc x).mp h).1
          · exact Or.inr h
      rw [← hC]
      apply mapM_congr_mem
      intro ab hab_mem
      obtain ⟨a, b⟩ := ab
      simp only []
      obtain ⟨i, hi, hai, hbi⟩ := pairs_spec _ a b hab_mem
      have hno : ∀ x ∈ many, ¬ (a < x ∧ x < b) := by
        intro x hx
        have hxc : x ∈ isort (dedup (ns ++ [k.umin, k.umax])) := by
          rw [mem_isort, mem_dedup, List.mem_append]
          exact Or.inl ((hmemc x).mp (hmany x hx)).1
        rw [← hai, ← hbi]
        exact no_between_consecutive _ (sortedLE_isort _) (isort_nodup _ (dedup_nodup _)) i hi x hxc
      rw [hbd, hbv, filter_between_isort k.v many hwf.sorted a b hno]

end NV
