/-
Proofs/InvShape.lean — the matrix returned by the model of `Linalg.invert` is square of the size of its argument
(Gauss–Jordan on the augmented rows never changes a row length).
-/
import NurbsVerif.Proofs.MatVec

namespace NV

theorem findPivot_go_lt (k : Nat) : ∀ (rows : List Vec) (i j : Nat), findPivot.go k rows i = some j → j < i + rows.length := by
  intro rows
  induction rows with
  | nil => intro i j h; simp [findPivot.go] at h
  | cons r rs ih =>
    intro i j h
    simp only [findPivot.go] at h
    split at h
    · simp only [Option.some.injEq] at h; subst h; simp
    · have := ih (i + 1) j h
      simp only [List.length_cons]; omega

theorem findPivot_lt (rows : List Vec) (k i : Nat) (h : findPivot rows k = some i) : i < rows.length := by
  unfold findPivot at h
  have := findPivot_go_lt k rows 0 i h
  omega

/-- all rows have length `L` -/
def RowsLen (rows : List Vec) (L : Nat) : Prop := ∀ r ∈ rows, r.length = L

theorem getD_rowsLen (rows : List Vec) (L i : Nat) (h : RowsLen rows L) (hi : i < rows.length) :
    (rows.getD i []).length = L := by
  rw [List.getD_eq_getElem?_getD, List.getElem?_eq_getElem hi]
  exact h _ (List.getElem_mem hi)

theorem swapRows_rowsLen (rows : List Vec) (L i j : Nat) (h : RowsLen rows L) (hi : i < rows.length) (hj : j < rows.length) :
    RowsLen (swapRows rows i j) L ∧ (swapRows rows i j).length = rows.length := by
  unfold swapRows
  refine ⟨?_, by simp⟩
  intro r hr
  have h1 := getD_rowsLen rows L i h hi
  have h2 := getD_rowsLen rows L j h hj
  rcases List.mem_or_eq_of_mem_set hr with hr | rfl
  · rcases List.mem_or_eq_of_mem_set hr with hr | rfl
    · exact h r hr
    · exact h2
  · exact h1

theorem gjStep_rowsLen (rows rows' : List Vec) (L k : Nat) (h : RowsLen rows L) (hk : k < rows.length)
    (hs : gjStep rows k = some rows') : RowsLen rows' L ∧ rows'.length = rows.length := by
  unfold gjStep at hs
  split at hs
  · cases hs
  · rename_i i hi
    have hil := findPivot_lt rows k i hi
    simp only [Option.some.injEq] at hs
    subst hs
    -- the rows after the optional swap
    have hsw : RowsLen (if i = k then rows else swapRows rows k i) L
        ∧ (if i = k then rows else swapRows rows k i).length = rows.length := by
      split
      · exact ⟨h, rfl⟩
      · exact swapRows_rowsLen rows L k i h hk hil
    set R := (if i = k then rows else swapRows rows k i) with hR
    have hp : (R.getD k []).length = L := getD_rowsLen R L k hsw.1 (by rw [hsw.2]; exact hk)
    refine ⟨?_, by simp [hsw.2]⟩
    intro r hr
    rw [List.mem_mapIdx] at hr
    obtain ⟨a, ha, rfl⟩ := hr
    have hp' : (R[k]?.getD []).length = L := by rw [← List.getD_eq_getElem?_getD]; exact hp
    split
    · simp [rowScale, hp']
    · have hra : (R[a]).length = L := hsw.1 _ (List.getElem_mem ha)
      simp [rowSubMul, rowScale, hp', hra]

theorem gaussJordan_rowsLen (L : Nat) : ∀ (n : Nat) (rows rows' : List Vec), RowsLen rows L → n ≤ rows.length →
    gaussJordan rows n = some rows' → RowsLen rows' L ∧ rows'.length = rows.length := by
  intro n
  induction n with
  | zero =>
    intro rows rows' h _ hg
    simp only [gaussJordan, List.range_zero, List.foldl_nil, Option.some.injEq] at hg
    subst hg; exact ⟨h, rfl⟩
  | succ n ih =>
    intro rows rows' h hn hg
    simp only [gaussJordan, List.range_succ, List.foldl_append, List.foldl_cons, List.foldl_nil] at hg
    cases hmid : (List.range n).foldl (fun acc k => acc.bind (gjStep · k)) (some rows) with
    | none => rw [hmid] at hg; simp at hg
    | some mid =>
      rw [hmid] at hg
      simp only [Option.bind_some] at hg
      obtain ⟨h1, h2⟩ := ih rows mid h (by omega) hmid
      obtain ⟨h3, h4⟩ := gjStep_rowsLen mid rows' L n h1 (by omega) hg
      exact ⟨h3, by omega⟩

/-- **the inverse has the shape of the matrix** -/
theorem invert_shaped (m inv : Mat) (h : invert? m = some inv) : Shaped inv m.length m.length := by
  unfold invert? at h
  simp only [] at h
  split at h
  · cases h
  · rename_i hsq
    have hsq' : ∀ r ∈ m, r.length = m.length := by
      have : (m.all fun r => r.length == m.length) = true := by simpa using hsq
      intro r hr
      have := List.all_eq_true.mp this r hr
      simpa using this
    simp only [Option.map_eq_some_iff] at h
    obtain ⟨rows, hg, rfl⟩ := h
    have haug : RowsLen (List.zipWith (fun r e => r ++ e) m (identity m.length)) (2 * m.length) := by
      intro x hx
      rw [List.mem_iff_getElem] at hx
      obtain ⟨i, hi, rfl⟩ := hx
      simp only [List.length_zipWith] at hi
      simp only [List.getElem_zipWith, List.length_append]
      have h1 : (m[i]'(by omega)).length = m.length := hsq' _ (List.getElem_mem _)
      have h2 : ((identity m.length)[i]'(by omega)).length = m.length :=
        (identity_shaped m.length).2 _ (List.getElem_mem _)
      omega
    have hlen : (List.zipWith (fun r e => r ++ e) m (identity m.length)).length = m.length := by
      simp [identity]
    obtain ⟨h1, h2⟩ := gaussJordan_rowsLen (2 * m.length) m.length _ rows haug (by rw [hlen]) hg
    refine ⟨by simp [h2, hlen], ?_⟩
    intro r hr
    obtain ⟨x, hx, rfl⟩ := List.mem_map.mp hr
    simp [h1 x hx]
    omega

theorem invertChecked_shaped (m inv : Mat) (h : invertChecked? m = some inv) : Shaped inv m.length m.length := by
  unfold invertChecked? at h
  split at h
  · rename_i inv' hinv
    split at h
    · simp only [Option.some.injEq] at h; subst h; exact invert_shaped m _ hinv
    · cases h
  · cases h

end NV
