/-
Proofs/BezierElev.lean — degree elevation of a Bézier curve: the model's `degree_increase_bezier_once` matrix maps the
control values of `Σ P_k B_{k,p}` to control values of the same function of degree `p+1`, for every degree.
-/
import NurbsVerif.Proofs.Bernstein
import NurbsVerif.Proofs.DeBoor
import NurbsVerif.Proofs.MatVec
import NurbsVerif.Model.Ops

namespace NV
open Finset

/-- control values after one elevation -/
def elevCoef (p : Nat) (P : Nat → Rat) (k : Nat) : Rat :=
  ((k : ℚ) / ((p : ℚ) + 1)) * prevP P k + (1 - (k : ℚ) / ((p : ℚ) + 1)) * P k

/-- **Bernstein degree elevation**: `Σ_{k ≤ p} P_k B_{k,p} = Σ_{k ≤ p+1} Q_k B_{k,p+1}` -/
theorem bern_sum_elevate (p : Nat) (P : Nat → Rat) (s : Rat) :
    ∑ k ∈ range (p + 1), P k * bern p k s = ∑ k ∈ range (p + 2), elevCoef p P k * bern (p + 1) k s := by
  have e1 : ∀ k ∈ range (p + 1), P k * bern p k s
      = (1 - (k : ℚ) / ((p : ℚ) + 1)) * P k * bern (p + 1) k s
        + (((k : ℚ) + 1) / ((p : ℚ) + 1)) * P k * bern (p + 1) (k + 1) s := by
    intro k _
    rw [bern_elevate p k s]; ring
  rw [sum_congr rfl e1, sum_add_distrib]
  -- first part: extend to k = p+1 (coefficient 0); second part: shift by one
  have hp : ((p : ℚ) + 1) ≠ 0 := by positivity
  have a1 : ∑ k ∈ range (p + 1), (1 - (k : ℚ) / ((p : ℚ) + 1)) * P k * bern (p + 1) k s
      = ∑ k ∈ range (p + 2), (1 - (k : ℚ) / ((p : ℚ) + 1)) * P k * bern (p + 1) k s := by
    rw [sum_range_succ _ (p + 1)]
    have : (1 - ((p + 1 : ℕ) : ℚ) / ((p : ℚ) + 1)) = 0 := by push_cast; field_simp; ring
    rw [this]; ring
  have a2 : ∑ k ∈ range (p + 1), (((k : ℚ) + 1) / ((p : ℚ) + 1)) * P k * bern (p + 1) (k + 1) s
      = ∑ k ∈ range (p + 2), ((k : ℚ) / ((p : ℚ) + 1)) * prevP P k * bern (p + 1) k s := by
    rw [sum_range_succ' (fun k => ((k : ℚ) / ((p : ℚ) + 1)) * prevP P k * bern (p + 1) k s) (p + 1)]
    have z : ((0 : ℕ) : ℚ) / ((p : ℚ) + 1) * prevP P 0 * bern (p + 1) 0 s = 0 := by simp
    rw [z, add_zero]
    apply sum_congr rfl
    intro k _
    have : prevP P (k + 1) = P k := by simp [prevP]
    rw [this]; push_cast; ring
  rw [a1, a2, ← sum_add_distrib]
  apply sum_congr rfl
  intro k _
  unfold elevCoef; ring

/-- the same on the Bézier knot functions: the span sums of degree `p` and `p+1` agree -/
theorem bezier_spanSum_elevate (p : Nat) (a b u : Rat) (hab : a < b) (P : Nat → Rat) :
    spanSum (bezKnots p a b) p p u P = spanSum (bezKnots (p + 1) a b) (p + 1) (p + 1) u (elevCoef p P) := by
  unfold spanSum
  have e1 : ∀ i ∈ range (p + 1), P i * cdbSpan (bezKnots p a b) p i p u = P i * bern p i ((u - a) / (b - a)) := by
    intro i hi
    simp only [mem_range] at hi
    have := cdbSpan_bezier p a b u hab p (le_refl _) i (by omega)
    simp only [Nat.sub_self, Nat.zero_add] at this
    rw [this]
  have e2 : ∀ i ∈ range (p + 1 + 1), elevCoef p P i * cdbSpan (bezKnots (p + 1) a b) (p + 1) i (p + 1) u
      = elevCoef p P i * bern (p + 1) i ((u - a) / (b - a)) := by
    intro i hi
    simp only [mem_range] at hi
    have := cdbSpan_bezier (p + 1) a b u hab (p + 1) (le_refl _) i (by omega)
    simp only [Nat.sub_self, Nat.zero_add] at this
    rw [this]
  rw [sum_congr rfl e1, sum_congr rfl e2]
  exact bern_sum_elevate p P _

/-- the rows of `degree_increase_bezier_once` are the elevation coefficients -/
theorem elevBezierOnce_row (p : Nat) (f : List Rat) (hf : f.length = p + 1) (i : Nat) (hi : i < p + 2) :
    (matVec (elevBezierOnce p) f).getD i 0 = elevCoef p (fun k => f.getD k 0) i := by
  have hlen : (elevBezierOnce p).length = p + 2 := by simp [elevBezierOnce]
  rw [matVec_getD _ _ i (by omega)]
  unfold elevBezierOnce
  rw [List.getD_eq_getElem?_getD, List.getElem?_map, List.getElem?_range hi]
  simp only [Option.map_some, Option.getD_some]
  rw [dot_eq_sum _ f (p + 1) (by simp) hf]
  unfold elevCoef prevP
  have hp : ((p : ℚ) + 1) ≠ 0 := by positivity
  have hcast : (((p + 1 : ℕ)) : ℚ) = (p : ℚ) + 1 := by push_cast; ring
  by_cases h0 : i = 0
  · subst h0
    have e : ∀ c ∈ range (p + 1), ((List.range (p + 1)).map fun c => if (0 : ℕ) = 0 then (if c = 0 then (1 : ℚ) else 0)
          else if 0 = p + 1 then (if c = p then 1 else 0)
          else if c + 1 = 0 then ((0 : ℕ) : ℚ) / ((p + 1 : ℕ) : ℚ) else if c = 0 then 1 - ((0 : ℕ) : ℚ) / ((p + 1 : ℕ) : ℚ) else 0).getD c 0
          * f.getD c 0 = if c = 0 then f.getD 0 0 else 0 := by
      intro c hc
      simp only [mem_range] at hc
      simp only [List.getD_eq_getElem?_getD, List.getElem?_map, List.getElem?_range hc, Option.map_some, Option.getD_some,
        if_true]
      by_cases hc0 : c = 0
      · subst hc0; simp
      · simp [hc0]
    rw [sum_congr rfl e, Finset.sum_ite_eq' (range (p + 1)) 0 (fun _ => f.getD 0 0)]
    simp
  · by_cases hl : i = p + 1
    · subst hl
      have e : ∀ c ∈ range (p + 1), ((List.range (p + 1)).map fun c => if p + 1 = 0 then (if c = 0 then (1 : ℚ) else 0)
            else if p + 1 = p + 1 then (if c = p then 1 else 0)
            else if c + 1 = p + 1 then ((p + 1 : ℕ) : ℚ) / ((p + 1 : ℕ) : ℚ)
            else if c = p + 1 then 1 - ((p + 1 : ℕ) : ℚ) / ((p + 1 : ℕ) : ℚ) else 0).getD c 0
            * f.getD c 0 = if c = p then f.getD p 0 else 0 := by
        intro c hc
        simp only [mem_range] at hc
        simp only [List.getD_eq_getElem?_getD, List.getElem?_map, List.getElem?_range hc, Option.map_some, Option.getD_some]
        by_cases hcp : c = p
        · subst hcp; simp
        · simp [hcp]
      rw [sum_congr rfl e, Finset.sum_ite_eq' (range (p + 1)) p (fun _ => f.getD p 0)]
      have : ¬ (p + 1 = 0) := by omega
      simp only [mem_range, Nat.lt_succ_self, if_true, this, if_false, Nat.add_sub_cancel]
      push_cast
      field_simp
      ring
    · -- interior row: α at column i−1, 1−α at column i
      have e : ∀ c ∈ range (p + 1), ((List.range (p + 1)).map fun c => if i = 0 then (if c = 0 then (1 : ℚ) else 0)
            else if i = p + 1 then (if c = p then 1 else 0)
            else if c + 1 = i then ((i : ℕ) : ℚ) / ((p + 1 : ℕ) : ℚ)
            else if c = i then 1 - ((i : ℕ) : ℚ) / ((p + 1 : ℕ) : ℚ) else 0).getD c 0 * f.getD c 0
          = (if c = i - 1 then (i : ℚ) / ((p : ℚ) + 1) * f.getD (i - 1) 0 else 0)
            + (if c = i then (1 - (i : ℚ) / ((p : ℚ) + 1)) * f.getD i 0 else 0) := by
        intro c hc
        simp only [mem_range] at hc
        simp only [List.getD_eq_getElem?_getD, List.getElem?_map, List.getElem?_range hc, Option.map_some, Option.getD_some,
          h0, hl, if_false, hcast]
        by_cases c1 : c + 1 = i
        · have c2 : c = i - 1 := by omega
          have c3 : ¬ c = i := by omega
          rw [if_pos c1, if_pos c2, if_neg c3, add_zero, c2]
        · have c2 : ¬ c = i - 1 := by omega
          by_cases c3 : c = i
          · rw [if_neg c1, if_pos c3, if_neg c2, if_pos c3, zero_add, c3]
          · rw [if_neg c1, if_neg c3, if_neg c2, if_neg c3, zero_mul, add_zero]
      rw [sum_congr rfl e, sum_add_distrib,
        Finset.sum_ite_eq' (range (p + 1)) (i - 1) (fun _ => (i : ℚ) / ((p : ℚ) + 1) * f.getD (i - 1) 0),
        Finset.sum_ite_eq' (range (p + 1)) i (fun _ => (1 - (i : ℚ) / ((p : ℚ) + 1)) * f.getD i 0)]
      have m1 : i - 1 ∈ range (p + 1) := by simp; omega
      have m2 : i ∈ range (p + 1) := by simp; omega
      simp only [m1, m2, if_true, h0, if_false]

end NV
