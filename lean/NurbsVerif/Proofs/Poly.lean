/-
Proofs/Poly.lean — evaluation lemmas for the coefficient-list polynomials of `Model/Basic.lean`
(`horner` is a ring homomorphism for `padd`, `pscale`, `pmul`, `pmulLin`, `pcompLin`, …).
-/
import NurbsVerif.Model.Basic
import Mathlib.Tactic.Ring
import Mathlib.Tactic.FieldSimp
import Mathlib.Tactic.Linarith
import Mathlib.Algebra.Order.Field.Rat

namespace NV

@[simp] theorem horner_nil (x : Rat) : horner [] x = 0 := rfl
@[simp] theorem horner_cons (c : Rat) (cs : Poly) (x : Rat) : horner (c :: cs) x = c + x * horner cs x := rfl

@[simp] theorem padd_nil_left (q : Poly) : padd [] q = q := by cases q <;> rfl
@[simp] theorem padd_nil_right (p : Poly) : padd p [] = p := by cases p <;> rfl

theorem horner_padd (p q : Poly) (x : Rat) : horner (padd p q) x = horner p x + horner q x := by
  induction p generalizing q with
  | nil => simp
  | cons a p ih =>
    cases q with
    | nil => simp
    | cons b q => simp only [padd, horner_cons, ih]; ring

theorem horner_pscale (c : Rat) (p : Poly) (x : Rat) : horner (pscale c p) x = c * horner p x := by
  induction p with
  | nil => simp [pscale]
  | cons a p ih =>
    simp only [pscale, List.map_cons, horner_cons] at *
    rw [ih]; ring

theorem horner_map_div (p : Poly) (d x : Rat) : horner (p.map (· / d)) x = horner p x / d := by
  induction p with
  | nil => simp
  | cons a p ih =>
    simp only [List.map_cons, horner_cons, ih]; ring

theorem horner_pneg (p : Poly) (x : Rat) : horner (pneg p) x = - horner p x := by
  simp [pneg, horner_pscale]

theorem horner_psub (p q : Poly) (x : Rat) : horner (psub p q) x = horner p x - horner q x := by
  simp [psub, horner_padd, horner_pneg]; ring

theorem horner_pmulLin (a0 a1 : Rat) (p : Poly) (x : Rat) :
    horner (pmulLin a0 a1 p) x = (a0 + a1 * x) * horner p x := by
  simp only [pmulLin, horner_padd, horner_pscale, horner_cons]; ring

theorem horner_pmul (p q : Poly) (x : Rat) : horner (pmul p q) x = horner p x * horner q x := by
  induction p with
  | nil => simp [pmul]
  | cons a p ih => simp only [pmul, horner_padd, horner_pscale, horner_cons, ih]; ring

theorem horner_pcompLin (p : Poly) (α β x : Rat) :
    horner (pcompLin p α β) x = horner p (α + β * x) := by
  induction p with
  | nil => simp [pcompLin]
  | cons a p ih =>
    simp only [pcompLin, horner_padd, horner_pmulLin, horner_cons, horner_nil, ih]; ring

theorem horner_polySum_foldl (ps : List Poly) (acc : Poly) (x : Rat) :
    horner (ps.foldl padd acc) x = horner acc x + (ps.map (horner · x)).sum := by
  induction ps generalizing acc with
  | nil => simp
  | cons p ps ih => simp only [List.foldl_cons, ih, horner_padd, List.map_cons, List.sum_cons]; ring

end NV
