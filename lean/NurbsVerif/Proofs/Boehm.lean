/-
Proofs/Boehm.lean — the Boehm knot-insertion identity for all knot functions, degrees and
multiplicity patterns: inserting `x` (`t_s ≤ x < t_{s+1}`) and replacing the coefficients `P` by
`Q_r = α_r P_r + (1 − α_r) P_{r−1}` leaves the value `Σ_i P_i N_{i,p}(u)` unchanged on every non-empty
span of the new knot function.

Proof: induction on the degree through the de Boor step (`Proofs/DeBoor.lean`): the Boehm map of degree `j`
after an old de Boor step equals a new de Boor step after the Boehm map of degree `j+1`, on every index that is
alive on the span.  Both sides are affine combinations of `P_r, P_{r−1}, P_{r−2}`, so it suffices to compare the
coefficients of `P_r` and `P_{r−2}` — two rational identities with four index cases each.
-/
import NurbsVerif.Proofs.DeBoor
import Mathlib.Tactic.LinearCombination

namespace NV
open Finset

/-- knots after inserting `x` behind position `s` -/
def insKnots (t : Nat → Rat) (s : Nat) (x : Rat) (i : Nat) : Rat :=
  if i ≤ s then t i else if i = s + 1 then x else t (i - 1)

theorem insKnots_le (t : Nat → Rat) (s : Nat) (x : Rat) (i : Nat) (h : i ≤ s) : insKnots t s x i = t i := by
  simp [insKnots, h]

theorem insKnots_eq (t : Nat → Rat) (s : Nat) (x : Rat) : insKnots t s x (s + 1) = x := by
  simp [insKnots]

theorem insKnots_gt (t : Nat → Rat) (s : Nat) (x : Rat) (i : Nat) (h : s + 2 ≤ i) : insKnots t s x i = t (i - 1) := by
  have h1 : ¬ i ≤ s := by omega
  have h2 : ¬ i = s + 1 := by omega
  simp [insKnots, h1, h2]

theorem insKnots_mono (t : Nat → Rat) (B s : Nat) (x : Rat) (hm : MonoUpTo t B) (hs : s + 1 ≤ B)
    (hlo : t s ≤ x) (hhi : x ≤ t (s + 1)) : MonoUpTo (insKnots t s x) (B + 1) := by
  intro a b hab hb
  by_cases ha : a ≤ s
  · rw [insKnots_le t s x a ha]
    by_cases hb1 : b ≤ s
    · rw [insKnots_le t s x b hb1]; exact hm a b hab (by omega)
    · by_cases hb2 : b = s + 1
      · rw [hb2, insKnots_eq]; exact le_trans (hm a s ha (by omega)) hlo
      · rw [insKnots_gt t s x b (by omega)]; exact hm a (b - 1) (by omega) (by omega)
  · by_cases ha2 : a = s + 1
    · rw [ha2, insKnots_eq]
      by_cases hb2 : b = s + 1
      · rw [hb2, insKnots_eq]
      · rw [insKnots_gt t s x b (by omega)]
        exact le_trans hhi (hm (s + 1) (b - 1) (by omega) (by omega))
    · rw [insKnots_gt t s x a (by omega), insKnots_gt t s x b (by omega)]
      exact hm (a - 1) (b - 1) (by omega) (by omega)

/-- Boehm coefficient of degree `j`: 1 left of the affected window, the ratio inside, 0 right of it -/
def alpha (t : Nat → Rat) (s : Nat) (x : Rat) (j i : Nat) : Rat :=
  if i + j ≤ s then 1 else if i ≤ s then (x - t i) / (t (i + j) - t i) else 0

/-- the Boehm map on coefficient sequences -/
def boehm (t : Nat → Rat) (s : Nat) (x : Rat) (j : Nat) (P : Nat → Rat) (i : Nat) : Rat :=
  alpha t s x j i * P i + (1 - alpha t s x j i) * prevP P i

/-- the old span under a new span -/
def oldSpan (s sh : Nat) : Nat := if sh ≤ s then sh else sh - 1

/-- standing assumptions of the insertion -/
structure InsCtx (t : Nat → Rat) (B s : Nat) (x : Rat) : Prop where
  mono : MonoUpTo t B
  sB : s + 1 ≤ B
  lo : t s ≤ x
  hi : x < t (s + 1)

/-- coefficient of `P_r`: `α^j_r · ω_r = ω̂_r · α^{j+1}_r` on alive indices -/
theorem boehm_coeff_A (t : Nat → Rat) (B s : Nat) (x : Rat) (c : InsCtx t B s x) (sh j r : Nat) (u : Rat)
    (hne : insKnots t s x sh < insKnots t s x (sh + 1)) (hal1 : sh ≤ r + j) (hal2 : r ≤ sh) (hB : r + j + 1 ≤ B) :
    alpha t s x j r * ((u - t r) / (t (r + j + 1) - t r))
      = (u - insKnots t s x r) / (insKnots t s x (r + j + 1) - insKnots t s x r) * alpha t s x (j + 1) r := by
  have hmono' := insKnots_mono t B s x c.mono c.sB c.lo (le_of_lt c.hi)
  unfold alpha
  by_cases h1 : s < r
  · -- both alphas vanish
    have e1 : ¬ r + j ≤ s := by omega
    have e2 : ¬ r ≤ s := by omega
    have e3 : ¬ r + (j + 1) ≤ s := by omega
    simp [e1, e2, e3]
  · have hrs : r ≤ s := by omega
    by_cases h2 : r + j + 1 ≤ s
    · have e1 : r + j ≤ s := by omega
      have e3 : r + (j + 1) ≤ s := by omega
      simp only [e1, e3, if_true, one_mul, mul_one]
      rw [insKnots_le t s x r hrs, insKnots_le t s x (r + j + 1) h2]
    · by_cases h3 : r + j = s
      · -- α^j_r = 1, new right end of the support is x itself
        have e1 : r + j ≤ s := by omega
        have e3 : ¬ r + (j + 1) ≤ s := by omega
        simp only [e1, e3, hrs, if_true, if_false, one_mul]
        have hx : insKnots t s x (r + j + 1) = x := by rw [show r + j + 1 = s + 1 by omega]; exact insKnots_eq t s x
        rw [insKnots_le t s x r hrs, hx, show r + (j + 1) = s + 1 by omega, show r + j + 1 = s + 1 by omega]
        -- aliveness gives t r < x
        have hlt : t r < x := by
          have a1 : insKnots t s x r ≤ insKnots t s x sh := hmono' r sh hal2 (by omega)
          have a2 : insKnots t s x (sh + 1) ≤ insKnots t s x (s + 1) := hmono' (sh + 1) (s + 1) (by omega) (by omega)
          rw [insKnots_le t s x r hrs] at a1
          rw [insKnots_eq] at a2
          linarith
        have d1 : x - t r ≠ 0 := ne_of_gt (sub_pos.mpr hlt)
        have d2 : t (s + 1) - t r ≠ 0 := ne_of_gt (sub_pos.mpr (lt_trans hlt c.hi))
        field_simp
      · -- r ≤ s < r + j : both are ratios, the new right end is t (r + j)
        have e1 : ¬ r + j ≤ s := by omega
        have e3 : ¬ r + (j + 1) ≤ s := by omega
        simp only [e1, e3, hrs, if_true, if_false]
        rw [insKnots_le t s x r hrs, insKnots_gt t s x (r + j + 1) (by omega)]
        have : r + j + 1 - 1 = r + j := by omega
        rw [this, show r + (j + 1) = r + j + 1 by omega]
        ring

/-- coefficient of `P_{r−2}` (written with `q = r − 1`):
`(1 − α^j_{q+1})(1 − ω_q) = (1 − ω̂_{q+1})(1 − α^{j+1}_q)` — holds for every index -/
theorem boehm_coeff_C (t : Nat → Rat) (B s : Nat) (x : Rat) (c : InsCtx t B s x) (j q : Nat) (u : Rat)
    (hB : q + j + 1 ≤ B) :
    (1 - alpha t s x j (q + 1)) * (1 - (u - t q) / (t (q + j + 1) - t q))
      = (1 - (u - insKnots t s x (q + 1)) / (insKnots t s x (q + 1 + j + 1) - insKnots t s x (q + 1)))
        * (1 - alpha t s x (j + 1) q) := by
  unfold alpha
  by_cases h1 : q + 1 + j ≤ s
  · have e3 : q + (j + 1) ≤ s := by omega
    simp [h1, e3]
  · by_cases h2 : q + 1 ≤ s
    · -- q + 1 ≤ s < q + 1 + j
      have e3 : ¬ q + (j + 1) ≤ s := by omega
      have e4 : q ≤ s := by omega
      simp only [h1, h2, e3, e4, if_true, if_false]
      rw [insKnots_le t s x (q + 1) h2, insKnots_gt t s x (q + 1 + j + 1) (by omega)]
      rw [show q + 1 + j + 1 - 1 = q + j + 1 by omega, show q + 1 + j = q + j + 1 by omega,
        show q + (j + 1) = q + j + 1 by omega]
      have hx1 : t (q + 1) ≤ x := le_trans (c.mono (q + 1) s h2 (by have := c.sB; omega)) c.lo
      have hx2 : x < t (q + j + 1) := lt_of_lt_of_le c.hi (c.mono (s + 1) (q + j + 1) (by omega) hB)
      have hq : t q ≤ t (q + 1) := c.mono q (q + 1) (by omega) (by have := c.sB; omega)
      have d1 : t (q + j + 1) - t (q + 1) ≠ 0 := ne_of_gt (by linarith)
      have d2 : t (q + j + 1) - t q ≠ 0 := ne_of_gt (by linarith)
      field_simp
      ring
    · by_cases h3 : q = s
      · subst h3
        have e3 : ¬ q + (j + 1) ≤ q := by omega
        simp only [h1, h2, e3, le_refl, if_true, if_false, sub_zero, one_mul]
        rw [insKnots_eq, insKnots_gt t q x (q + 1 + j + 1) (by omega)]
        rw [show q + 1 + j + 1 - 1 = q + j + 1 by omega, show q + (j + 1) = q + j + 1 by omega]
        have hx2 : x < t (q + j + 1) := lt_of_lt_of_le c.hi (c.mono (q + 1) (q + j + 1) (by omega) hB)
        have d1 : t (q + j + 1) - x ≠ 0 := ne_of_gt (by linarith)
        have d2 : t (q + j + 1) - t q ≠ 0 := ne_of_gt (by linarith [c.lo])
        field_simp
        ring
      · -- q ≥ s + 1 : a pure index shift
        have e3 : ¬ q + (j + 1) ≤ s := by omega
        have e4 : ¬ q ≤ s := by omega
        simp only [h1, h2, e3, e4, if_false, sub_zero, one_mul, mul_one]
        rw [insKnots_gt t s x (q + 1) (by omega), insKnots_gt t s x (q + 1 + j + 1) (by omega)]
        rw [show q + 1 - 1 = q by omega, show q + 1 + j + 1 - 1 = q + j + 1 by omega]

/-- **commutation**: Boehm (degree `j`) after an old de Boor step = new de Boor step after Boehm (degree `j+1`),
on every index alive on the non-empty new span `sh` -/
theorem boehm_commute (t : Nat → Rat) (B s : Nat) (x : Rat) (c : InsCtx t B s x) (sh j r : Nat) (u : Rat)
    (hne : insKnots t s x sh < insKnots t s x (sh + 1)) (hal1 : sh ≤ r + j) (hal2 : r ≤ sh) (hB : r + j + 1 ≤ B)
    (P : Nat → Rat) :
    boehm t s x j (deBoorStep t j u P) r = deBoorStep (insKnots t s x) j u (boehm t s x (j + 1) P) r := by
  have hA := boehm_coeff_A t B s x c sh j r u hne hal1 hal2 hB
  cases r with
  | zero =>
    simp only [boehm, deBoorStep, prevP, if_true, mul_zero, add_zero]
    linear_combination (P 0) * hA
  | succ q =>
    have hC := boehm_coeff_C t B s x c j q u (by omega)
    have p1 : ∀ X : Nat → Rat, prevP X (q + 1) = X q := by intro X; simp [prevP]
    simp only [boehm, deBoorStep, p1]
    linear_combination (P (q + 1) - P q) * hA + (prevP P q - P q) * hC

/-- **Boehm's identity.**  For every degree `j`, every coefficient sequence and every parameter `u`, the value on the old
span equals the value on the new span after the Boehm map — for every non-empty span `sh` of the new knots. -/
theorem boehm_identity (t : Nat → Rat) (B s : Nat) (x : Rat) (c : InsCtx t B s x) (sh : Nat) (u : Rat)
    (hne : insKnots t s x sh < insKnots t s x (sh + 1)) :
    ∀ j, j ≤ oldSpan s sh → oldSpan s sh + j + 1 ≤ B → sh + j ≤ B → ∀ P : Nat → Rat,
      spanSum t (oldSpan s sh) j u P = spanSum (insKnots t s x) sh j u (boehm t s x j P) := by
  have hmono' := insKnots_mono t B s x c.mono c.sB c.lo (le_of_lt c.hi)
  -- the old span under `sh` is non-empty too
  have hold : t (oldSpan s sh) < t (oldSpan s sh + 1) := by
    unfold oldSpan
    by_cases h : sh ≤ s
    · simp only [h, if_true]
      rw [insKnots_le t s x sh h] at hne
      by_cases h2 : sh + 1 ≤ s
      · rw [insKnots_le t s x (sh + 1) h2] at hne; exact hne
      · have : sh = s := by omega
        subst this
        exact lt_of_le_of_lt c.lo c.hi
    · simp only [h, if_false]
      by_cases h2 : sh = s + 1
      · subst h2
        simp only [Nat.add_sub_cancel]
        exact lt_of_le_of_lt c.lo c.hi
      · rw [insKnots_gt t s x sh (by omega), insKnots_gt t s x (sh + 1) (by omega)] at hne
        have e : sh + 1 - 1 = sh - 1 + 1 := by omega
        rw [e] at hne
        exact hne
  intro j
  induction j with
  | zero =>
    intro _ _ _ P
    -- degree 0: only the span's own index is alive
    have h0 : ∀ (tt : Nat → Rat) (z : Nat) (Q : Nat → Rat), spanSum tt z 0 u Q = Q z := by
      intro tt z Q
      unfold spanSum
      rw [sum_range_succ]
      have : ∑ i ∈ range z, Q i * cdbSpan tt z i 0 u = 0 := by
        apply sum_eq_zero
        intro i hi
        simp only [mem_range] at hi
        have : i ≠ z := by omega
        simp [cdbSpan, this]
      rw [this]; simp [cdbSpan]
    rw [h0, h0]
    unfold boehm alpha oldSpan
    by_cases h : sh ≤ s
    · simp [h]
    · have e1 : ¬ sh + 0 ≤ s := by omega
      have hp : prevP P sh = P (sh - 1) := by
        have : sh ≠ 0 := by omega
        simp [prevP, this]
      simp [h, e1, hp]
  | succ j ih =>
    intro hj hB hB2 P
    have hos : oldSpan s sh ≤ sh ∧ sh ≤ oldSpan s sh + 1 := by unfold oldSpan; split <;> omega
    rw [spanSum_step t B c.mono (oldSpan s sh) u hold j (by omega) P]
    rw [ih (by omega) (by omega) (by omega) (deBoorStep t j u P)]
    rw [spanSum_step (insKnots t s x) (B + 1) hmono' sh u hne j (by omega) (boehm t s x (j + 1) P)]
    apply spanSum_congr
    intro r hr1 hr2
    exact boehm_commute t B s x c sh j r u hne hr1 hr2 (by omega) P

end NV
