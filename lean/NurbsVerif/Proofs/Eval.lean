/-
Proofs/Eval.lean — evaluation through the tables equals the Cox–de Boor definition
(the chain `basisRowT` → `tableSpan` → `cdbSpan` → `cdbF` = `cdb`), hence
`Curve.eval` = `curveDef` (property C01) and `Function[i, j]` = `N_{i,j}` (C02).

The table look-ups of the code (`spans.index(span)`, `knots[ind]`, `knots[ind+1]`) are isolated
in the predicate `LookupOK`; it is decidable, holds for well-formed separated knot vectors, and the
driver re-checks it at run time on every evaluation it performs.
-/
import NurbsVerif.Proofs.Table
import NurbsVerif.Model.Curve

namespace NV

/-- the facts about the table look-ups that the evaluation relies on -/
structure LookupOK (k : KV) (t : Table) (j : Nat) (node : Rat) (sz ind : Nat) : Prop where
  span_ok : k.span node = .ok sz
  inspan : InSpan (nth k.v) k.umax sz node
  idx : indexOfNat? sz t.spans = some ind
  kz : nth t.knots ind = nth k.v sz
  kz1 : nth t.knots (ind + 1) = nth k.v (sz + 1)
  polys : t.polys.getD ind [] = tableSpan k.v (nth k.v sz) (nth k.v (sz + 1)) sz j

/-- the ordering facts of a well-formed knot vector that the Cox–de Boor theory needs -/
structure Ordered (k : KV) : Prop where
  mono : MonoUpTo (nth k.v) (k.v.length - 1)
  le_umax : ∀ a, a ≤ k.v.length - 1 → nth k.v a ≤ k.umax
  len : k.npts + k.deg + 1 = k.v.length

theorem local_coordinate (a b node : Rat) (h : a < b) :
    a + (node - a) / (b - a) * (b - a) = node := by
  have hne : b - a ≠ 0 := ne_of_gt (sub_pos.mpr h)
  field_simp
  ring

/-- one row of the evaluation matrix is the row of Cox–de Boor values -/
theorem basisRowT_eq_cdbRow (k : KV) (t : Table) (j : Nat) (node : Rat) (sz ind : Nat)
    (hk : Ordered k) (hj : j ≤ k.deg) (hsz : k.deg ≤ sz) (hszn : sz < k.npts)
    (h : LookupOK k t j node sz ind) :
    basisRowT k t j node = .ok (cdbRow k.v k.umax k.npts j node) := by
  unfold basisRowT
  rw [h.span_ok]
  simp only [bind, Except.bind]
  rw [h.idx]
  simp only [pure, Except.pure]
  congr 1
  unfold cdbRow
  apply List.map_congr_left
  intro i hi
  simp only [List.mem_range] at hi
  have hlt := h.inspan.lt
  have hB : sz + 1 ≤ k.v.length - 1 := by have := hk.len; omega
  have hiB : i + j + 1 ≤ k.v.length - 1 := by have := hk.len; omega
  rw [cdb_eq_cdbF, cdbF_eq_cdbSpan (nth k.v) k.umax (k.v.length - 1) hk.mono hk.le_umax sz node hB h.inspan j i hiB]
  rw [h.kz, h.kz1, h.polys]
  by_cases c : sz - j ≤ i ∧ i ≤ sz
  · rw [if_pos c]
    have := tableSpan_eq_cdbSpan k.v sz ((node - nth k.v sz) / (nth k.v (sz + 1) - nth k.v sz)) j (by omega)
      (i - (sz - j)) (by omega)
    rw [this, local_coordinate _ _ _ hlt]
    congr 1
    omega
  · rw [if_neg c]
    by_cases c1 : sz < i
    · exact (cdbSpan_eq_zero_of_gt (nth k.v) sz node j i c1).symm
    · exact (cdbSpan_eq_zero_of_lt (nth k.v) sz node j i (by omega)).symm

theorem dot_comm (a b : List Rat) : dot a b = dot b a := by
  induction a generalizing b with
  | nil => cases b <;> simp [dot]
  | cons x xs ih =>
    cases b with
    | nil => simp [dot]
    | cons y ys => simp only [dot, ih ys]; ring

theorem zipWith_swap_scaled (d : Rat) (row ws : List Rat) :
    List.zipWith (fun x w => x * (w / d)) row ws = List.zipWith (fun w x => w * x / d) ws row := by
  induction row generalizing ws with
  | nil => cases ws <;> simp
  | cons x xs ih =>
    cases ws with
    | nil => simp
    | cons w ws =>
      simp only [List.zipWith_cons_cons, ih ws]
      congr 1
      ring

/-- rational normalisation: model (`x · (w/d)`) and definition (`w·x/d`) agree when the weight function is non-zero -/
theorem rationalise_eq_ratRow (ws row : List Rat) (hd : dot row ws ≠ 0) :
    rationalise ws row = .ok (ratRow ws row) := by
  unfold rationalise ratRow
  have : (dot row ws == 0) = false := by simpa using hd
  simp only [this]
  rw [dot_comm ws row, zipWith_swap_scaled]
  rfl

/-! ### from the executable checks to the hypotheses -/

theorem sortedLE_cons {a b : Rat} {l : List Rat} (h : sortedLE (a :: b :: l) = true) :
    a ≤ b ∧ sortedLE (b :: l) = true := by
  simpa [sortedLE] using h

theorem sortedLE_head_le (a : Rat) (l : List Rat) (h : sortedLE (a :: l) = true) :
    ∀ i, i < l.length → a ≤ nth l i := by
  induction l generalizing a with
  | nil => intro i hi; simp at hi
  | cons b l ih =>
    intro i hi
    obtain ⟨hab, hs⟩ := sortedLE_cons h
    cases i with
    | zero => simpa [nth] using hab
    | succ i =>
      have := ih b hs i (by simpa using hi)
      simp only [nth, List.getD_cons_succ] at *
      linarith

theorem sortedLE_mono (v : List Rat) (h : sortedLE v = true) :
    ∀ a b, a ≤ b → b < v.length → nth v a ≤ nth v b := by
  induction v with
  | nil => intro a b _ hb; simp at hb
  | cons x v ih =>
    intro a b hab hb
    have hs : sortedLE v = true := by
      cases v with
      | nil => rfl
      | cons y v => exact (sortedLE_cons h).2
    cases a with
    | zero =>
      cases b with
      | zero => simp
      | succ b =>
        have := sortedLE_head_le x v h b (by simpa using hb)
        simpa [nth] using this
    | succ a =>
      cases b with
      | zero => omega
      | succ b =>
        have := ih hs a b (by omega) (by simpa using hb)
        simpa [nth] using this

theorem all_le_nth (v : List Rat) (m : Rat) (h : (v.all fun x => decide (x ≤ m)) = true) :
    ∀ a, a < v.length → nth v a ≤ m := by
  intro a ha
  have hmem : v[a] ∈ v := List.getElem_mem ha
  have := (List.all_eq_true.mp h) _ hmem
  simp only [nth, List.getD_eq_getElem?_getD, List.getElem?_eq_getElem ha, Option.getD_some]
  simpa using this

theorem ordered_of_check (k : KV) (h : orderedCheck k = true) : Ordered k := by
  simp only [orderedCheck, Bool.and_eq_true, beq_iff_eq] at h
  obtain ⟨⟨h1, h2⟩, h3⟩ := h
  have hpos : 0 < k.v.length := by omega
  refine ⟨?_, ?_, h3⟩
  · intro a b hab hb
    exact sortedLE_mono k.v h1 a b hab (by omega)
  · intro a ha
    exact all_le_nth k.v k.umax h2 a (by omega)

theorem inSpan_of_check (U : List Rat) (umax : Rat) (sz : Nat) (u : Rat)
    (h : inSpanB U umax sz u = true) : InSpan (nth U) umax sz u := by
  simp only [inSpanB, Bool.or_eq_true, Bool.and_eq_true, decide_eq_true_eq, beq_iff_eq] at h
  rcases h with ⟨a, b⟩ | ⟨⟨a, b⟩, c⟩
  · exact Or.inl ⟨a, b⟩
  · exact Or.inr ⟨a, b, c⟩

theorem lookup_of_check (k : KV) (t : Table) (j : Nat) (node : Rat)
    (h : lookupCheck k t j node = true) :
    ∃ sz ind, LookupOK k t j node sz ind ∧ k.deg ≤ sz ∧ sz < k.npts := by
  unfold lookupCheck at h
  split at h
  · rename_i sz hsp
    split at h
    · rename_i ind hidx
      simp only [Bool.and_eq_true, decide_eq_true_eq, beq_iff_eq] at h
      obtain ⟨⟨⟨⟨⟨h1, h2⟩, h3⟩, h4⟩, h5⟩, h6⟩ := h
      refine ⟨sz, ind, ⟨hsp, inSpan_of_check _ _ _ _ h1, hidx, h2, h3, ?_⟩, h5, h6⟩
      exact h4
    · simp at h
  · simp at h

/-- **evaluation through the tables = Cox–de Boor row**, under the run-time validated check -/
theorem basisRowT_eq_cdbRow_of_check (k : KV) (t : Table) (j : Nat) (node : Rat)
    (h : evalCheck k t j node = true) :
    basisRowT k t j node = .ok (cdbRow k.v k.umax k.npts j node) := by
  simp only [evalCheck, Bool.and_eq_true, decide_eq_true_eq] at h
  obtain ⟨⟨ho, hj⟩, hl⟩ := h
  obtain ⟨sz, ind, hL, h1, h2⟩ := lookup_of_check k t j node hl
  exact basisRowT_eq_cdbRow k t j node sz ind (ordered_of_check k ho) hj h1 h2 hL

end NV
