/-
Proofs/DerivList.lean — list bookkeeping of `Derivate.nonrational_spline` for continuous splines (no interior knot of
multiplicity `degree + 1`): the knots of full multiplicity are exactly the two ends, removing one copy of each gives the
vector without its first and last entry, and no row of the difference matrix is dropped.
-/
import NurbsVerif.Props.C06Curve
import NurbsVerif.Props.C05Round
import NurbsVerif.Props.C17Refine

namespace NV
open Finset

/-- `m` consecutive equal entries give multiplicity at least `m` -/
theorem cnt_ge_of_run (U : List Rat) (x : Rat) (a m : Nat) (ha : a + m ≤ U.length)
    (h : ∀ j, a ≤ j → j < a + m → nth U j = x) : m ≤ cnt U x := by
  have hsplit : U = U.take a ++ ((U.drop a).take m ++ (U.drop a).drop m) := by
    rw [List.take_append_drop, List.take_append_drop]
  have hall : ∀ y ∈ (U.drop a).take m, y = x := by
    intro y hy
    obtain ⟨i, hi, rfl⟩ := List.mem_iff_getElem.mp hy
    simp only [List.length_take, List.length_drop] at hi
    rw [List.getElem_take, List.getElem_drop, ← nth_eq_getElem U (a + i) (by omega)]
    exact h (a + i) (by omega) (by omega)
  have hc := cnt_eq_length_of_all_eq _ x hall
  have hlen : ((U.drop a).take m).length = m := by simp; omega
  rw [hsplit, cnt_append, cnt_append, hc, hlen]
  omega

/-- the two-element sorted list -/
theorem sorted_pair_of_members (l : List Rat) (a b : Rat) (hab : a < b) (hs : sortedLE l = true) (hnd : l.Nodup)
    (hmem : ∀ y, y ∈ l ↔ (y = a ∨ y = b)) : l = [a, b] := by
  apply sorted_eq_of_cnt l [a, b] hs (by simp [sortedLE, le_of_lt hab])
  intro x
  rw [cnt_eq_count, cnt_eq_count]
  by_cases h1 : x = a
  · subst h1
    rw [List.count_eq_one_of_mem hnd ((hmem x).mpr (Or.inl rfl))]
    have : ¬ b = x := fun e => (ne_of_lt hab) e.symm
    simp [this]
  · by_cases h2 : x = b
    · subst h2
      rw [List.count_eq_one_of_mem hnd ((hmem x).mpr (Or.inr rfl))]
      have : ¬ a = x := fun e => h1 e.symm
      simp [this]
    · have : x ∉ l := fun hc => by rcases (hmem x).mp hc with h | h <;> contradiction
      rw [List.count_eq_zero_of_not_mem this]
      have n1 : ¬ a = x := fun e => h1 e.symm
      have n2 : ¬ b = x := fun e => h2 e.symm
      simp [n1, n2]

/-- continuous: every interior value occurs at most `degree` times -/
def Continuous (k : KV) : Prop := ∀ x ∈ k.v, x ≠ k.umin → x ≠ k.umax → cnt k.v x ≤ k.deg

/-- the knots of full multiplicity of a continuous vector are its two ends -/
theorem full_knots (k : KV) (g : GoodKV k) (hwf : WF k.v k.deg) (hc : Continuous k) :
    (k.knots.filter fun kn => k.multSingle kn == k.deg + 1) = [k.umin, k.umax] := by
  have hlt : k.umin < k.umax := by
    have h1 := g.ord.mono k.deg (k.npts - 1) (by have := g.deg_lt; omega) (by have := g.ord.len; omega)
    exact lt_of_le_of_lt h1 g.last
  have hlen := g.ord.len
  have hmult : ∀ x ∈ k.v, k.multSingle x = cnt k.v x := by
    intro x hx
    apply mult_spec
    intro y hy
    by_cases e : y = x
    · exact Or.inl e
    · right
      exact le_trans tol9_le_tol6 (g.sep x hx y hy (fun h => e h.symm))
  have hposU : 0 < k.v.length := by omega
  have hcmin : cnt k.v k.umin = k.deg + 1 := by
    have := hwf.first; rw [headD_eq_nth, (umin_eq_first k.v k.deg hwf).symm] at this; exact this
  have hcmax : cnt k.v k.umax = k.deg + 1 := by
    have h1 := hwf.last
    have h2 := umax_eq_last k.v k.deg hwf
    rw [← h2] at h1
    exact h1
  have humin_in : k.umin ∈ k.v := nth_mem k.v k.deg (by omega)
  have humax_in : k.umax ∈ k.v := nth_mem k.v k.npts (by omega)
  apply sorted_pair_of_members _ _ _ hlt
  · -- a sublist of a sorted list
    have hp : (k.knots.filter fun kn => k.multSingle kn == k.deg + 1).Pairwise (· ≤ ·) :=
      (pairwise_of_sortedLE k.knots (knots_sorted k)).sublist List.filter_sublist
    have : isort (k.knots.filter fun kn => k.multSingle kn == k.deg + 1)
        = k.knots.filter fun kn => k.multSingle kn == k.deg + 1 := by
      rw [isort_eq_insertionSort]
      apply List.Perm.eq_of_pairwise (le := (· ≤ ·))
      · intro a b _ _ h1 h2; exact le_antisymm h1 h2
      · exact List.pairwise_insertionSort _ _
      · exact hp
      · exact List.perm_insertionSort _ _
    rw [← this]; exact sortedLE_isort _
  · exact (knots_nodup k).filter _
  · intro y
    rw [List.mem_filter]
    constructor
    · rintro ⟨hy, hm⟩
      have hyv : y ∈ k.v := by
        obtain ⟨i, _, hi2, rfl⟩ := (mem_knots k g y).mp hy
        exact nth_mem k.v i (by omega)
      have hm' : cnt k.v y = k.deg + 1 := by rw [← hmult y hyv]; simpa using hm
      by_contra hcn
      push Not at hcn
      have := hc y hyv hcn.1 hcn.2
      omega
    · rintro (rfl | rfl)
      · exact ⟨mem_v_mem_knots k g hwf _ humin_in, by rw [hmult _ humin_in, hcmin]; simp⟩
      · exact ⟨mem_v_mem_knots k g hwf _ humax_in, by rw [hmult _ humax_in, hcmax]; simp⟩

/-- removing one copy of each end knot: the vector without its first and last entry, one degree lower -/
theorem remove_ends (k newk : KV) (g : GoodKV k) (hwf : WF k.v k.deg) (hp : 1 ≤ k.deg)
    (h : k.remove [k.umin, k.umax] = .ok newk) :
    k.v = k.umin :: (newk.v ++ [k.umax]) ∧ newk.deg = k.deg - 1 ∧ WF newk.v newk.deg ∧ Separated newk.v := by
  have hlen := g.ord.len
  have hposU : 0 < k.v.length := by omega
  unfold KV.remove at h
  split at h
  · cases h
  · rename_i l hl
    obtain ⟨hval, hv, hd⟩ := mk?_ok _ _ h
    obtain ⟨p1, s1⟩ := removeAll_perm _ k.v l hl
    have hsepL : Separated l := separated_of_subset _ _ g.sep (fun y hy => s1.subset hy)
    have hpl : l.Pairwise (· ≤ ·) := (pairwise_of_sortedLE k.v hwf.sorted).sublist s1
    have hfirst : nth k.v 0 = k.umin := (umin_eq_first k.v k.deg hwf).symm
    have hlastU : nth k.v (k.v.length - 1) = k.umax := by
      have := umax_eq_last k.v k.deg hwf
      rw [getLastD_eq_nth k.v hposU] at this
      unfold KV.umax KV.npts; exact this.symm
    have hbounds : ∀ y ∈ l, k.umin ≤ y ∧ y ≤ k.umax := by
      intro y hy
      have := mem_nth_bounds k.v hwf.sorted y (s1.subset hy)
      rw [hfirst, hlastU] at this; exact this
    -- the sorted arrangement
    have hU : k.v = k.umin :: (l ++ [k.umax]) := by
      apply List.Perm.eq_of_pairwise (le := (· ≤ ·))
      · intro a b _ _ h1 h2; exact le_antisymm h1 h2
      · exact pairwise_of_sortedLE k.v hwf.sorted
      · rw [List.pairwise_cons]
        refine ⟨?_, ?_⟩
        · intro y hy
          rcases List.mem_append.mp hy with h1 | h1
          · exact (hbounds y h1).1
          · simp only [List.mem_singleton] at h1; rw [h1]
            have := g.ord.mono k.deg k.npts (le_of_lt g.deg_lt) (by omega)
            exact this
        · rw [List.pairwise_append]
          refine ⟨hpl, by simp, ?_⟩
          intro a ha b hb
          simp only [List.mem_singleton] at hb; rw [hb]; exact (hbounds a ha).2
      · refine p1.trans ?_
        simp only [List.cons_append, List.nil_append]
        refine List.Perm.cons _ ?_
        exact (List.perm_append_singleton k.umax l).symm.trans (by simp)
    -- degree
    have hl0 : 0 < l.length := by
      have := congrArg List.length hU
      simp at this
      have := hwf.npts_gt
      omega
    have hheadl : nth l 0 = k.umin := by
      have h1 : nth k.v 1 = k.umin := by
        have := prefix_eq_head k.v hwf.sorted (k.deg + 1) 1
          (by have := hwf.first; rw [headD_eq_nth] at this; exact this) (by omega)
        rw [this, hfirst]
      rw [hU] at h1
      have : nth (k.umin :: (l ++ [k.umax])) 1 = nth l 0 := by
        unfold nth
        rw [List.getD_cons_succ, List.getD_eq_getElem?_getD, List.getElem?_append_left hl0,
          ← List.getD_eq_getElem?_getD]
      rw [← this]; exact h1
    have hcntl : cnt l k.umin = k.deg := by
      have hc := (List.perm_iff_count.mp p1) k.umin
      rw [← cnt_eq_count, ← cnt_eq_count, cnt_append] at hc
      have h1 := hwf.first; rw [headD_eq_nth, hfirst] at h1
      have hlt : k.umin < k.umax := by
        have h2 := g.ord.mono k.deg (k.npts - 1) (by have := g.deg_lt; omega) (by omega)
        exact lt_of_le_of_lt h2 g.last
      have h3 : cnt [k.umin, k.umax] k.umin = 1 := by
        have : ¬ k.umax = k.umin := ne_of_gt hlt
        simp [cnt, this]
      omega
    refine ⟨by rw [hv]; exact hU, ?_, ?_, by rw [hv]; exact hsepL⟩
    · rw [hd, headD_eq_nth, hheadl, hcntl]
    · rw [hv, hd]; exact isValid_WF l hsepL hval

theorem zipIdx_filter_all {α : Type} (q : List α) (pred : Nat → Bool) (h : ∀ i, i < q.length → pred i = true) :
    ((q.zipIdx.filter fun (x : α × Nat) => pred x.2).map (·.1)) = q := by
  have : (q.zipIdx.filter fun (x : α × Nat) => pred x.2) = q.zipIdx := by
    rw [List.filter_eq_self]
    intro x hx
    have := List.snd_lt_of_mem_zipIdx hx
    exact h x.2 (by omega)
  rw [this]
  exact List.zipIdx_map_fst 0 q

/-- no support of a degree `p − 1` function of the derivative is empty when the spline is continuous -/
theorem no_null_rows (k : KV) (g : GoodKV k) (hwf : WF k.v k.deg) (hc : Continuous k) (hp : 1 ≤ k.deg)
    (i : Nat) (hi : i + 1 < k.npts) : nth k.v (i + 1 + k.deg) ≠ nth k.v (i + 1) := by
  intro heq
  have hlen := g.ord.len
  -- all entries between are equal
  have hrun : ∀ j, i + 1 ≤ j → j < i + 1 + (k.deg + 1) → nth k.v j = nth k.v (i + 1) := by
    intro j h1 h2
    apply le_antisymm
    · rw [← heq]; exact g.ord.mono j (i + 1 + k.deg) (by omega) (by omega)
    · exact g.ord.mono (i + 1) j h1 (by omega)
  have hge := cnt_ge_of_run k.v (nth k.v (i + 1)) (i + 1) (k.deg + 1) (by omega) hrun
  have hin : nth k.v (i + 1) ∈ k.v := nth_mem k.v (i + 1) (by omega)
  have hle := hwf.mult_le _ hin
  have hfirst : nth k.v 0 = k.umin := (umin_eq_first k.v k.deg hwf).symm
  have hposU : 0 < k.v.length := by omega
  by_cases e1 : nth k.v (i + 1) = k.umin
  · -- index 0 is one more copy
    have hrun0 : ∀ j, 0 ≤ j → j < 0 + (i + 1 + k.deg + 1) → nth k.v j = k.umin := by
      intro j _ h2
      by_cases hj : j < i + 1
      · apply le_antisymm
        · rw [← e1]; exact g.ord.mono j (i + 1) (by omega) (by omega)
        · rw [← hfirst]; exact g.ord.mono 0 j (by omega) (by omega)
      · rw [hrun j (by omega) (by omega), e1]
    have := cnt_ge_of_run k.v k.umin 0 (i + 1 + k.deg + 1) (by omega) hrun0
    have hcm : cnt k.v k.umin = k.deg + 1 := by
      have := hwf.first; rw [headD_eq_nth, hfirst] at this; exact this
    omega
  · by_cases e2 : nth k.v (i + 1) = k.umax
    · -- the last index is one more copy
      have hlastU : nth k.v (k.v.length - 1) = k.umax := by
        have := umax_eq_last k.v k.deg hwf
        rw [getLastD_eq_nth k.v hposU] at this
        unfold KV.umax KV.npts; exact this.symm
      have hrunL : ∀ j, i + 1 ≤ j → j < i + 1 + (k.v.length - (i + 1)) → nth k.v j = k.umax := by
        intro j h1 h2
        apply le_antisymm
        · rw [← hlastU]; exact g.ord.mono j (k.v.length - 1) (by omega) (by omega)
        · rw [← e2]; exact g.ord.mono (i + 1) j h1 (by omega)
      have := cnt_ge_of_run k.v k.umax (i + 1) (k.v.length - (i + 1)) (by omega) hrunL
      have hcm : cnt k.v k.umax = k.deg + 1 := by
        have h1 := hwf.last
        have h2 := umax_eq_last k.v k.deg hwf
        rw [← h2] at h1
        exact h1
      omega
    · have := hc _ hin e1 e2
      omega

end NV
