/-
Proofs/InsertPos.lean — the knot-insertion matrix maps positive coefficient lists to positive coefficient lists (every
row is a convex combination of at most two neighbouring coefficients).  Used for the weights of a rational curve:
positive weights stay positive under `knot_insert`, so the `weights` setter accepts them.
-/
import NurbsVerif.Proofs.InsertProgress

namespace NV
open Finset

/-- `m` sends positive lists of length `n` to positive lists -/
def PosPres (m : Mat) (n : Nat) : Prop :=
  ∀ f : List Rat, f.length = n → (∀ w ∈ f, 0 < w) → ∀ w ∈ matVec m f, 0 < w

theorem getD_pos_of_mem (f : List Rat) (hf : ∀ w ∈ f, 0 < w) (c : Nat) (hc : c < f.length) : 0 < f.getD c 0 := by
  rw [List.getD_eq_getElem?_getD, List.getElem?_eq_getElem hc]
  exact hf _ (List.getElem_mem hc)

theorem posPres_identity (n : Nat) : PosPres (identity n) n := by
  intro f hf hpos w hw
  rw [matVec_identity n f hf] at hw
  exact hpos w hw

/-- every entry of `one_knot_insert_once` is non-negative -/
theorem insOnceEntry_nonneg (U : List Rat) (p : Nat) (x : Rat) (s r c : Nat)
    (hmono : MonoUpTo (nth U) (U.length - 1)) (hsB : s + 1 + p ≤ U.length - 1)
    (hlo : nth U s ≤ x) (hhi : x < nth U (s + 1)) :
    0 ≤ insOnceEntry U p x s r c := by
  unfold insOnceEntry
  split
  · rename_i h
    obtain ⟨h1, h2⟩ := h
    have ha : nth U r ≤ x := le_trans (hmono r s h2 (by omega)) hlo
    have hb : x < nth U (r + p) := lt_of_lt_of_le hhi (hmono (s + 1) (r + p) h1 (by omega))
    have hd : 0 < nth U (r + p) - nth U r := by linarith
    have h0 : 0 ≤ (x - nth U r) / (nth U (r + p) - nth U r) := div_nonneg (by linarith) (le_of_lt hd)
    have h1' : (x - nth U r) / (nth U (r + p) - nth U r) ≤ 1 := by
      rw [div_le_one hd]; linarith
    simp only
    split
    · exact h0
    · split
      · linarith
      · exact le_refl _
  · split
    · exact zero_le_one
    · split
      · exact zero_le_one
      · exact le_refl _

/-- every row of `one_knot_insert_once` has a positive entry among its first `n` columns -/
theorem insOnceEntry_row_pos (U : List Rat) (p : Nat) (x : Rat) (s n r : Nat)
    (hmono : MonoUpTo (nth U) (U.length - 1)) (hlen : n + p + 1 = U.length) (hps : p ≤ s) (hsn : s < n)
    (hlo : nth U s ≤ x) (hhi : x < nth U (s + 1)) (hr : r < n + 1) :
    ∃ c, c < n ∧ 0 < insOnceEntry U p x s r c := by
  by_cases hb : s + 1 ≤ r + p ∧ r ≤ s
  · obtain ⟨h1, h2⟩ := hb
    refine ⟨r - 1, by omega, ?_⟩
    unfold insOnceEntry
    rw [if_pos ⟨h1, h2⟩]
    have ha : nth U r ≤ x := le_trans (hmono r s h2 (by omega)) hlo
    have hb : x < nth U (r + p) := lt_of_lt_of_le hhi (hmono (s + 1) (r + p) h1 (by omega))
    have hd : 0 < nth U (r + p) - nth U r := by linarith
    have h1' : (x - nth U r) / (nth U (r + p) - nth U r) < 1 := by
      rw [div_lt_one hd]; linarith
    simp only
    have e1 : ¬ r - 1 = r := by omega
    have e2 : r - 1 + 1 = r := by omega
    rw [if_neg e1, if_pos e2]
    linarith
  · by_cases hc : r + p ≤ s
    · refine ⟨r, by omega, ?_⟩
      unfold insOnceEntry
      rw [if_neg hb, if_pos ⟨rfl, hc⟩]
      exact zero_lt_one
    · have hrs : s < r := by
        by_contra hh
        apply hb
        constructor <;> omega
      refine ⟨r - 1, by omega, ?_⟩
      unfold insOnceEntry
      rw [if_neg hb]
      have e1 : ¬ (r - 1 = r ∧ r + p ≤ s) := by omega
      have e2 : r - 1 + 1 = r ∧ s ≤ r - 1 := by omega
      rw [if_neg e1, if_pos e2]
      exact zero_lt_one

/-- **one step is positivity preserving** -/
theorem insMat_posPres (U : List Rat) (p : Nat) (x : Rat) (s n : Nat)
    (hsorted : sortedLE U = true) (hlen : n + p + 1 = U.length) (hps : p ≤ s) (hsn : s < n)
    (hlo : nth U s ≤ x) (hhi : x < nth U (s + 1)) : PosPres (insMat U p x s n) n := by
  have hmono := mono_of_sortedLE U hsorted
  intro f hf hpos w hw
  obtain ⟨r, hr, rfl⟩ := List.mem_iff_getElem.mp hw
  rw [insMat_matVec_length] at hr
  have e : (matVec (insMat U p x s n) f)[r] = (matVec (insMat U p x s n) f).getD r 0 := by
    rw [List.getD_eq_getElem?_getD, List.getElem?_eq_getElem (by rw [insMat_matVec_length]; exact hr)]
    rfl
  rw [e, insMat_matVec_getD U p x s n f hf r hr]
  apply Finset.sum_pos'
  · intro c hc
    simp only [mem_range] at hc
    exact mul_nonneg (insOnceEntry_nonneg U p x s r c hmono (by omega) hlo hhi)
      (le_of_lt (getD_pos_of_mem f hpos c (by omega)))
  · obtain ⟨c, hc, hcp⟩ := insOnceEntry_row_pos U p x s n r hmono hlen hps hsn hlo hhi hr
    exact ⟨c, by simp [hc], mul_pos hcp (getD_pos_of_mem f hpos c (by omega))⟩

/-- the matrix returned by the model's `insOnce` is positivity preserving -/
theorem insOnce_posPres (k : KV) (x : Rat) (M : Mat) (hwf : WF k.v k.deg) (hsep : Separated k.v)
    (hx : x < k.umax) (hM : insOnce k x = .ok M) : PosPres M k.npts := by
  have g : GoodKV k := goodKV_of_WF k.v k.deg hwf hsep
  unfold insOnce at hM
  simp only [bind, Except.bind, pure, Except.pure] at hM
  split at hM
  · cases hM
  · split at hM
    · cases hM
    · rename_i s hs
      simp only [Except.ok.injEq] at hM
      have hMeq : M = insMat k.v k.deg x s k.npts := hM.symm
      have hlenk := g.ord.len
      have hps : k.deg ≤ s := span_ge_deg k g.deg_lt x s hs
      have hsn : s < k.npts := span_lt_npts k g.ord x s hs (by have := g.deg_lt; omega)
      have hspan : nth k.v s ≤ x ∧ x < nth k.v (s + 1) := by
        rcases span_spec k x s hs with h | ⟨h, _⟩
        · exact h
        · exfalso; rw [h] at hx; exact lt_irrefl _ hx
      rw [hMeq]
      exact insMat_posPres k.v k.deg x s k.npts hwf.sorted hlenk hps hsn hspan.1 hspan.2

theorem posPres_matMul (inc acc : Mat) (r n c : Nat) (hA : Shaped inc r n) (hB : Shaped acc n c) (hn : 0 < n)
    (h1 : PosPres inc n) (h2 : PosPres acc c) : PosPres (matMul inc acc) c := by
  intro f hf hpos
  rw [matVec_matMul inc acc r n c hA hB hn f hf]
  exact h1 (matVec acc f) (by rw [matVec_length, hB.1]) (h2 f hf hpos)

/-- `one_knot_insert(knotvector, node, times)` keeps positivity preservation -/
theorem insTimes_posPres (k0 : KV) (big : List Rat) (hbig : Separated big) (x : Rat) (hxbig : x ∈ big)
    (hx1 : k0.umin < x) (hx2 : x < k0.umax) :
    ∀ (t : Nat) (k : KV) (acc res : Mat) (kf : KV) (ins : List Rat),
      Reached k0 k acc ins → (∀ y ∈ k.v, y ∈ big) → PosPres acc k0.npts → insTimes t k x acc = .ok (res, kf) →
      PosPres res k0.npts := by
  intro t
  induction t with
  | zero =>
    intro k acc res kf ins _ _ hp h
    simp only [insTimes, Except.ok.injEq, Prod.mk.injEq] at h
    obtain ⟨rfl, rfl⟩ := h
    exact hp
  | succ t ih =>
    intro k acc res kf ins hr hsub hp h
    have hall := h
    simp only [insTimes, bind, Except.bind] at h
    split at h
    · cases h
    · rename_i inc hinc
      split at h
      · cases h
      · rename_i k' hk'
        -- one step, through the `t = 1` instance of `insTimes_reached`
        have hone : insTimes 1 k x acc = .ok (matMul inc acc, k') := by
          simp only [insTimes, bind, Except.bind, hinc, hk']
        obtain ⟨hre1, hsub1⟩ := insTimes_reached k0 big hbig x hxbig hx1 hx2 1 k acc _ k' ins hr hsub hone
        have hsep := separated_of_subset big k.v hbig hsub
        have hn0 : 0 < k.npts := by have := hr.wf.npts_gt; unfold KV.npts; omega
        have hx2' : x < k.umax := by rw [hr.repro.umax]; exact hx2
        have hx1' : k.umin < x := by rw [hr.repro.umin]; exact hx1
        have hsep' := separated_of_subset big k'.v hbig hsub1
        obtain ⟨_, _, _, _, hshape, _, _⟩ := insert_step_facts k k' x inc hr.wf hsep hsep' hx1' hx2' hinc hk'
        have hp' : PosPres (matMul inc acc) k0.npts :=
          posPres_matMul inc acc _ _ _ hshape hr.repro.shaped hn0
            (insOnce_posPres k x inc hr.wf hsep hx2' hinc) hp
        exact ih k' (matMul inc acc) res kf _ hre1 hsub1 hp' h

theorem foldl_posPres (k0 : KV) (big : List Rat) (hbig : Separated big) (mult : Rat → Nat) :
    ∀ (ns : List Rat) (k : KV) (acc res : Mat) (kf : KV) (ins : List Rat),
      (∀ x ∈ ns, x ∈ big ∧ k0.umin < x ∧ x < k0.umax) →
      Reached k0 k acc ins → (∀ y ∈ k.v, y ∈ big) → PosPres acc k0.npts →
      ns.foldlM (fun (st : Mat × KV) (node : Rat) => insTimes (mult node) st.2 node st.1) (acc, k) = .ok (res, kf) →
      PosPres res k0.npts := by
  intro ns
  induction ns with
  | nil =>
    intro k acc res kf ins _ _ _ hp h
    simp only [List.foldlM_nil, pure, Except.pure, Except.ok.injEq, Prod.mk.injEq] at h
    obtain ⟨rfl, rfl⟩ := h
    exact hp
  | cons x xs ih =>
    intro k acc res kf ins hns hr hsub hp h
    simp only [List.foldlM_cons, bind, Except.bind] at h
    split at h
    · cases h
    · rename_i st hst
      obtain ⟨m1, k1⟩ := st
      obtain ⟨hxb, hx1, hx2⟩ := hns x (by simp)
      obtain ⟨hr1, hsub1⟩ := insTimes_reached k0 big hbig x hxb hx1 hx2 (mult x) k acc m1 k1 ins hr hsub hst
      have hp1 := insTimes_posPres k0 big hbig x hxb hx1 hx2 (mult x) k acc m1 k1 ins hr hsub hp hst
      exact ih k1 m1 res kf _ (fun y hy => hns y (by simp [hy])) hr1 hsub1 hp1 h

/-- **`knot_insert(knotvector, nodes)` is positivity preserving**: positive coefficients (weights) stay positive -/
theorem knotInsertMat_posPres (k : KV) (nodes : List Rat) (m : Mat) (hwf : WF k.v k.deg)
    (hsep : Separated (k.v ++ nodes)) (h : knotInsertMat k nodes = .ok m) : PosPres m k.npts := by
  unfold knotInsertMat at h
  simp only [bind, Except.bind, pure, Except.pure] at h
  split at h
  · cases h
  · rename_i hrange
    split at h
    · cases h
    · rename_i st hfold
      obtain ⟨m1, kf⟩ := st
      simp only [Except.ok.injEq] at h
      subst h
      have hfirst : nth k.v 0 = k.umin := (umin_eq_first k.v k.deg hwf).symm
      have hlast : k.v.getLastD 0 = k.umax := by
        have := umax_eq_last k.v k.deg hwf
        unfold KV.umax KV.npts; exact this.symm
      have hns : ∀ x ∈ isort (dedup (interiorNodes k nodes)), x ∈ k.v ++ nodes ∧ k.umin < x ∧ x < k.umax := by
        intro x hx
        rw [mem_isort, mem_dedup] at hx
        unfold interiorNodes at hx
        simp only [List.mem_filter, Bool.and_eq_true, Bool.not_eq_true', beq_eq_false_iff_ne, ne_eq] at hx
        obtain ⟨hxn, hx1, hx2⟩ := hx
        have hr : ¬ (x < nth k.v 0 ∨ k.v.getLastD 0 < x) := by
          intro hc
          apply hrange
          simp only [List.any_eq_true, decide_eq_true_eq]
          exact ⟨x, hxn, hc⟩
        rw [hfirst, hlast] at hr
        rw [hfirst] at hx1
        rw [hlast] at hx2
        refine ⟨by simp [hxn], ?_, ?_⟩
        · exact lt_of_le_of_ne (not_lt.mp (fun h => hr (Or.inl h))) (fun e => hx1 e.symm)
        · exact lt_of_le_of_ne (not_lt.mp (fun h => hr (Or.inr h))) hx2
      have hreach0 : Reached k k (identity k.npts) [] :=
        ⟨repro_refl k, hwf, by rw [List.append_nil, isort_sorted k.v hwf.sorted]⟩
      exact foldl_posPres k (k.v ++ nodes) hsep (cnt nodes) _ k (identity k.npts) m1 kf [] hns hreach0
        (fun y hy => by simp [hy]) (posPres_identity k.npts) hfold

end NV
