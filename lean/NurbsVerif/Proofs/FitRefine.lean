/-
Proofs/FitRefine.lean — least-squares refit onto a refinement is knot insertion.
When the target vector `c` refines the source vector `a` (same degree) and `M` reproduces the source space over
`c`, the matrix `T = GG⁻¹ · GF` of `func2func(a → c)` is `M` itself: `GF = GG · M` holds node by node (bilinearity of
the quadrature sums), and `GG⁻¹` is re-checked by the model.  This is what `BaseCurve.update(newknotvector)` does
inside `==`, `+`, `|` … before control points are compared or combined.
-/
import NurbsVerif.Proofs.Removal

namespace NV
open Finset

/-- invariant of the accumulation for a fit *onto a refinement* `k` of `k0`: `GF = GG · M` -/
structure GramInvR (k0 k : KV) (M : Mat) (g : Gram) : Prop where
  sFF : Shaped g.FF k0.npts k0.npts
  sGF : Shaped g.GF k.npts k0.npts
  sGG : Shaped g.GG k.npts k.npts
  eq : toM k.npts k0.npts g.GF = toM k.npts k.npts g.GG * toM k.npts k0.npts M

theorem gram_stepR (k0 k : KV) (M : Mat) (hrep : Repro k0 k M) (g0 : GoodKV k0) (g1 : GoodKV k)
    (hc0 : orderedCheck k0 = true) (hc1 : orderedCheck k = true)
    (gr : Gram) (hinv : GramInvR k0 k M gr) (nodes : List Rat) (hne : nodes ≠ []) (ws : List Rat) (F G : Mat)
    (hF : evalNodes k0 none nodes k0.deg = .ok F) (hG : evalNodes k none nodes k.deg = .ok G) :
    GramInvR k0 k M ⟨matAdd gr.FF (gramAcc ws F F), matAdd gr.GF (gramAcc ws G F), matAdd gr.GG (gramAcc ws G G)⟩ := by
  have hlen : 0 < nodes.length := List.length_pos_of_ne_nil hne
  obtain ⟨hFe, hin0⟩ := evalNodes_spec k0 g0 hc0 nodes hne F hF
  obtain ⟨hGe, _⟩ := evalNodes_spec k g1 hc1 nodes hne G hG
  have sF : Shaped F k0.npts nodes.length := by rw [hFe]; exact transpose_cdbRows_shaped k0 nodes hlen
  have sG : Shaped G k.npts nodes.length := by rw [hGe]; exact transpose_cdbRows_shaped k nodes hlen
  have hnode := repro_nodes k0 k M hrep.toW nodes hlen hin0
  rw [← hFe, ← hGe] at hnode
  refine ⟨matAdd_shaped _ _ _ _ hinv.sFF (gramAcc_shaped ws F F _ _ sF.1 sF.1),
    matAdd_shaped _ _ _ _ hinv.sGF (gramAcc_shaped ws G F _ _ sG.1 sF.1),
    matAdd_shaped _ _ _ _ hinv.sGG (gramAcc_shaped ws G G _ _ sG.1 sG.1), ?_⟩
  simp only []
  rw [toM_matAdd _ _ _ _ hinv.sGF (gramAcc_shaped ws G F _ _ sG.1 sF.1),
    toM_matAdd _ _ _ _ hinv.sGG (gramAcc_shaped ws G G _ _ sG.1 sG.1),
    Matrix.add_mul, hinv.eq, toM_gramAcc ws G F _ _ _ sG sF, toM_gramAcc ws G G _ _ _ sG sG]
  congr 1
  -- G D Fᵀ = G D (Mᵀ G)ᵀ = G D Gᵀ M
  rw [← hnode, Matrix.transpose_mul, Matrix.transpose_transpose, Matrix.mul_assoc, Matrix.mul_assoc, Matrix.mul_assoc]

theorem gramMatrices_invR (k0 k : KV) (M : Mat) (hrep : Repro k0 k M) (g0 : GoodKV k0) (g1 : GoodKV k)
    (hc0 : orderedCheck k0 = true) (hc1 : orderedCheck k = true) (gr : Gram)
    (h : gramMatrices k0 none k none = .ok gr) : GramInvR k0 k M gr := by
  unfold gramMatrices at h
  simp only [bind, Except.bind] at h
  split at h
  · cases h
  · rename_i integ _
    refine foldlM_inv (GramInvR k0 k M) _ ?_ _ _ gr ?_ h
    · intro s se s' hs hstep
      obtain ⟨st, en⟩ := se
      simp only [bind, Except.bind, pure, Except.pure] at hstep
      split at hstep
      · cases hstep
      · rename_i F hF
        split at hstep
        · cases hstep
        · rename_i G hG
          simp only [Except.ok.injEq] at hstep
          subst hstep
          have hne : (openLinspace (2 * max k0.deg k.deg + 1)).map (fun x => st + (en - st) * x) ≠ [] := by
            intro hc
            exact openLinspace_ne_nil _ (by omega) (List.map_eq_nil_iff.mp hc)
          exact gram_stepR k0 k M hrep g0 g1 hc0 hc1 s hs _ hne _ F G hF hG
    · refine ⟨zeros_shaped _ _, zeros_shaped _ _, zeros_shaped _ _, ?_⟩
      simp only [toM_zeros, Matrix.zero_mul]

/-- **the least-squares refit onto a refinement is the insertion matrix** -/
theorem fit_to_refinement (k0 k : KV) (M T E : Mat) (hrep : Repro k0 k M) (g0 : GoodKV k0) (g1 : GoodKV k)
    (hc0 : orderedCheck k0 = true) (hc1 : orderedCheck k = true)
    (h : spline2spline k0 k none = .ok (T, E)) : T = M := by
  unfold spline2spline func2func at h
  simp only [bind, Except.bind, pure, Except.pure] at h
  split at h
  · cases h
  · rename_i gr hgr
    split at h
    · cases h
    · rename_i GGinv hGGinv
      simp only [Except.ok.injEq, Prod.mk.injEq] at h
      obtain ⟨hT, _⟩ := h
      subst hT
      have hinv := gramMatrices_invR k0 k M hrep g0 g1 hc0 hc1 gr hgr
      have hsome : invertChecked? gr.GG = some GGinv := by
        unfold exceptOfOption at hGGinv
        split at hGGinv
        · rename_i a ha; simp only [Except.ok.injEq] at hGGinv; subst hGGinv; exact ha
        · cases hGGinv
      have hsh := invertChecked_shaped gr.GG GGinv hsome
      rw [hinv.sGG.1] at hsh
      have hspec := invertChecked_spec gr.GG GGinv hsome
      rw [hinv.sGG.1] at hspec
      have hn1 : 0 < k.npts := by have := g1.deg_lt; omega
      have h1 : toM k.npts k.npts gr.GG * toM k.npts k.npts GGinv = 1 := by
        rw [← toM_matMul gr.GG GGinv _ _ _ hinv.sGG hsh hn1, hspec, toM_identity]
      have h2 : toM k.npts k.npts GGinv * toM k.npts k.npts gr.GG = 1 := mul_eq_one_comm.mp h1
      apply toM_inj _ _ k.npts k0.npts (matMul_shaped _ _ _ _ _ hsh hinv.sGF hn1) hrep.shaped
      rw [toM_matMul _ _ _ _ _ hsh hinv.sGF hn1, hinv.eq, ← Matrix.mul_assoc, h2, Matrix.one_mul]

end NV
