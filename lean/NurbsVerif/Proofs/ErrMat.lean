/-
Proofs/ErrMat.lean — the error matrix of the unconstrained least-squares fit is the Gram matrix of the residual:
`E = FF − GFᵀ T` equals `FF − Tᵀ GF − GFᵀ T + Tᵀ GG T`, because `GG · T = GF` (normal equations).  Hence
`fᵀ E f = ⟨C − D, C − D⟩` in the Gram inner product: the returned error is the integral of the squared residual.
-/
import NurbsVerif.Proofs.Interp

namespace NV

theorem fit_error_is_residual_gram (k0 k : KV) (T E : Mat) (g0 : GoodKV k0) (g1 : GoodKV k)
    (hc0 : orderedCheck k0 = true) (hc1 : orderedCheck k = true)
    (h : spline2spline k k0 none = .ok (T, E)) :
    ∃ gr, gramMatrices k none k0 none = .ok gr
      ∧ toM k0.npts k0.npts gr.GG * toM k0.npts k.npts T = toM k0.npts k.npts gr.GF
      ∧ toM k.npts k.npts E
          = toM k.npts k.npts gr.FF - (toM k0.npts k.npts T).transpose * toM k0.npts k.npts gr.GF
            - (toM k0.npts k.npts gr.GF).transpose * toM k0.npts k.npts T
            + (toM k0.npts k.npts T).transpose * (toM k0.npts k0.npts gr.GG * toM k0.npts k.npts T) := by
  unfold spline2spline func2func at h
  simp only [bind, Except.bind, pure, Except.pure] at h
  split at h
  · cases h
  · rename_i gr hgr
    split at h
    · cases h
    · rename_i GGinv hGGinv
      simp only [Except.ok.injEq, Prod.mk.injEq] at h
      obtain ⟨hT, hE⟩ := h
      subst hT
      subst hE
      have hsg := gramMatrices_shape k0 k g0 g1 hc0 hc1 gr hgr
      have hsome : invertChecked? gr.GG = some GGinv := by
        unfold exceptOfOption at hGGinv
        split at hGGinv
        · rename_i a ha; simp only [Except.ok.injEq] at hGGinv; subst hGGinv; exact ha
        · cases hGGinv
      have hsh := invertChecked_shaped gr.GG GGinv hsome
      rw [hsg.sGG.1] at hsh
      have hspec := invertChecked_spec gr.GG GGinv hsome
      rw [hsg.sGG.1] at hspec
      have hn0 : 0 < k0.npts := by have := g0.deg_lt; omega
      have hn1 : 0 < k.npts := by have := g1.deg_lt; omega
      have h1 : toM k0.npts k0.npts gr.GG * toM k0.npts k0.npts GGinv = 1 := by
        rw [← toM_matMul gr.GG GGinv _ _ _ hsg.sGG hsh hn0, hspec, toM_identity]
      have sT : Shaped (matMul GGinv gr.GF) k0.npts k.npts := matMul_shaped _ _ _ _ _ hsh hsg.sGF hn0
      have hNE : toM k0.npts k0.npts gr.GG * toM k0.npts k.npts (matMul GGinv gr.GF) = toM k0.npts k.npts gr.GF := by
        rw [toM_matMul _ _ _ _ _ hsh hsg.sGF hn0, ← Matrix.mul_assoc, h1, Matrix.one_mul]
      refine ⟨gr, hgr, hNE, ?_⟩
      have sGFt := transpose_shaped gr.GF _ _ hsg.sGF hn0
      have sGFtT := matMul_shaped (transpose gr.GF) (matMul GGinv gr.GF) _ _ _ sGFt sT hn0
      rw [toM_matSub _ _ _ _ hsg.sFF sGFtT, toM_matMul _ _ _ _ _ sGFt sT hn0, toM_transpose gr.GF _ _ hsg.sGF hn0, hNE]
      abel

end NV

namespace NV

theorem ent_matScale (s : Rat) (A : Mat) (i j : Nat) : ent (matScale s A) i j = s * ent A i j := by
  unfold ent matScale
  by_cases hi : i < A.length
  · simp only [List.getD_eq_getElem?_getD, List.getElem?_map, List.getElem?_eq_getElem hi, Option.map_some,
      Option.getD_some]
    by_cases hj : j < (A[i]).length
    · simp [hj]
    · simp [hj]
  · simp [List.getD_eq_getElem?_getD, hi]

theorem toM_matScale (s : Rat) (A : Mat) (r c : Nat) : toM r c (matScale s A) = s • toM r c A := by
  funext i j
  simp [toM, ent_matScale]

theorem matScale_shaped (s : Rat) (A : Mat) (r c : Nat) (h : Shaped A r c) : Shaped (matScale s A) r c := by
  refine ⟨by simp [matScale, h.1], ?_⟩
  intro row hrow
  simp only [matScale, List.mem_map] at hrow
  obtain ⟨row0, h0, rfl⟩ := hrow
  simp [h.2 row0 h0]

/-- with interpolation nodes the returned error matrix is half the Gram matrix of the residual -/
theorem fit_error_constrained (k0 k : KV) (T E : Mat) (ns : List Rat) (hns : ns ≠ []) (g0 : GoodKV k0) (g1 : GoodKV k)
    (hc0 : orderedCheck k0 = true) (hc1 : orderedCheck k = true)
    (h : spline2spline k k0 (some ns) = .ok (T, E)) :
    ∃ gr, gramMatrices k none k0 none = .ok gr
      ∧ toM k.npts k.npts E
          = (1 / 2 : Rat) • (toM k.npts k.npts gr.FF - (toM k0.npts k.npts T).transpose * toM k0.npts k.npts gr.GF
            - (toM k0.npts k.npts gr.GF).transpose * toM k0.npts k.npts T
            + (toM k0.npts k.npts T).transpose * (toM k0.npts k0.npts gr.GG * toM k0.npts k.npts T)) := by
  obtain ⟨sT, _⟩ := fit_interpolates k0 k T E ns hns g0 g1 hc0 hc1 h
  unfold spline2spline func2func at h
  simp only [bind, Except.bind, pure, Except.pure] at h
  split at h
  · cases h
  · split at h
    · cases h
    · rename_i gr hgr
      split at h
      · cases h
      · split at h
        · cases h
        · split at h
          · cases h
          · split at h
            · cases h
            · simp only [Except.ok.injEq, Prod.mk.injEq] at h
              obtain ⟨hT, hE⟩ := h
              rw [hT] at hE
              have hsg := gramMatrices_shape k0 k g0 g1 hc0 hc1 gr hgr
              have hn0 : 0 < k0.npts := by have := g0.deg_lt; omega
              have hn1 : 0 < k.npts := by have := g1.deg_lt; omega
              refine ⟨gr, hgr, ?_⟩
              have sTt := transpose_shaped T _ _ sT hn0
              have sTGF := matMul_shaped (transpose T) gr.GF _ _ _ sTt hsg.sGF hn0
              have sTGFt := transpose_shaped _ _ _ sTGF hn1
              have sGGT := matMul_shaped gr.GG T _ _ _ hsg.sGG sT hn0
              have sTGGT := matMul_shaped (transpose T) _ _ _ _ sTt sGGT hn0
              have s1 := matSub_shaped gr.FF _ _ _ hsg.sFF sTGF
              have s2 := matSub_shaped _ _ _ _ s1 sTGFt
              rw [← hE, toM_matScale, toM_matAdd _ _ _ _ s2 sTGGT, toM_matSub _ _ _ _ s1 sTGFt,
                toM_matSub _ _ _ _ hsg.sFF sTGF, toM_transpose _ _ _ sTGF hn1,
                toM_matMul _ _ _ _ _ sTt hsg.sGF hn0, toM_matMul _ _ _ _ _ sTt sGGT hn0,
                toM_matMul _ _ _ _ _ hsg.sGG sT hn0, toM_transpose T _ _ sT hn0,
                Matrix.transpose_mul, Matrix.transpose_transpose]

end NV
