/-
Proofs/SplitKV.lean — the clamped pieces `a^(p+1) ++ middle ++ b^(p+1)` that `KnotVector.split` builds are well-formed
knot vectors and windows of the (refined) knot vector they are cut from.
-/
import NurbsVerif.Proofs.SortedLists
import NurbsVerif.Proofs.EvalNodes
import NurbsVerif.Proofs.InsertMat

namespace NV

theorem pairs_spec : ∀ (l : List Rat) (a b : Rat), (a, b) ∈ KV.pairs l →
    ∃ i, i + 1 < l.length ∧ nth l i = a ∧ nth l (i + 1) = b
  | [], a, b, h => by simp [KV.pairs] at h
  | [_], a, b, h => by simp [KV.pairs] at h
  | x :: y :: t, a, b, h => by
    simp only [KV.pairs, List.mem_cons] at h
    rcases h with h | h
    · simp only [Prod.mk.injEq] at h
      exact ⟨0, by simp, by simp [nth, h.1], by simp [nth, h.2]⟩
    · obtain ⟨i, hi, h1, h2⟩ := pairs_spec (y :: t) a b h
      refine ⟨i + 1, by simp at hi ⊢; omega, ?_, ?_⟩
      · simpa [nth] using h1
      · simpa [nth] using h2

/-- what is known about a clamped piece cut from a sorted list -/
structure PieceFacts (V : List Rat) (p : Nat) (Vp : List Rat) (a b : Rat) (lo : Nat) : Prop where
  wf : WF Vp p
  win : ∀ r, r < Vp.length → nth Vp r = nth V (r + lo)
  fit : lo + Vp.length ≤ V.length
  umin : nth Vp p = a
  next : a < nth Vp (p + 1)
  umax : nth Vp (Vp.length - p - 1) = b
  ab : a < b

theorem nth_append_left (l1 l2 : List Rat) (i : Nat) (h : i < l1.length) : nth (l1 ++ l2) i = nth l1 i := by
  unfold nth
  rw [List.getD_eq_getElem?_getD, List.getD_eq_getElem?_getD, List.getElem?_append_left h]

theorem nth_append_right (l1 l2 : List Rat) (i : Nat) (h : l1.length ≤ i) :
    nth (l1 ++ l2) i = nth l2 (i - l1.length) := by
  unfold nth
  rw [List.getD_eq_getElem?_getD, List.getD_eq_getElem?_getD, List.getElem?_append_right h]

theorem nth_replicate (n : Nat) (a : Rat) (i : Nat) (h : i < n) : nth (List.replicate n a) i = a := by
  unfold nth
  rw [List.getD_eq_getElem?_getD, List.getElem?_replicate]
  simp [h]

theorem nth_mem_of_lt (l : List Rat) (i : Nat) (h : i < l.length) : nth l i ∈ l := by
  rw [nth_eq_getElem l i h]; exact List.getElem_mem h

theorem piece_facts (V : List Rat) (p : Nat) (a b : Rat) (hs : sortedLE V = true) (hab : a < b)
    (ha : cnt V a = p + 1) (hb : cnt V b = p + 1) (hm : ∀ x ∈ V, cnt V x ≤ p + 1) :
    PieceFacts V p (List.replicate (p + 1) a ++ V.filter (fun x => decide (a < x) && decide (x < b))
      ++ List.replicate (p + 1) b) a b (V.filter (fun x => decide (x < a))).length := by
  set mid := V.filter (fun x => decide (a < x) && decide (x < b)) with hmid
  set Vp := List.replicate (p + 1) a ++ mid ++ List.replicate (p + 1) b with hVp
  have hmem_mid : ∀ x ∈ mid, a < x ∧ x < b ∧ x ∈ V := by
    intro x hx
    simp only [hmid, List.mem_filter, Bool.and_eq_true, decide_eq_true_eq] at hx
    exact ⟨hx.2.1, hx.2.2, hx.1⟩
  have hlen : Vp.length = (p + 1) + mid.length + (p + 1) := by simp [hVp]; omega
  obtain ⟨hwin, hfit⟩ := window_of_sorted V a b hs hab Vp (by rw [hVp, ha, hb])
  have hsorted : sortedLE Vp = true := by
    apply sortedLE_append
    · apply sortedLE_append _ _ (sortedLE_replicate' _ _) (sortedLE_filter _ _ hs)
      intro x hx y hy
      rw [List.eq_of_mem_replicate hx]
      exact le_of_lt (hmem_mid y hy).1
    · exact sortedLE_replicate' _ _
    · intro x hx y hy
      rw [List.eq_of_mem_replicate hy]
      rw [List.mem_append] at hx
      rcases hx with hx | hx
      · rw [List.eq_of_mem_replicate hx]; exact le_of_lt hab
      · exact le_of_lt (hmem_mid x hx).2.1
  have hcnt : ∀ x, cnt Vp x = (if a = x then p + 1 else 0)
      + (if (decide (a < x) && decide (x < b)) = true then cnt V x else 0) + (if b = x then p + 1 else 0) := by
    intro x
    simp only [hVp, hmid, cnt_append, cnt_replicate, cnt_filter]
  have hhead : Vp.headD 0 = a := by
    simp [hVp, List.replicate_succ]
  have hlast : Vp.getLastD 0 = b := by
    have e : Vp = (List.replicate (p + 1) a ++ mid ++ List.replicate p b) ++ [b] := by
      rw [hVp, List.replicate_succ' (n := p) (a := b)]; simp
    rw [e, List.getLastD_eq_getLast?, List.getLast?_append]
    simp
  refine ⟨⟨hsorted, ?_, ?_, by omega, ?_⟩, hwin, hfit, ?_, ?_, ?_, hab⟩
  · rw [hhead, hcnt a]
    have h1 : ¬ a < a := lt_irrefl a
    have h2 : ¬ b = a := ne_of_gt hab
    simp [h1, h2]
  · rw [hlast, hcnt b]
    have h1 : ¬ b < b := lt_irrefl b
    have h2 : ¬ a = b := ne_of_lt hab
    simp [h1, h2]
  · intro x hx
    rw [hcnt x]
    rcases lt_trichotomy x a with h | h | h
    · have h1 : ¬ a = x := ne_of_gt h
      have h2 : ¬ a < x := by linarith
      have h3 : ¬ b = x := by intro c; linarith
      simp [h1, h2, h3]
    · subst h
      have h1 : ¬ x < x := lt_irrefl x
      have h3 : ¬ b = x := ne_of_gt hab
      simp [h1, h3]
    · rcases lt_trichotomy x b with g | g | g
      · have h1 : ¬ a = x := ne_of_lt h
        have h3 : ¬ b = x := ne_of_gt g
        have hxV : x ∈ V := by
          simp only [hVp, List.mem_append] at hx
          rcases hx with (hx | hx) | hx
          · exact absurd (List.eq_of_mem_replicate hx) (fun c => h1 c.symm)
          · exact (hmem_mid x hx).2.2
          · exact absurd (List.eq_of_mem_replicate hx) (fun c => h3 c.symm)
        have := hm x hxV
        simp [h1, h3, h, g]
        exact this
      · subst g
        have h1 : ¬ a = x := ne_of_lt h
        have h4 : ¬ x < x := lt_irrefl x
        simp [h1, h4]
      · have h1 : ¬ a = x := ne_of_lt h
        have h3 : ¬ b = x := ne_of_lt g
        have h4 : ¬ x < b := by linarith
        simp [h1, h3, h4]
  · -- nth Vp p = a
    rw [hVp, List.append_assoc, nth_append_left _ _ p (by simp), nth_replicate _ _ _ (by omega)]
  · -- a < nth Vp (p + 1)
    have hidx : p + 1 < Vp.length := by omega
    have e : nth Vp (p + 1) = nth (mid ++ List.replicate (p + 1) b) 0 := by
      rw [hVp, List.append_assoc, nth_append_right _ _ (p + 1) (by simp)]
      simp
    rw [e]
    have hm0 : nth (mid ++ List.replicate (p + 1) b) 0 ∈ mid ++ List.replicate (p + 1) b :=
      nth_mem_of_lt _ 0 (by simp)
    rw [List.mem_append] at hm0
    rcases hm0 with h | h
    · exact (hmem_mid _ h).1
    · rw [List.eq_of_mem_replicate h]; exact hab
  · -- nth Vp (Vp.length − p − 1) = b
    have e : Vp.length - p - 1 = (List.replicate (p + 1) a ++ mid).length + 0 := by simp [hlen]; omega
    rw [e, hVp, nth_append_right _ _ _ (by omega)]
    simp only [Nat.add_sub_cancel_left]
    exact nth_replicate _ _ _ (by omega)

end NV

namespace NV

theorem mapM_ok_zip {α β : Type} (f : α → Except Err β) (l : List α) (r : List β) (h : l.mapM f = .ok r) :
    r.length = l.length ∧ ∀ x y, (x, y) ∈ l.zip r → f x = .ok y := by
  induction l generalizing r with
  | nil =>
    simp only [List.mapM_nil, pure, Except.pure, Except.ok.injEq] at h
    subst h; simp
  | cons x xs ih =>
    rw [List.mapM_cons] at h
    simp only [bind, Except.bind] at h
    split at h
    · cases h
    · rename_i b hb
      split at h
      · cases h
      · rename_i bs hbs
        simp only [pure, Except.pure, Except.ok.injEq] at h
        subst h
        obtain ⟨h1, h2⟩ := ih bs hbs
        refine ⟨by simp [h1], ?_⟩
        intro x' y' hxy
        simp only [List.zip_cons_cons, List.mem_cons, Prod.mk.injEq] at hxy
        rcases hxy with ⟨rfl, rfl⟩ | hxy
        · exact hb
        · exact h2 x' y' hxy

theorem wf_first_lt_last (v : List Rat) (d : Nat) (h : WF v d) : nth v 0 < v.getLastD 0 := by
  have hpos : 0 < v.length := by have := h.npts_gt; omega
  by_contra c
  rw [not_lt] at c
  have hall : ∀ y ∈ v, y = nth v 0 := by
    intro y hy
    obtain ⟨i, hi, rfl⟩ := List.mem_iff_getElem.mp hy
    rw [← nth_eq_getElem v i hi]
    have h1 := sortedLE_mono v h.sorted 0 i (by omega) hi
    have h2 := sortedLE_mono v h.sorted i (v.length - 1) (by omega) (by omega)
    rw [← getLastD_eq_nth v hpos] at h2
    linarith
  have := cnt_eq_length_of_all_eq v (nth v 0) hall
  have hf := h.first
  rw [headD_eq_nth] at hf
  have := h.npts_gt
  omega

/-- a well-formed knot vector is its own clamped piece between `umin` and `umax` -/
theorem wf_self_piece (v : List Rat) (d : Nat) (h : WF v d) :
    v = List.replicate (d + 1) (nth v 0) ++ v.filter (fun x => decide (nth v 0 < x) && decide (x < v.getLastD 0))
      ++ List.replicate (d + 1) (v.getLastD 0)
    ∧ (v.filter (fun x => decide (x < nth v 0))).length = 0 := by
  have hpos : 0 < v.length := by have := h.npts_gt; omega
  have hab := wf_first_lt_last v d h
  have hd := sorted_decomp v (nth v 0) (v.getLastD 0) h.sorted hab
  have hL : v.filter (fun x => decide (x < nth v 0)) = [] := by
    rw [List.filter_eq_nil_iff]
    intro y hy
    obtain ⟨i, hi, rfl⟩ := List.mem_iff_getElem.mp hy
    have h1 := sortedLE_mono v h.sorted 0 i (by omega) hi
    rw [nth_eq_getElem v i hi] at h1
    simp only [decide_eq_true_eq, not_lt]
    exact h1
  have hR : v.filter (fun x => decide (v.getLastD 0 < x)) = [] := by
    rw [List.filter_eq_nil_iff]
    intro y hy
    obtain ⟨i, hi, rfl⟩ := List.mem_iff_getElem.mp hy
    have h2 := sortedLE_mono v h.sorted i (v.length - 1) (by omega) (by omega)
    rw [← getLastD_eq_nth v hpos, nth_eq_getElem v i hi] at h2
    simp only [decide_eq_true_eq, not_lt]
    exact h2
  have hf := h.first
  rw [headD_eq_nth] at hf
  rw [hL, hR, hf, h.last] at hd
  constructor
  · simpa using hd
  · rw [hL]; rfl

end NV

namespace NV

theorem mem_zip_of_mem_right {α β : Type} (l : List α) (r : List β) (hlen : r.length = l.length) (y : β) (hy : y ∈ r) :
    ∃ x, x ∈ l ∧ (x, y) ∈ l.zip r := by
  obtain ⟨i, hi, rfl⟩ := List.mem_iff_getElem.mp hy
  refine ⟨l[i]'(by omega), List.getElem_mem _, ?_⟩
  rw [List.mem_iff_getElem]
  exact ⟨i, by simp [hlen]; omega, by simp⟩

/-- **`KnotVector.split`**: every piece is a well-formed window of the vector, of the same degree -/
theorem split_spec (big : KV) (hwf : WF big.v big.deg) (cutsIn : List Rat)
    (hcnt : ∀ x ∈ cutsIn, cnt big.v x = big.deg + 1) (ps : List KV) (h : big.split cutsIn = .ok ps) :
    ∀ pk ∈ ps, ∃ lo, PieceFacts big.v big.deg pk.v pk.umin pk.umax lo ∧ pk.deg = big.deg := by
  have hfirst : nth big.v 0 = big.umin := (umin_eq_first big.v big.deg hwf).symm
  have hlast : big.v.getLastD 0 = big.umax := by
    have := umax_eq_last big.v big.deg hwf; unfold KV.umax KV.npts; exact this.symm
  have ha0 : cnt big.v big.umin = big.deg + 1 := by
    have := hwf.first; rw [headD_eq_nth, hfirst] at this; exact this
  have hb0 : cnt big.v big.umax = big.deg + 1 := by
    have := hwf.last; rw [hlast] at this; exact this
  unfold KV.split at h
  split at h
  · cases h
  · split at h
    · -- no cut: the vector itself
      simp only [Except.ok.injEq] at h
      subst h
      intro pk hpk
      simp only [List.mem_singleton] at hpk
      subst hpk
      obtain ⟨hself, hL⟩ := wf_self_piece pk.v pk.deg hwf
      have pf := piece_facts pk.v pk.deg (nth pk.v 0) (pk.v.getLastD 0) hwf.sorted (wf_first_lt_last pk.v pk.deg hwf)
        (by rw [hfirst]; exact ha0) (by rw [hlast]; exact hb0) hwf.mult_le
      rw [← hself, hL, hfirst, hlast] at pf
      exact ⟨0, pf, rfl⟩
    · -- pairs of consecutive cuts
      intro pk hpk
      set cuts := isort (dedup (cutsIn ++ [big.umin, big.umax])) with hcuts
      obtain ⟨hlen, hz⟩ := mapM_ok_zip _ _ ps h
      obtain ⟨ab, hab_mem, hzip⟩ := mem_zip_of_mem_right _ ps hlen pk hpk
      have hf := hz ab pk hzip
      obtain ⟨a, b⟩ := ab
      simp only [] at hf
      obtain ⟨i, hi, hai, hbi⟩ := pairs_spec cuts a b hab_mem
      have hsorted : sortedLE cuts = true := sortedLE_isort _
      have hnodup : cuts.Nodup := isort_nodup _ (dedup_nodup _)
      have hab : a < b := by
        rw [← hai, ← hbi]; exact strict_of_sorted_nodup cuts hsorted hnodup i (i + 1) (by omega) hi
      have hmemc : ∀ x, x ∈ cuts → cnt big.v x = big.deg + 1 := by
        intro x hx
        rw [hcuts, mem_isort, mem_dedup, List.mem_append] at hx
        rcases hx with hx | hx
        · exact hcnt x hx
        · simp only [List.mem_cons, List.mem_singleton, List.not_mem_nil, or_false] at hx
          rcases hx with rfl | rfl
          · exact ha0
          · exact hb0
      have hac : cnt big.v a = big.deg + 1 := hmemc a (by rw [← hai]; exact nth_mem_of_lt cuts i (by omega))
      have hbc : cnt big.v b = big.deg + 1 := hmemc b (by rw [← hbi]; exact nth_mem_of_lt cuts (i + 1) hi)
      have pf := piece_facts big.v big.deg a b hwf.sorted hab hac hbc hwf.mult_le
      obtain ⟨_, hv, hd⟩ := mk?_ok _ pk hf
      have hdeg : pk.deg = big.deg := by
        rw [hd, pf.wf.first]; omega
      refine ⟨(big.v.filter (fun x => decide (x < a))).length, ?_, hdeg⟩
      have e1 : pk.umin = a := by
        unfold KV.umin; rw [hv, hdeg]; exact pf.umin
      have e2 : pk.umax = b := by
        unfold KV.umax KV.npts; rw [hv, hdeg]; exact pf.umax
      rw [hv, e1, e2]
      exact pf

end NV
