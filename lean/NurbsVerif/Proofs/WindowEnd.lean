/-
Proofs/WindowEnd.lean — the window theorem including the closing end point: when the window ends where the big knot
list ends (`b = umaxV`), the left-limit convention at `u = b` is the same for the piece and for the big spline.
-/
import NurbsVerif.Proofs.Window

namespace NV
open Finset

theorem window_eval_closed (V Vp : List Rat) (umaxV b : Rat) (N n' p lo : Nat) (Q : List Rat) (u : Rat) (sz' : Nat)
    (hmV : MonoUpTo (nth V) (V.length - 1)) (hmaxV : ∀ a, a ≤ V.length - 1 → nth V a ≤ umaxV)
    (hlenV : N + p + 1 = V.length)
    (hmP : MonoUpTo (nth Vp) (Vp.length - 1)) (hmaxP : ∀ a, a ≤ Vp.length - 1 → nth Vp a ≤ b)
    (hlenP : n' + p + 1 = Vp.length)
    (hwin : ∀ r, r < Vp.length → nth Vp r = nth V (r + lo)) (hfit : lo + Vp.length ≤ V.length)
    (hQ : Q.length = N) (hp : p ≤ sz') (hsz : sz' < n') (hin : InSpan (nth Vp) b sz' u) (hend : u = b → umaxV = b) :
    dot (cdbRow Vp b n' p u) ((Q.drop lo).take n') = dot (cdbRow V umaxV N p u) Q := by
  have hlQ : ((Q.drop lo).take n').length = n' := by
    rw [List.length_take, List.length_drop, hQ]; omega
  have e0 : nth Vp sz' = nth V (sz' + lo) := hwin sz' (by omega)
  have e1 : nth Vp (sz' + 1) = nth V (sz' + lo + 1) := by
    rw [hwin (sz' + 1) (by omega)]; congr 1; omega
  have hinV : InSpan (nth V) umaxV (sz' + lo) u := by
    rcases hin with hh | ⟨h1, h2, h3⟩
    · left; rw [← e0, ← e1]; exact hh
    · right
      have := hend h1
      refine ⟨by rw [this]; exact h1, by rw [← e0, ← e1]; exact h2, by rw [← e1, this]; exact h3⟩
  rw [dot_cdbRow_eq_spanSum Vp b n' p sz' u _ hmP hmaxP hlenP hsz hin hlQ,
    dot_cdbRow_eq_spanSum V umaxV N p (sz' + lo) u Q hmV hmaxV hlenV (by omega) hinV hQ]
  rw [spanSum_congr (nth Vp) sz' p u _ (fun r => Q.getD (r + lo) 0)
    (fun i _ hi => getD_take_drop Q lo n' i (by omega))]
  rw [spanSum_congr_knots (nth Vp) (fun k => nth V (k + lo)) sz' p u _ (fun m hm => hwin m (by omega))]
  exact C07_window (nth V) lo p sz' hp (fun i => Q.getD i 0) u

end NV
