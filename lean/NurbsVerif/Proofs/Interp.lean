/-
Proofs/Interp.lean — the constrained least-squares fit of `func2func` (interpolation nodes given) interpolates: with `G`,
`F` the evaluation matrices of the new and the old basis at the nodes, the returned matrix satisfies `G · T = F`, for
every pair of knot vectors (no relation between the spaces is needed) — only the two checked inverses are used.
-/
import NurbsVerif.Proofs.Removal

namespace NV

/-- shapes of the accumulated Gram matrices (`k` the source, `k0` the target) -/
structure GramShape (k0 k : KV) (g : Gram) : Prop where
  sFF : Shaped g.FF k.npts k.npts
  sGF : Shaped g.GF k0.npts k.npts
  sGG : Shaped g.GG k0.npts k0.npts

theorem gramMatrices_shape (k0 k : KV) (g0 : GoodKV k0) (g1 : GoodKV k)
    (hc0 : orderedCheck k0 = true) (hc1 : orderedCheck k = true) (gr : Gram)
    (h : gramMatrices k none k0 none = .ok gr) : GramShape k0 k gr := by
  unfold gramMatrices at h
  simp only [bind, Except.bind] at h
  split at h
  · cases h
  · rename_i integ _
    refine foldlM_inv (GramShape k0 k) _ ?_ _ _ gr ?_ h
    · intro s se s' hs hstep
      obtain ⟨st, en⟩ := se
      simp only [bind, Except.bind, pure, Except.pure] at hstep
      split at hstep
      · cases hstep
      · rename_i F hF
        split at hstep
        · cases hstep
        · rename_i G hG
          simp only [Except.ok.injEq] at hstep
          subst hstep
          have hne : (openLinspace (2 * max k.deg k0.deg + 1)).map (fun x => st + (en - st) * x) ≠ [] := by
            intro hc
            exact openLinspace_ne_nil _ (by omega) (List.map_eq_nil_iff.mp hc)
          have hlen := List.length_pos_of_ne_nil hne
          obtain ⟨hFe, _⟩ := evalNodes_spec k g1 hc1 _ hne F hF
          obtain ⟨hGe, _⟩ := evalNodes_spec k0 g0 hc0 _ hne G hG
          have sF : Shaped F k.npts ((openLinspace (2 * max k.deg k0.deg + 1)).map (fun x => st + (en - st) * x)).length := by rw [hFe]; exact transpose_cdbRows_shaped k _ hlen
          have sG : Shaped G k0.npts ((openLinspace (2 * max k.deg k0.deg + 1)).map (fun x => st + (en - st) * x)).length := by rw [hGe]; exact transpose_cdbRows_shaped k0 _ hlen
          exact ⟨matAdd_shaped _ _ _ _ hs.sFF (gramAcc_shaped _ F F _ _ sF.1 sF.1),
            matAdd_shaped _ _ _ _ hs.sGF (gramAcc_shaped _ G F _ _ sG.1 sF.1),
            matAdd_shaped _ _ _ _ hs.sGG (gramAcc_shaped _ G G _ _ sG.1 sG.1)⟩
    · exact ⟨zeros_shaped _ _, zeros_shaped _ _, zeros_shaped _ _⟩

/-- **the constrained fit interpolates**: `G · T = F` -/
theorem fit_interpolates (k0 k : KV) (T E : Mat) (ns : List Rat) (hns : ns ≠ []) (g0 : GoodKV k0) (g1 : GoodKV k)
    (hc0 : orderedCheck k0 = true) (hc1 : orderedCheck k = true)
    (h : spline2spline k k0 (some ns) = .ok (T, E)) :
    Shaped T k0.npts k.npts ∧
      ∃ Fm GT, evalNodes k none ns k.deg = .ok Fm ∧ evalNodes k0 none ns k0.deg = .ok GT
        ∧ toM ns.length k0.npts (transpose GT) * toM k0.npts k.npts T = toM ns.length k.npts (transpose Fm) := by
  have hm : 0 < ns.length := List.length_pos_of_ne_nil hns
  unfold spline2spline func2func at h
  simp only [bind, Except.bind, pure, Except.pure] at h
  split at h
  · cases h
  · split at h
    · cases h
    · rename_i gr hgr
      split at h
      · cases h
      · rename_i GGinv hGGinv
        split at h
        · cases h
        · rename_i Fm hFm
          split at h
          · cases h
          · rename_i GT hGT
            split at h
            · cases h
            · rename_i LLinv hLLinv
              simp only [Except.ok.injEq, Prod.mk.injEq] at h
              obtain ⟨hT, _⟩ := h
              subst hT
              have hsg := gramMatrices_shape k0 k g0 g1 hc0 hc1 gr hgr
              have hsome : invertChecked? gr.GG = some GGinv := by
                unfold exceptOfOption at hGGinv
                split at hGGinv
                · rename_i a ha; simp only [Except.ok.injEq] at hGGinv; subst hGGinv; exact ha
                · cases hGGinv
              have hsh := invertChecked_shaped gr.GG GGinv hsome
              rw [hsg.sGG.1] at hsh
              have hn0 : 0 < k0.npts := by have := g0.deg_lt; omega
              have hn1 : 0 < k.npts := by have := g1.deg_lt; omega
              obtain ⟨hFe, _⟩ := evalNodes_spec k g1 hc1 ns hns Fm hFm
              obtain ⟨hGe, _⟩ := evalNodes_spec k0 g0 hc0 ns hns GT hGT
              have sFm : Shaped Fm k.npts ns.length := by rw [hFe]; exact transpose_cdbRows_shaped k ns hm
              have sGT : Shaped GT k0.npts ns.length := by rw [hGe]; exact transpose_cdbRows_shaped k0 ns hm
              have sF := transpose_shaped Fm _ _ sFm hn1
              have sG := transpose_shaped GT _ _ sGT hn0
              set LL := matMul (transpose GT) (matMul GGinv GT) with hLL
              have sLL : Shaped LL ns.length ns.length :=
                matMul_shaped _ _ _ _ _ sG (matMul_shaped _ _ _ _ _ hsh sGT hn0) hn0
              have hsomeL : invertChecked? LL = some LLinv := by
                unfold exceptOfOption at hLLinv
                split at hLLinv
                · rename_i a ha; simp only [Except.ok.injEq] at hLLinv; subst hLLinv; exact ha
                · cases hLLinv
              have sLi := invertChecked_shaped LL LLinv hsomeL
              rw [sLL.1] at sLi
              have hspecL := invertChecked_spec LL LLinv hsomeL
              rw [sLL.1] at hspecL
              -- LL · LLinv = 1
              have hL1 : toM ns.length ns.length LL * toM ns.length ns.length LLinv = 1 := by
                rw [← toM_matMul LL LLinv _ _ _ sLL sLi hm, hspecL, toM_identity]
              have sGGi_GT := matMul_shaped GGinv GT _ _ _ hsh sGT hn0
              have sG_GGi := matMul_shaped (transpose GT) GGinv _ _ _ sG hsh hn0
              have sLG := matMul_shaped LLinv (matMul (transpose GT) GGinv) _ _ _ sLi sG_GGi hm
              have sGT_LG := matMul_shaped GT (matMul LLinv (matMul (transpose GT) GGinv)) _ _ _ sGT sLG hm
              have sGGi_GTLG := matMul_shaped GGinv _ _ _ _ hsh sGT_LG hn0
              have sQG := matSub_shaped GGinv _ _ _ hsh sGGi_GTLG
              have sGT_Li := matMul_shaped GT LLinv _ _ _ sGT sLi hm
              have sQF := matMul_shaped GGinv _ _ _ _ hsh sGT_Li hn0
              have sT1 := matMul_shaped _ gr.GF _ _ _ sQG hsg.sGF hn0
              have sT2 := matMul_shaped _ (transpose Fm) _ _ _ sQF sF hm
              have sT := matAdd_shaped _ _ _ _ sT1 sT2
              refine ⟨sT, Fm, GT, hFm, hGT, ?_⟩
              have hLLm : toM ns.length ns.length LL
                  = toM ns.length k0.npts (transpose GT) * (toM k0.npts k0.npts GGinv * toM k0.npts ns.length GT) := by
                rw [hLL, toM_matMul _ _ _ _ _ sG sGGi_GT hn0, toM_matMul _ _ _ _ _ hsh sGT hn0]
              rw [toM_matAdd _ _ _ _ sT1 sT2, Matrix.mul_add,
                toM_matMul _ _ _ _ _ sQG hsg.sGF hn0, toM_matMul _ _ _ _ _ sQF sF hm,
                toM_matSub _ _ _ _ hsh sGGi_GTLG, toM_matMul _ _ _ _ _ hsh sGT_LG hn0,
                toM_matMul _ _ _ _ _ sGT sLG hm, toM_matMul _ _ _ _ _ sLi sG_GGi hm,
                toM_matMul _ _ _ _ _ sG hsh hn0, toM_matMul _ _ _ _ _ hsh sGT_Li hn0,
                toM_matMul _ _ _ _ _ sGT sLi hm]
              -- G·QG = 0 and G·QF = 1 by LL·LLinv = 1
              have hQF : toM ns.length k0.npts (transpose GT)
                    * (toM k0.npts k0.npts GGinv * (toM k0.npts ns.length GT * toM ns.length ns.length LLinv)) = 1 := by
                rw [← Matrix.mul_assoc, ← Matrix.mul_assoc, Matrix.mul_assoc (toM ns.length k0.npts (transpose GT)),
                  ← hLLm, hL1]
              have hQG : toM ns.length k0.npts (transpose GT)
                    * (toM k0.npts k0.npts GGinv - toM k0.npts k0.npts GGinv * (toM k0.npts ns.length GT
                        * (toM ns.length ns.length LLinv * (toM ns.length k0.npts (transpose GT) * toM k0.npts k0.npts GGinv)))) = 0 := by
                rw [Matrix.mul_sub]
                have e : toM ns.length k0.npts (transpose GT) * (toM k0.npts k0.npts GGinv * (toM k0.npts ns.length GT
                        * (toM ns.length ns.length LLinv * (toM ns.length k0.npts (transpose GT) * toM k0.npts k0.npts GGinv))))
                    = (toM ns.length k0.npts (transpose GT) * (toM k0.npts k0.npts GGinv * (toM k0.npts ns.length GT
                        * toM ns.length ns.length LLinv))) * (toM ns.length k0.npts (transpose GT) * toM k0.npts k0.npts GGinv) := by
                  simp only [Matrix.mul_assoc]
                rw [e, hQF, Matrix.one_mul, sub_self]
              rw [← Matrix.mul_assoc, hQG, Matrix.zero_mul, zero_add, ← Matrix.mul_assoc, hQF, Matrix.one_mul]

end NV

namespace NV
open Finset

/-- the same at the level of spline functions: at every interpolation node the refitted coefficients `T f` give the value
of the original function -/
theorem fit_interpolates_dot (k0 k : KV) (T E : Mat) (ns : List Rat) (hns : ns ≠ []) (g0 : GoodKV k0) (g1 : GoodKV k)
    (hc0 : orderedCheck k0 = true) (hc1 : orderedCheck k = true)
    (h : spline2spline k k0 (some ns) = .ok (T, E)) (f : List Rat) (hf : f.length = k.npts) (n : Nat) (hn : n < ns.length) :
    dot (cdbRow k0.v k0.umax k0.npts k0.deg (ns.getD n 0)) (matVec T f)
      = dot (cdbRow k.v k.umax k.npts k.deg (ns.getD n 0)) f := by
  have hm : 0 < ns.length := List.length_pos_of_ne_nil hns
  obtain ⟨sT, Fm, GT, hFm, hGT, hmat⟩ := fit_interpolates k0 k T E ns hns g0 g1 hc0 hc1 h
  obtain ⟨hFe, _⟩ := evalNodes_spec k g1 hc1 ns hns Fm hFm
  obtain ⟨hGe, _⟩ := evalNodes_spec k0 g0 hc0 ns hns GT hGT
  have hn0 : 0 < k0.npts := by have := g0.deg_lt; omega
  have hn1 : 0 < k.npts := by have := g1.deg_lt; omega
  have sFm : Shaped Fm k.npts ns.length := by rw [hFe]; exact transpose_cdbRows_shaped k ns hm
  have sGT : Shaped GT k0.npts ns.length := by rw [hGe]; exact transpose_cdbRows_shaped k0 ns hm
  rw [toM_transpose GT _ _ sGT hn0, toM_transpose Fm _ _ sFm hn1] at hmat
  -- entries of the matrix identity
  have hent : ∀ i, i < k.npts →
      ∑ r ∈ range k0.npts, (cdbRow k0.v k0.umax k0.npts k0.deg (ns.getD n 0)).getD r 0 * ent T r i
        = (cdbRow k.v k.umax k.npts k.deg (ns.getD n 0)).getD i 0 := by
    intro i hi
    have := congrFun (congrFun hmat ⟨n, hn⟩) ⟨i, hi⟩
    simp only [Matrix.mul_apply, Matrix.transpose_apply, toM] at this
    rw [hFe, ent_evalNodes k ns hm i n hi hn] at this
    rw [← this, ← Fin.sum_univ_eq_sum_range
      (fun r => (cdbRow k0.v k0.umax k0.npts k0.deg (ns.getD n 0)).getD r 0 * ent T r i) k0.npts]
    apply Finset.sum_congr rfl
    intro r _
    rw [hGe, ent_evalNodes k0 ns hm r n r.2 hn]
  have lrow0 : (cdbRow k0.v k0.umax k0.npts k0.deg (ns.getD n 0)).length = k0.npts := by simp [cdbRow]
  have lrow : (cdbRow k.v k.umax k.npts k.deg (ns.getD n 0)).length = k.npts := by simp [cdbRow]
  rw [dot_eq_sum _ _ k0.npts lrow0 (by rw [matVec_length, sT.1]), dot_eq_sum _ _ k.npts lrow hf]
  have e1 : ∀ r ∈ range k0.npts, (cdbRow k0.v k0.umax k0.npts k0.deg (ns.getD n 0)).getD r 0 * (matVec T f).getD r 0
      = ∑ i ∈ range k.npts, (cdbRow k0.v k0.umax k0.npts k0.deg (ns.getD n 0)).getD r 0 * ent T r i * f.getD i 0 := by
    intro r hr
    simp only [mem_range] at hr
    rw [matVec_getD_sum T _ _ sT f hf r hr, Finset.mul_sum]
    apply Finset.sum_congr rfl
    intro i _; ring
  rw [Finset.sum_congr rfl e1, Finset.sum_comm]
  apply Finset.sum_congr rfl
  intro i hi
  simp only [mem_range] at hi
  rw [← hent i hi, Finset.sum_mul]

end NV

namespace NV
open Finset

/-- **constrained normal equations**: `GG · T = GF + Gᵀ · Λ` for a matrix `Λ` of multipliers — the residual of the fit is
orthogonal (in the Gram inner product) to every element of the target space that vanishes at all the nodes -/
theorem fit_constrained_normal_equations (k0 k : KV) (T E : Mat) (ns : List Rat) (hns : ns ≠ []) (g0 : GoodKV k0) (g1 : GoodKV k)
    (hc0 : orderedCheck k0 = true) (hc1 : orderedCheck k = true)
    (h : spline2spline k k0 (some ns) = .ok (T, E)) :
    ∃ gr GT, gramMatrices k none k0 none = .ok gr ∧ evalNodes k0 none ns k0.deg = .ok GT ∧
      ∃ L : Matrix (Fin ns.length) (Fin k.npts) Rat,
        toM k0.npts k0.npts gr.GG * toM k0.npts k.npts T
          = toM k0.npts k.npts gr.GF + toM k0.npts ns.length GT * L := by
  have hm : 0 < ns.length := List.length_pos_of_ne_nil hns
  unfold spline2spline func2func at h
  simp only [bind, Except.bind, pure, Except.pure] at h
  split at h
  · cases h
  · split at h
    · cases h
    · rename_i gr hgr
      split at h
      · cases h
      · rename_i GGinv hGGinv
        split at h
        · cases h
        · rename_i Fm hFm
          split at h
          · cases h
          · rename_i GT hGT
            split at h
            · cases h
            · rename_i LLinv hLLinv
              simp only [Except.ok.injEq, Prod.mk.injEq] at h
              obtain ⟨hT, _⟩ := h
              subst hT
              have hsg := gramMatrices_shape k0 k g0 g1 hc0 hc1 gr hgr
              have hsome : invertChecked? gr.GG = some GGinv := by
                unfold exceptOfOption at hGGinv
                split at hGGinv
                · rename_i a ha; simp only [Except.ok.injEq] at hGGinv; subst hGGinv; exact ha
                · cases hGGinv
              have hsh := invertChecked_shaped gr.GG GGinv hsome
              rw [hsg.sGG.1] at hsh
              have hn0 : 0 < k0.npts := by have := g0.deg_lt; omega
              have hn1 : 0 < k.npts := by have := g1.deg_lt; omega
              obtain ⟨hFe, _⟩ := evalNodes_spec k g1 hc1 ns hns Fm hFm
              obtain ⟨hGe, _⟩ := evalNodes_spec k0 g0 hc0 ns hns GT hGT
              have sFm : Shaped Fm k.npts ns.length := by rw [hFe]; exact transpose_cdbRows_shaped k ns hm
              have sGT : Shaped GT k0.npts ns.length := by rw [hGe]; exact transpose_cdbRows_shaped k0 ns hm
              have sF := transpose_shaped Fm _ _ sFm hn1
              have sG := transpose_shaped GT _ _ sGT hn0
              set LL := matMul (transpose GT) (matMul GGinv GT) with hLL
              have sLL : Shaped LL ns.length ns.length :=
                matMul_shaped _ _ _ _ _ sG (matMul_shaped _ _ _ _ _ hsh sGT hn0) hn0
              have hsomeL : invertChecked? LL = some LLinv := by
                unfold exceptOfOption at hLLinv
                split at hLLinv
                · rename_i a ha; simp only [Except.ok.injEq] at hLLinv; subst hLLinv; exact ha
                · cases hLLinv
              have sLi := invertChecked_shaped LL LLinv hsomeL
              rw [sLL.1] at sLi
              have hspecL := invertChecked_spec LL LLinv hsomeL
              rw [sLL.1] at hspecL
              -- LL · LLinv = 1
              have hL1 : toM ns.length ns.length LL * toM ns.length ns.length LLinv = 1 := by
                rw [← toM_matMul LL LLinv _ _ _ sLL sLi hm, hspecL, toM_identity]
              have sGGi_GT := matMul_shaped GGinv GT _ _ _ hsh sGT hn0
              have sG_GGi := matMul_shaped (transpose GT) GGinv _ _ _ sG hsh hn0
              have sLG := matMul_shaped LLinv (matMul (transpose GT) GGinv) _ _ _ sLi sG_GGi hm
              have sGT_LG := matMul_shaped GT (matMul LLinv (matMul (transpose GT) GGinv)) _ _ _ sGT sLG hm
              have sGGi_GTLG := matMul_shaped GGinv _ _ _ _ hsh sGT_LG hn0
              have sQG := matSub_shaped GGinv _ _ _ hsh sGGi_GTLG
              have sGT_Li := matMul_shaped GT LLinv _ _ _ sGT sLi hm
              have sQF := matMul_shaped GGinv _ _ _ _ hsh sGT_Li hn0
              have sT1 := matMul_shaped _ gr.GF _ _ _ sQG hsg.sGF hn0
              have sT2 := matMul_shaped _ (transpose Fm) _ _ _ sQF sF hm
              have sT := matAdd_shaped _ _ _ _ sT1 sT2
              have hspec := invertChecked_spec gr.GG GGinv hsome
              rw [hsg.sGG.1] at hspec
              have h1 : toM k0.npts k0.npts gr.GG * toM k0.npts k0.npts GGinv = 1 := by
                rw [← toM_matMul gr.GG GGinv _ _ _ hsg.sGG hsh hn0, hspec, toM_identity]
              refine ⟨gr, GT, hgr, hGT,
                toM ns.length ns.length LLinv * toM ns.length k.npts (transpose Fm)
                  - toM ns.length ns.length LLinv * (toM ns.length k0.npts (transpose GT) * toM k0.npts k0.npts GGinv)
                      * toM k0.npts k.npts gr.GF, ?_⟩
              rw [toM_matAdd _ _ _ _ sT1 sT2, Matrix.mul_add,
                toM_matMul _ _ _ _ _ sQG hsg.sGF hn0, toM_matMul _ _ _ _ _ sQF sF hm,
                toM_matSub _ _ _ _ hsh sGGi_GTLG, toM_matMul _ _ _ _ _ hsh sGT_LG hn0,
                toM_matMul _ _ _ _ _ sGT sLG hm, toM_matMul _ _ _ _ _ sLi sG_GGi hm,
                toM_matMul _ _ _ _ _ sG hsh hn0, toM_matMul _ _ _ _ _ hsh sGT_Li hn0,
                toM_matMul _ _ _ _ _ sGT sLi hm]
              simp only [Matrix.sub_mul, Matrix.mul_sub, Matrix.mul_add, ← Matrix.mul_assoc, h1, Matrix.one_mul]
              simp only [Matrix.mul_assoc]
              abel

end NV
