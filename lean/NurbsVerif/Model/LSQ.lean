/-
Model/LSQ.lean — model of `heavy.LeastSquare` (Gram matrices by per-span quadrature, normal
equations, bordered system for interpolation constraints, error matrix) on exact data, and the
operations of `heavy.Operations` built on it (`knot_remove`, spline `degree_increase`,
`matrix_transformation`).
Mirrors the tree after the repairs D10 (span length in the Gram sums) and D11 (open nodes).
-/
import NurbsVerif.Model.Ops
import NurbsVerif.Model.Quad
namespace NV

def matAdd (a b : Mat) : Mat := List.zipWith (List.zipWith (· + ·)) a b
def matSub (a b : Mat) : Mat := List.zipWith (List.zipWith (· - ·)) a b
def matScale (c : Rat) (a : Mat) : Mat := a.map (·.map (c * ·))

/-- outer-product accumulation `Σ_k w_k · A[:,k] ⊗ B[:,k]` = `A · diag(w) · Bᵀ` -/
def gramAcc (ws : List Rat) (a b : Mat) : Mat :=
  a.map fun ra => b.map fun rb =>
    sumL (List.zipWith (· * ·) ws (List.zipWith (· * ·) ra rb))

structure Gram where
  FF : Mat
  GF : Mat
  GG : Mat

/-- the three Gram matrices of `func2func` (Fraction branch): open Newton–Cotes with
`2·max(olddeg, newdeg) + 1` nodes on every span of the merged knots, scaled by the span length -/
def gramMatrices (oldk : KV) (oldW : Option (List Rat)) (newk : KV) (newW : Option (List Rat)) :
    Except Err Gram := do
  let allknots := isort (dedup (oldk.knots ++ newk.knots))
  let n := 2 * max oldk.deg newk.deg + 1
  let nodes0 := openLinspace n
  let integ ← exceptOfOption .other (openRule? n)
  let z (r c : Nat) := zeros r c
  let init : Gram := ⟨z oldk.npts oldk.npts, z newk.npts oldk.npts, z newk.npts newk.npts⟩
  (KV.pairs allknots).foldlM (fun (g : Gram) (se : Rat × Rat) => do
      let (st, en) := se
      let nodes := nodes0.map fun x => st + (en - st) * x
      let F ← evalNodes oldk oldW nodes oldk.deg
      let G ← evalNodes newk newW nodes newk.deg
      let ws := integ.map ((en - st) * ·)
      return ⟨matAdd g.FF (gramAcc ws F F), matAdd g.GF (gramAcc ws G F), matAdd g.GG (gramAcc ws G G)⟩)
    init

/-- `func2func`: returns `(T, E)` -/
def func2func (oldk : KV) (oldW : Option (List Rat)) (newk : KV) (newW : Option (List Rat))
    (fitNodes : Option (List Rat)) : Except Err (Mat × Mat) := do
  match fitNodes with
  | some ns => if ns.length > newk.npts then throw .other
  | none => pure ()
  let g ← gramMatrices oldk oldW newk newW
  let GGinv ← exceptOfOption .other (invertChecked? g.GG)
  match fitNodes with
  | none =>
    let T := matMul GGinv g.GF
    let E := matSub g.FF (matMul (transpose g.GF) T)
    return (T, E)
  | some ns =>
    let Fm ← evalNodes oldk oldW ns oldk.deg
    let GT ← evalNodes newk newW ns newk.deg
    let F := transpose Fm
    let G := transpose GT
    let LL := matMul G (matMul GGinv GT)
    let LLinv ← exceptOfOption .other (invertChecked? LL)
    let LG := matMul LLinv (matMul G GGinv)
    let QG := matSub GGinv (matMul GGinv (matMul GT LG))
    let QF := matMul GGinv (matMul GT LLinv)
    let T := matAdd (matMul QG g.GF) (matMul QF F)
    let Tt := transpose T
    let TGF := matMul Tt g.GF
    let E := matScale (1 / 2)
      (matAdd (matSub (matSub g.FF TGF) (transpose TGF)) (matMul Tt (matMul g.GG T)))
    return (T, E)

def spline2spline (oldk newk : KV) (fitNodes : Option (List Rat)) : Except Err (Mat × Mat) :=
  func2func oldk none newk none fitNodes

/-- `Operations.knot_remove(knotvector, nodes)` -/
def knotRemoveMat (k : KV) (nodes : List Rat) : Except Err Mat := do
  let newk ← k.remove nodes
  let (T, _) ← spline2spline k newk none
  return T

/-- `Operations.degree_increase(knotvector, times)` -/
def degreeIncreaseMat (k : KV) (times : Nat) : Except Err Mat := do
  if times = 0 then return identity k.npts
  if k.deg + 1 = k.npts then return elevBezier k.deg times
  let nodes := k.knots
  let pieces ← k.split nodes
  let mats ← splitCurveMats k nodes
  let big : Mat := (List.zipWith (fun (pc : KV) (m : Mat) => matMul (elevBezier pc.deg times) m) pieces mats).flatten
  let inserted := nodes.flatMap fun nd => List.replicate (k.deg + 1 - k.multSingle nd) nd
  let bigv ← k.insert inserted
  let incbig ← bigv.insert (KV.repeatList times nodes)
  let rem ← knotRemoveMat incbig inserted
  return matMul rem big

/-- `Operations.matrix_transformation(a, b)` -/
def matrixTransformation (a b : KV) : Except Err Mat := do
  if a.limits != b.limits then throw .other
  if b.deg < a.deg then throw .other
  let mdeg ← degreeIncreaseMat a (b.deg - a.deg)
  let a' ← a.insert (KV.repeatList (b.deg - a.deg) a.knots)
  let toIns := b.knots.flatMap fun kn => List.replicate (b.multSingle kn - a'.multSingle kn) kn
  let mins ← knotInsertMat a' toIns
  return matMul mins mdeg

end NV
