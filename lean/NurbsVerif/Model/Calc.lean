/-
Model/Calc.lean — model of `heavy.Calculus` difference matrices, `calculus.Derivate` for
polynomial curves (Bézier and spline, after the D13 repair) and `calculus.Integrate.scalar`
with the default exact rule, plus `Curve.fit_points` (discrete least squares).
-/
import NurbsVerif.Model.Arith
namespace NV

/-- `Calculus.difference_vector`: `p / (U[i+p] − U[i])`, 0 where the support is empty -/
def differenceVector (k : KV) : List Rat :=
  (List.range k.npts).map fun i =>
    let d := nth k.v (i + k.deg) - nth k.v i
    if d == 0 then 0 else ((k.deg : Nat) : Rat) / d

/-- `derivate_nonrational_spline`: rows 1.. of the transposed difference matrix -/
def derivSplineMat (k : KV) : Mat :=
  let av := differenceVector k
  let n := k.npts
  -- matrix[i][i] = a_i, matrix[i][i+1] = −a_{i+1}; result = transpose(matrix)[1:]
  (List.range (n - 1)).map fun r => (List.range n).map fun c =>
    -- result[r][c] = matrix[c][r+1]
    if c = r + 1 then nth av (r + 1) else if c = r then -(nth av (r + 1)) else 0

namespace Curve

/-- `Derivate.nonrational_spline` -/
def derivSpline (c : Curve) : Except Err Curve := do
  let k := c.kv
  let pts ← match c.P with | some p => pure p | none => throw .other
  let q := matPts (derivSplineMat k) pts
  let full := k.knots.filter fun kn => k.multSingle kn == k.deg + 1
  let newk ← k.remove full
  let q' := (q.zipIdx.filter fun (_, i) => nth k.v (i + 1 + k.deg) != nth k.v (i + 1)).map (·.1)
  Curve.mk? newk (some q') none

/-- `Derivate.nonrational_bezier`: difference of points on `vector[1:-1]`, then `clean()` -/
def derivBezier (c : Curve) : Except Err Curve := do
  let k := c.kv
  let pts ← match c.P with | some p => pure p | none => throw .other
  let p := k.deg
  let len := k.v.getLastD 0 - nth k.v 0
  let q := (List.range p).map fun i =>
    vscale (((p : Nat) : Rat) / len) (vadd (pts.getD (i + 1) []) (vscale (-1) (pts.getD i [])))
  let newk ← KV.mk? ((k.v.drop 1).dropLast)
  let d ← Curve.mk? newk (some q) none
  return d.clean tol9

/-- `Derivate(curve)` for polynomial curves -/
def derivPoly (c : Curve) : Except Err Curve := do
  let pts ← match c.P with | some p => pure p | none => throw .other
  if c.kv.deg = 0 then
    let k ← KV.mk? [c.kv.umin, c.kv.umax]
    Curve.mk? k (some [(pts.headD []).map fun _ => 0]) none
  else if c.kv.deg + 1 = c.kv.npts then c.derivBezier
  else c.derivSpline

/-- `Integrate.scalar(curve)` with the default rule for exact knots: open Newton–Cotes, `p+1` nodes per span -/
def integrateScalar (c : Curve) (nnodes : Option Nat) (closed : Bool) : Except Err Vec := do
  let n := nnodes.getD (c.kv.deg + 1)
  let nodes0 := if closed then closedLinspace n else openLinspace n
  let ws ← exceptOfOption .other (if closed then closedRule? n else openRule? n)
  let parts ← (KV.pairs c.kv.knots).mapM fun (s, e) => do
    let vals ← c.evalMany (nodes0.map fun x => s + (e - s) * x)
    return vscale (e - s) (lincomb ws vals)
  return parts.foldl vadd []

/-- `Curve.fit_points(points, nodes)` -/
def fitPoints (c : Curve) (points : List Vec) (nodes : Option (List Rat)) : Except Err Curve := do
  if points.length < c.npts then throw .other
  -- default nodes come from `closed_linspace(len(points))`, which asserts `npts > 1`
  if nodes.isNone && points.length < 2 then throw .other
  let ns := match nodes with
    | some l => l
    | none => (closedLinspace points.length).map fun x => c.kv.umin + (c.kv.umax - c.kv.umin) * x
  let B ← evalNodes c.kv c.W ns c.kv.deg      -- npts × nodes
  let M ← exceptOfOption .other (lstsq? (transpose B))
  Curve.mk? c.kv (some (matPts M points)) c.W

/-- `Curve.fit_curve(other, nodes)` for a polynomial source: new curve and reported error.  A receiver with weights keeps
them (`func2func` with unit source weights and the receiver's weights; only the control points are set); a source
with weights is not modelled. -/
def fitCurve (c other : Curve) (nodes : Option (List Rat)) : Except Err (Curve × Rat) := do
  match other.P, c.W, other.W with
  | some pts, none, none =>
    let (q, err) ← fitSpline other.kv pts c.kv nodes
    let c' ← Curve.mk? c.kv (some q) none
    return (c', err)
  | some pts, some wa, none =>
    let (T, E) ← func2func other.kv (some (List.replicate other.kv.npts 1)) c.kv (some wa) nodes
    let c' ← Curve.mk? c.kv (some (matPts T pts)) (some wa)
    return (c', quadFormMax E pts)
  | _, _, _ => throw .other

end Curve
end NV
