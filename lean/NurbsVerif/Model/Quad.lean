/-
Model/Quad.lean — model of `heavy.NodeSample` (rational node families) and
`heavy.IntegratorArray` (weights from nodes through the Bernstein collocation inverse), with the
four memo dictionaries as explicit state.  Chebyshev / Gauss nodes are irrational: the
*weights-from-nodes* map `bezierIntegratorArray` is exact and is what is modelled.
-/
import NurbsVerif.Model.Linalg
namespace NV

def closedLinspace (n : Nat) : List Rat :=
  (List.range n).map fun (i : Nat) => ((i : Nat) : Rat) / (((n - 1 : Nat)) : Rat)

def openLinspace (n : Nat) : List Rat :=
  (List.range n).map fun (i : Nat) => ((2 * i + 1 : Nat) : Rat) / ((2 * n : Nat) : Rat)

def factorial : Nat → Nat
  | 0 => 1
  | n + 1 => (n + 1) * factorial n

/-- `Math.comb` -/
def comb (n k : Nat) : Nat := factorial n / (factorial k * factorial (n - k))

def rpow (x : Rat) : Nat → Rat
  | 0 => 1
  | n + 1 => x * rpow x n

/-- `interpolate_bezier(nodes)`: inverse of `M[i][k] = B_{i,d}(u_k)` -/
def bernsteinMatrix (nodes : List Rat) : Mat :=
  let d := nodes.length - 1
  (List.range (d + 1)).map fun i =>
    nodes.map fun u => ((comb d i : Nat) : Rat) * rpow (1 - u) (d - i) * rpow u i

def interpolateBezier? (nodes : List Rat) : Option Mat := invert? (bernsteinMatrix nodes)

/-- `bezier_integrator_array(nodes)`: `sum(line)/len(nodes)` for each line of the inverse -/
def bezierIntegratorArray? (nodes : List Rat) : Option (List Rat) :=
  (interpolateBezier? nodes).map fun m => m.map fun line => sumL line / ((nodes.length : Nat) : Rat)

/-- the memo dictionaries with their literal initial contents -/
structure QuadMemo where
  closed : List (Nat × List Rat)
  opened : List (Nat × List Rat)

def QuadMemo.init : QuadMemo :=
  { closed := [(2, [mkRat 1 2, mkRat 1 2]), (3, [mkRat 1 6, mkRat 2 3, mkRat 1 6]),
               (4, [mkRat 1 8, mkRat 3 8, mkRat 3 8, mkRat 1 8])],
    opened := [(1, [1]), (2, [mkRat 1 2, mkRat 1 2]), (3, [mkRat 3 8, mkRat 1 4, mkRat 3 8])] }

def lookup (n : Nat) : List (Nat × List Rat) → Option (List Rat)
  | [] => none
  | (k, v) :: t => if k = n then some v else lookup n t

/-- `closed_newton_cotes(n)` (n > 1) with memoisation -/
def closedNC (m : QuadMemo) (n : Nat) : Option (List Rat × QuadMemo) :=
  if n < 2 then none else
  match lookup n m.closed with
  | some w => some (w, m)
  | none => (bezierIntegratorArray? (closedLinspace n)).map fun w => (w, { m with closed := (n, w) :: m.closed })

/-- `open_newton_cotes(n)` (n > 0) with memoisation -/
def openNC (m : QuadMemo) (n : Nat) : Option (List Rat × QuadMemo) :=
  if n < 1 then none else
  match lookup n m.opened with
  | some w => some (w, m)
  | none => (bezierIntegratorArray? (openLinspace n)).map fun w => (w, { m with opened := (n, w) :: m.opened })

/-- fresh (memo-free) rules: what every request must equal -/
def closedRule? (n : Nat) : Option (List Rat) := if n < 2 then none else bezierIntegratorArray? (closedLinspace n)
def openRule? (n : Nat) : Option (List Rat) := if n < 1 then none else bezierIntegratorArray? (openLinspace n)

/-- quadrature of a function table: `Σ w_i f(x_i)` -/
def quadApply (ws xs : List Rat) (f : Rat → Rat) : Rat := dot ws (xs.map f)

end NV
