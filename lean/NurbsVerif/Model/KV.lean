/-
Model/KV.lean — model of `heavy.ImmutableKnotVector` and the `knotspace.KnotVector`
facade + `GeneratorKnotVector` (exact-rational inputs).
Every constructor goes through `KV.mk?`, the model of `__is_valid` + `__new__`.
-/
import NurbsVerif.Model.Basic
namespace NV

inductive Err where
  | value   -- python ValueError
  | other   -- any other exception (AssertionError, TypeError, ZeroDivisionError, IndexError …)
deriving Repr, BEq, DecidableEq

structure KV where
  v : List Rat
  deg : Nat
deriving Repr, DecidableEq

instance : BEq KV := ⟨fun a b => decide (a = b)⟩

namespace KV

def npts (k : KV) : Nat := k.v.length - k.deg - 1
def umin (k : KV) : Rat := nth k.v k.deg
def umax (k : KV) : Rat := nth k.v k.npts

end KV

/-- `ImmutableKnotVector.__get_unique`: keep a value unless it is within 1e-6 of a kept one; sort. -/
def getUniqueAux : List Rat → List Rat → List Rat
  | acc, [] => acc
  | acc, x :: xs =>
      if acc.any (fun k => decide (rabs (x - k) < tol6)) then getUniqueAux acc xs
      else getUniqueAux (acc ++ [x]) xs

def getUnique (v : List Rat) : List Rat := isort (getUniqueAux [] v)

/-- `__is_valid` (after the D1 repair): sorted, ≥ 2 entries, degree = (count of first value) − 1
 unless given, `degree < npts`, every distinct knot at most `degree+1` times, first and last value
 exactly `degree+1` times. -/
def isValid (v : List Rat) (deg? : Option Nat) : Bool :=
  if v.length < 2 then false
  else if !sortedLE v then false
  else
    let d := match deg? with
      | some d => d
      | none => cnt v (v.headD 0) - 1
    if !(2 * d + 1 < v.length) then false
    else
      let npts := v.length - d - 1
      let ks := (v.drop d).take (npts + 1 - d)
      if ks.any (fun k => decide (cnt v k > d + 1)) then false
      else if cnt v (v.headD 0) != d + 1 then false
      else if cnt v (v.getLastD 0) != d + 1 then false
      else true

def KV.mk? (v : List Rat) (deg? : Option Nat := none) : Except Err KV :=
  if isValid v deg? then
    let d := match deg? with
      | some d => d
      | none => cnt v (v.headD 0) - 1
    .ok ⟨v, d⟩
  else .error .value

namespace KV

/-- `knots`: distinct knot values of `v[degree : npts+1]` -/
def knots (k : KV) : List Rat := getUnique ((k.v.drop k.deg).take (k.npts + 1 - k.deg))

def limits (k : KV) : Rat × Rat := (k.umin, k.umax)

def validNode (k : KV) (node : Rat) : Bool := !(node < k.umin || k.umax < node)
def validNodes (k : KV) (nodes : List Rat) : Bool := nodes.all k.validNode

/-- the `while True` binary search of `__span_single`, with fuel -/
def spanSearch (U : List Rat) (node : Rat) : Nat → Nat → Nat → Nat → Option Nat
  | 0, _, _, _ => none
  | fuel + 1, low, high, mid =>
      let low' := if node < nth U mid then low else mid
      let high' := if node < nth U mid then mid else high
      let mid' := (low' + high') / 2
      if nth U mid' ≤ node ∧ node < nth U (mid' + 1) then some mid'
      else spanSearch U node fuel low' high' mid'

def spanSingle (k : KV) (node : Rat) : Option Nat :=
  if node == k.umax then some (k.npts - 1)
  else spanSearch k.v node (k.v.length + 2) k.deg (k.npts + 1) ((k.deg + k.npts + 1) / 2)

def span (k : KV) (node : Rat) : Except Err Nat :=
  if !k.validNode node then .error .value
  else match k.spanSingle node with
    | some s => .ok s
    | none => .error .other

/-- `__mult_single`: number of entries within 1e-9 -/
def multSingle (k : KV) (node : Rat) : Nat :=
  (k.v.filter (fun knot => decide (rabs (node - knot) < tol9))).length

def mult (k : KV) (node : Rat) : Except Err Nat :=
  if !k.validNode node then .error .value else .ok (k.multSingle node)

/-- `__add__`: nodes must lie in the interval; sorted concatenation, revalidated -/
def insert (k : KV) (nodes : List Rat) : Except Err KV :=
  if !k.validNodes nodes then .error .value else KV.mk? (isort (k.v ++ nodes))

/-- `__sub__`: remove each node once (ValueError if absent), revalidated -/
def remove (k : KV) (nodes : List Rat) : Except Err KV :=
  match removeAll nodes k.v with
  | none => .error .value
  | some l => KV.mk? l

def replicateKnots (ks : List Rat) (ms : List Nat) : List Rat :=
  match ks, ms with
  | k :: ks, m :: ms => List.replicate m k ++ replicateKnots ks ms
  | _, _ => []

/-- `__or__` (after the D3 repair): per distinct knot the larger of `mult + (r − degree)` -/
def union (a b : KV) : Except Err KV :=
  if a.limits != b.limits then .error .value
  else
    let allKnots := getUnique (a.knots ++ b.knots)
    let r := max a.deg b.deg
    -- python: `all_knots.index(knot)` raises ValueError for a knot that was merged away
    if !((a.v ++ b.v).all fun x => (indexOf? x allKnots).isSome) then .error .value
    else
      let mults := allKnots.map fun kn =>
        let ma := if a.v.any (· == kn) then a.multSingle kn + r - a.deg else 0
        let mb := if b.v.any (· == kn) then b.multSingle kn + r - b.deg else 0
        max ma mb
      KV.mk? (isort (replicateKnots allKnots mults))

/-- `__and__`: knots present in both (exactly), per knot the smaller multiplicity -/
def inter (a b : KV) : Except Err KV :=
  if a.limits != b.limits then .error .value
  else
    let allKnots := isort ((dedup a.knots).filter fun x => b.knots.any (· == x))
    let mults := allKnots.map fun kn => min (a.multSingle kn) (b.multSingle kn)
    KV.mk? (isort (replicateKnots allKnots mults))

/-- `split(nodes)`: one clamped vector per consecutive pair of distinct cut points -/
def pairs : List Rat → List (Rat × Rat)
  | a :: b :: t => (a, b) :: pairs (b :: t)
  | _ => []

def split (k : KV) (nodes : List Rat) : Except Err (List KV) :=
  if !k.validNodes nodes then .error .value
  else if nodes.isEmpty then .ok [k]
  else
    let cuts := isort (dedup (nodes ++ [k.umin, k.umax]))
    (pairs cuts).mapM fun (a, b) =>
      let middle := k.v.filter fun x => decide (a < x) && decide (x < b)
      KV.mk? (List.replicate (k.deg + 1) a ++ middle ++ List.replicate (k.deg + 1) b)

/-! #### the mutable facade `knotspace.KnotVector` -/

def shift (k : KV) (a : Rat) : Except Err KV := KV.mk? (k.v.map (· + a))

def scale (k : KV) (s : Rat) : Except Err KV :=
  if !(0 < s) then .error .other else KV.mk? (k.v.map (· * s))

/-- `normalize` (after the D12 repair): `(knot − umin)/(umax − umin)` in one assignment -/
def normalize (k : KV) : Except Err KV :=
  let a := nth k.v 0
  let b := k.v.getLastD 0
  KV.mk? (k.v.map fun x => (x - a) / (b - a))

def repeatList (n : Nat) (l : List Rat) : List Rat := (List.replicate n l).flatten

/-- degree setter: insert / remove every distinct knot `|diff|` times -/
def setDegree (k : KV) (d : Nat) : Except Err KV :=
  if d < k.deg then k.remove (repeatList (k.deg - d) k.knots)
  else if k.deg < d then k.insert (repeatList (d - k.deg) k.knots)
  else .ok k

end KV

/-! #### generators -/
namespace Gen

def bezier (p : Nat) : Except Err KV :=
  KV.mk? (List.replicate (p + 1) 0 ++ List.replicate (p + 1) 1)

def integer (p n : Nat) : Except Err KV :=
  if !(p < n) then .error .other
  else
    let nint := n - p - 1
    KV.mk? (List.replicate p 0 ++ (List.range (nint + 2)).map (fun (i : Nat) => ((i : Nat) : Rat))
      ++ List.replicate p ((nint + 1 : Nat) : Rat))

def uniform (p n : Nat) : Except Err KV := do
  let k ← integer p n
  k.normalize

def cumsum : Rat → List Rat → List Rat
  | _, [] => []
  | acc, w :: ws => (acc + w) :: cumsum (acc + w) ws

def weight (p : Nat) (ws : List Rat) : Except Err KV :=
  if ws.isEmpty then .error .other
  else
    let ks := 0 :: cumsum 0 ws
    KV.mk? (List.replicate p 0 ++ ks ++ List.replicate p (ks.getLastD 0))

/-- `random` = `weight` of positive integers followed by `normalize` -/
def randomFrom (p : Nat) (ws : List Rat) : Except Err KV := do
  let k ← weight p ws
  k.normalize

end Gen
end NV
