/-
Model/Ops.lean — model of `heavy.Operations` that does not need least squares:
Boehm single-knot insertion matrix, repeated / multiple insertion, Bézier elevation matrices,
split matrices.
-/
import NurbsVerif.Model.Basis
import NurbsVerif.Model.Linalg
namespace NV

def exceptOfOption {α} (e : Err) : Option α → Except Err α
  | some a => .ok a
  | none => .error e

/-- entry (r, c) of `one_knot_insert_once` for a node with span `s` (rows above the blended ones are copies, rows below
are shifted copies; the tolerance multiplicity of the node plays no role) -/
def insOnceEntry (U : List Rat) (p : Nat) (node : Rat) (s r c : Nat) : Rat :=
  if s + 1 ≤ r + p ∧ r ≤ s then                       -- third loop (overrides)
    let alpha := (node - nth U r) / (nth U (r + p) - nth U r)
    if c = r then alpha else if c + 1 = r then 1 - alpha else 0
  else if c = r ∧ r + p ≤ s then 1                     -- first loop
  else if c + 1 = r ∧ s ≤ c then 1                     -- second loop (c ≥ s)
  else 0

def insOnce (k : KV) (node : Rat) : Except Err Mat := do
  if node < nth k.v 0 ∨ k.v.getLastD 0 < node then throw .other
  let s ← k.span node
  let n := k.npts
  return (List.range (n + 1)).map fun r => (List.range n).map fun c => insOnceEntry k.v k.deg node s r c

/-- `one_knot_insert(knotvector, node, times)` -/
def insTimes : Nat → KV → Rat → Mat → Except Err (Mat × KV)
  | 0, k, _, acc => .ok (acc, k)
  | t + 1, k, node, acc => do
      let inc ← insOnce k node
      let k' ← k.insert [node]
      insTimes t k' node (matMul inc acc)

/-- `knot_insert(knotvector, nodes)`; end nodes are dropped as the code does -/
def knotInsertMat (k : KV) (nodes : List Rat) : Except Err Mat := do
  if nodes.any (fun nd => nd < nth k.v 0 ∨ k.v.getLastD 0 < nd) then throw .other
  let first := nth k.v 0
  let last := k.v.getLastD 0
  let setnodes := isort (dedup (nodes.filter fun nd => !(nd == first) && !(nd == last)))
  let step (st : Mat × KV) (node : Rat) : Except Err (Mat × KV) :=
    insTimes (cnt nodes node) st.2 node st.1
  let (m, _) ← setnodes.foldlM step (identity k.npts, k)
  return m

/-- `degree_increase_bezier_once`: `(p+2) × (p+1)` -/
def elevBezierOnce (p : Nat) : Mat :=
  (List.range (p + 2)).map fun i => (List.range (p + 1)).map fun c =>
    if i = 0 then (if c = 0 then 1 else 0)
    else if i = p + 1 then (if c = p then 1 else 0)
    else
      let alpha : Rat := ((i : Nat) : Rat) / ((p + 1 : Nat) : Rat)
      if c + 1 = i then alpha else if c = i then 1 - alpha else 0

/-- `degree_increase_bezier(knotvector, times)` -/
def elevBezier : Nat → Nat → Mat
  | p, 0 => identity (p + 1)
  | p, t + 1 => matMul (elevBezier (p + 1) t) (elevBezierOnce p)

/-- `split_curve(knotvector, nodes)`: one matrix per piece (rows of the big insertion matrix) -/
def splitCurveMats (k : KV) (nodes : List Rat) : Except Err (List Mat) := do
  if nodes.any (fun nd => nd < nth k.v 0 ∨ k.v.getLastD 0 < nd) then throw .other
  let first := nth k.v 0
  let last := k.v.getLastD 0
  let cuts := dedup (nodes.filter fun nd => !(nd == first) && !(nd == last))
  let many := cuts.flatMap fun nd => List.replicate (k.deg + 1 - k.multSingle nd) nd
  let big ← k.insert many
  let bigM ← knotInsertMat k many
  let pieces ← big.split cuts
  pieces.mapM fun piece => do
    let s ← big.span piece.umin
    let lo := s - k.deg
    let hi := lo + piece.v.length - k.deg - 1
    return (bigM.drop lo).take (hi - lo)

end NV
