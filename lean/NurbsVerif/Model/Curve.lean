/-
Model/Curve.lean — model of `curves.BaseCurve` / `curves.Curve` on exact data, mirroring the
tree after the repairs listed in KNOWN_FINDINGS.txt.  A control point is its coordinate list
(`Vec`); scalar-valued curves use length-1 points.  Every mutator returns the new curve or an
error; the old value is untouched by construction, which is the atomicity the properties ask
of the real (mutable) object and what the correspondence check observes on it.
-/
import NurbsVerif.Model.LSQ
namespace NV

structure Curve where
  kv : KV
  P : Option (List Vec)
  W : Option (List Rat)
deriving Repr, BEq

/-- model of `heavy.find_roots` as used by the weights setter: the weight function is sampled at
the knots and at 100 open nodes per span; an exact zero sample makes the code fail with
AttributeError (`tuple.pop`), a sign change between consecutive samples is reported as a root. -/
def weightsSampleCheck (k : KV) (ws : List Rat) : Except Err Unit := do
  if ws.all (fun w => decide (0 < w)) then return ()
  let ks := k.knots
  let nodes0 := openLinspace 100
  let many := (KV.pairs ks).flatMap fun (a, b) => nodes0.map fun x => a + (b - a) * x
  let nodes := isort (many ++ ks)
  let m ← evalNodes k none nodes k.deg
  let vals := (transpose m).map fun row => dot row ws
  if vals.any (· == 0) then throw .other
  let rec signChange : List Rat → Bool
    | a :: b :: t => decide (a * b < 0) || signChange (b :: t)
    | _ => false
  if signChange vals then throw .value
  return ()

def weightsCheck (k : KV) (ws : List Rat) : Except Err Unit :=
  if ws.length != k.npts then .error .value else weightsSampleCheck k ws

namespace Curve

def npts (c : Curve) : Nat := c.kv.npts
def degree (c : Curve) : Nat := c.kv.deg

/-- constructor + the `ctrlpoints` and `weights` setters -/
def mk? (k : KV) (P : Option (List Vec)) (W : Option (List Rat)) : Except Err Curve :=
  if (match P with | some pts => pts.length != k.npts | none => false) then .error .value
  else match W with
    | none => .ok ⟨k, P, W⟩
    | some ws =>
      match weightsCheck k ws with
      | .ok _ => .ok ⟨k, P, W⟩
      | .error e => .error e

/-- `Curve.eval` at one node -/
def eval (c : Curve) (u : Rat) : Except Err Vec := do
  match c.P with
  | none => throw .value
  | some pts =>
    let row ← rbasisRow c.kv c.W c.kv.deg u
    return lincomb row pts

def evalMany (c : Curve) (us : List Rat) : Except Err (List Vec) := us.mapM c.eval

/-- the homogeneous (numerator) points `w_i · P_i` -/
def weighted (ws : List Rat) (pts : List Vec) : List Vec := List.zipWith vscale ws pts
def unweighted (ws : List Rat) (pts : List Vec) : List Vec := List.zipWith (fun w p => vscale (1 / w) p) ws pts

/-- `BaseCurve.apply(newknotvector, matrix)` -/
def apply (c : Curve) (newk : KV) (m : Mat) : Except Err Curve := do
  match c.P, c.W with
  | none, none => return { c with kv := newk }
  | P, none => Curve.mk? newk (P.map (matPts m)) none      -- the `ctrlpoints` setter validates the count
  | P, some ws =>
    let ws' := matVec m ws
    weightsCheck newk ws'
    match P with
    | none => Curve.mk? newk none (some ws')
    | some pts =>
      if ws'.any (· == 0) then throw .other
      Curve.mk? newk (some (unweighted ws' (matPts m (weighted ws pts)))) (some ws')

/-- `Curve.knot_insert(nodes)` -/
def knotInsert (c : Curve) (nodes : List Rat) : Except Err Curve := do
  let newk ← c.kv.insert nodes
  if newk.deg != c.kv.deg then throw .value      -- both end knots in one request
  let m ← knotInsertMat c.kv nodes
  c.apply newk m

/-- `max |Pᵀ E P|` over all coordinate pairs, as `fit_curve` computes its error -/
def quadFormMax (E : Mat) (pts : List Vec) : Rat :=
  let cols := transpose pts          -- one list per coordinate
  let EP := cols.map fun col => matVec E col
  (cols.flatMap fun ca => EP.map fun eb => rabs (dot ca eb)).foldl rmax 0

/-- polynomial `fit_curve`: new control points on `dst` and the reported error -/
def fitSpline (src : KV) (pts : List Vec) (dst : KV) (nodes : Option (List Rat)) :
    Except Err (List Vec × Rat) := do
  let (T, E) ← spline2spline src dst nodes
  return (matPts T pts, quadFormMax E pts)

def tolExceeded (tol : Option Rat) (err : Rat) : Bool :=
  match tol with
  | none => false
  | some t => t != 0 && decide (err > t)      -- python: `if tolerance and error > tolerance`

/-- polynomial part of `BaseCurve.update` -/
def updatePoly (k : KV) (pts : List Vec) (newk : KV) (tol : Option Rat) (nodes : Option (List Rat)) :
    Except Err (List Vec) := do
  let (q, err) ← fitSpline k pts newk nodes
  if tolExceeded tol err then throw .value
  return q

/-- `BaseCurve.update(newknotvector, tolerance, nodes)` -/
def update (c : Curve) (newk : KV) (tol : Option Rat) (nodes : Option (List Rat)) : Except Err Curve := do
  if newk == c.kv then return c
  match c.P with
  | none =>
    match c.W with
    | none => return { c with kv := newk }
    | some ws =>
      -- weights without control points: refit the weights spline, validate, then replace
      if c.kv.limits != newk.limits then throw .value
      let den ← updatePoly c.kv (ws.map fun w => [w]) newk tol nodes
      Curve.mk? newk none (some (den.map fun d => d.getD 0 0))
  | some pts =>
    if c.kv.limits != newk.limits then throw .value
    match c.W with
    | none =>
      let q ← updatePoly c.kv pts newk tol nodes
      Curve.mk? newk (some q) none
    | some ws =>
      let num ← updatePoly c.kv (weighted ws pts) newk tol nodes
      let den ← updatePoly c.kv (ws.map fun w => [w]) newk tol nodes
      let ws' := den.map fun d => d.getD 0 0
      if ws'.any (· == 0) then throw .value
      Curve.mk? newk (some (unweighted ws' num)) (some ws')

/-- `Curve.knot_remove(nodes, tolerance)` -/
def knotRemove (c : Curve) (nodes : List Rat) (tol : Option Rat) : Except Err Curve := do
  let newk ← c.kv.remove nodes
  let fit := if newk.deg != 0 then some newk.knots else none
  c.update newk tol fit

/-- `Curve.degree_increase(times)` -/
def degreeIncrease (c : Curve) (times : Nat) : Except Err Curve := do
  if times = 0 then throw .value
  let newk ← c.kv.insert (KV.repeatList times c.kv.knots)
  let m ← degreeIncreaseMat c.kv times
  c.apply newk m

/-- `Curve.degree_decrease(times, tolerance)` -/
def degreeDecrease (c : Curve) (times : Nat) (tol : Option Rat) : Except Err Curve := do
  if times = 0 then throw .value
  if c.kv.deg < times then throw .value
  let newk ← c.kv.setDegree (c.kv.deg - times)
  let fit := if newk.deg != 0 then some newk.knots else none
  c.update newk tol fit

/-- the `while True: knot_remove((knot,))` loop, with fuel -/
def removeWhilePossible : Nat → Curve → Rat → Option Rat → Curve
  | 0, c, _, _ => c
  | f + 1, c, knot, tol =>
      match c.knotRemove [knot] tol with
      | .ok c' => removeWhilePossible f c' knot tol
      | .error _ => c

/-- `Curve.knot_clean(nodes, tolerance)` -/
def knotClean (c : Curve) (nodes : Option (List Rat)) (tol : Rat) : Curve :=
  let ns := match nodes with
    | none => c.kv.knots
    | some l => l
  let ns := (isort (dedup ns)).filter fun x => !(x == c.kv.umin) && !(x == c.kv.umax)
  ns.foldl (fun cur knot => removeWhilePossible (cur.kv.v.length + 1) cur knot (some tol)) c

def degreeCleanLoop : Nat → Curve → Rat → Curve
  | 0, c, _ => c
  | f + 1, c, tol =>
      match c.degreeDecrease 1 (some tol) with
      | .ok c' => degreeCleanLoop f c' tol
      | .error _ => c

/-- `Curve.degree_clean(tolerance)` -/
def degreeClean (c : Curve) (tol : Rat) : Curve := degreeCleanLoop (c.kv.deg + 1) c tol

/-- `Curve.clean(tolerance)`: degree_clean, knot_clean, then the rational → polynomial attempt:
`func2func(kv, weights, kv, ones)` with the same exact quadrature as the code, the curve becomes a
spline when `max(max|PᵀEP|, WᵀEW) < tolerance` (and is cleaned again). -/
def cleanLoop : Nat → Curve → Rat → Curve
  | 0, c, _ => c
  | f + 1, c, tol =>
    let c1 := knotClean (degreeClean c tol) none tol
    match c1.W, c1.P with
    | some ws, some pts =>
      match func2func c1.kv (some ws) c1.kv (some (List.replicate c1.npts 1)) none with
      | .ok (T, E) =>
        let err := rmax (quadFormMax E pts) (dot ws (matVec E ws))
        if err < tol then
          match Curve.mk? c1.kv (some (matPts T pts)) none with
          | .ok c2 => cleanLoop f c2 tol
          | .error _ => c1
        else c1
      | .error _ => c1
    | _, _ => c1

def clean (c : Curve) (tol : Rat) : Curve := cleanLoop 3 c tol

/-- `Curve.split(nodes)` -/
def split (c : Curve) (nodes : Option (List Rat)) : Except Err (List Curve) := do
  let ns := match nodes with
    | none => c.kv.knots
    | some l => l
  let pieces ← c.kv.split ns
  let mats ← splitCurveMats c.kv ns
  match c.P with
  | none => throw .other
  | some pts =>
    (pieces.zip mats).mapM fun (pk, m) =>
      match c.W with
      | none => Curve.mk? pk (some (matPts m pts)) none
      | some ws =>
        let ws' := matVec m ws
        if ws'.any (· == 0) then throw .other
        else Curve.mk? pk (some (unweighted ws' (matPts m (weighted ws pts)))) (some ws')

/-- the `degree` setter -/
def setDegree (c : Curve) (d : Nat) : Except Err Curve :=
  if d = c.kv.deg then .ok c
  else if c.kv.deg < d then c.degreeIncrease (d - c.kv.deg)
  else c.degreeDecrease (c.kv.deg - d) (some tol9)

/-- `A | B` (join) -/
def join (a b : Curve) : Except Err Curve := do
  if a.kv.v.getLastD 0 != nth b.kv.v 0 then throw .value
  let r := max a.kv.deg b.kv.deg
  let a' ← a.setDegree r
  let b' ← b.setDegree r
  let n0 := a'.npts
  let n1 := b'.npts
  let newk ← KV.mk? (a'.kv.v.take n0 ++ b'.kv.v)
  match a'.P, b'.P with
  | some pa, some pb =>
    let W := match a'.W, b'.W with
      | none, none => none
      | wa, wb => some (wa.getD (List.replicate n0 1) ++ wb.getD (List.replicate n1 1))
    let c ← Curve.mk? newk (some (pa ++ pb)) W
    return knotClean c (some [nth b.kv.v 0]) tol9
  | _, _ => throw .other

end Curve
end NV
