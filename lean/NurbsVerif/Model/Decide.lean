/-
Model/Decide.lean — the validated oracles (layer L3).
A curve is turned into a *piecewise rational function*: one `Piece` per non-empty knot span,
holding for every coordinate the numerator polynomial and one denominator polynomial, all in the
global variable `u` (monomial coefficients, lowest power first).  On these pieces the pointwise
operations of the properties (sum, product, quotient, derivative, integral, restriction) are
plain polynomial algebra, and "equal as functions on the whole interval" is decided by
comparing cross-multiplied coefficient lists span by span — for every u at once, no sampling.
Soundness/completeness of these procedures w.r.t. `Curve.eval` is proved in `Proofs/`.
-/
import NurbsVerif.Model.Curve
namespace NV

structure Piece where
  a : Rat
  b : Rat
  num : List Poly
  den : Poly
deriving Repr, BEq

abbrev RF := List Piece

def polySum (ps : List Poly) : Poly := ps.foldl padd []

/-- weight of control point `i` (1 for polynomial curves) -/
def wOf (W : Option (List Rat)) (i : Nat) : Rat :=
  match W with
  | none => 1
  | some ws => nth ws i

/-- local-coordinate polynomial `Σ_y c(y + sz − p) · table[y]` -/
def localComb (polys : List Poly) (p sz : Nat) (c : Nat → Rat) : Poly :=
  polySum ((List.range (p + 1)).map fun y => pscale (c (y + sz - p)) (polys.getD y []))

/-- the piece of span `z`: numerator `Σ w_i P_i[d] N_i`, denominator `Σ w_i N_i` (or 1), in the variable `u` -/
def pieceOf (k : KV) (t : Table) (pts : List Vec) (W : Option (List Rat)) (dim z : Nat) : Piece :=
  let kz := nth t.knots z
  let kz1 := nth t.knots (z + 1)
  let h := kz1 - kz
  let sz := t.spans.getD z 0
  let polys := t.polys.getD z []
  let toU (q : Poly) : Poly := pcompLin q (-kz / h) (1 / h)
  { a := kz, b := kz1,
    num := (List.range dim).map fun d =>
      toU (localComb polys k.deg sz fun i => wOf W i * nth (pts.getD i []) d),
    den := match W with
      | none => [1]
      | some _ => toU (localComb polys k.deg sz (wOf W)) }

/-- run-time validated side condition of the piece theorems (`Proofs/Pieces.lean`): the table of span `z`
belongs to the knot span `[U[sz], U[sz+1])` the code's look-ups say it does -/
def pieceCheck (k : KV) (t : Table) (z : Nat) : Bool :=
  let sz := t.spans.getD z 0
  (nth t.knots z == nth k.v sz) && (nth t.knots (z + 1) == nth k.v (sz + 1))
  && decide (nth k.v sz < nth k.v (sz + 1))
  && (t.polys.getD z [] == tableSpan k.v (nth k.v sz) (nth k.v (sz + 1)) sz k.deg)
  && decide (k.deg ≤ sz)

/-- pieces of a curve, one per non-empty span -/
def RF.ofCurve (c : Curve) : Except Err RF := do
  let pts ← match c.P with
    | some p => pure p
    | none => throw .value
  let t ← speval c.kv c.kv.deg
  let dim := (pts.headD []).length
  let n := t.knots.length - 1
  if !((List.range n).all (pieceCheck c.kv t)) then throw .other
  return (List.range n).map (pieceOf c.kv t pts c.W dim)

/-- value of a piecewise rational function (right-continuous, last piece closed) -/
def RF.eval (f : RF) (u : Rat) : Option Vec :=
  let rec go : List Piece → Option Vec
    | [] => none
    | [pc] => if pc.a ≤ u ∧ u ≤ pc.b then some (pc.num.map fun q => horner q u / horner pc.den u) else none
    | pc :: rest =>
        if pc.a ≤ u ∧ u < pc.b then some (pc.num.map fun q => horner q u / horner pc.den u) else go rest
  go f

def RF.lo (f : RF) : Rat := (f.head?.map (·.a)).getD 0
def RF.hi (f : RF) : Rat := (f.getLast?.map (·.b)).getD 0

def findPiece (f : RF) (x y : Rat) : Option Piece := f.find? fun pc => decide (pc.a ≤ x) && decide (y ≤ pc.b)

/-- common refinement of two piece lists restricted to `[lo, hi]` -/
def commonPieces (f g : RF) (lo hi : Rat) : Option (List (Rat × Rat × Piece × Piece)) :=
  let ends := (f.flatMap fun pc => [pc.a, pc.b]) ++ (g.flatMap fun pc => [pc.a, pc.b]) ++ [lo, hi]
  let bps := (isort (dedup ends)).filter fun x => decide (lo ≤ x) && decide (x ≤ hi)
  (KV.pairs bps).mapM fun (x, y) =>
    match findPiece f x y, findPiece g x y with
    | some pf, some pg => some (x, y, pf, pg)
    | _, _ => none

/-- pointwise combination on the common refinement -/
def RF.zipWith (op : Piece → Piece → Piece) (f g : RF) : Option RF :=
  if f.lo != g.lo || f.hi != g.hi then none
  else (commonPieces f g f.lo f.hi).map fun l => l.map fun (x, y, pf, pg) =>
    let r := op pf pg
    { r with a := x, b := y }

/-- broadcasting of scalar against vector numerators -/
def bcast (n m : List Poly) : List (Poly × Poly) :=
  if n.length == m.length then n.zip m
  else if n.length == 1 then m.map fun q => (n.headD [], q)
  else if m.length == 1 then n.map fun q => (q, m.headD [])
  else []

def Piece.add (x y : Piece) : Piece :=
  { x with num := (bcast x.num y.num).map fun (p, q) => padd (pmul p y.den) (pmul q x.den), den := pmul x.den y.den }
def Piece.neg (x : Piece) : Piece := { x with num := x.num.map pneg }
def Piece.sub (x y : Piece) : Piece := x.add y.neg
def Piece.mul (x y : Piece) : Piece :=
  { x with num := (bcast x.num y.num).map fun (p, q) => pmul p q, den := pmul x.den y.den }
def Piece.dotp (x y : Piece) : Piece :=
  { x with num := [polySum ((x.num.zip y.num).map fun (p, q) => pmul p q)], den := pmul x.den y.den }
/-- `x / y` with `y` scalar-valued -/
def Piece.div (x y : Piece) : Piece :=
  { x with num := x.num.map fun p => pmul p y.den, den := pmul x.den (y.num.headD []) }
def Piece.deriv (x : Piece) : Piece :=
  { x with num := x.num.map fun p => psub (pmul (pderiv p) x.den) (pmul p (pderiv x.den)), den := pmul x.den x.den }
def Piece.scale (s : Rat) (x : Piece) : Piece := { x with num := x.num.map (pscale s) }
def Piece.addConst (v : Vec) (x : Piece) : Piece :=
  { x with num := (bcast x.num (v.map fun c => [c])).map fun (p, q) => padd p (pmul q x.den) }
def Piece.matLeft (m : Mat) (x : Piece) : Piece :=
  { x with num := m.map fun row => polySum ((row.zip x.num).map fun (c, p) => pscale c p) }
def Piece.matRight (m : Mat) (x : Piece) : Piece := Piece.matLeft (transpose m) x
/-- `s / x` for scalar-valued `x` -/
def Piece.rdiv (s : Rat) (x : Piece) : Piece := { x with num := [pscale s x.den], den := x.num.headD [] }

def Piece.eqv (x y : Piece) : Bool :=
  x.num.length == y.num.length &&
  (x.num.zip y.num).all fun (p, q) => peq (pmul p y.den) (pmul q x.den)

/-- a parameter inside `[x, y]` where the two pieces take different values (exists when `eqv` fails) -/
def Piece.witness (x y : Piece) (lo hi : Rat) : Option Rat :=
  let deg := ((x.num ++ y.num).map (·.length)).foldl max 0 + x.den.length + y.den.length + 2
  let cands := (List.range (deg + 1)).map fun (k : Nat) => lo + (hi - lo) * ((k + 1 : Nat) : Rat) / ((deg + 2 : Nat) : Rat)
  cands.find? fun u =>
    (x.num.zip y.num).any fun (p, q) => horner p u * horner y.den u != horner q u * horner x.den u

inductive Verdict where
  | yes
  | no (u : Rat)          -- a parameter at which the two sides differ
  | undefined             -- intervals or dimensions do not match
deriving Repr, BEq

/-- decide `f = g` on `[lo, hi]` (both must cover it) -/
def RF.eqOnInterval (f g : RF) (lo hi : Rat) : Verdict :=
  match commonPieces f g lo hi with
  | none => .undefined
  | some l =>
    match l.find? fun (_, _, pf, pg) => !(pf.eqv pg) with
    | none => if l.isEmpty then .undefined else .yes
    | some (x, y, pf, pg) =>
      match pf.witness pg x y with
      | some u => .no u
      | none => .no ((x + y) / 2)

def RF.eqOn (f g : RF) : Verdict :=
  if f.lo != g.lo || f.hi != g.hi then .undefined else f.eqOnInterval g f.lo f.hi

/-- exact integral per coordinate (polynomial pieces only: constant denominators) -/
def RF.integral (f : RF) : Option Vec :=
  if !(f.all fun pc => pIsZero (pc.den.drop 1) && pc.den.headD 0 != 0) then none
  else
    let dim := ((f.headD ⟨0, 0, [], []⟩).num).length
    some ((List.range dim).map fun d =>
      sumL (f.map fun pc => pintegral (pc.num.getD d []) pc.a pc.b / pc.den.headD 1))

/-! #### minimal representation of a polynomial curve (C14) -/

/-- true degree of a polynomial piecewise function (max over pieces and coordinates) -/
def RF.trueDegree (f : RF) : Nat :=
  (f.flatMap fun pc => pc.num.map pdegree).foldl max 0

def iterDeriv : Nat → Poly → Poly
  | 0, p => p
  | n + 1, p => iterDeriv n (pderiv p)

/-- first derivative order (≤ deg) at which two adjacent pieces differ at `x`; `none` if they agree -/
def firstJump (deg : Nat) (l r : Piece) (x : Rat) : Option Nat :=
  (List.range (deg + 1)).find? fun k =>
    (l.num.zip r.num).any fun (p, q) => horner (iterDeriv k p) x != horner (iterDeriv k q) x

/-- the minimal knot vector of a polynomial curve given by pieces: degree = true degree,
multiplicity at a breakpoint = degree − (first jumping derivative order) + 1 -/
def RF.minimalKnots (f : RF) : List Rat × Nat :=
  let d := f.trueDegree
  let rec interior : List Piece → List Rat
    | l :: r :: rest =>
        (match firstJump d l r l.b with
          | none => []
          | some k => List.replicate (d + 1 - k) l.b) ++ interior (r :: rest)
    | _ => []
  (List.replicate (d + 1) f.lo ++ interior f ++ List.replicate (d + 1) f.hi, d)

/-- for a polynomial curve of degree `deg`: the multiplicity each interior breakpoint needs
(`deg + 1 −` first jumping derivative order, 0 when the two sides are the same polynomial) -/
def RF.neededMults (f : RF) (deg : Nat) : List (Rat × Nat) :=
  let rec go : List Piece → List (Rat × Nat)
    | l :: r :: rest =>
        (l.b, match firstJump deg l r l.b with
          | none => 0
          | some k => deg + 1 - k) :: go (r :: rest)
    | _ => []
  go f

end NV
