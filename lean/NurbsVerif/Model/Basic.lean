/-
Model/Basic.lean — numeric and list helpers shared by the whole model.
Mathlib-free on purpose: everything under `Model/` is compiled into the
line-protocol driver (`Main.lean`, a `lean_exe`).
Numbers are core `Rat` (exact rationals).
-/
namespace NV

abbrev Vec := List Rat
abbrev Mat := List (List Rat)

/-- the two tolerances the library hard-codes (`1e-6` for merging knots, `1e-9` for counting) -/
def tol6 : Rat := mkRat 1 1000000
def tol9 : Rat := mkRat 1 1000000000

def rabs (x : Rat) : Rat := if x < 0 then -x else x

def rmax (a b : Rat) : Rat := if a < b then b else a
def rmin (a b : Rat) : Rat := if b < a then b else a

/-- `sum` of a list of rationals -/
def sumL : List Rat → Rat
  | [] => 0
  | x :: xs => x + sumL xs

/-- insertion sort (stable, ascending) — the model of python `sorted` on numbers -/
def insSorted (x : Rat) : List Rat → List Rat
  | [] => [x]
  | y :: ys => if x ≤ y then x :: y :: ys else y :: insSorted x ys

def isort : List Rat → List Rat
  | [] => []
  | x :: xs => insSorted x (isort xs)

def sortedLE : List Rat → Bool
  | [] => true
  | [_] => true
  | a :: b :: t => decide (a ≤ b) && sortedLE (b :: t)

/-- remove duplicates, keeping first occurrences (python `set` followed by `sorted` = `isort (dedup l)`) -/
def dedup : List Rat → List Rat
  | [] => []
  | x :: xs => x :: (dedup xs).filter (fun y => !(y == x))

/-- number of exact occurrences (python `tuple.count`) -/
def cnt (v : List Rat) (x : Rat) : Nat := (v.filter (fun y => y == x)).length

/-- python `list.remove(x)`: remove the first occurrence or fail -/
def removeFirst (x : Rat) : List Rat → Option (List Rat)
  | [] => none
  | y :: ys => if y == x then some ys else (removeFirst x ys).map (y :: ·)

def removeAll (xs : List Rat) (v : List Rat) : Option (List Rat) :=
  xs.foldl (fun acc x => acc.bind (removeFirst x)) (some v)

/-- python `list.index(x)` (first position) -/
def indexOf? (x : Rat) : List Rat → Option Nat
  | [] => none
  | y :: ys => if y == x then some 0 else (indexOf? x ys).map (· + 1)

def indexOfNat? (x : Nat) : List Nat → Option Nat
  | [] => none
  | y :: ys => if y == x then some 0 else (indexOfNat? x ys).map (· + 1)

def nth (v : List Rat) (i : Nat) : Rat := v.getD i 0

/-! ### polynomials as coefficient lists, lowest degree first -/

abbrev Poly := List Rat

def horner : Poly → Rat → Rat
  | [], _ => 0
  | c :: cs, x => c + x * horner cs x

def padd : Poly → Poly → Poly
  | [], q => q
  | p, [] => p
  | a :: p, b :: q => (a + b) :: padd p q

def pscale (c : Rat) (p : Poly) : Poly := p.map (c * ·)

def pneg (p : Poly) : Poly := pscale (-1) p

def psub (p q : Poly) : Poly := padd p (pneg q)

/-- multiply by the linear factor `a0 + a1·x` -/
def pmulLin (a0 a1 : Rat) (p : Poly) : Poly :=
  padd (pscale a0 p) (0 :: pscale a1 p)

def pmul : Poly → Poly → Poly
  | [], _ => []
  | a :: p, q => padd (pscale a q) (0 :: pmul p q)

/-- formal derivative -/
def pderivAux : Nat → Poly → Poly
  | _, [] => []
  | n, c :: cs => ((n : Rat) * c) :: pderivAux (n + 1) cs

def pderiv : Poly → Poly
  | [] => []
  | _ :: cs => pderivAux 1 cs

/-- composition with a linear map: `pcompLin p α β = p(α + β·x)` -/
def pcompLin : Poly → Rat → Rat → Poly
  | [], _, _ => []
  | c :: cs, α, β => padd [c] (pmulLin α β (pcompLin cs α β))

/-- antiderivative with constant 0 -/
def pintAux : Nat → Poly → Poly
  | _, [] => []
  | n, c :: cs => (c / ((n : Rat) + 1)) :: pintAux (n + 1) cs

def pint (p : Poly) : Poly := 0 :: pintAux 0 p

/-- definite integral of a polynomial over `[a, b]` -/
def pintegral (p : Poly) (a b : Rat) : Rat := horner (pint p) b - horner (pint p) a

/-- is the zero polynomial (all coefficients zero) -/
def pIsZero (p : Poly) : Bool := p.all (· == 0)

def peq (p q : Poly) : Bool := pIsZero (psub p q)

/-- true degree (0 for the zero polynomial) -/
def pdegree (p : Poly) : Nat :=
  (p.zipIdx.foldl (fun acc (c, i) => if c == 0 then acc else i) 0)

/-! ### matrices -/

def dot : Vec → Vec → Rat
  | a :: as, b :: bs => a * b + dot as bs
  | _, _ => 0

def matVec (m : Mat) (v : Vec) : Vec := m.map (dot · v)

def transpose (m : Mat) : Mat :=
  match m with
  | [] => []
  | r :: _ => (List.range r.length).map fun j => m.map fun row => row.getD j 0

def matMul (a b : Mat) : Mat :=
  let bt := transpose b
  a.map fun row => bt.map fun col => dot row col

/-- matrix × list of points (each point a coordinate list): row i = Σ_j m[i][j]·pts[j] -/
def vadd : Vec → Vec → Vec
  | a :: as, b :: bs => (a + b) :: vadd as bs
  | [], bs => bs
  | as, [] => as

def vscale (c : Rat) (v : Vec) : Vec := v.map (c * ·)

def lincomb (coefs : Vec) (pts : List Vec) : Vec :=
  match coefs, pts with
  | c :: cs, p :: ps => vadd (vscale c p) (lincomb cs ps)
  | _, _ => []

def matPts (m : Mat) (pts : List Vec) : List Vec := m.map (lincomb · pts)

def identity (n : Nat) : Mat :=
  (List.range n).map fun i => (List.range n).map fun j => if i = j then (1 : Rat) else 0

def zeros (r c : Nat) : Mat := List.replicate r (List.replicate c 0)

/-- set entry (i,j) -/
def matSet (m : Mat) (i j : Nat) (x : Rat) : Mat :=
  m.mapIdx fun a row => if a = i then row.set j x else row

end NV
