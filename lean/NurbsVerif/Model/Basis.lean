/-
Model/Basis.lean — model of `heavy.BasisFunction.speval_matrix` (per-span power-basis
coefficient tables in the local coordinate of each non-empty span, built by a
Cox–de Boor-shaped recursion), `horner_method`, `eval_spline_nodes`, `eval_rational_nodes`
and the second copy of the evaluation loop in `functions.FunctionEvaluator`.
-/
import NurbsVerif.Model.KV
namespace NV

/-- table of one span at level `j`: `j+1` coefficient lists (lowest power first, local coordinate
`s = (u − kz)/(kz1 − kz)`), entry `y` belongs to basis function `i = y + sz − j`. -/
def tableSpan (U : List Rat) (kz kz1 : Rat) (sz : Nat) : Nat → List Poly
  | 0 => [[1]]
  | j + 1 =>
      let prev := tableSpan U kz kz1 sz j
      -- `matrix_less1[z][y][k] /= denom`, denom = U[i+j+1] − U[i], i = y + sz − j
      let q : List Poly := prev.mapIdx fun y p =>
        p.map (· / (nth U (y + sz - j + j + 1) - nth U (y + sz - j)))
      let up (y : Nat) : Poly :=     -- contributes (u − U_i)·q_y to entry y+1
        pmulLin (kz - nth U (y + sz - j)) (kz1 - kz) (q.getD y [])
      let dn (y : Nat) : Poly :=     -- contributes (U_{i+j+1} − u)·q_y to entry y
        pmulLin (nth U (y + sz - j + j + 1) - kz) (kz - kz1) (q.getD y [])
      (List.range (j + 2)).map fun y' =>
        padd (if y' = 0 then [] else up (y' - 1)) (if y' = j + 1 then [] else dn y')

structure Table where
  knots : List Rat
  spans : List Nat
  polys : List (List Poly)   -- one entry per non-empty span

def KV.spansOfKnots (k : KV) : Except Err (List Nat) := k.knots.mapM k.span

/-- `speval_matrix(knotvector, j)` -/
def speval (k : KV) (j : Nat) : Except Err Table := do
  let ks := k.knots
  let spans ← k.spansOfKnots
  let n := ks.length - 1
  let polys := (List.range n).map fun z =>
    tableSpan k.v (nth ks z) (nth ks (z + 1)) (spans.getD z 0) j
  return ⟨ks, spans, polys⟩

/-- one column of `eval_spline_nodes`: `[N_{0,j}(node), …, N_{npts−1,j}(node)]` -/
def basisRowT (k : KV) (t : Table) (j : Nat) (node : Rat) : Except Err (List Rat) := do
  let span ← k.span node
  match indexOfNat? span t.spans with
  | none => .error .value
  | some ind =>
    let s := (node - nth t.knots ind) / (nth t.knots (ind + 1) - nth t.knots ind)
    let row := (List.range k.npts).map fun i =>
      -- y = i − (span − j)
      if span - j ≤ i ∧ i ≤ span then horner ((t.polys.getD ind []).getD (i - (span - j)) []) s else 0
    return row

def basisRow (k : KV) (j : Nat) (node : Rat) : Except Err (List Rat) := do
  let t ← speval k j
  basisRowT k t j node

/-- `eval_rational_nodes`: multiply by `w_i / Σ w N` (ZeroDivisionError when the sum is 0) -/
def rationalise (ws : List Rat) (row : List Rat) : Except Err (List Rat) :=
  let d := dot row ws
  if d == 0 then .error .other else .ok (List.zipWith (fun x w => x * (w / d)) row ws)

def rbasisRow (k : KV) (ws : Option (List Rat)) (j : Nat) (node : Rat) : Except Err (List Rat) := do
  let row ← basisRow k j node
  match ws with
  | none => return row
  | some ws => rationalise ws row

/-- matrix `M[i][k] = F_i(node_k)` as the code returns it (`npts × len(nodes)`) -/
def evalNodes (k : KV) (ws : Option (List Rat)) (nodes : List Rat) (j : Nat) : Except Err Mat := do
  let t ← speval k j
  let cols ← nodes.mapM fun node => do
    let row ← basisRowT k t j node
    match ws with
    | none => pure row
    | some ws => rationalise ws row
  if cols.isEmpty then return List.replicate k.npts [] else return transpose cols

/-! #### run-time validated side conditions of the evaluation theorem (`Proofs/Eval.lean`) -/

/-- `u` lies in span `sz` (half-open, or closed at `umax`) -/
def inSpanB (U : List Rat) (umax : Rat) (sz : Nat) (u : Rat) : Bool :=
  (decide (nth U sz ≤ u) && decide (u < nth U (sz + 1)))
  || (u == umax && decide (nth U sz < nth U (sz + 1)) && nth U (sz + 1) == umax)

/-- ordering facts of the knot list -/
def orderedCheck (k : KV) : Bool :=
  sortedLE k.v && (k.v.all fun x => decide (x ≤ k.umax)) && (k.npts + k.deg + 1 == k.v.length)

/-- the table look-ups (`spans.index(span)`, `knots[ind]`, `knots[ind+1]`, `matrix[ind]`) hit the span of the node -/
def lookupCheck (k : KV) (t : Table) (j : Nat) (node : Rat) : Bool :=
  match k.span node with
  | .ok sz =>
    match indexOfNat? sz t.spans with
    | some ind =>
        inSpanB k.v k.umax sz node && (nth t.knots ind == nth k.v sz) && (nth t.knots (ind + 1) == nth k.v (sz + 1))
        && (t.polys.getD ind [] == tableSpan k.v (nth k.v sz) (nth k.v (sz + 1)) sz j)
        && decide (k.deg ≤ sz) && decide (sz < k.npts)
    | none => false
  | .error _ => false

def evalCheck (k : KV) (t : Table) (j : Nat) (node : Rat) : Bool :=
  orderedCheck k && decide (j ≤ k.deg) && lookupCheck k t j node

end NV
