/-
Model/Arith.lean — model of the operator layer of `curves.BaseCurve`
(`+ - * @ /`, unary minus, scalar variants, `fraction`, `==`) on exact data.
-/
import NurbsVerif.Model.Curve
namespace NV

/-- `MathOperations.knotvector_mul` (after the D4 repair) -/
def knotvectorMul (a b : KV) : Except Err KV := do
  if a.limits != b.limits then throw .other
  let all := isort (dedup (a.v ++ b.v))
  let pc := a.deg + b.deg
  let interior := (all.drop 1).dropLast
  let mid := interior.flatMap fun kn =>
    -- classes = min(pa − multa, pb − multb); multiplicity = pc − class
    let ca : Int := (a.deg : Int) - (a.multSingle kn : Int)
    let cb : Int := (b.deg : Int) - (b.multSingle kn : Int)
    let cl := min ca cb
    List.replicate ((pc : Int) - cl).toNat kn
  KV.mk? (List.replicate (pc + 1) (nth a.v 0) ++ mid ++ List.replicate (pc + 1) (a.v.getLastD 0))

/-- collocation nodes of `mul_spline_curve`: `2(pc+1)` open nodes on every span of the product vector -/
def mulNodes (c : KV) : List Rat :=
  let n0 := openLinspace (2 * (c.deg + 1))
  (KV.pairs c.knots).flatMap fun (s, e) => n0.map fun x => s + (e - s) * x

/-- control points of the pointwise combination `f(A(u), B(u))` in the product space:
`C_j = Σ_n L[j][n] · f(A(u_n), B(u_n))` — the contraction of the code's 3-D tensor with the points -/
def mulWith (f : Vec → Vec → Vec) (a b : Curve) : Except Err Curve := do
  let c ← knotvectorMul a.kv b.kv
  let nodes := mulNodes c
  let cv ← evalNodes c none nodes c.deg
  let L ← exceptOfOption .other (lstsq? (transpose cv))
  let av ← (Curve.mk a.kv a.P none).evalMany nodes
  let bv ← (Curve.mk b.kv b.P none).evalMany nodes
  let vals := List.zipWith f av bv
  Curve.mk? c (some (matPts L vals)) none

def vmulBroadcast (x y : Vec) : Vec :=
  if x.length == y.length then List.zipWith (· * ·) x y
  else if x.length == 1 then vscale (x.headD 0) y
  else if y.length == 1 then vscale (y.headD 0) x
  else []

def vaddBroadcast (x y : Vec) : Vec :=
  if x.length == y.length then vadd x y
  else if x.length == 1 then y.map (x.headD 0 + ·)
  else if y.length == 1 then x.map (· + y.headD 0)
  else []

/-- an operand of the rational branches: a polynomial curve or the integer 1 -/
inductive Opd where
  | one
  | crv (c : Curve)

namespace Curve

def mapPts (c : Curve) (f : Vec → Vec) : Except Err Curve :=
  match c.P with
  | none => .error .value
  | some pts => .ok { c with P := some (pts.map f) }

def neg (c : Curve) : Except Err Curve := c.mapPts (vscale (-1))
def scalarMul (c : Curve) (s : Rat) : Except Err Curve := c.mapPts (vscale s)
def scalarDiv (c : Curve) (s : Rat) : Except Err Curve :=
  if s == 0 then .error .other else c.mapPts (vscale (1 / s))
def constAdd (c : Curve) (v : Vec) : Except Err Curve := c.mapPts (vaddBroadcast v)
def matLeft (c : Curve) (m : Mat) : Except Err Curve := c.mapPts (matVec m)
def matRight (c : Curve) (m : Mat) : Except Err Curve := c.mapPts (matVec (transpose m))

/-- `fraction()`: numerator curve (points `w_i P_i`) and denominator (curve of the weights, or 1) -/
def fraction (c : Curve) : Except Err (Curve × Opd) :=
  match c.P, c.W with
  | none, _ => .error .other
  | some _, none => .ok (c, .one)
  | some pts, some ws => .ok (⟨c.kv, some (weighted ws pts), none⟩, .crv ⟨c.kv, some (ws.map fun w => [w]), none⟩)

/-- polynomial `A + B` -/
def addPoly (a b : Curve) : Except Err Curve := do
  let c ← a.kv.union b.kv
  let ma ← matrixTransformation a.kv c
  let mb ← matrixTransformation b.kv c
  match a.P, b.P with
  | some pa, some pb => Curve.mk? c (some (List.zipWith vaddBroadcast (matPts ma pa) (matPts mb pb))) none
  | _, _ => throw .value

/-- polynomial `A / B` (B scalar-valued): rational curve on the union vector -/
def divPoly (a b : Curve) : Except Err Curve := do
  let c ← a.kv.union b.kv
  let ma ← matrixTransformation a.kv c
  let mb ← matrixTransformation b.kv c
  match a.P, b.P with
  | some pa, some pb =>
    let ws := (matPts mb pb).map fun q => q.headD 0
    if ws.any (· == 0) then throw .other
    Curve.mk? c (some (unweighted ws (matPts ma pa))) (some ws)
  | _, _ => throw .value

def mulOpd (a : Curve) (d : Opd) (f : Vec → Vec → Vec) : Except Err Curve :=
  match d with
  | .one => .ok a
  | .crv c => mulWith f a c

def mulOpds (x y : Opd) : Except Err Opd :=
  match x, y with
  | .one, .one => .ok .one
  | .one, .crv c => .ok (.crv c)
  | .crv c, .one => .ok (.crv c)
  | .crv c, .crv d => do return .crv (← mulWith vmulBroadcast c d)

def divOpd (n : Curve) (d : Opd) : Except Err Curve :=
  match d with
  | .one => .ok n
  | .crv c => divPoly n c

def guardLimits (a b : Curve) : Except Err Unit :=
  if a.P.isNone then .error .value
  else if b.P.isNone then .error .other
  else if a.kv.limits != b.kv.limits then .error .value else .ok ()

/-- `A + B` -/
def add (a b : Curve) : Except Err Curve := do
  guardLimits a b
  match a.W, b.W with
  | none, none => addPoly a b
  | _, _ =>
    let (na, da) ← a.fraction
    let (nb, db) ← b.fraction
    let l ← mulOpd na db vmulBroadcast
    let r ← mulOpd nb da vmulBroadcast
    let n ← addPoly l r
    divOpd n (← mulOpds da db)

def sub (a b : Curve) : Except Err Curve := do
  let nb ← b.neg
  a.add nb

/-- `A * B` (elementwise; scalar curves broadcast) and `A @ B` (inner product) -/
def mulGen (f : Vec → Vec → Vec) (a b : Curve) : Except Err Curve := do
  guardLimits a b
  match a.W, b.W with
  | none, none => mulWith f a b
  | _, _ =>
    let (na, da) ← a.fraction
    let (nb, db) ← b.fraction
    let n ← mulWith f na nb
    divOpd n (← mulOpds da db)

def mul (a b : Curve) : Except Err Curve := mulGen vmulBroadcast a b
def matmul (a b : Curve) : Except Err Curve := mulGen (fun x y => [dot x y]) a b

/-- `A / B` -/
def div (a b : Curve) : Except Err Curve := do
  guardLimits a b
  match a.W, b.W with
  | none, none => divPoly a b
  | _, _ =>
    let (na, da) ← a.fraction
    let (nb, db) ← b.fraction
    let n ← mulOpd na db vmulBroadcast
    let d ← mulOpd nb da vmulBroadcast
    divPoly n d

/-- `s / A` -/
def rdiv (s : Rat) (a : Curve) : Except Err Curve := do
  match a.P, a.W with
  | none, _ => throw .value
  | some pts, none =>
    let ws := pts.map fun q => q.headD 0
    if ws.any (· == 0) then throw .other
    Curve.mk? a.kv (some (ws.map fun w => [s / w])) (some ws)
  | some _, some _ =>
    let (n, d) ← a.fraction
    match d with
    | .one => throw .other
    | .crv dc =>
      let f ← divPoly dc n
      f.scalarMul s

/-- polynomial `==`: same interval, refine both to the union, compare control points to 1e-9 -/
def eqPoly (a b : Curve) : Except Err Bool := do
  let c ← a.kv.union b.kv
  let a' ← a.update c (some tol9) none
  let b' ← b.update c (some tol9) none
  match a'.P, b'.P with
  | some pa, some pb =>
    return (pa.zip pb).all fun (p, q) => (List.zipWith (fun x y => rabs (x - y)) p q).all fun d => !(decide (d > tol9))
  | _, _ => throw .other

/-- `A == B` (after the D9 repair) -/
def eq (a b : Curve) : Except Err Bool := do
  if nth a.kv.v 0 != nth b.kv.v 0 then return false
  if a.kv.v.getLastD 0 != b.kv.v.getLastD 0 then return false
  match a.P, b.P with
  | none, none => return a.kv == b.kv
  | none, some _ => return false
  | some _, none => return false
  | some _, some _ =>
    match a.W, b.W with
    | none, none => eqPoly a b
    | _, _ =>
      let (na, da) ← a.fraction
      let (nb, db) ← b.fraction
      let l ← mulOpd na db vmulBroadcast
      let r ← mulOpd nb da vmulBroadcast
      eqPoly l r

end Curve
end NV
