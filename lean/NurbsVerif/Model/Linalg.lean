/-
Model/Linalg.lean — model of `heavy.Linalg` on exact data: `invert` (the code runs a
fraction-free Gauss–Jordan on integers and rescales; the result, when it exists, is *the*
inverse, so the model uses plain Gauss–Jordan over ℚ and returns `none` for a singular
matrix, where the code ends in `Fraction(x, 0)` → ZeroDivisionError), `solve`, `lstsq`.
-/
import NurbsVerif.Model.Basic
namespace NV

/-- row operations on an augmented matrix `[A | B]` stored as rows -/
def rowScale (c : Rat) (r : Vec) : Vec := r.map (c * ·)
def rowSubMul (r p : Vec) (c : Rat) : Vec := List.zipWith (fun x y => x - c * y) r p

/-- find the first row index ≥ k (within `rows.drop k`) whose column-k entry is non-zero -/
def findPivot (rows : List Vec) (k : Nat) : Option Nat :=
  let rec go : List Vec → Nat → Option Nat
    | [], _ => none
    | r :: rs, i => if i ≥ k ∧ r.getD k 0 != 0 then some i else go rs (i + 1)
  go rows 0

def swapRows (rows : List Vec) (i j : Nat) : List Vec :=
  let ri := rows.getD i []
  let rj := rows.getD j []
  (rows.set i rj).set j ri

/-- one Gauss–Jordan step on column `k` -/
def gjStep (rows : List Vec) (k : Nat) : Option (List Vec) :=
  match findPivot rows k with
  | none => none
  | some i =>
    let rows := if i = k then rows else swapRows rows k i
    let prow := rows.getD k []
    let piv := prow.getD k 0
    let prow := rowScale (1 / piv) prow
    some (rows.mapIdx fun a r => if a = k then prow else rowSubMul r prow (r.getD k 0))

def gaussJordan (rows : List Vec) (n : Nat) : Option (List Vec) :=
  (List.range n).foldl (fun acc k => acc.bind (gjStep · k)) (some rows)

/-- `Linalg.invert` -/
def invert? (m : Mat) : Option Mat :=
  let n := m.length
  if !(m.all fun r => r.length == n) then none else
  let aug := List.zipWith (fun r e => r ++ e) m (identity n)
  (gaussJordan aug n).map fun rows => rows.map (·.drop n)

/-- the inverse, re-checked: `some inv` only when `m · inv = I` really holds (run-time validated side condition of
the normal-equation theorems; a disagreement with the implementation would surface in the correspondence run) -/
def invertChecked? (m : Mat) : Option Mat :=
  match invert? m with
  | some inv => if matMul m inv == identity m.length then some inv else none
  | none => none

/-- `Linalg.solve(matrix, force) = invert(matrix) · force` -/
def solve? (m : Mat) (f : Mat) : Option Mat := (invertChecked? m).map (matMul · f)

/-- `Linalg.lstsq(A)`: the matrix `M` with `X = M·B`; square ⇒ inverse, tall ⇒ `(AᵀA)⁻¹Aᵀ` -/
def lstsq? (a : Mat) : Option Mat :=
  let rows := a.length
  let cols := (a.headD []).length
  if rows < cols then none
  else if rows = cols then invertChecked? a
  else
    let at_ := transpose a
    solve? (matMul at_ a) at_

end NV
