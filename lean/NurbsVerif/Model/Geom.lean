/-
Model/Geom.lean — exact oracles for the piecewise-linear cases of `advanced.Projection` and
`advanced.Intersection` (C19 / C20): nearest point on a polyline and crossings of two planar
polylines, computed over ℚ from the span polynomials of `Decide.lean`.
-/
import NurbsVerif.Model.Decide
namespace NV

/-- squared distance polynomial `Σ_d (n_d(u) − pt_d)²` of a polynomial piece -/
def sqDistPoly (pc : Piece) (pt : Vec) : Poly :=
  polySum ((pc.num.zip pt).map fun (n, x) => let d := psub n [x]; pmul d d)

/-- minimum of a polynomial of degree ≤ 2 over `[a, b]` and one minimiser -/
def quadMin (q : Poly) (a b : Rat) : Rat × Rat :=
  let q1 := nth q 1
  let q2 := nth q 2
  if q2 == 0 then
    -- affine (squared distances are never strictly affine unless constant): take the better end
    if horner q b < horner q a then (horner q b, b) else (horner q a, a)
  else
    let u := -q1 / (2 * q2)
    let u := if u < a then a else if b < u then b else u
    (horner q u, u)

/-- exact nearest-point oracle for a polynomial curve of degree 1: minimal squared distance and
the parameters (one per span, duplicates merged) at which it is attained -/
def polylineNearest (c : Curve) (pt : Vec) : Except Err (Rat × List Rat) := do
  if c.kv.deg != 1 || c.W.isSome then throw .other
  let f ← RF.ofCurve c
  let cands := f.map fun pc => quadMin (sqDistPoly pc pt) pc.a pc.b
  match cands with
  | [] => throw .other
  | (d0, _) :: _ =>
    let best := cands.foldl (fun m (d, _) => rmin m d) d0
    return (best, isort (dedup ((cands.filter fun (d, _) => d == best).map (·.2))))

structure Crossings where
  degenerate : Bool          -- some pair of segments is parallel and overlapping (or a segment is a point)
  touching : Bool            -- some meeting point lies on an end of a segment
  pairs : List (Rat × Rat)

/-- all meeting pairs `(t, u)` of two planar polynomial curves of degree 1 -/
def polylineCrossings (a b : Curve) : Except Err Crossings := do
  if a.kv.deg != 1 || b.kv.deg != 1 || a.W.isSome || b.W.isSome then throw .other
  let fa ← RF.ofCurve a
  let fb ← RF.ofCurve b
  let mut deg := false
  let mut touch := false
  let mut out : List (Rat × Rat) := []
  for pa in fa do
    for pb in fb do
      let ax := pa.num.getD 0 []; let ay := pa.num.getD 1 []
      let bx := pb.num.getD 0 []; let byy := pb.num.getD 1 []
      -- ax0 + ax1 t = bx0 + bx1 u ; ay0 + ay1 t = by0 + by1 u
      let a11 := nth ax 1; let a12 := -(nth bx 1); let r1 := nth bx 0 - nth ax 0
      let a21 := nth ay 1; let a22 := -(nth byy 1); let r2 := nth byy 0 - nth ay 0
      let det := a11 * a22 - a12 * a21
      if det == 0 then
        -- parallel: degenerate when the lines coincide and the parameter ranges overlap, or a segment is a point
        let coll := (a11 * r2 - a21 * r1 == 0) && (a12 * r2 - a22 * r1 == 0)
        if coll then deg := true
      else
        let t := (r1 * a22 - a12 * r2) / det
        let u := (a11 * r2 - a21 * r1) / det
        if pa.a ≤ t ∧ t ≤ pa.b ∧ pb.a ≤ u ∧ u ≤ pb.b then
          if t == pa.a || t == pa.b || u == pb.a || u == pb.b then touch := true
          if !(out.any fun (t', u') => t' == t && u' == u) then out := out ++ [(t, u)]
  return ⟨deg, touch, out⟩

end NV
