/-
Model/Geom.lean — exact oracles for the piecewise-linear cases of `advanced.Projection` and
`advanced.Intersection` (C19 / C20): nearest point on a polyline and crossings of two planar
polylines, computed over ℚ from the span polynomials of `Decide.lean`.
-/
import NurbsVerif.Model.Decide
namespace NV

/-- squared distance polynomial `Σ_d (n_d(u) − pt_d)²` of a polynomial piece -/
def sqDistPoly (pc : Piece) (pt : Vec) : Poly :=
  polySum ((pc.num.zip pt).map fun (n, x) => let d := psub n [x]; pmul d d)

/-- minimum of a polynomial of degree ≤ 2 over `[a, b]` and one minimiser -/
def quadMin (q : Poly) (a b : Rat) : Rat × Rat :=
  let q1 := nth q 1
  let q2 := nth q 2
  if q2 == 0 then
    -- affine (squared distances are never strictly affine unless constant): take the better end
    if horner q b < horner q a then (horner q b, b) else (horner q a, a)
  else
    let u := -q1 / (2 * q2)
    let u := if u < a then a else if b < u then b else u
    (horner q u, u)

/-- run-time validated shape of a squared-distance polynomial of a linear piece: degree ≤ 2, convex -/
def quadShapeOK (q : Poly) : Bool := decide (q.length ≤ 3) && decide (0 ≤ nth q 2)

/-- candidates `(min value, minimiser)` of every piece -/
def nearestCands (f : RF) (pt : Vec) : List (Rat × Rat) :=
  f.map fun pc => quadMin (sqDistPoly pc pt) pc.a pc.b

def minOf (d0 : Rat) (l : List (Rat × Rat)) : Rat := l.foldl (fun m c => rmin m c.1) d0

/-- exact nearest-point oracle for a polynomial curve of degree 1: minimal squared distance and
the parameters (one per span, duplicates merged) at which it is attained -/
def polylineNearest (c : Curve) (pt : Vec) : Except Err (Rat × List Rat) := do
  if c.kv.deg != 1 || c.W.isSome then throw .other
  let f ← RF.ofCurve c
  if !(f.all fun pc => quadShapeOK (sqDistPoly pc pt) && decide (pc.a ≤ pc.b)) then throw .other
  let cands := nearestCands f pt
  match cands with
  | [] => throw .other
  | (d0, _) :: _ =>
    let best := minOf d0 cands
    return (best, isort (dedup ((cands.filter fun c => c.1 == best).map (·.2))))

/-- what one pair of segments contributes -/
structure SegCross where
  collinear : Bool               -- parallel and on one line (degenerate class)
  sol : Option (Rat × Rat)       -- the unique meeting pair when the directions are independent and it lies in both ranges
  touching : Bool                -- that pair lies on an end of a range
deriving Repr

/-- Cramer's rule on `ax0 + ax1 t = bx0 + bx1 u`, `ay0 + ay1 t = by0 + by1 u` -/
def segCross (pa pb : Piece) : SegCross :=
  let ax := pa.num.getD 0 []; let ay := pa.num.getD 1 []
  let bx := pb.num.getD 0 []; let byy := pb.num.getD 1 []
  let a11 := nth ax 1; let a12 := -(nth bx 1); let r1 := nth bx 0 - nth ax 0
  let a21 := nth ay 1; let a22 := -(nth byy 1); let r2 := nth byy 0 - nth ay 0
  let det := a11 * a22 - a12 * a21
  if det == 0 then
    ⟨(a11 * r2 - a21 * r1 == 0) && (a12 * r2 - a22 * r1 == 0), none, false⟩
  else
    let t := (r1 * a22 - a12 * r2) / det
    let u := (a11 * r2 - a21 * r1) / det
    if pa.a ≤ t ∧ t ≤ pa.b ∧ pb.a ≤ u ∧ u ≤ pb.b then
      ⟨false, some (t, u), t == pa.a || t == pa.b || u == pb.a || u == pb.b⟩
    else ⟨false, none, false⟩

def dedupPairs : List (Rat × Rat) → List (Rat × Rat)
  | [] => []
  | x :: xs => x :: (dedupPairs xs).filter fun y => !(y.1 == x.1 && y.2 == x.2)

structure Crossings where
  degenerate : Bool          -- some pair of segments is parallel and collinear
  touching : Bool            -- some meeting point lies on an end of a segment
  pairs : List (Rat × Rat)

def allSegCross (fa fb : RF) : List SegCross := fa.flatMap fun pa => fb.map fun pb => segCross pa pb

/-- all meeting pairs `(t, u)` of two planar polynomial curves of degree 1 -/
def polylineCrossings (a b : Curve) : Except Err Crossings := do
  if a.kv.deg != 1 || b.kv.deg != 1 || a.W.isSome || b.W.isSome then throw .other
  let fa ← RF.ofCurve a
  let fb ← RF.ofCurve b
  let all := allSegCross fa fb
  return ⟨all.any (·.collinear), all.any (·.touching), dedupPairs (all.filterMap (·.sol))⟩

end NV
