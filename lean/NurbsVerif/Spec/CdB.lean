/-
Spec/CdB.lean — the Cox–de Boor definition the properties refer to.
`cdb U umax i j u` is N_{i,j}(u) over the knot list `U`, right-continuous at interior
knots and with the left-limit convention at `umax` (the last span is closed).
Lean's `x / 0 = 0` *is* the 0/0 := 0 convention of the definition.
-/
import NurbsVerif.Model.Basic
namespace NV

def cdb (U : List Rat) (umax : Rat) : Nat → Nat → Rat → Rat
  | i, 0, u =>
      if (nth U i ≤ u ∧ u < nth U (i + 1)) ∨ (u = umax ∧ nth U i < nth U (i + 1) ∧ nth U (i + 1) = umax)
      then 1 else 0
  | i, j + 1, u =>
      (u - nth U i) / (nth U (i + j + 1) - nth U i) * cdb U umax i j u
      + (nth U (i + j + 2) - u) / (nth U (i + j + 2) - nth U (i + 1)) * cdb U umax (i + 1) j u

/-- NURBS basis `R_i = w_i N_i / Σ_k w_k N_k` (weights `none` ⇒ plain B-spline) -/
def cdbRow (U : List Rat) (umax : Rat) (n j : Nat) (u : Rat) : List Rat :=
  (List.range n).map fun i => cdb U umax i j u

def ratRow (ws : List Rat) (row : List Rat) : List Rat :=
  let d := dot ws row
  (List.zipWith (fun w x => w * x / d) ws row)

/-- the definition of the curve value: Σ_i R_i(u) P_i (per coordinate) -/
def curveDef (U : List Rat) (umax : Rat) (n p : Nat) (P : List Vec) (W : Option (List Rat)) (u : Rat) : Vec :=
  let row := cdbRow U umax n p u
  let row := match W with
    | none => row
    | some ws => ratRow ws row
  lincomb row P

end NV
