/-
Props/C13Refl.lean — property C13: `A == A` is True (polynomial curves with control points on a well-formed knot vector
with separated values), i.e. reflexivity holds through the real code path (union, refit onto the union, comparison).
-/
import NurbsVerif.Props.C17Comm

namespace NV

theorem compare_self (pa : List Vec) :
    ((pa.zip pa).all fun (p, q) => (List.zipWith (fun x y => rabs (x - y)) p q).all fun d => !(decide (d > tol9))) = true := by
  rw [List.all_eq_true]
  intro pq hpq
  obtain ⟨p, q⟩ := pq
  obtain ⟨i, hi, he⟩ := List.mem_iff_getElem.mp hpq
  rw [List.getElem_zip] at he
  simp only [Prod.mk.injEq] at he
  obtain ⟨rfl, rfl⟩ := he
  simp only []
  rw [List.all_eq_true]
  intro d hd
  obtain ⟨j, hj, hje⟩ := List.mem_iff_getElem.mp hd
  rw [List.getElem_zipWith] at hje
  have h0 : d = 0 := by rw [← hje]; simp [rabs]
  rw [h0]
  have := tol9_pos
  simp only [gt_iff_lt, Bool.not_eq_true', decide_eq_false_iff_not, not_lt]
  exact le_of_lt this

/-- **C13 (reflexive): `A == A` is True.** -/
theorem C13_eq_refl (a : Curve) (pa : List Vec) (hP : a.P = some pa) (hW : a.W = none)
    (hwf : WF a.kv.v a.kv.deg) (hsep : Separated a.kv.v) : a.eq a = .ok true := by
  unfold Curve.eq
  simp only [bne_self_eq_false, Bool.false_eq_true, if_false, bind, Except.bind, pure, Except.pure]
  rw [hP, hW]
  simp only []
  unfold Curve.eqPoly
  simp only [bind, Except.bind, pure, Except.pure]
  rw [C17_union_idem a.kv hwf hsep]
  simp only []
  have hu : a.update a.kv (some tol9) none = .ok a := by
    unfold Curve.update
    simp [pure, Except.pure]
  rw [hu]
  simp only []
  rw [hP]
  simp only []
  rw [compare_self pa]

end NV

namespace NV

theorem rabs_sub_comm (x y : Rat) : rabs (x - y) = rabs (y - x) := by
  unfold rabs
  by_cases h : x - y < 0
  · have h' : ¬ (y - x < 0) := by linarith
    simp only [h, h', if_true, if_false]; ring
  · by_cases h2 : y - x < 0
    · simp only [h, h2, if_true, if_false]; ring
    · have : x - y = 0 := by linarith
      have e : y - x = 0 := by linarith
      simp only [h, h2, if_false, this, e]

theorem compare_row_symm : ∀ (p q : Vec),
    ((List.zipWith (fun x y => rabs (x - y)) p q).all fun d => !(decide (d > tol9)))
      = ((List.zipWith (fun x y => rabs (x - y)) q p).all fun d => !(decide (d > tol9)))
  | [], _ => by simp
  | _ :: _, [] => by simp
  | x :: p, y :: q => by
    simp only [List.zipWith_cons_cons, List.all_cons]
    rw [rabs_sub_comm x y, compare_row_symm p q]

theorem compare_symm : ∀ (pa pb : List Vec),
    ((pa.zip pb).all fun x => (List.zipWith (fun x y => rabs (x - y)) x.1 x.2).all fun d => !(decide (d > tol9)))
      = ((pb.zip pa).all fun x => (List.zipWith (fun x y => rabs (x - y)) x.1 x.2).all fun d => !(decide (d > tol9)))
  | [], _ => by simp
  | _ :: _, [] => by simp
  | p :: pa, q :: pb => by
    simp only [List.zip_cons_cons, List.all_cons]
    rw [compare_row_symm p q, compare_symm pa pb]

/-- **C13 (symmetric), polynomial curves:** whenever `A == B` returns an answer, `B == A` returns the same answer. -/
theorem C13_eq_symm (a b : Curve) (r : Bool) (hWa : a.W = none) (hWb : b.W = none)
    (hsep : Separated (a.kv.v ++ b.kv.v)) (h : a.eq b = .ok r) : b.eq a = .ok r := by
  have hsep' : Separated (b.kv.v ++ a.kv.v) := by
    apply separated_of_subset _ _ hsep
    intro y hy; rw [List.mem_append] at hy ⊢; exact hy.symm
  unfold Curve.eq at h ⊢
  simp only [bind, Except.bind, pure, Except.pure] at h ⊢
  rw [bne_comm (a := nth b.kv.v 0), bne_comm (a := b.kv.v.getLastD 0)]
  split at h
  · simp only [Except.ok.injEq] at h; subst h; rename_i h1; rw [if_pos h1]
  · rename_i h1
    rw [if_neg h1]
    split at h
    · simp only [Except.ok.injEq] at h; subst h; rename_i h2; rw [if_pos h2]
    · rename_i h2
      rw [if_neg h2]
      cases hPa : a.P with
      | none =>
        cases hPb : b.P with
        | none =>
          rw [hPa, hPb] at h
          simp only [Except.ok.injEq] at h ⊢
          rw [← h]
          by_cases e : a.kv = b.kv
          · rw [e]
          · have e' : ¬ b.kv = a.kv := fun c => e c.symm
            simp [BEq.beq, e, e']
        | some pb =>
          rw [hPa, hPb] at h
          simp only [Except.ok.injEq] at h ⊢
          exact h
      | some pa =>
        cases hPb : b.P with
        | none =>
          rw [hPa, hPb] at h
          simp only [Except.ok.injEq] at h ⊢
          exact h
        | some pb =>
          rw [hPa, hPb, hWa, hWb] at h
          rw [hWb, hWa]
          simp only [] at h ⊢
          unfold Curve.eqPoly at h ⊢
          simp only [bind, Except.bind, pure, Except.pure] at h ⊢
          rw [C17_union_comm b.kv a.kv hsep']
          split at h
          · cases h
          · rename_i c hc
            split at h
            · cases h
            · rename_i a' ha'
              split at h
              · cases h
              · rename_i b' hb'
                cases hPa' : a'.P with
                | none =>
                  rw [hPa'] at h
                  cases hPb' : b'.P with
                  | none => rw [hPb'] at h; cases h
                  | some qb => rw [hPb'] at h; cases h
                | some qa =>
                  rw [hPa'] at h
                  cases hPb' : b'.P with
                  | none => rw [hPb'] at h; cases h
                  | some qb =>
                    rw [hPb'] at h
                    simp only [Except.ok.injEq] at h ⊢
                    rw [← h, compare_symm qb qa]

end NV
