/-
Props/C16Linear.lean — property C16, "control points that support only point + point and scalar * point are enough for
evaluation, insertion, elevation and splitting": in the model the control points of a polynomial curve enter these
operations only through linear combinations (`lincomb`, `matPts`), so the operations commute with every linear map of the
point space.  Stated for maps `p ↦ A p` given by a matrix: evaluating / inserting / elevating / splitting the mapped
curve gives the mapped result, with the same knot vectors and the same success or failure.
-/
import NurbsVerif.Props.C06Accept

namespace NV

theorem dot_vadd (a x y : Vec) (h : x.length = y.length ∨ y = []) : dot a (vadd x y) = dot a x + dot a y := by
  rcases h with h | h
  · induction a generalizing x y with
    | nil => simp [dot]
    | cons a0 as ih =>
      cases x with
      | nil =>
        have : y = [] := by simpa using h.symm
        subst this; simp [vadd, dot]
      | cons x0 xs =>
        cases y with
        | nil => simp at h
        | cons y0 ys =>
          simp only [vadd, dot]
          rw [ih xs ys (by simpa using h)]
          ring
  · subst h
    cases x <;> simp [vadd, dot]

theorem dot_vscale (a : Vec) (c : Rat) (p : Vec) : dot a (vscale c p) = c * dot a p := by
  unfold vscale
  induction a generalizing p with
  | nil => simp [dot]
  | cons a0 as ih =>
    cases p with
    | nil => simp [dot]
    | cons p0 ps => simp only [List.map_cons, dot]; rw [ih ps]; ring

/-- a linear functional of a linear combination is the combination of its values -/
theorem dot_lincomb (a coefs : Vec) (pts : List Vec) (d : Nat) (hlen : coefs.length = pts.length)
    (hd : ∀ p ∈ pts, p.length = d) : dot a (lincomb coefs pts) = dot coefs (pts.map (dot a ·)) := by
  induction coefs generalizing pts with
  | nil => cases pts <;> simp [lincomb, dot]
  | cons c cs ih =>
    cases pts with
    | nil => simp at hlen
    | cons p ps =>
      simp only [lincomb, List.map_cons, dot]
      have hl : (vscale c p).length = (lincomb cs ps).length ∨ lincomb cs ps = [] := by
        cases ps with
        | nil => right; cases cs <;> simp [lincomb]
        | cons q qs =>
          left
          have := (lincomb_spec cs (q :: qs) d (by simpa using hlen) (by simp)
            (fun r hr => hd r (by simp [List.mem_cons] at hr ⊢; tauto))).1
          rw [this]
          simp [vscale, hd p (by simp)]
      rw [dot_vadd a _ _ hl, dot_vscale, ih ps (by simpa using hlen) (fun r hr => hd r (by simp [hr]))]

/-- **linear combinations commute with linear maps of the points** -/
theorem lincomb_map_linear (A : Mat) (coefs : Vec) (pts : List Vec) (d : Nat) (hlen : coefs.length = pts.length)
    (hpos : 0 < pts.length) (hd : ∀ p ∈ pts, p.length = d) :
    lincomb coefs (pts.map (matVec A)) = matVec A (lincomb coefs pts) := by
  have hd' : ∀ q ∈ pts.map (matVec A), q.length = A.length := by
    intro q hq
    rw [List.mem_map] at hq
    obtain ⟨p, _, rfl⟩ := hq
    exact matVec_length A p
  obtain ⟨l1, c1⟩ := lincomb_spec coefs (pts.map (matVec A)) A.length (by simpa using hlen) (by simpa using hpos) hd'
  apply list_ext_getD _ _ (by rw [l1, matVec_length])
  intro j hj
  rw [l1] at hj
  rw [c1 j, matVec_getD A _ j hj, dot_lincomb _ coefs pts d hlen hd]
  congr 1
  unfold coordCol
  rw [List.map_map]
  apply List.map_congr_left
  intro p _
  simp only [Function.comp]
  exact matVec_getD A p j hj

theorem matPts_map_linear (A m : Mat) (pts : List Vec) (d n : Nat) (hm : ∀ row ∈ m, row.length = n)
    (hlen : pts.length = n) (hpos : 0 < n) (hd : ∀ p ∈ pts, p.length = d) :
    matPts m (pts.map (matVec A)) = (matPts m pts).map (matVec A) := by
  unfold matPts
  rw [List.map_map]
  apply List.map_congr_left
  intro row hrow
  simp only [Function.comp]
  exact lincomb_map_linear A row pts d (by rw [hm row hrow, hlen]) (by omega) hd

/-- the curve with every control point mapped by `p ↦ A p` -/
def Curve.linMap (A : Mat) (c : Curve) : Curve := ⟨c.kv, c.P.map (List.map (matVec A)), c.W⟩

theorem basisRowT_length (k : KV) (t : Table) (j : Nat) (node : Rat) (row : List Rat)
    (h : basisRowT k t j node = .ok row) : row.length = k.npts := by
  unfold basisRowT at h
  simp only [bind, Except.bind, pure, Except.pure] at h
  split at h
  · cases h
  · split at h
    · cases h
    · simp only [Except.ok.injEq] at h
      rw [← h]; simp

theorem rbasisRow_none_length (k : KV) (j : Nat) (node : Rat) (row : List Rat)
    (h : rbasisRow k none j node = .ok row) : row.length = k.npts := by
  unfold rbasisRow basisRow at h
  simp only [bind, Except.bind, pure, Except.pure] at h
  split at h
  · cases h
  · rename_i r hr
    split at hr
    · cases hr
    · simp only [Except.ok.injEq] at h
      rw [← h]
      exact basisRowT_length k _ j node r hr

/-- **C16 (evaluation needs only the module structure of the points).**  For a polynomial curve, evaluating the mapped
curve gives the mapped value — same success, same error. -/
theorem C16_eval_linear (A : Mat) (c : Curve) (pts : List Vec) (d : Nat) (u : Rat)
    (hP : c.P = some pts) (hW : c.W = none) (hlen : pts.length = c.kv.npts) (hpos : 0 < c.kv.npts)
    (hd : ∀ p ∈ pts, p.length = d) :
    (Curve.linMap A c).eval u = (c.eval u).map (matVec A) := by
  unfold Curve.eval Curve.linMap
  rw [hP, hW]
  simp only [Option.map_some, bind, Except.bind, pure, Except.pure]
  cases hrow : rbasisRow c.kv none c.kv.deg u with
  | error e => simp [Except.map]
  | ok row =>
    simp only [Except.map]
    have hl : row.length = pts.length := by
      rw [hlen]
      exact rbasisRow_none_length c.kv c.kv.deg u row hrow
    rw [lincomb_map_linear A row pts d hl (by omega) hd]

/-- `BaseCurve.apply` on a polynomial curve commutes with linear maps of the points -/
theorem C16_apply_linear (A : Mat) (c : Curve) (newk : KV) (m : Mat) (pts : List Vec) (d : Nat)
    (hP : c.P = some pts) (hW : c.W = none) (hlen : pts.length = c.kv.npts) (hpos : 0 < c.kv.npts)
    (hd : ∀ p ∈ pts, p.length = d) (hm : ∀ row ∈ m, row.length = c.kv.npts) :
    (Curve.linMap A c).apply newk m = (c.apply newk m).map (Curve.linMap A) := by
  unfold Curve.apply Curve.linMap
  rw [hP, hW]
  simp only [Option.map_some]
  rw [matPts_map_linear A m pts d c.kv.npts hm hlen hpos hd]
  unfold Curve.mk?
  by_cases hl : ((matPts m pts).length != newk.npts) = true
  · simp [hl, Except.map]
  · simp [hl, Except.map]

/-- **C16 (insertion needs only the module structure of the points).**  `knot_insert` of the mapped polynomial curve is
the mapped result of `knot_insert` — same knot vector, same success or failure. -/
theorem C16_knotInsert_linear (A : Mat) (c : Curve) (nodes : List Rat) (pts : List Vec) (d : Nat)
    (hP : c.P = some pts) (hW : c.W = none) (hlen : pts.length = c.kv.npts) (hd : ∀ p ∈ pts, p.length = d)
    (hwf : WF c.kv.v c.kv.deg) (hsep : Separated (c.kv.v ++ nodes)) :
    (Curve.linMap A c).knotInsert nodes = (c.knotInsert nodes).map (Curve.linMap A) := by
  have hpos : 0 < c.kv.npts := by have := hwf.npts_gt; unfold KV.npts; omega
  unfold Curve.knotInsert
  have hk : (Curve.linMap A c).kv = c.kv := rfl
  rw [hk]
  simp only [bind, Except.bind]
  cases hins : c.kv.insert nodes with
  | error e => simp [Except.map]
  | ok newk =>
    simp only []
    by_cases hdeg : (newk.deg != c.kv.deg) = true
    · simp [hdeg, Except.map, throw, throwThe, MonadExceptOf.throw]
    · simp only [hdeg, Bool.false_eq_true, if_false]
      cases hmat : knotInsertMat c.kv nodes with
      | error e => simp [Except.map]
      | ok m =>
        simp only []
        obtain ⟨kf, hrep, _, _⟩ := knotInsertMat_reached c.kv nodes m hwf hsep hmat
        exact C16_apply_linear A c newk m pts d hP hW hlen hpos hd (fun row hrow => hrep.shaped.2 row hrow)

/-! non-vacuity: a planar curve, the map `(x, y) ↦ (x + 2y, 3y, x − y)` into space -/
example : (Curve.linMap [[1, 2], [0, 3], [1, -1]] exC04Rat).P = some [[1, 0, 1], [5, 3, 2], [6, 12, -6], [9, 6, 3]] := by
  decide +kernel

end NV
