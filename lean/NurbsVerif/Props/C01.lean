/-
Props/C01.lean — property C01: curve evaluation equals the B-spline / NURBS definition.
Property theorems only; helper lemmas live in `Proofs/`.
-/
import NurbsVerif.Proofs.Eval

namespace NV

/-- **C01 (value).**  `Curve.eval` — the model of `Curve.__eval`: per-span power-basis table
(`speval_matrix`), span search, table look-up, Horner in the local coordinate, rational
normalisation, contraction with the control points — returns exactly `Σ_i R_i(u) P_i` with
`R_i = w_i N_{i,p} / Σ_k w_k N_{k,p}` and `N_{i,p}` the Cox–de Boor functions (right-continuous,
left limit at `umax`), for every knot vector, point list, weight list and parameter that pass the
executable side condition `evalCheck` (ordered knots + the table look-ups hit the node's span; it
is re-evaluated by the driver on every call) and whose weight function does not vanish at `u`. -/
theorem C01_eval_eq_def (c : Curve) (pts : List Vec) (t : Table) (u : Rat)
    (hP : c.P = some pts) (ht : speval c.kv c.kv.deg = .ok t)
    (hchk : evalCheck c.kv t c.kv.deg u = true)
    (hw : ∀ ws, c.W = some ws → dot (cdbRow c.kv.v c.kv.umax c.kv.npts c.kv.deg u) ws ≠ 0) :
    c.eval u = .ok (curveDef c.kv.v c.kv.umax c.kv.npts c.kv.deg pts c.W u) := by
  have hrow := basisRowT_eq_cdbRow_of_check c.kv t c.kv.deg u hchk
  unfold Curve.eval
  rw [hP]
  simp only [rbasisRow, basisRow, ht, bind, Except.bind, hrow]
  unfold curveDef
  cases hW : c.W with
  | none => simp [pure, Except.pure]
  | some ws =>
    simp only [pure, Except.pure]
    rw [rationalise_eq_ratRow ws _ (hw ws hW)]

/-- **C01 (outside).**  A parameter outside `[umin, umax]` gives `ValueError`, never a value. -/
theorem C01_eval_outside (c : Curve) (pts : List Vec) (t : Table) (u : Rat)
    (hP : c.P = some pts) (ht : speval c.kv c.kv.deg = .ok t)
    (hout : u < c.kv.umin ∨ c.kv.umax < u) :
    c.eval u = .error .value := by
  unfold Curve.eval
  rw [hP]
  have hv : c.kv.validNode u = false := by
    simp only [KV.validNode, Bool.not_eq_false', Bool.or_eq_true, decide_eq_true_eq]
    exact hout
  simp only [rbasisRow, basisRow, ht, bind, Except.bind, basisRowT, KV.span, hv]
  rfl

/-- **C01 (sequence).**  A sequence of parameters yields one point per node, in order. -/
theorem C01_eval_seq (c : Curve) (u : Rat) (us : List Rat) :
    c.evalMany (u :: us) = (do let v ← c.eval u; let vs ← c.evalMany us; pure (v :: vs)) := by
  simp [Curve.evalMany, List.mapM_cons]

theorem C01_eval_seq_nil (c : Curve) : c.evalMany [] = .ok [] := rfl

/-! non-vacuity: a degree-3 rational curve with a double interior knot, non-uniform spacing,
non-unit weights satisfies every hypothesis of `C01_eval_eq_def` at an interior knot and at `umax` -/
def exKV : KV := ⟨[0, 0, 0, 0, mkRat 1 4, mkRat 1 4, mkRat 7 10, 1, 1, 1, 1], 3⟩

example : (match speval exKV 3 with
    | .ok t => evalCheck exKV t 3 (mkRat 1 4) && evalCheck exKV t 3 1 && evalCheck exKV t 3 (mkRat 1 3)
    | .error _ => false) = true := by decide +kernel

end NV
