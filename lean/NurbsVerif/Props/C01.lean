/-
Props/C01.lean — property C01: curve evaluation equals the B-spline / NURBS definition.
Property theorems only; helper lemmas live in `Proofs/`.
-/
import NurbsVerif.Proofs.Eval
import NurbsVerif.Proofs.Lookup
import NurbsVerif.Proofs.Hull
import NurbsVerif.Proofs.Matrix

namespace NV

/-- **C01 (value).**  `Curve.eval` — the model of `Curve.__eval`: per-span power-basis table
(`speval_matrix`), span search, table look-up, Horner in the local coordinate, rational
normalisation, contraction with the control points — returns exactly `Σ_i R_i(u) P_i` with
`R_i = w_i N_{i,p} / Σ_k w_k N_{k,p}` and `N_{i,p}` the Cox–de Boor functions (right-continuous,
left limit at `umax`), for every knot vector, point list, weight list and parameter that pass the
executable side condition `evalCheck` (ordered knots + the table look-ups hit the node's span; it
is re-evaluated by the driver on every call) and whose weight function does not vanish at `u`. -/
theorem C01_eval_eq_def (c : Curve) (pts : List Vec) (t : Table) (u : Rat)
    (hP : c.P = some pts) (ht : speval c.kv c.kv.deg = .ok t)
    (hchk : evalCheck c.kv t c.kv.deg u = true)
    (hw : ∀ ws, c.W = some ws → dot (cdbRow c.kv.v c.kv.umax c.kv.npts c.kv.deg u) ws ≠ 0) :
    c.eval u = .ok (curveDef c.kv.v c.kv.umax c.kv.npts c.kv.deg pts c.W u) := by
  have hrow := basisRowT_eq_cdbRow_of_check c.kv t c.kv.deg u hchk
  unfold Curve.eval
  rw [hP]
  simp only [rbasisRow, basisRow, ht, bind, Except.bind, hrow]
  unfold curveDef
  cases hW : c.W with
  | none => simp [pure, Except.pure]
  | some ws =>
    simp only [pure, Except.pure]
    rw [rationalise_eq_ratRow ws _ (hw ws hW)]

/-- **C01 (value, unconditional form).**  For every well-formed knot vector whose distinct knot values are separated
(the guaranteed domain), every control-point list, every weight list whose weight function does not vanish at `u`
and every parameter `u ∈ [umin, umax]`, the evaluation equals the B-spline / NURBS definition.  The look-up side
condition is discharged by `evalCheck_of_good` (span search terminates and finds the span, the distinct knot list is
strictly increasing, `spans.index(span)` hits the right table). -/
theorem C01_eval_eq_def_WF (c : Curve) (pts : List Vec) (u : Rat)
    (hP : c.P = some pts) (hwf : WF c.kv.v c.kv.deg) (hsep : Separated c.kv.v)
    (hu : c.kv.umin ≤ u ∧ u ≤ c.kv.umax)
    (hw : ∀ ws, c.W = some ws → dot (cdbRow c.kv.v c.kv.umax c.kv.npts c.kv.deg u) ws ≠ 0) :
    c.eval u = .ok (curveDef c.kv.v c.kv.umax c.kv.npts c.kv.deg pts c.W u) := by
  have g : GoodKV c.kv := goodKV_of_WF c.kv.v c.kv.deg hwf hsep
  have hchk : orderedCheck c.kv = true := orderedCheck_of_WF c.kv.v c.kv.deg hwf
  obtain ⟨t, ht, hc⟩ := evalCheck_of_good c.kv g hchk c.kv.deg (le_refl _) u hu
  exact C01_eval_eq_def c pts t u hP ht hc hw

/-- positive weights never make the weight function vanish (non-negativity + partition of unity) -/
theorem weight_function_pos (k : KV) (g : GoodKV k) (u : Rat) (hu : k.umin ≤ u ∧ u ≤ k.umax) (ws : List Rat)
    (hlen : ws.length = k.npts) (hpos : ∀ w ∈ ws, 0 < w) :
    0 < dot (cdbRow k.v k.umax k.npts k.deg u) ws := by
  obtain ⟨s, hs⟩ := span_total k g.ord g.deg_lt u hu
  have hlen' := g.ord.len
  have hslt := span_lt_npts k g.ord u s hs (by have := g.deg_lt; omega)
  have hsge := span_ge_deg k g.deg_lt u s hs
  have hIn : InSpan (nth k.v) k.umax s u := by
    rcases span_spec k u s hs with hsp | ⟨hmax, hsn⟩
    · exact Or.inl hsp
    · have e : k.npts - 1 + 1 = k.npts := by have := g.deg_lt; omega
      refine Or.inr ⟨hmax, ?_, ?_⟩
      · rw [hsn, e]; exact g.last
      · rw [hsn, e]; rfl
  have hrow : (cdbRow k.v k.umax k.npts k.deg u).length = k.npts := by simp [cdbRow]
  rw [dot_eq_sum _ _ k.npts hrow hlen]
  have hentry : ∀ i ∈ Finset.range k.npts,
      (cdbRow k.v k.umax k.npts k.deg u).getD i 0 * ws.getD i 0 = cdb k.v k.umax i k.deg u * ws.getD i 0 := by
    intro i hi
    simp only [Finset.mem_range] at hi
    simp [cdbRow, List.getD_eq_getElem?_getD, hi]
  rw [Finset.sum_congr rfl hentry]
  apply convex_combination_gt k.npts (fun i => cdb k.v k.umax i k.deg u) (fun i => ws.getD i 0) 0
  · intro i hi
    rw [cdb_eq_cdbF]
    exact cdbF_nonneg (nth k.v) k.umax (k.v.length - 1) g.ord.mono g.ord.le_umax s u (by omega) hIn k.deg i (by omega)
  · simp only [cdb_eq_cdbF]
    exact cdbF_sum_one (nth k.v) k.umax (k.v.length - 1) g.ord.mono g.ord.le_umax s u hIn k.deg k.npts hsge hslt (by omega)
  · intro i hi
    have : i < ws.length := by omega
    have hm : ws.getD i 0 = ws[i] := by simp [List.getD_eq_getElem?_getD, this]
    rw [hm]
    exact hpos _ (List.getElem_mem this)

/-- **C01 (positive weights).**  With positive weights (and for polynomial curves) no side condition is left:
evaluation = definition at every parameter of the interval. -/
theorem C01_eval_eq_def_positive (c : Curve) (pts : List Vec) (u : Rat)
    (hP : c.P = some pts) (hwf : WF c.kv.v c.kv.deg) (hsep : Separated c.kv.v)
    (hu : c.kv.umin ≤ u ∧ u ≤ c.kv.umax)
    (hw : ∀ ws, c.W = some ws → ws.length = c.kv.npts ∧ ∀ w ∈ ws, 0 < w) :
    c.eval u = .ok (curveDef c.kv.v c.kv.umax c.kv.npts c.kv.deg pts c.W u) := by
  apply C01_eval_eq_def_WF c pts u hP hwf hsep hu
  intro ws hws
  obtain ⟨hl, hp⟩ := hw ws hws
  exact ne_of_gt (weight_function_pos c.kv (goodKV_of_WF c.kv.v c.kv.deg hwf hsep) u hu ws hl hp)

/-- **C01 (outside).**  A parameter outside `[umin, umax]` gives `ValueError`, never a value. -/
theorem C01_eval_outside (c : Curve) (pts : List Vec) (t : Table) (u : Rat)
    (hP : c.P = some pts) (ht : speval c.kv c.kv.deg = .ok t)
    (hout : u < c.kv.umin ∨ c.kv.umax < u) :
    c.eval u = .error .value := by
  unfold Curve.eval
  rw [hP]
  have hv : c.kv.validNode u = false := by
    simp only [KV.validNode, Bool.not_eq_false', Bool.or_eq_true, decide_eq_true_eq]
    exact hout
  simp only [rbasisRow, basisRow, ht, bind, Except.bind, basisRowT, KV.span, hv]
  rfl

/-- **C01 (sequence).**  A sequence of parameters yields one point per node, in order. -/
theorem C01_eval_seq (c : Curve) (u : Rat) (us : List Rat) :
    c.evalMany (u :: us) = (do let v ← c.eval u; let vs ← c.evalMany us; pure (v :: vs)) := by
  simp [Curve.evalMany, List.mapM_cons]

theorem C01_eval_seq_nil (c : Curve) : c.evalMany [] = .ok [] := rfl

/-! non-vacuity: a degree-3 rational curve with a double interior knot, non-uniform spacing,
non-unit weights satisfies every hypothesis of `C01_eval_eq_def` at an interior knot and at `umax` -/
def exKV : KV := ⟨[0, 0, 0, 0, mkRat 1 4, mkRat 1 4, mkRat 7 10, 1, 1, 1, 1], 3⟩

example : (match speval exKV 3 with
    | .ok t => evalCheck exKV t 3 (mkRat 1 4) && evalCheck exKV t 3 1 && evalCheck exKV t 3 (mkRat 1 3)
    | .error _ => false) = true := by decide +kernel

end NV
