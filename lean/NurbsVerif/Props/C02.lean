/-
Props/C02.lean — property C02: basis functions obey the Cox–de Boor definition for every index
and sub-degree; consequences: non-negativity, local support, partition of unity.
-/
import NurbsVerif.Proofs.Eval
import NurbsVerif.Proofs.Lookup

namespace NV
open Finset

/-- **C02 (value).**  For every sub-degree `j ≤ p` the row `[F_{0,j}(u), …, F_{n-1,j}(u)]` computed
from the coefficient tables is the row of Cox–de Boor values (with weights: `w_i N_{i,j}/Σ w_k N_{k,j}`). -/
theorem C02_basis_eq_cdb (k : KV) (ws : Option (List Rat)) (t : Table) (j : Nat) (u : Rat)
    (ht : speval k j = .ok t) (hchk : evalCheck k t j u = true)
    (hw : ∀ w, ws = some w → dot (cdbRow k.v k.umax k.npts j u) w ≠ 0) :
    rbasisRow k ws j u = .ok (match ws with
      | none => cdbRow k.v k.umax k.npts j u
      | some w => ratRow w (cdbRow k.v k.umax k.npts j u)) := by
  have hrow := basisRowT_eq_cdbRow_of_check k t j u hchk
  simp only [rbasisRow, basisRow, ht, bind, Except.bind, hrow]
  cases ws with
  | none => rfl
  | some w => simp only [rationalise_eq_ratRow w _ (hw w rfl)]

/-- **C02 (non-negativity)** for every index and degree in range, on every span. -/
theorem C02_nonneg (k : KV) (hk : Ordered k) (sz : Nat) (u : Rat) (hs : sz < k.npts)
    (h : InSpan (nth k.v) k.umax sz u) (j i : Nat) (hj : j ≤ k.deg) (hi : i < k.npts) :
    0 ≤ cdb k.v k.umax i j u := by
  rw [cdb_eq_cdbF]
  have := hk.len
  exact cdbF_nonneg (nth k.v) k.umax (k.v.length - 1) hk.mono hk.le_umax sz u (by omega) h j i (by omega)

/-- **C02 (local support).**  `N_{i,j}` vanishes outside `[u_i, u_{i+j+1}]`. -/
theorem C02_support (k : KV) (hk : Ordered k) (sz : Nat) (u : Rat) (hs : sz < k.npts)
    (h : InSpan (nth k.v) k.umax sz u) (j i : Nat) (hj : j ≤ k.deg) (hi : i < k.npts)
    (hout : u < nth k.v i ∨ nth k.v (i + j + 1) < u) :
    cdb k.v k.umax i j u = 0 := by
  rw [cdb_eq_cdbF]
  have := hk.len
  rcases hout with hl | hr
  · exact cdbF_eq_zero_of_lt (nth k.v) k.umax (k.v.length - 1) hk.mono hk.le_umax sz u (by omega) h j i (by omega) hl
  · exact cdbF_eq_zero_of_gt (nth k.v) k.umax (k.v.length - 1) hk.mono hk.le_umax sz u (by omega) h j i (by omega) hr

/-- **C02 (partition of unity).**  The degree-`p` functions sum to one at every parameter of every span
`p ≤ sz < npts` (closed at `umax`). -/
theorem C02_sum_one (k : KV) (hk : Ordered k) (sz : Nat) (u : Rat) (hp : k.deg ≤ sz) (hs : sz < k.npts)
    (h : InSpan (nth k.v) k.umax sz u) :
    ∑ i ∈ range k.npts, cdb k.v k.umax i k.deg u = 1 := by
  simp only [cdb_eq_cdbF]
  have := hk.len
  exact cdbF_sum_one (nth k.v) k.umax (k.v.length - 1) hk.mono hk.le_umax sz u h k.deg k.npts hp hs (by omega)

/-- **C02 (value, unconditional form).**  For every well-formed separated knot vector, every sub-degree `j ≤ p` and
every `u ∈ [umin, umax]` the evaluated row is the row of Cox–de Boor values. -/
theorem C02_basis_eq_cdb_WF (k : KV) (hwf : WF k.v k.deg) (hsep : Separated k.v) (j : Nat) (hj : j ≤ k.deg)
    (u : Rat) (hu : k.umin ≤ u ∧ u ≤ k.umax) :
    rbasisRow k none j u = .ok (cdbRow k.v k.umax k.npts j u) := by
  obtain ⟨t, ht, hc⟩ := evalCheck_of_good k (goodKV_of_WF k.v k.deg hwf hsep) (orderedCheck_of_WF k.v k.deg hwf) j hj u hu
  have := C02_basis_eq_cdb k none t j u ht hc (by intro w hw; cases hw)
  simpa using this

/-- **C02 (consequences on the whole interval).**  Non-negativity, local support and partition of unity hold at every
parameter of `[umin, umax]` of a well-formed separated knot vector (closed at `umax`). -/
theorem C02_nonneg_WF (k : KV) (hwf : WF k.v k.deg) (hsep : Separated k.v) (u : Rat) (hu : k.umin ≤ u ∧ u ≤ k.umax)
    (j i : Nat) (hj : j ≤ k.deg) (hi : i < k.npts) : 0 ≤ cdb k.v k.umax i j u := by
  have g := goodKV_of_WF k.v k.deg hwf hsep
  obtain ⟨s, _, hs, hIn⟩ := exists_span k g u hu
  exact C02_nonneg k g.ord s u hs hIn j i hj hi

theorem C02_support_WF (k : KV) (hwf : WF k.v k.deg) (hsep : Separated k.v) (u : Rat) (hu : k.umin ≤ u ∧ u ≤ k.umax)
    (j i : Nat) (hj : j ≤ k.deg) (hi : i < k.npts) (hout : u < nth k.v i ∨ nth k.v (i + j + 1) < u) :
    cdb k.v k.umax i j u = 0 := by
  have g := goodKV_of_WF k.v k.deg hwf hsep
  obtain ⟨s, _, hs, hIn⟩ := exists_span k g u hu
  exact C02_support k g.ord s u hs hIn j i hj hi hout

theorem C02_sum_one_WF (k : KV) (hwf : WF k.v k.deg) (hsep : Separated k.v) (u : Rat) (hu : k.umin ≤ u ∧ u ≤ k.umax) :
    ∑ i ∈ range k.npts, cdb k.v k.umax i k.deg u = 1 := by
  have g := goodKV_of_WF k.v k.deg hwf hsep
  obtain ⟨s, hp, hs, hIn⟩ := exists_span k g u hu
  exact C02_sum_one k g.ord s u hp hs hIn

/-! non-vacuity: the hypotheses hold on a degree-3 vector with a double interior knot -/
example : orderedCheck ⟨[0, 0, 0, 0, mkRat 1 4, mkRat 1 4, mkRat 7 10, 1, 1, 1, 1], 3⟩ = true
    ∧ inSpanB [0, 0, 0, 0, mkRat 1 4, mkRat 1 4, mkRat 7 10, 1, 1, 1, 1] 1 5 (mkRat 1 2) = true
    ∧ inSpanB [0, 0, 0, 0, mkRat 1 4, mkRat 1 4, mkRat 7 10, 1, 1, 1, 1] 1 6 1 = true := by decide +kernel

end NV
