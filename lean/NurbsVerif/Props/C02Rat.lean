/-
Props/C02Rat.lean — property C02 with weights: for every well-formed separated knot vector, every sub-degree `j ≤ p`,
every list of positive weights and every parameter of the interval, `Function(U)[·, j](u)` with weights is
`w_i N_{i,j}(u) / Σ_k w_k N_{k,j}(u)` (no side condition: the denominator is positive for every sub-degree), the values are
non-negative, vanish wherever `N_{i,j}` vanishes, and sum to one.
-/
import NurbsVerif.Props.C02
import NurbsVerif.Props.C04Rat

namespace NV
open Finset

/-- positive weights never make the weight function of *any* sub-degree vanish -/
theorem weight_function_pos_sub (k : KV) (g : GoodKV k) (u : Rat) (hu : k.umin ≤ u ∧ u ≤ k.umax) (ws : List Rat)
    (hlen : ws.length = k.npts) (hpos : ∀ w ∈ ws, 0 < w) (j : Nat) (hj : j ≤ k.deg) :
    0 < dot (cdbRow k.v k.umax k.npts j u) ws := by
  obtain ⟨s, hsge, hslt, hIn⟩ := exists_span k g u hu
  have hlen' := g.ord.len
  have hrow : (cdbRow k.v k.umax k.npts j u).length = k.npts := by simp [cdbRow]
  rw [dot_eq_sum _ _ k.npts hrow hlen]
  have hentry : ∀ i ∈ Finset.range k.npts,
      (cdbRow k.v k.umax k.npts j u).getD i 0 * ws.getD i 0 = cdb k.v k.umax i j u * ws.getD i 0 := by
    intro i hi
    simp only [Finset.mem_range] at hi
    simp [cdbRow, List.getD_eq_getElem?_getD, hi]
  rw [Finset.sum_congr rfl hentry]
  apply convex_combination_gt k.npts (fun i => cdb k.v k.umax i j u) (fun i => ws.getD i 0) 0
  · intro i hi
    rw [cdb_eq_cdbF]
    exact cdbF_nonneg (nth k.v) k.umax (k.v.length - 1) g.ord.mono g.ord.le_umax s u (by omega) hIn j i (by omega)
  · simp only [cdb_eq_cdbF]
    exact cdbF_sum_one (nth k.v) k.umax (k.v.length - 1) g.ord.mono g.ord.le_umax s u hIn j k.npts (by omega) hslt (by omega)
  · intro i hi
    have : i < ws.length := by omega
    have hm : ws.getD i 0 = ws[i] := by simp [List.getD_eq_getElem?_getD, this]
    rw [hm]
    exact hpos _ (List.getElem_mem this)

/-- **C02 (rational basis functions = definition), no side condition.** -/
theorem C02_rational_eq_def_WF (k : KV) (hwf : WF k.v k.deg) (hsep : Separated k.v) (j : Nat) (hj : j ≤ k.deg)
    (u : Rat) (hu : k.umin ≤ u ∧ u ≤ k.umax) (ws : List Rat) (hlen : ws.length = k.npts) (hpos : ∀ w ∈ ws, 0 < w) :
    rbasisRow k (some ws) j u = .ok (ratRow ws (cdbRow k.v k.umax k.npts j u)) := by
  have g := goodKV_of_WF k.v k.deg hwf hsep
  obtain ⟨t, ht, hc⟩ := evalCheck_of_good k g (orderedCheck_of_WF k.v k.deg hwf) j hj u hu
  have := C02_basis_eq_cdb k (some ws) t j u ht hc
    (by intro w hw; cases hw; exact ne_of_gt (weight_function_pos_sub k g u hu ws hlen hpos j hj))
  simpa using this

/-- entry `i` of the rational row: `w_i N_{i,j}(u) / Σ_k w_k N_{k,j}(u)` -/
theorem ratRow_getD (ws row : List Rat) (n : Nat) (hw : ws.length = n) (hr : row.length = n) (i : Nat) (hi : i < n) :
    (ratRow ws row).getD i 0 = ws.getD i 0 * row.getD i 0 / dot ws row := by
  unfold ratRow
  simp only []
  rw [getD_zipWith _ ws row n hw hr i hi]

/-- **C02 (rational: non-negative, local support, partition of unity)** for every sub-degree. -/
theorem C02_rational_props_WF (k : KV) (hwf : WF k.v k.deg) (hsep : Separated k.v) (j : Nat) (hj : j ≤ k.deg)
    (u : Rat) (hu : k.umin ≤ u ∧ u ≤ k.umax) (ws : List Rat) (hlen : ws.length = k.npts) (hpos : ∀ w ∈ ws, 0 < w) :
    (∀ i, i < k.npts → 0 ≤ (ratRow ws (cdbRow k.v k.umax k.npts j u)).getD i 0)
      ∧ (∀ i, i < k.npts → (u < nth k.v i ∨ nth k.v (i + j + 1) < u) →
            (ratRow ws (cdbRow k.v k.umax k.npts j u)).getD i 0 = 0)
      ∧ ∑ i ∈ range k.npts, (ratRow ws (cdbRow k.v k.umax k.npts j u)).getD i 0 = 1 := by
  have g := goodKV_of_WF k.v k.deg hwf hsep
  set row := cdbRow k.v k.umax k.npts j u with hrowdef
  have hrow : row.length = k.npts := by simp [hrowdef, cdbRow]
  have hden : 0 < dot ws row := by rw [dot_comm]; exact weight_function_pos_sub k g u hu ws hlen hpos j hj
  have hrowi : ∀ i, i < k.npts → row.getD i 0 = cdb k.v k.umax i j u := by
    intro i hi; simp [hrowdef, cdbRow, List.getD_eq_getElem?_getD, hi]
  have hwi : ∀ i, i < k.npts → 0 < ws.getD i 0 := by
    intro i hi
    have : i < ws.length := by omega
    have hm : ws.getD i 0 = ws[i] := by simp [List.getD_eq_getElem?_getD, this]
    rw [hm]; exact hpos _ (List.getElem_mem this)
  refine ⟨?_, ?_, ?_⟩
  · intro i hi
    rw [ratRow_getD ws row k.npts hlen hrow i hi, hrowi i hi]
    have hN := C02_nonneg_WF k hwf hsep u hu j i hj hi
    have hw := hwi i hi
    positivity
  · intro i hi hout
    rw [ratRow_getD ws row k.npts hlen hrow i hi, hrowi i hi, C02_support_WF k hwf hsep u hu j i hj hi hout]
    simp
  · have e : ∀ i ∈ range k.npts, (ratRow ws row).getD i 0 = ws.getD i 0 * row.getD i 0 / dot ws row := by
      intro i hi; simp only [mem_range] at hi; exact ratRow_getD ws row k.npts hlen hrow i hi
    rw [sum_congr rfl e]
    simp only [div_eq_mul_inv]
    rw [← Finset.sum_mul, ← dot_eq_sum ws row k.npts hlen hrow]
    exact mul_inv_cancel₀ (ne_of_gt hden)

end NV
