/-
Props/C08.lean — property C08 (curve arithmetic is pointwise arithmetic): the operators that act on the control
points alone.  For every model curve (polynomial or rational), every parameter and every scalar:
`(-A)(u) = -A(u)`, `(s·A)(u) = s·A(u)`, `(A/s)(u) = A(u)/s`, and for polynomial curves `(A + v)(u) = A(u) + v`.
(Sums, products and quotients of two curves go through the union / product knot vectors and least squares; they are
decided per input by the oracles `rf.rel`.)
-/
import NurbsVerif.Props.C01
import NurbsVerif.Model.Arith
import NurbsVerif.Proofs.MatVec

namespace NV

theorem vscale_vadd (s : Rat) : ∀ a b : Vec, vscale s (vadd a b) = vadd (vscale s a) (vscale s b)
  | [], b => by simp [vadd, vscale]
  | a :: as, [] => by simp [vadd, vscale]
  | a :: as, b :: bs => by
    have := vscale_vadd s as bs
    simp only [vscale] at this ⊢
    simp only [vadd, List.map_cons, this]
    congr 1
    ring

theorem vscale_comm (s c : Rat) (p : Vec) : vscale c (vscale s p) = vscale s (vscale c p) := by
  simp only [vscale, List.map_map]
  apply List.map_congr_left
  intro x _
  simp only [Function.comp]
  ring

/-- `lincomb` is linear in the points (no shape condition) -/
theorem lincomb_map_vscale (s : Rat) : ∀ (coefs : Vec) (pts : List Vec),
    lincomb coefs (pts.map (vscale s)) = vscale s (lincomb coefs pts)
  | [], pts => by cases pts <;> simp [lincomb, vscale]
  | c :: cs, [] => by simp [lincomb, vscale]
  | c :: cs, p :: ps => by
    simp only [List.map_cons, lincomb]
    rw [lincomb_map_vscale s cs ps, vscale_vadd, vscale_comm]

/-- evaluation after mapping the control points with a map that commutes with `lincomb` -/
theorem eval_mapPts (c c' : Curve) (f : Vec → Vec) (h : c.mapPts f = .ok c')
    (hlin : ∀ (row : Vec) (pts : List Vec), lincomb row (pts.map f) = f (lincomb row pts)) (u : Rat) :
    c'.eval u = (c.eval u).map f := by
  unfold Curve.mapPts at h
  split at h
  · cases h
  · rename_i pts hP
    simp only [Except.ok.injEq] at h
    subst h
    unfold Curve.eval
    simp only [hP, bind, Except.bind]
    cases hrow : rbasisRow c.kv c.W c.kv.deg u with
    | error e => simp [Except.map]
    | ok row => simp [Except.map, pure, Except.pure, hlin]

/-- **C08 (unary minus).**  `(-A)(u) = -A(u)` at every parameter (errors are preserved). -/
theorem C08_neg (c c' : Curve) (h : c.neg = .ok c') (u : Rat) :
    c'.eval u = (c.eval u).map (vscale (-1)) :=
  eval_mapPts c c' _ h (fun row pts => lincomb_map_vscale (-1) row pts) u

/-- **C08 (scalar multiple).**  `(s·A)(u) = s·A(u)`. -/
theorem C08_scalarMul (c c' : Curve) (s : Rat) (h : c.scalarMul s = .ok c') (u : Rat) :
    c'.eval u = (c.eval u).map (vscale s) :=
  eval_mapPts c c' _ h (fun row pts => lincomb_map_vscale s row pts) u

/-- **C08 (division by a scalar).**  `(A/s)(u) = A(u)/s`; `s = 0` is rejected. -/
theorem C08_scalarDiv (c c' : Curve) (s : Rat) (h : c.scalarDiv s = .ok c') (u : Rat) :
    s ≠ 0 ∧ c'.eval u = (c.eval u).map (vscale (1 / s)) := by
  unfold Curve.scalarDiv at h
  split at h
  · cases h
  · rename_i hs
    refine ⟨by simpa using hs, ?_⟩
    exact eval_mapPts c c' _ h (fun row pts => lincomb_map_vscale (1 / s) row pts) u

theorem C08_scalarDiv_zero (c : Curve) : c.scalarDiv 0 = .error .other := by
  simp [Curve.scalarDiv]

open Finset in
theorem cdbRow_sum_one (k : KV) (g : GoodKV k) (u : Rat) (hu : k.umin ≤ u ∧ u ≤ k.umax) :
    ∑ i ∈ range k.npts, (cdbRow k.v k.umax k.npts k.deg u).getD i 0 = 1 := by
  obtain ⟨s, hs1, hs2, hin⟩ := exists_span k g u hu
  have hlen := g.ord.len
  have e : ∀ i ∈ range k.npts, (cdbRow k.v k.umax k.npts k.deg u).getD i 0 = cdbF (nth k.v) k.umax i k.deg u := by
    intro i hi
    simp only [mem_range] at hi
    simp [cdbRow, List.getD_eq_getElem?_getD, hi, cdb_eq_cdbF]
  rw [sum_congr rfl e]
  exact cdbF_sum_one (nth k.v) k.umax (k.v.length - 1) g.ord.mono g.ord.le_umax s u hin k.deg k.npts hs1 hs2 (by omega)

open Finset in
/-- **C08 (adding a constant point), polynomial curves.**  `(A + v)(u) = A(u) + v` at every parameter of the interval
(partition of unity). -/
theorem C08_constAdd (c c' : Curve) (v : Vec) (pts : List Vec) (hP : c.P = some pts) (hW : c.W = none)
    (hlen : pts.length = c.kv.npts) (hdim : ∀ p ∈ pts, p.length = v.length)
    (hwf : WF c.kv.v c.kv.deg) (hsep : Separated c.kv.v) (h : c.constAdd v = .ok c')
    (u : Rat) (hu : c.kv.umin ≤ u ∧ u ≤ c.kv.umax) :
    c'.eval u = (c.eval u).map (vadd v) := by
  have g := goodKV_of_WF c.kv.v c.kv.deg hwf hsep
  have hn0 : 0 < c.kv.npts := by have := hwf.npts_gt; unfold KV.npts; omega
  unfold Curve.constAdd Curve.mapPts at h
  rw [hP] at h
  simp only [Except.ok.injEq] at h
  subst h
  have hmap : pts.map (vaddBroadcast v) = pts.map (vadd v) := by
    apply List.map_congr_left
    intro p hp
    simp [vaddBroadcast, hdim p hp]
  rw [C01_eval_eq_def_WF ({ c with P := some (pts.map (vaddBroadcast v)) } : Curve) (pts.map (vaddBroadcast v)) u rfl hwf hsep hu
      (by intro ws hws; simp only [hW] at hws; cases hws),
    C01_eval_eq_def_WF c pts u hP hwf hsep hu (by intro ws hws; rw [hW] at hws; cases hws)]
  simp only [Except.map, hW, curveDef, hmap]
  congr 1
  set row := cdbRow c.kv.v c.kv.umax c.kv.npts c.kv.deg u with hrow
  have lrow : row.length = c.kv.npts := by simp [hrow, cdbRow]
  have hd' : ∀ q ∈ pts.map (vadd v), q.length = v.length := by
    intro q hq
    obtain ⟨p, hp, rfl⟩ := List.mem_map.mp hq
    exact vadd_length v p v.length rfl (hdim p hp)
  obtain ⟨l1, c1⟩ := lincomb_spec row (pts.map (vadd v)) v.length (by simp [lrow, hlen]) (by simp; omega) hd'
  obtain ⟨l2, c2⟩ := lincomb_spec row pts v.length (by rw [lrow, hlen]) (by omega) hdim
  apply vec_ext_getD _ _ (by rw [l1, vadd_length v _ v.length rfl l2])
  intro j
  rw [c1 j, vadd_getD v _ v.length rfl l2 j, c2 j]
  have hcol : coordCol (pts.map (vadd v)) j = (coordCol pts j).map (fun x => v.getD j 0 + x) := by
    unfold coordCol
    rw [List.map_map, List.map_map]
    apply List.map_congr_left
    intro p hp
    simp only [Function.comp]
    exact vadd_getD v p v.length rfl (hdim p hp) j
  rw [hcol]
  have lcol : (coordCol pts j).length = c.kv.npts := by simp [coordCol, hlen]
  rw [dot_eq_sum row _ c.kv.npts lrow (by simp [lcol]), dot_eq_sum row _ c.kv.npts lrow lcol]
  have e : ∀ i ∈ range c.kv.npts, row.getD i 0 * ((coordCol pts j).map (fun x => v.getD j 0 + x)).getD i 0
      = v.getD j 0 * row.getD i 0 + row.getD i 0 * (coordCol pts j).getD i 0 := by
    intro i hi
    simp only [mem_range] at hi
    have hi' : i < (coordCol pts j).length := by omega
    simp only [List.getD_eq_getElem?_getD, List.getElem?_map, List.getElem?_eq_getElem hi', Option.map_some,
      Option.getD_some]
    ring
  rw [sum_congr rfl e, sum_add_distrib, ← mul_sum, cdbRow_sum_one c.kv g u hu]
  ring

end NV
