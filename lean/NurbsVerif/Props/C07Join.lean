/-
Props/C07Join.lean — property C07, join of two polynomial curves of equal degree: `A | B` is the junction-cleaning of
the concatenated curve (knots of A without its last `degree+1` copies followed by the knots of B; control points of A
followed by those of B), and that concatenated curve restricts to A on A's half-open interval and to B on B's.
-/
import NurbsVerif.Props.C07Split
import NurbsVerif.Proofs.WindowEnd

namespace NV
open Finset

theorem coordCol_append (pa pb : List Vec) (j : Nat) : coordCol (pa ++ pb) j = coordCol pa j ++ coordCol pb j := by
  simp [coordCol]

/-- evaluation of a polynomial curve as dot products, coordinate by coordinate -/
theorem eval_coords (c : Curve) (pts : List Vec) (d : Nat) (u : Rat) (hP : c.P = some pts) (hW : c.W = none)
    (hlen : pts.length = c.kv.npts) (hdim : ∀ q ∈ pts, q.length = d) (hwf : WF c.kv.v c.kv.deg)
    (hsep : Separated c.kv.v) (hu : c.kv.umin ≤ u ∧ u ≤ c.kv.umax) :
    ∃ v, c.eval u = .ok v ∧ v.length = d
      ∧ ∀ j, v.getD j 0 = dot (cdbRow c.kv.v c.kv.umax c.kv.npts c.kv.deg u) (coordCol pts j) := by
  have hn0 : 0 < c.kv.npts := by have := hwf.npts_gt; unfold KV.npts; omega
  refine ⟨_, C01_eval_eq_def_WF c pts u hP hwf hsep hu (by intro ws hws; rw [hW] at hws; cases hws), ?_⟩
  rw [hW]
  unfold curveDef
  simp only []
  have hrow : (cdbRow c.kv.v c.kv.umax c.kv.npts c.kv.deg u).length = pts.length := by simp [cdbRow, hlen]
  exact lincomb_spec _ pts d hrow (by omega) hdim

/-- the concatenated knot list: both operands are windows of it, and it has the degree of the operands -/
theorem concat_facts (A B : List Rat) (p : Nat) (hwa : WF A p) (hwb : WF B p) (hj : A.getLastD 0 = nth B 0) :
    let n0 := A.length - p - 1
    let V := A.take n0 ++ B
    (∀ r, r < A.length → nth A r = nth V (r + 0)) ∧ (∀ r, r < B.length → nth B r = nth V (r + n0))
      ∧ V.length = n0 + B.length ∧ cnt V (V.headD 0) = p + 1 := by
  intro n0 V
  have hla : 2 * p + 1 < A.length := hwa.npts_gt
  have hlb : 2 * p + 1 < B.length := hwb.npts_gt
  have hposA : 0 < A.length := by omega
  have hn0 : n0 = A.length - p - 1 := rfl
  have htl : (A.take n0).length = n0 := by rw [List.length_take]; omega
  have hx : A.getLastD 0 = nth A (A.length - 1) := getLastD_eq_nth A hposA
  have hsuffix : ∀ i, n0 ≤ i → i < A.length → nth A i = nth B 0 := by
    intro i h1 h2
    rw [← hj, hx]
    exact suffix_eq_last A hwa.sorted (p + 1) i (by rw [← hx]; exact hwa.last) (by omega) h2
  have hprefixB : ∀ i, i < p + 1 → nth B i = nth B 0 :=
    fun i hi => prefix_eq_head B hwb.sorted (p + 1) i (by rw [← headD_eq_nth]; exact hwb.first) hi
  have hB : ∀ r, r < B.length → nth B r = nth V (r + n0) := by
    intro r _
    show nth B r = nth (A.take n0 ++ B) (r + n0)
    rw [nth_append_right _ _ _ (by omega), htl]
    congr 1; omega
  refine ⟨?_, hB, by show (A.take n0 ++ B).length = _; rw [List.length_append, htl], ?_⟩
  · intro r hr
    show nth A r = nth (A.take n0 ++ B) (r + 0)
    by_cases c : r < n0
    · rw [Nat.add_zero, nth_append_left _ _ r (by omega)]
      unfold nth
      rw [List.getD_eq_getElem?_getD, List.getD_eq_getElem?_getD, List.getElem?_take]
      simp [c]
    · rw [Nat.add_zero, nth_append_right _ _ r (by omega), htl, hsuffix r (by omega) hr,
        hprefixB (r - n0) (by omega)]
  · -- the first value keeps its p+1 copies
    have hab : nth A 0 < A.getLastD 0 := wf_first_lt_last A p hwa
    have hhead : V.headD 0 = nth A 0 := by
      show (A.take n0 ++ B).headD 0 = _
      rw [headD_eq_nth, nth_append_left _ _ 0 (by omega)]
      unfold nth
      rw [List.getD_eq_getElem?_getD, List.getD_eq_getElem?_getD, List.getElem?_take]
      have : 0 < n0 := by omega
      simp [this]
    rw [hhead]
    show cnt (A.take n0 ++ B) (nth A 0) = p + 1
    rw [cnt_append]
    have hBz : cnt B (nth A 0) = 0 := by
      apply cnt_eq_zero_of_forall_ne
      intro y hy e
      obtain ⟨i, hi, rfl⟩ := List.mem_iff_getElem.mp hy
      have := sortedLE_mono B hwb.sorted 0 i (by omega) hi
      rw [nth_eq_getElem B i hi, e, ← hj] at this
      linarith
    have hdz : cnt (A.drop n0) (nth A 0) = 0 := by
      apply cnt_eq_zero_of_forall_ne
      intro y hy e
      obtain ⟨i, hi, rfl⟩ := List.mem_iff_getElem.mp hy
      rw [List.length_drop] at hi
      have h1 := hsuffix (n0 + i) (by omega) (by omega)
      rw [nth_eq_getElem A (n0 + i) (by omega)] at h1
      rw [List.getElem_drop] at e
      rw [e, ← hj] at h1
      linarith
    have hsplit : cnt A (nth A 0) = cnt (A.take n0) (nth A 0) + cnt (A.drop n0) (nth A 0) := by
      have := cnt_append (A.take n0) (A.drop n0) (nth A 0)
      rw [List.take_append_drop] at this
      exact this
    have hf := hwa.first
    rw [headD_eq_nth] at hf
    omega

end NV

namespace NV
open Finset

/-- **C07 (join, equal degrees, polynomial): the concatenated curve restricts to both operands** (A on its half-open
interval, B on its closed interval), and `A | B` is the
junction-cleaning (`knot_clean` at the meeting parameter, tolerance 1e-9) of that curve. -/
theorem C07_join_concat (a b J : Curve) (pa pb : List Vec) (d : Nat)
    (hPa : a.P = some pa) (hPb : b.P = some pb) (hWa : a.W = none) (hWb : b.W = none)
    (hla : pa.length = a.kv.npts) (hlb : pb.length = b.kv.npts)
    (hda : ∀ q ∈ pa, q.length = d) (hdb : ∀ q ∈ pb, q.length = d)
    (hwa : WF a.kv.v a.kv.deg) (hwb : WF b.kv.v b.kv.deg) (hdeg : a.kv.deg = b.kv.deg)
    (hsep : Separated (a.kv.v ++ b.kv.v)) (h : a.join b = .ok J) :
    ∃ cc : Curve, J = Curve.knotClean cc (some [nth b.kv.v 0]) tol9
      ∧ cc.kv.v = a.kv.v.take a.kv.npts ++ b.kv.v ∧ cc.P = some (pa ++ pb) ∧ cc.W = none
      ∧ (∀ u, a.kv.umin ≤ u → u < a.kv.umax → cc.eval u = a.eval u)
      ∧ (∀ u, b.kv.umin ≤ u → u ≤ b.kv.umax → cc.eval u = b.eval u) := by
  unfold Curve.join at h
  simp only [bind, Except.bind, pure, Except.pure] at h
  split at h
  · cases h
  · rename_i hjn
    simp only [bne_iff_ne, ne_eq, Decidable.not_not] at hjn
    have hr : max a.kv.deg b.kv.deg = a.kv.deg := by rw [hdeg]; exact Nat.max_self _
    have hsa : a.setDegree (max a.kv.deg b.kv.deg) = .ok a := by unfold Curve.setDegree; rw [hr]; simp
    have hsb : b.setDegree (max a.kv.deg b.kv.deg) = .ok b := by unfold Curve.setDegree; rw [hr, hdeg]; simp
    rw [hsa, hsb] at h
    simp only [] at h
    split at h
    · cases h
    · rename_i newk hnk
      rw [hPa, hPb, hWa, hWb] at h
      simp only [] at h
      split at h
      · cases h
      · rename_i cc hcc
        simp only [Except.ok.injEq] at h
        have hnk' : KV.mk? (a.kv.v.take a.kv.npts ++ b.kv.v) = .ok newk := hnk
        obtain ⟨hkval, hkv, hkd⟩ := mk?_ok _ newk hnk'
        have hcce := (mk?_spec _ _ _ _ hcc).1
        have hwb' : WF b.kv.v a.kv.deg := by rw [hdeg]; exact hwb
        obtain ⟨fA, fB, fL, fC⟩ := concat_facts a.kv.v b.kv.v a.kv.deg hwa hwb' hjn
        have hn0 : a.kv.v.length - a.kv.deg - 1 = a.kv.npts := rfl
        rw [hn0] at fA fB fL fC
        rw [← hkv] at fA fB fL fC
        have hkdeg : newk.deg = a.kv.deg := by rw [hkd, ← hkv, fC]; omega
        have hwfN : WF newk.v newk.deg := by
          have := isValid_WF_exact newk.v (by rw [hkv]; exact hkval)
          rw [fC] at this; rw [hkdeg]; exact this
        have hsepN : Separated newk.v := by
          apply separated_of_subset _ _ hsep
          intro y hy
          rw [hkv, List.mem_append] at hy
          rw [List.mem_append]
          rcases hy with hy | hy
          · exact Or.inl (List.mem_of_mem_take hy)
          · exact Or.inr hy
        have hsepA : Separated a.kv.v := separated_of_subset _ _ hsep (fun y hy => by simp [hy])
        have hsepB : Separated b.kv.v := separated_of_subset _ _ hsep (fun y hy => by simp [hy])
        have gN : GoodKV newk := goodKV_of_WF newk.v newk.deg hwfN hsepN
        have gA : GoodKV a.kv := goodKV_of_WF a.kv.v a.kv.deg hwa hsepA
        have gB : GoodKV b.kv := goodKV_of_WF b.kv.v b.kv.deg hwb hsepB
        have hlenA := gA.ord.len
        have hlenB := gB.ord.len
        have hlenN := gN.ord.len
        have hnptsN : newk.npts = a.kv.npts + b.kv.npts := by
          unfold KV.npts at hlenN hlenA hlenB ⊢
          rw [fL, hkdeg]; rw [← hdeg] at hlenB; omega
        have hnpA : a.kv.deg < a.kv.npts := gA.deg_lt
        have hnpB : a.kv.deg < b.kv.npts := by rw [hdeg]; exact gB.deg_lt
        -- limits of the new vector
        have huminN : newk.umin = a.kv.umin := by
          unfold KV.umin; rw [hkdeg, fA a.kv.deg (by omega)]; rfl
        have humaxN : newk.umax = b.kv.umax := by
          unfold KV.umax; rw [hnptsN, fB b.kv.npts (by omega)]; congr 1; omega
        have hjoin : a.kv.umax = b.kv.umin := by
          have e1 : a.kv.umax = a.kv.v.getLastD 0 := by
            have := umax_eq_last a.kv.v a.kv.deg hwa; unfold KV.umax KV.npts; exact this
          have e2 : b.kv.umin = nth b.kv.v 0 := umin_eq_first b.kv.v b.kv.deg hwb
          rw [e1, e2, hjn]
        have hbmono : b.kv.umin ≤ b.kv.umax := gB.ord.mono _ _ (by have := gB.deg_lt; omega) (by omega)
        have hamono : a.kv.umin ≤ a.kv.umax := gA.ord.mono _ _ (by omega) (by omega)
        have hccP : cc.P = some (pa ++ pb) := by rw [hcce]
        have hccW : cc.W = none := by rw [hcce]
        have hcck : cc.kv = newk := by rw [hcce]
        have hlenP : (pa ++ pb).length = cc.kv.npts := by rw [hcck, hnptsN, List.length_append, hla, hlb]
        have hdimP : ∀ q ∈ pa ++ pb, q.length = d := by
          intro q hq; rw [List.mem_append] at hq
          rcases hq with hq | hq
          · exact hda q hq
          · exact hdb q hq
        refine ⟨cc, h.symm, by rw [hcck, hkv], hccP, hccW, ?_, ?_⟩
        · -- A's interval
          intro u hu1 hu2
          have huN : cc.kv.umin ≤ u ∧ u ≤ cc.kv.umax := by
            rw [hcck, huminN, humaxN]
            exact ⟨hu1, le_trans (le_of_lt hu2) (by rw [hjoin]; exact hbmono)⟩
          obtain ⟨v1, e1, l1, c1⟩ := eval_coords cc (pa ++ pb) d u hccP hccW hlenP hdimP (by rw [hcck]; exact hwfN)
            (by rw [hcck]; exact hsepN) huN
          obtain ⟨v2, e2, l2, c2⟩ := eval_coords a pa d u hPa hWa hla hda hwa hsepA ⟨hu1, le_of_lt hu2⟩
          rw [e1, e2]
          congr 1
          apply vec_ext_getD _ _ (by rw [l1, l2])
          intro j
          rw [c1 j, c2 j, hcck]
          obtain ⟨sz', hs1, hs2, hin⟩ := exists_span a.kv gA u ⟨hu1, le_of_lt hu2⟩
          have hin' : nth a.kv.v sz' ≤ u ∧ u < nth a.kv.v (sz' + 1) := by
            rcases hin with hh | ⟨hh, _⟩
            · exact hh
            · exfalso; rw [hh] at hu2; exact lt_irrefl _ hu2
          have hQ : (coordCol (pa ++ pb) j).length = newk.npts := by simp [coordCol, hla, hlb, hnptsN]
          have hw := window_eval newk.v a.kv.v newk.umax a.kv.umax newk.npts a.kv.npts a.kv.deg 0
            (coordCol (pa ++ pb) j) u sz' gN.ord.mono gN.ord.le_umax (by rw [← hkdeg]; exact hlenN)
            gA.ord.mono gA.ord.le_umax hlenA fA (by rw [fL]; omega) hQ hs1 hs2 hin'
          rw [hkdeg, ← hw, coordCol_append, List.drop_zero,
            List.take_left' (by simp [coordCol, hla])]
        · -- B's interval (closed: the right end of B is the right end of the concatenated curve)
          intro u hu1 hu2
          have huN : cc.kv.umin ≤ u ∧ u ≤ cc.kv.umax := by
            rw [hcck, huminN, humaxN]
            exact ⟨le_trans hamono (by rw [hjoin]; exact hu1), hu2⟩
          obtain ⟨v1, e1, l1, c1⟩ := eval_coords cc (pa ++ pb) d u hccP hccW hlenP hdimP (by rw [hcck]; exact hwfN)
            (by rw [hcck]; exact hsepN) huN
          obtain ⟨v2, e2, l2, c2⟩ := eval_coords b pb d u hPb hWb hlb hdb hwb hsepB ⟨hu1, hu2⟩
          rw [e1, e2]
          congr 1
          apply vec_ext_getD _ _ (by rw [l1, l2])
          intro j
          rw [c1 j, c2 j, hcck]
          obtain ⟨sz', hs1, hs2, hin⟩ := exists_span b.kv gB u ⟨hu1, hu2⟩
          have hQ : (coordCol (pa ++ pb) j).length = newk.npts := by simp [coordCol, hla, hlb, hnptsN]
          rw [← hdeg] at hs1 hlenB
          have hw := window_eval_closed newk.v b.kv.v newk.umax b.kv.umax newk.npts b.kv.npts a.kv.deg a.kv.npts
            (coordCol (pa ++ pb) j) u sz' gN.ord.mono gN.ord.le_umax (by rw [← hkdeg]; exact hlenN)
            gB.ord.mono gB.ord.le_umax hlenB fB (le_of_eq fL.symm) hQ hs1 hs2 hin (fun _ => humaxN)
          rw [hkdeg, ← hdeg, ← hw, coordCol_append,
            List.drop_left' (by simp [coordCol, hla]), List.take_of_length_le (by simp [coordCol, hlb])]

end NV
