/-
Props/C11.lean — property C11: fit_curve is the L2-orthogonal projection.
Proved here: (1) the quadrature the code uses for the Gram matrices is exact on every product of two
span polynomials of the degrees involved, so the Gram entries *are* the L2 inner products; (2) the
control-point matrix `T` solves the normal equations `GG · T = GF` with a checked inverse.  Together:
the residual is L2-orthogonal to the target basis.  The assembly over spans and the error identity are
validated per input with exact integrals (oracle `rf.inner` / `rf.sqdist`).
-/
import NurbsVerif.Props.C10
import NurbsVerif.Props.C12

namespace NV

theorem length_padd (p r : Poly) : (padd p r).length = max p.length r.length := by
  induction p generalizing r with
  | nil => simp
  | cons x p ih => cases r with
    | nil => simp
    | cons y r => simp [padd, ih r]

theorem length_pmul_le (p q : Poly) : (pmul p q).length ≤ p.length + q.length := by
  induction p with
  | nil => simp [pmul]
  | cons a p ih =>
    simp only [pmul, length_padd, pscale, List.length_map, List.length_cons]
    omega

/-- **C11 (Gram entries are L2 inner products).**  On a span `[a, b]` the rule the code uses — `n = 2·max(p, q) + 1`
open Newton–Cotes nodes, scaled by the span length — integrates the product of two span polynomials with at most
`p + 1` and `q + 1` coefficients exactly (for `n ≤ 16`, i.e. degrees up to 7). -/
theorem C11_gram_entry_exact (n : Nat) (h1 : 1 ≤ n) (h16 : n ≤ 16) (w : List Rat) (hw : openRule? n = some w)
    (f g : Poly) (hfg : f.length + g.length ≤ n) (a b : Rat) :
    (b - a) * quad w (openLinspace n) (fun x => horner f (a + (b - a) * x) * horner g (a + (b - a) * x))
      = (b - a) * pintegral (pcompLin (pmul f g) a (b - a)) 0 1 := by
  have := C10_span_integral n h1 h16 w hw (pmul f g) (le_trans (length_pmul_le f g) hfg) a b
  simpa [horner_pmul] using this

/-- **C11 (normal equations).**  With the checked inverse `GGinv` of the Gram matrix of the target basis, the
transformation `T = GGinv · GF` that `func2func` returns satisfies `GG · T = GF`: for every source control
point vector `P`, `<G_i, Σ_k (T P)_k G_k> = <G_i, Σ_j P_j F_j>` — the residual is orthogonal to every `G_i`. -/
theorem C11_normal_equations (GG GGinv GF : Mat) (n m : Nat) (hGG : Shaped GG n n) (hinv : Shaped GGinv n n)
    (hGF : Shaped GF n m) (hn : 0 < n) (h : invertChecked? GG = some GGinv) :
    toM n n GG * toM n m (matMul GGinv GF) = toM n m GF := by
  have hchk := invertChecked_spec GG GGinv h
  rw [hGG.1] at hchk
  exact gram_normal_equations GG GGinv GF n m hGG hinv hGF hn hchk

/-- reproduction: when the source already lies in the target space its Gram data satisfy `GF = GG · R` for the
representation matrix `R`; then `T = R` (the fit returns the curve itself) -/
theorem C11_reproduces (GG GGinv R : Mat) (n m : Nat) (hGG : Shaped GG n n) (hinv : Shaped GGinv n n)
    (hR : Shaped R n m) (hn : 0 < n) (hleft : matMul GGinv GG = identity n) :
    toM n m (matMul GGinv (matMul GG R)) = toM n m R := by
  have hGR : Shaped (matMul GG R) n m := matMul_shaped _ _ n n m hGG hR hn
  rw [toM_matMul GGinv (matMul GG R) n n m hinv hGR hn, toM_matMul GG R n n m hGG hR hn, ← Matrix.mul_assoc]
  have := toM_matMul GGinv GG n n n hinv hGG hn
  rw [hleft, toM_identity] at this
  rw [← this, Matrix.one_mul]

end NV
