/-
Props/Oracles.lean — the theorems behind the validated oracles (`rf.eq`, `rf.rel`, `rf.map`,
`rf.integral`, …) that several properties share (C04–C09, C11, C13, C14, C17): what the span
polynomials of a curve are, and that comparing / combining them decides the pointwise statement for
*every* parameter of the span.
-/
import NurbsVerif.Proofs.Decide
import NurbsVerif.Proofs.Pieces

namespace NV

/-- **numerator of a span piece** = `Σ_i w_i P_i[d] N_{i,p}(u)` (the sum runs over the `p+1` functions
alive on the span) -/
theorem oracle_numerator (k : KV) (t : Table) (pts : List Vec) (W : Option (List Rat)) (dim z d : Nat) (u : Rat)
    (hd : d < dim) (h : PieceOK k t z) :
    horner ((pieceOf k t pts W dim z).num.getD d []) u
      = ((List.range (k.deg + 1)).map fun y =>
          (wOf W (y + t.spans.getD z 0 - k.deg) * nth (pts.getD (y + t.spans.getD z 0 - k.deg) []) d)
            * cdbSpan (nth k.v) (t.spans.getD z 0) (y + t.spans.getD z 0 - k.deg) k.deg u).sum :=
  pieceOf_num k t pts W dim z d u hd h

/-- **denominator of a span piece** = `Σ_i w_i N_{i,p}(u)` (1 for polynomial curves) -/
theorem oracle_denominator (k : KV) (t : Table) (pts : List Vec) (W : Option (List Rat)) (dim z : Nat) (u : Rat)
    (h : PieceOK k t z) :
    horner (pieceOf k t pts W dim z).den u
      = match W with
        | none => 1
        | some _ => ((List.range (k.deg + 1)).map fun y =>
            wOf W (y + t.spans.getD z 0 - k.deg)
              * cdbSpan (nth k.v) (t.spans.getD z 0) (y + t.spans.getD z 0 - k.deg) k.deg u).sum :=
  pieceOf_den k t pts W dim z u h

/-- **soundness of `eqv`**: accepted pieces are equal at every parameter (cross-multiplied rational functions) -/
theorem oracle_eq_sound (x y : Piece) (h : x.eqv y = true) (d : Nat) (hd : d < x.num.length) (u : Rat)
    (hx : horner x.den u ≠ 0) (hy : horner y.den u ≠ 0) : x.val d u = y.val d u :=
  Piece.eqv_sound x y h d hd u hx hy

/-- **completeness of `eqv`**: pieces that agree on a non-degenerate interval are accepted — so a "no" answer
of the oracle means the two curves really differ somewhere on that span -/
theorem oracle_eq_complete (x y : Piece) (hlen : x.num.length = y.num.length) (a b : Rat) (hab : a < b)
    (hx : ∀ u, a ≤ u → u ≤ b → horner x.den u ≠ 0) (hy : ∀ u, a ≤ u → u ≤ b → horner y.den u ≠ 0)
    (h : ∀ d, d < x.num.length → ∀ u, a ≤ u → u ≤ b → x.val d u = y.val d u) : x.eqv y = true :=
  Piece.eqv_complete x y hlen a b hab hx hy h

/-- pointwise sum / negation / product / scalar multiple / quotient of pieces -/
theorem oracle_add (x y : Piece) (h : x.num.length = y.num.length) (d : Nat) (hd : d < x.num.length) (u : Rat)
    (hx : horner x.den u ≠ 0) (hy : horner y.den u ≠ 0) : (x.add y).val d u = x.val d u + y.val d u :=
  Piece.add_val x y h d hd u hx hy

theorem oracle_neg (x : Piece) (d : Nat) (hd : d < x.num.length) (u : Rat) : (x.neg).val d u = - x.val d u :=
  Piece.neg_val x d hd u

theorem oracle_mul (x y : Piece) (h : x.num.length = y.num.length) (d : Nat) (hd : d < x.num.length) (u : Rat)
    (hx : horner x.den u ≠ 0) (hy : horner y.den u ≠ 0) : (x.mul y).val d u = x.val d u * y.val d u :=
  Piece.mul_val x y h d hd u hx hy

theorem oracle_scale (s : Rat) (x : Piece) (d : Nat) (hd : d < x.num.length) (u : Rat) :
    (Piece.scale s x).val d u = s * x.val d u := Piece.scale_val s x d hd u

theorem oracle_div (x y : Piece) (d : Nat) (hd : d < x.num.length) (u : Rat)
    (hx : horner x.den u ≠ 0) (hy : horner y.den u ≠ 0) (hn : horner (y.num.headD []) u ≠ 0) :
    (x.div y).val d u = x.val d u / (horner (y.num.headD []) u / horner y.den u) :=
  Piece.div_val x y d hd u hx hy hn

end NV
