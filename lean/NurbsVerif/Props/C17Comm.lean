/-
Props/C17Comm.lean — property C17: `U | V` and `U & V` are commutative (knot values of both operands separated).
-/
import NurbsVerif.Props.C17
import NurbsVerif.Proofs.SplitRefine

namespace NV

theorem knots_subset (k : KV) (y : Rat) (hy : y ∈ k.knots) : y ∈ k.v := by
  unfold KV.knots at hy
  exact List.mem_of_mem_drop (List.mem_of_mem_take (mem_getUnique_subset _ y hy))

theorem getUnique_mem_iff (xs full : List Rat) (hsub : ∀ x ∈ xs, x ∈ full) (hsep : Separated full) (x : Rat) :
    x ∈ getUnique xs ↔ x ∈ xs :=
  ⟨mem_getUnique_subset xs x, mem_getUnique_of_separated xs full hsub hsep x⟩

theorem getUnique_sorted (xs : List Rat) : sortedLE (getUnique xs) = true := by
  unfold getUnique; exact sortedLE_isort _

theorem getUnique_append_comm (A B full : List Rat) (hA : ∀ x ∈ A, x ∈ full) (hB : ∀ x ∈ B, x ∈ full)
    (hsep : Separated full) : getUnique (A ++ B) = getUnique (B ++ A) := by
  apply sorted_nodup_ext _ _ (getUnique_sorted _) (getUnique_sorted _) (getUnique_nodup _) (getUnique_nodup _)
  intro x
  have h1 : ∀ y ∈ A ++ B, y ∈ full := by
    intro y hy; rw [List.mem_append] at hy; rcases hy with h | h
    · exact hA y h
    · exact hB y h
  have h2 : ∀ y ∈ B ++ A, y ∈ full := by
    intro y hy; rw [List.mem_append] at hy; rcases hy with h | h
    · exact hB y h
    · exact hA y h
  rw [getUnique_mem_iff _ full h1 hsep, getUnique_mem_iff _ full h2 hsep, List.mem_append, List.mem_append]
  exact Or.comm

/-- **C17: `U | V = V | U`.** -/
theorem C17_union_comm (a b : KV) (hsep : Separated (a.v ++ b.v)) : a.union b = b.union a := by
  have hk : getUnique (a.knots ++ b.knots) = getUnique (b.knots ++ a.knots) :=
    getUnique_append_comm a.knots b.knots (a.v ++ b.v)
      (fun x hx => by rw [List.mem_append]; exact Or.inl (knots_subset a x hx))
      (fun x hx => by rw [List.mem_append]; exact Or.inr (knots_subset b x hx)) hsep
  have hl : (a.limits != b.limits) = (b.limits != a.limits) := bne_comm
  have hall : ∀ K : List Rat, ((a.v ++ b.v).all fun x => (indexOf? x K).isSome)
      = ((b.v ++ a.v).all fun x => (indexOf? x K).isSome) := by
    intro K; rw [List.all_append, List.all_append, Bool.and_comm]
  unfold KV.union
  simp only []
  rw [hl, hk, Nat.max_comm a.deg b.deg, hall]
  have hm : ∀ kn : Rat,
      max (if a.v.any (· == kn) then a.multSingle kn + max b.deg a.deg - a.deg else 0)
          (if b.v.any (· == kn) then b.multSingle kn + max b.deg a.deg - b.deg else 0)
      = max (if b.v.any (· == kn) then b.multSingle kn + max b.deg a.deg - b.deg else 0)
          (if a.v.any (· == kn) then a.multSingle kn + max b.deg a.deg - a.deg else 0) :=
    fun kn => Nat.max_comm _ _
  simp only [hm]

end NV
