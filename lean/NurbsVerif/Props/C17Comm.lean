/-
Props/C17Comm.lean — property C17: `U | V` and `U & V` are commutative (knot values of both operands separated).
-/
import NurbsVerif.Props.C17
import NurbsVerif.Proofs.SplitRefine
import NurbsVerif.Props.C17Refine
import NurbsVerif.Props.C08Union

namespace NV

theorem knots_subset (k : KV) (y : Rat) (hy : y ∈ k.knots) : y ∈ k.v := by
  unfold KV.knots at hy
  exact List.mem_of_mem_drop (List.mem_of_mem_take (mem_getUnique_subset _ y hy))

theorem getUnique_mem_iff (xs full : List Rat) (hsub : ∀ x ∈ xs, x ∈ full) (hsep : Separated full) (x : Rat) :
    x ∈ getUnique xs ↔ x ∈ xs :=
  ⟨mem_getUnique_subset xs x, mem_getUnique_of_separated xs full hsub hsep x⟩

theorem getUnique_sorted (xs : List Rat) : sortedLE (getUnique xs) = true := by
  unfold getUnique; exact sortedLE_isort _

theorem getUnique_append_comm (A B full : List Rat) (hA : ∀ x ∈ A, x ∈ full) (hB : ∀ x ∈ B, x ∈ full)
    (hsep : Separated full) : getUnique (A ++ B) = getUnique (B ++ A) := by
  apply sorted_nodup_ext _ _ (getUnique_sorted _) (getUnique_sorted _) (getUnique_nodup _) (getUnique_nodup _)
  intro x
  have h1 : ∀ y ∈ A ++ B, y ∈ full := by
    intro y hy; rw [List.mem_append] at hy; rcases hy with h | h
    · exact hA y h
    · exact hB y h
  have h2 : ∀ y ∈ B ++ A, y ∈ full := by
    intro y hy; rw [List.mem_append] at hy; rcases hy with h | h
    · exact hB y h
    · exact hA y h
  rw [getUnique_mem_iff _ full h1 hsep, getUnique_mem_iff _ full h2 hsep, List.mem_append, List.mem_append]
  exact Or.comm

/-- **C17: `U | V = V | U`.** -/
theorem C17_union_comm (a b : KV) (hsep : Separated (a.v ++ b.v)) : a.union b = b.union a := by
  have hk : getUnique (a.knots ++ b.knots) = getUnique (b.knots ++ a.knots) :=
    getUnique_append_comm a.knots b.knots (a.v ++ b.v)
      (fun x hx => by rw [List.mem_append]; exact Or.inl (knots_subset a x hx))
      (fun x hx => by rw [List.mem_append]; exact Or.inr (knots_subset b x hx)) hsep
  have hl : (a.limits != b.limits) = (b.limits != a.limits) := bne_comm
  have hall : ∀ K : List Rat, ((a.v ++ b.v).all fun x => (indexOf? x K).isSome)
      = ((b.v ++ a.v).all fun x => (indexOf? x K).isSome) := by
    intro K; rw [List.all_append, List.all_append, Bool.and_comm]
  unfold KV.union
  simp only []
  rw [hl, hk, Nat.max_comm a.deg b.deg, hall]
  have hm : ∀ kn : Rat,
      max (if a.v.any (· == kn) then a.multSingle kn + max b.deg a.deg - a.deg else 0)
          (if b.v.any (· == kn) then b.multSingle kn + max b.deg a.deg - b.deg else 0)
      = max (if b.v.any (· == kn) then b.multSingle kn + max b.deg a.deg - b.deg else 0)
          (if a.v.any (· == kn) then a.multSingle kn + max b.deg a.deg - a.deg else 0) :=
    fun kn => Nat.max_comm _ _
  simp only [hm]

/-- **C17: `U & V = V & U`** (no hypothesis at all: the common knots are compared exactly). -/
theorem C17_inter_comm (a b : KV) : a.inter b = b.inter a := by
  have hk : isort ((dedup a.knots).filter fun x => b.knots.any (· == x))
      = isort ((dedup b.knots).filter fun x => a.knots.any (· == x)) := by
    apply sorted_nodup_ext _ _ (sortedLE_isort _) (sortedLE_isort _)
      (isort_nodup _ ((dedup_nodup _).sublist List.filter_sublist))
      (isort_nodup _ ((dedup_nodup _).sublist List.filter_sublist))
    intro x
    rw [mem_isort, mem_isort, List.mem_filter, List.mem_filter, mem_dedup, mem_dedup]
    simp only [List.any_eq_true, beq_iff_eq]
    constructor
    · rintro ⟨h1, y, hy, rfl⟩; exact ⟨hy, y, h1, rfl⟩
    · rintro ⟨h1, y, hy, rfl⟩; exact ⟨hy, y, h1, rfl⟩
  have hl : (a.limits != b.limits) = (b.limits != a.limits) := bne_comm
  unfold KV.inter
  simp only []
  rw [hl, hk]
  have hm : ∀ kn : Rat, min (a.multSingle kn) (b.multSingle kn) = min (b.multSingle kn) (a.multSingle kn) :=
    fun kn => Nat.min_comm _ _
  simp only [hm]

theorem indexOf?_isSome_of_mem (x : Rat) : ∀ (l : List Rat), x ∈ l → (indexOf? x l).isSome = true
  | [], h => by simp at h
  | y :: ys, h => by
    simp only [indexOf?]
    by_cases e : y = x
    · simp [e]
    · have : (y == x) = false := by simpa using e
      simp only [this, Bool.false_eq_true, if_false, Option.isSome_map]
      rcases List.mem_cons.mp h with h | h
      · exact absurd h.symm e
      · exact indexOf?_isSome_of_mem x ys h

/-- **C17: `U | U = U`** (well-formed vector, separated knot values). -/
theorem C17_union_idem (a : KV) (hwf : WF a.v a.deg) (hsep : Separated a.v) : a.union a = .ok a := by
  have g : GoodKV a := goodKV_of_WF a.v a.deg hwf hsep
  have hK : getUnique (a.knots ++ a.knots) = a.knots := by
    apply sorted_nodup_ext _ _ (getUnique_sorted _) (knots_sorted a) (getUnique_nodup _) (knots_nodup a)
    intro x
    rw [getUnique_mem_iff (a.knots ++ a.knots) a.v
      (fun y hy => by rw [List.mem_append] at hy; rcases hy with h | h <;> exact knots_subset a y h) hsep]
    simp
  unfold KV.union
  simp only []
  rw [hK, Nat.max_self]
  have h1 : (a.limits != a.limits) = false := by simp
  have h2 : ((a.v ++ a.v).all fun x => (indexOf? x a.knots).isSome) = true := by
    rw [List.all_eq_true]
    intro x hx
    rw [List.mem_append] at hx
    have hxv : x ∈ a.v := by rcases hx with h | h <;> exact h
    exact indexOf?_isSome_of_mem x a.knots (mem_v_mem_knots a g hwf x hxv)
  rw [h1, h2]
  simp only [Bool.false_eq_true, if_false, Bool.not_true]
  -- the rebuilt list is the vector itself
  have hmult : ∀ kn ∈ a.knots, (max (if a.v.any (· == kn) then a.multSingle kn + a.deg - a.deg else 0)
      (if a.v.any (· == kn) then a.multSingle kn + a.deg - a.deg else 0)) = cnt a.v kn := by
    intro kn hkn
    have hin : a.v.any (· == kn) = true := by
      rw [List.any_eq_true]; exact ⟨kn, knots_subset a kn hkn, by simp⟩
    rw [hin, Nat.max_self]
    simp only [if_true, Nat.add_sub_cancel]
    apply mult_spec
    intro y hy
    by_cases e : y = kn
    · exact Or.inl e
    · right
      exact le_trans tol9_le_tol6 (hsep kn (knots_subset a kn hkn) y hy (fun c => e c.symm))
  have hlist : isort (KV.replicateKnots a.knots (a.knots.map fun kn =>
      max (if a.v.any (· == kn) then a.multSingle kn + a.deg - a.deg else 0)
        (if a.v.any (· == kn) then a.multSingle kn + a.deg - a.deg else 0))) = a.v := by
    apply sorted_eq_of_cnt _ _ (sortedLE_isort _) hwf.sorted
    intro x
    rw [cnt_isort]
    by_cases hx : x ∈ a.knots
    · obtain ⟨i, hi, rfl⟩ := List.mem_iff_getElem.mp hx
      rw [cnt_replicateKnots _ _ (knots_nodup a) (by simp) i hi]
      simp only [List.getElem_map]
      exact hmult _ (List.getElem_mem hi)
    · have h0 : cnt a.v x = 0 := by
        apply cnt_eq_zero_of_forall_ne
        intro y hy e
        exact hx (e ▸ mem_v_mem_knots a g hwf y hy)
      rw [h0]
      apply cnt_eq_zero_of_forall_ne
      intro y hy e
      have := mem_replicateKnots _ _ y hy
      exact hx (e ▸ this)
  rw [hlist]
  exact mk?_of_wf a hwf

/-- **C17: `U & U = U`** (well-formed vector, separated knot values). -/
theorem C17_inter_idem (a : KV) (hwf : WF a.v a.deg) (hsep : Separated a.v) : a.inter a = .ok a := by
  have g : GoodKV a := goodKV_of_WF a.v a.deg hwf hsep
  have hK : isort ((dedup a.knots).filter fun x => a.knots.any (· == x)) = a.knots := by
    apply sorted_nodup_ext _ _ (sortedLE_isort _) (knots_sorted a)
      (isort_nodup _ ((dedup_nodup _).sublist List.filter_sublist)) (knots_nodup a)
    intro x
    rw [mem_isort, List.mem_filter, mem_dedup]
    simp only [List.any_eq_true, beq_iff_eq]
    constructor
    · exact fun h => h.1
    · exact fun h => ⟨h, x, h, rfl⟩
  unfold KV.inter
  simp only []
  rw [hK]
  have h1 : (a.limits != a.limits) = false := by simp
  rw [h1]
  simp only [Bool.false_eq_true, if_false, Nat.min_self]
  have hmult : ∀ kn ∈ a.knots, a.multSingle kn = cnt a.v kn := by
    intro kn hkn
    apply mult_spec
    intro y hy
    by_cases e : y = kn
    · exact Or.inl e
    · right
      exact le_trans tol9_le_tol6 (hsep kn (knots_subset a kn hkn) y hy (fun c => e c.symm))
  have hlist : isort (KV.replicateKnots a.knots (a.knots.map fun kn => a.multSingle kn)) = a.v := by
    apply sorted_eq_of_cnt _ _ (sortedLE_isort _) hwf.sorted
    intro x
    rw [cnt_isort]
    by_cases hx : x ∈ a.knots
    · obtain ⟨i, hi, rfl⟩ := List.mem_iff_getElem.mp hx
      rw [cnt_replicateKnots _ _ (knots_nodup a) (by simp) i hi]
      simp only [List.getElem_map]
      exact hmult _ (List.getElem_mem hi)
    · have h0 : cnt a.v x = 0 := by
        apply cnt_eq_zero_of_forall_ne
        intro y hy e
        exact hx (e ▸ mem_v_mem_knots a g hwf y hy)
      rw [h0]
      apply cnt_eq_zero_of_forall_ne
      intro y hy e
      have := mem_replicateKnots _ _ y hy
      exact hx (e ▸ this)
  rw [hlist]
  exact mk?_of_wf a hwf

end NV
