/-
Props/C18Gen.lean — property C18, the generators `integer(p, n)` and `weight(p, ws)` for every degree, every number of
control points and every list of positive weights:

* `clamped_mk`          — `a^(p+1) · mid · b^(p+1)` with `a < mid < b` strictly increasing is accepted by the validating
                          constructor with degree `p` and is well formed (the shape every generator produces);
* `C18_weight_spec`     — `weight(p, ws)` succeeds, has degree `p`, `npts = p + len(ws)`, is clamped on `[0, Σ ws]`, every
                          interior knot is simple, and consecutive knots differ by the weights;
* `C18_integer_spec`    — `integer(p, n)` (for `p < n`) is `weight(p, [1, …, 1])`: degree `p`, `npts = n`, knots `0, 1, …, n − p`.
-/
import NurbsVerif.Props.C18
import NurbsVerif.Proofs.SortedLists
import NurbsVerif.Proofs.Dedup

namespace NV

theorem cnt_strict_le_one (l : List Rat) (h : l.Pairwise (· < ·)) (x : Rat) : cnt l x ≤ 1 := by
  rw [cnt_eq_count]
  have hnd : l.Nodup := h.imp (fun hab => ne_of_lt hab)
  rw [hnd.count]
  split <;> omega

theorem cnt_strict_mem (l : List Rat) (h : l.Pairwise (· < ·)) (x : Rat) (hx : x ∈ l) : cnt l x = 1 := by
  rw [cnt_eq_count]
  have hnd : l.Nodup := h.imp (fun hab => ne_of_lt hab)
  rw [hnd.count, if_pos hx]

theorem cnt_not_mem (l : List Rat) (x : Rat) (hx : x ∉ l) : cnt l x = 0 := by
  rw [cnt_eq_count]; exact List.count_eq_zero_of_not_mem hx

/-- **the clamped shape is accepted**: `a^(p+1) · mid · b^(p+1)`, `a < mid < b`, `mid` strictly increasing -/
theorem clamped_mk (p : Nat) (a b : Rat) (mid : List Rat) (hab : a < b) (hmid : mid.Pairwise (· < ·))
    (hlo : ∀ x ∈ mid, a < x) (hhi : ∀ x ∈ mid, x < b) :
    KV.mk? (List.replicate (p + 1) a ++ mid ++ List.replicate (p + 1) b)
        = .ok ⟨List.replicate (p + 1) a ++ mid ++ List.replicate (p + 1) b, p⟩
      ∧ WF (List.replicate (p + 1) a ++ mid ++ List.replicate (p + 1) b) p
      ∧ (∀ x, x ≠ a → x ≠ b → cnt (List.replicate (p + 1) a ++ mid ++ List.replicate (p + 1) b) x ≤ 1) := by
  set v := List.replicate (p + 1) a ++ mid ++ List.replicate (p + 1) b with hv
  have hne : a ≠ b := ne_of_lt hab
  have hhead : v.headD 0 = a := by simp [hv, List.replicate_succ]
  have hlast : v.getLastD 0 = b := by
    have e : v = (List.replicate (p + 1) a ++ mid ++ List.replicate p b) ++ [b] := by
      rw [hv, List.replicate_succ' (n := p) (a := b)]; simp [List.append_assoc]
    rw [e]
    simp [List.getLastD_eq_getLast?]
  have ha_mid : a ∉ mid := fun h => lt_irrefl a (hlo a h)
  have hb_mid : b ∉ mid := fun h => lt_irrefl b (hhi b h)
  have c0 : cnt v a = p + 1 := by
    rw [hv, cnt_append, cnt_append, cnt_replicate_self, cnt_replicate_ne _ _ _ hne.symm, cnt_not_mem mid a ha_mid]
  have c1 : cnt v b = p + 1 := by
    rw [hv, cnt_append, cnt_append, cnt_replicate_self, cnt_replicate_ne _ _ _ hne, cnt_not_mem mid b hb_mid]; omega
  have cx : ∀ x, x ≠ a → x ≠ b → cnt v x ≤ 1 := by
    intro x hxa hxb
    rw [hv, cnt_append, cnt_append, cnt_replicate_ne _ _ _ (Ne.symm hxa), cnt_replicate_ne _ _ _ (Ne.symm hxb)]
    have := cnt_strict_le_one mid hmid x
    omega
  have hsorted : sortedLE v = true := by
    rw [hv]
    apply sortedLE_append
    · apply sortedLE_append
      · exact sortedLE_replicate' _ _
      · exact sortedLE_of_pairwise mid (hmid.imp le_of_lt)
      · intro x hx y hy
        rw [List.eq_of_mem_replicate hx]; exact le_of_lt (hlo y hy)
    · exact sortedLE_replicate' _ _
    · intro x hx y hy
      rw [List.eq_of_mem_replicate hy]
      rcases List.mem_append.mp hx with h | h
      · rw [List.eq_of_mem_replicate h]; exact le_of_lt hab
      · exact le_of_lt (hhi x h)
  have hwf : WF v p := by
    refine ⟨hsorted, by rw [hhead]; exact c0, by rw [hlast]; exact c1, by simp [hv]; omega, ?_⟩
    intro x _
    by_cases hxa : x = a
    · rw [hxa, c0]
    · by_cases hxb : x = b
      · rw [hxb, c1]
      · have := cx x hxa hxb; omega
  have hd : p = cnt v (v.headD 0) - 1 := by rw [hhead, c0]; omega
  have hval := WF_isValid v p hd hwf
  refine ⟨?_, hwf, cx⟩
  simp only [KV.mk?, hval, if_true]
  rw [← hd]

/-! ### partial sums -/

theorem cumsum_length (acc : Rat) (ws : List Rat) : (Gen.cumsum acc ws).length = ws.length := by
  induction ws generalizing acc with
  | nil => rfl
  | cons w ws ih => simp [Gen.cumsum, ih]

/-- partial sums of positive numbers are strictly increasing and stay above the start -/
theorem cumsum_strict (acc : Rat) (ws : List Rat) (hpos : ∀ w ∈ ws, 0 < w) :
    (Gen.cumsum acc ws).Pairwise (· < ·) ∧ ∀ x ∈ Gen.cumsum acc ws, acc < x := by
  induction ws generalizing acc with
  | nil => simp [Gen.cumsum]
  | cons w ws ih =>
    have hw : 0 < w := hpos w (by simp)
    obtain ⟨h1, h2⟩ := ih (acc + w) (fun x hx => hpos x (by simp [hx]))
    simp only [Gen.cumsum]
    refine ⟨List.pairwise_cons.mpr ⟨fun x hx => h2 x hx, h1⟩, ?_⟩
    intro x hx
    rcases List.mem_cons.mp hx with rfl | hx
    · linarith
    · have := h2 x hx; linarith

/-- consecutive partial sums differ by the weights -/
theorem cumsum_spacing (acc : Rat) (ws : List Rat) (i : Nat) (hi : i < ws.length) :
    nth (acc :: Gen.cumsum acc ws) (i + 1) - nth (acc :: Gen.cumsum acc ws) i = nth ws i := by
  induction ws generalizing acc i with
  | nil => simp at hi
  | cons w ws ih =>
    cases i with
    | zero => simp [Gen.cumsum, nth]
    | succ i =>
      have := ih (acc + w) i (by simpa using hi)
      simpa [Gen.cumsum, nth] using this

/-- **C18 (`weight`).**  For every degree and every non-empty list of positive weights, `weight(p, ws)` succeeds with
degree `p`, `npts = p + len(ws)`, the knots `0, w₁, w₁ + w₂, …` (spacing = the weights), clamped ends, simple interior
knots. -/
theorem C18_weight_spec (p : Nat) (ws : List Rat) (hne : ws ≠ []) (hpos : ∀ w ∈ ws, 0 < w) :
    ∃ k, Gen.weight p ws = .ok k ∧ k.deg = p ∧ k.npts = p + ws.length ∧ WF k.v p
      ∧ k.v = List.replicate p 0 ++ (0 :: Gen.cumsum 0 ws) ++ List.replicate p ((0 :: Gen.cumsum 0 ws).getLastD 0)
      ∧ k.v.headD 0 = 0
      ∧ (∀ x, x ≠ 0 → x ≠ (0 :: Gen.cumsum 0 ws).getLastD 0 → cnt k.v x ≤ 1)
      ∧ (∀ i, i < ws.length → nth (0 :: Gen.cumsum 0 ws) (i + 1) - nth (0 :: Gen.cumsum 0 ws) i = nth ws i) := by
  obtain ⟨hstrict, habove⟩ := cumsum_strict 0 ws hpos
  have hempty : ws.isEmpty = false := by rw [List.isEmpty_eq_false_iff]; exact hne
  have hcne : Gen.cumsum 0 ws ≠ [] := by
    intro h
    have := cumsum_length 0 ws
    rw [h] at this
    exact hne (List.length_eq_zero_iff.mp this.symm)
  set cs := Gen.cumsum 0 ws with hcs
  set b := cs.getLast hcne with hb
  set mid := cs.dropLast with hmidd
  have hsplit : cs = mid ++ [b] := (List.dropLast_append_getLast hcne).symm
  have hlastD : (0 :: cs).getLastD 0 = b := by
    have e : (0 : Rat) :: cs = (0 :: mid) ++ [b] := by rw [hsplit]; rfl
    rw [e, List.getLastD_concat]
  have hpw : (mid ++ [b]).Pairwise (· < ·) := by rw [← hsplit]; exact hstrict
  have hmidpw : mid.Pairwise (· < ·) := (List.pairwise_append.mp hpw).1
  have hhi : ∀ x ∈ mid, x < b := fun x hx => (List.pairwise_append.mp hpw).2.2 x hx b (by simp)
  have hlo : ∀ x ∈ mid, (0 : Rat) < x := fun x hx => habove x (by rw [hsplit]; simp [hx])
  have hb0 : (0 : Rat) < b := habove b (by rw [hsplit]; simp)
  have hshape : List.replicate p (0 : Rat) ++ (0 :: cs) ++ List.replicate p b
      = List.replicate (p + 1) 0 ++ mid ++ List.replicate (p + 1) b := by
    rw [hsplit, List.replicate_succ' (n := p) (a := (0 : Rat)), List.replicate_succ (n := p) (a := b)]
    simp only [List.append_assoc, List.cons_append, List.nil_append]
  obtain ⟨hmk, hwf, hsimple⟩ := clamped_mk p 0 b mid hb0 hmidpw hlo hhi
  refine ⟨⟨List.replicate (p + 1) 0 ++ mid ++ List.replicate (p + 1) b, p⟩, ?_, rfl, ?_, hwf, ?_, ?_, ?_, ?_⟩
  · unfold Gen.weight
    simp only [hempty, Bool.false_eq_true, if_false]
    rw [hlastD, hshape]
    exact hmk
  · have hl : mid.length + 1 = ws.length := by
      have := congrArg List.length hsplit
      rw [cumsum_length] at this
      simpa using this.symm
    simp [KV.npts]; omega
  · rw [hlastD, hshape]
  · simp [List.replicate_succ]
  · intro x hx0 hxb
    rw [hlastD] at hxb
    exact hsimple x hx0 hxb
  · intro i hi
    exact cumsum_spacing 0 ws i hi

/-! ### `integer` is `weight` of ones -/

theorem cumsum_ones (acc : Rat) (n : Nat) :
    Gen.cumsum acc (List.replicate n 1) = (List.range n).map fun (i : Nat) => acc + ((i + 1 : Nat) : Rat) := by
  induction n generalizing acc with
  | zero => rfl
  | succ n ih =>
    rw [List.replicate_succ, Gen.cumsum, ih (acc + 1), List.range_succ_eq_map, List.map_cons, List.map_map]
    congr 1
    all_goals first
      | (apply List.map_congr_left; intro i _; simp only [Function.comp]; push_cast; ring)
      | (push_cast; ring)
      | simp

theorem range_cast_eq (m : Nat) :
    (List.range (m + 2)).map (fun (i : Nat) => ((i : Nat) : Rat)) = 0 :: Gen.cumsum 0 (List.replicate (m + 1) 1) := by
  rw [cumsum_ones, List.range_succ_eq_map, List.map_cons, List.map_map]
  congr 1
  all_goals first
    | (apply List.map_congr_left; intro i _; simp only [Function.comp]; push_cast; ring)
    | (push_cast; ring)
    | simp

theorem last_cumsum_ones (m : Nat) :
    (0 :: Gen.cumsum 0 (List.replicate (m + 1) 1)).getLastD 0 = ((m + 1 : Nat) : Rat) := by
  rw [cumsum_ones, List.range_succ, List.map_append]
  have e : ∀ (A : List Rat) (x : Rat), (0 : Rat) :: (A ++ [x]) = (0 :: A) ++ [x] := fun _ _ => rfl
  simp only [List.map_cons, List.map_nil]
  rw [e, List.getLastD_concat]
  simp

/-- **C18 (`integer`).**  For `p < n`, `integer(p, n)` is `weight(p, [1, …, 1])` with `n − p` ones: degree `p`,
`npts = n`, knots `0, 1, …, n − p` with unit spacing, clamped ends, simple interior knots (all by `C18_weight_spec`). -/
theorem C18_integer_is_weight (p n : Nat) (h : p < n) :
    Gen.integer p n = Gen.weight p (List.replicate (n - p) 1) := by
  obtain ⟨m, rfl⟩ : ∃ m, n = p + m + 1 := ⟨n - p - 1, by omega⟩
  have e1 : p + m + 1 - p - 1 = m := by omega
  have e2 : p + m + 1 - p = m + 1 := by omega
  have e3 : m + 1 - 1 = m := by omega
  unfold Gen.integer Gen.weight
  have hlt : (p < p + m + 1) = True := by simp
  simp only [e2, e3, hlt, decide_true, Bool.not_true, Bool.false_eq_true, if_false, List.isEmpty_replicate]
  have hz : (decide (m + 1 = 0)) = false := by simp
  simp only [hz, Bool.false_eq_true, if_false]
  rw [range_cast_eq m, last_cumsum_ones m]

theorem C18_integer_spec (p n : Nat) (h : p < n) :
    ∃ k, Gen.integer p n = .ok k ∧ k.deg = p ∧ k.npts = n ∧ WF k.v p ∧ k.v.headD 0 = 0 := by
  obtain ⟨k, hk, hd, hn, hwf, _, hh, _, _⟩ := C18_weight_spec p (List.replicate (n - p) 1)
    (by intro e; have := congrArg List.length e; simp at this; omega)
    (by intro w hw; rw [List.eq_of_mem_replicate hw]; norm_num)
  refine ⟨k, by rw [C18_integer_is_weight p n h]; exact hk, hd, ?_, hwf, hh⟩
  rw [hn]; simp; omega

/-! non-vacuity -/
example : Gen.weight 2 [mkRat 1 2, 3, mkRat 1 3]
    = .ok ⟨[0, 0, 0, mkRat 1 2, mkRat 7 2, mkRat 23 6, mkRat 23 6, mkRat 23 6], 2⟩ := by decide +kernel
example : Gen.integer 2 5 = Gen.weight 2 [1, 1, 1] := by decide +kernel

end NV
