/-
Props/C04AcceptRat.lean — property C04, "a valid request is accepted", rational curves with positive weights: the
new weights `M w` are positive again (`knotInsertMat_posPres`), so the `weights` setter accepts them, no weight is
zero, and `knot_insert(nodes)` returns a curve — which by `C04_insert_preserves_eval_rational` is the same function.
-/
import NurbsVerif.Proofs.InsertPos
import NurbsVerif.Props.C04Accept
import NurbsVerif.Props.C04Rat

namespace NV

theorem weightsCheck_pos (k : KV) (ws : List Rat) (hl : ws.length = k.npts) (hp : ∀ w ∈ ws, 0 < w) :
    weightsCheck k ws = .ok () := by
  unfold weightsCheck
  have e : (ws.length != k.npts) = false := by simp [hl]
  rw [e]
  simp only [Bool.false_eq_true, if_false]
  unfold weightsSampleCheck
  have hall : ws.all (fun w => decide (0 < w)) = true := by
    simp only [List.all_eq_true, decide_eq_true_eq]; exact hp
  rw [hall]
  rfl

/-- **C04 (valid requests are accepted), rational curves with positive weights.** -/
theorem C04_valid_accepted_rational (c : Curve) (nodes : List Rat) (pts : List Vec) (ws : List Rat)
    (hP : c.P = some pts) (hW : c.W = some ws)
    (hwl : ws.length = c.kv.npts) (hwpos : ∀ w ∈ ws, 0 < w)
    (hwf : WF c.kv.v c.kv.deg) (hsep : Separated (c.kv.v ++ nodes))
    (hin : ∀ x ∈ nodes, c.kv.umin < x ∧ x < c.kv.umax)
    (hmult : ∀ x ∈ nodes, cnt c.kv.v x + cnt nodes x ≤ c.kv.deg + 1) :
    ∃ c', c.knotInsert nodes = .ok c' ∧ ∃ ws', c'.W = some ws' ∧ ∀ w ∈ ws', 0 < w := by
  obtain ⟨m, hm⟩ := knotInsertMat_ok c.kv nodes hwf hsep
    (fun x hx => ⟨le_of_lt (hin x hx).1, le_of_lt (hin x hx).2⟩) (fun x hx _ _ => hmult x hx)
  obtain ⟨kf, hrep, hwff, hkfv⟩ := knotInsertMat_reached c.kv nodes m hwf hsep hm
  have hpp := knotInsertMat_posPres c.kv nodes m hwf hsep hm
  rw [interiorNodes_eq_self c.kv nodes hwf hin] at hkfv
  have hvn : c.kv.validNodes nodes = true := by
    simp only [KV.validNodes, List.all_eq_true, KV.validNode, Bool.not_eq_true', Bool.or_eq_false_iff,
      decide_eq_false_iff_not, not_lt]
    intro x hx
    exact ⟨le_of_lt (hin x hx).1, le_of_lt (hin x hx).2⟩
  have hins : c.kv.insert nodes = .ok kf := by
    unfold KV.insert
    rw [hvn]
    simp only [Bool.not_true, Bool.false_eq_true, if_false]
    rw [← hkfv]
    exact mk?_self kf hwff
  have hdeg : (kf.deg != c.kv.deg) = false := by simp [hrep.deg]
  -- the new weights
  have hpos' : ∀ w ∈ matVec m ws, 0 < w := hpp ws hwl hwpos
  have hlw' : (matVec m ws).length = kf.npts := by rw [matVec_length, hrep.shaped.1]
  have hwc : weightsCheck kf (matVec m ws) = .ok () := weightsCheck_pos kf _ hlw' hpos'
  have hnz : (matVec m ws).any (· == 0) = false := by
    rw [Bool.eq_false_iff]
    intro hany
    simp only [List.any_eq_true, beq_iff_eq] at hany
    obtain ⟨w, hw, h0⟩ := hany
    have := hpos' w hw
    rw [h0] at this
    exact lt_irrefl _ this
  unfold Curve.knotInsert
  simp only [bind, Except.bind, hins, hdeg, Bool.false_eq_true, if_false, hm]
  unfold Curve.apply
  rw [hP, hW]
  simp only [bind, Except.bind, hwc, hnz, Bool.false_eq_true, if_false]
  unfold Curve.mk?
  have hl : ((Curve.unweighted (matVec m ws) (matPts m (Curve.weighted ws pts))).length != kf.npts) = false := by
    simp [Curve.unweighted, Curve.weighted, matPts, hlw', hrep.shaped.1]
  simp only [hl, Bool.false_eq_true, if_false, hwc]
  exact ⟨_, rfl, _, rfl, hpos'⟩

/-- **C04 (total statement), rational curves with positive weights**: a valid request is accepted, the weights stay
positive and the curve returned is the same function on the whole interval. -/
theorem C04_insert_rational_total (c : Curve) (nodes : List Rat) (pts : List Vec) (ws : List Rat) (d : Nat)
    (hP : c.P = some pts) (hW : c.W = some ws) (hlen : pts.length = c.kv.npts)
    (hwl : ws.length = c.kv.npts) (hwpos : ∀ w ∈ ws, 0 < w) (hdim : ∀ p ∈ pts, p.length = d)
    (hwf : WF c.kv.v c.kv.deg) (hsep : Separated (c.kv.v ++ nodes))
    (hin : ∀ x ∈ nodes, c.kv.umin < x ∧ x < c.kv.umax)
    (hmult : ∀ x ∈ nodes, cnt c.kv.v x + cnt nodes x ≤ c.kv.deg + 1) :
    ∃ c', c.knotInsert nodes = .ok c' ∧ (∃ ws', c'.W = some ws' ∧ ∀ w ∈ ws', 0 < w)
      ∧ ∀ u, c.kv.umin ≤ u ∧ u ≤ c.kv.umax → c'.eval u = c.eval u := by
  obtain ⟨c', hc', hw'⟩ := C04_valid_accepted_rational c nodes pts ws hP hW hwl hwpos hwf hsep hin hmult
  refine ⟨c', hc', hw', ?_⟩
  intro u hu
  have hsepv : Separated c.kv.v := separated_of_subset _ _ hsep (fun y hy => by simp [hy])
  have g := goodKV_of_WF c.kv.v c.kv.deg hwf hsepv
  exact C04_insert_preserves_eval_rational c c' nodes pts ws d hP hW hlen hwl hdim hwf hsep hc' u hu
    (ne_of_gt (weight_function_pos c.kv g u hu ws hwl hwpos))

/-! non-vacuity: a rational degree-2 curve with positive weights; a node inserted twice plus a node raising the
multiplicity of an existing knot — the model accepts, the new weights are positive, and the curve is the same at a
parameter of the interval -/
def exC04Rat : Curve :=
  ⟨⟨[0, 0, 0, mkRat 1 2, 1, 1, 1], 2⟩, some [[1, 0], [3, 1], [-2, 4], [5, 2]], some [1, mkRat 3 2, 2, mkRat 1 3]⟩

example : (match exC04Rat.knotInsert [mkRat 1 4, mkRat 1 2, mkRat 1 4] with
    | .ok c1 => (match c1.W with
        | some ws => ws.all (fun w => decide (0 < w)) && ws.length == 7
            && (c1.eval (mkRat 2 5) == exC04Rat.eval (mkRat 2 5))
        | none => false)
    | .error _ => false) = true := by decide +kernel

end NV
