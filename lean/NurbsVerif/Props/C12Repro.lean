/-
Props/C12Repro.lean — property C12, reproduction: the matrix returned by the model of `Linalg.lstsq` is a left inverse
of the collocation matrix (square or tall), with no assumption on the shape of the inverse; hence fitting samples
`B·P` of a curve of the same space returns exactly `P`.
-/
import NurbsVerif.Props.C05Round

namespace NV
open Finset

/-- **`lstsq(B) · B = I`** for a collocation matrix with at least as many rows as columns -/
theorem lstsq_left_inverse (B M : Mat) (r n : Nat) (hB : Shaped B r n) (hn : 0 < n) (hrn : n ≤ r)
    (hM : lstsq? B = some M) : Shaped M n r ∧ matMul M B = identity n := by
  have hr : 0 < r := by omega
  have hhead : (B.headD []).length = n := by
    cases hB' : B with
    | nil => rw [hB'] at hB; simp [Shaped] at hB; omega
    | cons r0 rest => rw [hB'] at hB; simpa using hB.2 r0 (by simp)
  by_cases hsq : r = n
  · subst hsq
    unfold lstsq? at hM
    simp only [] at hM
    have h2 : B.length = (B.headD []).length := by rw [hhead, hB.1]
    simp only [h2, if_true, lt_irrefl, if_false] at hM
    have hsh := invertChecked_shaped B M hM
    rw [hB.1] at hsh
    have hchk := invertChecked_spec B M hM
    rw [hB.1] at hchk
    refine ⟨hsh, ?_⟩
    have h1 : toM r r B * toM r r M = 1 := by rw [← toM_matMul B M _ _ _ hB hsh hn, hchk, toM_identity]
    have h2' : toM r r M * toM r r B = 1 := mul_eq_one_comm.mp h1
    apply toM_inj _ _ r r (matMul_shaped _ _ _ _ _ hsh hB hn) (identity_shaped _)
    rw [toM_matMul _ _ _ _ _ hsh hB hn, h2', toM_identity]
  · have sBt := transpose_shaped B r n hB hr
    have hG : Shaped (matMul (transpose B) B) n n := matMul_shaped _ _ n r n sBt hB hr
    unfold lstsq? at hM
    simp only [] at hM
    have h1 : ¬ B.length < (B.headD []).length := by rw [hhead, hB.1]; omega
    have h2 : ¬ B.length = (B.headD []).length := by rw [hhead, hB.1]; omega
    simp only [h1, h2, if_false, solve?, Option.map_eq_some_iff] at hM
    obtain ⟨inv, hinv, rfl⟩ := hM
    have hsh := invertChecked_shaped _ _ hinv
    rw [hG.1] at hsh
    have hchk := invertChecked_spec _ _ hinv
    rw [hG.1] at hchk
    have sM : Shaped (matMul inv (transpose B)) n r := matMul_shaped _ _ _ _ _ hsh sBt hn
    refine ⟨sM, ?_⟩
    have e1 : toM n n (matMul (transpose B) B) * toM n n inv = 1 := by
      rw [← toM_matMul _ _ _ _ _ hG hsh hn, hchk, toM_identity]
    have e2 : toM n n inv * toM n n (matMul (transpose B) B) = 1 := mul_eq_one_comm.mp e1
    apply toM_inj _ _ n n (matMul_shaped _ _ _ _ _ sM hB hr) (identity_shaped _)
    rw [toM_matMul _ _ _ _ _ sM hB hr, toM_matMul _ _ _ _ _ hsh sBt hn, Matrix.mul_assoc,
      ← toM_matMul _ _ _ _ _ sBt hB hr, e2, toM_identity]

/-- **C12 (reproduction).**  Fitting the samples `B·P` of a curve of the same space (rows of `B` = basis values at the
nodes, at least as many nodes as control points) returns exactly `P`. -/
theorem C12_reproduces_samples (B M : Mat) (r n d : Nat) (hB : Shaped B r n) (hn : 0 < n) (hrn : n ≤ r)
    (hM : lstsq? B = some M) (pts : List Vec) (hlen : pts.length = n) (hd : ∀ p ∈ pts, p.length = d) :
    matPts M (matPts B pts) = pts := by
  obtain ⟨sM, hMB⟩ := lstsq_left_inverse B M r n hB hn hrn hM
  have hr : 0 < r := by omega
  rw [← matPts_matMul M B _ _ _ d sM hB hr hn hn pts hlen hd, hMB, ← hlen]
  exact matPts_identity pts d hd (by omega)

/-- **C12 (normal equations, no side condition).**  For a tall collocation matrix the control points `Q = M Z` returned
by the solver satisfy `Bᵀ (B Q) = Bᵀ Z` for every right-hand side. -/
theorem C12_normal_equations_unconditional (B M Z : Mat) (r n d : Nat) (hB : Shaped B r n) (hn : 0 < n) (hrn : n < r)
    (hM : lstsq? B = some M) :
    (toM r n B).transpose * (toM r n B * (toM n r M * toM r d Z)) = (toM r n B).transpose * toM r d Z := by
  have hr : 0 < r := by omega
  have hhead : (B.headD []).length = n := by
    cases hB' : B with
    | nil => rw [hB'] at hB; simp [Shaped] at hB; omega
    | cons r0 rest => rw [hB'] at hB; simpa using hB.2 r0 (by simp)
  have sBt := transpose_shaped B r n hB hr
  have hG : Shaped (matMul (transpose B) B) n n := matMul_shaped _ _ n r n sBt hB hr
  unfold lstsq? at hM
  simp only [] at hM
  have h1 : ¬ B.length < (B.headD []).length := by rw [hhead, hB.1]; omega
  have h2 : ¬ B.length = (B.headD []).length := by rw [hhead, hB.1]; omega
  simp only [h1, h2, if_false, solve?, Option.map_eq_some_iff] at hM
  obtain ⟨inv, hinv, rfl⟩ := hM
  have hsh := invertChecked_shaped _ _ hinv
  rw [hG.1] at hsh
  have hchk := invertChecked_spec _ _ hinv
  rw [hG.1] at hchk
  exact normal_equations B inv Z r n d hB hr hn hsh hchk

end NV
