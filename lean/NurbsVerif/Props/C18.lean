/-
Props/C18.lean — property C18: generators and affine maps produce exactly the advertised knot
vectors; basis functions are invariant under `u ↦ s·u + a`.
-/
import NurbsVerif.Proofs.Affine

namespace NV

theorem cnt_replicate_self (n : Nat) (a : Rat) : cnt (List.replicate n a) a = n := by
  induction n with
  | zero => rfl
  | succ n ih => simp only [List.replicate_succ, cnt, List.filter_cons] at *; simp

theorem cnt_replicate_ne (n : Nat) (a x : Rat) (h : a ≠ x) : cnt (List.replicate n a) x = 0 := by
  apply cnt_eq_zero_of_forall_ne
  intro y hy
  rw [List.eq_of_mem_replicate hy]; exact h

theorem sortedLE_replicate (n : Nat) (a : Rat) : sortedLE (List.replicate n a) = true := by
  induction n with
  | zero => rfl
  | succ n ih =>
    cases n with
    | zero => rfl
    | succ n => simp only [List.replicate_succ, sortedLE] at *; simp [ih]

theorem sortedLE_replicate_append (n m : Nat) (a b : Rat) (hab : a ≤ b) :
    sortedLE (List.replicate n a ++ List.replicate m b) = true := by
  induction n with
  | zero => simpa using sortedLE_replicate m b
  | succ n ih =>
    cases n with
    | zero =>
      cases m with
      | zero => rfl
      | succ m =>
        simp only [List.replicate_succ, List.replicate_zero, List.nil_append, List.cons_append, sortedLE] at *
        simp [hab]
        exact ih
    | succ n => simp only [List.replicate_succ, List.cons_append, sortedLE] at *; simp [ih]

/-- **C18 (bezier).**  `GeneratorKnotVector.bezier(p)` is the clamped vector `0^(p+1) 1^(p+1)` of degree `p`
(`npts = p + 1`, interval exactly `[0, 1]`), for every `p`. -/
theorem C18_bezier_spec (p : Nat) :
    Gen.bezier p = .ok ⟨List.replicate (p + 1) 0 ++ List.replicate (p + 1) 1, p⟩ := by
  set v := List.replicate (p + 1) (0 : Rat) ++ List.replicate (p + 1) 1 with hv
  have h01 : (0 : Rat) ≠ 1 := by norm_num
  have hhead : v.headD 0 = 0 := by simp [hv, List.replicate_succ]
  have hlast : v.getLastD 0 = 1 := by
    have e : v = (List.replicate (p + 1) 0 ++ List.replicate p 1) ++ [1] := by
      rw [hv, List.replicate_succ' (n := p) (a := (1 : Rat)), List.append_assoc]
    rw [e]
    simp [List.getLastD_eq_getLast?]
  have c0 : cnt v 0 = p + 1 := by
    rw [hv, cnt_append, cnt_replicate_self, cnt_replicate_ne _ _ _ h01.symm]
  have c1 : cnt v 1 = p + 1 := by
    rw [hv, cnt_append, cnt_replicate_self, cnt_replicate_ne _ _ _ h01]; omega
  have hwf : WF v p := by
    refine ⟨sortedLE_replicate_append _ _ _ _ (by norm_num), by rw [hhead]; exact c0, by rw [hlast]; exact c1,
      by simp [hv]; omega, ?_⟩
    intro x hx
    rw [hv, List.mem_append] at hx
    rcases hx with hx | hx
    · rw [List.eq_of_mem_replicate hx]; omega
    · rw [List.eq_of_mem_replicate hx]; omega
  have hd : p = cnt v (v.headD 0) - 1 := by rw [hhead, c0]; omega
  have hval := WF_isValid v p hd hwf
  simp only [Gen.bezier, KV.mk?, ← hv, hval, if_true]
  rw [← hd]

/-- **C18 (affine maps).**  `shift`, `scale (s > 0)` and `normalize` store exactly the mapped list, keep degree,
`npts` (same length) and every multiplicity; `normalize` sends the ends to exactly 0 and 1. -/
theorem C18_shift_spec (k k' : KV) (a : Rat) (hk : KVInv k) (h : k.shift a = .ok k') :
    k'.v = k.v.map (· + a) ∧ (∀ x, cnt k'.v (x + a) = cnt k.v x) ∧ k'.deg = k.deg := shift_spec k k' a hk h

theorem C18_scale_spec (k k' : KV) (s : Rat) (hk : KVInv k) (h : k.scale s = .ok k') :
    0 < s ∧ k'.v = k.v.map (· * s) ∧ (∀ x, cnt k'.v (x * s) = cnt k.v x) ∧ k'.deg = k.deg := scale_spec k k' s hk h

theorem C18_normalize_spec (k k' : KV) (hk : KVInv k) (hne : nth k.v 0 ≠ k.v.getLastD 0) (h : k.normalize = .ok k') :
    k'.v = k.v.map (fun x => (x - nth k.v 0) / (k.v.getLastD 0 - nth k.v 0))
      ∧ (∀ x, cnt k'.v ((x - nth k.v 0) / (k.v.getLastD 0 - nth k.v 0)) = cnt k.v x)
      ∧ k'.deg = k.deg
      ∧ (nth k.v 0 - nth k.v 0) / (k.v.getLastD 0 - nth k.v 0) = 0
      ∧ (k.v.getLastD 0 - nth k.v 0) / (k.v.getLastD 0 - nth k.v 0) = 1 := normalize_spec k k' hk hne h

/-- **C18 (reparametrisation invariance).**  `N_i` over `s·U + a` at `s·u + a` equals `N_i` over `U` at `u`
for every index, sub-degree and parameter (`s > 0`). -/
theorem C18_basis_affine_invariant (U : List Rat) (umax s a : Rat) (hs : 0 < s) (i j : Nat) (u : Rat)
    (hi : i + j + 1 < U.length) :
    cdb (U.map fun x => s * x + a) (s * umax + a) i j (s * u + a) = cdb U umax i j u :=
  cdb_affine_invariant U umax s a hs i j u hi

/-- `uniform` and `random` are `integer` / `weight` followed by `normalize` (definitionally), so their
interval is exactly `[0, 1]` by `C18_normalize_spec` -/
theorem C18_uniform_is_normalized_integer (p n : Nat) :
    Gen.uniform p n = (do let k ← Gen.integer p n; k.normalize) := rfl

theorem C18_random_is_normalized_weight (p : Nat) (ws : List Rat) :
    Gen.randomFrom p ws = (do let k ← Gen.weight p ws; k.normalize) := rfl

/-! non-vacuity / instances evaluated by the kernel -/
example : Gen.uniform 2 6 = .ok ⟨[0, 0, 0, mkRat 1 4, mkRat 1 2, mkRat 3 4, 1, 1, 1], 2⟩ := by decide +kernel
example : Gen.integer 1 4 = .ok ⟨[0, 0, 1, 2, 3, 3], 1⟩ := by decide +kernel
example : Gen.weight 1 [1, 2] = .ok ⟨[0, 0, 1, 3, 3], 1⟩ := by decide +kernel

end NV
