/-
Props/C07Split.lean — property C07 at curve level for polynomial curves: every piece returned by the model of
`Curve.split(nodes)` evaluates, on its half-open interval `[a, b)`, to the value of the original curve.
-/
import NurbsVerif.Proofs.SplitRefine
import NurbsVerif.Proofs.Window
import NurbsVerif.Props.C04Eval

namespace NV
open Finset

/-- what `split_curve` returns: windows of the insertion matrix of the refined knot vector -/
theorem splitCurveMats_spec (k : KV) (ns : List Rat) (mats : List Mat) (hwf : WF k.v k.deg)
    (hsep : Separated (k.v ++ ns)) (hvalid : k.validNodes ns = true) (h : splitCurveMats k ns = .ok mats) :
    ∃ big bigM pieces, Repro k big bigM ∧ WF big.v big.deg ∧ Separated big.v ∧ k.split ns = .ok pieces
      ∧ mats.length = pieces.length
      ∧ ∀ pk m, (pk, m) ∈ pieces.zip mats → ∃ lo, PieceFacts big.v big.deg pk.v pk.umin pk.umax lo
          ∧ pk.deg = big.deg ∧ m = (bigM.drop lo).take pk.npts := by
  have hfirst : nth k.v 0 = k.umin := (umin_eq_first k.v k.deg hwf).symm
  have hlast : k.v.getLastD 0 = k.umax := by
    have := umax_eq_last k.v k.deg hwf; unfold KV.umax KV.npts; exact this.symm
  have hsepK : Separated k.v := separated_of_subset _ _ hsep (fun y hy => by simp [hy])
  unfold splitCurveMats at h
  simp only [bind, Except.bind, pure, Except.pure] at h
  split at h
  · cases h
  · split at h
    · cases h
    · rename_i big hins
      split at h
      · cases h
      · rename_i bigM hm
        split at h
        · cases h
        · rename_i piecesB hsp
          set cuts' := dedup (ns.filter fun nd => !(nd == nth k.v 0) && !(nd == k.v.getLastD 0)) with hcuts
          set many := cuts'.flatMap fun nd => List.replicate (k.deg + 1 - k.multSingle nd) nd with hmanydef
          have hmemc : ∀ x, x ∈ cuts' → x ∈ ns ∧ x ≠ k.umin ∧ x ≠ k.umax := by
            intro x hx
            rw [hcuts, mem_dedup, List.mem_filter, hfirst, hlast] at hx
            simpa only [Bool.and_eq_true, Bool.not_eq_true', beq_eq_false_iff_ne, ne_eq] using hx
          have hmany : ∀ x ∈ many, x ∈ cuts' := by
            intro x hx
            rw [hmanydef, List.mem_flatMap] at hx
            obtain ⟨nd, hnd, hx⟩ := hx
            rw [List.eq_of_mem_replicate hx]; exact hnd
          have hsepM : Separated (k.v ++ many) := by
            apply separated_of_subset _ _ hsep
            intro y hy
            rw [List.mem_append] at hy ⊢
            rcases hy with hy | hy
            · exact Or.inl hy
            · exact Or.inr (hmemc y (hmany y hy)).1
          obtain ⟨kf, hrep, hwff, hkfv⟩ := knotInsertMat_reached k many bigM hwf hsepM hm
          have hint : interiorNodes k many = many := by
            unfold interiorNodes
            rw [List.filter_eq_self]
            intro x hx
            have := hmemc x (hmany x hx)
            rw [hfirst, hlast]
            simp only [Bool.and_eq_true, Bool.not_eq_true', beq_eq_false_iff_ne, ne_eq]
            exact this.2
          rw [hint] at hkfv
          have hbv : big.v = isort (k.v ++ many) := by
            unfold KV.insert at hins
            split at hins
            · cases hins
            · exact (mk?_ok _ _ hins).2.1
          have hbd0 : big.deg = cnt big.v (big.v.headD 0) - 1 := by
            unfold KV.insert at hins
            split at hins
            · cases hins
            · have := mk?_ok _ _ hins
              rw [this.2.2, this.2.1]
          have hkf : kf = big := by
            apply kv_ext
            · rw [hkfv, hbv]
            · have := hwff.first
              rw [hbd0, hbv, ← hkfv]; omega
          subst hkf
          have hsepB : Separated kf.v := by
            apply separated_of_subset _ _ hsepM
            intro y hy; rw [hkfv, mem_isort] at hy; exact hy
          have heq := split_refined_eq k kf ns cuts' many hwf hvalid hcuts hmany hkfv hrep.deg hrep.umin hrep.umax
          -- multiplicities of the cuts in the refined vector
          have hnd : cuts'.Nodup := dedup_nodup _
          have hcnt : ∀ x ∈ cuts', cnt kf.v x = kf.deg + 1 := by
            intro x hx
            rw [hkfv, cnt_isort, cnt_append, hmanydef, cnt_flatMap_replicate cuts' hnd, if_pos hx, hrep.deg]
            have hms : k.multSingle x = cnt k.v x := by
              apply mult_spec
              intro y hy
              by_cases e : y = x
              · exact Or.inl e
              · right
                have h1 : x ∈ k.v ++ ns := by rw [List.mem_append]; exact Or.inr (hmemc x hx).1
                have h2 : y ∈ k.v ++ ns := by rw [List.mem_append]; exact Or.inl hy
                exact le_trans tol9_le_tol6 (hsep x h1 y h2 (fun c => e c.symm))
            rw [hms]
            by_cases hxk : x ∈ k.v
            · have := hwf.mult_le x hxk; omega
            · have : cnt k.v x = 0 := cnt_eq_zero_of_forall_ne _ _ (fun y hy c => hxk (c ▸ hy))
              omega
          have hspec := split_spec kf hwff cuts' hcnt piecesB hsp
          obtain ⟨hlenM, hzM⟩ := mapM_ok_zip _ piecesB mats h
          refine ⟨kf, bigM, piecesB, hrep, hwff, hsepB, by rw [heq, hsp], hlenM, ?_⟩
          intro pk m hpm
          have hpk : pk ∈ piecesB := (List.of_mem_zip hpm).1
          obtain ⟨lo, pf, hdeg⟩ := hspec pk hpk
          refine ⟨lo, pf, hdeg, ?_⟩
          have hg := hzM pk m hpm
          split at hg
          · cases hg
          · rename_i s hs
            simp only [Except.ok.injEq] at hg
            -- the span of the first knot of the piece
            have g : GoodKV kf := goodKV_of_WF kf.v kf.deg hwff hsepB
            have hlenk := g.ord.len
            have hlenp : pk.v.length = pk.npts + kf.deg + 1 := by
              have := pf.wf.npts_gt; unfold KV.npts; rw [hdeg]; omega
            have hnp : kf.deg < pk.npts := by
              have := pf.wf.npts_gt; unfold KV.npts; rw [hdeg]; omega
            have hin : InSpan (nth kf.v) kf.umax (lo + kf.deg) pk.umin := by
              left
              have e1 := pf.win kf.deg (by omega)
              have e2 := pf.win (kf.deg + 1) (by omega)
              rw [pf.umin] at e1
              have e3 : lo + kf.deg + 1 = kf.deg + 1 + lo := by omega
              have e4 : lo + kf.deg = kf.deg + lo := by omega
              rw [e3, e4, ← e1, ← e2]
              exact ⟨le_refl _, pf.next⟩
            have hfit := pf.fit
            have hs' := span_eq_of_inSpan kf g.ord g.deg_lt g.last (lo + kf.deg) pk.umin hin (by omega) (by omega)
            rw [hs] at hs'
            simp only [Except.ok.injEq] at hs'
            subst hs'
            rw [← hg, hrep.deg.symm]
            have e5 : lo + kf.deg - kf.deg = lo := by omega
            rw [e5]
            congr 1
            unfold KV.npts
            rw [hdeg]; omega

end NV

namespace NV
open Finset

theorem split_valid (k : KV) (ns : List Rat) (ps : List KV) (h : k.split ns = .ok ps) : k.validNodes ns = true := by
  unfold KV.split at h
  by_cases c : k.validNodes ns = true
  · exact c
  · simp only [Bool.not_eq_true] at c
    rw [c] at h
    simp at h

/-- **C07 (polynomial curves): every piece of `split(nodes)` is the restriction of the curve.**  For every model curve
with control points of one dimension on a well-formed knot vector, every node list (knots and nodes separated), every
piece returned by `split` and every parameter of the piece's half-open interval, the piece evaluates to the value of the
curve. -/
theorem C07_split_piece_eval (c : Curve) (ns : List Rat) (out : List Curve) (pts : List Vec) (d : Nat)
    (hP : c.P = some pts) (hW : c.W = none) (hlen : pts.length = c.kv.npts) (hdim : ∀ q ∈ pts, q.length = d)
    (hwf : WF c.kv.v c.kv.deg) (hsep : Separated (c.kv.v ++ ns)) (h : c.split (some ns) = .ok out) :
    ∀ piece ∈ out, ∀ u, piece.kv.umin ≤ u → u < piece.kv.umax → piece.eval u = c.eval u := by
  intro piece hpiece u hu1 hu2
  unfold Curve.split at h
  simp only [bind, Except.bind] at h
  split at h
  · cases h
  · rename_i pieces hps
    split at h
    · cases h
    · rename_i mats hmats
      rw [hP] at h
      simp only [] at h
      have hvalid := split_valid c.kv ns pieces hps
      obtain ⟨big, bigM, pieces', hrep, hwfB, hsepB, hps', hlenM, hall⟩ :=
        splitCurveMats_spec c.kv ns mats hwf hsep hvalid hmats
      rw [hps] at hps'
      simp only [Except.ok.injEq] at hps'
      subst hps'
      obtain ⟨hlenO, hzO⟩ := mapM_ok_zip _ _ out h
      obtain ⟨pm, hpm, hz⟩ := mem_zip_of_mem_right _ out hlenO piece hpiece
      have hmk := hzO pm piece hz
      obtain ⟨pk, m⟩ := pm
      rw [hW] at hmk
      simp only [] at hmk
      obtain ⟨lo, pf, hdeg, hm⟩ := hall pk m hpm
      have hpc : piece = ⟨pk, some (matPts m pts), none⟩ := (mk?_spec _ _ _ _ hmk).1
      -- knot-vector facts
      have hsepK : Separated c.kv.v := separated_of_subset _ _ hsep (fun y hy => by simp [hy])
      have gB : GoodKV big := goodKV_of_WF big.v big.deg hwfB hsepB
      have hwfP : WF pk.v pk.deg := by rw [hdeg]; exact pf.wf
      have hlenp : pk.v.length = pk.npts + big.deg + 1 := by
        have := pf.wf.npts_gt; unfold KV.npts; rw [hdeg]; omega
      have hnp : big.deg < pk.npts := by
        have := pf.wf.npts_gt; unfold KV.npts; rw [hdeg]; omega
      have hsepP : Separated pk.v := by
        apply separated_of_subset _ _ hsepB
        intro y hy
        obtain ⟨i, hi, rfl⟩ := List.mem_iff_getElem.mp hy
        rw [← nth_eq_getElem pk.v i hi, pf.win i hi]
        exact nth_mem_of_lt _ _ (by have := pf.fit; omega)
      have gP : GoodKV pk := goodKV_of_WF pk.v pk.deg hwfP hsepP
      have hlenB := gB.ord.len
      have hfit := pf.fit
      -- the parameter lies in the interval of the curve
      have huC : c.kv.umin ≤ u ∧ u ≤ c.kv.umax := by
        rw [← hrep.umin, ← hrep.umax]
        constructor
        · have e1 := pf.win big.deg (by omega)
          rw [pf.umin] at e1
          have : big.umin ≤ pk.umin := by
            rw [e1]; exact gB.ord.mono big.deg (big.deg + lo) (by omega) (by omega)
          rw [hpc] at hu1; exact le_trans this hu1
        · have e2 := pf.win (pk.v.length - big.deg - 1) (by omega)
          rw [pf.umax] at e2
          have : pk.umax ≤ big.umax := by
            rw [e2]; exact gB.ord.le_umax _ (by omega)
          rw [hpc] at hu2; exact le_trans (le_of_lt hu2) this
      have hu1' : pk.umin ≤ u := by rw [hpc] at hu1; exact hu1
      have hu2' : u < pk.umax := by rw [hpc] at hu2; exact hu2
      -- the span of u in the piece
      obtain ⟨sz', hs1, hs2, hin⟩ := exists_span pk gP u ⟨hu1', le_of_lt hu2'⟩
      have hin' : nth pk.v sz' ≤ u ∧ u < nth pk.v (sz' + 1) := by
        rcases hin with hh | ⟨hh, _⟩
        · exact hh
        · exfalso; rw [hh] at hu2'; exact lt_irrefl _ hu2'
      rw [hdeg] at hs1
      -- evaluate both sides by the definition
      have hn0 : 0 < c.kv.npts := by have := hwf.npts_gt; unfold KV.npts; omega
      rw [hpc]
      rw [C01_eval_eq_def_WF ⟨pk, some (matPts m pts), none⟩ (matPts m pts) u rfl hwfP hsepP ⟨hu1', le_of_lt hu2'⟩
          (by intro ws hws; cases hws),
        C01_eval_eq_def_WF c pts u hP hwf hsepK huC (by intro ws hws; rw [hW] at hws; cases hws)]
      congr 1
      rw [hW]
      unfold curveDef
      simp only []
      -- shapes
      have hQlen : (matPts bigM pts).length = big.npts := by simp [matPts, hrep.shaped.1]
      have hmp : matPts m pts = ((matPts bigM pts).drop lo).take pk.npts := by
        rw [hm]; unfold matPts; rw [List.map_take, List.map_drop]
      have hmlen : (matPts m pts).length = pk.npts := by
        rw [hmp, List.length_take, List.length_drop, hQlen]
        unfold KV.npts at hlenB ⊢; omega
      have hdQ := matPts_dims bigM pts d _ _ hrep.shaped hlen hn0 hdim
      have hdm : ∀ q ∈ matPts m pts, q.length = d := by
        intro q hq
        rw [hmp] at hq
        exact hdQ q (List.mem_of_mem_drop (List.mem_of_mem_take hq))
      have hrow' : (cdbRow pk.v pk.umax pk.npts pk.deg u).length = (matPts m pts).length := by
        simp [cdbRow, hmlen]
      have hrow : (cdbRow c.kv.v c.kv.umax c.kv.npts c.kv.deg u).length = pts.length := by
        simp [cdbRow, hlen]
      obtain ⟨l1, c1⟩ := lincomb_spec _ (matPts m pts) d hrow' (by omega) hdm
      obtain ⟨l2, c2⟩ := lincomb_spec _ pts d hrow (by omega) hdim
      apply vec_ext_getD _ _ (by rw [l1, l2])
      intro j
      rw [c1 j, c2 j]
      have hcc : coordCol (matPts m pts) j = ((matVec bigM (coordCol pts j)).drop lo).take pk.npts := by
        rw [hmp]
        unfold coordCol
        rw [List.map_take, List.map_drop]
        have := coordCol_matPts bigM pts d _ _ hrep.shaped hlen hn0 hdim j
        unfold coordCol at this
        rw [this]
      rw [hcc, hdeg]
      have hQ : (matVec bigM (coordCol pts j)).length = big.npts := by rw [matVec_length, hrep.shaped.1]
      rw [window_eval big.v pk.v big.umax pk.umax big.npts pk.npts big.deg lo (matVec bigM (coordCol pts j)) u sz'
        gB.ord.mono gB.ord.le_umax hlenB (by have := gP.ord.mono; rw [hdeg] at *; exact this)
        gP.ord.le_umax (by omega) pf.win hfit hQ hs1 hs2 hin']
      exact hrep.repro (coordCol pts j) (by simp [coordCol, hlen]) u huC

end NV

namespace NV

/-- **C07, `split()` without arguments** (cuts at every knot: Bézier pieces) -/
theorem C07_split_bezier_pieces (c : Curve) (out : List Curve) (pts : List Vec) (d : Nat)
    (hP : c.P = some pts) (hW : c.W = none) (hlen : pts.length = c.kv.npts) (hdim : ∀ q ∈ pts, q.length = d)
    (hwf : WF c.kv.v c.kv.deg) (hsep : Separated c.kv.v) (h : c.split none = .ok out) :
    ∀ piece ∈ out, ∀ u, piece.kv.umin ≤ u → u < piece.kv.umax → piece.eval u = c.eval u := by
  have g : GoodKV c.kv := goodKV_of_WF c.kv.v c.kv.deg hwf hsep
  have hsep' : Separated (c.kv.v ++ c.kv.knots) := by
    apply separated_of_subset _ _ hsep
    intro y hy
    rw [List.mem_append] at hy
    rcases hy with hy | hy
    · exact hy
    · obtain ⟨m, _, hm2, rfl⟩ := (mem_knots c.kv g y).mp hy
      exact nth_mem_of_lt _ _ (by have := g.ord.len; omega)
  have h' : c.split (some c.kv.knots) = .ok out := by
    unfold Curve.split at h ⊢; exact h
  exact C07_split_piece_eval c c.kv.knots out pts d hP hW hlen hdim hwf hsep' h'

/-- non-vacuity: a quadratic spline with a double and a simple interior knot, cut at a new value and at a knot -/
def exC07 : Curve := ⟨⟨[0, 0, 0, mkRat 1 4, mkRat 1 4, mkRat 1 2, 1, 1, 1], 2⟩, some [[1], [3], [-2], [5], [0], [2]], none⟩

example : (match exC07.split (some [mkRat 1 3, mkRat 1 2]) with
    | .ok ps => ps.length == 3 && ps.all (fun p => p.kv.deg == 2)
    | .error _ => false) = true := by decide +kernel

end NV
