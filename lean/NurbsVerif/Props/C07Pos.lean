/-
Props/C07Pos.lean — property C07 for rational curves with positive weights: every piece returned by `split` equals the
curve on its half-open sub-interval, with no side condition on the denominator (the weight function of a curve with
positive weights is positive on the whole interval, `weight_function_pos`).
-/
import NurbsVerif.Props.C07Rat

namespace NV

theorem C07_split_piece_eval_rational_positive (c : Curve) (ns : List Rat) (out : List Curve) (pts : List Vec)
    (ws : List Rat) (d : Nat) (hP : c.P = some pts) (hW : c.W = some ws) (hlen : pts.length = c.kv.npts)
    (hwl : ws.length = c.kv.npts) (hwpos : ∀ w ∈ ws, 0 < w)
    (hdim : ∀ q ∈ pts, q.length = d) (hwf : WF c.kv.v c.kv.deg) (hsep : Separated (c.kv.v ++ ns))
    (h : c.split (some ns) = .ok out) :
    ∀ piece ∈ out, ∀ u, piece.kv.umin ≤ u → u < piece.kv.umax → piece.eval u = c.eval u := by
  intro piece hpiece u hu1 hu2
  have hall0 := C07_split_piece_eval_rational c ns out pts ws d hP hW hlen hwl hdim hwf hsep h piece hpiece u hu1 hu2
  apply hall0
  -- the parameter lies in the interval of the curve, where the weight function is positive
  have hsepK : Separated c.kv.v := separated_of_subset _ _ hsep (fun y hy => by simp [hy])
  have g := goodKV_of_WF c.kv.v c.kv.deg hwf hsepK
  suffices huC : c.kv.umin ≤ u ∧ u ≤ c.kv.umax from ne_of_gt (weight_function_pos c.kv g u huC ws hwl hwpos)
  unfold Curve.split at h
  simp only [bind, Except.bind] at h
  split at h
  · cases h
  · rename_i pieces hps
    split at h
    · cases h
    · rename_i mats hmats
      rw [hP] at h
      simp only [] at h
      have hvalid := split_valid c.kv ns pieces hps
      obtain ⟨big, bigM, pieces', hrep, hwfB, hsepB, hps', hlenM, hall⟩ :=
        splitCurveMats_spec c.kv ns mats hwf hsep hvalid hmats
      rw [hps] at hps'
      simp only [Except.ok.injEq] at hps'
      subst hps'
      obtain ⟨hlenO, hzO⟩ := mapM_ok_zip _ _ out h
      obtain ⟨pm, hpm, hz⟩ := mem_zip_of_mem_right _ out hlenO piece hpiece
      have hmk := hzO pm piece hz
      obtain ⟨pk, m⟩ := pm
      rw [hW] at hmk
      simp only [] at hmk
      split at hmk
      · cases hmk
      · obtain ⟨lo, pf, hdeg, hm⟩ := hall pk m hpm
        have hpc := (mk?_spec _ _ _ _ hmk).1
        have hu1' : pk.umin ≤ u := by rw [hpc] at hu1; exact hu1
        have hu2' : u < pk.umax := by rw [hpc] at hu2; exact hu2
        obtain ⟨_, _, huC, _, _, _⟩ :=
          split_piece_repro c.kv big pk bigM m lo u hrep hwfB hsepB pf hdeg hm hu1' hu2'
        exact huC

end NV
