/-
Props/C09Curve.lean — property C09 at curve level for continuous polynomial splines (every interior knot of
multiplicity at most `degree`, degree ≥ 1, more than one span or not): on every non-empty span the curve returned by the
model of `Derivate` evaluates to the polynomial derivative of the curve's piece on that span.
-/
import NurbsVerif.Proofs.DerivList
import NurbsVerif.Props.C09Shift
import NurbsVerif.Props.C06Bezier

open Polynomial
namespace NV
open Finset

theorem derivSplineMat_shaped (k : KV) : Shaped (derivSplineMat k) (k.npts - 1) k.npts := by
  refine ⟨by simp [derivSplineMat], ?_⟩
  intro row hrow
  simp only [derivSplineMat, List.mem_map, List.mem_range] at hrow
  obtain ⟨r, _, rfl⟩ := hrow
  simp

/-- **C09 (continuous polynomial splines).** -/
theorem C09_deriv_spline (c D : Curve) (pts : List Vec) (d p' : Nat) (hp : c.kv.deg = p' + 1)
    (hP : c.P = some pts) (hW : c.W = none) (hlen : pts.length = c.kv.npts) (hdim : ∀ p ∈ pts, p.length = d)
    (hwf : WF c.kv.v c.kv.deg) (hsep : Separated c.kv.v) (hc : Continuous c.kv)
    (h : c.derivSpline = .ok D) (sz : Nat) (hsz1 : c.kv.deg ≤ sz) (hsz2 : sz < c.kv.npts) (u : Rat)
    (hin : InSpan (nth c.kv.v) c.kv.umax sz u) (j : Nat) :
    ∃ vC vD, c.eval u = .ok vC ∧ D.eval u = .ok vD
      ∧ vC.getD j 0 = (spanPoly (nth c.kv.v) sz c.kv.deg (fun i => (coordCol pts j).getD i 0)).eval u
      ∧ vD.getD j 0 = (derivative (spanPoly (nth c.kv.v) sz c.kv.deg (fun i => (coordCol pts j).getD i 0))).eval u := by
  have g : GoodKV c.kv := by
    have := goodKV_of_WF c.kv.v c.kv.deg hwf hsep
    cases hk : c.kv; rw [hk] at this; exact this
  have hlenk := g.ord.len
  have hn0 : 0 < c.kv.npts := by have := g.deg_lt; omega
  have hu : c.kv.umin ≤ u ∧ u ≤ c.kv.umax := by
    constructor
    · exact le_trans (g.ord.mono c.kv.deg sz hsz1 (by omega)) hin.le_left
    · exact le_trans hin.le_right (g.ord.le_umax (sz + 1) (by omega))
  -- unfold the model of Derivate
  unfold Curve.derivSpline at h
  simp only [bind, Except.bind, pure, Except.pure, hP] at h
  rw [full_knots c.kv g hwf hc] at h
  split at h
  · cases h
  · rename_i newk hrem
    obtain ⟨hU, hnd, hwn, hsepN⟩ := remove_ends c.kv newk g hwf (by omega) hrem
    -- no row is dropped
    have hq : ((matPts (derivSplineMat c.kv) pts).zipIdx.filter
          (fun (x : Vec × Nat) => nth c.kv.v (x.2 + 1 + c.kv.deg) != nth c.kv.v (x.2 + 1))).map (·.1)
        = matPts (derivSplineMat c.kv) pts := by
      apply zipIdx_filter_all _ (fun i => nth c.kv.v (i + 1 + c.kv.deg) != nth c.kv.v (i + 1))
      intro i hi
      simp only [matPts, List.length_map, (derivSplineMat_shaped c.kv).1] at hi
      simpa using no_null_rows c.kv g hwf hc (by omega) i (by omega)
    rw [hq] at h
    have hD := (mk?_spec _ _ _ _ h).1
    -- facts about the new vector
    have gN : GoodKV newk := by
      have := goodKV_of_WF newk.v newk.deg hwn hsepN
      cases newk; exact this
    have hlenN := gN.ord.len
    have hll : newk.v.length + 2 = c.kv.v.length := by
      have := congrArg List.length hU; simp at this; omega
    have hnptsN : newk.npts = c.kv.npts - 1 := by
      unfold KV.npts at hlenk ⊢; rw [hnd]; omega
    have hnthN : ∀ i, i < newk.v.length → nth newk.v i = nth c.kv.v (i + 1) := by
      intro i hi
      have e : nth (c.kv.umin :: (newk.v ++ [c.kv.umax])) (i + 1) = nth newk.v i := by
        unfold nth
        rw [List.getD_cons_succ]
        simp only [List.getD_eq_getElem?_getD, List.getElem?_append_left hi]
      conv_rhs => rw [hU]
      exact e.symm
    have humaxN : newk.umax = c.kv.umax := by
      show nth newk.v newk.npts = nth c.kv.v c.kv.npts
      rw [hnthN _ (by omega), hnptsN]; congr 1; omega
    have huminN : newk.umin = c.kv.umin := by
      show nth newk.v newk.deg = nth c.kv.v c.kv.deg
      rw [hnthN _ (by omega), hnd]; congr 1; omega
    -- the coefficient list of coordinate j
    set f := coordCol pts j with hf
    have lf : f.length = c.kv.npts := by simp [hf, coordCol, hlen]
    have hCe := C01_eval_eq_def_WF c pts u hP hwf hsep hu (by intro ws hws; rw [hW] at hws; cases hws)
    have hDe : D.eval u = .ok (curveDef newk.v newk.umax newk.npts newk.deg (matPts (derivSplineMat c.kv) pts) none u) := by
      rw [hD]
      exact C01_eval_eq_def_WF _ _ u rfl hwn hsepN (by rw [huminN, humaxN]; exact hu) (by intro ws hws; cases hws)
    refine ⟨_, _, hCe, hDe, ?_, ?_⟩
    · -- the curve itself
      rw [hW]
      unfold curveDef
      simp only []
      have lr : (cdbRow c.kv.v c.kv.umax c.kv.npts c.kv.deg u).length = pts.length := by simp [cdbRow, hlen]
      obtain ⟨_, c2⟩ := lincomb_spec _ pts d lr (by omega) hdim
      rw [c2 j, spanPoly_eval,
        dot_cdbRow_eq_spanSum c.kv.v c.kv.umax c.kv.npts c.kv.deg sz u f g.ord.mono g.ord.le_umax hlenk hsz2 hin lf]
      rfl
    · -- the derivative curve
      unfold curveDef
      simp only []
      have sM := derivSplineMat_shaped c.kv
      have dQ := matPts_dims (derivSplineMat c.kv) pts d _ _ sM hlen hn0 hdim
      have lQ : (matPts (derivSplineMat c.kv) pts).length = c.kv.npts - 1 := by simp [matPts, sM.1]
      have lr : (cdbRow newk.v newk.umax newk.npts newk.deg u).length = (matPts (derivSplineMat c.kv) pts).length := by
        simp [cdbRow, lQ, hnptsN]
      obtain ⟨_, c1⟩ := lincomb_spec _ _ d lr (by have := g.deg_lt; omega) dQ
      rw [c1 j, coordCol_matPts (derivSplineMat c.kv) pts d _ _ sM hlen hn0 hdim j]
      -- span sz − 1 of the new vector
      have hinN : InSpan (nth newk.v) newk.umax (sz - 1) u := by
        have e1 : nth newk.v (sz - 1) = nth c.kv.v sz := by rw [hnthN _ (by omega)]; congr 1; omega
        have e2 : nth newk.v (sz - 1 + 1) = nth c.kv.v (sz + 1) := by rw [hnthN _ (by omega)]; congr 1; omega
        unfold InSpan at hin ⊢
        rw [e1, e2, humaxN]; exact hin
      have lmv : (matVec (derivSplineMat c.kv) f).length = newk.npts := by rw [matVec_length, sM.1, hnptsN]
      rw [dot_cdbRow_eq_spanSum newk.v newk.umax newk.npts newk.deg (sz - 1) u _ gN.ord.mono gN.ord.le_umax hlenN
        (by omega) hinN lmv]
      rw [spanSum_congr_knots (nth newk.v) (fun i => nth c.kv.v (i + 1)) (sz - 1) newk.deg u _
        (fun m hm => hnthN m (by omega)), hnd]
      have e3 : c.kv.deg - 1 = p' := by omega
      rw [e3, C09_derivative_curve_piece c.kv p' hp sz g.ord.mono hlenk hsz1 hsz2 f lf, spanPoly_eval]
      rfl

end NV
