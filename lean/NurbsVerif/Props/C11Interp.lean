/-
Props/C11Interp.lean — property C11, the interpolation clause of `fit_curve(other, nodes)`: at each given node the fitted
curve takes the value of the source curve (polynomial curves).
-/
import NurbsVerif.Props.C05Interp

namespace NV

theorem C11_fit_interpolates (c other c' : Curve) (err : Rat) (ns : List Rat) (hns : ns ≠ []) (pts : List Vec) (d : Nat)
    (hP : other.P = some pts) (hWo : other.W = none) (hWc : c.W = none) (hlen : pts.length = other.kv.npts)
    (hdim : ∀ q ∈ pts, q.length = d)
    (hwfO : WF other.kv.v other.kv.deg) (hsepO : Separated other.kv.v)
    (hwfC : WF c.kv.v c.kv.deg) (hsepC : Separated c.kv.v)
    (h : c.fitCurve other (some ns) = .ok (c', err)) :
    ∀ n, n < ns.length → c'.eval (ns.getD n 0) = other.eval (ns.getD n 0) := by
  intro n hn
  have g1 : GoodKV other.kv := by
    have := goodKV_of_WF other.kv.v other.kv.deg hwfO hsepO
    cases hk : other.kv; rw [hk] at this; exact this
  have g0 : GoodKV c.kv := by
    have := goodKV_of_WF c.kv.v c.kv.deg hwfC hsepC
    cases hk : c.kv; rw [hk] at this; exact this
  have hc0 := orderedCheck_of_WF c.kv.v c.kv.deg hwfC
  have hc1 := orderedCheck_of_WF other.kv.v other.kv.deg hwfO
  have hn0 : 0 < c.kv.npts := by have := g0.deg_lt; omega
  have hn1 : 0 < other.kv.npts := by have := g1.deg_lt; omega
  unfold Curve.fitCurve at h
  rw [hP, hWc, hWo] at h
  simp only [bind, Except.bind, pure, Except.pure, Curve.fitSpline] at h
  split at h
  · cases h
  · rename_i res hres
    split at hres
    · cases hres
    · rename_i TE hTE
      obtain ⟨T, E⟩ := TE
      simp only [Except.ok.injEq] at hres
      subst hres
      simp only [] at h
      split at h
      · cases h
      · rename_i cc hcc
        simp only [Except.ok.injEq, Prod.mk.injEq] at h
        obtain ⟨hc', _⟩ := h
        subst hc'
        have hx := (mk?_spec _ _ _ _ hcc).1
        obtain ⟨sT, Fm, GT, hFm, hGT, _⟩ := fit_interpolates c.kv other.kv T E ns hns g0 g1 hc0 hc1 hTE
        obtain ⟨_, hinO⟩ := evalNodes_spec other.kv g1 hc1 ns hns Fm hFm
        obtain ⟨_, hinC⟩ := evalNodes_spec c.kv g0 hc0 ns hns GT hGT
        have hz : ns.getD n 0 ∈ ns := by simp [List.getD_eq_getElem?_getD, hn]
        rw [hx]
        rw [C01_eval_eq_def_WF ⟨c.kv, some (matPts T pts), none⟩ (matPts T pts) _ rfl hwfC hsepC (hinC _ hz)
            (by intro ws hws; cases hws),
          C01_eval_eq_def_WF other pts _ hP hwfO hsepO (hinO _ hz) (by intro ws hws; rw [hWo] at hws; cases hws)]
        congr 1
        rw [hWo]
        unfold curveDef
        simp only []
        have hrow' : (cdbRow c.kv.v c.kv.umax c.kv.npts c.kv.deg (ns.getD n 0)).length = (matPts T pts).length := by
          simp [cdbRow, matPts, sT.1]
        have hrow : (cdbRow other.kv.v other.kv.umax other.kv.npts other.kv.deg (ns.getD n 0)).length = pts.length := by
          simp [cdbRow, hlen]
        have hmp : 0 < (matPts T pts).length := by simp only [matPts, List.length_map, sT.1]; exact hn0
        have hd' := matPts_dims T pts d _ _ sT hlen hn1 hdim
        obtain ⟨l1, c1⟩ := lincomb_spec _ (matPts T pts) d hrow' hmp hd'
        obtain ⟨l2, c2⟩ := lincomb_spec _ pts d hrow (by omega) hdim
        apply vec_ext_getD _ _ (by rw [l1, l2])
        intro j
        rw [c1 j, c2 j, coordCol_matPts T pts d _ _ sT hlen hn1 hdim j]
        exact fit_interpolates_dot c.kv other.kv T E ns hns g0 g1 hc0 hc1 hTE (coordCol pts j)
          (by simp [coordCol, hlen]) n hn

end NV
