/-
Props/C05Interp.lean — properties C05 / C06, the interpolation clause: whatever `knot_remove(nodes, tolerance)` or
`degree_decrease(t, tolerance)` accept (any tolerance, `None` included), the new curve passes through the old curve at
every remaining knot, both ends included (polynomial curves; the target degree is at least 1, otherwise no interpolation
nodes are used).
-/
import NurbsVerif.Proofs.Interp
import NurbsVerif.Props.C08Add
import NurbsVerif.Props.C05Round
import NurbsVerif.Props.C05

namespace NV

/-- `update(newknotvector, tolerance, nodes)` with interpolation nodes: the refitted control points give the old value at
every node -/
theorem update_interpolates (a a' : Curve) (newk : KV) (pts : List Vec) (d : Nat) (tol : Option Rat) (ns : List Rat)
    (hns : ns ≠ []) (hP : a.P = some pts) (hW : a.W = none) (hlen : pts.length = a.kv.npts)
    (hdim : ∀ p ∈ pts, p.length = d) (g0 : GoodKV newk) (g1 : GoodKV a.kv)
    (hc0 : orderedCheck newk = true) (hc1 : orderedCheck a.kv = true) (hne : (newk == a.kv) = false)
    (h : a.update newk tol (some ns) = .ok a') :
    ∃ x : List Vec, a' = ⟨newk, some x, none⟩ ∧ a.kv.limits = newk.limits ∧ ∀ n, n < ns.length →
      lincomb (cdbRow newk.v newk.umax newk.npts newk.deg (ns.getD n 0)) x
        = lincomb (cdbRow a.kv.v a.kv.umax a.kv.npts a.kv.deg (ns.getD n 0)) pts := by
  have hn0 : 0 < newk.npts := by have := g0.deg_lt; omega
  have hn1 : 0 < a.kv.npts := by have := g1.deg_lt; omega
  unfold Curve.update at h
  simp only [hne, Bool.false_eq_true, if_false, bind, Except.bind, pure, Except.pure, hP, hW] at h
  split at h
  · cases h
  · rename_i hlim
    simp only [Curve.updatePoly, Curve.fitSpline, bind, Except.bind, pure, Except.pure] at h
    split at h
    · cases h
    · rename_i q hq
      split at hq
      · cases hq
      · rename_i res hres
        split at hres
        · cases hres
        · rename_i TE hTE
          obtain ⟨T, E⟩ := TE
          simp only [Except.ok.injEq] at hres
          subst hres
          simp only [] at hq
          split at hq
          · cases hq
          · simp only [Except.ok.injEq] at hq
            subst hq
            obtain ⟨sT, _⟩ := fit_interpolates newk a.kv T E ns hns g0 g1 hc0 hc1 hTE
            refine ⟨matPts T pts, (mk?_spec _ _ _ _ h).1, by simpa using hlim, ?_⟩
            intro n hn
            have hrow' : (cdbRow newk.v newk.umax newk.npts newk.deg (ns.getD n 0)).length = (matPts T pts).length := by
              simp [cdbRow, matPts, sT.1]
            have hrow : (cdbRow a.kv.v a.kv.umax a.kv.npts a.kv.deg (ns.getD n 0)).length = pts.length := by
              simp [cdbRow, hlen]
            have hmp : 0 < (matPts T pts).length := by simp only [matPts, List.length_map, sT.1]; exact hn0
            have hd' := matPts_dims T pts d _ _ sT hlen hn1 hdim
            obtain ⟨l1, c1⟩ := lincomb_spec _ (matPts T pts) d hrow' hmp hd'
            obtain ⟨l2, c2⟩ := lincomb_spec _ pts d hrow (by omega) hdim
            apply vec_ext_getD _ _ (by rw [l1, l2])
            intro j
            rw [c1 j, c2 j, coordCol_matPts T pts d _ _ sT hlen hn1 hdim j]
            exact fit_interpolates_dot newk a.kv T E ns hns g0 g1 hc0 hc1 hTE (coordCol pts j)
              (by simp [coordCol, hlen]) n hn

end NV

namespace NV

theorem knot_in_interval (k : KV) (g : GoodKV k) (z : Rat) (hz : z ∈ k.knots) : k.umin ≤ z ∧ z ≤ k.umax := by
  obtain ⟨m, h1, h2, rfl⟩ := (mem_knots k g z).mp hz
  have hlen := g.ord.len
  exact ⟨g.ord.mono k.deg m h1 (by omega), g.ord.le_umax m (by omega)⟩

/-- the step shared by removal and reduction: an accepted `update` onto a knot vector of degree ≥ 1 with the new distinct
knots as interpolation nodes keeps the value at every one of them -/
theorem update_passes_through (c c' : Curve) (newk : KV) (pts : List Vec) (d : Nat) (tol : Option Rat)
    (hP : c.P = some pts) (hW : c.W = none) (hlen : pts.length = c.kv.npts) (hdim : ∀ q ∈ pts, q.length = d)
    (hwf : WF c.kv.v c.kv.deg) (hsep : Separated c.kv.v) (hwfN : WF newk.v newk.deg) (hsepN : Separated newk.v)
    (h : c.update newk tol (some newk.knots) = .ok c') :
    ∀ z ∈ newk.knots, c'.eval z = c.eval z := by
  intro z hz
  have g1 : GoodKV c.kv := by
    have := goodKV_of_WF c.kv.v c.kv.deg hwf hsep
    cases hk : c.kv; rw [hk] at this; exact this
  have g0 : GoodKV newk := by
    have := goodKV_of_WF newk.v newk.deg hwfN hsepN
    cases newk; exact this
  by_cases hsame : (newk == c.kv) = true
  · unfold Curve.update at h
    simp only [hsame, if_true, pure, Except.pure, Except.ok.injEq] at h
    rw [← h]
  · have hne : (newk == c.kv) = false := by simpa using hsame
    obtain ⟨x, hx, hlim, hall⟩ := update_interpolates c c' newk pts d tol newk.knots (knots_ne_nil newk g0) hP hW hlen hdim
      g0 g1 (orderedCheck_of_WF newk.v newk.deg hwfN) (orderedCheck_of_WF c.kv.v c.kv.deg hwf) hne h
    obtain ⟨n, hn, rfl⟩ := List.mem_iff_getElem.mp hz
    have hzN := knot_in_interval newk g0 _ hz
    have hzC : c.kv.umin ≤ newk.knots[n] ∧ newk.knots[n] ≤ c.kv.umax := by
      have e1 : c.kv.umin = newk.umin := congrArg Prod.fst hlim
      have e2 : c.kv.umax = newk.umax := congrArg Prod.snd hlim
      rw [e1, e2]; exact hzN
    have hval := hall n hn
    have hg : newk.knots.getD n 0 = newk.knots[n] := by simp [List.getD_eq_getElem?_getD, hn]
    rw [hg] at hval
    rw [hx]
    rw [C01_eval_eq_def_WF ⟨newk, some x, none⟩ x _ rfl hwfN hsepN hzN (by intro ws hws; cases hws),
      C01_eval_eq_def_WF c pts _ hP hwf hsep hzC (by intro ws hws; rw [hW] at hws; cases hws)]
    congr 1
    rw [hW]
    unfold curveDef
    simp only []
    exact hval

/-- **C05: an accepted `knot_remove` passes through the old curve at every remaining knot** (any tolerance). -/
theorem C05_remove_passes_through (c c' : Curve) (nodes : List Rat) (tol : Option Rat) (pts : List Vec) (d : Nat)
    (hP : c.P = some pts) (hW : c.W = none) (hlen : pts.length = c.kv.npts) (hdim : ∀ q ∈ pts, q.length = d)
    (hwf : WF c.kv.v c.kv.deg) (hsep : Separated c.kv.v) (h : c.knotRemove nodes tol = .ok c')
    (hdeg : c'.kv.deg ≠ 0) : ∀ z ∈ c'.kv.knots, c'.eval z = c.eval z := by
  have hrem := C05_knots c c' nodes tol h
  obtain ⟨_, hsub⟩ := removeAll_perm nodes c.kv.v c'.kv.v hrem
  simp only [Curve.knotRemove, bind, Except.bind] at h
  split at h
  · cases h
  · rename_i newk hnk
    have hk := update_kv c newk tol _ c' h
    rw [hk] at hdeg hsub ⊢
    have hwfN : WF newk.v newk.deg := by
      simp only [KV.remove] at hnk
      split at hnk
      · cases hnk
      · obtain ⟨hval, hv, hdg⟩ := mk?_ok _ newk hnk
        have := isValid_WF_exact newk.v (by rw [hv]; exact hval)
        rw [← hv] at hdg; rw [hdg]; exact this
    have hsepN : Separated newk.v := separated_of_subset _ _ hsep (fun y hy => hsub.subset hy)
    have hfit : (if (newk.deg != 0) = true then some newk.knots else none) = some newk.knots := by
      have : (newk.deg != 0) = true := by simpa using hdeg
      rw [if_pos this]
    rw [hfit] at h
    exact update_passes_through c c' newk pts d tol hP hW hlen hdim hwf hsep hwfN hsepN h

end NV

namespace NV

/-- **C06: an accepted `degree_decrease` keeps the values at the remaining knots** (any tolerance; target degree ≥ 1). -/
theorem C06_decrease_passes_through (c c' : Curve) (t : Nat) (tol : Option Rat) (pts : List Vec) (d : Nat)
    (hP : c.P = some pts) (hW : c.W = none) (hlen : pts.length = c.kv.npts) (hdim : ∀ q ∈ pts, q.length = d)
    (hwf : WF c.kv.v c.kv.deg) (hsep : Separated c.kv.v) (h : c.degreeDecrease t tol = .ok c')
    (hdeg : c'.kv.deg ≠ 0) : ∀ z ∈ c'.kv.knots, c'.eval z = c.eval z := by
  unfold Curve.degreeDecrease at h
  simp only [bind, Except.bind] at h
  split at h
  · cases h
  · rename_i ht0
    split at h
    · cases h
    · rename_i htd
      split at h
      · cases h
      · rename_i newk hnk
        have hk := update_kv c newk tol _ c' h
        rw [hk] at hdeg ⊢
        have ht : 0 < t := Nat.pos_of_ne_zero ht0
        have hlt : c.kv.deg - t < c.kv.deg := by omega
        unfold KV.setDegree at hnk
        rw [if_pos hlt] at hnk
        have hsubwf : WF newk.v newk.deg ∧ ∀ y ∈ newk.v, y ∈ c.kv.v := by
          simp only [KV.remove] at hnk
          split at hnk
          · cases hnk
          · rename_i l hl
            obtain ⟨hval, hv, hdg⟩ := mk?_ok _ newk hnk
            obtain ⟨_, hsub⟩ := removeAll_perm _ c.kv.v l hl
            have := isValid_WF_exact newk.v (by rw [hv]; exact hval)
            rw [← hv] at hdg
            exact ⟨by rw [hdg]; exact this, fun y hy => hsub.subset (by rw [← hv]; exact hy)⟩
        have hsepN : Separated newk.v := separated_of_subset _ _ hsep hsubwf.2
        have hfit : (if (newk.deg != 0) = true then some newk.knots else none) = some newk.knots := by
          have : (newk.deg != 0) = true := by simpa using hdeg
          rw [if_pos this]
        rw [hfit] at h
        exact update_passes_through c c' newk pts d tol hP hW hlen hdim hwf hsep hsubwf.1 hsepN h

end NV
