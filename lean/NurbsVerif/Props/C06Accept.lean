/-
Props/C06Accept.lean — property C06, "a valid request is accepted" for single-span (Bezier) curves: `degree_increase(t)`
with `t ≥ 1` succeeds for every polynomial Bezier curve and for every rational Bezier curve with positive weights (the
elevated weights are positive again: every row of the Bezier elevation matrix is a convex combination).
-/
import NurbsVerif.Props.C06Rat
import NurbsVerif.Props.C04AcceptRat

namespace NV
open Finset

theorem wf_bezList (q : Nat) (a b : Rat) (hab : a < b) : WF (bezList q a b) q := by
  have hne : a ≠ b := ne_of_lt hab
  have hhead : (bezList q a b).headD 0 = a := by
    rw [headD_eq_nth, nth_bezList _ _ _ 0 (by omega)]; simp [bezKnots]
  have hlast : (bezList q a b).getLastD 0 = b := by
    unfold bezList
    rw [List.getLastD_eq_getLast?, List.getLast?_append]
    simp [List.getLast?_replicate]
  refine ⟨sortedLE_bezList q a b hab, ?_, ?_, ?_, ?_⟩
  · rw [hhead, cnt_bezList _ _ _ _ hne]; simp
  · rw [hlast, cnt_bezList _ _ _ _ hne]; simp [hne.symm]
  · rw [bezList_length]; omega
  · intro x _
    rw [cnt_bezList _ _ _ _ hne]
    split
    · exact le_refl _
    · split
      · exact le_refl _
      · omega

theorem elevBezierOnce_posPres (p : Nat) : PosPres (elevBezierOnce p) (p + 1) := by
  intro f hf hpos w hw
  have hl : (matVec (elevBezierOnce p) f).length = p + 2 := by simp [matVec, elevBezierOnce]
  obtain ⟨i, hi, rfl⟩ := List.mem_iff_getElem.mp hw
  rw [hl] at hi
  have e : (matVec (elevBezierOnce p) f)[i] = (matVec (elevBezierOnce p) f).getD i 0 := by
    rw [List.getD_eq_getElem?_getD, List.getElem?_eq_getElem (by rw [hl]; exact hi)]; rfl
  rw [e, elevBezierOnce_row p f hf i hi]
  unfold elevCoef prevP
  have hp1 : (0 : ℚ) < (p : ℚ) + 1 := by positivity
  have hk0 : (0 : ℚ) ≤ (i : ℚ) / ((p : ℚ) + 1) := by positivity
  have hk1 : (i : ℚ) / ((p : ℚ) + 1) ≤ 1 := by
    rw [div_le_one hp1]
    have : (i : ℚ) ≤ (p : ℚ) + 1 := by exact_mod_cast (by omega : i ≤ p + 1)
    exact this
  by_cases h0 : i = 0
  · subst h0
    simp only [if_true, Nat.cast_zero, zero_div, zero_mul, sub_zero, one_mul, zero_add]
    exact getD_pos_of_mem f hpos 0 (by omega)
  · rw [if_neg h0]
    have hprev : 0 < f.getD (i - 1) 0 := getD_pos_of_mem f hpos (i - 1) (by omega)
    by_cases hlast : i = p + 1
    · subst hlast
      have e1 : ((p + 1 : ℕ) : ℚ) / ((p : ℚ) + 1) = 1 := by
        push_cast; exact div_self (ne_of_gt hp1)
      rw [e1]
      simp only [one_mul, sub_self, zero_mul, add_zero]
      exact hprev
    · have hcur : 0 < f.getD i 0 := getD_pos_of_mem f hpos i (by omega)
      have hki : (0 : ℚ) < (i : ℚ) / ((p : ℚ) + 1) := by
        apply div_pos _ hp1
        exact_mod_cast Nat.pos_of_ne_zero h0
      have := mul_pos hki hprev
      have h2 : 0 ≤ (1 - (i : ℚ) / ((p : ℚ) + 1)) * f.getD i 0 :=
        mul_nonneg (by linarith) (le_of_lt hcur)
      linarith

theorem elevBezier_posPres : ∀ (t p : Nat), PosPres (elevBezier p t) (p + 1) := by
  intro t
  induction t with
  | zero => intro p; simpa [elevBezier] using posPres_identity (p + 1)
  | succ t ih =>
    intro p
    simp only [elevBezier]
    obtain ⟨sh, _⟩ := C06_bezier_elevation 0 1 (by norm_num) t (p + 1)
    exact posPres_matMul _ _ _ _ _ sh (elevBezierOnce_shaped p) (by omega) (ih (p + 1)) (elevBezierOnce_posPres p)

/-- the knot vector of the elevated Bezier curve is accepted by `knotvector + times · knots` -/
theorem bezier_insert_ok (k : KV) (times : Nat) (hwf : WF k.v k.deg) (hsep : Separated k.v)
    (hbez : k.deg + 1 = k.npts) : ∃ newk, k.insert (KV.repeatList times k.knots) = .ok newk := by
  have g : GoodKV k := by
    have := goodKV_of_WF k.v k.deg hwf hsep
    cases k; exact this
  have hlt : k.umin < k.umax := by
    have h1 := g.ord.mono k.deg (k.npts - 1) (by omega) (by have := g.ord.len; omega)
    have h2 := g.last
    unfold KV.umin KV.umax
    exact lt_of_le_of_lt h1 h2
  have hne : k.umin ≠ k.umax := ne_of_lt hlt
  have hv := bezier_kv_list k hwf hbez
  have hlist : isort (k.v ++ KV.repeatList times k.knots) = bezList (k.deg + times) k.umin k.umax := by
    apply sorted_eq_of_cnt _ _ (sortedLE_isort _) (sortedLE_bezList _ _ _ hlt)
    intro x
    rw [cnt_isort, cnt_append, cnt_repeatList, cnt_knots_bezier k g hwf hbez x, hv,
      cnt_bezList _ _ _ x hne, cnt_bezList _ _ _ x hne]
    by_cases h1 : x = k.umin
    · simp only [h1, if_true]; ring
    · by_cases h2 : x = k.umax
      · rw [if_neg h1, if_pos h2, if_neg h1, if_pos h2, if_neg h1, if_pos h2]; ring
      · simp [h1, h2]
  have hvn : k.validNodes (KV.repeatList times k.knots) = true := by
    simp only [KV.validNodes, List.all_eq_true, KV.validNode, Bool.not_eq_true', Bool.or_eq_false_iff,
      decide_eq_false_iff_not, not_lt]
    intro x hx
    have hc : 0 < cnt (KV.repeatList times k.knots) x := by
      rw [cnt_eq_count]; exact List.count_pos_iff.mpr hx
    rw [cnt_repeatList, cnt_knots_bezier k g hwf hbez x] at hc
    by_cases h1 : x = k.umin
    · rw [h1]; exact ⟨le_refl _, le_of_lt hlt⟩
    · by_cases h2 : x = k.umax
      · rw [h2]; exact ⟨le_of_lt hlt, le_refl _⟩
      · simp [h1, h2] at hc
  unfold KV.insert
  rw [hvn]
  simp only [Bool.not_true, Bool.false_eq_true, if_false]
  rw [hlist]
  exact ⟨⟨bezList (k.deg + times) k.umin k.umax, k.deg + times⟩,
    mk?_self ⟨bezList (k.deg + times) k.umin k.umax, k.deg + times⟩ (wf_bezList _ _ _ hlt)⟩

/-- **C06 (valid requests are accepted), Bezier curves**: polynomial, or rational with positive weights. -/
theorem C06_bezier_degree_increase_accepted (c : Curve) (times : Nat) (pts : List Vec) (ht : times ≠ 0)
    (hP : c.P = some pts) (hwf : WF c.kv.v c.kv.deg) (hsep : Separated c.kv.v) (hbez : c.kv.deg + 1 = c.kv.npts)
    (hW : ∀ ws, c.W = some ws → ws.length = c.kv.npts ∧ ∀ w ∈ ws, 0 < w) :
    ∃ c', c.degreeIncrease times = .ok c' := by
  obtain ⟨newk, hins⟩ := bezier_insert_ok c.kv times hwf hsep hbez
  obtain ⟨_, _, _, hnpts, _, _, _, _⟩ := bezier_insert_facts c.kv newk times hwf hsep hbez hins
  obtain ⟨sE, _⟩ := C06_bezier_elevation 0 1 (by norm_num) times c.kv.deg
  have hm : degreeIncreaseMat c.kv times = .ok (elevBezier c.kv.deg times) := by
    unfold degreeIncreaseMat
    simp only [ht, if_false, hbez, if_true, pure, Except.pure]
  unfold Curve.degreeIncrease
  simp only [bind, Except.bind, ht, if_false, hins, hm]
  unfold Curve.apply
  rw [hP]
  cases hWc : c.W with
  | none =>
    simp only [Option.map_some]
    unfold Curve.mk?
    have hl : ((matPts (elevBezier c.kv.deg times) pts).length != newk.npts) = false := by
      simp [matPts, sE.1, hnpts]
    simp only [hl, Bool.false_eq_true, if_false]
    exact ⟨_, rfl⟩
  | some ws =>
    obtain ⟨hwl, hwpos⟩ := hW ws hWc
    have hpos' : ∀ w ∈ matVec (elevBezier c.kv.deg times) ws, 0 < w :=
      elevBezier_posPres times c.kv.deg ws (by rw [hwl, hbez]) hwpos
    have hlw' : (matVec (elevBezier c.kv.deg times) ws).length = newk.npts := by
      rw [matVec_length, sE.1, hnpts]
    have hwc := weightsCheck_pos newk _ hlw' hpos'
    have hnz : (matVec (elevBezier c.kv.deg times) ws).any (· == 0) = false := by
      rw [Bool.eq_false_iff]
      intro hany
      simp only [List.any_eq_true, beq_iff_eq] at hany
      obtain ⟨w, hw, h0⟩ := hany
      have := hpos' w hw
      rw [h0] at this
      exact lt_irrefl _ this
    simp only [bind, Except.bind, hwc, hnz, Bool.false_eq_true, if_false]
    unfold Curve.mk?
    have hl : ((Curve.unweighted (matVec (elevBezier c.kv.deg times) ws)
        (matPts (elevBezier c.kv.deg times) (Curve.weighted ws pts))).length != newk.npts) = false := by
      simp [Curve.unweighted, Curve.weighted, matPts, hlw', sE.1, hnpts]
    simp only [hl, Bool.false_eq_true, if_false, hwc]
    exact ⟨_, rfl⟩

/-- **C06 (total statement), Bezier curves**: `degree_increase(t)`, `t ≥ 1`, of a polynomial Bezier curve or of a rational
one with positive weights is accepted, lands on the Bezier vector of degree `p + t`, and is the same function. -/
theorem C06_bezier_degree_increase_total (c : Curve) (times : Nat) (pts : List Vec) (d : Nat) (ht : times ≠ 0)
    (hP : c.P = some pts) (hlen : pts.length = c.kv.npts) (hdim : ∀ p ∈ pts, p.length = d)
    (hwf : WF c.kv.v c.kv.deg) (hsep : Separated c.kv.v) (hbez : c.kv.deg + 1 = c.kv.npts)
    (hW : ∀ ws, c.W = some ws → ws.length = c.kv.npts ∧ ∀ w ∈ ws, 0 < w) :
    ∃ c', c.degreeIncrease times = .ok c' ∧ c'.kv.v = bezList (c.kv.deg + times) c.kv.umin c.kv.umax
      ∧ ∀ u, c.kv.umin ≤ u ∧ u ≤ c.kv.umax → c'.eval u = c.eval u := by
  obtain ⟨c', hc'⟩ := C06_bezier_degree_increase_accepted c times pts ht hP hwf hsep hbez hW
  cases hWc : c.W with
  | none =>
    refine ⟨c', hc', (C06_bezier_degree_increase c c' times pts d hP hWc hlen hdim hwf hsep hbez hc' c.kv.umin
      ⟨le_refl _, ?_⟩).1, fun u hu => (C06_bezier_degree_increase c c' times pts d hP hWc hlen hdim hwf hsep hbez hc' u hu).2⟩
    obtain ⟨newk, hins⟩ := bezier_insert_ok c.kv times hwf hsep hbez
    exact le_of_lt (bezier_insert_facts c.kv newk times hwf hsep hbez hins).1
  | some ws =>
    obtain ⟨hwl, hwpos⟩ := hW ws hWc
    refine ⟨c', hc', (C06_bezier_degree_increase_rational c c' times pts ws d hP hWc hlen hwl hwpos hdim hwf hsep hbez hc'
      c.kv.umin ⟨le_refl _, ?_⟩).1, fun u hu =>
        (C06_bezier_degree_increase_rational c c' times pts ws d hP hWc hlen hwl hwpos hdim hwf hsep hbez hc' u hu).2⟩
    obtain ⟨newk, hins⟩ := bezier_insert_ok c.kv times hwf hsep hbez
    exact le_of_lt (bezier_insert_facts c.kv newk times hwf hsep hbez hins).1

/-! non-vacuity: a rational quadratic Bezier curve (a conic arc) elevated by two degrees -/
def exC06Rat : Curve := ⟨⟨[0, 0, 0, 1, 1, 1], 2⟩, some [[1, 0], [1, 1], [0, 1]], some [1, mkRat 1 2, 1]⟩

example : (match exC06Rat.degreeIncrease 2 with
    | .ok c1 => (match c1.W with
        | some ws => ws.all (fun w => decide (0 < w)) && ws.length == 5
            && (c1.eval (mkRat 2 5) == exC06Rat.eval (mkRat 2 5))
        | none => false)
    | .error _ => false) = true := by decide +kernel

end NV
