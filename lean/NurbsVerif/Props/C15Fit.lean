/-
Props/C15Fit.lean — property C15 for `fit_curve` (polynomial source; receiver with or without weights), as an operation
on the receiver: whatever it returns went through the validating constructor, so the receiver is consistent, keeps its
knot vector and its weights, and only the control points are new; a call that raises returns no curve at all (the
receiver is the old value).  The source is an argument of a pure function: it cannot be modified in the model; the
harness observes that on the real objects.
-/
import NurbsVerif.Props.C15

namespace NV

theorem C15_fitCurve_spec (c other c' : Curve) (nodes : Option (List Rat)) (err : Rat)
    (h : c.fitCurve other nodes = .ok (c', err)) :
    Consistent c' ∧ c'.kv = c.kv ∧ c'.W = c.W := by
  unfold Curve.fitCurve at h
  simp only [bind, Except.bind, pure, Except.pure] at h
  split at h
  · rename_i pts hP hW hWo
    split at h
    · cases h
    · split at h
      · cases h
      · rename_i cc hcc
        simp only [Except.ok.injEq, Prod.mk.injEq] at h
        obtain ⟨e1, _⟩ := h
        subst e1
        obtain ⟨hs, hcons⟩ := mk?_spec _ _ _ _ hcc
        refine ⟨hcons, by rw [hs], by rw [hs, hW]⟩
  · rename_i pts wa hP hW hWo
    split at h
    · cases h
    · split at h
      · cases h
      · rename_i cc hcc
        simp only [Except.ok.injEq, Prod.mk.injEq] at h
        obtain ⟨e1, _⟩ := h
        subst e1
        obtain ⟨hs, hcons⟩ := mk?_spec _ _ _ _ hcc
        refine ⟨hcons, by rw [hs], by rw [hs, hW]⟩
  · cases h

/-- the receiver after `fit_curve`, raising or not -/
def fitApply (c other : Curve) (nodes : Option (List Rat)) : Curve :=
  match c.fitCurve other nodes with
  | .ok (c', _) => c'
  | .error _ => c

/-- **C15 (`fit_curve`).**  The receiver stays consistent and keeps knot vector and weights, whether the call raises or not;
a raising call leaves it exactly as it was. -/
theorem C15_fitCurve_receiver (c other : Curve) (nodes : Option (List Rat)) (hc : Consistent c) :
    Consistent (fitApply c other nodes) ∧ (fitApply c other nodes).kv = c.kv ∧ (fitApply c other nodes).W = c.W
      ∧ (∀ e, c.fitCurve other nodes = .error e → fitApply c other nodes = c) := by
  unfold fitApply
  cases hf : c.fitCurve other nodes with
  | error e => exact ⟨hc, rfl, rfl, fun _ _ => rfl⟩
  | ok r =>
    obtain ⟨c', err⟩ := r
    obtain ⟨h1, h2, h3⟩ := C15_fitCurve_spec c other c' nodes err hf
    exact ⟨h1, h2, h3, fun e he => by cases he⟩

end NV
