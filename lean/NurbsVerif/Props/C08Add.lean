/-
Props/C08Add.lean — property C08, sums of two polynomial curves of the same degree: the model's `A + B` (common
refinement through `matrix_transformation`, then control point by control point) evaluates to `A(u) + B(u)` at every
parameter, whenever the union vector refines both operands (which `C17_union_mult` states knot by knot).
-/
import NurbsVerif.Proofs.Refine
import NurbsVerif.Props.C08

namespace NV
open Finset

/-- a reproducing matrix applied to control points gives the same curve value -/
theorem repro_lincomb (k0 k : KV) (m : Mat) (hrep : Repro k0 k m) (pts : List Vec) (d : Nat)
    (hlen : pts.length = k0.npts) (hdim : ∀ p ∈ pts, p.length = d) (hn0 : 0 < k0.npts) (hnk : 0 < k.npts)
    (u : Rat) (hu : k0.umin ≤ u ∧ u ≤ k0.umax) :
    lincomb (cdbRow k.v k.umax k.npts k.deg u) (matPts m pts)
      = lincomb (cdbRow k0.v k0.umax k0.npts k0.deg u) pts := by
  have hrow' : (cdbRow k.v k.umax k.npts k.deg u).length = (matPts m pts).length := by
    simp [cdbRow, matPts, hrep.shaped.1]
  have hrow : (cdbRow k0.v k0.umax k0.npts k0.deg u).length = pts.length := by simp [cdbRow, hlen]
  have hmp : 0 < (matPts m pts).length := by simp only [matPts, List.length_map, hrep.shaped.1]; exact hnk
  have hd' := matPts_dims m pts d _ _ hrep.shaped hlen hn0 hdim
  obtain ⟨l1, c1⟩ := lincomb_spec _ (matPts m pts) d hrow' hmp hd'
  obtain ⟨l2, c2⟩ := lincomb_spec _ pts d hrow (by omega) hdim
  apply vec_ext_getD _ _ (by rw [l1, l2])
  intro j
  rw [c1 j, c2 j, coordCol_matPts m pts d _ _ hrep.shaped hlen hn0 hdim j]
  exact hrep.repro (coordCol pts j) (by simp [coordCol, hlen]) u hu

theorem dot_zipWith_add (row a b : List Rat) (n : Nat) (hr : row.length = n) (ha : a.length = n) (hb : b.length = n) :
    dot row (List.zipWith (· + ·) a b) = dot row a + dot row b := by
  rw [dot_eq_sum row _ n hr (by simp [ha, hb]), dot_eq_sum row a n hr ha, dot_eq_sum row b n hr hb, ← sum_add_distrib]
  apply sum_congr rfl
  intro i hi
  simp only [mem_range] at hi
  have h1 : i < a.length := by omega
  have h2 : i < b.length := by omega
  simp only [List.getD_eq_getElem?_getD, List.getElem?_zipWith, List.getElem?_eq_getElem h1,
    List.getElem?_eq_getElem h2, Option.map₂_some_some, Option.getD_some]
  ring

theorem coordCol_zipWith_vadd (A B : List Vec) (d : Nat) (hA : ∀ p ∈ A, p.length = d) (hB : ∀ p ∈ B, p.length = d)
    (j : Nat) : coordCol (List.zipWith vadd A B) j = List.zipWith (· + ·) (coordCol A j) (coordCol B j) := by
  induction A generalizing B with
  | nil => simp [coordCol]
  | cons a A ih =>
    cases B with
    | nil => simp [coordCol]
    | cons b B =>
      have := ih B (fun p hp => hA p (by simp [hp])) (fun p hp => hB p (by simp [hp]))
      simp only [coordCol] at this ⊢
      simp only [List.zipWith_cons_cons, List.map_cons, this]
      rw [vadd_getD a b d (hA a (by simp)) (hB b (by simp)) j]

theorem zipWith_vadd_dims (A B : List Vec) (d : Nat) (hA : ∀ p ∈ A, p.length = d) (hB : ∀ p ∈ B, p.length = d) :
    ∀ q ∈ List.zipWith vadd A B, q.length = d := by
  induction A generalizing B with
  | nil => simp
  | cons a A ih =>
    cases B with
    | nil => simp
    | cons b B =>
      intro q hq
      simp only [List.zipWith_cons_cons, List.mem_cons] at hq
      rcases hq with rfl | hq
      · exact vadd_length a b d (hA a (by simp)) (hB b (by simp))
      · exact ih B (fun p hp => hA p (by simp [hp])) (fun p hp => hB p (by simp [hp])) q hq

/-- **C08 (sum of two polynomial curves of equal degree).**  `(A + B)(u) = A(u) + B(u)` at every parameter. -/
theorem C08_add_same_degree (a b s : Curve) (c : KV) (pa pb : List Vec) (d : Nat)
    (hPa : a.P = some pa) (hPb : b.P = some pb) (hWa : a.W = none) (hWb : b.W = none)
    (hla : pa.length = a.kv.npts) (hlb : pb.length = b.kv.npts)
    (hda : ∀ p ∈ pa, p.length = d) (hdb : ∀ p ∈ pb, p.length = d)
    (hwa : WF a.kv.v a.kv.deg) (hwb : WF b.kv.v b.kv.deg) (hwc : WF c.v c.deg)
    (hsep : Separated (a.kv.v ++ b.kv.v ++ c.v))
    (hunion : a.kv.union b.kv = .ok c) (hdega : a.kv.deg = c.deg) (hdegb : b.kv.deg = c.deg)
    (hrefa : Refines a.kv c) (hrefb : Refines b.kv c)
    (h : a.addPoly b = .ok s) (u : Rat) (hu : c.umin ≤ u ∧ u ≤ c.umax) :
    ∃ va vb, a.eval u = .ok va ∧ b.eval u = .ok vb ∧ s.eval u = .ok (vadd va vb) := by
  unfold Curve.addPoly at h
  simp only [hunion, bind, Except.bind] at h
  split at h
  · cases h
  · rename_i ma hma
    split at h
    · cases h
    · rename_i mb hmb
      rw [hPa, hPb] at h
      simp only [] at h
      have hsepA : Separated a.kv.v := separated_of_subset _ _ hsep (fun y hy => by simp [hy])
      have hsepB : Separated b.kv.v := separated_of_subset _ _ hsep (fun y hy => by simp [hy])
      have hsepC : Separated c.v := separated_of_subset _ _ hsep (fun y hy => by simp [hy])
      have hsepAC : Separated (a.kv.v ++ c.v) := separated_of_subset _ _ hsep (fun y hy => by
        rcases List.mem_append.mp hy with h1 | h1 <;> simp [h1])
      have hsepBC : Separated (b.kv.v ++ c.v) := separated_of_subset _ _ hsep (fun y hy => by
        rcases List.mem_append.mp hy with h1 | h1 <;> simp [h1])
      have hrepA := matrixTransformation_repro a.kv c ma hwa hwc hsepAC hdega hrefa hma
      have hrepB := matrixTransformation_repro b.kv c mb hwb hwc hsepBC hdegb hrefb hmb
      have hs := (mk?_spec _ _ _ _ h).1
      have hna : 0 < a.kv.npts := by have := hwa.npts_gt; unfold KV.npts; omega
      have hnb : 0 < b.kv.npts := by have := hwb.npts_gt; unfold KV.npts; omega
      have hnc : 0 < c.npts := by have := hwc.npts_gt; unfold KV.npts; omega
      have hua : a.kv.umin ≤ u ∧ u ≤ a.kv.umax := by rw [← hrepA.umin, ← hrepA.umax]; exact hu
      have hub : b.kv.umin ≤ u ∧ u ≤ b.kv.umax := by rw [← hrepB.umin, ← hrepB.umax]; exact hu
      refine ⟨_, _, C01_eval_eq_def_WF a pa u hPa hwa hsepA hua (by intro ws hws; rw [hWa] at hws; cases hws),
        C01_eval_eq_def_WF b pb u hPb hwb hsepB hub (by intro ws hws; rw [hWb] at hws; cases hws), ?_⟩
      rw [hs, C01_eval_eq_def_WF _ _ u rfl hwc hsepC hu (by intro ws hws; cases hws)]
      congr 1
      rw [hWa, hWb]
      unfold curveDef
      simp only []
      set QA := matPts ma pa with hQA
      set QB := matPts mb pb with hQB
      have dQA := matPts_dims ma pa d _ _ hrepA.shaped hla hna hda
      have dQB := matPts_dims mb pb d _ _ hrepB.shaped hlb hnb hdb
      have lQA : QA.length = c.npts := by simp [hQA, matPts, hrepA.shaped.1]
      have lQB : QB.length = c.npts := by simp [hQB, matPts, hrepB.shaped.1]
      have hzip : List.zipWith vaddBroadcast QA QB = List.zipWith vadd QA QB := by
        apply List.ext_getElem (by simp)
        intro i h1 h2
        simp only [List.getElem_zipWith]
        have e1 : (QA[i]'(by simp at h1; omega)).length = d := dQA _ (List.getElem_mem _)
        have e2 : (QB[i]'(by simp at h1; omega)).length = d := dQB _ (List.getElem_mem _)
        simp [vaddBroadcast, e1, e2]
      rw [hzip, ← repro_lincomb a.kv c ma hrepA pa d hla hda hna hnc u hua,
        ← repro_lincomb b.kv c mb hrepB pb d hlb hdb hnb hnc u hub]
      set row := cdbRow c.v c.umax c.npts c.deg u with hrow
      have lrow : row.length = c.npts := by simp [hrow, cdbRow]
      have dZ := zipWith_vadd_dims QA QB d dQA dQB
      obtain ⟨l0, c0⟩ := lincomb_spec row (List.zipWith vadd QA QB) d (by simp [lrow, lQA, lQB]) (by simp [lQA, lQB]; omega) dZ
      obtain ⟨l1, c1⟩ := lincomb_spec row QA d (by rw [lrow, lQA]) (by omega) dQA
      obtain ⟨l2, c2⟩ := lincomb_spec row QB d (by rw [lrow, lQB]) (by omega) dQB
      apply vec_ext_getD _ _ (by rw [l0, vadd_length _ _ d l1 l2])
      intro j
      rw [c0 j, vadd_getD _ _ d l1 l2 j, c1 j, c2 j, coordCol_zipWith_vadd QA QB d dQA dQB j]
      exact dot_zipWith_add row _ _ c.npts lrow (by simp [coordCol, lQA]) (by simp [coordCol, lQB])

end NV
