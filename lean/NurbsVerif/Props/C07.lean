/-
Props/C07.lean — property C07 (split): the mathematical content of `split_curve`.
`split_curve` inserts every cut up to multiplicity `degree+1` (the matrix of `knot_insert`, for which
`knotInsertMat_reached` proves that every spline function is reproduced over the refined vector) and hands out
consecutive blocks of rows of that matrix over the corresponding windows of the refined knot vector.  Proved here:
**a window of the refined control values over the window of the refined knots is the same function on every span
of the window** — the Cox–de Boor functions only look at the knots of their support (shift invariance), and only
`degree+1` of them are alive on a span.  (Which rows and which knots the code selects is list bookkeeping, checked per
input by the correspondence `curve.split` and the oracle `rf.eqsub`.)
-/
import NurbsVerif.Proofs.InsertMat

namespace NV
open Finset

/-- the span recursion only looks at the knots it is given: shifting the knot function shifts the indices -/
theorem cdbSpan_shift (t : Nat → Rat) (lo : Nat) (u : Rat) :
    ∀ j sz i, cdbSpan (fun k => t (k + lo)) sz i j u = cdbSpan t (sz + lo) (i + lo) j u := by
  intro j
  induction j with
  | zero =>
    intro sz i
    simp only [cdbSpan]
    by_cases h : i = sz
    · subst h; simp
    · have : ¬ i + lo = sz + lo := by omega
      simp [h, this]
  | succ j ih =>
    intro sz i
    simp only [cdbSpan]
    rw [ih sz i, ih sz (i + 1)]
    have e1 : i + j + 1 + lo = i + lo + j + 1 := by omega
    have e2 : i + j + 2 + lo = i + lo + j + 2 := by omega
    have e3 : i + 1 + lo = i + lo + 1 := by omega
    rw [e1, e2, e3]

/-- **C07 (a piece is the curve on its window).**  Let `Q` be control values over the knot function `t` (the refined
vector) and let the piece take the values `Q_{lo}, Q_{lo+1}, …` over the shifted knots `t_{lo}, t_{lo+1}, …`.  On every
span `sz' ≥ p` of the piece (span `sz' + lo` of the refined vector) both are the same function of `u`. -/
theorem C07_window (t : Nat → Rat) (lo p sz' : Nat) (hp : p ≤ sz') (Q : Nat → Rat) (u : Rat) :
    spanSum (fun k => t (k + lo)) sz' p u (fun r => Q (r + lo)) = spanSum t (sz' + lo) p u Q := by
  unfold spanSum
  -- right-hand side: only the indices `lo ≤ i ≤ sz' + lo` are alive
  have hR : ∑ i ∈ range (sz' + lo + 1), Q i * cdbSpan t (sz' + lo) i p u
      = ∑ r ∈ range (sz' + 1), Q (r + lo) * cdbSpan t (sz' + lo) (r + lo) p u := by
    have e : sz' + lo + 1 = lo + (sz' + 1) := by omega
    rw [e, sum_range_add]
    have hz : ∑ i ∈ range lo, Q i * cdbSpan t (sz' + lo) i p u = 0 := by
      apply sum_eq_zero
      intro i hi
      simp only [mem_range] at hi
      rw [cdbSpan_eq_zero_of_lt t (sz' + lo) u p i (by omega)]; ring
    rw [hz, zero_add]
    apply sum_congr rfl
    intro r _
    rw [Nat.add_comm lo r]
  rw [hR]
  apply sum_congr rfl
  intro r _
  rw [cdbSpan_shift t lo u p sz' r]

end NV
