/-
Props/C05.lean / C06 — knot removal and degree change: the resulting knot vectors.
(Exactness and the deviation bound are decided per input by the oracles of `Props/Oracles.lean`.)
-/
import NurbsVerif.Props.C04

namespace NV

/-- the knot vector of whatever `update` returns is the requested one (or the old one when nothing changes) -/
theorem update_kv (c : Curve) (newk : KV) (tol : Option Rat) (nodes : Option (List Rat)) (c' : Curve)
    (h : c.update newk tol nodes = .ok c') : c'.kv = newk := by
  unfold Curve.update at h
  simp only [bind, Except.bind, pure, Except.pure] at h
  split at h
  · rename_i heq
    cases h
    have : newk = c.kv := of_decide_eq_true heq
    exact this.symm
  · repeat' (split at h)
    all_goals first
      | (cases h; done)
      | (cases h; rfl)
      | exact (congrArg Curve.kv (mk?_spec _ _ _ _ h).1)

/-- **C05 (knots).**  An accepted `knot_remove(nodes)` leaves exactly the old knot vector minus the nodes
(each node removed once per occurrence in the request). -/
theorem C05_knots (c c' : Curve) (nodes : List Rat) (tol : Option Rat) (h : c.knotRemove nodes tol = .ok c') :
    removeAll nodes c.kv.v = some c'.kv.v := by
  simp only [Curve.knotRemove, bind, Except.bind] at h
  split at h
  · cases h
  · rename_i newk hrem
    have hk := update_kv c newk tol _ c' h
    simp only [KV.remove] at hrem
    split at hrem
    · cases hrem
    · rename_i l hl
      rw [hk, (mk?_ok _ _ hrem).2.1]
      exact hl

/-- removing an absent knot (or more copies than present) is refused with ValueError -/
theorem C05_absent_rejected (c : Curve) (nodes : List Rat) (tol : Option Rat) (h : removeAll nodes c.kv.v = none) :
    c.knotRemove nodes tol = .error .value := by
  simp [Curve.knotRemove, KV.remove, h, bind, Except.bind]

/-- **C06 (knots).**  An accepted `degree_increase(t)` raises every distinct knot's multiplicity by `t`: the new
vector is the sorted concatenation of the old one with `t` copies of the distinct knots. -/
theorem C06_elevation_knots (c c' : Curve) (t : Nat) (h : c.degreeIncrease t = .ok c') :
    c'.kv.v = isort (c.kv.v ++ KV.repeatList t c.kv.knots) := by
  simp only [Curve.degreeIncrease, bind, Except.bind] at h
  split at h
  · cases h
  · split at h
    · cases h
    · rename_i newk hins
      split at h
      · cases h
      · have hk : c'.kv = newk := by
          unfold Curve.apply at h
          simp only [bind, Except.bind, pure, Except.pure] at h
          repeat' (split at h)
          all_goals first
            | (cases h; done)
            | (cases h; rfl)
            | exact (congrArg Curve.kv (mk?_spec _ _ _ _ h).1)
        simp only [KV.insert] at hins
        split at hins
        · cases hins
        · rw [hk]; exact (mk?_ok _ _ hins).2.1

/-- `degree_increase(0)` and `degree_decrease(0)` are refused with ValueError -/
theorem C06_zero_times_rejected (c : Curve) (tol : Option Rat) :
    c.degreeIncrease 0 = .error .value ∧ c.degreeDecrease 0 tol = .error .value := by
  constructor <;> rfl

end NV
