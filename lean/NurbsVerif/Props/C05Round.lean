/-
Props/C05Round.lean — property C05, the functional core: **removing the knots that were just inserted gives back the
curve** (polynomial curves; every degree, every node list, every tolerance that lets the request through).
`knot_remove` refits by least squares on the smaller vector (with interpolation at the knots); `fit_left_inverse`
shows that this fit is a left inverse of the insertion matrix.
-/
import NurbsVerif.Proofs.Removal
import NurbsVerif.Props.C04Eval

namespace NV
open Finset

/-- what an accepted insertion on a polynomial curve produces -/
theorem knotInsert_unpack (c c1 : Curve) (nodes : List Rat) (pts : List Vec)
    (hP : c.P = some pts) (hW : c.W = none) (hwf : WF c.kv.v c.kv.deg) (hsep : Separated (c.kv.v ++ nodes))
    (h : c.knotInsert nodes = .ok c1) :
    ∃ (k : KV) (M : Mat), c1 = ⟨k, some (matPts M pts), none⟩ ∧ Repro c.kv k M ∧ WF k.v k.deg
      ∧ k.v = isort (c.kv.v ++ nodes) := by
  unfold Curve.knotInsert at h
  simp only [bind, Except.bind] at h
  split at h
  · cases h
  · rename_i newk hins
    split at h
    · cases h
    · rename_i hdeg
      simp only [bne_iff_ne, ne_eq, Decidable.not_not] at hdeg
      split at h
      · cases h
      · rename_i m hm
        obtain ⟨kf, hrep, hwff, hkfv⟩ := knotInsertMat_reached c.kv nodes m hwf hsep hm
        rw [accepted_nodes_interior c.kv newk nodes hwf hins hdeg] at hkfv
        have hnewv : newk.v = isort (c.kv.v ++ nodes) := by
          unfold KV.insert at hins
          split at hins
          · cases hins
          · exact (mk?_ok _ _ hins).2.1
        have hkf : kf = newk := by
          cases kf; cases newk
          simp only at hkfv hnewv hdeg
          have := hrep.deg
          simp only at this
          simp [hkfv, hnewv, this, hdeg]
        subst hkf
        refine ⟨kf, m, ?_, hrep, hwff, hkfv⟩
        unfold Curve.apply at h
        rw [hP, hW] at h
        simp only [Option.map_some] at h
        exact (mk?_spec _ _ _ _ h).1

theorem removeFirst_perm (x : Rat) : ∀ (l l' : List Rat), removeFirst x l = some l' → l.Perm (x :: l') ∧ l'.Sublist l
  | [], l', h => by simp [removeFirst] at h
  | y :: ys, l', h => by
    simp only [removeFirst] at h
    split at h
    · rename_i hy
      simp only [Option.some.injEq] at h
      subst h
      have : y = x := by simpa using hy
      subst this
      exact ⟨List.Perm.refl _, List.sublist_cons_self _ _⟩
    · simp only [Option.map_eq_some_iff] at h
      obtain ⟨r, hr, rfl⟩ := h
      obtain ⟨p1, p2⟩ := removeFirst_perm x ys r hr
      exact ⟨(List.Perm.cons y p1).trans (List.Perm.swap x y r), p2.cons₂ y⟩

theorem removeAll_perm : ∀ (xs v l : List Rat), removeAll xs v = some l → v.Perm (xs ++ l) ∧ l.Sublist v
  | [], v, l, h => by
    simp only [removeAll, List.foldl_nil, Option.some.injEq] at h
    subst h; exact ⟨List.Perm.refl _, List.Sublist.refl _⟩
  | x :: xs, v, l, h => by
    simp only [removeAll, List.foldl_cons, Option.bind_some] at h
    cases hv : removeFirst x v with
    | none =>
      rw [hv] at h
      have : ∀ ys : List Rat, ys.foldl (fun acc x => acc.bind (removeFirst x)) (none : Option (List Rat)) = none := by
        intro ys; induction ys with
        | nil => rfl
        | cons a as ih => simpa using ih
      rw [this] at h; cases h
    | some v1 =>
      rw [hv] at h
      obtain ⟨p1, s1⟩ := removeFirst_perm x v v1 hv
      obtain ⟨p2, s2⟩ := removeAll_perm xs v1 l h
      exact ⟨p1.trans (List.Perm.cons x p2), s2.trans s1⟩

theorem matPts_matMul (A B : Mat) (r n c d : Nat) (hA : Shaped A r n) (hB : Shaped B n c) (hn : 0 < n) (hc : 0 < c)
    (hr : 0 < r) (pts : List Vec) (hlen : pts.length = c) (hd : ∀ p ∈ pts, p.length = d) :
    matPts (matMul A B) pts = matPts A (matPts B pts) := by
  have hAB := matMul_shaped A B r n c hA hB hn
  have dB := matPts_dims B pts d n c hB hlen hc hd
  have lB : (matPts B pts).length = n := by simp [matPts, hB.1]
  have d1 := matPts_dims (matMul A B) pts d r c hAB hlen hc hd
  have d2 := matPts_dims A (matPts B pts) d r n hA lB hn dB
  apply List.ext_getElem (by simp [matPts, hAB.1, hA.1])
  intro i h1 h2
  apply vec_ext_getD _ _ (by rw [d1 _ (List.getElem_mem h1), d2 _ (List.getElem_mem h2)])
  intro j
  have e1 := coordCol_matPts (matMul A B) pts d r c hAB hlen hc hd j
  have e2 := coordCol_matPts A (matPts B pts) d r n hA lB hn dB j
  have e3 := coordCol_matPts B pts d n c hB hlen hc hd j
  have hi : i < r := by simpa [matPts, hAB.1] using h1
  have g1 : ((matPts (matMul A B) pts)[i]).getD j 0 = (coordCol (matPts (matMul A B) pts) j).getD i 0 := by
    simp [coordCol, List.getD_eq_getElem?_getD, h1]
  have g2 : ((matPts A (matPts B pts))[i]).getD j 0 = (coordCol (matPts A (matPts B pts)) j).getD i 0 := by
    simp [coordCol, List.getD_eq_getElem?_getD, h2]
  rw [g1, g2, e1, e2, e3, matVec_matMul A B r n c hA hB hn _ (by simp [coordCol, hlen])]

theorem matPts_identity (pts : List Vec) (d : Nat) (hd : ∀ p ∈ pts, p.length = d) (hpos : 0 < pts.length) :
    matPts (identity pts.length) pts = pts := by
  have hI := identity_shaped pts.length
  have d1 := matPts_dims (identity pts.length) pts d _ _ hI rfl hpos hd
  apply List.ext_getElem (by simp [matPts, hI.1])
  intro i h1 h2
  apply vec_ext_getD _ _ (by rw [d1 _ (List.getElem_mem h1), hd _ (List.getElem_mem h2)])
  intro j
  have e1 := coordCol_matPts (identity pts.length) pts d _ _ hI rfl hpos hd j
  have g1 : ((matPts (identity pts.length) pts)[i]).getD j 0 = (coordCol (matPts (identity pts.length) pts) j).getD i 0 := by
    simp [coordCol, List.getD_eq_getElem?_getD, h1]
  have g2 : (pts[i]).getD j 0 = (coordCol pts j).getD i 0 := by
    simp [coordCol, List.getD_eq_getElem?_getD, h2]
  rw [g1, g2, e1, matVec_identity _ _ (by simp [coordCol])]

theorem mk?_self (a : KV) (hwf : WF a.v a.deg) : KV.mk? a.v = .ok a := by
  have hd : a.deg = cnt a.v (a.v.headD 0) - 1 := by have := hwf.first; omega
  have hv := WF_isValid a.v a.deg hd hwf
  unfold KV.mk?
  rw [if_pos hv]
  simp only []
  cases a
  simp only at hd ⊢
  rw [← hd]

theorem knots_ne_nil (k : KV) (g : GoodKV k) : k.knots ≠ [] := by
  intro h
  have : nth k.v k.deg ∈ k.knots := by
    rw [mem_knots k g]
    exact ⟨k.deg, le_refl _, le_of_lt g.deg_lt, rfl⟩
  rw [h] at this
  cases this

/-- **C05 (removal undoes insertion).**  For every polynomial model curve, every non-empty node list and every
tolerance: if `knot_insert(nodes)` is accepted and the following `knot_remove(nodes, tolerance)` is accepted, the
result is the original curve — the same knot vector and exactly the same control points. -/
theorem C05_insert_then_remove (c c1 c2 : Curve) (nodes : List Rat) (pts : List Vec) (d : Nat) (tol : Option Rat)
    (hP : c.P = some pts) (hW : c.W = none) (hlen : pts.length = c.kv.npts) (hdim : ∀ p ∈ pts, p.length = d)
    (hwf : WF c.kv.v c.kv.deg) (hsep : Separated (c.kv.v ++ nodes)) (hne : nodes ≠ [])
    (h1 : c.knotInsert nodes = .ok c1) (h2 : c1.knotRemove nodes tol = .ok c2) : c2 = c := by
  obtain ⟨k, M, hc1, hrep, hwk, hkv⟩ := knotInsert_unpack c c1 nodes pts hP hW hwf hsep h1
  subst hc1
  have hsepU : Separated c.kv.v := separated_of_subset _ _ hsep (fun y hy => by simp [hy])
  have hsepK : Separated k.v := by
    apply separated_of_subset _ _ hsep
    intro y hy; rw [hkv, mem_isort] at hy; exact hy
  have g0 : GoodKV c.kv := by
    have := goodKV_of_WF c.kv.v c.kv.deg hwf hsepU
    cases hk : c.kv; rw [hk] at this; exact this
  have g1 : GoodKV k := by
    have := goodKV_of_WF k.v k.deg hwk hsepK
    cases k; exact this
  have hc0 : orderedCheck c.kv = true := by
    have := orderedCheck_of_WF c.kv.v c.kv.deg hwf
    cases hk : c.kv; rw [hk] at this; exact this
  have hc1 : orderedCheck k = true := by
    have := orderedCheck_of_WF k.v k.deg hwk
    cases k; exact this
  unfold Curve.knotRemove at h2
  simp only [bind, Except.bind] at h2
  split at h2
  · cases h2
  · rename_i newk hrem
    -- the vector after the removal is the original one
    have hnewk : newk = c.kv := by
      unfold KV.remove at hrem
      split at hrem
      · cases hrem
      · rename_i l hl
        obtain ⟨p1, s1⟩ := removeAll_perm nodes k.v l hl
        have hsl : l.Pairwise (· ≤ ·) := (pairwise_of_sortedLE k.v hwk.sorted).sublist s1
        have hperm : l.Perm c.kv.v := by
          have e1 : (nodes ++ l).Perm (nodes ++ c.kv.v) := by
            refine p1.symm.trans ?_
            rw [hkv]
            exact (perm_isort _).trans List.perm_append_comm
          exact (List.perm_append_left_iff nodes).mp e1
        have hl' : l = c.kv.v := by
          apply List.Perm.eq_of_pairwise (le := (· ≤ ·))
          · intro a b _ _ h1 h2; exact le_antisymm h1 h2
          · exact hsl
          · exact pairwise_of_sortedLE c.kv.v hwf.sorted
          · exact hperm
        rw [hl', mk?_self c.kv hwf] at hrem
        simp only [Except.ok.injEq] at hrem
        exact hrem.symm
    subst hnewk
    -- `update`: a genuinely different vector
    unfold Curve.update at h2
    have hneq : (c.kv == k) = false := by
      have : c.kv ≠ k := by
        intro e
        have hl := congrArg (fun x => x.v.length) e
        simp only [hkv, length_isort, List.length_append] at hl
        have : 0 < nodes.length := List.length_pos_of_ne_nil hne
        omega
      simpa using this
    simp only [hneq, Bool.false_eq_true, if_false, bind, Except.bind, pure, Except.pure] at h2
    split at h2
    · cases h2
    · simp only [Curve.updatePoly, Curve.fitSpline, bind, Except.bind, pure, Except.pure] at h2
      split at h2
      · cases h2
      · rename_i q hq
        split at hq
        · cases hq
        · rename_i res hres
          split at hres
          · cases hres
          · rename_i TE hTE
            obtain ⟨T, E⟩ := TE
            simp only [Except.ok.injEq] at hres
            subst hres
            simp only [] at hq
            split at hq
            · cases hq
            · simp only [Except.ok.injEq] at hq
              subst hq
              have hc2 := (mk?_spec _ _ _ _ h2).1
              -- the least-squares matrix is a left inverse of the insertion matrix
              have hfn : ∀ ns, (if c.kv.deg != 0 then some c.kv.knots else none) = some ns → ns ≠ [] := by
                intro ns hns
                split at hns
                · simp only [Option.some.injEq] at hns; subst hns; exact knots_ne_nil c.kv g0
                · cases hns
              obtain ⟨sT, hTM⟩ := fit_left_inverse c.kv k M T E _ hfn hrep.toW g0 g1 hc0 hc1 hTE
              have hn0 : 0 < c.kv.npts := by have := g0.deg_lt; omega
              have hn1 : 0 < k.npts := by have := g1.deg_lt; omega
              rw [hc2, ← matPts_matMul T M _ _ _ d sT hrep.shaped hn1 hn0 hn0 pts hlen hdim, hTM, ← hlen,
                matPts_identity pts d hdim (by omega)]
              cases c
              simp only at hP hW
              simp [hP, hW]

/-! non-vacuity: a degree-2 curve with an interior knot; a new node is inserted twice and removed twice — both requests
are accepted by the model and the original curve comes back -/
def exC05 : Curve := ⟨⟨[0, 0, 0, mkRat 1 2, 1, 1, 1], 2⟩, some [[1], [3], [-2], [5]], none⟩

example : (match exC05.knotInsert [mkRat 1 4, mkRat 1 4] with
    | .ok c1 => (match c1.knotRemove [mkRat 1 4, mkRat 1 4] (some tol9) with
        | .ok c2 => c2 == exC05
        | .error _ => false)
    | .error _ => false) = true := by decide +kernel

end NV
