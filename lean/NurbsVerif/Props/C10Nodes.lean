/-
Props/C10Nodes.lean — property C10, the node half for the equally spaced rules: the nodes of the closed and of the open
Newton–Cotes rules lie in [0, 1] and are strictly increasing, for every number of nodes.
-/
import NurbsVerif.Props.C10

namespace NV

theorem C10_open_nodes (n : Nat) (i : Nat) (hi : i < n) :
    (openLinspace n).getD i 0 = ((2 * i + 1 : Nat) : Rat) / ((2 * n : Nat) : Rat)
      ∧ 0 < (openLinspace n).getD i 0 ∧ (openLinspace n).getD i 0 < 1
      ∧ (i + 1 < n → (openLinspace n).getD i 0 < (openLinspace n).getD (i + 1) 0) := by
  have hn : (0 : Rat) < ((2 * n : Nat) : Rat) := by exact_mod_cast (by omega : 0 < 2 * n)
  have hv : ∀ k, k < n → (openLinspace n).getD k 0 = ((2 * k + 1 : Nat) : Rat) / ((2 * n : Nat) : Rat) := by
    intro k hk
    simp [openLinspace, List.getD_eq_getElem?_getD, hk]
  refine ⟨hv i hi, ?_, ?_, ?_⟩
  · rw [hv i hi]; apply div_pos _ hn; exact_mod_cast (by omega : 0 < 2 * i + 1)
  · rw [hv i hi, div_lt_one hn]; exact_mod_cast (by omega : 2 * i + 1 < 2 * n)
  · intro h1
    rw [hv i hi, hv (i + 1) h1, div_lt_div_iff_of_pos_right hn]
    exact_mod_cast (by omega : 2 * i + 1 < 2 * (i + 1) + 1)

theorem C10_closed_nodes (n : Nat) (hn2 : 2 ≤ n) (i : Nat) (hi : i < n) :
    (closedLinspace n).getD i 0 = ((i : Nat) : Rat) / ((n - 1 : Nat) : Rat)
      ∧ 0 ≤ (closedLinspace n).getD i 0 ∧ (closedLinspace n).getD i 0 ≤ 1
      ∧ (closedLinspace n).getD 0 0 = 0 ∧ (closedLinspace n).getD (n - 1) 0 = 1
      ∧ (i + 1 < n → (closedLinspace n).getD i 0 < (closedLinspace n).getD (i + 1) 0) := by
  have hn : (0 : Rat) < ((n - 1 : Nat) : Rat) := by exact_mod_cast (by omega : 0 < n - 1)
  have hv : ∀ k, k < n → (closedLinspace n).getD k 0 = ((k : Nat) : Rat) / ((n - 1 : Nat) : Rat) := by
    intro k hk
    simp [closedLinspace, List.getD_eq_getElem?_getD, hk]
  refine ⟨hv i hi, ?_, ?_, ?_, ?_, ?_⟩
  · rw [hv i hi]; apply div_nonneg _ (le_of_lt hn); exact_mod_cast Nat.zero_le i
  · rw [hv i hi, div_le_one hn]; exact_mod_cast (by omega : i ≤ n - 1)
  · rw [hv 0 (by omega)]; simp
  · rw [hv (n - 1) (by omega)]; exact div_self (ne_of_gt hn)
  · intro h1
    rw [hv i hi, hv (i + 1) h1, div_lt_div_iff_of_pos_right hn]
    exact_mod_cast (by omega : i < i + 1)

end NV

namespace NV

/-- the weights of the open rules (n ≤ 16) integrate the constant 1 exactly: `Σ w_i · 1 = 1` -/
theorem C10_open_weights_sum_one (n : Nat) (h1 : 1 ≤ n) (h16 : n ≤ 16) (w : List Rat) (hw : openRule? n = some w) :
    quad w (openLinspace n) (fun _ => 1) = 1 := by
  have := C10_open_exact n h1 h16 w hw [1] (by simp; omega)
  have e : horner [1] = fun _ => (1 : Rat) := by funext x; simp [horner]
  rw [e] at this
  rw [this]
  have : pintegral [1] 0 1 = 1 := by decide +kernel
  exact this

theorem C10_closed_weights_sum_one (n : Nat) (h2 : 2 ≤ n) (h16 : n ≤ 16) (w : List Rat) (hw : closedRule? n = some w) :
    quad w (closedLinspace n) (fun _ => 1) = 1 := by
  have := C10_closed_exact n h2 h16 w hw [1] (by simp; omega)
  have e : horner [1] = fun _ => (1 : Rat) := by funext x; simp [horner]
  rw [e] at this
  rw [this]
  have : pintegral [1] 0 1 = 1 := by decide +kernel
  exact this

end NV
